(* C20 -- property theorems only: each is closed by [exact] of a lemma proved elsewhere.
   Model: Pulse/PulseModel.v (util/PulseNode.{h,cpp}); oracles gt/pl = the virtual GetPulseTime()/Pulse(). *)
From Coq Require Import List Arith NArith Lia.
From Muscle Require Import Pulse.PulseModel Pulse.PulseInv Pulse.PulseOps Pulse.PulseSweep Pulse.PulseReach Pulse.PulseMin
     Pulse.PulseExact Pulse.PulseAsk Pulse.PulseRefuted Pulse.PulseForest Pulse.PulseFuel Pulse.PulseDepth Pulse.PulseFuelAny Pulse.PulseSafe.
Import ListNotations.

(* the translated constant the model's clamp rests on *)
Theorem C20_never_is_uint64_max : NEVER = (2 ^ 64 - 1)%N.
Proof. exact never_is_uint64_max. Qed.
Print Assumptions C20_never_is_uint64_max.

(* reach_inv: every state reachable by any history of create/attach/detach/clear/destroy/invalidate operations and
   manager sweeps -- with Pulse() callbacks that may perform any such operations on any nodes, and GetPulseTime()
   callbacks that are arbitrary functions performing no operations -- satisfies the invariants [Good]:
   well-formed intrusive lists, sorted scheduled lists, exact aggregates of valid listed nodes, and every node
   whose time is not valid is on its parent's needs-recalc list (hence on a needs-recalc path to its root). *)
Theorem C20_reach_inv :
  forall (gt : nmap -> nat -> nat -> N -> N -> N * list cop) (pl : nmap -> nat -> nat -> N -> N -> list cop),
    (forall m x k now prev, snd (gt m x k now prev) = []) ->
    forall f os s, run gt pl f init_state os = Some s -> Good nobody (nd s).
Proof. exact reach_inv. Qed.
Print Assumptions C20_reach_inv.

(* the invariants survive every single operation a Pulse() callback (or anybody) performs, also in the middle of a
   pulse sweep (G = the nodes whose PulseAux is running) *)
Theorem C20_cop_preserves :
  forall G f m o m', Good G m -> apply_cop f m o = Some m' -> Good G m'.
Proof. exact apply_cop_good. Qed.
Print Assumptions C20_cop_preserves.

(* recalc_min: the wake-up time the root reports is the minimum of the times requested by all attached nodes, and
   after the sweep every attached node has been asked (valid) and nothing awaits recalculation *)
Theorem C20_recalc_min :
  forall (gt : nmap -> nat -> nat -> N -> N -> N * list cop),
    (forall m x k now prev, snd (gt m x k now prev) = []) ->
    forall f s r now s',
      Good nobody (nd s) -> is_root (nd s) r = true -> top_get gt f s r now = Some s' ->
      exists mn, hd_error (evs s') = Some (EMin r mn) /\ mn = agg (nd s' r) /\
        Good nobody (nd s') /\
        (forall y, desc (nd s') r y -> settled (nd s') y /\ (mn <= sched (nd s' y))%N) /\
        (exists y, desc (nd s') r y /\ sched (nd s' y) = mn) /\
        (forall y, parent (nd s' y) = parent (nd s y)).
Proof. exact recalc_min. Qed.
Print Assumptions C20_recalc_min.

(* recalc_asks ("each such node is asked again for its next time before the next wait"): the recalculation sweep calls
   GetPulseTime() on exactly the attached nodes whose time is not valid (fired, invalidated, newly attached), once each,
   with (now, previous value), and on nobody else *)
Theorem C20_recalc_asks :
  forall (gt : nmap -> nat -> nat -> N -> N -> N * list cop),
    (forall m x k now prev, snd (gt m x k now prev) = []) ->
    forall f s r now s',
      Good nobody (nd s) -> is_root (nd s) r = true -> top_get gt f s r now = Some s' ->
      exists mn d, evs s' = EMin r mn :: d ++ evs s /\ NoDup (map ev_node d) /\
        (forall e, In e d -> exists y k, e = EGet y k now (sched (nd s y)) /\ desc (nd s) r y /\ valid (nd s y) = false) /\
        (forall y, desc (nd s) r y -> valid (nd s y) = false -> exists k, In (EGet y k now (sched (nd s y))) d).
Proof. exact recalc_asks. Qed.
Print Assumptions C20_recalc_asks.

(* an invalid node cannot be forgotten ("a timer that silently never fires"): in every Good state an attached node whose
   time is not valid, and every one of its ancestors that has a parent, is on a needs-recalc list *)
Theorem C20_invalid_on_recalc_path :
  forall m x, Good nobody m -> valid (m x) = false ->
    forall a, desc m a x -> parent (m a) <> None -> cur (m a) = LRecalc.
Proof. exact invalid_on_recalc_path. Qed.
Print Assumptions C20_invalid_on_recalc_path.

(* cycle_exact: THE PROPERTY for one manager cycle (recalculation sweep, then pulse sweep -- what ReflectServer does when
   it wakes up) from any Good state, with callbacks that perform no operations: all attached nodes asked, reported time =
   minimum of the requested times, Pulse() on exactly the attached nodes with requested time <= now, once each, with
   (now, requested time), each invalid and queued for being asked again afterwards *)
Theorem C20_cycle_exact :
  forall (gt : nmap -> nat -> nat -> N -> N -> N * list cop) (pl : nmap -> nat -> nat -> N -> N -> list cop),
    (forall m x k now prev, snd (gt m x k now prev) = []) -> (forall m x k now st, pl m x k now st = []) ->
    forall f s r now s',
      (now < NEVER)%N -> Good nobody (nd s) -> is_root (nd s) r = true ->
      step gt pl f s (TCycle r now) = Some s' ->
      exists s1 mn,
        top_get gt f s r now = Some s1 /\ top_pulse pl f s1 r now = Some s' /\
        hd_error (evs s1) = Some (EMin r mn) /\
        (forall y, desc (nd s1) r y -> valid (nd s1 y) = true /\ (mn <= sched (nd s1 y))%N) /\
        (exists y, desc (nd s1) r y /\ sched (nd s1 y) = mn) /\
        Good nobody (nd s') /\
        exists d, evs s' = d ++ evs s1 /\ NoDup (map ev_node d) /\
          (forall e, In e d -> exists y k, e = EPulse y k now (sched (nd s1 y)) /\ desc (nd s1) r y /\ (sched (nd s1 y) <= now)%N) /\
          (forall y, desc (nd s1) r y -> (sched (nd s1 y) <= now)%N -> exists k, In (EPulse y k now (sched (nd s1 y))) d) /\
          (forall y, desc (nd s1) r y -> (sched (nd s1 y) <= now)%N ->
                     valid (nd s' y) = false /\ (parent (nd s' y) <> None -> cur (nd s' y) = LRecalc)).
Proof. exact cycle_exact. Qed.
Print Assumptions C20_cycle_exact.

(* pulse_exact: on a freshly recalculated tree, with Pulse() callbacks that do not restructure it, a pulse sweep at
   time now calls Pulse() on exactly the attached nodes whose requested time is <= now, once each, with
   (now, requested time); each is invalid afterwards and on its parent's needs-recalc list *)
Theorem C20_pulse_exact :
  forall (pl : nmap -> nat -> nat -> N -> N -> list cop),
    (forall m x k now st, pl m x k now st = []) ->
    forall f s r now s',
      (now < NEVER)%N ->
      Good nobody (nd s) -> is_root (nd s) r = true -> settled (nd s) r ->
      agg (nd s r) = N.min (sched (nd s r)) (first_sched_agg (nd s) r) ->
      top_pulse pl f s r now = Some s' ->
      Good nobody (nd s') /\
      exists d, evs s' = d ++ evs s /\ NoDup (map ev_node d) /\
        (forall e, In e d -> exists y k, e = EPulse y k now (sched (nd s y)) /\ desc (nd s) r y /\ (sched (nd s y) <= now)%N) /\
        (forall y, desc (nd s) r y -> (sched (nd s y) <= now)%N -> exists k, In (EPulse y k now (sched (nd s y))) d) /\
        (forall y, desc (nd s) r y -> (sched (nd s y) <= now)%N ->
                   valid (nd s' y) = false /\ (parent (nd s' y) <> None -> cur (nd s' y) = LRecalc)).
Proof. exact pulse_exact. Qed.
Print Assumptions C20_pulse_exact.

(* pulse_exact_gen: the same with NO restriction on the pulse instant (MUSCLE_TIME_NEVER included): exactly the attached
   nodes with requested time <= now that are the root or have a finite aggregate fire; C20_never_request_not_fired spells
   out the boundary: at now = MUSCLE_TIME_NEVER a node that asked for "never" with nothing finite below it does not fire *)
Theorem C20_pulse_exact_gen :
  forall (pl : nmap -> nat -> nat -> N -> N -> list cop),
    (forall m x k now st, pl m x k now st = []) ->
    forall f s r now s',
      Good nobody (nd s) -> is_root (nd s) r = true -> settled (nd s) r ->
      agg (nd s r) = N.min (sched (nd s r)) (first_sched_agg (nd s) r) ->
      top_pulse pl f s r now = Some s' ->
      Good nobody (nd s') /\
      exists d, evs s' = d ++ evs s /\ NoDup (map ev_node d) /\
        (forall e, In e d -> exists y k, e = EPulse y k now (sched (nd s y)) /\ fires (nd s) r now y) /\
        (forall y, fires (nd s) r now y -> exists k, In (EPulse y k now (sched (nd s y))) d) /\
        (forall y, fires (nd s) r now y ->
                   valid (nd s' y) = false /\ (parent (nd s' y) <> None -> cur (nd s' y) = LRecalc)).
Proof. exact pulse_exact_gen. Qed.
Print Assumptions C20_pulse_exact_gen.

Theorem C20_never_request_not_fired :
  forall (pl : nmap -> nat -> nat -> N -> N -> list cop),
    (forall m x k now st, pl m x k now st = []) ->
    forall f s r s' y,
      Good nobody (nd s) -> is_root (nd s) r = true -> settled (nd s) r ->
      agg (nd s r) = N.min (sched (nd s r)) (first_sched_agg (nd s) r) ->
      top_pulse pl f s r NEVER = Some s' ->
      desc (nd s) r y -> y <> r -> agg (nd s y) = NEVER ->
      forall k st, ~ In (EPulse y k NEVER st) (firstn (length (evs s') - length (evs s)) (evs s')).
Proof. exact never_request_not_fired. Qed.
Print Assumptions C20_never_request_not_fired.

(* pulse_never_early_once (the "no loss" companion for callbacks that DO restructure the tree from inside Pulse():
   invalidate, detach, re-parent, destroy any node): every Pulse() call of the sweep is for a node whose requested
   time was valid and <= now when the sweep began, carries that time, no node is called twice, each called node is
   invalid afterwards, and the invariants [Good] hold again -- so by C20_recalc_min the next recalculation reports a
   time <= the request of every node that is still attached, in particular of a due node the sweep did not reach *)
Theorem C20_pulse_never_early_once :
  forall (pl : nmap -> nat -> nat -> N -> N -> list cop) f s r now s',
    Good nobody (nd s) -> top_pulse pl f s r now = Some s' ->
    Good nobody (nd s') /\ ev_rel now s s'.
Proof. exact pulse_never_early_once. Qed.
Print Assumptions C20_pulse_never_early_once.

(* GetPulseTime() callbacks that DO perform operations.  [run_s] / [top_get_s] are the model with one extra check: a
   GetPulseTime() callback's operation is refused (result None) when it would invalidate, detach, re-attach or destroy a
   node whose own GetPulseTimeAux is running (the node itself or an ancestor up to the swept root).  Whenever they return
   a state, the plain model returns the same state, and:
   reach_inv_safe -- the state is Good (Pulse() callbacks arbitrary);
   recalc_min_safe -- after the sweep every attached node is valid, the root's aggregate is the minimum of the requested
   times, and the reported time is not later than it (it can be earlier: a harmless early wake-up).
   With C20_reentrant_recalc_refuted / C20_f16_history_refused the excluded callbacks are exactly those of finding F16. *)
Theorem C20_reach_inv_safe :
  forall (gt : nmap -> nat -> nat -> N -> N -> N * list cop) (pl : nmap -> nat -> nat -> N -> N -> list cop) f os s,
    run_s gt pl f init_state os = Some s -> run gt pl f init_state os = Some s /\ Good nobody (nd s).
Proof. exact reach_inv_safe. Qed.
Print Assumptions C20_reach_inv_safe.

Theorem C20_recalc_min_safe :
  forall (gt : nmap -> nat -> nat -> N -> N -> N * list cop) f s r now s',
    Good nobody (nd s) -> is_root (nd s) r = true -> top_get_s gt f s r now = Some s' ->
    top_get gt f s r now = Some s' /\
    exists mn, hd_error (evs s') = Some (EMin r mn) /\ (mn <= agg (nd s' r))%N /\
      Good nobody (nd s') /\
      (forall y, desc (nd s') r y -> settled (nd s') y /\ (agg (nd s' r) <= sched (nd s' y))%N) /\
      (exists y, desc (nd s') r y /\ sched (nd s' y) = agg (nd s' r)) /\
      agg (nd s' r) = N.min (sched (nd s' r)) (first_sched_agg (nd s') r) /\ is_root (nd s') r = true.
Proof. exact recalc_min_safe. Qed.
Print Assumptions C20_recalc_min_safe.

(* cycle_exact_safe: one manager cycle with such GetPulseTime() callbacks (and Pulse() callbacks that perform no
   operations): after the recalculation every attached node is valid and Pulse() runs on exactly the then-attached nodes
   whose requested time is <= now *)
Theorem C20_cycle_exact_safe :
  forall (gt : nmap -> nat -> nat -> N -> N -> N * list cop) (pl : nmap -> nat -> nat -> N -> N -> list cop),
    (forall m x k now st, pl m x k now st = []) ->
    forall f s r now s',
      (now < NEVER)%N -> Good nobody (nd s) -> is_root (nd s) r = true ->
      step_s gt pl f s (TCycle r now) = Some s' ->
      step gt pl f s (TCycle r now) = Some s' /\
      exists s1,
        top_get gt f s r now = Some s1 /\ top_pulse pl f s1 r now = Some s' /\
        (forall y, desc (nd s1) r y -> valid (nd s1 y) = true) /\
        Good nobody (nd s') /\
        exists d, evs s' = d ++ evs s1 /\ NoDup (map ev_node d) /\
          (forall e, In e d -> exists y k, e = EPulse y k now (sched (nd s1 y)) /\ desc (nd s1) r y /\ (sched (nd s1 y) <= now)%N) /\
          (forall y, desc (nd s1) r y -> (sched (nd s1 y) <= now)%N -> exists k, In (EPulse y k now (sched (nd s1 y))) d) /\
          (forall y, desc (nd s1) r y -> (sched (nd s1 y) <= now)%N ->
                     valid (nd s' y) = false /\ (parent (nd s' y) <> None -> cur (nd s' y) = LRecalc)).
Proof. exact cycle_exact_safe. Qed.
Print Assumptions C20_cycle_exact_safe.

Theorem C20_f16_history_refused : run_s rr_gt rr_pl 50 init_state rr_ops = None.
Proof. exact f16_history_refused. Qed.
Print Assumptions C20_f16_history_refused.

Example C20_safe_history_accepted :
  exists s, run_s sf_gt sf_pl 60 init_state sf_ops = Some s /\
            parent (nd s 3) = None /\ alive (nd s 4) = false /\ parent (nd s 1) = Some 0 /\
            length (filter (is_pulse_of 2) (evs s)) = 1.
Proof. exact safe_history_accepted. Qed.

(* the statement is REFUTED for GetPulseTime() callbacks that themselves invalidate (or re-attach) the node being
   recalculated: known finding F16, same witness as corpus/C20.txt line 1 *)
Theorem C20_reentrant_recalc_refuted :
  exists s, run rr_gt rr_pl 50 init_state rr_ops = Some s /\
    parent (nd s 1) = Some 0 /\ valid (nd s 1) = false /\ cur (nd s 1) = LUnsched /\
    length (filter (is_get_of 1) (evs s)) = 1 /\ filter (is_pulse_of 1) (evs s) = [] /\ ~ K2 nobody (nd s).
Proof. exact reentrant_recalc_refuted. Qed.
Print Assumptions C20_reentrant_recalc_refuted.

(* fuel adequacy: in any Good state, with fuel >= 2*B + N + 4 (B bounds a rank that grows from parent to child, e.g. the
   depth of the forest; N bounds the ids of the nodes in use) no operation of the manager returns OutOfFuel (None),
   for callbacks that perform no operations; C20_cop_total: the same for every user operation, in any Good state *)
Theorem C20_step_total :
  forall (gt : nmap -> nat -> nat -> N -> N -> N * list cop) (pl : nmap -> nat -> nat -> N -> N -> list cop),
    (forall m x k now prev, snd (gt m x k now prev) = []) -> (forall m x k now st, pl m x k now st = []) ->
    forall f s o, Good nobody (nd s) -> fits f (nd s) -> exists s', step gt pl f s o = Some s'.
Proof. exact step_total. Qed.
Print Assumptions C20_step_total.

(* ... and the general form: ANY Pulse() callbacks (restructuring the forest from inside the sweep), fuel >= 3N+4 where
   N bounds the ids of the nodes in use *)
Theorem C20_step_total_any :
  forall (gt : nmap -> nat -> nat -> N -> N -> N * list cop) (pl : nmap -> nat -> nat -> N -> N -> list cop),
    (forall m x k now prev, snd (gt m x k now prev) = []) ->
    forall f s o N,
      Good nobody (nd s) -> (forall y, alive (nd s y) = true -> y < N) -> 3 * N + 4 <= f ->
      exists s', step gt pl f s o = Some s'.
Proof. exact step_total_any. Qed.
Print Assumptions C20_step_total_any.

(* run_total: every history that creates only nodes with ids below N runs to completion with fuel >= 3N+4 (so the
   theorems above, stated for runs that return a state, cover every such history) *)
Theorem C20_run_total :
  forall (gt : nmap -> nat -> nat -> N -> N -> N * list cop) (pl : nmap -> nat -> nat -> N -> N -> list cop),
    (forall m x k now prev, snd (gt m x k now prev) = []) ->
    forall f N os, 3 * N + 4 <= f -> Forall (creates_below N) os -> exists s', run gt pl f init_state os = Some s'.
Proof. exact run_total_init. Qed.
Print Assumptions C20_run_total.

Theorem C20_cop_total :
  forall G rk B N f m o,
    Good G m -> edges rk m -> (forall y, rk y <= B) -> (forall y, alive (m y) = true -> y < N) ->
    N + B + 2 <= f -> exists m', apply_cop f m o = Some m'.
Proof. exact apply_cop_fuel. Qed.
Print Assumptions C20_cop_total.

(* non-vacuity: a concrete history reaches a state with a three-level tree, and its recalculation reports 5 *)
Definition ex_gt : nmap -> nat -> nat -> N -> N -> N * list cop :=
  fun _ x _ _ _ => (match x with 2 => 5%N | 1 => 9%N | _ => NEVER end, []).
Definition ex_pl : nmap -> nat -> nat -> N -> N -> list cop := fun _ _ _ _ _ => [].
Definition ex_ops : list (top) :=
  [TNew 0; TNew 1; TNew 2; TOp (CAttach 0 1); TOp (CAttach 1 2); TGet 0 1%N].

Example C20_nonvacuous :
  exists s, run ex_gt ex_pl 50 init_state ex_ops = Some s /\
            parent (nd s 2) = Some 1 /\ parent (nd s 1) = Some 0 /\ is_root (nd s) 0 = true /\
            hd_error (evs s) = Some (EMin 0 5%N).
Proof. vm_compute. eexists. repeat split. Qed.

(* non-vacuity of C20_pulse_exact's premises: the state reached above is settled with an exact root aggregate,
   and the sweep at time 7 fires node 2 (time 5) and not node 1 (time 9) *)
Example C20_pulse_exact_nonvacuous :
  (forall m x k now st, ex_pl m x k now st = []) /\ (7 < NEVER)%N /\
  exists s, run ex_gt ex_pl 50 init_state ex_ops = Some s /\
    Good nobody (nd s) /\ is_root (nd s) 0 = true /\ settled (nd s) 0 /\
    agg (nd s 0) = N.min (sched (nd s 0)) (first_sched_agg (nd s) 0) /\
    exists s', top_pulse ex_pl 50 s 0 7%N = Some s' /\ hd_error (evs s') = Some (EPulse 2 0 7%N 5%N).
Proof.
  split; [reflexivity|]. split; [reflexivity|].
  assert (E : exists s, run ex_gt ex_pl 50 init_state ex_ops = Some s /\
                is_root (nd s) 0 = true /\ valid (nd s 0) = true /\ lr (nd s 0) = [] /\
                agg (nd s 0) = N.min (sched (nd s 0)) (first_sched_agg (nd s) 0) /\
                exists s', top_pulse ex_pl 50 s 0 7%N = Some s' /\ hd_error (evs s') = Some (EPulse 2 0 7%N 5%N)).
  { eexists. split; [vm_compute; reflexivity|]. split; [vm_compute; reflexivity|]. split; [vm_compute; reflexivity|].
    split; [vm_compute; reflexivity|]. split; [vm_compute; reflexivity|].
    eexists. split; [vm_compute; reflexivity|]. vm_compute. reflexivity. }
  destruct E as (s & Hrun & Hroot & Hv & Hlr & Hagg & Hp).
  exists s. split; [exact Hrun|]. split; [exact (reach_inv ex_gt ex_pl (fun _ _ _ _ _ => eq_refl) 50 ex_ops s Hrun)|].
  split; [exact Hroot|]. split; [split; assumption|]. split; assumption.
Qed.

(* non-vacuity of C20_step_total's premise [fits]: the state reached above fits fuel 50 *)
Example C20_fits_nonvacuous :
  exists s, run ex_gt ex_pl 50 init_state ex_ops = Some s /\ fits 50 (nd s).
Proof.
  eexists. split; [vm_compute; reflexivity|].
  exists (fun y => Nat.min y 2), 2, 3. split; [|split; [|split]].
  - intros c p. destruct c as [|[|[|c]]]; vm_compute; intro H; inversion H; subst; lia.
  - intro y. apply Nat.le_min_r.
  - intros y H. destruct y as [|[|[|y]]]; try lia. vm_compute in H. discriminate H.
  - lia.
Qed.
