(* C20 -- property theorems only: each is closed by [exact] of a lemma proved elsewhere.
   Model: Pulse/PulseModel.v (util/PulseNode.{h,cpp}); oracles gt/pl = the virtual GetPulseTime()/Pulse(). *)
From Coq Require Import List Arith NArith.
From Muscle Require Import Pulse.PulseModel Pulse.PulseInv Pulse.PulseOps Pulse.PulseSweep Pulse.PulseReach Pulse.PulseMin.
Import ListNotations.

(* reach_inv: every state reachable by any history of create/attach/detach/clear/destroy/invalidate operations and
   manager sweeps -- with Pulse() callbacks that may perform any such operations on any nodes, and GetPulseTime()
   callbacks that are arbitrary functions performing no operations -- satisfies the invariants [Good]:
   well-formed intrusive lists, sorted scheduled lists, exact aggregates of valid listed nodes, and every node
   whose time is not valid is on its parent's needs-recalc list (hence on a needs-recalc path to its root). *)
Theorem C20_reach_inv :
  forall (gt : nat -> nat -> N -> N -> N * list cop) (pl : nat -> nat -> N -> N -> list cop),
    (forall x k now prev, snd (gt x k now prev) = []) ->
    forall f os s, run gt pl f init_state os = Some s -> Good nobody (nd s).
Proof. exact reach_inv. Qed.
Print Assumptions C20_reach_inv.

(* the invariants survive every single operation a Pulse() callback (or anybody) performs, also in the middle of a
   pulse sweep (G = the nodes whose PulseAux is running) *)
Theorem C20_cop_preserves :
  forall G f m o m', Good G m -> apply_cop f m o = Some m' -> Good G m'.
Proof. exact apply_cop_good. Qed.
Print Assumptions C20_cop_preserves.

(* recalc_min: the wake-up time the root reports is the minimum of the times requested by all attached nodes, and
   after the sweep every attached node has been asked (valid) and nothing awaits recalculation *)
Theorem C20_recalc_min :
  forall (gt : nat -> nat -> N -> N -> N * list cop),
    (forall x k now prev, snd (gt x k now prev) = []) ->
    forall f s r now s',
      Good nobody (nd s) -> is_root (nd s) r = true -> top_get gt f s r now = Some s' ->
      exists mn, hd_error (evs s') = Some (EMin r mn) /\ mn = agg (nd s' r) /\
        Good nobody (nd s') /\
        (forall y, desc (nd s') r y -> settled (nd s') y /\ (mn <= sched (nd s' y))%N) /\
        (exists y, desc (nd s') r y /\ sched (nd s' y) = mn) /\
        (forall y, parent (nd s' y) = parent (nd s y)).
Proof. exact recalc_min. Qed.
Print Assumptions C20_recalc_min.

(* non-vacuity: a concrete history reaches a state with a three-level tree, and its recalculation reports 5 *)
Definition ex_gt : nat -> nat -> N -> N -> N * list cop :=
  fun x _ _ _ => (match x with 2 => 5%N | 1 => 9%N | _ => NEVER end, []).
Definition ex_pl : nat -> nat -> N -> N -> list cop := fun _ _ _ _ => [].
Definition ex_ops : list (top) :=
  [TNew 0; TNew 1; TNew 2; TOp (CAttach 0 1); TOp (CAttach 1 2); TGet 0 1%N].

Example C20_nonvacuous :
  exists s, run ex_gt ex_pl 50 init_state ex_ops = Some s /\
            parent (nd s 2) = Some 1 /\ parent (nd s 1) = Some 0 /\ is_root (nd s) 0 = true /\
            hd_error (evs s) = Some (EMin 0 5%N).
Proof. vm_compute. eexists. repeat split. Qed.
