(* C09 -- property theorems only: each is closed by [exact] of a lemma proved elsewhere. *)
From Coq Require Import List Arith ZArith NArith PArith Permutation.
From Muscle Require Import Cont.HtModel Cont.HtStep Cont.HtIdeal Cont.HtLemmas Cont.HtRepr Cont.HtWalk
                           Cont.HtTable Cont.HtInv Cont.HtSafe Cont.HtSafeAll Cont.HtRefine Cont.HtPend Cont.HtTravW Cont.HtTravOps Cont.HtTravSem Cont.HtTravThm Cont.HtTravAny Cont.HtTravRefuted Cont.HtSorted Cont.HtSortedThm Cont.HtIdealLaws Cont.HtLaws Cont.HtClearModel Cont.HtClear Cont.HtStore Cont.HtStoreProofs Cont.HtStoreLink Cont.HtStoreOrder Gen.Consts.
Import ListNotations.

(* InsertIterationEntry is list insertion: if the links of h form the list l1 ++ l2 and e is an
   unlinked entry, then after InsertIterationEntry(e, last l1) they form l1 ++ e :: l2 *)
Theorem C09_insert_iteration_entry : forall h l1 l2 e,
  linked h (l1 ++ l2) -> ~ In e (l1 ++ l2) -> live h e ->
  let h' := insert_iter_entry h e (last_of l1) in
  linked h' (l1 ++ e :: l2) /\ same_data h h' /\ meta_eq h h'.
Proof. exact insert_linked. Qed.
Print Assumptions C09_insert_iteration_entry.

(* RemoveIterationEntry (link part) is list removal *)
Theorem C09_remove_iteration_entry : forall h l1 l2 e,
  linked h (l1 ++ e :: l2) ->
  let h' := unlink h e in
  linked h' (l1 ++ l2) /\ same_data h h' /\ meta_eq h h' /\ get_prev h' e = None /\ get_next h' e = None.
Proof. exact unlink_linked. Qed.
Print Assumptions C09_remove_iteration_entry.

(* every operation of the model (57 operations: put/get/remove/move/sort/size/clear/copy/swap/
   equality/move-to-table/construction/destruction and the iterator operations) preserves the world
   invariant: tables well linked with unique keys, registered-iterator lists and owner fields
   consistent, every cookie a live entry of the iterator's own table *)
Theorem C09_step_preserves_invariant : forall var dcap w o, WF w -> WF (fst (step1 var dcap w o)).
Proof. exact step1_WF. Qed.
Print Assumptions C09_step_preserves_invariant.

(* iterator safety for every finite sequence of operations, any number of tables and iterators, all
   three classes: an iterator's cookie is always an entry currently linked in its own table's
   iteration list (never a removed entry), and the iterator is on that table's registered list *)
Theorem C09_iter_safe : forall var dcap nt ni ops,
  let w := run1 var dcap (init_world dcap nt ni) ops in
  forall i it c, geti (its w) i = Some it -> icookie it = Some c ->
    inoreg it = false /\
    exists t, iown it = Some t /\ t < length (tabs w) /\ In i (ilist (gett w t)) /\
              In c (ids (gett w t)) /\ kv_of (gett w t) c <> None.
Proof. exact iter_safe. Qed.
Print Assumptions C09_iter_safe.

(* what an iterator shows (HasData/GetKey/GetValue) is its private scratch copy or the pair of an
   entry that is in its table right now *)
Theorem C09_shown_safe : forall var dcap nt ni ops,
  let w := run1 var dcap (init_world dcap nt ni) ops in
  forall i kv, shown w i = Some kv ->
    exists it, geti (its w) i = Some it /\
      (iscr it = Some kv \/
       (iscr it = None /\ exists t c, iown it = Some t /\ icookie it = Some c /\ In c (ids (gett w t)) /\
                                      In kv (abs (gett w t)) /\ kv_of (gett w t) c = Some kv)).
Proof. exact shown_safe. Qed.
Print Assumptions C09_shown_safe.

(* every reachable table: backward links mirror forward links, keys unique, count = length *)
Theorem C09_tables_consistent : forall var dcap nt ni ops,
  let w := run1 var dcap (init_world dcap nt ni) ops in
  forall t, t < length (tabs w) ->
    abs_back (gett w t) = rev (abs (gett w t)) /\ NoDup (map fst (abs (gett w t))) /\
    cnt (gett w t) = length (abs (gett w t)).
Proof. exact tables_consistent. Qed.
Print Assumptions C09_tables_consistent.

(* the table behaves as the ideal ordered map: for every world satisfying the invariant and EVERY
   operation, the abstraction (pairs in iteration order, reserved capacity, auto-sort flag of every
   table) of the code-shaped step is the ideal step on the abstraction, and every table operation
   returns the ideal result (iterator observations exist at L1 only) *)
Theorem C09_ht_refines_step : forall var dcap w o, WF w ->
  abs_world (fst (step1 var dcap w o)) = fst (step0 var dcap (abs_world w) o) /\
  (is_iter_op o = false -> snd (step1 var dcap w o) = snd (step0 var dcap (abs_world w) o)).
Proof. exact step_refines. Qed.
Print Assumptions C09_ht_refines_step.

(* ... and for every finite history from the initial world *)
Theorem C09_ht_refines : forall var dcap nt ni ops,
  abs_world (run1 var dcap (init_world dcap nt ni) ops) = run0 var dcap (abs_world (init_world dcap nt ni)) ops /\
  (Forall (fun o => is_iter_op o = false) ops ->
   outs1 var dcap (init_world dcap nt ni) ops = outs0 var dcap (abs_world (init_world dcap nt ni)) ops).
Proof. exact init_refines. Qed.
Print Assumptions C09_ht_refines.

(* the map laws on the code-shaped model, for all three classes (also when the auto-sorting classes
   reposition entries): Get after Put / after Remove *)
Theorem C09_put_then_get : forall var dcap w t k v, WF w -> t < length (tabs w) ->
  let w' := fst (step1 var dcap w (OPut t k v)) in
  snd (step1 var dcap w' (OGet t k)) = OVal (Some v) /\
  (forall k', k' <> k -> snd (step1 var dcap w' (OGet t k')) = snd (step1 var dcap w (OGet t k'))).
Proof. exact put_then_get. Qed.
Print Assumptions C09_put_then_get.

Theorem C09_remove_then_get : forall var dcap w t k, WF w -> t < length (tabs w) ->
  let w' := fst (step1 var dcap w (ORemove t k)) in
  snd (step1 var dcap w' (OGet t k)) = OVal None /\
  (forall k', k' <> k -> snd (step1 var dcap w' (OGet t k')) = snd (step1 var dcap w (OGet t k'))).
Proof. exact remove_then_get. Qed.
Print Assumptions C09_remove_then_get.

(* the two order-dependent ideal operations of the auto-sorting classes only permute the pairs *)
Theorem C09_ordered_insert_permutes : forall var l kv, Permutation (kv :: l) (l0_insert_ordered var l kv).
Proof. exact insert_ordered_perm. Qed.
Print Assumptions C09_ordered_insert_permutes.

Theorem C09_ordered_reposition_permutes : forall var l k, Permutation l (l0_reposition_ordered var l k).
Proof. exact reposition_ordered_perm. Qed.
Print Assumptions C09_ordered_reposition_permutes.

(* Traversals.  [tr_ok i w ops]: ops consists of advances of iterator i and of operations that do not
   operate on iterator i and are quiet ([quiet]), i.e. one of
   (a) calm ([calm]): every query, Put of a new key (any class) or of any key of the plain class,
       PutIfNotAlreadyPresent, GetOrPut, Remove / RemoveFirst / RemoveLast, Remove(table), Intersect,
       EnsureSize / ShrinkToFit / EnsureCanPut, Clear, CopyFrom with clearing, copy and move
       construction, PreallocatedItemSlotsCount construction, SwapContents / move assignment,
       destruction, every operation on other iterators -- no premise at all on these;
   (b) a relinking operation ([relinking]: Put of an existing key on an auto-sorting table,
       MoveToTable / CopyToTable, PutAtFront/AtBack/Before/Behind/AtPosition, MoveToFront/Back/Before/
       Behind/Position, GetAndMoveToFront/Back, SortByKey / SortByValue / Sort, Reposition,
       SetAutoSortEnabled, CopyFrom without clearing) that leaves the relative order of the entries
       of the iterator's table unchanged ([kept]: a decidable comparison of the two id lists), and is
       not a double move ([double_move]: Put-with-position of an EXISTING key on an auto-sorting
       class, which repositions the entry twice and is classified as a reordering operation: see
       C09_traversal_semantic_refuted; it is admitted under (a) when it changes nothing).
   [sem_okd] is the same premise as a boolean function of the run.  [trav i w ops]: the entries newly
   shown by the advances.  So: in a traversal that the mutations did not reorder, no entry is shown
   twice and no entry that stays in the table is skipped, whatever else happens to any table. *)

(* no entry is shown twice *)
Theorem C09_iter_no_dup : forall var dcap i ops w, WF w -> reg w i -> tr_ok var dcap i w ops ->
  NoDup (trav var dcap i w ops).
Proof. exact trav_nodup. Qed.
Print Assumptions C09_iter_no_dup.

(* nothing that stays in the iterator's table is skipped: it is shown, or still to come *)
Theorem C09_iter_no_skip : forall var dcap i ops w, WF w -> reg w i -> tr_ok var dcap i w ops ->
  forall n, In n (pending w i) -> stays var dcap i n w ops ->
  In n (trav var dcap i w ops) \/ In n (pending (run1 var dcap w ops) i).
Proof. exact trav_noskip. Qed.
Print Assumptions C09_iter_no_skip.

(* a complete traversal: an iterator created by GetIterator() (either direction) on a non-empty table
   and advanced, interleaved with any quiet operations on any tables and any operations on other
   iterators, until HasData() is false, has shown every entry that was in its table from creation to
   the end exactly once, and no entry twice *)
Theorem C09_traversal_complete : forall var dcap w0 i t bw ops, WF w0 ->
  i < length (its w0) -> t < length (tabs w0) -> cnt (gett w0 t) <> 0 ->
  let w := fst (step1 var dcap w0 (OIterNew i t bw)) in
  tr_ok var dcap i w ops ->
  shown (run1 var dcap w ops) i = None ->
  let V := opt_list (cur w i) ++ trav var dcap i w ops in
  NoDup V /\ (forall n, In n (ids (gett w0 t)) -> stays var dcap i n w ops -> In n V).
Proof. exact traversal_complete. Qed.
Print Assumptions C09_traversal_complete.

(* one quiet operation: what is pending for a registered iterator stays pending as long as it stays
   in the table, and nothing but brand-new entries becomes pending *)
Theorem C09_quiet_step : forall var dcap w o i, WF w -> quiet var dcap i w o -> touches i o = false -> reg w i ->
  calm_rel w (fst (step1 var dcap w o)) i /\ reg (fst (step1 var dcap w o)) i.
Proof. exact quiet_step. Qed.
Print Assumptions C09_quiet_step.

(* the premise as a decidable check of the run *)
Theorem C09_traversal_premise_decidable : forall var dcap i ops w,
  sem_okd var dcap i w ops = true -> tr_ok var dcap i w ops.
Proof. exact sem_okd_tr_ok. Qed.
Print Assumptions C09_traversal_premise_decidable.

(* Under ANY operations, reordering ones included (moves, sorts, double moves): whatever a live
   iterator points at is a live entry of its own table -- it never yields a removed entry (what it
   shows is then that entry's key and value, or the saved copy of the entry removed under it:
   C09_shown_safe) ... *)
Theorem C09_iter_yields_live : forall var dcap ops w i x, WF w ->
  cur (run1 var dcap w ops) i = Some x -> In x (it_list (run1 var dcap w ops) i).
Proof. exact iter_yields_live. Qed.
Print Assumptions C09_iter_yields_live.

(* ... and from any such state, advancing it with no further mutation reaches the end within one step
   more than the table has entries (precisely: than it has entries left to visit) *)
Theorem C09_iter_terminates : forall var dcap i n w, WF w -> length (pending w i) < n ->
  shown (run1 var dcap w (repeat (OIterAdv i) n)) i = None.
Proof. exact adv_terminates. Qed.
Print Assumptions C09_iter_terminates.

Theorem C09_iter_terminates_cnt : forall var dcap i w, WF w ->
  shown (run1 var dcap w (repeat (OIterAdv i) (S (length (it_list w i))))) i = None.
Proof. exact adv_terminates_cnt. Qed.
Print Assumptions C09_iter_terminates_cnt.

(* the double move has to be excluded: a run in which every mutation keeps the relative order of the
   surviving entries ([sem_ok]: [sem_okd] without the double-move test), yet an entry that stays in
   the table is never shown *)
Theorem C09_traversal_semantic_refuted :
  exists (w : world) (ops : list op) (n : positive),
    sem_ok VVals 7%N 0 w ops = true /\
    memb n (it_list w 0) = true /\ staysb VVals 7%N 0 n w ops = true /\
    shown (run1 VVals 7%N w ops) 0 = None /\
    memb n (opt_list (cur w 0) ++ trav VVals 7%N 0 w ops) = false.
Proof. exact traversal_semantic_refuted. Qed.
Print Assumptions C09_traversal_semantic_refuted.

(* non-vacuity of the traversal premises: removals of the current and of the next entry, an insertion
   and a growth of the table between the advances of a forward iterator *)
Example C09_traversal_nonvacuous :
  let w0 := run1 VPlain 7%N (init_world 7%N 1 1) [OPut 0 1%Z 1%Z; OPut 0 2%Z 2%Z; OPut 0 3%Z 3%Z; OPut 0 4%Z 4%Z] in
  let w := fst (step1 VPlain 7%N w0 (OIterNew 0 0 false)) in
  let ops := [ORemove 0 1%Z; ORemove 0 2%Z; OIterAdv 0; OPut 0 9%Z 9%Z; OEnsure 0 300%N false; OIterAdv 0; OIterAdv 0; OIterAdv 0; OIterAdv 0] in
  tr_ok VPlain 7%N 0 w ops /\ shown (run1 VPlain 7%N w ops) 0 = None /\ length (trav VPlain 7%N 0 w ops) = 3.
Proof.
  cbv zeta. split; [|split; vm_compute; reflexivity].
  repeat (first [apply tr_adv | apply tr_mut; [reflexivity|left; cbn [calm]; try exact I; left; reflexivity|] | apply tr_nil]).
Qed.

(* ... and with relinking operations on an OrderedKeysHashtable: a Put that replaces a value, a sort of
   the sorted table, moves onto the own position, a Put-with-position of a new key, a CopyFrom
   without clearing that adds and re-sorts, between the advances *)
Example C09_traversal_relinking_nonvacuous :
  let w0 := run1 VKeys 7%N (init_world 7%N 2 1) [OPut 0 3%Z 3%Z; OPut 0 1%Z 1%Z; OPut 0 4%Z 4%Z; OPut 0 2%Z 2%Z; OPut 1 2%Z 7%Z; OPut 1 8%Z 8%Z] in
  let w := fst (step1 VKeys 7%N w0 (OIterNew 0 0 false)) in
  let ops := [OPut 0 2%Z 20%Z; OSortKey 0; OIterAdv 0; OMoveFront 0 1%Z; OMoveBehind 0 3%Z 2%Z; ORemove 0 2%Z; OPutAtBack 0 9%Z 9%Z;
              OCopyFrom 0 1 false; OIterAdv 0; OMovePos 0 4%Z 3; OReposition 0 4%Z; OIterAdv 0; OIterAdv 0; OIterAdv 0; OIterAdv 0] in
  sem_okd VKeys 7%N 0 w ops = true /\ shown (run1 VKeys 7%N w ops) 0 = None /\ length (trav VKeys 7%N 0 w ops) = 5.
Proof. vm_compute. repeat split; reflexivity. Qed.

(* Clear(), literally (HtClearModel.v: detach every registered iterator, then RemoveEntryByIndex(head)
   until the list is empty, then give up the slot array if asked to) has exactly the effect the model
   uses for Clear / destruction / EnsureSize(0): same iterator table, same head, tail, count,
   capacity, fresh counter, auto-sort flag and iterator list, and no node left *)
Theorem C09_clear_loop : forall dcap h I release l, tinv h l ->
  let a := clear_literal dcap h I release in
  let b := clear_tab dcap h I release in
  snd a = snd b /\ hd (fst a) = hd (fst b) /\ tl (fst a) = tl (fst b) /\ cnt (fst a) = cnt (fst b) /\
  cap (fst a) = cap (fst b) /\ fresh (fst a) = fresh (fst b) /\ asort (fst a) = asort (fst b) /\
  ilist (fst a) = ilist (fst b) /\ (forall y, getn (fst a) y = getn (fst b) y).
Proof. exact clear_literal_spec. Qed.
Print Assumptions C09_clear_loop.

(* ------------------------------------------------------------------ the storage layer (HtStore.v)
   The slot array of HashtableBase: per slot hash/key/value, BUCKET_PREV / BUCKET_NEXT, MAP_TO /
   MAPPED_FROM; the free list; GetEntry, PutAuxAux, SwapEntryMaps, RemoveEntry (storage part),
   PushToFreeList / PopFromFreeList, CreateEntriesArray, the rebuild of EnsureSize and the growth rule
   of PutAux; ComputeTableIndexTypeForTableSize.  [sinv]: MAP_TO / MAPPED_FROM are inverse
   permutations, every bucket chain is a doubly linked list of used slots with the right bucket whose
   head is the MAP_TO image of the bucket, the free list is a doubly linked list of exactly the unused
   slots, the count is right.  [hashf] is an arbitrary hash function. *)

Theorem C09_store_inv_create : forall n, 0 < n -> sinv (st_create n).
Proof. exact sinv_create. Qed.
Print Assumptions C09_store_inv_create.

Theorem C09_store_inv_put : forall st hash key val,
  sinv st -> nitems st < st_size st -> st_key_absent (slots st) key ->
  sinv (fst (st_put_new st hash key val)).
Proof. exact sinv_put_new. Qed.
Print Assumptions C09_store_inv_put.

Theorem C09_store_inv_remove : forall st i,
  sinv st -> i < st_size st -> st_gh (slots st) i <> None -> sinv (st_remove st i).
Proof. exact sinv_remove. Qed.
Print Assumptions C09_store_inv_remove.

Theorem C09_store_inv_rebuild : forall (hashf : Z -> N) n es,
  0 < n -> length es <= n -> NoDup (map st_ekey es) -> sinv (st_rebuild n es).
Proof. exact sinv_rebuild. Qed.
Print Assumptions C09_store_inv_rebuild.

(* GetEntry's walk along the bucket chain finds a key exactly when some used slot holds it *)
Theorem C09_store_get_correct : forall hashf st k i,
  sinv st -> st_hash_ok hashf (slots st) ->
  (st_get st (hashf k) k = Some i <->
   i < st_size st /\ st_gh (slots st) i <> None /\ st_gk (slots st) i = k).
Proof. exact st_get_correct. Qed.
Print Assumptions C09_store_get_correct.

Theorem C09_store_keys_distinct : forall st x y,
  sinv st -> x < st_size st -> y < st_size st ->
  st_gh (slots st) x <> None -> st_gh (slots st) y <> None ->
  st_gk (slots st) x = st_gk (slots st) y -> x = y.
Proof. exact st_keys_distinct. Qed.
Print Assumptions C09_store_keys_distinct.

(* finite-map laws against [st_lookup], a scan of all slots that ignores the chains *)
Theorem C09_store_put_lookup_same : forall st hash key val,
  sinv st -> nitems st < st_size st -> st_key_absent (slots st) key ->
  st_lookup (fst (st_put_new st hash key val)) key = Some val.
Proof. exact st_put_new_lookup_same. Qed.
Print Assumptions C09_store_put_lookup_same.

Theorem C09_store_put_lookup_other : forall st hash key val k',
  sinv st -> nitems st < st_size st -> st_key_absent (slots st) key -> k' <> key ->
  st_lookup (fst (st_put_new st hash key val)) k' = st_lookup st k'.
Proof. exact st_put_new_lookup_other. Qed.
Print Assumptions C09_store_put_lookup_other.

Theorem C09_store_remove_lookup_same : forall st i,
  sinv st -> i < st_size st -> st_gh (slots st) i <> None ->
  st_lookup (st_remove st i) (st_gk (slots st) i) = None.
Proof. exact st_remove_lookup_same. Qed.
Print Assumptions C09_store_remove_lookup_same.

Theorem C09_store_remove_lookup_other : forall st i k',
  sinv st -> i < st_size st -> st_gh (slots st) i <> None -> k' <> st_gk (slots st) i ->
  st_lookup (st_remove st i) k' = st_lookup st k'.
Proof. exact st_remove_lookup_other. Qed.
Print Assumptions C09_store_remove_lookup_other.

(* reallocation (EnsureSize: every entry re-Put into a fresh array, in iteration order) loses nothing *)
Theorem C09_store_rebuild_lookup : forall (hashf : Z -> N) st order n k,
  sinv st -> st_order_ok st order -> 0 < n -> length order <= n ->
  st_lookup (st_rebuild n (st_entries st order)) k = st_lookup st k.
Proof. exact st_rebuild_lookup. Qed.
Print Assumptions C09_store_rebuild_lookup.

(* index width: every stored index (BUCKET_PREV/NEXT, MAP_TO, MAPPED_FROM, free head) is below the
   sentinel (IndexType)-1 of the width chosen by ComputeTableIndexTypeForTableSize -- narrowing to
   uint8 / uint16 / uint32 loses nothing and never collides with the sentinel *)
Theorem C09_store_index_width : forall st,
  sinv st -> st_size st < idx_limit 2 -> st_narrow_ok st = true.
Proof. exact st_narrow_ok_sinv. Qed.
Print Assumptions C09_store_index_width.

(* all finite histories of Put / Get / Remove / EnsureSize, with the growth rule of PutAux: the storage
   layer returns what the ideal finite map returns ... *)
Theorem C09_store_run_correct : forall hashf n ops, 0 < n ->
  st_run hashf (mkRun (st_create n) []) ops = fm_run (fun _ => None) ops.
Proof. exact st_run_correct. Qed.
Print Assumptions C09_store_run_correct.

(* ... which is what the L1 iteration-list model (any class, any number of iterators) returns *)
Theorem C09_store_refines_l1 : forall var dcap (hashf : Z -> N) n ni ops, 0 < n ->
  st_run hashf (mkRun (st_create n) []) ops =
  map out_val (outs1 var dcap (init_world dcap 1 ni) (map op_of_sop ops)).
Proof. exact storage_refines_l1. Qed.
Print Assumptions C09_store_refines_l1.

(* ... and the order in which the storage layer re-inserts its entries when it reallocates ([r_order]) is
   the iteration order of the plain Hashtable: after every history the pairs held by the slots of
   [r_order] are the table's contents in iteration order (so EnsureSize rebuilds in iteration order
   and the rebuilt array holds the same ordered map) *)
Theorem C09_store_order_is_iteration_order : forall (hashf : Z -> N) dcap n ni ops, 0 < n ->
  let r := st_run_state hashf (mkRun (st_create n) []) ops in
  map (st_kv (slots (r_st r))) (r_order r) =
  abs (gett (run1 VPlain dcap (init_world dcap 1 ni) (map op_of_sop ops)) 0).
Proof. exact st_order_is_l1_order. Qed.
Print Assumptions C09_store_order_is_iteration_order.

(* non-vacuity: seven slots, every key in the same bucket; a Put whose starter slot is taken by another
   bucket (SwapEntryMaps), the removal of a bucket head with a successor, growth from 7 to 14 slots *)
Example C09_store_nonvacuous :
  let hf := fun k : Z => Z.to_N (k mod 3) in
  let ops := [SPut 0 10; SPut 3 13; SPut 1 11; SPut 6 16; SGet 3; SRemove 0; SPut 9 19; SPut 4 14; SPut 7 17; SPut 2 12; SPut 5 15; SPut 8 18;
              SGet 6; SGet 0; SRemove 3; SGet 9]%Z in
  st_run hf (mkRun (st_create 7) []) ops =
    [None; None; None; None; Some 13; Some 10; None; None; None; None; None; None; Some 16; None; Some 13; Some 19]%Z.
Proof. vm_compute. reflexivity. Qed.

(* the auto-sorting classes (OrderedKeysHashtable: var = VKeys, OrderedValuesHashtable: var = VVals):
   in every world reachable by operations that keep auto-sort enabled and do not explicitly reorder
   ([keeps_sorted]: everything except MoveTo*, GetAndMoveTo*, PutAt*/PutBefore/PutBehind,
   SortByKey/SortByValue and SetAutoSortEnabled), every table is in sorted order (ties in insertion
   order, as fixed by the refinement to the ideal insertion [l0_insert_ordered]) *)
Theorem C09_sorted_inv : forall var dcap, var <> VPlain -> forall nt ni ops,
  Forall (fun o => keeps_sorted o = true) ops ->
  let w := run1 var dcap (init_world dcap nt ni) ops in
  forall t, t < length (tabs w) -> asort (gett w t) = true /\ sorted var (abs (gett w t)).
Proof. exact sorted_inv. Qed.
Print Assumptions C09_sorted_inv.

Example C09_sorted_nonvacuous :
  abs (gett (run1 VVals 7%N (init_world 7%N 1 0)
              [OPut 0 1%Z 5%Z; OPut 0 2%Z 3%Z; OPut 0 3%Z 5%Z; OPut 0 4%Z 3%Z; OPut 0 2%Z 9%Z; ORemove 0 1%Z]) 0)
  = [(4%Z, 3%Z); (3%Z, 5%Z); (2%Z, 9%Z)].
Proof. vm_compute. reflexivity. Qed.

(* side condition on the translated constant: the default capacity is positive (an empty table can
   accept a Put) and below the first index-width threshold (a default table uses 8-bit indices) *)
Theorem C09_default_capacity_ok :
  (0 < c_MUSCLE_HASHTABLE_DEFAULT_CAPACITY)%N /\ (c_MUSCLE_HASHTABLE_DEFAULT_CAPACITY < 255)%N.
Proof. exact default_capacity_ok. Qed.
Print Assumptions C09_default_capacity_ok.

(* non-vacuity: a reachable world with a live registered iterator whose cookie is an entry *)
Example C09_iter_safe_nonvacuous :
  let w := run1 VPlain 7%N (init_world 7%N 1 1) [OPut 0 1%Z 1%Z; OPut 0 2%Z 2%Z; OIterNew 0 0 false; ORemove 0 1%Z] in
  exists it c, geti (its w) 0 = Some it /\ icookie it = Some c /\ iscr it = Some (1%Z, 1%Z) /\ kv_of (gett w 0) c = Some (2%Z, 2%Z).
Proof. vm_compute. eexists. eexists. repeat split. Qed.
