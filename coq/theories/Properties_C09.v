(* C09 -- property theorems only: each is closed by [exact] of a lemma proved elsewhere. *)
From Coq Require Import List Arith ZArith.
From Muscle Require Import Cont.HtModel Cont.HtStep Cont.HtIdeal Cont.HtLemmas.

Theorem C09_upd_nth_length : forall A (l : list A) i x, length (upd_nth l i x) = length l.
Proof. exact upd_nth_length. Qed.
Print Assumptions C09_upd_nth_length.
