(* C20 -- invariants of the PulseNode model and basic lemmas about the list helpers. *)
From Coq Require Import List Arith NArith Bool Lia.
From Muscle Require Import Pulse.PulseModel.
Import ListNotations.

(* MUSCLE_TIME_NEVER (regenerated from util/TimeUtilityFunctions.h on every run) is the largest uint64: this is what
   justifies the model's clamping of an oracle's answer to NEVER (a C++ callback cannot return anything larger) *)
Lemma never_is_uint64_max : NEVER = (2 ^ 64 - 1)%N.
Proof. vm_compute. reflexivity. Qed.

(* ------------------------------------------------------------------ maps *)

Lemma upd_same m x n : upd m x n x = n.
Proof. unfold upd. now rewrite Nat.eqb_refl. Qed.

Lemma upd_other m x n y : y <> x -> upd m x n y = m y.
Proof. intro H. unfold upd. apply Nat.eqb_neq in H. now rewrite H. Qed.

Lemma upd_cases m x n y : (y = x /\ upd m x n y = n) \/ (y <> x /\ upd m x n y = m y).
Proof.
  destruct (Nat.eq_dec y x) as [->|H]; [left|right]; split; auto using upd_same, upd_other.
Qed.

Lemma lst_eqb_eq a b : lst_eqb a b = true <-> a = b.
Proof. destruct a, b; simpl; split; congruence. Qed.

Lemma lst_eqb_refl a : lst_eqb a a = true.
Proof. now destruct a. Qed.

Lemma lst_eqb_neq a b : lst_eqb a b = false <-> a <> b.
Proof. destruct a, b; simpl; split; congruence. Qed.

Lemma lst_eq_dec (a b : lst) : {a = b} + {a <> b}.
Proof. decide equality. Qed.

(* ------------------------------------------------------------------ get_list / set_list *)

Lemma get_set_list_same n l v : l <> LNone -> get_list (set_list n l v) l = v.
Proof. destruct l; simpl; congruence. Qed.

Lemma get_set_list_other n l l' v : l <> l' -> get_list (set_list n l v) l' = get_list n l'.
Proof. destruct l, l'; simpl; congruence. Qed.

Lemma get_list_none n : get_list n LNone = [].
Proof. reflexivity. Qed.

Lemma set_list_scalars n l v :
  alive (set_list n l v) = alive n /\ parent (set_list n l v) = parent n /\
  agg (set_list n l v) = agg n /\ sched (set_list n l v) = sched n /\
  valid (set_list n l v) = valid n /\ cur (set_list n l v) = cur n /\
  ngt (set_list n l v) = ngt n /\ npl (set_list n l v) = npl n.
Proof. destruct l; simpl; repeat split. Qed.

Lemma set_list_parent n l v : parent (set_list n l v) = parent n.
Proof. now destruct l. Qed.
Lemma set_list_cur n l v : cur (set_list n l v) = cur n.
Proof. now destruct l. Qed.
Lemma set_list_agg n l v : agg (set_list n l v) = agg n.
Proof. now destruct l. Qed.
Lemma set_list_sched n l v : sched (set_list n l v) = sched n.
Proof. now destruct l. Qed.
Lemma set_list_valid n l v : valid (set_list n l v) = valid n.
Proof. now destruct l. Qed.
Lemma set_list_alive n l v : alive (set_list n l v) = alive n.
Proof. now destruct l. Qed.
Lemma set_list_ngt n l v : ngt (set_list n l v) = ngt n.
Proof. now destruct l. Qed.
Lemma set_list_npl n l v : npl (set_list n l v) = npl n.
Proof. now destruct l. Qed.

(* ------------------------------------------------------------------ remove_id *)

Lemma remove_id_in x y l : In y (remove_id x l) <-> In y l /\ y <> x.
Proof.
  induction l as [|a t IH]; simpl; [tauto|].
  destruct (Nat.eqb_spec a x) as [->|Hne]; simpl; rewrite IH; intuition congruence.
Qed.

Lemma remove_id_notin x l : ~ In x l -> remove_id x l = l.
Proof.
  induction l as [|a t IH]; simpl; intro H; [reflexivity|].
  destruct (Nat.eqb_spec a x) as [->|Hne]; [tauto|]. f_equal. apply IH. tauto.
Qed.

Lemma remove_id_nodup x l : NoDup l -> NoDup (remove_id x l).
Proof.
  induction 1 as [|a t Hin Hnd IH]; simpl; [constructor|].
  destruct (Nat.eqb_spec a x); [assumption|]. constructor; [|assumption].
  rewrite remove_id_in. tauto.
Qed.

Lemma remove_id_head x t : NoDup (x :: t) -> remove_id x (x :: t) = t.
Proof.
  intro H. inversion H; subst. simpl. rewrite Nat.eqb_refl. now apply remove_id_notin.
Qed.

Lemma remove_id_keeps_head x a t : a <> x -> remove_id x (a :: t) = a :: remove_id x t.
Proof. intro H. simpl. apply Nat.eqb_neq in H. now rewrite H. Qed.

(* ------------------------------------------------------------------ sortedness of the scheduled list *)

Fixpoint sorted (m : nmap) (l : list nat) : Prop :=
  match l with
  | [] => True
  | a :: t => (forall b, In b t -> (agg (m a) <= agg (m b))%N) /\ sorted m t
  end.

Lemma sorted_remove m x l : sorted m l -> sorted m (remove_id x l).
Proof.
  induction l as [|a t IH]; simpl; [tauto|]. intros [Ha Ht].
  destruct (Nat.eqb_spec a x); [auto|]. simpl. split; [|auto].
  intros b Hb. apply remove_id_in in Hb. apply Ha. tauto.
Qed.

Lemma sorted_ext m m' l : (forall x, In x l -> agg (m' x) = agg (m x)) -> sorted m l -> sorted m' l.
Proof.
  induction l as [|a t IH]; simpl; [tauto|]. intros He [Ha Ht]. split.
  - intros b Hb. rewrite !He by auto. auto.
  - apply IH; auto.
Qed.

Lemma ins_walk_in m c a l y : In y (ins_walk m c a l) <-> y = c \/ In y l.
Proof.
  induction l as [|h t IH]; simpl; [intuition|].
  destruct (N.ltb (agg (m h)) a); simpl; [rewrite IH|]; intuition.
Qed.

Lemma ins_sched_in m c l y : In y (ins_sched m c l) <-> y = c \/ In y l.
Proof.
  unfold ins_sched. destruct l as [|h t]; [simpl; intuition|].
  destruct (N.leb _ _).
  - rewrite in_app_iff. simpl. intuition.
  - apply ins_walk_in.
Qed.

Lemma ins_walk_nodup m c a l : ~ In c l -> NoDup l -> NoDup (ins_walk m c a l).
Proof.
  induction l as [|h t IH]; simpl; intros Hc Hnd.
  - constructor; [tauto|constructor].
  - inversion Hnd; subst. destruct (N.ltb (agg (m h)) a).
    + constructor; [|apply IH; tauto]. rewrite ins_walk_in. intuition.
    + constructor; [simpl; tauto|assumption].
Qed.

Lemma nodup_app_one (l : list nat) c : ~ In c l -> NoDup l -> NoDup (l ++ [c]).
Proof.
  induction l as [|x r IH]; simpl; intros Hc Hnd.
  - constructor; [tauto|constructor].
  - inversion Hnd; subst. constructor.
    + rewrite in_app_iff. simpl. intuition.
    + apply IH; [tauto|assumption].
Qed.

Lemma ins_sched_nodup m c l : ~ In c l -> NoDup l -> NoDup (ins_sched m c l).
Proof.
  unfold ins_sched. destruct l as [|h t]; intros Hc Hnd.
  - constructor; [tauto|constructor].
  - destruct (N.leb _ _).
    + now apply nodup_app_one.
    + now apply ins_walk_nodup.
Qed.

Lemma sorted_app_one m l c :
  sorted m l -> (forall b, In b l -> (agg (m b) <= agg (m c))%N) -> sorted m (l ++ [c]).
Proof.
  induction l as [|a t IH]; simpl; intros Hs Hle; [tauto|]. destruct Hs as [Ha Ht]. split.
  - intros b Hb. apply in_app_iff in Hb. destruct Hb as [Hb|[<-|[]]]; auto.
  - apply IH; auto.
Qed.

Lemma sorted_last_max m l d b :
  sorted m l -> In b l -> (agg (m b) <= agg (m (last l d)))%N.
Proof.
  induction l as [|a t IH]; simpl; [tauto|]. intros [Ha Ht] [<-|Hb].
  - destruct t as [|a' t']; [apply N.le_refl|]. apply Ha.
    clear. revert a'. induction t' as [|x r IH]; intro a'; simpl; [tauto|]. right. apply IH.
  - destruct t as [|a' t']; [destruct Hb|]. apply IH; auto.
Qed.

Lemma ins_walk_sorted m c l :
  sorted m l -> sorted m (ins_walk m c (agg (m c)) l).
Proof.
  induction l as [|h t IH]; simpl; intros Hs; [tauto|]. destruct Hs as [Hh Ht].
  destruct (N.ltb_spec (agg (m h)) (agg (m c))) as [Hlt|Hge]; simpl.
  - split; [|auto]. intros b Hb. apply ins_walk_in in Hb. destruct Hb as [->|Hb]; [lia|auto].
  - split; [|split; auto].
    intros b [<-|Hb]; [lia|]. specialize (Hh b Hb). lia.
Qed.

Lemma ins_sched_sorted m c l : sorted m l -> sorted m (ins_sched m c l).
Proof.
  unfold ins_sched. destruct l as [|h t]; intro Hs; [simpl; tauto|].
  destruct (N.leb_spec (agg (m (last (h :: t) 0))) (agg (m c))) as [Hle|Hgt].
  - apply sorted_app_one; [assumption|]. intros b Hb.
    pose proof (sorted_last_max m (h :: t) 0 b Hs Hb). lia.
  - now apply ins_walk_sorted.
Qed.

(* the head of the list after an insertion: either the old head or the inserted child *)
Lemma ins_sched_head m c l :
  hd_error (ins_sched m c l) = Some c \/
  (hd_error (ins_sched m c l) = hd_error l /\ l <> []).
Proof.
  unfold ins_sched. destruct l as [|h t]; [left; reflexivity|].
  destruct (N.leb _ _); [right; split; [reflexivity|discriminate]|].
  simpl. destruct (N.ltb _ _); [right; split; [reflexivity|discriminate]|left; reflexivity].
Qed.

(* ------------------------------------------------------------------ the invariants *)

Definition rn (l : lst) : Prop := l = LRecalc \/ l = LNone.      (* on the needs-recalc list, or on none *)
Definition su (l : lst) : Prop := l = LSched \/ l = LUnsched.

Lemma rn_su_dec l : {rn l} + {su l}.
Proof. destruct l; unfold rn, su; auto. Qed.

Lemma rn_not_su l : rn l -> su l -> False.
Proof. unfold rn, su. intuition congruence. Qed.

(* structural well-formedness of the forest and its intrusive lists.  [E] is the set of
   children that are "in transit": unlinked, _curList already NEEDSRECALC, waiting to be
   linked again once the upward propagation returns (ReschedulePulseChild's statement order). *)
Record WFx (E : nat -> Prop) (m : nmap) : Prop := {
  wf_in : forall p c l, In c (get_list (m p) l) -> parent (m c) = Some p /\ cur (m c) = l;
  wf_par : forall c p, ~ E c -> parent (m c) = Some p -> cur (m c) <> LNone ->
                       In c (get_list (m p) (cur (m c)));
  wf_root : forall c, parent (m c) = None -> cur (m c) = LNone;
  wf_nodup : forall p l, NoDup (get_list (m p) l);
  wf_noself : forall c, parent (m c) <> Some c;
  wf_exc : forall e, E e -> cur (m e) = LRecalc /\ forall q l, ~ In e (get_list (m q) l)
}.

Definition noexc : nat -> Prop := fun _ => False.
Definition WF := WFx noexc.

(* every attached node sits on one of its parent's lists (false only inside Put/RemovePulseChild) *)
Definition listed (m : nmap) : Prop := forall c p, parent (m c) = Some p -> cur (m c) <> LNone.

(* K1: a node with needs-recalc children is itself on its parent's needs-recalc list *)
Definition K1 (m : nmap) : Prop := forall x, lr (m x) <> [] -> rn (cur (m x)).
(* K2 (outside the set G of nodes whose PulseAux is running): an invalid node is on the needs-recalc list *)
Definition K2 (G : nat -> Prop) (m : nmap) : Prop := forall x, ~ G x -> valid (m x) = false -> rn (cur (m x)).
(* K3: the aggregate of a valid node on a scheduled/unscheduled list is min(own time, first scheduled child) *)
Definition K3 (m : nmap) : Prop :=
  forall x, valid (m x) = true -> su (cur (m x)) -> agg (m x) = N.min (sched (m x)) (first_sched_agg m x).
(* K4: the list a node is on agrees with its aggregate *)
Definition K4 (m : nmap) : Prop :=
  forall x, (cur (m x) = LSched -> agg (m x) <> NEVER) /\ (cur (m x) = LUnsched -> agg (m x) = NEVER).
(* K5: scheduled lists are sorted by aggregate time *)
Definition K5 (m : nmap) : Prop := forall p, sorted m (ls (m p)).
(* K6: times are at most MUSCLE_TIME_NEVER *)
Definition K6 (m : nmap) : Prop := forall x, (sched (m x) <= NEVER)%N /\ (agg (m x) <= NEVER)%N.

(* no parent cycles and finite depth: a bounded rank that strictly grows from parent to child *)
Definition acyc (m : nmap) : Prop :=
  exists (rk : nat -> nat) (B : nat), (forall c p, parent (m c) = Some p -> rk p < rk c) /\ (forall x, rk x <= B).

(* a destroyed object takes part in nothing: it has no parent and is nobody's parent *)
Definition dead_inert (m : nmap) : Prop :=
  forall x, alive (m x) = false -> parent (m x) = None /\ forall y, parent (m y) <> Some x.

(* what holds at every instant, also in the middle of a sweep *)
Record Core (m : nmap) : Prop := {
  c_wf : WF m; c_k1 : K1 m; c_k4 : K4 m; c_k5 : K5 m; c_k6 : K6 m; c_acyc : acyc m; c_dead : dead_inert m
}.

(* ... and between the statements of Put/RemovePulseChild *)
Record Inv0 (m : nmap) : Prop := { i_core : Core m; i_listed : listed m; i_k3 : K3 m }.

(* descendants, via parent pointers *)
Inductive desc (m : nmap) (r : nat) : nat -> Prop :=
| desc_self : desc m r r
| desc_child c p : desc m r p -> parent (m c) = Some p -> desc m r c.

Definition K3at (m : nmap) (x : nat) : Prop :=
  valid (m x) = true -> su (cur (m x)) -> agg (m x) = N.min (sched (m x)) (first_sched_agg m x).

Lemma K3_all m : K3 m <-> forall x, K3at m x.
Proof. unfold K3, K3at. tauto. Qed.

Lemma fsa_ext m m' x :
  ls (m' x) = ls (m x) -> (forall z, agg (m' z) = agg (m z)) -> first_sched_agg m' x = first_sched_agg m x.
Proof. unfold first_sched_agg. intros -> Ha. destruct (ls (m x)); auto. Qed.

Lemma fsa_hd m m' x :
  hd_error (ls (m' x)) = hd_error (ls (m x)) -> (forall z, agg (m' z) = agg (m z)) ->
  first_sched_agg m' x = first_sched_agg m x.
Proof.
  unfold first_sched_agg. intros Hh Ha.
  destruct (ls (m' x)), (ls (m x)); simpl in Hh; try discriminate; auto. inversion Hh; subst. auto.
Qed.

Lemma K3at_ext m m' x :
  valid (m' x) = valid (m x) -> cur (m' x) = cur (m x) -> agg (m' x) = agg (m x) -> sched (m' x) = sched (m x) ->
  first_sched_agg m' x = first_sched_agg m x -> K3at m x -> K3at m' x.
Proof. unfold K3at. intros -> -> -> -> ->. auto. Qed.
