(* Extraction of the PulseNode model for the correspondence run (ExtrOcamlBasic only). *)
From Coq Require Import ExtrOcamlBasic.
From Coq Require Extraction.
From Coq Require Import NArith.
From Muscle Require Import Gen.Consts Pulse.PulseModel.
Extraction "pulse_model.ml" step init_state NEVER dead.
