(* Extraction of the PulseNode model for the correspondence run (ExtrOcamlBasic only).
   [step] is the model; [step_s] is the same with the recalculation-stack check of Pulse/PulseSafe.v (used by the check
   to tell histories covered by the *_safe theorems from the re-entrant ones of finding F16). *)
From Coq Require Import ExtrOcamlBasic.
From Coq Require Extraction.
From Coq Require Import NArith.
From Muscle Require Import Gen.Consts Pulse.PulseModel Pulse.PulseSafe.
Extraction "pulse_model.ml" step step_s init_state NEVER dead.
