(* C20 -- index of the proof development about the PulseNode model (Pulse/PulseModel.v):
     PulseInv.v      invariants (WFx, K1..K6, acyc, Core, Inv0) and list lemmas
     PulseForest.v   descendants, ranks, the ancestor test
     PulseResched.v  ReschedulePulseChild
     PulseOps.v      invalidate / attach / detach / clear / destroy keep [Good G]
     PulseSweep.v    PulseAux (any Pulse() oracle) and GetPulseTimeAux (operation-free GetPulseTime() oracle)
     PulseReach.v    reach_inv
     PulseMin.v      recalc_min
     PulseExact.v    pulse_never_early_once (any Pulse() oracle), pulse_exact (operation-free Pulse() oracle)
     PulseAsk.v      recalc_asks (GetPulseTime() is called exactly on the invalid attached nodes)
     PulseRefuted.v  reentrant_recalc_refuted (finding F16)
     PulseFuel.v     fuel adequacy (apply_cop_fuel, get_aux_fuel, pulse_aux_fuel, step_total)
     PulseDepth.v    small_rank: the depth is a rank bounded by the number of node ids in use
     PulseFuelAny.v  fuel adequacy of the pulse sweep for arbitrary Pulse() oracles (step_total_any, run_total)
     PulseSafe.v     GetPulseTime() oracles performing operations off the recalculation stack (reach_inv_safe, recalc_min_safe) *)
From Muscle Require Export Pulse.PulseModel Pulse.PulseInv Pulse.PulseForest Pulse.PulseResched Pulse.PulseOps
     Pulse.PulseSweep Pulse.PulseReach Pulse.PulseMin Pulse.PulseExact Pulse.PulseAsk Pulse.PulseRefuted Pulse.PulseFuel Pulse.PulseDepth Pulse.PulseFuelAny Pulse.PulseSafe.
