(* C20 -- proofs about the PulseNode model. *)
From Coq Require Import List Arith NArith Bool Lia.
From Muscle Require Import Pulse.PulseModel.
Import ListNotations.

Lemma upd_same m x n : upd m x n x = n.
Proof. unfold upd. now rewrite Nat.eqb_refl. Qed.

Lemma upd_other m x n y : y <> x -> upd m x n y = m y.
Proof. intro H. unfold upd. apply Nat.eqb_neq in H. now rewrite H. Qed.
