(* C20 -- the pulse sweep: never early, at most once, and -- on a freshly recalculated tree whose Pulse()
   callbacks do not restructure it -- exactly the due nodes. *)
From Coq Require Import List Arith NArith Bool Lia.
From Muscle Require Import Pulse.PulseModel Pulse.PulseInv Pulse.PulseForest Pulse.PulseResched Pulse.PulseOps
     Pulse.PulseSweep Pulse.PulseReach Pulse.PulseMin.
Import ListNotations.

(* ------------------------------------------------------------------ operations never make a time valid *)

(* ... and a node whose time is (still) valid has (still) the same time *)
Definition valid_mono (m m' : nmap) : Prop :=
  forall y, valid (m' y) = true -> valid (m y) = true /\ sched (m' y) = sched (m y).

Lemma valid_mono_refl m : valid_mono m m.
Proof. intros y H. auto. Qed.

Lemma valid_mono_trans m1 m2 m3 : valid_mono m1 m2 -> valid_mono m2 m3 -> valid_mono m1 m3.
Proof. intros H1 H2 y H. destruct (H2 y H) as [Hv Hs]. destruct (H1 y Hv) as [Hv' Hs']. split; congruence. Qed.

Lemma valid_mono_scalars m m' : same_scalars m m' -> valid_mono m m'.
Proof. intros Hs y H. destruct (Hs y) as (_&_&Hsc&Hv&_). split; congruence. Qed.

Lemma resched_valid_mono f m p c w m' :
  WF m -> parent (m c) = Some p -> resched f m p c w = Some m' -> valid_mono m m'.
Proof.
  intros Hwf Hpar H. apply valid_mono_scalars.
  assert (Hns : forall x, parent (m x) <> Some x) by apply (wf_noself _ _ Hwf).
  apply (resched_scalars f m p c w m' Hpar); auto. intro; subst. now apply (Hns c).
Qed.

Lemma resched_up_valid_mono f m x m' : WF m -> resched_up f m x = Some m' -> valid_mono m m'.
Proof.
  intros Hwf H. unfold resched_up in H. destruct (parent (m x)) as [p|] eqn:Hp.
  - eapply resched_valid_mono; eauto.
  - inversion H; subst. apply valid_mono_refl.
Qed.

Lemma invalidate_valid_mono G f m x cl m' : Good G m -> invalidate f m x cl = Some m' -> valid_mono m m'.
Proof.
  intros Hg H. unfold invalidate in H.
  set (m1 := if cl then upd m x (set_sched (m x) NEVER) else m) in *.
  assert (H1 : forall y, valid (m1 y) = valid (m y)).
  { intro y. unfold m1. destruct cl; [|reflexivity].
    destruct (upd_cases m x (set_sched (m x) NEVER) y) as [[-> ->]|[_ ->]]; reflexivity. }
  assert (H1s : forall y, y <> x -> sched (m1 y) = sched (m y)).
  { intros y Hy. unfold m1. destruct cl; [|reflexivity]. now rewrite upd_other. }
  destruct (valid (m1 x)) eqn:Hv.
  - set (m2 := upd m1 x (set_valid (m1 x) false)) in *.
    assert (H2 : valid_mono m m2).
    { intros y Hy. unfold m2 in *. destruct (Nat.eq_dec y x) as [->|Hyx].
      - rewrite upd_same in Hy. discriminate.
      - rewrite upd_other in * by assumption. split; [now rewrite <- H1|now apply H1s]. }
    unfold resched_up in H. destruct (parent (m2 x)) as [p|] eqn:Hp.
    + eapply valid_mono_trans; [exact H2|].
      apply valid_mono_scalars.
      assert (Hpar1 : forall y, parent (m1 y) = parent (m y)).
      { intro y. unfold m1. destruct cl; [|reflexivity].
        destruct (upd_cases m x (set_sched (m x) NEVER) y) as [[-> ->]|[_ ->]]; reflexivity. }
      assert (Hpar : forall y, parent (m2 y) = parent (m y)).
      { intro y. rewrite <- Hpar1. unfold m2.
        destruct (upd_cases m1 x (set_valid (m1 x) false) y) as [[-> ->]|[_ ->]]; reflexivity. }
      pose proof (wf_noself _ _ (c_wf _ (i_core _ (g_inv _ _ Hg)))) as Hns.
      apply (resched_scalars f m2 p x LRecalc m' Hp); auto.
      * intro; subst. rewrite Hpar in Hp. now apply (Hns x).
      * intro y. rewrite Hpar. apply Hns.
    + inversion H; subst. exact H2.
  - inversion H; subst. intros y Hy. destruct (Nat.eq_dec y x) as [->|Hyx]; [congruence|].
    split; [now rewrite <- H1|now apply H1s].
Qed.

Lemma remove_child_valid_mono G f m p c m' :
  Good G m -> parent (m c) = Some p -> remove_child f m p c = Some m' -> valid_mono m m'.
Proof.
  intros Hg Hpar H. pose proof (i_core _ (g_inv _ _ Hg)) as Hc. pose proof (c_wf _ Hc) as Hwf.
  unfold remove_child in H.
  assert (Hpe : opt_nat_eqb (parent (m c)) p = true) by (rewrite Hpar; simpl; apply Nat.eqb_refl).
  rewrite Hpe in H. destruct (resched f m p c LNone) as [m1|] eqn:Hr; [|discriminate].
  assert (Hcl : cur (m c) <> LNone) by (eapply (i_listed _ (g_inv _ _ Hg)); eauto).
  apply resched_None in Hr; [|assumption]. subst m1.
  assert (Hpc : p <> c) by (intro; subst; now apply (wf_noself _ _ Hwf c)).
  fold (orphan (unlink m p c LNone) c) in H. set (m2 := orphan (unlink m p c LNone) c) in *.
  assert (H2 : valid_mono m m2).
  { intros y Hy. unfold m2 in *. destruct (Nat.eq_dec y c) as [->|Hyc]; [rewrite orphan_valid_c in Hy; discriminate|].
    rewrite orphan_valid_o in Hy by assumption. rewrite unlink_valid in Hy by assumption.
    rewrite orphan_sched, unlink_sched by assumption. auto. }
  destruct (opt_nat_eqb (hd_error (ls (m p))) c); [|inversion H; subst; exact H2].
  eapply valid_mono_trans; [exact H2|].
  assert (Hc2 : Core m2).
  { unfold m2. apply Core_orphan.
    - now apply Core_unlink_none.
    - now apply unlink_cur_c.
    - intros q l Hin. apply (unlink_in_wf noexc m p c LNone Hwf Hpar) in Hin. tauto. }
  eapply resched_up_valid_mono; [apply (c_wf _ Hc2)|exact H].
Qed.

Lemma clear_list_valid_mono G : forall f m x l m', Good G m -> clear_list f m x l = Some m' -> valid_mono m m'.
Proof.
  induction f as [|f IH]; intros m x l m' Hg H; [discriminate|]. simpl in H.
  destruct (get_list (m x) l) as [|c t] eqn:Hl; [inversion H; subst; apply valid_mono_refl|].
  destruct (remove_child f m x c) as [m1|] eqn:Hr; [|discriminate].
  assert (Hpar : parent (m c) = Some x).
  { apply (wf_in _ _ (c_wf _ (i_core _ (g_inv _ _ Hg))) x c l). rewrite Hl. now left. }
  destruct (remove_child_spec G f m x c m1 Hg Hpar Hr) as (Hg1 & _).
  eapply valid_mono_trans; [eapply remove_child_valid_mono; eauto|eapply IH; eauto].
Qed.

Lemma clear_children_valid_mono G f m x m' : Good G m -> clear_children f m x = Some m' -> valid_mono m m'.
Proof.
  intros Hg H. unfold clear_children in H.
  destruct (clear_list f m x LSched) as [m1|] eqn:H1; [|discriminate].
  destruct (clear_list f m1 x LUnsched) as [m2|] eqn:H2; [|discriminate].
  destruct (clear_list_spec G f m x LSched m1 Hg H1) as (Hg1 & _).
  destruct (clear_list_spec G f m1 x LUnsched m2 Hg1 H2) as (Hg2 & _).
  eapply valid_mono_trans; [eapply clear_list_valid_mono; eauto|].
  eapply valid_mono_trans; [eapply clear_list_valid_mono; eauto|eapply clear_list_valid_mono; eauto].
Qed.

Lemma apply_cop_valid_mono G f m o m' : Good G m -> apply_cop f m o = Some m' -> valid_mono m m'.
Proof.
  intros Hg H. destruct o as [x cl|p c|p c|x|x]; simpl in H.
  - destruct (alive (m x)); [|inversion H; subst; apply valid_mono_refl]. eapply invalidate_valid_mono; eauto.
  - destruct (alive (m p)); [|inversion H; subst; apply valid_mono_refl].
    destruct (alive (m c)); [|inversion H; subst; apply valid_mono_refl].
    destruct (Nat.eqb_spec p c) as [Heq|Hpc]; [inversion H; subst; apply valid_mono_refl|]. simpl in H.
    destruct (is_anc f m c p) as [[|]|]; [inversion H; subst; apply valid_mono_refl| |discriminate].
    unfold put_child in H.
    assert (Hm1 : exists m1, Good G m1 /\ valid_mono m m1 /\ parent (m1 c) = None /\
                             resched f (adopt m1 p c) p c LRecalc = Some m').
    { destruct (parent (m c)) as [q|] eqn:Hq.
      - destruct (remove_child f m q c) as [m1|] eqn:Hr; [|discriminate].
        destruct (remove_child_spec G f m q c m1 Hg Hq Hr) as (Hg1 & Hp1 & _).
        exists m1. split; [assumption|]. split; [eapply remove_child_valid_mono; eauto|auto].
      - exists m. split; [assumption|]. split; [apply valid_mono_refl|auto]. }
    destruct Hm1 as (m1 & Hg1 & Hv1 & Hroot & Hr).
    eapply valid_mono_trans; [exact Hv1|].
    assert (Hva : valid_mono m1 (adopt m1 p c)) by (intros y Hy; rewrite adopt_valid in Hy; rewrite adopt_sched; auto).
    eapply valid_mono_trans; [exact Hva|]. apply valid_mono_scalars.
    pose proof (wf_noself _ _ (c_wf _ (i_core _ (g_inv _ _ Hg1)))) as Hns.
    apply (resched_scalars f (adopt m1 p c) p c LRecalc m'); auto using adopt_parent_c.
    intro y. destruct (Nat.eq_dec y c) as [->|Hy]; [rewrite adopt_parent_c; congruence|].
    rewrite adopt_parent_o by assumption. apply Hns.
  - destruct (alive (m p) && alive (m c)); [|inversion H; subst; apply valid_mono_refl].
    destruct (parent (m c)) as [q|] eqn:Hq.
    + destruct (Nat.eq_dec q p) as [->|Hne]; [eapply remove_child_valid_mono; eauto|].
      unfold remove_child in H. rewrite Hq in H. simpl in H. apply Nat.eqb_neq in Hne. rewrite Hne in H.
      inversion H; subst; apply valid_mono_refl.
    + unfold remove_child in H. rewrite Hq in H. simpl in H. inversion H; subst; apply valid_mono_refl.
  - destruct (alive (m x)); [|inversion H; subst; apply valid_mono_refl]. eapply clear_children_valid_mono; eauto.
  - destruct (alive (m x)); [|inversion H; subst; apply valid_mono_refl].
    unfold destroy in H.
    assert (Hm1 : exists m1, Good G m1 /\ valid_mono m m1 /\
                  match clear_children f m1 x with None => None | Some m2 => Some (upd m2 x (set_alive (m2 x) false)) end = Some m').
    { destruct (parent (m x)) as [p|] eqn:Hp.
      - destruct (remove_child f m p x) as [m1|] eqn:Hr; [|discriminate].
        destruct (remove_child_spec G f m p x m1 Hg Hp Hr) as (Hg1 & _). exists m1.
        split; [assumption|]. split; [eapply remove_child_valid_mono; eauto|auto].
      - exists m. split; [assumption|]. split; [apply valid_mono_refl|auto]. }
    destruct Hm1 as (m1 & Hg1 & Hv1 & H1).
    destruct (clear_children f m1 x) as [m2|] eqn:Hcl; [|discriminate]. inversion H1; subst m'.
    eapply valid_mono_trans; [exact Hv1|]. eapply valid_mono_trans; [eapply clear_children_valid_mono; eauto|].
    intros y Hy. destruct (upd_cases m2 x (set_alive (m2 x) false) y) as [[-> Hu]|[_ Hu]]; rewrite Hu in *; auto.
Qed.

Lemma run_cops_valid_mono G f : forall os m m', Good G m -> run_cops f m os = Some m' -> valid_mono m m'.
Proof.
  induction os as [|o t IH]; intros m m' Hg H; simpl in H; [inversion H; subst; apply valid_mono_refl|].
  destruct (apply_cop f m o) as [m1|] eqn:Ho; [|discriminate].
  eapply valid_mono_trans; [eapply apply_cop_valid_mono; eauto|].
  eapply IH; [|eassumption]. eapply apply_cop_good; eauto.
Qed.

(* ------------------------------------------------------------------ the callback log of a pulse sweep, for ANY Pulse() oracle *)

Definition ev_node (e : event) : nat :=
  match e with EGet x _ _ _ => x | EPulse x _ _ _ => x | EMin r _ => r end.

(* between s and s' the log grew by Pulse events only; each is for a node whose time was valid in s and at or
   before [now], carries exactly that time, and leaves the node invalid in s'; no node occurs twice *)
Definition ev_rel (now : N) (s s' : state) : Prop :=
  exists d, evs s' = d ++ evs s /\ valid_mono (nd s) (nd s') /\
    (forall e, In e d -> exists y k, e = EPulse y k now (sched (nd s y)) /\ (sched (nd s y) <= now)%N /\
                                     valid (nd s y) = true /\ valid (nd s' y) = false) /\
    NoDup (map ev_node d).

Lemma nodup_app_intro (l1 l2 : list nat) :
  NoDup l1 -> NoDup l2 -> (forall x, In x l1 -> In x l2 -> False) -> NoDup (l1 ++ l2).
Proof.
  induction l1 as [|a t IH]; simpl; intros H1 H2 Hd; [assumption|].
  inversion H1; subst. constructor.
  - rewrite in_app_iff. intros [Hin|Hin]; [contradiction|]. apply (Hd a); auto.
  - apply IH; auto. intros x Hx. apply Hd. now right.
Qed.

Lemma ev_rel_quiet now s s' : evs s' = evs s -> valid_mono (nd s) (nd s') -> ev_rel now s s'.
Proof. intros He Hv. exists []. split; [assumption|]. split; [assumption|]. split; [intros e []|constructor]. Qed.

Lemma ev_rel_trans now s1 s2 s3 : ev_rel now s1 s2 -> ev_rel now s2 s3 -> ev_rel now s1 s3.
Proof.
  intros (d1 & He1 & Hv1 & Hd1 & Hn1) (d2 & He2 & Hv2 & Hd2 & Hn2).
  exists (d2 ++ d1). split; [rewrite He2, He1; now rewrite app_assoc|].
  split; [eapply valid_mono_trans; eauto|]. split.
  - intros e Hin. apply in_app_iff in Hin. destruct Hin as [Hin|Hin].
    + destruct (Hd2 e Hin) as (y & k & -> & Hle & Hvy & Hvy'). destruct (Hv1 y Hvy) as [Hv0 Hs0].
      exists y, k. rewrite <- Hs0. auto.
    + destruct (Hd1 e Hin) as (y & k & -> & Hle & Hvy & Hvy'). exists y, k. split; [reflexivity|].
      split; [assumption|]. split; [assumption|].
      destruct (valid (nd s3 y)) eqn:Hv3; [|reflexivity]. destruct (Hv2 y Hv3) as [Hc _]. congruence.
  - rewrite map_app. apply nodup_app_intro; auto.
    intros n Hn2' Hn1'. apply in_map_iff in Hn2'. apply in_map_iff in Hn1'.
    destruct Hn2' as (e2 & <- & Hin2). destruct Hn1' as (e1 & Heq & Hin1).
    destruct (Hd2 e2 Hin2) as (y2 & k2 & -> & _ & Hvy2 & _).
    destruct (Hd1 e1 Hin1) as (y1 & k1 & -> & _ & _ & Hvy1). simpl in Heq. subst y1. congruence.
Qed.

Section AnyPulse.
  Variable pl : nmap -> nat -> nat -> N -> N -> list cop.

  Lemma pulse_self_ev G f s x now s1 :
    Good G (nd s) -> pulse_self pl f s x now = Some s1 -> ev_rel now s s1.
  Proof.
    intros Hg H. unfold pulse_self in H.
    destruct (valid (nd s x) && N.leb (sched (nd s x)) now) eqn:Hdue.
    - apply andb_prop in Hdue. destruct Hdue as [Hv Hle]. apply N.leb_le in Hle.
      set (m1 := upd (nd s) x (set_npl (nd s x) (S (npl (nd s x))))) in *.
      destruct (run_cops f m1 (pl m1 x (npl (nd s x)) now (sched (nd s x)))) as [m2|] eqn:Hr; [|discriminate].
      inversion H; subst s1. clear H.
      assert (Hg1 : Good G m1).
      { unfold m1. apply Good_scalar_upd;
          [exact Hg|reflexivity|reflexivity|reflexivity|reflexivity|reflexivity|reflexivity|reflexivity| | | ].
        - apply (c_k6 _ (i_core _ (g_inv _ _ Hg))).
        - simpl. intros Hv' Hsu. auto.
        - simpl. intros Hv' HG. now apply (g_k2 _ _ Hg). }
      assert (Hv01 : valid_mono (nd s) m1).
      { intros y Hy. unfold m1 in *. destruct (upd_cases (nd s) x (set_npl (nd s x) (S (npl (nd s x)))) y) as [[-> Hu]|[_ Hu]];
        rewrite Hu in *; auto. }
      pose proof (run_cops_valid_mono G f _ m1 m2 Hg1 Hr) as Hv12.
      exists [EPulse x (npl (nd s x)) now (sched (nd s x))]. simpl. split; [reflexivity|]. split; [|split].
      + intros y Hy. destruct (Nat.eq_dec y x) as [->|Hyx]; [rewrite upd_same in Hy; discriminate|].
        rewrite upd_other in * by assumption. apply (valid_mono_trans _ _ _ Hv01 Hv12 y Hy).
      + intros e [<-|[]]. exists x, (npl (nd s x)). split; [reflexivity|]. split; [assumption|]. split; [assumption|].
        now rewrite upd_same.
      + constructor; [intros []|constructor].
    - inversion H; subst. apply ev_rel_quiet; [reflexivity|apply valid_mono_refl].
  Qed.

  Lemma pulse_aux_ev now : forall f G s x s',
    Good G (nd s) -> pulse_aux pl f now s x = Some s' -> ev_rel now s s'.
  Proof.
    induction f as [|f IH]; intros G s x s' Hg H; [discriminate|]. simpl in H.
    destruct (pulse_self pl f s x now) as [s1|] eqn:Hs; [|discriminate].
    destruct (loop_sched (pulse_aux pl f now) f x now s1) as [s2|] eqn:Hl; [|discriminate].
    destruct (resched_up f (nd s2) x) as [m3|] eqn:Hr; [|discriminate]. inversion H; subst s'. clear H.
    pose proof (pulse_self_ev G f s x now s1 Hg Hs) as He1.
    pose proof (pulse_self_good pl G f s x now s1 Hg Hs) as Hg1.
    set (G' := fun y => G y \/ y = x) in *.
    assert (H2 : Good G' (nd s2) /\ ev_rel now s1 s2).
    { apply (loop_sched_ind (fun si => Good G' (nd si) /\ ev_rel now s1 si) (pulse_aux pl f now)) with (k := f) (x := x) (now := now) (s := s1); auto.
      - intros s0 c s3 [Hp He] Hc. split; [eapply pulse_aux_good; eauto|].
        eapply ev_rel_trans; [exact He|]. eapply IH; eauto.
      - split; [assumption|]. apply ev_rel_quiet; [reflexivity|apply valid_mono_refl]. }
    destruct H2 as [Hg2 He2].
    eapply ev_rel_trans; [exact He1|]. eapply ev_rel_trans; [exact He2|].
    apply ev_rel_quiet; [reflexivity|]. simpl.
    eapply resched_up_valid_mono; [apply (c_wf _ (i_core _ (g_inv _ _ Hg2)))|exact Hr].
  Qed.

  (* pulse_never_early_once: whatever the Pulse() callbacks do (invalidate, detach, re-parent, destroy any nodes),
     a pulse sweep of the manager calls Pulse() only on nodes whose requested time was valid and at or before
     [now] when the sweep began, passes exactly that time, calls no node twice, and leaves each called node
     invalid (so that it is asked again) -- and the invariants hold afterwards *)
  Theorem pulse_never_early_once f s r now s' :
    Good nobody (nd s) -> top_pulse pl f s r now = Some s' ->
    Good nobody (nd s') /\ ev_rel now s s'.
  Proof.
    intros Hg H. split; [eapply top_pulse_good; eauto|].
    unfold top_pulse in H. destruct (is_root (nd s) r); [|inversion H; subst; apply ev_rel_quiet; [reflexivity|apply valid_mono_refl]].
    destruct (N.leb (agg (nd s r)) now); [|inversion H; subst; apply ev_rel_quiet; [reflexivity|apply valid_mono_refl]].
    eapply pulse_aux_ev; eauto.
  Qed.
End AnyPulse.

(* ------------------------------------------------------------------ Pulse() callbacks that perform no operations *)

Lemma loop_sched_exit call : forall k x now s s',
  loop_sched call k x now s = Some s' ->
  match ls (nd s' x) with [] => True | c :: _ => (now < agg (nd s' c))%N end.
Proof.
  induction k as [|k IH]; intros x now s s' H; [discriminate|]. simpl in H.
  destruct (ls (nd s x)) as [|c t] eqn:Hl.
  - inversion H; subst. now rewrite Hl.
  - destruct (N.leb_spec (agg (nd s c)) now) as [Hle|Hgt].
    + destruct (call s c) as [s1|]; [|discriminate]. eapply IH; eauto.
    + inversion H; subst. now rewrite Hl.
Qed.

Definition pframe (m m' : nmap) (x : nat) : Prop :=
  (forall y, parent (m' y) = parent (m y) /\ sched (m' y) = sched (m y) /\ agg (m' y) = agg (m y)) /\
  (forall z, ~ desc m x z -> valid (m' z) = valid (m z)) /\
  (forall z, ~ desc m x z -> ~ desc m z x -> cur (m' z) = cur (m z)).

Section PurePulse.
  Variable pl : nmap -> nat -> nat -> N -> N -> list cop.
  Hypothesis pl_pure : forall m x k now st, pl m x k now st = [].

  Lemma pulse_self_pure f s x now s1 :
    pulse_self pl f s x now = Some s1 ->
    (forall y, y <> x -> nd s1 y = nd s y) /\
    parent (nd s1 x) = parent (nd s x) /\ sched (nd s1 x) = sched (nd s x) /\ agg (nd s1 x) = agg (nd s x) /\
    cur (nd s1 x) = cur (nd s x) /\
    (valid (nd s1 x) = false <-> valid (nd s x) = false \/ (sched (nd s x) <= now)%N).
  Proof.
    intro H. unfold pulse_self in H. destruct (valid (nd s x)) eqn:Hv; simpl in H.
    - destruct (N.leb_spec (sched (nd s x)) now) as [Hle|Hgt].
      + rewrite pl_pure in H. simpl in H. inversion H; subst s1. simpl.
        split; [intros y Hy; now rewrite !upd_other by assumption|].
        rewrite !upd_same. simpl. repeat split; auto.
      + inversion H; subst s1. repeat split; auto; try congruence.
        intros [F|F]; [congruence|lia].
    - inversion H; subst s1. repeat split; auto.
  Qed.

  Lemma pulse_aux_pframe now : forall f G s x s',
    Good G (nd s) -> pulse_aux pl f now s x = Some s' -> pframe (nd s) (nd s') x.
  Proof.
    induction f as [|f IH]; intros G s x s' Hg H; [discriminate|]. simpl in H.
    destruct (pulse_self pl f s x now) as [s1|] eqn:Hs; [|discriminate].
    destruct (loop_sched (pulse_aux pl f now) f x now s1) as [s2|] eqn:Hl; [|discriminate].
    destruct (resched_up f (nd s2) x) as [m3|] eqn:Hr; [|discriminate]. inversion H; subst s'. simpl. clear H.
    destruct (pulse_self_pure f s x now s1 Hs) as (Ho & Hp1 & Hs1 & Ha1 & Hc1 & _).
    pose proof (pulse_self_good pl G f s x now s1 Hg Hs) as Hg1.
    set (G' := fun y => G y \/ y = x) in *.
    assert (Hf1 : pframe (nd s) (nd s1) x).
    { split; [|split].
      - intro y. destruct (Nat.eq_dec y x) as [->|Hy]; [auto|rewrite Ho by assumption; auto].
      - intros z Hz. assert (z <> x) by (intro; subst; apply Hz; constructor). now rewrite Ho.
      - intros z Hz _. assert (z <> x) by (intro; subst; apply Hz; constructor). now rewrite Ho. }
    assert (H2 : Good G' (nd s2) /\ pframe (nd s) (nd s2) x).
    { apply (loop_sched_ind2 (fun si => Good G' (nd si) /\ pframe (nd s) (nd si) x) (pulse_aux pl f now) x now) with (k := f) (s := s1); [|split; assumption|exact Hl].
      intros si c t si1 [Hgi (Hsc & Hv & Hc)] Hls _ Hcall. split; [eapply pulse_aux_good; eauto|].
      destruct (IH G' si c si1 Hgi Hcall) as (Hsc' & Hv' & Hc').
      assert (Hpar : forall y, parent (nd si y) = parent (nd s y)) by (intro y; now destruct (Hsc y) as (->&_)).
      assert (Hcx : parent (nd s c) = Some x).
      { rewrite <- Hpar. apply (wf_in _ _ (c_wf _ (i_core _ (g_inv _ _ Hgi))) x c LSched). simpl. rewrite Hls. now left. }
      assert (Hdx : forall z, desc (nd si) c z -> desc (nd s) x z).
      { intros z Hd. apply desc_trans with (b := c); [eapply desc_child; [constructor|exact Hcx]|].
        apply (desc_parent_ext (nd si)); [|assumption]. intro y. symmetry. apply Hpar. }
      split; [|split].
      - intro y. destruct (Hsc y) as (A1&A2&A3). destruct (Hsc' y) as (B1&B2&B3). repeat split; congruence.
      - intros z Hz. rewrite Hv', Hv; auto.
      - intros z Hz Hzx. rewrite Hc', Hc; auto.
        intro Hd. apply (desc_parent_ext (nd si) (nd s)) in Hd; [|intro y; symmetry; apply Hpar].
        apply desc_inv in Hd. destruct Hd as [->|(q & Hq & Hd)].
        + apply Hz. eapply desc_child; [constructor|exact Hcx].
        + assert (q = x) by congruence. subst q. contradiction. }
    destruct H2 as [Hg2 (Hsc & Hv & Hc)].
    pose proof (c_wf _ (i_core _ (g_inv _ _ Hg2))) as Hwf2.
    assert (Hns2 : forall y, parent (nd s2 y) <> Some y) by apply (wf_noself _ _ Hwf2).
    unfold resched_up in Hr. destruct (parent (nd s2 x)) as [p|] eqn:Hp; [|inversion Hr; subst m3; split; [exact Hsc|split; assumption]].
    assert (Hpx : p <> x) by (intro; subst; now apply (Hns2 x)).
    pose proof (resched_scalars f (nd s2) p x LRecalc m3 Hp Hpx Hns2 Hr) as Hsc3.
    split; [|split].
    - intro y. destruct (Hsc y) as (A1&A2&A3). destruct (Hsc3 y) as (B1&B2&B3&_). repeat split; congruence.
    - intros z Hz. destruct (Hsc3 z) as (_&_&_&B4&_). rewrite B4. auto.
    - intros z Hz Hzx. rewrite <- Hc by assumption.
      apply (resched_R_cur_frame f (nd s2) p x m3 Hp Hpx Hns2 Hr).
      + intro; subst; apply Hz; constructor.
      + intro Hd. apply Hzx. eapply desc_child.
        * apply (desc_parent_ext (nd s2) (nd s)); [|exact Hd]. intro y. now destruct (Hsc y) as (->&_).
        * destruct (Hsc x) as (A1&_). congruence.
  Qed.

  (* the state of a child subtree during the parent's loop *)
  Definition untouched (m mi : nmap) (c : nat) : Prop :=
    forall y, desc m c y -> valid (mi y) = true /\ cur (mi y) = cur (m y).
  Definition swept (now : N) (m mi : nmap) (c : nat) : Prop :=
    cur (mi c) = LRecalc /\
    forall y, desc m c y -> (valid (mi y) = false <-> (sched (m y) <= now)%N /\ agg (m y) <> NEVER).

  (* for ANY pulse instant, MUSCLE_TIME_NEVER included: below a frame's node x exactly the nodes fire whose time is
     <= now and whose aggregate is finite (they are reachable through scheduled lists); x itself fires iff its time is
     <= now *)
  Lemma pulse_aux_exact now : forall f G s x s',
    Good G (nd s) ->
    (forall y, desc (nd s) x y -> valid (nd s y) = true) ->
    (forall y, desc (nd s) x y -> y <> x -> su (cur (nd s y))) ->
    (forall c y, desc (nd s) x c -> desc (nd s) c y ->
                 (agg (nd s c) <= sched (nd s y))%N /\ (agg (nd s c) <= agg (nd s y))%N) ->
    pulse_aux pl f now s x = Some s' ->
    (forall y, desc (nd s) x y ->
       (valid (nd s' y) = false <-> (sched (nd s y) <= now)%N /\ (y = x \/ agg (nd s y) <> NEVER))) /\
    (parent (nd s x) <> None -> cur (nd s' x) = LRecalc).
  Proof.
    induction f as [|f IH]; intros G s x s' Hg Hval Hsu HLB H; [discriminate|].
    pose proof H as Hwhole. simpl in H.
    destruct (pulse_self pl f s x now) as [s1|] eqn:Hs; [|discriminate].
    destruct (loop_sched (pulse_aux pl f now) f x now s1) as [s2|] eqn:Hl; [|discriminate].
    destruct (resched_up f (nd s2) x) as [m3|] eqn:Hr; [|discriminate]. inversion H; subst s'. simpl. clear H.
    set (m := nd s) in *.
    destruct (pulse_self_pure f s x now s1 Hs) as (Ho & Hp1 & Hs1 & Ha1 & Hc1 & Hv1).
    pose proof (pulse_self_good pl G f s x now s1 Hg Hs) as Hg1.
    set (G' := fun y => G y \/ y = x) in *.
    pose proof (c_acyc _ (i_core _ (g_inv _ _ Hg))) as Hac.
    (* facts that never change during the sweep *)
    set (stat := fun mi : nmap => forall y, parent (mi y) = parent (m y) /\ sched (mi y) = sched (m y) /\ agg (mi y) = agg (m y)).
    assert (Hst1 : stat (nd s1)).
    { intro y. destruct (Nat.eq_dec y x) as [->|Hy]; [auto|rewrite Ho by assumption; auto]. }
    set (P := fun si : state =>
      Good G' (nd si) /\ stat (nd si) /\ valid (nd si x) = valid (nd s1 x) /\
      (forall c, parent (m c) = Some x -> untouched m (nd si) c \/ swept now m (nd si) c)).
    assert (Hxc : forall c, parent (m c) = Some x -> ~ desc m c x) by (intros c Hc; now apply acyc_no_cycle).
    assert (HP1 : P s1).
    { split; [assumption|]. split; [assumption|]. split; [reflexivity|].
      intros c Hc. left. intros y Hd.
      assert (Hyx : y <> x) by (intro; subst; now apply (Hxc c)).
      rewrite Ho by assumption. split; [|reflexivity]. apply Hval.
      apply desc_trans with (b := c); [eapply desc_child; [constructor|exact Hc]|assumption]. }
    assert (Hstep : forall si c t si1, P si -> ls (nd si x) = c :: t -> (agg (nd si c) <= now)%N ->
                      pulse_aux pl f now si c = Some si1 -> P si1).
    { intros si c t si1 (Hgi & Hsti & Hvxi & Hch) Hls _ Hcall.
      pose proof (c_wf _ (i_core _ (g_inv _ _ Hgi))) as Hwfi.
      assert (Hpari : forall y, parent (nd si y) = parent (m y)) by (intro y; now destruct (Hsti y) as (->&_)).
      assert (Hdi : forall a z, desc (nd si) a z <-> desc m a z).
      { intros a z. split; apply desc_parent_ext; intro y; [symmetry|]; apply Hpari. }
      destruct (wf_in _ _ Hwfi x c LSched) as [Hpc Hcc]; [simpl; rewrite Hls; now left|].
      assert (Hcx : parent (m c) = Some x) by (rewrite <- Hpari; exact Hpc).
      assert (Hdxc : desc m x c) by (eapply desc_child; [constructor|exact Hcx]).
      destruct (Hch c Hcx) as [Hun|[Hsw _]]; [|rewrite Hsw in Hcc; discriminate].
      pose proof (pulse_aux_pframe now f G' si c si1 Hgi Hcall) as (Hsc' & Hv' & Hc').
      destruct (IH G' si c si1 Hgi) as [Hex Hrec]; auto.
      - intros y Hd. apply Hdi in Hd. now destruct (Hun y Hd).
      - intros y Hd Hyc. apply Hdi in Hd. destruct (Hun y Hd) as [_ Hcy]. rewrite Hcy. apply Hsu.
        + eapply desc_trans; eauto.
        + intro; subst y. now apply (Hxc c).
      - intros a y Ha Hy. apply Hdi in Ha. apply Hdi in Hy.
        destruct (Hsti a) as (_&_&->). destruct (Hsti y) as (_&->&->). apply HLB; [eapply desc_trans; eauto|assumption].
      - split; [eapply pulse_aux_good; eauto|]. split; [|split].
        + intro y. destruct (Hsti y) as (A1&A2&A3). destruct (Hsc' y) as (B1&B2&B3). repeat split; congruence.
        + rewrite <- Hvxi. apply Hv'. intro Hd. apply Hdi in Hd. now apply (Hxc c).
        + intros c' Hc'x. destruct (Nat.eq_dec c' c) as [->|Hne].
          * right. split; [apply Hrec; rewrite Hpc; discriminate|].
            assert (Hacn : agg (m c) <> NEVER).
            { destruct (Hsti c) as (_&_&<-). now apply (c_k4 _ (i_core _ (g_inv _ _ Hgi)) c). }
            intros y Hd. destruct (Hsti y) as (_&Hsy&Hay).
            destruct (Hex y (proj2 (Hdi c y) Hd)) as [E1 E2]. rewrite Hsy, Hay in E1, E2. split.
            -- intro Hv. destruct (E1 Hv) as [Hle [->|Hn]]; auto.
            -- intros [Hle Hn]. apply E2. auto.
          * assert (Hd1 : forall y, desc m c' y -> ~ desc (nd si) c y).
            { intros y Hy Hd. apply Hdi in Hd. apply (siblings_disjoint m x c' c y Hac Hc'x Hcx Hne Hy Hd). }
            assert (Hd2 : forall y, desc m c' y -> ~ desc (nd si) y c).
            { intros y Hy Hd. apply Hdi in Hd. apply (sibling_not_above m x c' c y Hac Hc'x Hcx Hne Hy Hd). }
            destruct (Hch c' Hc'x) as [Hun'|[Hsw1 Hsw2]]; [left|right].
            -- intros y Hy. destruct (Hun' y Hy) as [U1 U2]. rewrite Hv' by auto. rewrite Hc' by auto. auto.
            -- split; [rewrite Hc'; [assumption|apply Hd1; constructor|apply Hd2; constructor]|].
               intros y Hy. rewrite Hv' by auto. now apply Hsw2. }
    assert (HP2 : P s2).
    { apply (loop_sched_ind2 P (pulse_aux pl f now) x now Hstep f s1 s2 HP1 Hl). }
    destruct HP2 as (Hg2 & Hst2 & Hvx2 & Hch2).
    pose proof (loop_sched_exit (pulse_aux pl f now) f x now s1 s2 Hl) as Hexit.
    pose proof (i_core _ (g_inv _ _ Hg2)) as Hcore2. pose proof (c_wf _ Hcore2) as Hwf2.
    assert (Hns2 : forall y, parent (nd s2 y) <> Some y) by apply (wf_noself _ _ Hwf2).
    (* the final move of x to its parent's needs-recalc list changes no validity *)
    assert (Hv3 : forall y, valid (m3 y) = valid (nd s2 y)).
    { intro y. unfold resched_up in Hr. destruct (parent (nd s2 x)) as [p|] eqn:Hp; [|inversion Hr; subst; reflexivity].
      assert (Hpx : p <> x) by (intro; subst; now apply (Hns2 x)).
      now destruct (resched_scalars f (nd s2) p x LRecalc m3 Hp Hpx Hns2 Hr y) as (_&_&_&?&_). }
    split.
    - intros y Hd. rewrite Hv3. destruct (Nat.eq_dec y x) as [->|Hyx].
      + assert (Hvx : valid (nd s x) = true) by (apply (Hval x Hd)).
        rewrite Hvx2, Hv1, Hvx. unfold m. intuition congruence.
      + destruct (desc_via_child m x y Hd Hyx) as (c & Hcx & Hdc).
        destruct (Hch2 c Hcx) as [Hun|[_ Hsw]]; [|rewrite (Hsw y Hdc); unfold m; intuition congruence].
        destruct (Hun y Hdc) as [Hvy _]. destruct (Hun c (desc_self _ _)) as [_ Hcc].
        assert (Hdxc : desc m x c) by (eapply desc_child; [constructor|exact Hcx]).
        assert (Hcne : c <> x) by (intro; subst c; now apply (wf_noself _ _ (c_wf _ (i_core _ (g_inv _ _ Hg))) x)).
        destruct (HLB c y Hdxc Hdc) as [Hlb1 Hlb2].
        assert (Hnot : ~ ((sched (m y) <= now)%N /\ agg (m y) <> NEVER)).
        { destruct (Hst2 c) as (Hpc2 & _ & Hac2). destruct (Hsu c Hdxc Hcne) as [Hcs|Hu].
          - assert (Hin : In c (ls (nd s2 x))).
            { pose proof (wf_par _ _ Hwf2 c x (fun F => F)) as Hw. rewrite Hcc, Hcs in Hw.
              apply Hw; [congruence|discriminate]. }
            pose proof (sorted_head_le (nd s2) (ls (nd s2 x)) c (c_k5 _ Hcore2 x) Hin) as Hle.
            destruct (ls (nd s2 x)) as [|h t]; [destruct Hin|]. rewrite Hac2 in Hle. unfold m in *. lia.
          - destruct (c_k4 _ Hcore2 c) as [_ HU]. rewrite Hcc, Hu in HU. specialize (HU eq_refl). rewrite Hac2 in HU.
            pose proof (proj2 (c_k6 _ (i_core _ (g_inv _ _ Hg)) y)) as Hk6. unfold m in *. intros [_ Hn]. apply Hn. lia. }
        unfold m in *. split; [congruence|]. intros [Hle [F|Hn]]; [congruence|]. exfalso. apply Hnot. auto.
    - intro Hpx. unfold resched_up in Hr. destruct (Hst2 x) as (Hpx2 & _). rewrite Hpx2 in Hr.
      destruct (parent (m x)) as [p|] eqn:Hp; [|congruence].
      assert (Hpx' : p <> x) by (intro; subst; apply (Hns2 x); congruence).
      apply (resched_cur f (nd s2) p x LRecalc m3); auto; congruence.
  Qed.

  (* with callbacks that perform no operations a time stops being valid only by firing: the log is complete *)
  Definition ev_relc (now : N) (s s' : state) : Prop :=
    exists d, evs s' = d ++ evs s /\ valid_mono (nd s) (nd s') /\
      (forall e, In e d -> exists y k, e = EPulse y k now (sched (nd s y)) /\ (sched (nd s y) <= now)%N /\
                                       valid (nd s y) = true /\ valid (nd s' y) = false) /\
      NoDup (map ev_node d) /\
      (forall y, valid (nd s y) = true -> valid (nd s' y) = false -> exists k, In (EPulse y k now (sched (nd s y))) d).

  Lemma ev_relc_quiet now s s' :
    evs s' = evs s -> valid_mono (nd s) (nd s') -> (forall y, valid (nd s' y) = valid (nd s y)) -> ev_relc now s s'.
  Proof.
    intros He Hv Hsame. exists []. split; [assumption|]. split; [assumption|]. split; [intros e []|].
    split; [constructor|]. intros y H1 H2. rewrite Hsame in H2. congruence.
  Qed.

  Lemma ev_relc_trans now s1 s2 s3 : ev_relc now s1 s2 -> ev_relc now s2 s3 -> ev_relc now s1 s3.
  Proof.
    intros (d1 & He1 & Hv1 & Hd1 & Hn1 & Hc1) (d2 & He2 & Hv2 & Hd2 & Hn2 & Hc2).
    exists (d2 ++ d1). split; [rewrite He2, He1; now rewrite app_assoc|].
    split; [eapply valid_mono_trans; eauto|]. split; [|split].
    - intros e Hin. apply in_app_iff in Hin. destruct Hin as [Hin|Hin].
      + destruct (Hd2 e Hin) as (y & k & -> & Hle & Hvy & Hvy'). destruct (Hv1 y Hvy) as [Hv0 Hs0].
        exists y, k. rewrite <- Hs0. auto.
      + destruct (Hd1 e Hin) as (y & k & -> & Hle & Hvy & Hvy'). exists y, k. split; [reflexivity|].
        split; [assumption|]. split; [assumption|].
        destruct (valid (nd s3 y)) eqn:Hv3; [|reflexivity]. destruct (Hv2 y Hv3) as [Hc _]. congruence.
    - rewrite map_app. apply nodup_app_intro; auto.
      intros n Hn2' Hn1'. apply in_map_iff in Hn2'. apply in_map_iff in Hn1'.
      destruct Hn2' as (e2 & <- & Hin2). destruct Hn1' as (e1 & Heq & Hin1).
      destruct (Hd2 e2 Hin2) as (y2 & k2 & -> & _ & Hvy2 & _).
      destruct (Hd1 e1 Hin1) as (y1 & k1 & -> & _ & _ & Hvy1). simpl in Heq. subst y1. congruence.
    - intros y Hy1 Hy3. destruct (valid (nd s2 y)) eqn:Hy2.
      + destruct (Hc2 y Hy2 Hy3) as (k & Hin). destruct (Hv1 y Hy2) as [_ Hs0]. rewrite Hs0 in Hin.
        exists k. apply in_app_iff. now left.
      + destruct (Hc1 y Hy1 Hy2) as (k & Hin). exists k. apply in_app_iff. now right.
  Qed.

  Lemma pulse_aux_evc now : forall f G s x s',
    Good G (nd s) -> pulse_aux pl f now s x = Some s' -> ev_relc now s s'.
  Proof.
    induction f as [|f IH]; intros G s x s' Hg H; [discriminate|]. simpl in H.
    destruct (pulse_self pl f s x now) as [s1|] eqn:Hs; [|discriminate].
    destruct (loop_sched (pulse_aux pl f now) f x now s1) as [s2|] eqn:Hl; [|discriminate].
    destruct (resched_up f (nd s2) x) as [m3|] eqn:Hr; [|discriminate]. inversion H; subst s'. clear H.
    pose proof (pulse_self_good pl G f s x now s1 Hg Hs) as Hg1.
    set (G' := fun y => G y \/ y = x) in *.
    assert (He1 : ev_relc now s s1).
    { destruct (pulse_self_ev pl G f s x now s1 Hg Hs) as (d & He & Hv & Hd & Hn).
      exists d. split; [assumption|]. split; [assumption|]. split; [assumption|]. split; [assumption|].
      intros y Hy1 Hy2. destruct (pulse_self_pure f s x now s1 Hs) as (Ho & _ & _ & _ & _ & Hvx).
      destruct (Nat.eq_dec y x) as [->|Hyx]; [|rewrite Ho in Hy2 by assumption; congruence].
      unfold pulse_self in Hs. rewrite Hy1 in Hs. simpl in Hs.
      apply Hvx in Hy2. destruct Hy2 as [F|Hle]; [congruence|].
      apply N.leb_le in Hle. rewrite Hle in Hs. rewrite pl_pure in Hs. simpl in Hs. inversion Hs; subst s1.
      simpl in He. exists (npl (nd s x)).
      assert (d = [EPulse x (npl (nd s x)) now (sched (nd s x))]).
      { apply (app_inv_tail (evs s)). simpl. now rewrite <- He. }
      subst d. now left. }
    assert (H2 : Good G' (nd s2) /\ ev_relc now s1 s2).
    { apply (loop_sched_ind (fun si => Good G' (nd si) /\ ev_relc now s1 si) (pulse_aux pl f now)) with (k := f) (x := x) (now := now) (s := s1); [| |exact Hl].
      - intros s0 c s3 [Hp He] Hc. split; [eapply pulse_aux_good; eauto|].
        eapply ev_relc_trans; [exact He|]. eapply IH; eauto.
      - split; [assumption|]. apply ev_relc_quiet; [reflexivity|apply valid_mono_refl|reflexivity]. }
    destruct H2 as [Hg2 He2].
    eapply ev_relc_trans; [exact He1|]. eapply ev_relc_trans; [exact He2|].
    pose proof (c_wf _ (i_core _ (g_inv _ _ Hg2))) as Hwf2.
    apply ev_relc_quiet; [reflexivity| |]; simpl.
    - eapply resched_up_valid_mono; eauto.
    - intro y. unfold resched_up in Hr. destruct (parent (nd s2 x)) as [p|] eqn:Hp; [|inversion Hr; subst; reflexivity].
      assert (Hns2 : forall z, parent (nd s2 z) <> Some z) by apply (wf_noself _ _ Hwf2).
      assert (Hpx : p <> x) by (intro; subst; now apply (Hns2 x)).
      now destruct (resched_scalars f (nd s2) p x LRecalc m3 Hp Hpx Hns2 Hr y) as (_&_&_&?&_).
  Qed.

  (* pulse_exact_gen: the same for ANY pulse instant, MUSCLE_TIME_NEVER included.  On a freshly recalculated tree
     whose Pulse() callbacks do not restructure anything, the sweep calls Pulse() on exactly the attached nodes y with
     requested time <= now that are the root itself or have a finite aggregate (i.e. are reachable through scheduled
     lists).  For now < MUSCLE_TIME_NEVER the last condition is implied (pulse_exact below); at now =
     MUSCLE_TIME_NEVER it is what distinguishes the code from the naive reading: nodes that asked for "never" and sit
     on unscheduled lists do not fire, a root or an inner node with a finite aggregate that asked for "never" does *)
  Definition fires (m : nmap) (r : nat) (now : N) (y : nat) : Prop :=
    desc m r y /\ (sched (m y) <= now)%N /\ (y = r \/ agg (m y) <> NEVER).

  Theorem pulse_exact_gen f s r now s' :
    Good nobody (nd s) -> is_root (nd s) r = true -> settled (nd s) r ->
    agg (nd s r) = N.min (sched (nd s r)) (first_sched_agg (nd s) r) ->
    top_pulse pl f s r now = Some s' ->
    Good nobody (nd s') /\
    exists d, evs s' = d ++ evs s /\ NoDup (map ev_node d) /\
      (forall e, In e d -> exists y k, e = EPulse y k now (sched (nd s y)) /\ fires (nd s) r now y) /\
      (forall y, fires (nd s) r now y -> exists k, In (EPulse y k now (sched (nd s y))) d) /\
      (forall y, fires (nd s) r now y ->
                 valid (nd s' y) = false /\ (parent (nd s' y) <> None -> cur (nd s' y) = LRecalc)).
  Proof.
    intros Hg Hr Hset Hagg H.
    pose proof (top_pulse_good pl f s r now s' Hg H) as Hg'. split; [assumption|].
    assert (Hval : forall y, desc (nd s) r y -> valid (nd s y) = true).
    { intros y Hd. now destruct (settled_desc (nd s) r Hg Hset y Hd) as [[? _] _]. }
    assert (Hsu : forall y, desc (nd s) r y -> y <> r -> su (cur (nd s y))).
    { intros y Hd. now destruct (settled_desc (nd s) r Hg Hset y Hd) as [_ ?]. }
    assert (HLB : forall c y, desc (nd s) r c -> desc (nd s) c y ->
                  (agg (nd s c) <= sched (nd s y))%N /\ (agg (nd s c) <= agg (nd s y))%N).
    { intros c y Hc Hy. destruct (settled_desc (nd s) r Hg Hset c Hc) as [Hsc Hsuc].
      assert (Hex : agg (nd s c) = N.min (sched (nd s c)) (first_sched_agg (nd s) c)).
      { destruct (Nat.eq_dec c r) as [->|Hne]; [assumption|]. apply (i_k3 _ (g_inv _ _ Hg)); [apply Hsc|auto]. }
      destruct (agg_lower_bound (nd s) c Hg Hsc Hex y Hy). split; [lia|assumption]. }
    assert (Hreq : forall y, valid (nd s' y) = false -> parent (nd s' y) <> None -> cur (nd s' y) = LRecalc).
    { intros y Hv Hp. destruct (g_k2 _ _ Hg' y (fun F => F) Hv) as [Hc|Hc]; [assumption|].
      destruct (parent (nd s' y)) as [p|] eqn:Hpy; [|congruence].
      exfalso. eapply (i_listed _ (g_inv _ _ Hg')); eauto. }
    unfold top_pulse in H. rewrite Hr in H.
    destruct (N.leb_spec (agg (nd s r)) now) as [Hle|Hgt].
    - destruct (pulse_aux_evc now f nobody s r s' Hg H) as (d & He & Hv & Hd & Hn & Hc).
      destruct (pulse_aux_exact now f nobody s r s' Hg Hval Hsu HLB H) as [Hex _].
      pose proof (pulse_aux_pframe now f nobody s r s' Hg H) as (_ & Hfv & _).
      exists d. split; [assumption|]. split; [assumption|]. split; [|split].
      + intros e Hin. destruct (Hd e Hin) as (y & k & -> & Hdue & Hv1 & Hv2). exists y, k.
        split; [reflexivity|].
        assert (Hdy : desc (nd s) r y).
        { destruct (c_acyc _ (i_core _ (g_inv _ _ Hg))) as (rk & B & Hrk & _).
          destruct (is_anc_spec (nd s) rk Hrk (S (rk y)) r y) as (b & _ & Hb); [lia|].
          destruct b; [now apply Hb|]. exfalso.
          assert (Hnd : ~ desc (nd s) r y) by (intro F; apply Hb in F; discriminate).
          rewrite (Hfv y Hnd) in Hv2. congruence. }
        split; [assumption|]. now apply (Hex y Hdy).
      + intros y (Hdy & Hdue & Hre). apply Hc; [now apply Hval|]. apply (Hex y Hdy). auto.
      + intros y (Hdy & Hdue & Hre). assert (Hvy : valid (nd s' y) = false) by (apply (Hex y Hdy); auto).
        split; [assumption|now apply Hreq].
    - inversion H; subst s'. exists []. split; [reflexivity|]. split; [constructor|]. split; [intros e []|].
      assert (Hno : forall y, fires (nd s) r now y -> False).
      { intros y (Hdy & Hdue & _). destruct (HLB r y (desc_self _ _) Hdy). lia. }
      split; intros y Hf; exfalso; eauto.
  Qed.

  (* pulse_exact: on a freshly recalculated tree (root r settled, its aggregate exact) whose Pulse() callbacks
     do not restructure anything, the manager's pulse sweep at time [now] (< MUSCLE_TIME_NEVER) calls Pulse() on
     EXACTLY the nodes attached below r whose requested time is at or before [now]: each of them once, with
     (now, the time it asked for), no other node; afterwards each of them is invalid and sits on its parent's
     needs-recalc list, i.e. will be asked for its next time by the next recalculation sweep *)
  Theorem pulse_exact f s r now s' :
    (now < NEVER)%N ->
    Good nobody (nd s) -> is_root (nd s) r = true -> settled (nd s) r ->
    agg (nd s r) = N.min (sched (nd s r)) (first_sched_agg (nd s) r) ->
    top_pulse pl f s r now = Some s' ->
    Good nobody (nd s') /\
    exists d, evs s' = d ++ evs s /\ NoDup (map ev_node d) /\
      (forall e, In e d -> exists y k, e = EPulse y k now (sched (nd s y)) /\ desc (nd s) r y /\ (sched (nd s y) <= now)%N) /\
      (forall y, desc (nd s) r y -> (sched (nd s y) <= now)%N -> exists k, In (EPulse y k now (sched (nd s y))) d) /\
      (forall y, desc (nd s) r y -> (sched (nd s y) <= now)%N ->
                 valid (nd s' y) = false /\ (parent (nd s' y) <> None -> cur (nd s' y) = LRecalc)).
  Proof.
    intros Hnow Hg Hr Hset Hagg H.
    destruct (pulse_exact_gen f s r now s' Hg Hr Hset Hagg H) as (Hg' & d & He & Hn & Hd & Hc & Hq).
    assert (Hfin : forall y, desc (nd s) r y -> (sched (nd s y) <= now)%N -> fires (nd s) r now y).
    { intros y Hdy Hdue. split; [assumption|]. split; [assumption|]. right.
      destruct (settled_desc (nd s) r Hg Hset y Hdy) as [Hsy Hsuy].
      assert (Hex : agg (nd s y) = N.min (sched (nd s y)) (first_sched_agg (nd s) y)).
      { destruct (Nat.eq_dec y r) as [->|Hne]; [assumption|]. apply (i_k3 _ (g_inv _ _ Hg)); [apply Hsy|auto]. }
      destruct (agg_lower_bound (nd s) y Hg Hsy Hex y (desc_self _ _)) as [_ Hle]. lia. }
    split; [assumption|]. exists d. split; [assumption|]. split; [assumption|]. split; [|split].
    - intros e Hin. destruct (Hd e Hin) as (y & k & -> & Hdy & Hdue & _). exists y, k. auto.
    - intros y Hdy Hdue. apply Hc. auto.
    - intros y Hdy Hdue. apply Hq. auto.
  Qed.

  (* the boundary made explicit: at now = MUSCLE_TIME_NEVER a node that asked for "never" and has no finite time
     below it does NOT fire although its time is "<= now" -- never-requests are not due even at the end of time *)
  Corollary never_request_not_fired f s r s' y :
    Good nobody (nd s) -> is_root (nd s) r = true -> settled (nd s) r ->
    agg (nd s r) = N.min (sched (nd s r)) (first_sched_agg (nd s) r) ->
    top_pulse pl f s r NEVER = Some s' ->
    desc (nd s) r y -> y <> r -> agg (nd s y) = NEVER ->
    forall k st, ~ In (EPulse y k NEVER st) (firstn (length (evs s') - length (evs s)) (evs s')).
  Proof.
    intros Hg Hr Hset Hagg H Hdy Hyr Hay k st Hin.
    destruct (pulse_exact_gen f s r NEVER s' Hg Hr Hset Hagg H) as (_ & d & He & _ & Hd & _).
    rewrite He in Hin. rewrite app_length in Hin.
    replace (length d + length (evs s) - length (evs s)) with (length d) in Hin by lia.
    rewrite firstn_app, firstn_all, Nat.sub_diag in Hin. simpl in Hin. rewrite app_nil_r in Hin.
    destruct (Hd _ Hin) as (y' & k' & Heq & _ & _ & [Hr'|Hn]); inversion Heq; subst y'; congruence.
  Qed.
End PurePulse.
