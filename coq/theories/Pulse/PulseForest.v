(* C20 -- the parent pointers form a forest: descendants, ranks, the ancestor test. *)
From Coq Require Import List Arith NArith Bool Lia.
From Muscle Require Import Pulse.PulseModel Pulse.PulseInv.
Import ListNotations.

Lemma desc_trans m a b c : desc m a b -> desc m b c -> desc m a c.
Proof. intros Hab Hbc. induction Hbc; [assumption|]. eapply desc_child; eauto. Qed.

Lemma desc_inv m a x : desc m a x -> x = a \/ exists p, parent (m x) = Some p /\ desc m a p.
Proof. destruct 1; [left; reflexivity|right; eauto]. Qed.

Lemma desc_parent_ext m m' a x :
  (forall y, parent (m' y) = parent (m y)) -> desc m a x -> desc m' a x.
Proof.
  intros He H. induction H; [constructor|]. eapply desc_child; [eassumption|]. now rewrite He.
Qed.

Lemma desc_rank m rk a x :
  (forall c p, parent (m c) = Some p -> rk p < rk c) -> desc m a x -> rk a <= rk x.
Proof.
  intros Hrk H. induction H; [lia|]. specialize (Hrk _ _ H0). lia.
Qed.

Lemma acyc_no_cycle m x p : acyc m -> parent (m x) = Some p -> ~ desc m x p.
Proof.
  intros (rk & B & Hrk & _) Hp Hd. pose proof (desc_rank m rk x p Hrk Hd). specialize (Hrk _ _ Hp). lia.
Qed.

Lemma acyc_ext m m' : (forall y, parent (m' y) = parent (m y)) -> acyc m -> acyc m'.
Proof. intros He (rk & B & Hrk & Hb). exists rk, B. split; [|assumption]. intros c p. rewrite He. apply Hrk. Qed.

(* cutting an edge keeps the forest *)
Lemma acyc_cut m m' :
  (forall y, parent (m' y) = parent (m y) \/ parent (m' y) = None) -> acyc m -> acyc m'.
Proof.
  intros He (rk & B & Hrk & Hb). exists rk, B. split; [|assumption].
  intros c p Hp. destruct (He c) as [H|H]; [|congruence].
  apply Hrk. congruence.
Qed.

(* the ancestor test of the harness / of apply_cop *)
Lemma is_anc_spec m rk : (forall c p, parent (m c) = Some p -> rk p < rk c) ->
  forall f a x, rk x < f -> exists b, is_anc f m a x = Some b /\ (b = true <-> desc m a x).
Proof.
  intros Hrk f. induction f as [|f IH]; intros a x Hf; [lia|]. simpl.
  destruct (Nat.eqb_spec x a) as [->|Hne].
  - exists true. split; [reflexivity|]. split; [constructor|reflexivity].
  - destruct (parent (m x)) as [p|] eqn:Hp.
    + destruct (IH a p) as (b & Hb & Hbd); [specialize (Hrk _ _ Hp); lia|].
      exists b. split; [assumption|]. rewrite Hbd. split.
      * intro H. eapply desc_child; eauto.
      * intro H. apply desc_inv in H. destruct H as [?|(q & Hq & Hd)]; [congruence|]. congruence.
    + exists false. split; [reflexivity|]. split; [discriminate|].
      intro H. apply desc_inv in H. destruct H as [?|(q & Hq & _)]; congruence.
Qed.

Lemma is_anc_true_desc m : forall f a x, is_anc f m a x = Some true -> desc m a x.
Proof.
  induction f as [|f IH]; intros a x H; [discriminate|]. simpl in H.
  destruct (Nat.eqb_spec x a) as [Heq|Hne]; [subst; constructor|].
  destruct (parent (m x)) as [p|] eqn:Hp; [|discriminate]. eapply desc_child; eauto.
Qed.

Lemma is_anc_false_not_desc m : forall f a x, is_anc f m a x = Some false -> ~ desc m a x.
Proof.
  induction f as [|f IH]; intros a x H; [discriminate|]. simpl in H.
  destruct (Nat.eqb_spec x a) as [Heq|Hne]; [discriminate|].
  intro Hd. apply desc_inv in Hd. destruct Hd as [?|(q & Hq & Hd)]; [congruence|].
  rewrite Hq in H. now apply (IH a q).
Qed.

(* hanging the root c below p (which is not below c) keeps the forest *)
Lemma acyc_attach m m' p c :
  acyc m -> parent (m c) = None -> ~ desc m c p ->
  parent (m' c) = Some p -> (forall y, y <> c -> parent (m' y) = parent (m y)) ->
  acyc m'.
Proof.
  intros (rk & B & Hrk & Hbound) Hroot Hnd Hpc Hoth.
  set (below := fun y => match is_anc (S (rk y)) m c y with Some true => true | _ => false end).
  assert (Hbelow : forall y, below y = true <-> desc m c y).
  { intro y. unfold below. destruct (is_anc_spec m rk Hrk (S (rk y)) c y) as (b & Hb & Hbd); [lia|].
    rewrite Hb. destruct b; [tauto|]. split; [discriminate|]. intro H. apply Hbd in H. discriminate. }
  exists (fun y => if below y then rk y + rk p + 1 else rk y), (B + B + 1).
  split; [|intro y; pose proof (Hbound y); pose proof (Hbound p); destruct (below y); lia].
  intros y q Hq. destruct (Nat.eq_dec y c) as [->|Hy].
  - rewrite Hpc in Hq. inversion Hq; subst q.
    assert (H1 : below c = true) by (apply Hbelow; constructor).
    assert (H2 : below p = false).
    { destruct (below p) eqn:Hb; [|reflexivity]. apply Hbelow in Hb. contradiction. }
    rewrite H1, H2. lia.
  - rewrite Hoth in Hq by assumption. pose proof (Hrk _ _ Hq) as Hlt.
    destruct (below y) eqn:Hby.
    + apply Hbelow in Hby. apply desc_inv in Hby. destruct Hby as [?|(q' & Hq' & Hd)]; [congruence|].
      assert (q' = q) by congruence. subst q'.
      assert (Hbq : below q = true) by now apply Hbelow. rewrite Hbq. lia.
    + destruct (below q) eqn:Hbq; [|lia].
      apply Hbelow in Hbq. assert (Hd : desc m c y) by (eapply desc_child; eauto).
      apply Hbelow in Hd. congruence.
Qed.

(* two ancestors of one node are comparable *)
Lemma desc_comparable m a b y : desc m a y -> desc m b y -> desc m a b \/ desc m b a.
Proof.
  intros Ha. revert b. induction Ha as [|c p Ha IH Hp]; intros b Hb; [right; assumption|].
  apply desc_inv in Hb. destruct Hb as [->|(q & Hq & Hb)].
  - left. eapply desc_child; eauto.
  - assert (q = p) by congruence. subst q. now apply IH.
Qed.

Lemma siblings_disjoint m x c1 c2 y :
  acyc m -> parent (m c1) = Some x -> parent (m c2) = Some x -> c1 <> c2 ->
  desc m c1 y -> desc m c2 y -> False.
Proof.
  intros Hac H1 H2 Hne Hd1 Hd2. destruct (desc_comparable m c1 c2 y Hd1 Hd2) as [Hd|Hd].
  - apply desc_inv in Hd. destruct Hd as [?|(q & Hq & Hd)]; [congruence|].
    assert (q = x) by congruence. subst q. now apply (acyc_no_cycle m c1 x Hac H1).
  - apply desc_inv in Hd. destruct Hd as [?|(q & Hq & Hd)]; [congruence|].
    assert (q = x) by congruence. subst q. now apply (acyc_no_cycle m c2 x Hac H2).
Qed.

Lemma sibling_not_above m x c1 c2 y :
  acyc m -> parent (m c1) = Some x -> parent (m c2) = Some x -> c1 <> c2 ->
  desc m c1 y -> desc m y c2 -> False.
Proof.
  intros Hac H1 H2 Hne Hd1 Hd2. pose proof (desc_trans m c1 y c2 Hd1 Hd2) as Hd.
  apply desc_inv in Hd. destruct Hd as [?|(q & Hq & Hd)]; [congruence|].
  assert (q = x) by congruence. subst q. now apply (acyc_no_cycle m c1 x Hac H1).
Qed.

Lemma desc_via_child m x y : desc m x y -> y <> x -> exists c, parent (m c) = Some x /\ desc m c y.
Proof.
  induction 1 as [|c p Hd IH Hp]; intro Hne; [congruence|].
  destruct (Nat.eq_dec p x) as [->|Hpx].
  - exists c. split; [assumption|constructor].
  - destruct (IH Hpx) as (c' & Hc' & Hd'). exists c'. split; [assumption|]. eapply desc_child; eauto.
Qed.

(* the rank after hanging the root c below p: unchanged outside c's subtree *)
Definition edges (rk : nat -> nat) (m : nmap) : Prop := forall c p, parent (m c) = Some p -> rk p < rk c.

Lemma rank_attach m m' p c rk B :
  edges rk m -> (forall x, rk x <= B) -> parent (m c) = None -> ~ desc m c p ->
  parent (m' c) = Some p -> (forall y, y <> c -> parent (m' y) = parent (m y)) ->
  exists rk', edges rk' m' /\ (forall x, rk' x <= B + B + 1) /\ rk' p = rk p.
Proof.
  intros Hrk Hbound Hroot Hnd Hpc Hoth.
  set (below := fun y => match is_anc (S (rk y)) m c y with Some true => true | _ => false end).
  assert (Hbelow : forall y, below y = true <-> desc m c y).
  { intro y. unfold below. destruct (is_anc_spec m rk Hrk (S (rk y)) c y) as (b & Hb & Hbd); [lia|].
    rewrite Hb. destruct b; [tauto|]. split; [discriminate|]. intro H. apply Hbd in H. discriminate. }
  assert (H2 : below p = false).
  { destruct (below p) eqn:Hb; [|reflexivity]. apply Hbelow in Hb. contradiction. }
  exists (fun y => if below y then rk y + rk p + 1 else rk y).
  split; [|split; [intro y; pose proof (Hbound y); pose proof (Hbound p); destruct (below y); lia|now rewrite H2]].
  intros y q Hq. destruct (Nat.eq_dec y c) as [->|Hy].
  - rewrite Hpc in Hq. inversion Hq; subst q.
    assert (H1 : below c = true) by (apply Hbelow; constructor).
    rewrite H1, H2. lia.
  - rewrite Hoth in Hq by assumption. pose proof (Hrk _ _ Hq) as Hlt.
    destruct (below y) eqn:Hby.
    + apply Hbelow in Hby. apply desc_inv in Hby. destruct Hby as [?|(q' & Hq' & Hd)]; [congruence|].
      assert (q' = q) by congruence. subst q'.
      assert (Hbq : below q = true) by now apply Hbelow. rewrite Hbq. lia.
    + destruct (below q) eqn:Hbq; [|lia].
      apply Hbelow in Hbq. assert (Hd : desc m c y) by (eapply desc_child; eauto).
      apply Hbelow in Hd. congruence.
Qed.
