(* C20 -- the invariants hold in every state the manager's operations can reach. *)
From Coq Require Import List Arith NArith Bool Lia.
From Muscle Require Import Pulse.PulseModel Pulse.PulseInv Pulse.PulseForest Pulse.PulseResched Pulse.PulseOps Pulse.PulseSweep.
Import ListNotations.

Lemma Good_init : Good nobody empty_map.
Proof.
  constructor; [constructor; [constructor|..]|].
  - constructor; unfold empty_map; simpl.
    + intros p c l Hin. destruct l; destruct Hin.
    + intros c p _ Hp. discriminate.
    + reflexivity.
    + intros p l. destruct l; constructor.
    + discriminate.
    + intros e [].
  - intros x Hx. exfalso. now apply Hx.
  - intros x. unfold empty_map. simpl. split; discriminate.
  - intros p. exact I.
  - intros x. unfold empty_map. simpl. split; apply N.le_refl.
  - exists (fun _ => 0), 0. split; [intros c p Hp; discriminate|intro; lia].
  - intros x _. split; [reflexivity|]. intros y. discriminate.
  - intros c p Hp. discriminate.
  - intros x _ Hsu. unfold empty_map in Hsu. simpl in Hsu. destruct Hsu; discriminate.
  - intros x _ _. right. reflexivity.
Qed.

(* constructing a node in place of a destroyed one *)
Lemma Good_new G m x g p :
  Good G m -> alive (m x) = false -> Good G (upd m x (fresh g p)).
Proof.
  intros [[Hc Hl Hk3] Hk2] Hdead. destruct Hc as [Hwf Hk1 Hk4 Hk5 Hk6 Hac Hd].
  destruct (Hd x Hdead) as [Hpx Hnk].
  set (m' := upd m x (fresh g p)).
  assert (Hx : m' x = fresh g p) by (unfold m'; apply upd_same).
  assert (Ho : forall y, y <> x -> m' y = m y) by (intros y Hy; unfold m'; now apply upd_other).
  assert (Hpar : forall y, parent (m' y) = parent (m y)).
  { intro y. destruct (Nat.eq_dec y x) as [->|Hy]; [rewrite Hx; simpl; congruence|now rewrite Ho]. }
  assert (Hmem : forall q l c, In c (get_list (m q) l) -> c <> x).
  { intros q l c Hin Hcx. subst c. destruct (wf_in _ _ Hwf q x l Hin) as [Hp _]. congruence. }
  constructor; [constructor; [constructor|..]|].
  - constructor.
    + intros q c l Hin. destruct (Nat.eq_dec q x) as [->|Hq].
      * rewrite Hx in Hin. destruct l; destruct Hin.
      * rewrite Ho in Hin by assumption. pose proof (Hmem q l c Hin) as Hcx.
        rewrite Ho by assumption. now apply (wf_in _ _ Hwf).
    + intros c q _ Hp Hcn. rewrite Hpar in Hp.
      assert (Hcx : c <> x) by (intro; subst; congruence).
      assert (Hqx : q <> x) by (intro; subst; now apply (Hnk c)).
      rewrite (Ho c Hcx) in *. rewrite (Ho q Hqx). now apply (wf_par _ _ Hwf).
    + intros c Hp. rewrite Hpar in Hp. destruct (Nat.eq_dec c x) as [->|Hcx]; [rewrite Hx; reflexivity|].
      rewrite Ho by assumption. now apply (wf_root _ _ Hwf).
    + intros q l. destruct (Nat.eq_dec q x) as [->|Hq]; [rewrite Hx; destruct l; constructor|].
      rewrite Ho by assumption. apply (wf_nodup _ _ Hwf).
    + intros c. rewrite Hpar. apply (wf_noself _ _ Hwf).
    + intros e [].
  - intros y. destruct (Nat.eq_dec y x) as [->|Hy]; [rewrite Hx; simpl; intro F; now contradiction F|].
    rewrite Ho by assumption. apply Hk1.
  - intros y. destruct (Nat.eq_dec y x) as [->|Hy]; [rewrite Hx; simpl; split; discriminate|].
    rewrite Ho by assumption. apply Hk4.
  - intros q. destruct (Nat.eq_dec q x) as [->|Hq]; [rewrite Hx; exact I|].
    rewrite Ho by assumption. apply sorted_ext with (m := m); [|apply Hk5].
    intros c Hin. rewrite Ho; [reflexivity|]. apply (Hmem q LSched c Hin).
  - intros y. destruct (Nat.eq_dec y x) as [->|Hy]; [rewrite Hx; simpl; split; apply N.le_refl|].
    rewrite Ho by assumption. apply Hk6.
  - apply (acyc_ext m); assumption.
  - intros y Hy. assert (Hyx : y <> x) by (intro; subst; rewrite Hx in Hy; discriminate).
    rewrite Ho in Hy by assumption. destruct (Hd y Hy) as [H1 H2]. split; [now rewrite Hpar|].
    intros z. rewrite Hpar. apply H2.
  - intros c q Hp. rewrite Hpar in Hp. assert (Hcx : c <> x) by (intro; subst; congruence).
    rewrite Ho by assumption. eapply Hl; eauto.
  - apply K3_all. intro y. destruct (Nat.eq_dec y x) as [->|Hy].
    + intros _ Hsu. rewrite Hx in Hsu. simpl in Hsu. destruct Hsu; discriminate.
    + unfold K3at. rewrite Ho by assumption. intros Hv Hsu. rewrite (Hk3 y Hv Hsu). f_equal.
      unfold first_sched_agg. rewrite Ho by assumption. destruct (ls (m y)) as [|h t] eqn:Hls; [reflexivity|].
      rewrite Ho; [reflexivity|]. apply (Hmem y LSched h). simpl. rewrite Hls. now left.
  - intros y HG Hv. destruct (Nat.eq_dec y x) as [->|Hy]; [rewrite Hx; right; reflexivity|].
    rewrite Ho in * by assumption. now apply Hk2.
Qed.

Section Reach.
  Variable gt : nmap -> nat -> nat -> N -> N -> N * list cop.
  Variable pl : nmap -> nat -> nat -> N -> N -> list cop.
  Hypothesis gt_pure : forall m x k now prev, snd (gt m x k now prev) = [].

  Lemma is_root_facts m r : is_root m r = true -> alive (m r) = true /\ parent (m r) = None.
  Proof.
    unfold is_root. intro H. apply andb_prop in H. destruct H as [Ha Hp]. split; [assumption|].
    destruct (parent (m r)); [discriminate|reflexivity].
  Qed.

  Lemma top_get_good f s r now s' :
    Good nobody (nd s) -> top_get gt f s r now = Some s' -> Good nobody (nd s').
  Proof.
    intros Hg H. unfold top_get in H. destruct (is_root (nd s) r) eqn:Hr; [|inversion H; subst; assumption].
    destruct (get_aux gt f now s r NEVER) as [[s1 mn]|] eqn:Ha; [|discriminate]. inversion H; subst s'. simpl.
    destruct (is_root_facts _ _ Hr) as [_ Hp].
    assert (Hrn : rn (cur (nd s r))) by (right; apply (wf_root _ _ (c_wf _ (i_core _ (g_inv _ _ Hg)))); assumption).
    now destruct (get_aux_spec gt gt_pure now f nobody s r NEVER s1 mn Hg Hrn Ha) as (? & _).
  Qed.

  Lemma top_pulse_good f s r now s' :
    Good nobody (nd s) -> top_pulse pl f s r now = Some s' -> Good nobody (nd s').
  Proof.
    intros Hg H. unfold top_pulse in H. destruct (is_root (nd s) r); [|inversion H; subst; assumption].
    destruct (N.leb (agg (nd s r)) now); [|inversion H; subst; assumption].
    eapply pulse_aux_good; eauto.
  Qed.

  Lemma step_good f s o s' : Good nobody (nd s) -> step gt pl f s o = Some s' -> Good nobody (nd s').
  Proof.
    intros Hg H. destruct o as [c|x|r now|r now|r now]; simpl in H.
    - destruct (apply_cop f (nd s) c) as [m|] eqn:Hc; [|discriminate]. inversion H; subst s'. simpl.
      eapply apply_cop_good; eauto.
    - destruct (alive (nd s x)) eqn:Ha; inversion H; subst s'; [assumption|]. simpl. now apply Good_new.
    - eapply top_get_good; eauto.
    - eapply top_pulse_good; eauto.
    - destruct (top_get gt f s r now) as [s1|] eqn:H1; [|discriminate].
      eapply top_pulse_good; [|eassumption]. eapply top_get_good; eauto.
  Qed.

  Lemma run_good f : forall os s s', Good nobody (nd s) -> run gt pl f s os = Some s' -> Good nobody (nd s').
  Proof.
    induction os as [|o t IH]; intros s s' Hg H; simpl in H; [inversion H; subst; assumption|].
    destruct (step gt pl f s o) as [s1|] eqn:Hs; [|discriminate]. eapply IH; [|eassumption]. eapply step_good; eauto.
  Qed.

  (* reach_inv: after any history of create / attach / detach / clear / destroy / invalidate operations and
     manager sweeps, with Pulse() callbacks that may themselves perform any such operations on any nodes,
     the forest is well-formed, the scheduled lists are sorted, aggregates of settled nodes are exact, and
     every node whose time is not valid is on a needs-recalc path to its root (or has no parent) *)
  Theorem reach_inv f os s : run gt pl f init_state os = Some s -> Good nobody (nd s).
  Proof. apply run_good. exact Good_init. Qed.
End Reach.
