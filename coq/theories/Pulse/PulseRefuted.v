(* C20 -- what does NOT hold when a GetPulseTime() callback itself performs operations (finding F16):
   a node that invalidates itself from inside its own GetPulseTime() ends up with an invalid time on the
   unscheduled list, i.e. off every needs-recalc path; later InvalidatePulseTime() calls are no-ops, it is
   never asked again and never fires, although it would ask for time 5.  The same history is replayed on the
   C++ code by corpus/C20.txt (first line). *)
From Coq Require Import List Arith NArith Bool.
From Muscle Require Import Pulse.PulseModel Pulse.PulseInv Pulse.PulseOps Pulse.PulseSweep.
Import ListNotations.

Definition rr_gt : nmap -> nat -> nat -> N -> N -> N * list cop :=
  fun _ x k _ _ => match x, k with
                 | 1, 0 => (NEVER, [CInval 1 true])      (* first call: "never", and invalidates itself *)
                 | 1, _ => (5%N, [])                      (* every later call would ask for time 5 *)
                 | _, _ => (NEVER, [])
                 end.
Definition rr_pl : nmap -> nat -> nat -> N -> N -> list cop := fun _ _ _ _ _ => [].
Definition rr_ops : list top :=
  [TNew 0; TNew 1; TOp (CAttach 0 1); TCycle 0 0%N; TOp (CInval 1 true); TCycle 0 10%N; TCycle 0 10%N].

Definition is_get_of (x : nat) (e : event) : bool := match e with EGet y _ _ _ => Nat.eqb y x | _ => false end.
Definition is_pulse_of (x : nat) (e : event) : bool := match e with EPulse y _ _ _ => Nat.eqb y x | _ => false end.

Lemma reentrant_recalc_refuted :
  exists s, run rr_gt rr_pl 50 init_state rr_ops = Some s /\
    parent (nd s 1) = Some 0 /\ valid (nd s 1) = false /\ cur (nd s 1) = LUnsched /\   (* attached, invalid, not on needs-recalc *)
    length (filter (is_get_of 1) (evs s)) = 1 /\                                         (* asked once, never again *)
    filter (is_pulse_of 1) (evs s) = [] /\                                               (* never fires *)
    ~ K2 nobody (nd s).
Proof.
  vm_compute. eexists. split; [reflexivity|]. repeat split.
  intro H. specialize (H 1 (fun F => F) eq_refl). destruct H as [H|H]; discriminate.
Qed.
