(* C20 -- fuel adequacy: with fuel >= 2*(rank bound) + (bound on node ids in use) + 4 no function of the model
   runs out of fuel (user operations in any Good state; the two sweeps for callbacks that perform no operations). *)
From Coq Require Import List Arith NArith Bool Lia.
From Muscle Require Import Pulse.PulseModel Pulse.PulseInv Pulse.PulseForest Pulse.PulseResched Pulse.PulseOps
     Pulse.PulseSweep Pulse.PulseReach Pulse.PulseMin Pulse.PulseExact.
Import ListNotations.

(* ------------------------------------------------------------------ ReschedulePulseChild, the ancestor test *)

Lemma edges_ext rk m m' : (forall y q, parent (m' y) = Some q -> parent (m y) = Some q) -> edges rk m -> edges rk m'.
Proof. intros He Hr c p Hp. apply Hr. now apply He. Qed.

Lemma resched_fuel rk : forall f m p c w,
  edges rk m -> parent (m c) = Some p -> rk p < f -> exists m', resched f m p c w = Some m'.
Proof.
  induction f as [|f IH]; intros m p c w He Hpar Hf; [lia|].
  rewrite resched_unfold.
  destruct (lst_eqb w (cur (m c)) && negb (lst_eqb (cur (m c)) LSched)); [eauto|]. cbv zeta.
  assert (Hpc : p <> c) by (intro; subst; specialize (He _ _ Hpar); lia).
  destruct w; eauto.
  set (m2 := unlink m p c LRecalc).
  destruct (parent (m2 p)) as [g|] eqn:Hg; [|eauto].
  assert (Hg' : parent (m p) = Some g) by (unfold m2 in Hg; now rewrite unlink_parent in Hg).
  destruct (IH m2 g p LRecalc) as (m3 & ->); eauto.
  - apply (edges_ext rk m); [|assumption]. intros y q. unfold m2. now rewrite unlink_parent.
  - specialize (He _ _ Hg'). lia.
Qed.

Lemma resched_up_fuel rk f m x :
  edges rk m -> (forall y, rk y < f) -> exists m', resched_up f m x = Some m'.
Proof.
  intros He Hf. unfold resched_up. destruct (parent (m x)) as [p|] eqn:Hp; [|eauto].
  eapply resched_fuel; eauto.
Qed.

Lemma is_anc_fuel rk f m a x : edges rk m -> rk x < f -> exists b, is_anc f m a x = Some b.
Proof. intros He Hf. destruct (is_anc_spec m rk He f a x Hf) as (b & Hb & _). eauto. Qed.

(* ------------------------------------------------------------------ user operations *)

Lemma invalidate_fuel rk f m x cl :
  edges rk m -> (forall y, rk y < f) -> exists m', invalidate f m x cl = Some m'.
Proof.
  intros He Hf. unfold invalidate.
  set (m1 := if cl then upd m x (set_sched (m x) NEVER) else m).
  assert (Hp1 : forall y, parent (m1 y) = parent (m y)).
  { intro y. unfold m1. destruct cl; [|reflexivity].
    destruct (upd_cases m x (set_sched (m x) NEVER) y) as [[-> ->]|[_ ->]]; reflexivity. }
  destruct (valid (m1 x)); [|eauto].
  apply (resched_up_fuel rk); [|assumption].
  apply (edges_ext rk m); [|assumption]. intros y q.
  destruct (upd_cases m1 x (set_valid (m1 x) false) y) as [[-> ->]|[_ ->]]; simpl; now rewrite Hp1.
Qed.

Lemma remove_child_fuel rk f m p c :
  edges rk m -> (forall y, rk y < f) -> exists m', remove_child f m p c = Some m'.
Proof.
  intros He Hf. unfold remove_child. destruct (parent (m c)) as [q|] eqn:Hq; simpl; [|eauto].
  destruct (Nat.eqb_spec q p) as [->|Hne]; [|eauto].
  destruct (resched_fuel rk f m p c LNone He Hq (Hf p)) as (m1 & Hr). rewrite Hr.
  destruct (opt_nat_eqb (hd_error (ls (m p))) c); [|eauto].
  apply (resched_up_fuel rk); [|assumption].
  assert (Hpc : p <> c) by (intro; subst; specialize (He _ _ Hq); lia).
  assert (Hns : forall x, parent (m x) <> Some x) by (intros x Hx; specialize (He _ _ Hx); lia).
  pose proof (resched_scalars f m p c LNone m1 Hq Hpc Hns Hr) as Hsc.
  intros y g Hy. apply He.
  destruct (upd_cases m1 c (set_valid (set_parent (m1 c) None) false) y) as [[-> Hu]|[_ Hu]]; rewrite Hu in Hy.
  - discriminate.
  - destruct (Hsc y) as (Hpy & _). rewrite <- Hpy. exact Hy.
Qed.

(* after RemovePulseChild(c) the lists of p hold what they held, minus c *)
Lemma remove_child_lists G f m p c m' :
  Good G m -> parent (m c) = Some p -> remove_child f m p c = Some m' ->
  forall l y, In y (get_list (m' p) l) -> In y (get_list (m p) l) /\ y <> c.
Proof.
  intros Hg Hpar H l y Hin.
  destruct (remove_child_spec G f m p c m' Hg Hpar H) as (Hg' & Hpc' & Hpo & _ & Hsu & Hl).
  destruct (Hl l y Hin) as [Hok|Heq]; [assumption|]. subst l.
  (* the needs-recalc list: use well-formedness and the fact that only ancestors of p change their _curList *)
  pose proof (c_wf _ (i_core _ (g_inv _ _ Hg))) as Hwf. pose proof (c_wf _ (i_core _ (g_inv _ _ Hg'))) as Hwf'.
  destruct (wf_in _ _ Hwf' p y LRecalc Hin) as [Hpy Hcy].
  assert (Hyc : y <> c) by (intro; subst; congruence).
  split; [|assumption].
  assert (Hpy0 : parent (m y) = Some p) by (rewrite <- Hpo; assumption).
  (* _curList of y did not change *)
  assert (Hcy0 : cur (m y) = LRecalc).
  { unfold remove_child in H.
    assert (Hpe : opt_nat_eqb (parent (m c)) p = true) by (rewrite Hpar; simpl; apply Nat.eqb_refl).
    rewrite Hpe in H. destruct (resched f m p c LNone) as [m1|] eqn:Hr; [|discriminate].
    assert (Hcl : cur (m c) <> LNone) by (eapply (i_listed _ (g_inv _ _ Hg)); eauto).
    apply resched_None in Hr; [|assumption]. subst m1.
    assert (Hpc : p <> c) by (intro; subst; now apply (wf_noself _ _ Hwf c)).
    fold (orphan (unlink m p c LNone) c) in H. set (m2 := orphan (unlink m p c LNone) c) in *.
    assert (Hc2 : cur (m2 y) = cur (m y)) by (unfold m2; rewrite orphan_cur; now apply unlink_cur_o).
    destruct (opt_nat_eqb (hd_error (ls (m p))) c); [|inversion H; subst; congruence].
    unfold resched_up in H. destruct (parent (m2 p)) as [g|] eqn:Hg2; [|inversion H; subst; congruence].
    rewrite <- Hc2. rewrite <- Hcy. symmetry.
    assert (Hp2 : forall z, z <> c -> parent (m2 z) = parent (m z)).
    { intros z Hz. unfold m2. rewrite orphan_parent_o by assumption. now apply unlink_parent. }
    assert (Hns2 : forall z, parent (m2 z) <> Some z).
    { intro z. destruct (Nat.eq_dec z c) as [->|Hz]; [unfold m2; rewrite orphan_parent_c; discriminate|].
      rewrite Hp2 by assumption. apply (wf_noself _ _ Hwf). }
    apply (resched_R_cur_frame f m2 g p m' Hg2); auto.
    - intro; subst g. now apply (Hns2 p).
    - intro; subst y. now apply (wf_noself _ _ Hwf p).
    - intro Hd.
      assert (Hgm : parent (m p) = Some g) by (rewrite <- Hp2 by assumption; exact Hg2).
      apply (acyc_no_cycle m p g (c_acyc _ (i_core _ (g_inv _ _ Hg))) Hgm).
      apply desc_trans with (b := y); [eapply desc_child; [constructor|exact Hpy0]|].
      apply (desc_sub m m2); [|exact Hd]. intros z q Hz.
      destruct (Nat.eq_dec z c) as [->|Hzc]; [unfold m2 in Hz; rewrite orphan_parent_c in Hz; discriminate|].
      now rewrite <- Hp2. }
  pose proof (wf_par _ _ Hwf y p (fun F => F) Hpy0) as Hw. rewrite Hcy0 in Hw. apply Hw. discriminate.
Qed.

(* every child list is shorter than the bound on the node ids in use *)
Lemma list_len_bound N m x l :
  WF m -> dead_inert m -> (forall y, alive (m y) = true -> y < N) -> length (get_list (m x) l) <= N.
Proof.
  intros Hwf Hd Ha.
  rewrite <- (seq_length N 0). apply NoDup_incl_length; [apply (wf_nodup _ _ Hwf)|].
  intros y Hin. apply in_seq. split; [lia|]. simpl. apply Ha.
  destruct (wf_in _ _ Hwf x y l Hin) as [Hp _].
  destruct (alive (m y)) eqn:Hal; [reflexivity|]. destruct (Hd y Hal) as [Hn _]. congruence.
Qed.

Lemma Good_len G N m x l :
  Good G m -> (forall y, alive (m y) = true -> y < N) -> length (get_list (m x) l) <= N.
Proof.
  intros Hg. apply list_len_bound; [apply (c_wf _ (i_core _ (g_inv _ _ Hg)))|apply (c_dead _ (i_core _ (g_inv _ _ Hg)))].
Qed.

Lemma clear_list_fuel G rk B : forall f m x l,
  Good G m -> edges rk m -> (forall y, rk y <= B) -> length (get_list (m x) l) + B + 2 <= f ->
  exists m', clear_list f m x l = Some m'.
Proof.
  induction f as [|f IH]; intros m x l Hg He Hb Hf; [lia|]. simpl.
  destruct (get_list (m x) l) as [|c t] eqn:Hl; [eauto|]. simpl in Hf.
  destruct (remove_child_fuel rk f m x c He) as (m1 & Hr); [intro y; specialize (Hb y); lia|]. rewrite Hr.
  pose proof (c_wf _ (i_core _ (g_inv _ _ Hg))) as Hwf.
  assert (Hpar : parent (m c) = Some x) by (apply (wf_in _ _ Hwf x c l); rewrite Hl; now left).
  destruct (remove_child_spec G f m x c m1 Hg Hpar Hr) as (Hg1 & Hp1 & Hpo & _).
  apply IH; auto.
  - intros y q Hy. apply He. destruct (Nat.eq_dec y c) as [->|Hyc]; [congruence|]. now rewrite <- Hpo.
  - assert (Hle : length (get_list (m1 x) l) <= length t).
    { apply NoDup_incl_length; [apply (wf_nodup _ _ (c_wf _ (i_core _ (g_inv _ _ Hg1))))|].
      intros y Hin. destruct (remove_child_lists G f m x c m1 Hg Hpar Hr l y Hin) as [Hin0 Hyc].
      rewrite Hl in Hin0. destruct Hin0; [congruence|assumption]. }
    lia.
Qed.

Lemma clear_children_fuel G rk B N f m x :
  Good G m -> edges rk m -> (forall y, rk y <= B) -> (forall y, alive (m y) = true -> y < N) ->
  N + B + 2 <= f -> exists m', clear_children f m x = Some m'.
Proof.
  intros Hg He Hb Ha Hf. unfold clear_children.
  destruct (clear_list_fuel G rk B f m x LSched Hg He Hb) as (m1 & H1); [pose proof (Good_len G N m x LSched Hg Ha); lia|].
  rewrite H1. destruct (clear_list_spec G f m x LSched m1 Hg H1) as (Hg1 & _ & Hp1 & Ha1 & _).
  assert (He1 : edges rk m1).
  { intros y q Hy. apply He. destruct (Hp1 y) as [Hq|Hq]; congruence. }
  assert (Hal1 : forall y, alive (m1 y) = true -> y < N) by (intros y Hy; apply Ha; now rewrite <- Ha1).
  destruct (clear_list_fuel G rk B f m1 x LUnsched Hg1 He1 Hb) as (m2 & H2); [pose proof (Good_len G N m1 x LUnsched Hg1 Hal1); lia|].
  rewrite H2. destruct (clear_list_spec G f m1 x LUnsched m2 Hg1 H2) as (Hg2 & _ & Hp2 & Ha2 & _).
  assert (He2 : edges rk m2).
  { intros y q Hy. apply He1. destruct (Hp2 y) as [Hq|Hq]; congruence. }
  assert (Hal2 : forall y, alive (m2 y) = true -> y < N) by (intros y Hy; apply Hal1; now rewrite <- Ha2).
  apply (clear_list_fuel G rk B f m2 x LRecalc Hg2 He2 Hb). pose proof (Good_len G N m2 x LRecalc Hg2 Hal2). lia.
Qed.

Lemma put_child_fuel G rk B f m p c :
  Good G m -> edges rk m -> (forall y, rk y <= B) -> B + 1 <= f -> p <> c -> ~ desc m c p ->
  exists m', put_child f m p c = Some m'.
Proof.
  intros Hg He Hb Hf Hpc Hnd. unfold put_child.
  assert (Hlt : forall y, rk y < f) by (intro y; specialize (Hb y); lia).
  assert (Hm1 : exists m1, (match parent (m c) with Some q => remove_child f m q c | None => Some m end) = Some m1 /\
                           edges rk m1 /\ parent (m1 c) = None /\ ~ desc m1 c p).
  { destruct (parent (m c)) as [q|] eqn:Hq.
    - destruct (remove_child_fuel rk f m q c He Hlt) as (m1 & Hr). exists m1. split; [assumption|].
      destruct (remove_child_spec G f m q c m1 Hg Hq Hr) as (_ & Hp1 & Hpo & _).
      assert (Hsub : forall y z, parent (m1 y) = Some z -> parent (m y) = Some z).
      { intros y z Hy. destruct (Nat.eq_dec y c) as [->|Hyc]; [congruence|]. now rewrite <- Hpo. }
      split; [eapply edges_ext; eauto|]. split; [assumption|].
      intro Hd. apply Hnd. eapply desc_sub; eauto.
    - exists m. auto. }
  destruct Hm1 as (m1 & -> & He1 & Hroot & Hnd1).
  destruct (rank_attach m1 (adopt m1 p c) p c rk B He1 Hb Hroot Hnd1) as (rk' & He' & _ & Hrp).
  - apply adopt_parent_c.
  - intros y Hy. now apply adopt_parent_o.
  - fold (adopt m1 p c). apply (resched_fuel rk'); auto using adopt_parent_c. rewrite Hrp. apply Hlt.
Qed.

Lemma apply_cop_fuel G rk B N f m o :
  Good G m -> edges rk m -> (forall y, rk y <= B) -> (forall y, alive (m y) = true -> y < N) ->
  N + B + 2 <= f -> exists m', apply_cop f m o = Some m'.
Proof.
  intros Hg He Hb Ha Hf.
  assert (Hlt : forall y, rk y < f) by (intro y; specialize (Hb y); lia).
  destruct o as [x cl|p c|p c|x|x]; simpl.
  - destruct (alive (m x)); [|eauto]. now apply (invalidate_fuel rk).
  - destruct (alive (m p) && alive (m c)); simpl; [|eauto].
    destruct (Nat.eqb_spec p c) as [Heq|Hne]; simpl; [eauto|].
    destruct (is_anc_fuel rk f m c p He (Hlt p)) as (b & Hb'). rewrite Hb'. destruct b; [eauto|].
    apply (put_child_fuel G rk B); auto; [lia|]. now apply is_anc_false_not_desc with (f := f).
  - destruct (alive (m p) && alive (m c)); [|eauto]. now apply (remove_child_fuel rk).
  - destruct (alive (m x)); [|eauto]. apply (clear_children_fuel G rk B N); auto.
  - destruct (alive (m x)); [|eauto]. unfold destroy.
    assert (Hm1 : exists m1, (match parent (m x) with Some p => remove_child f m p x | None => Some m end) = Some m1 /\
                             Good G m1 /\ edges rk m1 /\ (forall y, alive (m1 y) = true -> y < N)).
    { destruct (parent (m x)) as [p|] eqn:Hp.
      - destruct (remove_child_fuel rk f m p x He Hlt) as (m1 & Hr). exists m1. split; [assumption|].
        destruct (remove_child_spec G f m p x m1 Hg Hp Hr) as (Hg1 & Hp1 & Hpo & Hal & _).
        split; [assumption|]. split.
        + intros y z Hy. apply He. destruct (Nat.eq_dec y x) as [->|Hyx]; [congruence|]. now rewrite <- Hpo.
        + intros y Hy. apply Ha. now rewrite <- Hal.
      - exists m. auto. }
    destruct Hm1 as (m1 & -> & Hg1 & He1 & Ha1).
    destruct (clear_children_fuel G rk B N f m1 x Hg1 He1 Hb Ha1 Hf) as (m2 & ->). eauto.
Qed.

(* ------------------------------------------------------------------ the sweeps, callbacks performing no operations *)

Definition kids_lt (N : nat) (m : nmap) : Prop := forall y p, parent (m y) = Some p -> y < N.

Lemma kids_lt_of_alive G N m : Good G m -> (forall y, alive (m y) = true -> y < N) -> kids_lt N m.
Proof.
  intros Hg Ha y p Hp. apply Ha. destruct (alive (m y)) eqn:Hal; [reflexivity|].
  destruct (c_dead _ (i_core _ (g_inv _ _ Hg)) y Hal) as [Hn _]. congruence.
Qed.

Lemma kids_len N m x l : WF m -> kids_lt N m -> length (get_list (m x) l) <= N.
Proof.
  intros Hwf Hk. rewrite <- (seq_length N 0). apply NoDup_incl_length; [apply (wf_nodup _ _ Hwf)|].
  intros y Hin. apply in_seq. split; [lia|]. simpl. destruct (wf_in _ _ Hwf x y l Hin) as [Hp _]. eapply Hk; eauto.
Qed.

Lemma loop_recalc_total (I : state -> Prop) call x :
  (forall s c t mn, I s -> lr (nd s x) = c :: t ->
     exists s1 mn1, call s c mn = Some (s1, mn1) /\ I s1 /\ length (lr (nd s1 x)) < length (lr (nd s x))) ->
  forall k s mn, I s -> length (lr (nd s x)) < k -> exists r, loop_recalc call k x s mn = Some r.
Proof.
  intros Hcall. induction k as [|k IH]; intros s mn Hi Hk; [lia|]. simpl.
  destruct (lr (nd s x)) as [|c t] eqn:Hl; [eauto|].
  destruct (Hcall s c t mn Hi Hl) as (s1 & mn1 & -> & Hi1 & Hlen). apply IH; [assumption|].
  rewrite Hl in Hlen. simpl in *. lia.
Qed.

Lemma loop_sched_total (I : state -> Prop) call x now :
  (forall s c t, I s -> ls (nd s x) = c :: t -> (agg (nd s c) <= now)%N ->
     exists s1, call s c = Some s1 /\ I s1 /\ length (ls (nd s1 x)) < length (ls (nd s x))) ->
  forall k s, I s -> length (ls (nd s x)) < k -> exists r, loop_sched call k x now s = Some r.
Proof.
  intros Hcall. induction k as [|k IH]; intros s Hi Hk; [lia|]. simpl.
  destruct (ls (nd s x)) as [|c t] eqn:Hl; [eauto|].
  destruct (N.leb_spec (agg (nd s c)) now) as [Hle|Hgt]; [|eauto].
  destruct (Hcall s c t Hi Hl Hle) as (s1 & -> & Hi1 & Hlen). apply IH; [assumption|].
  rewrite Hl in Hlen. simpl in *. lia.
Qed.

Section GetFuel.
  Variable gt : nmap -> nat -> nat -> N -> N -> N * list cop.
  Hypothesis gt_pure : forall m x k now prev, snd (gt m x k now prev) = [].

  Lemma get_self_total f s x now : exists s1, get_self gt f s x now = Some s1.
  Proof. unfold get_self. destruct (valid (nd s x)); [eauto|]. rewrite gt_pure. simpl. eauto. Qed.

  Lemma get_finish_total rk f s x mn :
    edges rk (nd s) -> (forall y, rk y < f) -> exists r, get_finish f s x mn = Some r.
  Proof.
    intros He Hf. unfold get_finish.
    set (m1 := upd (nd s) x (set_agg (nd s x) (N.min (sched (nd s x)) (first_sched_agg (nd s) x)))).
    assert (Hp1 : forall y, parent (m1 y) = parent (nd s y)).
    { intro y. unfold m1. destruct (upd_cases (nd s) x (set_agg (nd s x) (N.min (sched (nd s x)) (first_sched_agg (nd s) x))) y) as [[-> ->]|[_ ->]]; reflexivity. }
    destruct (parent (m1 x)) as [p|] eqn:Hp; [|eauto].
    destruct (lst_eqb (cur (m1 x)) LRecalc || negb (N.eqb (N.min (sched (nd s x)) (first_sched_agg (nd s) x)) (agg (nd s x)))); [|eauto].
    destruct (resched_fuel rk f m1 p x (if N.eqb (N.min (sched (nd s x)) (first_sched_agg (nd s) x)) NEVER then LUnsched else LSched)) as (m2 & ->); eauto.
    apply (edges_ext rk (nd s)); [|assumption]. intros y q. now rewrite Hp1.
  Qed.

  Lemma get_aux_fuel now rk B N : (forall y, rk y <= B) -> forall f G s x mn,
    Good G (nd s) -> rn (cur (nd s x)) -> edges rk (nd s) -> kids_lt N (nd s) ->
    (B - rk x) + N + B + 3 <= f -> exists r, get_aux gt f now s x mn = Some r.
  Proof.
    intros Hb. induction f as [|f IH]; intros G s x mn Hg Hrn He Hk Hf; [lia|]. simpl.
    destruct (get_self_total f s x now) as (s1 & Hs). rewrite Hs.
    destruct (get_self_good gt gt_pure G f s x now s1 Hg Hrn Hs) as (Hg1 & Hv1 & Hst1 & Ho1 & Ha1).
    set (I := fun si : state => Good G (nd si) /\ (forall y, parent (nd si y) = parent (nd s y))).
    assert (HI1 : I s1) by (split; [assumption|intro y; now destruct (Hst1 y) as (?&_)]).
    assert (Hloop : exists r, loop_recalc (get_aux gt f now) f x s1 mn = Some r).
    { apply (loop_recalc_total I (get_aux gt f now) x); [|exact HI1|].
      - intros si c t mi [Hgi Hpi] Hl.
        pose proof (c_wf _ (i_core _ (g_inv _ _ Hgi))) as Hwfi.
        destruct (wf_in _ _ Hwfi x c LRecalc) as [Hpc Hcc]; [simpl; rewrite Hl; now left|].
        assert (Hei : edges rk (nd si)) by (apply (edges_ext rk (nd s)); [intros y q; now rewrite Hpi|assumption]).
        assert (Hki : kids_lt N (nd si)) by (intros y q Hy; rewrite Hpi in Hy; eapply Hk; eauto).
        pose proof (Hei _ _ Hpc) as Hrk. pose proof (Hb c) as Hbc.
        destruct (IH G si c mi Hgi (or_introl Hcc) Hei Hki) as ([si1 mi1] & Hcall); [lia|].
        exists si1, mi1. split; [assumption|].
        destruct (get_aux_spec gt gt_pure now f G si c mi si1 mi1 Hgi (or_introl Hcc) Hcall)
          as (Hg' & Hp' & _ & _ & _ & _ & Hsu' & _ & Hmono').
        split; [split; [assumption|intro y; destruct (Hp' y) as [-> _]; apply Hpi]|].
        pose proof (c_wf _ (i_core _ (g_inv _ _ Hg'))) as Hwf'.
        assert (Hle : length (lr (nd si1 x)) <= length t).
        { apply NoDup_incl_length; [apply (wf_nodup _ _ Hwf' x LRecalc)|].
          intros y Hin. destruct (wf_in _ _ Hwf' x y LRecalc Hin) as [Hpy Hcy].
          assert (Hyc : y <> c).
          { intro; subst y. destruct Hsu' as [Hn|Hsu2]; [congruence|]. rewrite Hcy in Hsu2. destruct Hsu2; discriminate. }
          assert (Hpy0 : parent (nd si y) = Some x) by (destruct (Hp' y) as [<- _]; assumption).
          pose proof (wf_par _ _ Hwfi y x (fun F => F) Hpy0) as Hw. rewrite (Hmono' y Hcy) in Hw.
          specialize (Hw ltac:(discriminate)). simpl in Hw. rewrite Hl in Hw. destruct Hw; [congruence|assumption]. }
        rewrite Hl. simpl. lia.
      - pose proof (kids_len N (nd s1) x LRecalc (c_wf _ (i_core _ (g_inv _ _ Hg1)))) as Hlen. simpl in Hlen.
        assert (kids_lt N (nd s1)) by (intros y q Hy; destruct (Hst1 y) as (Hq&_); rewrite Hq in Hy; eapply Hk; eauto).
        specialize (Hlen H). lia. }
    destruct Hloop as ([s2 mn2] & Hl). rewrite Hl.
    assert (HstepI : forall si c t mi si1 mi1, I si -> lr (nd si x) = c :: t ->
                       get_aux gt f now si c mi = Some (si1, mi1) -> I si1).
    { intros si c t mi si1 mi1 [Hgi Hpi] Hlr Hcall. pose proof (c_wf _ (i_core _ (g_inv _ _ Hgi))) as Hwfi.
      destruct (wf_in _ _ Hwfi x c LRecalc) as [Hpc Hcc]; [simpl; rewrite Hlr; now left|].
      destruct (get_aux_spec gt gt_pure now f G si c mi si1 mi1 Hgi (or_introl Hcc) Hcall) as (Hg' & Hp' & _).
      split; [assumption|intro y; destruct (Hp' y) as [-> _]; apply Hpi]. }
    assert (HI2 : I s2).
    { apply (proj1 (loop_recalc_ind (fun si _ => I si) (get_aux gt f now) x HstepI f s1 mn s2 mn2 HI1 Hl)). }
    destruct HI2 as [Hg2 Hp2].
    apply (get_finish_total rk).
    - apply (edges_ext rk (nd s)); [intros y q; now rewrite Hp2|assumption].
    - intro y. specialize (Hb y). lia.
  Qed.
End GetFuel.

Section PulseFuel.
  Variable pl : nmap -> nat -> nat -> N -> N -> list cop.
  Hypothesis pl_pure : forall m x k now st, pl m x k now st = [].

  Lemma pulse_self_total f s x now : exists s1, pulse_self pl f s x now = Some s1.
  Proof.
    unfold pulse_self. destruct (valid (nd s x) && N.leb (sched (nd s x)) now); [|eauto].
    rewrite pl_pure. simpl. eauto.
  Qed.

  (* during such a sweep a node's _curList stays what it was or becomes NEEDSRECALC *)
  Lemma pulse_aux_curmono now : forall f G s x s',
    Good G (nd s) -> pulse_aux pl f now s x = Some s' ->
    forall z, cur (nd s' z) = cur (nd s z) \/ cur (nd s' z) = LRecalc.
  Proof.
    induction f as [|f IH]; intros G s x s' Hg H; [discriminate|]. simpl in H.
    destruct (pulse_self pl f s x now) as [s1|] eqn:Hs; [|discriminate].
    destruct (loop_sched (pulse_aux pl f now) f x now s1) as [s2|] eqn:Hl; [|discriminate].
    destruct (resched_up f (nd s2) x) as [m3|] eqn:Hr; [|discriminate]. inversion H; subst s'. simpl. clear H.
    destruct (pulse_self_pure pl pl_pure f s x now s1 Hs) as (Ho & _ & _ & _ & Hc1 & _).
    pose proof (pulse_self_good pl G f s x now s1 Hg Hs) as Hg1.
    set (G' := fun y => G y \/ y = x) in *.
    assert (Hc1' : forall z, cur (nd s1 z) = cur (nd s z)).
    { intro z. destruct (Nat.eq_dec z x) as [->|Hz]; [assumption|now rewrite Ho]. }
    assert (H2 : Good G' (nd s2) /\ forall z, cur (nd s2 z) = cur (nd s z) \/ cur (nd s2 z) = LRecalc).
    { apply (loop_sched_ind (fun si => Good G' (nd si) /\ forall z, cur (nd si z) = cur (nd s z) \/ cur (nd si z) = LRecalc)
               (pulse_aux pl f now)) with (k := f) (x := x) (now := now) (s := s1); [| |exact Hl].
      - intros si c si1 [Hgi Hci] Hcall. split; [eapply pulse_aux_good; eauto|].
        intro z. destruct (IH G' si c si1 Hgi Hcall z) as [He|He]; [rewrite He; apply Hci|now right].
      - split; [assumption|]. intro z. left. apply Hc1'. }
    destruct H2 as [Hg2 Hc2]. intro z.
    unfold resched_up in Hr. destruct (parent (nd s2 x)) as [p|] eqn:Hp; [|inversion Hr; subst; apply Hc2].
    pose proof (c_wf _ (i_core _ (g_inv _ _ Hg2))) as Hwf2.
    assert (Hns2 : forall y, parent (nd s2 y) <> Some y) by apply (wf_noself _ _ Hwf2).
    assert (Hpx : p <> x) by (intro; subst; now apply (Hns2 x)).
    destruct (resched_cur f (nd s2) p x LRecalc m3 Hp Hpx Hns2 Hr) as [Hcx Hco].
    destruct (Nat.eq_dec z x) as [->|Hz]; [now right|].
    destruct (Hco z Hz) as [He|[_ He]]; [rewrite He; apply Hc2|now right].
  Qed.

  Lemma pulse_aux_self_recalc now f G s x s' :
    Good G (nd s) -> pulse_aux pl f now s x = Some s' -> parent (nd s x) <> None -> cur (nd s' x) = LRecalc.
  Proof.
    intros Hg H Hpx. destruct (pulse_aux_pframe pl pl_pure now f G s x s' Hg H) as (Hsc & _).
    destruct f as [|f]; [discriminate|]. simpl in H.
    destruct (pulse_self pl f s x now) as [s1|] eqn:Hs; [|discriminate].
    destruct (loop_sched (pulse_aux pl f now) f x now s1) as [s2|] eqn:Hl; [|discriminate].
    destruct (resched_up f (nd s2) x) as [m3|] eqn:Hr; [|discriminate]. inversion H; subst s'. simpl in *. clear H.
    pose proof (pulse_self_good pl G f s x now s1 Hg Hs) as Hg1.
    assert (Hg2 : Good (fun y => G y \/ y = x) (nd s2)).
    { apply (loop_sched_ind (fun si => Good (fun y => G y \/ y = x) (nd si)) (pulse_aux pl f now)) with (k := f) (x := x) (now := now) (s := s1); auto.
      intros s0 c s3 Hp Hc. eapply pulse_aux_good; eauto. }
    pose proof (c_wf _ (i_core _ (g_inv _ _ Hg2))) as Hwf2.
    unfold resched_up in Hr. destruct (parent (nd s2 x)) as [p|] eqn:Hp.
    - assert (Hns2 : forall y, parent (nd s2 y) <> Some y) by apply (wf_noself _ _ Hwf2).
      assert (Hpx' : p <> x) by (intro; subst; now apply (Hns2 x)).
      apply (resched_cur f (nd s2) p x LRecalc m3 Hp Hpx' Hns2 Hr).
    - inversion Hr; subst m3. destruct (Hsc x) as (Hq & _). congruence.
  Qed.

  Lemma pulse_aux_fuel now rk B N : (forall y, rk y <= B) -> forall f G s x,
    Good G (nd s) -> edges rk (nd s) -> kids_lt N (nd s) ->
    (B - rk x) + N + B + 3 <= f -> exists r, pulse_aux pl f now s x = Some r.
  Proof.
    intros Hb. induction f as [|f IH]; intros G s x Hg He Hk Hf; [lia|]. simpl.
    destruct (pulse_self_total f s x now) as (s1 & Hs). rewrite Hs.
    destruct (pulse_self_pure pl pl_pure f s x now s1 Hs) as (Ho & Hp1 & _).
    pose proof (pulse_self_good pl G f s x now s1 Hg Hs) as Hg1.
    set (G' := fun y => G y \/ y = x) in *.
    set (I := fun si : state => Good G' (nd si) /\ (forall y, parent (nd si y) = parent (nd s y))).
    assert (HI1 : I s1).
    { split; [assumption|]. intro y. destruct (Nat.eq_dec y x) as [->|Hy]; [assumption|now rewrite Ho]. }
    assert (Hfacts : forall si, I si -> edges rk (nd si) /\ kids_lt N (nd si)).
    { intros si [_ Hpi]. split.
      - apply (edges_ext rk (nd s)); [intros y q; now rewrite Hpi|assumption].
      - intros y q Hy. rewrite Hpi in Hy. eapply Hk; eauto. }
    assert (HstepI : forall si c si1, I si -> pulse_aux pl f now si c = Some si1 -> I si1).
    { intros si c si1 [Hgi Hpi] Hcall. split; [eapply pulse_aux_good; eauto|].
      destruct (pulse_aux_pframe pl pl_pure now f G' si c si1 Hgi Hcall) as (Hsc & _).
      intro y. destruct (Hsc y) as (-> & _). apply Hpi. }
    assert (Hloop : exists r, loop_sched (pulse_aux pl f now) f x now s1 = Some r).
    { apply (loop_sched_total I (pulse_aux pl f now) x now); [|exact HI1|].
      - intros si c t HIi Hl _. destruct HIi as [Hgi Hpi]. destruct (Hfacts si (conj Hgi Hpi)) as [Hei Hki].
        pose proof (c_wf _ (i_core _ (g_inv _ _ Hgi))) as Hwfi.
        destruct (wf_in _ _ Hwfi x c LSched) as [Hpc Hcc]; [simpl; rewrite Hl; now left|].
        pose proof (Hei _ _ Hpc) as Hrk. pose proof (Hb c) as Hbc.
        destruct (IH G' si c Hgi Hei Hki) as (si1 & Hcall); [lia|].
        exists si1. split; [assumption|]. pose proof (HstepI si c si1 (conj Hgi Hpi) Hcall) as [Hg' Hp'].
        split; [split; assumption|].
        pose proof (c_wf _ (i_core _ (g_inv _ _ Hg'))) as Hwf'.
        (* c itself has moved to the needs-recalc list *)
        assert (Hc' : cur (nd si1 c) = LRecalc).
        { apply (pulse_aux_self_recalc now f G' si c si1 Hgi Hcall). congruence. }
        assert (Hle : length (ls (nd si1 x)) <= length t).
        { apply NoDup_incl_length; [apply (wf_nodup _ _ Hwf' x LSched)|].
          intros y Hin. destruct (wf_in _ _ Hwf' x y LSched Hin) as [Hpy Hcy].
          assert (Hyc : y <> c) by (intro; subst y; congruence).
          assert (Hpy0 : parent (nd si y) = Some x) by (rewrite Hpi; rewrite <- Hp'; assumption).
          assert (Hcy0 : cur (nd si y) = LSched).
          { destruct (pulse_aux_curmono now f G' si c si1 Hgi Hcall y) as [E|E]; congruence. }
          pose proof (wf_par _ _ Hwfi y x (fun F => F) Hpy0) as Hw. rewrite Hcy0 in Hw.
          specialize (Hw ltac:(discriminate)). simpl in Hw. rewrite Hl in Hw. destruct Hw; [congruence|assumption]. }
        rewrite Hl. simpl. lia.
      - pose proof (kids_len N (nd s1) x LSched (c_wf _ (i_core _ (g_inv _ _ Hg1))) (proj2 (Hfacts s1 HI1))) as Hlen.
        simpl in Hlen. lia. }
    destruct Hloop as (s2 & Hl). rewrite Hl.
    assert (HI2 : I s2).
    { apply (loop_sched_ind I (pulse_aux pl f now) HstepI f x now s1 s2 HI1 Hl). }
    destruct (Hfacts s2 HI2) as [He2 _].
    destruct (resched_up_fuel rk f (nd s2) x He2) as (m3 & ->); [intro y; specialize (Hb y); lia|]. eauto.
  Qed.
End PulseFuel.

(* ------------------------------------------------------------------ the manager's operations *)

Definition fits (f : nat) (m : nmap) : Prop :=
  exists rk B N, edges rk m /\ (forall y, rk y <= B) /\ (forall y, alive (m y) = true -> y < N) /\ 2 * B + N + 4 <= f.

Section StepFuel.
  Variable gt : nmap -> nat -> nat -> N -> N -> N * list cop.
  Variable pl : nmap -> nat -> nat -> N -> N -> list cop.
  Hypothesis gt_pure : forall m x k now prev, snd (gt m x k now prev) = [].
  Hypothesis pl_pure : forall m x k now st, pl m x k now st = [].

  Lemma top_get_total f s r now :
    Good nobody (nd s) -> fits f (nd s) ->
    exists s', top_get gt f s r now = Some s' /\ Good nobody (nd s') /\ forall y, parent (nd s' y) = parent (nd s y) /\ alive (nd s' y) = alive (nd s y).
  Proof.
    intros Hg (rk & B & N & He & Hb & Ha & Hf). unfold top_get.
    destruct (is_root (nd s) r) eqn:Hr; [|exists s; auto].
    destruct (is_root_facts _ _ Hr) as [_ Hp].
    assert (Hrn : rn (cur (nd s r))) by (right; apply (wf_root _ _ (c_wf _ (i_core _ (g_inv _ _ Hg)))); assumption).
    destruct (get_aux_fuel gt gt_pure now rk B N Hb f nobody s r NEVER Hg Hrn He (kids_lt_of_alive nobody N (nd s) Hg Ha))
      as ([s1 mn] & H1); [pose proof (Hb r); lia|].
    rewrite H1. eexists. split; [reflexivity|]. simpl.
    destruct (get_aux_spec gt gt_pure now f nobody s r NEVER s1 mn Hg Hrn H1) as (Hg1 & Hp1 & _). auto.
  Qed.

  Lemma top_pulse_total f s r now :
    Good nobody (nd s) -> fits f (nd s) -> exists s', top_pulse pl f s r now = Some s'.
  Proof.
    intros Hg (rk & B & N & He & Hb & Ha & Hf). unfold top_pulse.
    destruct (is_root (nd s) r); [|eauto]. destruct (N.leb (agg (nd s r)) now); [|eauto].
    apply (pulse_aux_fuel pl pl_pure now rk B N Hb f nobody s r Hg He (kids_lt_of_alive nobody N (nd s) Hg Ha)).
    pose proof (Hb r). lia.
  Qed.

  (* step_total: in any reachable (Good) state, with fuel >= 2*B + N + 4 -- B a bound on a rank that grows from
     parent to child (e.g. the depth of the forest), N a bound on the ids of the nodes in use -- no operation of
     the manager runs out of fuel *)
  Theorem step_total f s o :
    Good nobody (nd s) -> fits f (nd s) -> exists s', step gt pl f s o = Some s'.
  Proof.
    intros Hg Hfit. destruct o as [c|x|r now|r now|r now]; simpl.
    - destruct Hfit as (rk & B & N & He & Hb & Ha & Hf).
      destruct (apply_cop_fuel nobody rk B N f (nd s) c Hg He Hb Ha) as (m' & ->); [lia|eauto].
    - destruct (alive (nd s x)); eauto.
    - destruct (top_get_total f s r now Hg Hfit) as (s' & -> & _). eauto.
    - now apply top_pulse_total.
    - destruct (top_get_total f s r now Hg Hfit) as (s1 & -> & Hg1 & Hst). apply top_pulse_total; [assumption|].
      destruct Hfit as (rk & B & N & He & Hb & Ha & Hf). exists rk, B, N. split; [|split; [assumption|split; [|assumption]]].
      + intros y q Hy. apply He. destruct (Hst y) as [<- _]. exact Hy.
      + intros y Hy. apply Ha. destruct (Hst y) as [_ <-]. exact Hy.
  Qed.
End StepFuel.
