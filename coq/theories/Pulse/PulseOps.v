(* C20 -- the user-level operations (invalidate, attach, detach, clear, destroy) keep the invariants,
   from any state, in the middle of a pulse sweep as well (parameter G = nodes whose PulseAux runs). *)
From Coq Require Import List Arith NArith Bool Lia.
From Muscle Require Import Pulse.PulseModel Pulse.PulseInv Pulse.PulseForest Pulse.PulseResched.
Import ListNotations.

Record Good (G : nat -> Prop) (m : nmap) : Prop := { g_inv : Inv0 m; g_k2 : K2 G m }.

(* ------------------------------------------------------------------ updates of scalar fields only *)

Definition same_struct (m m' : nmap) : Prop :=
  forall y, parent (m' y) = parent (m y) /\ cur (m' y) = cur (m y) /\ ls (m' y) = ls (m y) /\
            lu (m' y) = lu (m y) /\ lr (m' y) = lr (m y) /\ alive (m' y) = alive (m y).

Lemma same_struct_get_list m m' : same_struct m m' -> forall y l, get_list (m' y) l = get_list (m y) l.
Proof. intros H y l. destruct (H y) as (_&_&H1&H2&H3&_). destruct l; simpl; auto. Qed.

Lemma WFx_struct E m m' : same_struct m m' -> WFx E m -> WFx E m'.
Proof.
  intros Hs Hwf. pose proof (same_struct_get_list m m' Hs) as Hg.
  assert (Hp : forall y, parent (m' y) = parent (m y)) by (intro y; now destruct (Hs y) as (?&_)).
  assert (Hc : forall y, cur (m' y) = cur (m y)) by (intro y; now destruct (Hs y) as (_&?&_)).
  constructor.
  - intros p c l. rewrite Hg, Hp, Hc. apply (wf_in _ _ Hwf).
  - intros c p. rewrite Hg, Hp, Hc. apply (wf_par _ _ Hwf).
  - intros c. rewrite Hp, Hc. apply (wf_root _ _ Hwf).
  - intros p l. rewrite Hg. apply (wf_nodup _ _ Hwf).
  - intros c. rewrite Hp. apply (wf_noself _ _ Hwf).
  - intros e He. rewrite Hc. destruct (wf_exc _ _ Hwf e He) as [H1 H2]. split; [assumption|].
    intros q l. rewrite Hg. apply H2.
Qed.

Lemma K1_struct m m' : same_struct m m' -> K1 m -> K1 m'.
Proof. intros Hs Hk x. destruct (Hs x) as (_&Hc&_&_&Hl&_). rewrite Hc, Hl. apply Hk. Qed.

Lemma listed_struct m m' : same_struct m m' -> listed m -> listed m'.
Proof. intros Hs Hk c p. destruct (Hs c) as (Hp&Hc&_). rewrite Hp, Hc. apply Hk. Qed.

Lemma acyc_struct m m' : same_struct m m' -> acyc m -> acyc m'.
Proof. intros Hs. apply acyc_ext. intro y. now destruct (Hs y) as (?&_). Qed.

Lemma dead_inert_struct m m' : same_struct m m' -> dead_inert m -> dead_inert m'.
Proof.
  intros Hs Hd x Hx. destruct (Hs x) as (Hp&_&_&_&_&Ha). rewrite Ha in Hx. destruct (Hd x Hx) as [H1 H2].
  split; [congruence|]. intros y. destruct (Hs y) as (Hpy&_). rewrite Hpy. apply H2.
Qed.

Lemma K4_struct m m' : same_struct m m' -> (forall y, agg (m' y) = agg (m y)) -> K4 m -> K4 m'.
Proof. intros Hs Ha Hk x. destruct (Hs x) as (_&Hc&_). rewrite Hc, Ha. apply Hk. Qed.

Lemma K5_struct m m' : same_struct m m' -> (forall y, agg (m' y) = agg (m y)) -> K5 m -> K5 m'.
Proof.
  intros Hs Ha Hk. apply K5_same_agg_ls with (m := m); auto. intro q. now destruct (Hs q) as (_&_&?&_).
Qed.

Lemma Core_struct m m' :
  same_struct m m' -> (forall y, agg (m' y) = agg (m y)) -> K6 m' -> Core m -> Core m'.
Proof.
  intros Hs Ha Hk6 [Hwf Hk1 Hk4 Hk5 _ Hac Hd]. constructor.
  - eapply WFx_struct; eauto.
  - eapply K1_struct; eauto.
  - eapply K4_struct; eauto.
  - eapply K5_struct; eauto.
  - assumption.
  - eapply acyc_struct; eauto.
  - eapply dead_inert_struct; eauto.
Qed.

Lemma K3at_struct m m' x :
  same_struct m m' -> (forall y, agg (m' y) = agg (m y)) ->
  valid (m' x) = valid (m x) -> sched (m' x) = sched (m x) -> K3at m x -> K3at m' x.
Proof.
  intros Hs Ha Hv Hsc. destruct (Hs x) as (_&Hc&Hl&_).
  apply K3at_ext; auto. apply fsa_ext; auto.
Qed.

Lemma same_struct_upd_scalar m x n :
  parent n = parent (m x) -> cur n = cur (m x) -> ls n = ls (m x) -> lu n = lu (m x) -> lr n = lr (m x) ->
  alive n = alive (m x) -> same_struct m (upd m x n).
Proof.
  intros H1 H2 H3 H4 H5 H6 y. destruct (upd_cases m x n y) as [[-> ->]|[_ ->]]; repeat split; assumption.
Qed.

(* ------------------------------------------------------------------ InvalidatePulseTime *)

Lemma invalidate_good G f m x cl m' : Good G m -> invalidate f m x cl = Some m' -> Good G m'.
Proof.
  intros [[Hc Hl Hk3] Hk2] H. unfold invalidate in H.
  set (m1 := if cl then upd m x (set_sched (m x) NEVER) else m) in *.
  assert (Hs1 : same_struct m m1).
  { unfold m1. destruct cl; [apply same_struct_upd_scalar; reflexivity|intro y; repeat split]. }
  assert (Ha1 : forall y, agg (m1 y) = agg (m y)).
  { intro y. unfold m1. destruct cl; [|reflexivity].
    destruct (upd_cases m x (set_sched (m x) NEVER) y) as [[-> ->]|[_ ->]]; reflexivity. }
  assert (Hv1 : forall y, valid (m1 y) = valid (m y)).
  { intro y. unfold m1. destruct cl; [|reflexivity].
    destruct (upd_cases m x (set_sched (m x) NEVER) y) as [[-> ->]|[_ ->]]; reflexivity. }
  assert (Hsch1 : forall y, y <> x -> sched (m1 y) = sched (m y)).
  { intros y Hy. unfold m1. destruct cl; [|reflexivity]. now rewrite upd_other. }
  assert (Hk61 : K6 m1).
  { intro y. rewrite Ha1. split; [|apply (c_k6 _ Hc)]. unfold m1. destruct cl; [|apply (c_k6 _ Hc)].
    destruct (upd_cases m x (set_sched (m x) NEVER) y) as [[-> ->]|[_ ->]]; [apply N.le_refl|apply (c_k6 _ Hc)]. }
  pose proof (Core_struct m m1 Hs1 Ha1 Hk61 Hc) as Hc1.
  assert (Hk31 : forall y, y <> x -> K3at m1 y).
  { intros y Hy. apply (K3at_struct m m1 y); auto. now apply K3_all. }
  assert (Hk21 : K2 G m1).
  { intros y HG Hv. rewrite Hv1 in Hv. destruct (Hs1 y) as (_&Hcy&_). rewrite Hcy. now apply Hk2. }
  destruct (valid (m1 x)) eqn:Hvx.
  - (* becomes invalid, moves to the needs-recalc list *)
    set (m2 := upd m1 x (set_valid (m1 x) false)) in *.
    assert (Hs2 : same_struct m1 m2) by (apply same_struct_upd_scalar; reflexivity).
    assert (Ha2 : forall y, agg (m2 y) = agg (m1 y)).
    { intro y. unfold m2. destruct (upd_cases m1 x (set_valid (m1 x) false) y) as [[-> ->]|[_ ->]]; reflexivity. }
    assert (Hk62 : K6 m2).
    { intro y. rewrite Ha2. split; [|apply Hk61]. unfold m2.
      destruct (upd_cases m1 x (set_valid (m1 x) false) y) as [[-> ->]|[_ ->]]; apply Hk61. }
    pose proof (Core_struct m1 m2 Hs2 Ha2 Hk62 Hc1) as Hc2.
    assert (Hk32 : K3 m2).
    { apply K3_all. intro y. destruct (Nat.eq_dec y x) as [->|Hy].
      - intros Hv _. unfold m2 in Hv. rewrite upd_same in Hv. discriminate.
      - apply (K3at_struct m1 m2 y); auto; unfold m2; now rewrite upd_other. }
    assert (Hl2 : listed m2) by (eapply listed_struct; [exact Hs2|]; eapply listed_struct; eauto).
    assert (Hk22 : forall y, y <> x -> K2at G m2 y).
    { intros y Hy HG Hv. unfold m2 in *. rewrite upd_other in * by assumption. now apply Hk21. }
    unfold resched_up in H. destruct (parent (m2 x)) as [p|] eqn:Hp.
    + constructor; [constructor|].
      * eapply resched_R_Core; eauto.
      * eapply resched_R_listed; eauto using listed_is_except. apply (c_wf _ Hc2).
      * eapply resched_R_K3; eauto. apply (c_wf _ Hc2). intros y _. now apply K3_all.
      * eapply resched_R_K2; eauto. apply (c_wf _ Hc2).
    + inversion H; subst m'. constructor; [constructor; assumption|].
      intros y HG Hv. destruct (Nat.eq_dec y x) as [->|Hy].
      * right. now apply (wf_root _ _ (c_wf _ Hc2)).
      * now apply Hk22.
  - inversion H; subst m'. constructor; [constructor|]; auto.
    + eapply listed_struct; eauto.
    + apply K3_all. intro y. destruct (Nat.eq_dec y x) as [->|Hy]; [|auto].
      intros Hv _. congruence.
Qed.

(* ------------------------------------------------------------------ RemovePulseChild *)

Lemma resched_None f m p c m1 :
  cur (m c) <> LNone -> resched f m p c LNone = Some m1 -> m1 = unlink m p c LNone.
Proof.
  intros Hc H. destruct f as [|f]; [discriminate|]. rewrite resched_unfold in H.
  assert (Hno : lst_eqb LNone (cur (m c)) = false) by (apply lst_eqb_neq; congruence).
  rewrite Hno in H. simpl in H. now inversion H.
Qed.

Lemma Core_unlink_none m p c :
  Core m -> parent (m c) = Some p -> Core (unlink m p c LNone).
Proof.
  intros [Hwf Hk1 Hk4 Hk5 Hk6 Hac Hd] Hpar.
  assert (Hpc : p <> c) by (intro; subst; now apply (wf_noself _ _ Hwf c)).
  pose proof (same_scalars_unlink m p c LNone Hpc) as Hsc.
  assert (Hcr : cur_rel m (unlink m p c LNone)) by (apply cur_rel_unlink; [assumption|right; reflexivity]).
  constructor.
  - apply unlink_WFx_none; auto.
  - apply K1_unlink; auto. right; reflexivity.
  - eapply K4_mono; eauto.
  - now apply K5_unlink.
  - eapply K6_mono; eauto.
  - eapply acyc_mono; eauto.
  - eapply dead_inert_mono; eauto.
Qed.

(* child->_parent = NULL; child->_myScheduledTimeValid = false, for a child that is on no list *)
Definition orphan (m : nmap) (c : nat) : nmap := upd m c (set_valid (set_parent (m c) None) false).

Lemma orphan_list m c q l : get_list (orphan m c q) l = get_list (m q) l.
Proof. unfold orphan. destruct (upd_cases m c (set_valid (set_parent (m c) None) false) q) as [[-> ->]|[_ ->]]; [now destruct l|reflexivity]. Qed.
Lemma orphan_cur m c q : cur (orphan m c q) = cur (m q).
Proof. unfold orphan. destruct (upd_cases m c (set_valid (set_parent (m c) None) false) q) as [[-> ->]|[_ ->]]; reflexivity. Qed.
Lemma orphan_agg m c q : agg (orphan m c q) = agg (m q).
Proof. unfold orphan. destruct (upd_cases m c (set_valid (set_parent (m c) None) false) q) as [[-> ->]|[_ ->]]; reflexivity. Qed.
Lemma orphan_sched m c q : sched (orphan m c q) = sched (m q).
Proof. unfold orphan. destruct (upd_cases m c (set_valid (set_parent (m c) None) false) q) as [[-> ->]|[_ ->]]; reflexivity. Qed.
Lemma orphan_alive m c q : alive (orphan m c q) = alive (m q).
Proof. unfold orphan. destruct (upd_cases m c (set_valid (set_parent (m c) None) false) q) as [[-> ->]|[_ ->]]; reflexivity. Qed.
Lemma orphan_parent_c m c : parent (orphan m c c) = None.
Proof. unfold orphan. now rewrite upd_same. Qed.
Lemma orphan_parent_o m c q : q <> c -> parent (orphan m c q) = parent (m q).
Proof. intro H. unfold orphan. now rewrite upd_other. Qed.
Lemma orphan_valid_c m c : valid (orphan m c c) = false.
Proof. unfold orphan. now rewrite upd_same. Qed.
Lemma orphan_valid_o m c q : q <> c -> valid (orphan m c q) = valid (m q).
Proof. intro H. unfold orphan. now rewrite upd_other. Qed.

Lemma Core_orphan m c :
  Core m -> cur (m c) = LNone -> (forall q l, ~ In c (get_list (m q) l)) -> Core (orphan m c).
Proof.
  intros [Hwf Hk1 Hk4 Hk5 Hk6 Hac Hd] Hcc Hun. constructor.
  - constructor.
    + intros q x l. rewrite orphan_list, orphan_cur. intro Hin.
      assert (x <> c) by (intro; subst; now apply (Hun q l)).
      rewrite orphan_parent_o by assumption. now apply (wf_in _ _ Hwf).
    + intros x q _ Hp. rewrite orphan_cur, orphan_list.
      destruct (Nat.eq_dec x c) as [->|Hx]; [rewrite orphan_parent_c in Hp; discriminate|].
      rewrite orphan_parent_o in Hp by assumption. apply (wf_par _ _ Hwf); auto.
    + intros x Hp. rewrite orphan_cur. destruct (Nat.eq_dec x c) as [->|Hx]; [assumption|].
      rewrite orphan_parent_o in Hp by assumption. now apply (wf_root _ _ Hwf).
    + intros q l. rewrite orphan_list. apply (wf_nodup _ _ Hwf).
    + intros x. destruct (Nat.eq_dec x c) as [->|Hx]; [rewrite orphan_parent_c; discriminate|].
      rewrite orphan_parent_o by assumption. apply (wf_noself _ _ Hwf).
    + intros e [].
  - intros x. rewrite orphan_cur. change (lr (orphan m c x)) with (get_list (orphan m c x) LRecalc).
    rewrite orphan_list. apply Hk1.
  - intros x. rewrite orphan_cur, orphan_agg. apply Hk4.
  - intros q. change (ls (orphan m c q)) with (get_list (orphan m c q) LSched). rewrite orphan_list.
    apply sorted_ext with (m := m); [intros; apply orphan_agg|apply Hk5].
  - intros x. rewrite orphan_sched, orphan_agg. apply Hk6.
  - apply (acyc_cut m); [|assumption]. intro y.
    destruct (Nat.eq_dec y c) as [->|Hy]; [right; apply orphan_parent_c|left; now apply orphan_parent_o].
  - intros x Hx. rewrite orphan_alive in Hx. destruct (Hd x Hx) as [H1 H2]. split.
    + destruct (Nat.eq_dec x c) as [->|Hxc]; [apply orphan_parent_c|now rewrite orphan_parent_o].
    + intros y. destruct (Nat.eq_dec y c) as [->|Hy]; [rewrite orphan_parent_c; discriminate|].
      rewrite orphan_parent_o by assumption. apply H2.
Qed.

Lemma K3at_orphan m c y : y <> c -> K3at m y -> K3at (orphan m c) y.
Proof.
  intros Hy. apply K3at_ext; auto using orphan_valid_o, orphan_cur, orphan_agg, orphan_sched.
  apply fsa_ext; [|intro; apply orphan_agg].
  change (get_list (orphan m c y) LSched = get_list (m y) LSched). apply orphan_list.
Qed.

Lemma remove_child_spec G f m p c m' :
  Good G m -> parent (m c) = Some p -> remove_child f m p c = Some m' ->
  Good G m' /\ parent (m' c) = None /\ (forall y, y <> c -> parent (m' y) = parent (m y)) /\
  (forall y, alive (m' y) = alive (m y)) /\
  (forall q l y, su l -> In y (get_list (m' q) l) -> In y (get_list (m q) l)) /\
  (forall l y, In y (get_list (m' p) l) -> In y (get_list (m p) l) /\ y <> c \/ l = LRecalc).
Proof.
  intros [[Hc Hl Hk3] Hk2] Hpar H. unfold remove_child in H.
  assert (Hpe : opt_nat_eqb (parent (m c)) p = true) by (rewrite Hpar; simpl; apply Nat.eqb_refl).
  rewrite Hpe in H.
  destruct (resched f m p c LNone) as [m1|] eqn:Hr; [|discriminate].
  assert (Hcl : cur (m c) <> LNone) by (eapply Hl; eauto).
  apply resched_None in Hr; [|assumption]. subst m1.
  pose proof (c_wf _ Hc) as Hwf.
  assert (Hpc : p <> c) by (intro; subst; now apply (wf_noself _ _ Hwf c)).
  set (m1 := unlink m p c LNone) in *. fold (orphan m1 c) in H. set (m2 := orphan m1 c) in *.
  pose proof (Core_unlink_none m p c Hc Hpar) as Hc1. fold m1 in Hc1.
  assert (Hun : forall q l, ~ In c (get_list (m1 q) l)).
  { intros q l Hin. unfold m1 in Hin. apply (unlink_in_wf noexc m p c LNone Hwf Hpar) in Hin. tauto. }
  assert (Hcc1 : cur (m1 c) = LNone) by (unfold m1; now apply unlink_cur_c).
  pose proof (Core_orphan m1 c Hc1 Hcc1 Hun) as Hc2. fold m2 in Hc2.
  assert (Hl2 : listed m2).
  { intros y q Hq. unfold m2 in *. rewrite orphan_cur.
    destruct (Nat.eq_dec y c) as [->|Hy]; [rewrite orphan_parent_c in Hq; discriminate|].
    rewrite orphan_parent_o in Hq by assumption. unfold m1 in *. rewrite unlink_parent in Hq by assumption.
    rewrite unlink_cur_o by assumption. eapply Hl; eauto. }
  assert (Hk32 : forall y, (y <> p \/ hd_error (ls (m p)) <> Some c) -> K3at m2 y).
  { intros y Hy. destruct (Nat.eq_dec y c) as [->|Hyc].
    - intros _ Hsu. unfold m2 in Hsu. rewrite orphan_cur, Hcc1 in Hsu. destruct Hsu; discriminate.
    - unfold m2. apply K3at_orphan; [assumption|]. unfold m1. apply K3at_unlink; auto. now apply K3_all. }
  assert (Hk22 : K2 G m2).
  { intros y HG Hv. unfold m2 in *. rewrite orphan_cur.
    destruct (Nat.eq_dec y c) as [->|Hy]; [right; assumption|].
    rewrite orphan_valid_o in Hv by assumption. unfold m1 in *. rewrite unlink_valid in Hv by assumption.
    rewrite unlink_cur_o by assumption. now apply Hk2. }
  assert (Hpar2 : forall y, y <> c -> parent (m2 y) = parent (m y)).
  { intros y Hy. unfold m2, m1. rewrite orphan_parent_o by assumption. now apply unlink_parent. }
  assert (Hal2 : forall y, alive (m2 y) = alive (m y)).
  { intro y. unfold m2, m1. rewrite orphan_alive. now apply unlink_alive. }
  assert (Hsu2 : forall q l y, In y (get_list (m2 q) l) -> In y (get_list (m q) l) /\ y <> c).
  { intros q l y Hin. unfold m2 in Hin. rewrite orphan_list in Hin. unfold m1 in Hin.
    now apply (unlink_in_wf noexc m p c LNone Hwf Hpar) in Hin. }
  assert (Hdone : forall mm, (opt_nat_eqb (hd_error (ls (m p))) c = true -> resched_up f m2 p = Some mm) ->
                             (opt_nat_eqb (hd_error (ls (m p))) c = false -> mm = m2) ->
          Good G mm /\ parent (mm c) = None /\ (forall y, y <> c -> parent (mm y) = parent (m y)) /\
          (forall y, alive (mm y) = alive (m y)) /\
          (forall q l y, su l -> In y (get_list (mm q) l) -> In y (get_list (m q) l)) /\
          (forall l y, In y (get_list (mm p) l) -> In y (get_list (m p) l) /\ y <> c \/ l = LRecalc)).
  { intros mm Ht Hf. destruct (opt_nat_eqb (hd_error (ls (m p))) c) eqn:Hd.
    - specialize (Ht eq_refl). unfold resched_up in Ht. destruct (parent (m2 p)) as [g|] eqn:Hg.
      + pose proof (c_wf _ Hc2) as Hwf2.
        assert (Hns2 : forall x, parent (m2 x) <> Some x) by apply (wf_noself _ _ Hwf2).
        assert (Hgp : g <> p) by (intro; subst; now apply (Hns2 p)).
        pose proof (resched_scalars f m2 g p LRecalc mm Hg Hgp Hns2 Ht) as Hsc.
        split; [constructor; [constructor|]|].
        * eapply resched_R_Core; eauto.
        * eapply resched_R_listed; eauto using listed_is_except.
        * eapply resched_R_K3; eauto.
        * eapply resched_R_K2; eauto. intros y _ HG Hv. now apply Hk22.
        * split; [destruct (Hsc c) as (->&_); apply orphan_parent_c|].
          split; [intros y Hy; destruct (Hsc y) as (->&_); now apply Hpar2|].
          split; [intros y; destruct (Hsc y) as (_&_&_&_&->&_); apply Hal2|].
          split.
          -- intros q l y Hsu Hin.
             apply (resched_su_shrink f m2 g p LRecalc mm Hg Hgp Hns2 (or_introl eq_refl) Ht q l y Hsu) in Hin.
             now apply Hsu2 in Hin.
          -- intros l y Hin. destruct (lst_eq_dec l LRecalc) as [->|Hlr]; [right; reflexivity|left].
             destruct l; try congruence.
             ++ simpl in Hin. destruct Hin.
             ++ apply (resched_su_shrink f m2 g p LRecalc mm Hg Hgp Hns2 (or_introl eq_refl) Ht p LSched y (or_introl eq_refl)) in Hin.
                now apply Hsu2 in Hin.
             ++ apply (resched_su_shrink f m2 g p LRecalc mm Hg Hgp Hns2 (or_introl eq_refl) Ht p LUnsched y (or_intror eq_refl)) in Hin.
                now apply Hsu2 in Hin.
      + inversion Ht; subst mm. split; [constructor; [constructor|]|]; auto.
        * apply K3_all. intro y. destruct (Nat.eq_dec y p) as [->|Hy]; [|apply Hk32; auto].
          intros _ Hsu. rewrite (wf_root _ _ (c_wf _ Hc2) p Hg) in Hsu. destruct Hsu; discriminate.
        * split; [apply orphan_parent_c|]. split; [assumption|]. split; [assumption|].
          split; [intros q l y _ Hin; now apply Hsu2 in Hin|]. intros l y Hin. left. now apply Hsu2.
    - rewrite (Hf eq_refl). split; [constructor; [constructor|]|]; auto.
      + apply K3_all. intro y. apply Hk32. right. intro Hh. rewrite Hh in Hd. simpl in Hd.
        rewrite Nat.eqb_refl in Hd. discriminate.
      + split; [apply orphan_parent_c|]. split; [assumption|]. split; [assumption|].
        split; [intros q l y _ Hin; now apply Hsu2 in Hin|]. intros l y Hin. left. now apply Hsu2. }
  apply Hdone.
  - intro Hd. rewrite Hd in H. exact H.
  - intro Hd. rewrite Hd in H. now inversion H.
Qed.

(* ------------------------------------------------------------------ PutPulseChild *)

Lemma desc_sub m m' a x :
  (forall y q, parent (m' y) = Some q -> parent (m y) = Some q) -> desc m' a x -> desc m a x.
Proof. intros Hs H. induction H; [constructor|]. eapply desc_child; eauto. Qed.

(* child->_parent = this, for a parentless child that is on no list *)
Definition adopt (m : nmap) (p c : nat) : nmap := upd m c (set_parent (m c) (Some p)).

Lemma adopt_list m p c q l : get_list (adopt m p c q) l = get_list (m q) l.
Proof. unfold adopt. destruct (upd_cases m c (set_parent (m c) (Some p)) q) as [[-> ->]|[_ ->]]; [now destruct l|reflexivity]. Qed.
Lemma adopt_cur m p c q : cur (adopt m p c q) = cur (m q).
Proof. unfold adopt. destruct (upd_cases m c (set_parent (m c) (Some p)) q) as [[-> ->]|[_ ->]]; reflexivity. Qed.
Lemma adopt_agg m p c q : agg (adopt m p c q) = agg (m q).
Proof. unfold adopt. destruct (upd_cases m c (set_parent (m c) (Some p)) q) as [[-> ->]|[_ ->]]; reflexivity. Qed.
Lemma adopt_sched m p c q : sched (adopt m p c q) = sched (m q).
Proof. unfold adopt. destruct (upd_cases m c (set_parent (m c) (Some p)) q) as [[-> ->]|[_ ->]]; reflexivity. Qed.
Lemma adopt_valid m p c q : valid (adopt m p c q) = valid (m q).
Proof. unfold adopt. destruct (upd_cases m c (set_parent (m c) (Some p)) q) as [[-> ->]|[_ ->]]; reflexivity. Qed.
Lemma adopt_alive m p c q : alive (adopt m p c q) = alive (m q).
Proof. unfold adopt. destruct (upd_cases m c (set_parent (m c) (Some p)) q) as [[-> ->]|[_ ->]]; reflexivity. Qed.
Lemma adopt_parent_c m p c : parent (adopt m p c c) = Some p.
Proof. unfold adopt. now rewrite upd_same. Qed.
Lemma adopt_parent_o m p c q : q <> c -> parent (adopt m p c q) = parent (m q).
Proof. intro H. unfold adopt. now rewrite upd_other. Qed.

Lemma Core_adopt m p c :
  Core m -> parent (m c) = None -> p <> c -> ~ desc m c p -> alive (m p) = true -> alive (m c) = true ->
  Core (adopt m p c).
Proof.
  intros [Hwf Hk1 Hk4 Hk5 Hk6 Hac Hd] Hroot Hpc Hnd Hap Hacc.
  assert (Hcc : cur (m c) = LNone) by now apply (wf_root _ _ Hwf).
  assert (Hun : forall q l, ~ In c (get_list (m q) l)).
  { intros q l Hin. destruct (wf_in _ _ Hwf _ _ _ Hin) as [Hp _]. congruence. }
  constructor.
  - constructor.
    + intros q x l. rewrite adopt_list, adopt_cur. intro Hin.
      assert (x <> c) by (intro; subst; now apply (Hun q l)).
      rewrite adopt_parent_o by assumption. now apply (wf_in _ _ Hwf).
    + intros x q _ Hp. rewrite adopt_cur, adopt_list.
      destruct (Nat.eq_dec x c) as [->|Hx]; [intro Hn; congruence|].
      rewrite adopt_parent_o in Hp by assumption. apply (wf_par _ _ Hwf); auto.
    + intros x Hp. rewrite adopt_cur.
      destruct (Nat.eq_dec x c) as [->|Hx]; [rewrite adopt_parent_c in Hp; discriminate|].
      rewrite adopt_parent_o in Hp by assumption. now apply (wf_root _ _ Hwf).
    + intros q l. rewrite adopt_list. apply (wf_nodup _ _ Hwf).
    + intros x. destruct (Nat.eq_dec x c) as [->|Hx]; [rewrite adopt_parent_c; congruence|].
      rewrite adopt_parent_o by assumption. apply (wf_noself _ _ Hwf).
    + intros e [].
  - intros x. rewrite adopt_cur. change (lr (adopt m p c x)) with (get_list (adopt m p c x) LRecalc).
    rewrite adopt_list. apply Hk1.
  - intros x. rewrite adopt_cur, adopt_agg. apply Hk4.
  - intros q. change (ls (adopt m p c q)) with (get_list (adopt m p c q) LSched). rewrite adopt_list.
    apply sorted_ext with (m := m); [intros; apply adopt_agg|apply Hk5].
  - intros x. rewrite adopt_sched, adopt_agg. apply Hk6.
  - apply (acyc_attach m (adopt m p c) p c); auto using adopt_parent_c.
    intros y Hy. now apply adopt_parent_o.
  - intros x Hx. rewrite adopt_alive in Hx. destruct (Hd x Hx) as [H1 H2].
    assert (Hxc : x <> c) by congruence. split; [now rewrite adopt_parent_o|].
    intros y. destruct (Nat.eq_dec y c) as [->|Hy]; [rewrite adopt_parent_c; congruence|].
    rewrite adopt_parent_o by assumption. apply H2.
Qed.

Lemma put_child_good G f m p c m' :
  Good G m -> alive (m p) = true -> alive (m c) = true -> p <> c -> ~ desc m c p ->
  put_child f m p c = Some m' -> Good G m'.
Proof.
  intros Hg Hap Hac Hpc Hnd H. unfold put_child in H.
  assert (Hm1 : exists m1, Good G m1 /\ parent (m1 c) = None /\ alive (m1 p) = true /\ alive (m1 c) = true /\
                           ~ desc m1 c p /\ resched f (adopt m1 p c) p c LRecalc = Some m').
  { destruct (parent (m c)) as [q|] eqn:Hq.
    - destruct (remove_child f m q c) as [m1|] eqn:Hr; [|discriminate].
      destruct (remove_child_spec G f m q c m1 Hg Hq Hr) as (Hg1 & Hp1 & Hpo & Hal & _).
      exists m1. split; [assumption|]. split; [assumption|]. split; [now rewrite Hal|]. split; [now rewrite Hal|].
      split; [|assumption].
      intro Hd. apply Hnd. apply (desc_sub m m1); [|assumption].
      intros y z Hy. destruct (Nat.eq_dec y c) as [->|Hyc]; [congruence|]. now rewrite <- Hpo.
    - exists m. split; [assumption|]. split; [assumption|]. auto. }
  destruct Hm1 as (m1 & [[Hc1 Hl1 Hk31] Hk21] & Hroot & Hap1 & Hac1 & Hnd1 & Hr).
  pose proof (Core_adopt m1 p c Hc1 Hroot Hpc Hnd1 Hap1 Hac1) as Hc2.
  assert (Hcc : cur (m1 c) = LNone) by now apply (wf_root _ _ (c_wf _ Hc1)).
  set (m2 := adopt m1 p c) in *.
  assert (Hpar2 : parent (m2 c) = Some p) by apply adopt_parent_c.
  constructor; [constructor|].
  - eapply resched_R_Core; eauto.
  - eapply resched_R_listed; eauto; [apply (c_wf _ Hc2)|].
    intros y q Hy Hq. unfold m2 in *. rewrite adopt_cur. rewrite adopt_parent_o in Hq by assumption. eapply Hl1; eauto.
  - eapply resched_R_K3; eauto; [apply (c_wf _ Hc2)|].
    intros y Hy. unfold m2. apply K3at_ext with (m := m1); auto using adopt_valid, adopt_cur, adopt_agg, adopt_sched.
    + apply fsa_ext; [|intro; apply adopt_agg].
      change (get_list (adopt m1 p c y) LSched = get_list (m1 y) LSched). apply adopt_list.
    + now apply K3_all.
  - eapply resched_R_K2; eauto; [apply (c_wf _ Hc2)|].
    intros y _ HG Hv. unfold m2 in *. rewrite adopt_cur. rewrite adopt_valid in Hv. now apply Hk21.
Qed.

(* ------------------------------------------------------------------ ClearPulseChildren, ~PulseNode *)

Definition par_mono (m m' : nmap) : Prop := forall y, parent (m' y) = parent (m y) \/ parent (m' y) = None.
Definition su_shrink (m m' : nmap) : Prop :=
  forall q l y, su l -> In y (get_list (m' q) l) -> In y (get_list (m q) l).

Lemma clear_list_spec G : forall f m x l m',
  Good G m -> clear_list f m x l = Some m' ->
  Good G m' /\ get_list (m' x) l = [] /\ par_mono m m' /\ (forall y, alive (m' y) = alive (m y)) /\ su_shrink m m'.
Proof.
  induction f as [|f IH]; intros m x l m' Hg H; [discriminate|]. simpl in H.
  destruct (get_list (m x) l) as [|c t] eqn:Hl.
  - inversion H; subst. split; [assumption|]. split; [assumption|]. split; [intro y; now left|].
    split; [reflexivity|]. intros q l' y _ Hin. exact Hin.
  - destruct (remove_child f m x c) as [m1|] eqn:Hr; [|discriminate].
    assert (Hpar : parent (m c) = Some x).
    { apply (wf_in _ _ (c_wf _ (i_core _ (g_inv _ _ Hg))) x c l). rewrite Hl. now left. }
    destruct (remove_child_spec G f m x c m1 Hg Hpar Hr) as (Hg1 & Hp1 & Hpo & Hal & Hsu & _).
    destruct (IH m1 x l m' Hg1 H) as (Hg' & He & Hpm & Hal' & Hsu').
    split; [assumption|]. split; [assumption|]. split; [|split].
    + intro y. destruct (Hpm y) as [Hy|Hy]; [|now right].
      destruct (Nat.eq_dec y c) as [->|Hyc]; [right; congruence|left; rewrite Hy; now apply Hpo].
    + intro y. now rewrite Hal', Hal.
    + intros q l' y Hs Hin. apply Hsu; [assumption|]. now apply Hsu'.
Qed.

Lemma clear_children_spec G f m x m' :
  Good G m -> clear_children f m x = Some m' ->
  Good G m' /\ (forall l, get_list (m' x) l = []) /\ par_mono m m' /\ (forall y, alive (m' y) = alive (m y)).
Proof.
  intros Hg H. unfold clear_children in H.
  destruct (clear_list f m x LSched) as [m1|] eqn:H1; [|discriminate].
  destruct (clear_list f m1 x LUnsched) as [m2|] eqn:H2; [|discriminate].
  destruct (clear_list_spec G f m x LSched m1 Hg H1) as (Hg1 & He1 & Hp1 & Ha1 & Hs1).
  destruct (clear_list_spec G f m1 x LUnsched m2 Hg1 H2) as (Hg2 & He2 & Hp2 & Ha2 & Hs2).
  destruct (clear_list_spec G f m2 x LRecalc m' Hg2 H) as (Hg3 & He3 & Hp3 & Ha3 & Hs3).
  split; [assumption|]. split; [|split].
  - intros l. destruct l; [reflexivity| | |assumption].
    + destruct (get_list (m' x) LSched) as [|a t] eqn:Hl; [reflexivity|].
      assert (Hin : In a (get_list (m' x) LSched)) by (rewrite Hl; now left).
      apply Hs3 in Hin; [|left; reflexivity]. apply Hs2 in Hin; [|left; reflexivity]. rewrite He1 in Hin. destruct Hin.
    + destruct (get_list (m' x) LUnsched) as [|a t] eqn:Hl; [reflexivity|].
      assert (Hin : In a (get_list (m' x) LUnsched)) by (rewrite Hl; now left).
      apply Hs3 in Hin; [|right; reflexivity]. rewrite He2 in Hin. destruct Hin.
  - intro y. destruct (Hp3 y) as [H3|H3]; [|now right]. rewrite H3.
    destruct (Hp2 y) as [H2'|H2']; [|now right]. rewrite H2'. apply Hp1.
  - intro y. now rewrite Ha3, Ha2, Ha1.
Qed.

Lemma destroy_good G f m x m' : Good G m -> destroy f m x = Some m' -> Good G m'.
Proof.
  intros Hg H. unfold destroy in H.
  assert (Hm1 : exists m1, Good G m1 /\ parent (m1 x) = None /\
                match clear_children f m1 x with None => None | Some m2 => Some (upd m2 x (set_alive (m2 x) false)) end = Some m').
  { destruct (parent (m x)) as [p|] eqn:Hp.
    - destruct (remove_child f m p x) as [m1|] eqn:Hr; [|discriminate].
      destruct (remove_child_spec G f m p x m1 Hg Hp Hr) as (Hg1 & Hp1 & _). exists m1. auto.
    - exists m. auto. }
  destruct Hm1 as (m1 & Hg1 & Hroot & H1).
  destruct (clear_children f m1 x) as [m2|] eqn:Hcl; [|discriminate]. inversion H1; subst m'. clear H1.
  destruct (clear_children_spec G f m1 x m2 Hg1 Hcl) as ([[Hc2 Hl2 Hk32] Hk22] & Hemp & Hpm & Hal).
  set (m3 := upd m2 x (set_alive (m2 x) false)).
  assert (Hst : forall y, parent (m3 y) = parent (m2 y) /\ cur (m3 y) = cur (m2 y) /\ ls (m3 y) = ls (m2 y) /\
                          lu (m3 y) = lu (m2 y) /\ lr (m3 y) = lr (m2 y) /\ agg (m3 y) = agg (m2 y) /\
                          sched (m3 y) = sched (m2 y) /\ valid (m3 y) = valid (m2 y)).
  { intro y. unfold m3. destruct (upd_cases m2 x (set_alive (m2 x) false) y) as [[-> ->]|[_ ->]]; repeat split. }
  assert (Hgl : forall y l, get_list (m3 y) l = get_list (m2 y) l).
  { intros y l. destruct (Hst y) as (_&_&H1&H2&H3&_). destruct l; simpl; auto. }
  assert (Hpx : parent (m2 x) = None) by (destruct (Hpm x) as [Hy|Hy]; congruence).
  assert (Hnokid : forall y, parent (m2 y) <> Some x).
  { intros y Hy. pose proof (Hl2 y x Hy) as Hcy.
    pose proof (wf_par _ _ (c_wf _ Hc2) y x (fun F => F) Hy Hcy) as Hin. rewrite Hemp in Hin. destruct Hin. }
  destruct Hc2 as [Hwf Hk1 Hk4 Hk5 Hk6 Hac Hd].
  constructor; [constructor; [constructor|..]|].
  - constructor.
    + intros p c l. rewrite Hgl. destruct (Hst c) as (->&->&_). apply (wf_in _ _ Hwf).
    + intros c p. rewrite Hgl. destruct (Hst c) as (->&->&_). apply (wf_par _ _ Hwf).
    + intros c. destruct (Hst c) as (->&->&_). apply (wf_root _ _ Hwf).
    + intros p l. rewrite Hgl. apply (wf_nodup _ _ Hwf).
    + intros c. destruct (Hst c) as (->&_). apply (wf_noself _ _ Hwf).
    + intros e [].
  - intros y. destruct (Hst y) as (_&->&_&_&->&_). apply Hk1.
  - intros y. destruct (Hst y) as (_&->&_&_&_&->&_). apply Hk4.
  - intros q. destruct (Hst q) as (_&_&->&_). apply sorted_ext with (m := m2); [|apply Hk5].
    intros y _. now destruct (Hst y) as (_&_&_&_&_&->&_).
  - intros y. destruct (Hst y) as (_&_&_&_&_&->&->&_). apply Hk6.
  - apply (acyc_ext m2); [|assumption]. intro y. now destruct (Hst y) as (->&_).
  - intros y Hy. destruct (Nat.eq_dec y x) as [->|Hyx].
    + split; [destruct (Hst x) as (->&_); assumption|].
      intros z. destruct (Hst z) as (->&_). apply Hnokid.
    + assert (Hay : alive (m2 y) = false) by (unfold m3 in Hy; now rewrite upd_other in Hy).
      destruct (Hd y Hay) as [H1 H2]. split; [destruct (Hst y) as (->&_); assumption|].
      intros z. destruct (Hst z) as (->&_). apply H2.
  - intros c p. destruct (Hst c) as (->&->&_). apply Hl2.
  - apply K3_all. intro y. destruct (Hst y) as (_&Hcy&Hly&_&_&Hay&Hsy&Hvy).
    apply K3at_ext with (m := m2); auto; [|now apply K3_all].
    apply fsa_ext; auto. intro z. now destruct (Hst z) as (_&_&_&_&_&->&_).
  - intros y HG Hv. destruct (Hst y) as (_&->&_&_&_&_&_&Hvy). rewrite Hvy in Hv. now apply Hk22.
Qed.

(* ------------------------------------------------------------------ every operation, every list of operations *)

Lemma apply_cop_good G f m o m' : Good G m -> apply_cop f m o = Some m' -> Good G m'.
Proof.
  intros Hg H. destruct o as [x cl|p c|p c|x|x]; simpl in H.
  - destruct (alive (m x)); [|inversion H; subst; assumption]. eapply invalidate_good; eauto.
  - destruct (alive (m p)) eqn:Hap; [|inversion H; subst; assumption].
    destruct (alive (m c)) eqn:Hac; [|inversion H; subst; assumption].
    destruct (Nat.eqb_spec p c) as [Heq|Hne]; [inversion H; subst; assumption|]. simpl in H.
    destruct (is_anc f m c p) as [[|]|] eqn:Ha; [inversion H; subst; assumption| |discriminate].
    apply (put_child_good G f m p c m' Hg Hap Hac Hne); [|exact H]. exact (is_anc_false_not_desc m f c p Ha).
  - destruct (alive (m p) && alive (m c)); [|inversion H; subst; assumption].
    destruct (parent (m c)) as [q|] eqn:Hq.
    + destruct (Nat.eq_dec q p) as [->|Hne].
      * now destruct (remove_child_spec G f m p c m' Hg Hq H) as (? & _).
      * unfold remove_child in H. rewrite Hq in H. simpl in H. apply Nat.eqb_neq in Hne. rewrite Hne in H.
        inversion H; subst; assumption.
    + unfold remove_child in H. rewrite Hq in H. simpl in H. inversion H; subst; assumption.
  - destruct (alive (m x)); [|inversion H; subst; assumption].
    now destruct (clear_children_spec G f m x m' Hg H) as (? & _).
  - destruct (alive (m x)); [|inversion H; subst; assumption]. eapply destroy_good; eauto.
Qed.

Lemma run_cops_good G f : forall os m m', Good G m -> run_cops f m os = Some m' -> Good G m'.
Proof.
  induction os as [|o t IH]; intros m m' Hg H; simpl in H; [inversion H; subst; assumption|].
  destruct (apply_cop f m o) as [m1|] eqn:Ho; [|discriminate].
  eapply IH; [|eassumption]. eapply apply_cop_good; eauto.
Qed.
