(* C20 -- executable model of muscle::PulseNode (util/PulseNode.{h,cpp}).

   A node carries the code's own fields: _parent, _aggregatePulseTime, _myScheduledTime,
   _myScheduledTimeValid, _curList and its three intrusive child lists (scheduled -- kept
   sorted by aggregate time --, unscheduled, needs-recalculation).  The doubly linked
   lists (_firstChild/_lastChild/_prevSibling/_nextSibling) are represented by the list
   of child ids, head first; the harness checks the pointer structure against that list.

   The functions below follow PulseNode.cpp statement by statement:
     resched        = ReschedulePulseChild   (tail-append shortcut, O(N) insertion walk,
                                              upward propagation of needs-recalc)
     invalidate     = InvalidatePulseTime
     remove_child   = RemovePulseChild       put_child = PutPulseChild
     clear_list/clear_children = ClearPulseChildren          destroy = ~PulseNode
     get_aux        = GetPulseTimeAux        pulse_aux = PulseAux
   The virtual callbacks GetPulseTime()/Pulse() are oracles (Section variables [gt], [pl]):
   arbitrary functions of (the whole forest as it is when the callback is entered -- a callback
   may inspect any node --, node, number of earlier calls, now, previous/scheduled time) that
   return the requested time resp. nothing, plus a list of operations on ANY nodes that the
   callback performs before it returns (invalidate, attach, detach, clear, destroy).

   Recursion that follows parent or child pointers runs on explicit fuel; [None] = out of
   fuel.  No proofs in this file. *)
From Coq Require Import List Arith NArith Bool.
From Muscle Require Import Gen.Consts.
Import ListNotations.

Definition NEVER : N := c_MUSCLE_TIME_NEVER.

Inductive lst := LNone | LSched | LUnsched | LRecalc.

Definition lst_eqb (a b : lst) : bool :=
  match a, b with
  | LNone, LNone | LSched, LSched | LUnsched, LUnsched | LRecalc, LRecalc => true
  | _, _ => false
  end.

Record node := mkNode {
  alive : bool;            (* the object exists *)
  parent : option nat;     (* _parent *)
  agg : N;                 (* _aggregatePulseTime *)
  sched : N;               (* _myScheduledTime *)
  valid : bool;            (* _myScheduledTimeValid *)
  cur : lst;               (* _curList *)
  ls : list nat;           (* children on LINKED_LIST_SCHEDULED, head first *)
  lu : list nat;           (* children on LINKED_LIST_UNSCHEDULED *)
  lr : list nat;           (* children on LINKED_LIST_NEEDSRECALC *)
  ngt : nat;               (* how often GetPulseTime() has been called on this id *)
  npl : nat                (* how often Pulse() has been called on this id *)
}.

Definition nmap := nat -> node.

Definition fresh (g p : nat) : node := mkNode true None NEVER NEVER false LNone [] [] [] g p.
Definition dead : node := mkNode false None NEVER NEVER false LNone [] [] [] 0 0.
Definition empty_map : nmap := fun _ => dead.

Definition upd (m : nmap) (x : nat) (n : node) : nmap := fun y => if Nat.eqb y x then n else m y.

Definition set_alive (n : node) v := mkNode v (parent n) (agg n) (sched n) (valid n) (cur n) (ls n) (lu n) (lr n) (ngt n) (npl n).
Definition set_parent (n : node) v := mkNode (alive n) v (agg n) (sched n) (valid n) (cur n) (ls n) (lu n) (lr n) (ngt n) (npl n).
Definition set_agg (n : node) v := mkNode (alive n) (parent n) v (sched n) (valid n) (cur n) (ls n) (lu n) (lr n) (ngt n) (npl n).
Definition set_sched (n : node) v := mkNode (alive n) (parent n) (agg n) v (valid n) (cur n) (ls n) (lu n) (lr n) (ngt n) (npl n).
Definition set_valid (n : node) v := mkNode (alive n) (parent n) (agg n) (sched n) v (cur n) (ls n) (lu n) (lr n) (ngt n) (npl n).
Definition set_cur (n : node) v := mkNode (alive n) (parent n) (agg n) (sched n) (valid n) v (ls n) (lu n) (lr n) (ngt n) (npl n).
Definition set_ls (n : node) v := mkNode (alive n) (parent n) (agg n) (sched n) (valid n) (cur n) v (lu n) (lr n) (ngt n) (npl n).
Definition set_lu (n : node) v := mkNode (alive n) (parent n) (agg n) (sched n) (valid n) (cur n) (ls n) v (lr n) (ngt n) (npl n).
Definition set_lr (n : node) v := mkNode (alive n) (parent n) (agg n) (sched n) (valid n) (cur n) (ls n) (lu n) v (ngt n) (npl n).
Definition set_ngt (n : node) v := mkNode (alive n) (parent n) (agg n) (sched n) (valid n) (cur n) (ls n) (lu n) (lr n) v (npl n).
Definition set_npl (n : node) v := mkNode (alive n) (parent n) (agg n) (sched n) (valid n) (cur n) (ls n) (lu n) (lr n) (ngt n) v.

Definition get_list (n : node) (l : lst) : list nat :=
  match l with LSched => ls n | LUnsched => lu n | LRecalc => lr n | LNone => [] end.
Definition set_list (n : node) (l : lst) (v : list nat) : node :=
  match l with LSched => set_ls n v | LUnsched => set_lu n v | LRecalc => set_lr n v | LNone => n end.

Fixpoint remove_id (x : nat) (l : list nat) : list nat :=
  match l with
  | [] => []
  | y :: t => if Nat.eqb y x then remove_id x t else y :: remove_id x t
  end.

(* GetFirstScheduledChildTime *)
Definition first_sched_agg (m : nmap) (x : nat) : N :=
  match ls (m x) with c :: _ => agg (m c) | [] => NEVER end.

(* the O(N) walk of ReschedulePulseChild: insert just before the first entry whose
   aggregate time is not smaller than [a] *)
Fixpoint ins_walk (m : nmap) (c : nat) (a : N) (l : list nat) : list nat :=
  match l with
  | [] => [c]                                   (* not reached: the caller checked the tail *)
  | y :: t => if N.ltb (agg (m y)) a then y :: ins_walk m c a t else c :: y :: t
  end.

Definition ins_sched (m : nmap) (c : nat) (l : list nat) : list nat :=
  match l with
  | [] => [c]
  | _ :: _ =>
    if N.leb (agg (m (last l 0))) (agg (m c)) then l ++ [c]      (* shortcut: append to the tail *)
    else ins_walk m c (agg (m c)) l
  end.

(* ReschedulePulseChild(child c, whichList w), called on parent p *)
Fixpoint resched (f : nat) (m : nmap) (p c : nat) (w : lst) : option nmap :=
  match f with
  | O => None
  | S f' =>
    let cl := cur (m c) in
    if lst_eqb w cl && negb (lst_eqb cl LSched) then Some m
    else
      let m1 := upd m p (set_list (m p) cl (remove_id c (get_list (m p) cl))) in
      let m2 := upd m1 c (set_cur (m1 c) w) in
      match w with
      | LSched => Some (upd m2 p (set_ls (m2 p) (ins_sched m2 c (ls (m2 p)))))
      | LRecalc =>
        match (match parent (m2 p) with
               | Some g => resched f' m2 g p LRecalc    (* if our child is rescheduled that reschedules us too *)
               | None => Some m2
               end) with
        | None => None
        | Some m3 => Some (upd m3 p (set_lr (m3 p) (c :: lr (m3 p))))
        end
      | LUnsched => Some (upd m2 p (set_lu (m2 p) (c :: lu (m2 p))))
      | LNone => Some m2
      end
  end.

Definition resched_up (f : nat) (m : nmap) (x : nat) : option nmap :=
  match parent (m x) with Some p => resched f m p x LRecalc | None => Some m end.

(* InvalidatePulseTime(clearPrevResult) *)
Definition invalidate (f : nat) (m : nmap) (x : nat) (clear : bool) : option nmap :=
  let m1 := if clear then upd m x (set_sched (m x) NEVER) else m in
  if valid (m1 x) then resched_up f (upd m1 x (set_valid (m1 x) false)) x
  else Some m1.

Definition opt_nat_eqb (a : option nat) (b : nat) : bool :=
  match a with Some a' => Nat.eqb a' b | None => false end.

(* RemovePulseChild(child c), called on p *)
Definition remove_child (f : nat) (m : nmap) (p c : nat) : option nmap :=
  if opt_nat_eqb (parent (m c)) p then
    let do_resched := opt_nat_eqb (hd_error (ls (m p))) c in
    match resched f m p c LNone with
    | None => None
    | Some m1 =>
      let m2 := upd m1 c (set_valid (set_parent (m1 c) None) false) in
      if do_resched then resched_up f m2 p else Some m2
    end
  else Some m.

(* PutPulseChild(child c), called on p *)
Definition put_child (f : nat) (m : nmap) (p c : nat) : option nmap :=
  match (match parent (m c) with Some q => remove_child f m q c | None => Some m end) with
  | None => None
  | Some m1 => resched f (upd m1 c (set_parent (m1 c) (Some p))) p c LRecalc
  end.

(* while(_firstChild[l]) RemovePulseChild(_firstChild[l]) *)
Fixpoint clear_list (f : nat) (m : nmap) (x : nat) (l : lst) : option nmap :=
  match f with
  | O => None
  | S f' =>
    match get_list (m x) l with
    | [] => Some m
    | c :: _ => match remove_child f' m x c with None => None | Some m1 => clear_list f' m1 x l end
    end
  end.

(* ClearPulseChildren: for each of the three lists, remove its head until it is empty *)
Definition clear_children (f : nat) (m : nmap) (x : nat) : option nmap :=
  match clear_list f m x LSched with
  | None => None
  | Some m1 =>
    match clear_list f m1 x LUnsched with
    | None => None
    | Some m2 => clear_list f m2 x LRecalc
    end
  end.

(* ~PulseNode *)
Definition destroy (f : nat) (m : nmap) (x : nat) : option nmap :=
  match (match parent (m x) with Some p => remove_child f m p x | None => Some m end) with
  | None => None
  | Some m1 =>
    match clear_children f m1 x with
    | None => None
    | Some m2 => Some (upd m2 x (set_alive (m2 x) false))
    end
  end.

(* is [a] equal to [x] or one of its ancestors?  (the harness refuses to build cycles) *)
Fixpoint is_anc (f : nat) (m : nmap) (a x : nat) : option bool :=
  match f with
  | O => None
  | S f' =>
    if Nat.eqb x a then Some true
    else match parent (m x) with None => Some false | Some p => is_anc f' m a p end
  end.

(* operations a user (or a callback) may perform on nodes *)
Inductive cop :=
| CInval (x : nat) (clear : bool)
| CAttach (p c : nat)
| CDetach (p c : nat)
| CClear (x : nat)
| CDestroy (x : nat).

Definition apply_cop (f : nat) (m : nmap) (o : cop) : option nmap :=
  match o with
  | CInval x cl => if alive (m x) then invalidate f m x cl else Some m
  | CAttach p c =>
    if alive (m p) && alive (m c) && negb (Nat.eqb p c) then
      match is_anc f m c p with
      | None => None
      | Some true => Some m
      | Some false => put_child f m p c
      end
    else Some m
  | CDetach p c => if alive (m p) && alive (m c) then remove_child f m p c else Some m
  | CClear x => if alive (m x) then clear_children f m x else Some m
  | CDestroy x => if alive (m x) then destroy f m x else Some m
  end.

Fixpoint run_cops (f : nat) (m : nmap) (os : list cop) : option nmap :=
  match os with
  | [] => Some m
  | o :: t => match apply_cop f m o with None => None | Some m1 => run_cops f m1 t end
  end.

(* ------------------------------------------------------------------ sweeps *)

Inductive event :=
| EGet (x k : nat) (now prev : N)        (* GetPulseTime called on x (k earlier calls) *)
| EPulse (x k : nat) (now st : N)        (* Pulse called on x with (callback time, scheduled time) *)
| EMin (r : nat) (mn : N).               (* the manager's GetPulseTimeAux on root r produced mn *)

Record state := mkSt { nd : nmap; evs : list event (* newest first *) }.

Definition init_state : state := mkSt empty_map [].

(* while(firstNeedy) firstNeedy->GetPulseTimeAux(now, min) *)
Fixpoint loop_recalc (call : state -> nat -> N -> option (state * N)) (k : nat) (x : nat)
         (s : state) (mn : N) : option (state * N) :=
  match k with
  | O => None
  | S k' =>
    match lr (nd s x) with
    | [] => Some (s, mn)
    | c :: _ =>
      match call s c mn with
      | None => None
      | Some (s1, mn1) => loop_recalc call k' x s1 mn1
      end
    end
  end.

(* while((p)&&(now >= p->_aggregatePulseTime)) {p->PulseAux(now); p = _firstChild[SCHEDULED];} *)
Fixpoint loop_sched (call : state -> nat -> option state) (k : nat) (x : nat) (now : N)
         (s : state) : option state :=
  match k with
  | O => None
  | S k' =>
    match ls (nd s x) with
    | [] => Some s
    | c :: _ =>
      if N.leb (agg (nd s c)) now then
        match call s c with
        | None => None
        | Some s1 => loop_sched call k' x now s1
        end
      else Some s
    end
  end.

Section Callbacks.
  Variable gt : nmap -> nat -> nat -> N -> N -> N * list cop.    (* GetPulseTime oracle *)
  Variable pl : nmap -> nat -> nat -> N -> N -> list cop.        (* Pulse oracle *)

  (* the "update myself" part of GetPulseTimeAux *)
  Definition get_self (f : nat) (s : state) (x : nat) (now : N) : option state :=
    if valid (nd s x) then Some s
    else
      let k := ngt (nd s x) in
      let prev := sched (nd s x) in
      let m1 := upd (nd s) x (set_ngt (set_valid (nd s x) true) (S k)) in
      let r := gt m1 x k now prev in
      match run_cops f m1 (snd r) with
      | None => None
      | Some m2 => Some (mkSt (upd m2 x (set_sched (m2 x) (N.min (fst r) NEVER)))
                              (EGet x k now prev :: evs s))
      end.

  (* the tail of GetPulseTimeAux: recompute the aggregate, move within the parent's lists *)
  Definition get_finish (f : nat) (s : state) (x : nat) (mn : N) : option (state * N) :=
    let m := nd s in
    let old := agg (m x) in
    let a := N.min (sched (m x)) (first_sched_agg m x) in
    let m1 := upd m x (set_agg (m x) a) in
    match (match parent (m1 x) with
           | Some p =>
             if lst_eqb (cur (m1 x)) LRecalc || negb (N.eqb a old)
             then resched f m1 p x (if N.eqb a NEVER then LUnsched else LSched)
             else Some m1
           | None => Some m1
           end) with
    | None => None
    | Some m2 => Some (mkSt m2 (evs s), if N.ltb a mn then a else mn)
    end.

  Fixpoint get_aux (f : nat) (now : N) (s : state) (x : nat) (mn : N) : option (state * N) :=
    match f with
    | O => None
    | S f' =>
      match get_self f' s x now with
      | None => None
      | Some s1 =>
        match loop_recalc (get_aux f' now) f' x s1 mn with
        | None => None
        | Some (s2, mn2) => get_finish f' s2 x mn2
        end
      end
    end.

  (* the "pulse myself" part of PulseAux *)
  Definition pulse_self (f : nat) (s : state) (x : nat) (now : N) : option state :=
    if valid (nd s x) && N.leb (sched (nd s x)) now then
      let k := npl (nd s x) in
      let st := sched (nd s x) in
      let m1 := upd (nd s) x (set_npl (nd s x) (S k)) in
      match run_cops f m1 (pl m1 x k now st) with
      | None => None
      | Some m2 => Some (mkSt (upd m2 x (set_valid (m2 x) false)) (EPulse x k now st :: evs s))
      end
    else Some s.

  Fixpoint pulse_aux (f : nat) (now : N) (s : state) (x : nat) : option state :=
    match f with
    | O => None
    | S f' =>
      match pulse_self f' s x now with
      | None => None
      | Some s1 =>
        match loop_sched (pulse_aux f' now) f' x now s1 with
        | None => None
        | Some s2 =>
          match resched_up f' (nd s2) x with
          | None => None
          | Some m3 => Some (mkSt m3 (evs s2))
          end
        end
      end
    end.

  (* what the manager (ReflectServer) does with a node it owns *)
  Inductive top :=
  | TOp (o : cop)
  | TNew (x : nat)
  | TGet (r : nat) (now : N)        (* CallGetPulseTimeAux(r, now, min = NEVER) *)
  | TPulse (r : nat) (now : N)      (* CallPulseAux(r, now) *)
  | TCycle (r : nat) (now : N).     (* one server cycle: recalculation sweep, then pulse sweep *)

  Definition is_root (m : nmap) (r : nat) : bool :=
    alive (m r) && match parent (m r) with None => true | Some _ => false end.

  Definition top_get (f : nat) (s : state) (r : nat) (now : N) : option state :=
    if is_root (nd s) r then
      match get_aux f now s r NEVER with
      | None => None
      | Some (s1, mn) => Some (mkSt (nd s1) (EMin r mn :: evs s1))
      end
    else Some s.

  Definition top_pulse (f : nat) (s : state) (r : nat) (now : N) : option state :=
    if is_root (nd s) r then
      if N.leb (agg (nd s r)) now then pulse_aux f now s r else Some s
    else Some s.

  Definition step (f : nat) (s : state) (o : top) : option state :=
    match o with
    | TOp c => match apply_cop f (nd s) c with None => None | Some m => Some (mkSt m (evs s)) end
    | TNew x =>
      if alive (nd s x) then Some s
      else Some (mkSt (upd (nd s) x (fresh (ngt (nd s x)) (npl (nd s x)))) (evs s))
    | TGet r now => top_get f s r now
    | TPulse r now => top_pulse f s r now
    | TCycle r now =>
      match top_get f s r now with None => None | Some s1 => top_pulse f s1 r now end
    end.

  Fixpoint run (f : nat) (s : state) (os : list top) : option state :=
    match os with
    | [] => Some s
    | o :: t => match step f s o with None => None | Some s1 => run f s1 t end
    end.
End Callbacks.
