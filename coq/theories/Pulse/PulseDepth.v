(* C20 -- in a forest whose attached nodes have ids below N, no node is deeper than N: a rank bounded by N. *)
From Coq Require Import List Arith NArith Bool Lia.
From Muscle Require Import Pulse.PulseModel Pulse.PulseInv Pulse.PulseForest Pulse.PulseOps Pulse.PulseFuel.
Import ListNotations.

(* the attached nodes met when walking from x to its root (x first; the parentless root itself is not listed) *)
Inductive up_chain (m : nmap) : nat -> list nat -> Prop :=
| uc_root x : parent (m x) = None -> up_chain m x []
| uc_step x p l : parent (m x) = Some p -> up_chain m p l -> up_chain m x (x :: l).

Lemma up_chain_exists m rk : edges rk m -> forall x, exists l, up_chain m x l.
Proof.
  intros He x. remember (rk x) as n eqn:Hn. revert x Hn.
  induction n as [n IH] using lt_wf_ind. intros x Hn.
  destruct (parent (m x)) as [p|] eqn:Hp; [|exists []; now constructor].
  destruct (IH (rk p)) with (x := p) as (l & Hl); [specialize (He _ _ Hp); lia|reflexivity|].
  exists (x :: l). econstructor; eauto.
Qed.

Lemma up_chain_props m rk x l :
  edges rk m -> up_chain m x l ->
  (forall y, In y l -> rk y <= rk x /\ parent (m y) <> None) /\ NoDup l.
Proof.
  intros He H. induction H as [x Hx|x p l Hp Hc IH]; [split; [intros y []|constructor]|].
  destruct IH as [Hall Hnd]. pose proof (He _ _ Hp) as Hlt. split.
  - intros y [<-|Hy]; [split; [lia|congruence]|]. destruct (Hall y Hy) as [H1 H2]. split; [lia|assumption].
  - constructor; [|assumption]. intro Hin. destruct (Hall x Hin). lia.
Qed.

Lemma up_chain_len m rk N x l : edges rk m -> kids_lt N m -> up_chain m x l -> length l <= N.
Proof.
  intros He Hk Hc. destruct (up_chain_props m rk x l He Hc) as [Hall Hnd].
  rewrite <- (seq_length N 0). apply NoDup_incl_length; [assumption|].
  intros y Hy. apply in_seq. split; [lia|]. simpl. destruct (Hall y Hy) as [_ Hp].
  destruct (parent (m y)) as [q|] eqn:Hq; [|congruence]. eapply Hk; eauto.
Qed.

Fixpoint depth_f (f : nat) (m : nmap) (x : nat) : nat :=
  match f with
  | O => 0
  | S f' => match parent (m x) with None => 0 | Some p => S (depth_f f' m p) end
  end.

Lemma depth_f_chain m : forall f x l, up_chain m x l -> length l < f -> depth_f f m x = length l.
Proof.
  induction f as [|f IH]; intros x l Hc Hl; [lia|]. simpl. destruct Hc as [x Hx|x p l Hp Hc].
  - now rewrite Hx.
  - rewrite Hp. simpl in *. f_equal. apply IH; [assumption|lia].
Qed.

(* small_rank: the depth is a rank bounded by the bound on the ids of attached nodes *)
Lemma small_rank m N : acyc m -> kids_lt N m -> exists rk, edges rk m /\ forall x, rk x <= N.
Proof.
  intros (rk0 & B & He0 & _) Hk. exists (depth_f (S N) m). split.
  - intros c p Hp. destruct (up_chain_exists m rk0 He0 p) as (l & Hl).
    assert (Hlc : up_chain m c (c :: l)) by (econstructor; eauto).
    pose proof (up_chain_len m rk0 N c (c :: l) He0 Hk Hlc) as H1. simpl in H1.
    rewrite (depth_f_chain m (S N) p l Hl) by lia.
    rewrite (depth_f_chain m (S N) c (c :: l) Hlc) by (simpl; lia). simpl. lia.
  - intro x. destruct (up_chain_exists m rk0 He0 x) as (l & Hl).
    pose proof (up_chain_len m rk0 N x l He0 Hk Hl) as H1.
    rewrite (depth_f_chain m (S N) x l Hl) by lia. assumption.
Qed.

(* so [fits] only needs a bound on the ids of the nodes in use *)
Lemma fits_of_ids f m G N :
  Good G m -> (forall y, alive (m y) = true -> y < N) -> 3 * N + 4 <= f -> fits f m.
Proof.
  intros Hg Ha Hf.
  destruct (small_rank m N (c_acyc _ (i_core _ (g_inv _ _ Hg))) (kids_lt_of_alive G N m Hg Ha)) as (rk & He & Hb).
  exists rk, N, N. repeat split; auto. lia.
Qed.
