(* C20 -- the two sweeps (GetPulseTimeAux, PulseAux) and the manager's operations keep the invariants.
   Pulse() oracles are arbitrary (they may restructure the forest from inside the callback);
   GetPulseTime() oracles are arbitrary functions that perform no operations. *)
From Coq Require Import List Arith NArith Bool Lia.
From Muscle Require Import Pulse.PulseModel Pulse.PulseInv Pulse.PulseForest Pulse.PulseResched Pulse.PulseOps.
Import ListNotations.

Definition nobody : nat -> Prop := fun _ => False.

(* ------------------------------------------------------------------ generic loop rules *)

Lemma loop_sched_ind (P : state -> Prop) call :
  (forall s c s1, P s -> call s c = Some s1 -> P s1) ->
  forall k x now s s', P s -> loop_sched call k x now s = Some s' -> P s'.
Proof.
  intros Hcall. induction k as [|k IH]; intros x now s s' Hp H; [discriminate|]. simpl in H.
  destruct (ls (nd s x)) as [|c t]; [inversion H; subst; assumption|].
  destruct (N.leb (agg (nd s c)) now); [|inversion H; subst; assumption].
  destruct (call s c) as [s1|] eqn:Hc; [|discriminate]. eapply IH; [|eassumption]. eapply Hcall; eauto.
Qed.

Lemma loop_sched_ind2 (P : state -> Prop) call x now :
  (forall s c t s1, P s -> ls (nd s x) = c :: t -> (agg (nd s c) <= now)%N -> call s c = Some s1 -> P s1) ->
  forall k s s', P s -> loop_sched call k x now s = Some s' -> P s'.
Proof.
  intros Hcall. induction k as [|k IH]; intros s s' Hp H; [discriminate|]. simpl in H.
  destruct (ls (nd s x)) as [|c t] eqn:Hl; [inversion H; subst; assumption|].
  destruct (N.leb_spec (agg (nd s c)) now) as [Hle|Hgt]; [|inversion H; subst; assumption].
  destruct (call s c) as [s1|] eqn:Hc; [|discriminate]. eapply IH; [|eassumption]. eapply Hcall; eauto.
Qed.

Lemma loop_recalc_ind (P : state -> N -> Prop) call x :
  (forall s c t mn s1 mn1, P s mn -> lr (nd s x) = c :: t -> call s c mn = Some (s1, mn1) -> P s1 mn1) ->
  forall k s mn s' mn', P s mn -> loop_recalc call k x s mn = Some (s', mn') -> P s' mn' /\ lr (nd s' x) = [].
Proof.
  intros Hcall. induction k as [|k IH]; intros s mn s' mn' Hp H; [discriminate|]. simpl in H.
  destruct (lr (nd s x)) as [|c t] eqn:Hl; [inversion H; subst; auto|].
  destruct (call s c mn) as [[s1 mn1]|] eqn:Hc; [|discriminate]. eapply IH; [|eassumption]. eapply Hcall; eauto.
Qed.

Lemma sorted_head_le m l c :
  sorted m l -> In c l -> (match l with h :: _ => agg (m h) | [] => NEVER end <= agg (m c))%N.
Proof.
  destruct l as [|h t]; [intros _ []|]. simpl. intros [Hh _] [<-|Hin]; [apply N.le_refl|now apply Hh].
Qed.

(* ------------------------------------------------------------------ scalar updates used by the sweeps *)

Lemma Good_scalar_upd G m x n :
  Good G m ->
  parent n = parent (m x) -> cur n = cur (m x) -> ls n = ls (m x) -> lu n = lu (m x) -> lr n = lr (m x) ->
  alive n = alive (m x) -> agg n = agg (m x) ->
  (sched n <= NEVER)%N ->
  (valid n = true -> su (cur (m x)) -> valid (m x) = true /\ sched n = sched (m x)) ->
  (valid n = false -> ~ G x -> rn (cur (m x))) ->
  Good G (upd m x n).
Proof.
  intros [[Hc Hl Hk3] Hk2] H1 H2 H3 H4 H5 H6 H7 H8 H9 H10.
  pose proof (same_struct_upd_scalar m x n H1 H2 H3 H4 H5 H6) as Hs.
  assert (Ha : forall y, agg (upd m x n y) = agg (m y)).
  { intro y. destruct (upd_cases m x n y) as [[-> ->]|[_ ->]]; auto. }
  assert (Hk6 : K6 (upd m x n)).
  { intro y. rewrite Ha. split; [|apply (c_k6 _ Hc)].
    destruct (upd_cases m x n y) as [[-> ->]|[_ ->]]; [assumption|apply (c_k6 _ Hc)]. }
  constructor; [constructor|].
  - eapply Core_struct; eauto.
  - eapply listed_struct; eauto.
  - apply K3_all. intro y. destruct (Nat.eq_dec y x) as [->|Hy].
    + intros Hv Hsu. rewrite upd_same in Hv. destruct (Hs x) as (_&Hcx&_). rewrite Hcx in Hsu.
      destruct (H9 Hv Hsu) as [Hvx Hsx].
      assert (Hf : first_sched_agg (upd m x n) x = first_sched_agg m x).
      { apply fsa_ext; [|exact Ha]. now destruct (Hs x) as (_&_&?&_). }
      rewrite Ha, Hf. rewrite upd_same. rewrite Hsx. apply Hk3; assumption.
    + apply (K3at_struct m (upd m x n) y Hs Ha); try (now rewrite upd_other). now apply K3_all.
  - intros y HG Hv. destruct (Hs y) as (_&Hcy&_). rewrite Hcy.
    destruct (Nat.eq_dec y x) as [->|Hy].
    + rewrite upd_same in Hv. now apply H10.
    + rewrite upd_other in Hv by assumption. now apply Hk2.
Qed.

Lemma Good_weaken (G G' : nat -> Prop) m : (forall y, G y -> G' y) -> Good G m -> Good G' m.
Proof. intros Hs [Hi Hk]. constructor; [assumption|]. intros y HG. apply Hk. auto. Qed.

(* ------------------------------------------------------------------ the end of GetPulseTimeAux: off the needs-recalc list, onto the list the new aggregate calls for *)

Lemma resched_SU_good G f m p c w m' :
  Good G m -> parent (m c) = Some p -> cur (m c) = LRecalc -> su w ->
  lr (m c) = [] -> valid (m c) = true ->
  (w = LSched -> agg (m c) <> NEVER) -> (w = LUnsched -> agg (m c) = NEVER) ->
  agg (m c) = N.min (sched (m c)) (first_sched_agg m c) ->
  resched f m p c w = Some m' ->
  Good G m' /\ same_scalars m m' /\ (forall y, y <> c -> cur (m' y) = cur (m y)) /\ cur (m' c) = w /\
  (forall q, q <> p -> forall l, get_list (m' q) l = get_list (m q) l).
Proof.
  intros [[Hc Hl Hk3] Hk2] Hpar Hcur Hw Hlr Hv HwS HwU Hagg H.
  pose proof (c_wf _ Hc) as Hwf.
  assert (Hns : forall x, parent (m x) <> Some x) by apply (wf_noself _ _ Hwf).
  assert (Hpc : p <> c) by (intro; subst; now apply (Hns c)).
  pose proof (resched_scalars f m p c w m' Hpar Hpc Hns H) as Hsc.
  destruct (resched_cur f m p c w m' Hpar Hpc Hns H) as [Hcc Hco].
  assert (Hco' : forall y, y <> c -> cur (m' y) = cur (m y)).
  { intros y Hy. destruct (Hco y Hy) as [He|[Hr _]]; [assumption|]. destruct Hw; congruence. }
  (* the lists *)
  assert (HL : (forall q, q <> p -> forall l, get_list (m' q) l = get_list (m q) l) /\
               (forall y, In y (lr (m' p)) -> In y (lr (m p)))).
  { destruct f as [|f]; [discriminate|]. rewrite resched_unfold in H.
    assert (Hno : lst_eqb w (cur (m c)) && negb (lst_eqb (cur (m c)) LSched) = false).
    { rewrite Hcur. destruct Hw as [-> | ->]; reflexivity. }
    rewrite Hno in H. cbv zeta in H.
    destruct Hw as [-> | ->]; inversion H; subst m'; clear H; split.
    - intros q Hq l. rewrite upd_other by assumption. now apply unlink_list_o.
    - intros y Hin. rewrite upd_same in Hin. simpl in Hin.
      change (In y (get_list (unlink m p c LSched p) LRecalc)) in Hin.
      apply unlink_in in Hin; [|assumption]. tauto.
    - intros q Hq l. rewrite upd_other by assumption. now apply unlink_list_o.
    - intros y Hin. rewrite upd_same in Hin. simpl in Hin.
      change (In y (get_list (unlink m p c LUnsched p) LRecalc)) in Hin.
      apply unlink_in in Hin; [|assumption]. tauto. }
  destruct HL as [HL1 HL2].
  assert (Hinp : In c (lr (m p))).
  { pose proof (wf_par _ _ Hwf c p (fun F => F) Hpar) as Hin. rewrite Hcur in Hin. apply Hin. discriminate. }
  assert (Hrnp : rn (cur (m p))).
  { apply (c_k1 _ Hc). intro He. rewrite He in Hinp. destruct Hinp. }
  split; [|split; [assumption|split; [assumption|split; assumption]]].
  constructor; [constructor; [constructor|..]|].
  - apply (resched_WFx f noexc m p c w m' Hwf Hpar); [intros []|exact H].
  - intros x Hx. destruct (Nat.eq_dec x c) as [->|Hxc].
    + exfalso. apply Hx. change (get_list (m' c) LRecalc = []). rewrite HL1 by congruence. exact Hlr.
    + rewrite Hco' by assumption. apply (c_k1 _ Hc).
      destruct (Nat.eq_dec x p) as [->|Hxp].
      * intro He. rewrite He in Hinp. destruct Hinp.
      * change (get_list (m x) LRecalc <> []). rewrite <- HL1 by assumption. exact Hx.
  - intros x. destruct (Hsc x) as (_&Ha&_). rewrite Ha.
    destruct (Nat.eq_dec x c) as [->|Hxc].
    + rewrite Hcc. split; intro; subst w; auto.
    + rewrite Hco' by assumption. apply (c_k4 _ Hc).
  - eapply resched_K5; eauto. apply (c_k5 _ Hc).
  - eapply K6_mono; eauto. apply (c_k6 _ Hc).
  - eapply acyc_mono; eauto. apply (c_acyc _ Hc).
  - eapply dead_inert_mono; eauto. apply (c_dead _ Hc).
  - intros y q Hq. destruct (Hsc y) as (Hpy&_). rewrite Hpy in Hq.
    destruct (Nat.eq_dec y c) as [->|Hy]; [rewrite Hcc; destruct Hw; congruence|].
    rewrite Hco' by assumption. eapply Hl; eauto.
  - apply K3_all. intro y. destruct (Hsc y) as (_&Hay&Hsy&Hvy&_).
    assert (Hagz : forall z, agg (m' z) = agg (m z)) by (intro z; now destruct (Hsc z) as (_&?&_)).
    destruct (Nat.eq_dec y p) as [->|Hyp].
    + intros _ Hsu. rewrite Hco' in Hsu by assumption. exfalso. eapply rn_not_su; eauto.
    + assert (Hf : first_sched_agg m' y = first_sched_agg m y).
      { apply fsa_ext; [|exact Hagz]. change (get_list (m' y) LSched = get_list (m y) LSched). now apply HL1. }
      destruct (Nat.eq_dec y c) as [->|Hyc].
      * intros _ _. rewrite Hay, Hsy, Hf. exact Hagg.
      * apply K3at_ext with (m := m); auto. now apply K3_all.
  - intros y HG Hvy. destruct (Hsc y) as (_&_&_&Hvy'&_). rewrite Hvy' in Hvy.
    destruct (Nat.eq_dec y c) as [->|Hy]; [congruence|]. rewrite Hco' by assumption. now apply Hk2.
Qed.

(* _aggregatePulseTime = ...  on a node that is on the needs-recalc list (or on none) *)
Lemma Good_agg_upd G m x a :
  Good G m -> rn (cur (m x)) -> (a <= NEVER)%N -> Good G (upd m x (set_agg (m x) a)).
Proof.
  intros [[Hc Hl Hk3] Hk2] Hrn Ha. set (m' := upd m x (set_agg (m x) a)).
  assert (Hs : same_struct m m') by (apply same_struct_upd_scalar; reflexivity).
  pose proof (c_wf _ Hc) as Hwf.
  assert (Hag : forall y, y <> x -> agg (m' y) = agg (m y)) by (intros y Hy; unfold m'; now rewrite upd_other).
  assert (Hmem : forall q y, In y (ls (m q)) -> y <> x).
  { intros q y Hin Hy. subst y. destruct (wf_in _ _ Hwf q x LSched Hin) as [_ Hcx].
    destruct Hrn as [Hr|Hr]; congruence. }
  assert (Hsv : forall y, sched (m' y) = sched (m y) /\ valid (m' y) = valid (m y)).
  { intro y. unfold m'. destruct (upd_cases m x (set_agg (m x) a) y) as [[-> ->]|[_ ->]]; split; reflexivity. }
  destruct Hc as [_ Hk1 Hk4 Hk5 Hk6 Hac Hd].
  constructor; [constructor; [constructor|..]|].
  - eapply WFx_struct; eauto.
  - eapply K1_struct; eauto.
  - intro y. destruct (Hs y) as (_&Hcy&_). rewrite Hcy. destruct (Nat.eq_dec y x) as [->|Hy].
    + destruct Hrn as [Hr|Hr]; rewrite Hr; split; discriminate.
    + rewrite Hag by assumption. apply Hk4.
  - intro q. destruct (Hs q) as (_&_&Hlq&_). rewrite Hlq. apply sorted_ext with (m := m); [|apply Hk5].
    intros y Hin. apply Hag. eapply Hmem; eauto.
  - intro y. destruct (Hsv y) as [Hsy _]. rewrite Hsy. split; [apply Hk6|].
    destruct (Nat.eq_dec y x) as [->|Hy]; [unfold m'; rewrite upd_same; exact Ha|rewrite Hag by assumption; apply Hk6].
  - eapply acyc_struct; eauto.
  - eapply dead_inert_struct; eauto.
  - eapply listed_struct; eauto.
  - apply K3_all. intro y. destruct (Hs y) as (_&Hcy&Hly&_). destruct (Hsv y) as [Hsy Hvy].
    destruct (Nat.eq_dec y x) as [->|Hy].
    + intros _ Hsu. rewrite Hcy in Hsu. exfalso. eapply rn_not_su; eauto.
    + apply K3at_ext with (m := m); auto; [|now apply K3_all].
      unfold first_sched_agg. rewrite Hly. destruct (ls (m y)) as [|h t] eqn:Hls; [reflexivity|].
      apply Hag. apply (Hmem y h). rewrite Hls. now left.
  - intros y HG Hv. destruct (Hs y) as (_&Hcy&_). destruct (Hsv y) as [_ Hvy]. rewrite Hcy. rewrite Hvy in Hv. now apply Hk2.
Qed.

Section PulseSweep.
  Variable pl : nmap -> nat -> nat -> N -> N -> list cop.

  (* ---------------------------------------------------------------- PulseAux *)

  Lemma pulse_self_good G f s x now s1 :
    Good G (nd s) -> pulse_self pl f s x now = Some s1 -> Good (fun y => G y \/ y = x) (nd s1).
  Proof.
    intros Hg H. unfold pulse_self in H.
    destruct (valid (nd s x) && N.leb (sched (nd s x)) now).
    - set (m1 := upd (nd s) x (set_npl (nd s x) (S (npl (nd s x))))) in *.
      destruct (run_cops f m1 (pl m1 x (npl (nd s x)) now (sched (nd s x)))) as [m2|] eqn:Hr; [|discriminate].
      inversion H; subst s1. simpl.
      assert (Hg1 : Good G m1).
      { unfold m1. apply Good_scalar_upd;
          [exact Hg|reflexivity|reflexivity|reflexivity|reflexivity|reflexivity|reflexivity|reflexivity| | | ].
        - apply (c_k6 _ (i_core _ (g_inv _ _ Hg))).
        - simpl. intros Hv Hsu. auto.
        - simpl. intros Hv HG. now apply (g_k2 _ _ Hg). }
      pose proof (run_cops_good G f _ m1 m2 Hg1 Hr) as Hg2.
      apply Good_scalar_upd;
        [|reflexivity|reflexivity|reflexivity|reflexivity|reflexivity|reflexivity|reflexivity| | | ].
      + eapply Good_weaken; [|exact Hg2]. tauto.
      + apply (c_k6 _ (i_core _ (g_inv _ _ Hg2))).
      + simpl. discriminate.
      + simpl. intros _ HG. exfalso. apply HG. now right.
    - inversion H; subst. eapply Good_weaken; [|exact Hg]. tauto.
  Qed.

  Lemma pulse_aux_good now : forall f G s x s',
    Good G (nd s) -> pulse_aux pl f now s x = Some s' -> Good G (nd s').
  Proof.
    induction f as [|f IH]; intros G s x s' Hg H; [discriminate|]. simpl in H.
    destruct (pulse_self pl f s x now) as [s1|] eqn:Hs; [|discriminate].
    destruct (loop_sched (pulse_aux pl f now) f x now s1) as [s2|] eqn:Hl; [|discriminate].
    destruct (resched_up f (nd s2) x) as [m3|] eqn:Hr; [|discriminate]. inversion H; subst s'. simpl.
    pose proof (pulse_self_good G f s x now s1 Hg Hs) as Hg1.
    assert (Hg2 : Good (fun y => G y \/ y = x) (nd s2)).
    { apply (loop_sched_ind (fun s => Good (fun y => G y \/ y = x) (nd s)) (pulse_aux pl f now)) with (k := f) (x := x) (now := now) (s := s1); auto.
      intros s0 c s3 Hp Hc. eapply IH; eauto. }
    destruct Hg2 as [[Hc Hli Hk3] Hk2].
    unfold resched_up in Hr. destruct (parent (nd s2 x)) as [p|] eqn:Hp.
    - constructor; [constructor|].
      + eapply resched_R_Core; eauto.
      + eapply resched_R_listed; eauto using listed_is_except. apply (c_wf _ Hc).
      + eapply resched_R_K3; eauto. apply (c_wf _ Hc). intros y _. now apply K3_all.
      + eapply resched_R_K2; eauto. apply (c_wf _ Hc).
        intros y Hy HG Hv. apply Hk2; [|assumption]. tauto.
    - inversion Hr; subst m3. constructor; [constructor; assumption|].
      intros y HG Hv. destruct (Nat.eq_dec y x) as [->|Hy].
      + right. now apply (wf_root _ _ (c_wf _ Hc)).
      + apply Hk2; [|assumption]. tauto.
  Qed.

End PulseSweep.

Section Sweeps.
  Variable gt : nmap -> nat -> nat -> N -> N -> N * list cop.

  (* ---------------------------------------------------------------- GetPulseTimeAux, GetPulseTime() performing no operations *)

  Hypothesis gt_pure : forall m x k now prev, snd (gt m x k now prev) = [].

  Lemma get_self_good G f s x now s1 :
    Good G (nd s) -> rn (cur (nd s x)) -> get_self gt f s x now = Some s1 ->
    Good G (nd s1) /\ valid (nd s1 x) = true /\ same_struct (nd s) (nd s1) /\
    (forall z, z <> x -> nd s1 z = nd s z) /\ agg (nd s1 x) = agg (nd s x).
  Proof.
    intros Hg Hrn H. unfold get_self in H. destruct (valid (nd s x)) eqn:Hv.
    - inversion H; subst s1. split; [assumption|]. split; [assumption|]. split; [intro y; repeat split|]. split; [reflexivity|reflexivity].
    - rewrite gt_pure in H. simpl in H. inversion H; subst s1. simpl. clear H.
      set (m1 := upd (nd s) x (set_ngt (set_valid (nd s x) true) (S (ngt (nd s x))))).
      assert (Hg1 : Good G m1).
      { unfold m1. apply Good_scalar_upd;
          [exact Hg|reflexivity|reflexivity|reflexivity|reflexivity|reflexivity|reflexivity|reflexivity| | | ].
        - apply (c_k6 _ (i_core _ (g_inv _ _ Hg))).
        - intros _ Hsu. exfalso. eapply rn_not_su; eauto.
        - simpl. discriminate. }
      assert (Hm1x : m1 x = set_ngt (set_valid (nd s x) true) (S (ngt (nd s x)))) by (unfold m1; apply upd_same).
      split; [|split; [|split; [|split]]].
      + apply Good_scalar_upd;
          [exact Hg1|reflexivity|reflexivity|reflexivity|reflexivity|reflexivity|reflexivity|reflexivity| | | ].
        * simpl. apply N.le_min_r.
        * intros _ Hsu. exfalso. rewrite Hm1x in Hsu. simpl in Hsu. eapply rn_not_su; eauto.
        * rewrite Hm1x. simpl. discriminate.
      + rewrite upd_same. rewrite Hm1x. reflexivity.
      + intro y. destruct (Nat.eq_dec y x) as [->|Hy].
        * rewrite upd_same, Hm1x. simpl. repeat split.
        * rewrite upd_other by assumption. unfold m1. rewrite upd_other by assumption. repeat split.
      + intros z Hz. rewrite upd_other by assumption. unfold m1. now rewrite upd_other.
      + rewrite upd_same, Hm1x. reflexivity.
  Qed.

  Definition frame_but (x : nat) (m m' : nmap) : Prop :=
    (forall y, parent (m' y) = parent (m y) /\ alive (m' y) = alive (m y)) /\
    (forall z, z <> x -> cur (m' z) = cur (m z) /\ valid (m' z) = valid (m z) /\ sched (m' z) = sched (m z) /\ agg (m' z) = agg (m z)).

  Lemma get_finish_good G f s x mn s' mn' :
    Good G (nd s) -> rn (cur (nd s x)) -> valid (nd s x) = true -> lr (nd s x) = [] ->
    get_finish f s x mn = Some (s', mn') ->
    Good G (nd s') /\ frame_but x (nd s) (nd s') /\
    valid (nd s' x) = true /\ sched (nd s' x) = sched (nd s x) /\
    agg (nd s' x) = N.min (sched (nd s x)) (first_sched_agg (nd s) x) /\
    (parent (nd s x) = None \/ su (cur (nd s' x))) /\
    (forall q, parent (nd s x) <> Some q -> forall l, get_list (nd s' q) l = get_list (nd s q) l) /\
    evs s' = evs s /\ mn' = N.min mn (agg (nd s' x)).
  Proof.
    intros Hg Hrn Hv Hlr H. unfold get_finish in H.
    set (m := nd s) in *. set (a := N.min (sched (m x)) (first_sched_agg m x)) in *.
    set (m1 := upd m x (set_agg (m x) a)) in *.
    pose proof (i_core _ (g_inv _ _ Hg)) as Hc. pose proof (c_wf _ Hc) as Hwf.
    assert (Ha : (a <= NEVER)%N).
    { unfold a. etransitivity; [apply N.le_min_l|]. apply (c_k6 _ Hc). }
    pose proof (Good_agg_upd G m x a Hg Hrn Ha) as Hg1. fold m1 in Hg1.
    assert (Hm1x : m1 x = set_agg (m x) a) by (unfold m1; apply upd_same).
    assert (Hm1o : forall z, z <> x -> m1 z = m z) by (intros z Hz; unfold m1; now apply upd_other).
    assert (Hmin : (if N.ltb a mn then a else mn) = N.min mn a).
    { destruct (N.ltb_spec a mn); lia. }
    assert (Hfsa : first_sched_agg m1 x = first_sched_agg m x).
    { unfold first_sched_agg. rewrite Hm1x. simpl. destruct (ls (m x)) as [|h t] eqn:Hls; [reflexivity|].
      assert (h <> x).
      { intro; subst h. destruct (wf_in _ _ Hwf x x LSched) as [Hp _]; [simpl; rewrite Hls; now left|].
        now apply (wf_noself _ _ Hwf x). }
      now rewrite Hm1o. }
    assert (Hfr1 : frame_but x m m1).
    { split; [intro y; unfold m1; destruct (upd_cases m x (set_agg (m x) a) y) as [[-> ->]|[_ ->]]; split; reflexivity|].
      intros z Hz. rewrite Hm1o by assumption. repeat split. }
    assert (Hpx : parent (m1 x) = parent (m x)) by (rewrite Hm1x; reflexivity).
    rewrite Hpx in H. destruct (parent (m x)) as [p|] eqn:Hp.
    - assert (Hcx : cur (m x) = LRecalc).
      { destruct Hrn as [Hr|Hr]; [assumption|]. exfalso. eapply (i_listed _ (g_inv _ _ Hg)); eauto. }
      assert (Hcx1 : cur (m1 x) = LRecalc) by (rewrite Hm1x; exact Hcx).
      rewrite Hcx1 in H. simpl in H.
      set (w := if N.eqb a NEVER then LUnsched else LSched) in *.
      destruct (resched f m1 p x w) as [m2|] eqn:Hr; [|discriminate]. inversion H; subst s' mn'. simpl. clear H.
      assert (Hw : su w) by (unfold w; destruct (N.eqb a NEVER); [right|left]; reflexivity).
      assert (P1 : parent (m1 x) = Some p) by (rewrite Hm1x; exact Hp).
      assert (P2 : lr (m1 x) = []) by (rewrite Hm1x; exact Hlr).
      assert (P3 : valid (m1 x) = true) by (rewrite Hm1x; exact Hv).
      assert (P4 : w = LSched -> agg (m1 x) <> NEVER).
      { intro Hw'. rewrite Hm1x. simpl. unfold w in Hw'. destruct (N.eqb_spec a NEVER); [discriminate|assumption]. }
      assert (P5 : w = LUnsched -> agg (m1 x) = NEVER).
      { intro Hw'. rewrite Hm1x. simpl. unfold w in Hw'. destruct (N.eqb_spec a NEVER); [assumption|discriminate]. }
      assert (P6 : agg (m1 x) = N.min (sched (m1 x)) (first_sched_agg m1 x)).
      { rewrite Hfsa. rewrite Hm1x. reflexivity. }
      destruct (resched_SU_good G f m1 p x w m2 Hg1 P1 Hcx1 Hw P2 P3 P4 P5 P6 Hr) as (Hg2 & Hsc & Hco & Hcc & HL).
      { destruct (Hsc x) as (_&Hax&Hsx&Hvx&_).
        split; [assumption|]. split.
        { split.
          - intro y. destruct (Hsc y) as (Hpy&_&_&_&Hay&_). destruct (proj1 Hfr1 y) as [H1 H2]. split; congruence.
          - intros z Hz. destruct (Hsc z) as (_&Haz&Hsz&Hvz&_). destruct (proj2 Hfr1 z Hz) as (H1&H2&H3&H4).
            rewrite Hco by assumption. repeat split; congruence. }
        split; [rewrite Hvx, Hm1x; exact Hv|]. split; [rewrite Hsx, Hm1x; reflexivity|].
        split; [rewrite Hax, Hm1x; reflexivity|]. split; [right; now rewrite Hcc|].
        split; [|split; [reflexivity|]].
        * intros q Hq l. rewrite HL by congruence. destruct (Nat.eq_dec q x) as [->|Hqx]; [rewrite Hm1x; now destruct l|now rewrite Hm1o].
        * rewrite Hmin. f_equal. rewrite Hax, Hm1x. reflexivity. }
    - inversion H; subst s' mn'. simpl. clear H.
      split; [assumption|]. split; [assumption|]. split; [rewrite Hm1x; exact Hv|]. split; [rewrite Hm1x; reflexivity|].
      split; [rewrite Hm1x; reflexivity|]. split; [now left|]. split; [|split; [reflexivity|]].
      + intros q _ l. destruct (Nat.eq_dec q x) as [->|Hqx]; [rewrite Hm1x; now destruct l|now rewrite Hm1o].
      + rewrite Hmin. f_equal. rewrite Hm1x. reflexivity.
  Qed.

  Definition same_fields (m m' : nmap) (z : nat) : Prop :=
    cur (m' z) = cur (m z) /\ valid (m' z) = valid (m z) /\ sched (m' z) = sched (m z) /\ agg (m' z) = agg (m z).

  Lemma get_aux_spec now : forall f G s x mn s' mn',
    Good G (nd s) -> rn (cur (nd s x)) -> get_aux gt f now s x mn = Some (s', mn') ->
    Good G (nd s') /\
    (forall y, parent (nd s' y) = parent (nd s y) /\ alive (nd s' y) = alive (nd s y)) /\
    (forall z, ~ desc (nd s) x z -> same_fields (nd s) (nd s') z) /\
    valid (nd s' x) = true /\ lr (nd s' x) = [] /\
    agg (nd s' x) = N.min (sched (nd s' x)) (first_sched_agg (nd s') x) /\
    (parent (nd s x) = None \/ su (cur (nd s' x))) /\
    mn' = N.min mn (agg (nd s' x)) /\
    (forall z, cur (nd s' z) = LRecalc -> cur (nd s z) = LRecalc).
  Proof.
    induction f as [|f IH]; intros G s x mn s' mn' Hg Hrn H; [discriminate|]. simpl in H.
    destruct (get_self gt f s x now) as [s1|] eqn:Hself; [|discriminate].
    destruct (loop_recalc (get_aux gt f now) f x s1 mn) as [[s2 mn2]|] eqn:Hloop; [|discriminate].
    destruct (get_self_good G f s x now s1 Hg Hrn Hself) as (Hg1 & Hv1 & Hst1 & Ho1 & Ha1).
    (* the loop *)
    set (P := fun (si : state) (mi : N) =>
      Good G (nd si) /\
      (forall y, parent (nd si y) = parent (nd s y) /\ alive (nd si y) = alive (nd s y)) /\
      (forall z, ~ desc (nd s) x z -> same_fields (nd s) (nd si) z) /\
      valid (nd si x) = true /\ cur (nd si x) = cur (nd s x) /\
      (forall z, cur (nd si z) = LRecalc -> cur (nd s z) = LRecalc) /\
      (mi <= mn)%N /\
      (forall B, (B <= mn)%N ->
         (forall c, parent (nd si c) = Some x -> su (cur (nd si c)) -> (B <= agg (nd si c))%N) -> (B <= mi)%N)).
    assert (HP1 : P s1 mn).
    { unfold P. split; [assumption|]. split; [|split; [|split; [assumption|split; [|split; [|split]]]]].
      - intro y. destruct (Hst1 y) as (H1&_&_&_&_&H2). auto.
      - intros z Hz. assert (z <> x) by (intro; subst; apply Hz; constructor).
        unfold same_fields. rewrite Ho1 by assumption. repeat split.
      - now destruct (Hst1 x) as (_&?&_).
      - intros z. destruct (Hst1 z) as (_&->&_). auto.
      - apply N.le_refl.
      - intros B HB _. exact HB. }
    assert (Hstep : forall si c t mi si1 mi1, P si mi -> lr (nd si x) = c :: t ->
                      get_aux gt f now si c mi = Some (si1, mi1) -> P si1 mi1).
    { intros si c t mi si1 mi1 (Hgi & Hpi & Hfi & Hvi & Hci & Hmono & Hmi & HQi) Hl Hcall.
      pose proof (i_core _ (g_inv _ _ Hgi)) as Hcore. pose proof (c_wf _ Hcore) as Hwf.
      assert (Hcin : In c (get_list (nd si x) LRecalc)) by (simpl; rewrite Hl; now left).
      destruct (wf_in _ _ Hwf x c LRecalc Hcin) as [Hpc Hcc].
      destruct (IH G si c mi si1 mi1 Hgi (or_introl Hcc) Hcall) as (Hg' & Hp' & Hf' & Hv' & Hlr' & Hagg' & Hsu' & Hmn' & Hmono').
      assert (Hncx : ~ desc (nd si) c x) by (apply acyc_no_cycle; [apply (c_acyc _ Hcore)|assumption]).
      assert (Hdsub : forall z, desc (nd si) c z -> desc (nd s) x z).
      { intros z Hd. apply desc_trans with (b := c).
        - eapply desc_child; [constructor|]. destruct (Hpi c) as [Hq _]. congruence.
        - apply (desc_parent_ext (nd si)); [|assumption]. intro y. now destruct (Hpi y) as [? _]. }
      unfold P. split; [assumption|]. split; [|split; [|split; [|split; [|split; [|split]]]]].
      - intro y. destruct (Hp' y) as [H1 H2]. destruct (Hpi y) as [H3 H4]. split; congruence.
      - intros z Hz. destruct (Hfi z Hz) as (F1&F2&F3&F4).
        destruct (Hf' z) as (E1&E2&E3&E4); [intro Hd; apply Hz; now apply Hdsub|].
        repeat split; congruence.
      - destruct (Hf' x Hncx) as (_&E2&_). congruence.
      - destruct (Hf' x Hncx) as (E1&_). congruence.
      - intros z Hz. auto.
      - rewrite Hmn'. etransitivity; [apply N.le_min_l|assumption].
      - intros B HB Hall. rewrite Hmn'. apply N.min_glb.
        + apply HQi; [assumption|]. intros c' Hpc' Hsu'c.
          assert (Hne : c' <> c) by (intro; subst c'; rewrite Hcc in Hsu'c; destruct Hsu'c; discriminate).
          assert (Hnd' : ~ desc (nd si) c c').
          { intro Hd. apply desc_inv in Hd. destruct Hd as [?|(q & Hq & Hd)]; [congruence|].
            rewrite Hpc' in Hq. inversion Hq; subst q. contradiction. }
          destruct (Hf' c' Hnd') as (E1&_&_&E4). rewrite <- E4. apply Hall.
          * destruct (Hp' c') as [Hq _]. congruence.
          * now rewrite E1.
        + apply Hall.
          * destruct (Hp' c) as [Hq _]. congruence.
          * destruct Hsu' as [Hn|Hs]; [congruence|assumption]. }
    destruct (loop_recalc_ind P (get_aux gt f now) x Hstep f s1 mn s2 mn2 HP1 Hloop)
      as ((Hg2 & Hp2 & Hf2 & Hv2 & Hc2 & Hmono2 & Hm2 & HQ2) & Hlr2).
    assert (Hrn2 : rn (cur (nd s2 x))) by (rewrite Hc2; assumption).
    destruct (get_finish_good G f s2 x mn2 s' mn' Hg2 Hrn2 Hv2 Hlr2 H)
      as (Hg' & [Hfp Hfo] & Hv' & Hs' & Ha' & Hsu' & HL' & _ & Hmn').
    pose proof (i_core _ (g_inv _ _ Hg2)) as Hcore2. pose proof (c_wf _ Hcore2) as Hwf2.
    assert (Hxx : parent (nd s2 x) <> Some x) by apply (wf_noself _ _ Hwf2).
    assert (Hlsx : ls (nd s' x) = ls (nd s2 x)).
    { change (get_list (nd s' x) LSched = get_list (nd s2 x) LSched). now apply HL'. }
    assert (Hfsa : first_sched_agg (nd s') x = first_sched_agg (nd s2) x).
    { unfold first_sched_agg. rewrite Hlsx. destruct (ls (nd s2 x)) as [|h t] eqn:Hls; [reflexivity|].
      assert (h <> x).
      { intro; subst h. destruct (wf_in _ _ Hwf2 x x LSched) as [Hp _]; [simpl; rewrite Hls; now left|]. contradiction. }
      now destruct (Hfo h H0) as (_&_&_&?). }
    split; [assumption|]. split; [|split; [|split; [assumption|split; [|split; [|split; [|split]]]]]].
    - intro y. destruct (Hfp y) as [H1 H2]. destruct (Hp2 y) as [H3 H4]. split; congruence.
    - intros z Hz. assert (z <> x) by (intro; subst; apply Hz; constructor).
      destruct (Hf2 z Hz) as (F1&F2&F3&F4). destruct (Hfo z H0) as (E1&E2&E3&E4). repeat split; congruence.
    - change (get_list (nd s' x) LRecalc = []). rewrite HL' by assumption. exact Hlr2.
    - rewrite Ha', Hs', Hfsa. reflexivity.
    - destruct Hsu' as [Hn|Hs]; [left|right; assumption]. destruct (Hp2 x) as [Hq _]. congruence.
    - rewrite Hmn'. set (a := agg (nd s' x)) in *.
      assert (HB : (N.min mn a <= mn2)%N).
      { apply HQ2; [apply N.le_min_l|]. intros c Hpc Hsuc. etransitivity; [apply N.le_min_r|].
        rewrite Ha'. etransitivity; [apply N.le_min_r|].
        destruct Hsuc as [Hsc|Huc].
        - pose proof (wf_par _ _ Hwf2 c x (fun F => F) Hpc) as Hin. rewrite Hsc in Hin.
          specialize (Hin ltac:(discriminate)). simpl in Hin.
          pose proof (sorted_head_le (nd s2) (ls (nd s2 x)) c (c_k5 _ Hcore2 x) Hin) as Hle.
          unfold first_sched_agg. destruct (ls (nd s2 x)); [destruct Hin|exact Hle].
        - destruct (c_k4 _ Hcore2 c) as [_ Hu]. rewrite (Hu Huc).
          unfold first_sched_agg. destruct (ls (nd s2 x)) as [|h t]; [apply N.le_refl|apply (c_k6 _ Hcore2)]. }
      lia.
    - intros z Hz. apply Hmono2. destruct (Nat.eq_dec z x) as [->|Hzx].
      + destruct Hsu' as [Hn|Hs]; [|rewrite Hz in Hs; destruct Hs; discriminate].
        (* no parent: _curList is untouched *)
        rewrite (wf_root _ _ (c_wf _ (i_core _ (g_inv _ _ Hg'))) x) in Hz; [discriminate|].
        destruct (Hfp x) as [Hq _]. congruence.
      + now destruct (Hfo z Hzx) as (<-&_).
  Qed.
End Sweeps.
