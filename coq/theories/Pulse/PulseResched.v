(* C20 -- ReschedulePulseChild: what it changes and which invariants it keeps. *)
From Coq Require Import List Arith NArith Bool Lia.
From Muscle Require Import Pulse.PulseModel Pulse.PulseInv Pulse.PulseForest.
Import ListNotations.

(* the first half of ReschedulePulseChild: take c off the list it is on, set _curList *)
Definition unlink (m : nmap) (p c : nat) (w : lst) : nmap :=
  let cl := cur (m c) in
  let m1 := upd m p (set_list (m p) cl (remove_id c (get_list (m p) cl))) in
  upd m1 c (set_cur (m1 c) w).

Lemma resched_unfold f m p c w :
  resched (S f) m p c w =
  if lst_eqb w (cur (m c)) && negb (lst_eqb (cur (m c)) LSched) then Some m
  else
    let m2 := unlink m p c w in
    match w with
    | LSched => Some (upd m2 p (set_ls (m2 p) (ins_sched m2 c (ls (m2 p)))))
    | LRecalc =>
      match (match parent (m2 p) with Some g => resched f m2 g p LRecalc | None => Some m2 end) with
      | None => None
      | Some m3 => Some (upd m3 p (set_lr (m3 p) (c :: lr (m3 p))))
      end
    | LUnsched => Some (upd m2 p (set_lu (m2 p) (c :: lu (m2 p))))
    | LNone => Some m2
    end.
Proof. reflexivity. Qed.

Section Unlink.
  Variables (m : nmap) (p c : nat) (w : lst).
  Hypothesis Hpc : p <> c.

  Lemma unlink_c : unlink m p c w c = set_cur (m c) w.
  Proof. unfold unlink. rewrite upd_same. rewrite upd_other by congruence. reflexivity. Qed.

  Lemma unlink_p : unlink m p c w p = set_list (m p) (cur (m c)) (remove_id c (get_list (m p) (cur (m c)))).
  Proof. unfold unlink. rewrite upd_other by congruence. now rewrite upd_same. Qed.

  Lemma unlink_o y : y <> p -> y <> c -> unlink m p c w y = m y.
  Proof. intros H1 H2. unfold unlink. now rewrite !upd_other by congruence. Qed.

  Lemma unlink_parent y : parent (unlink m p c w y) = parent (m y).
  Proof.
    destruct (Nat.eq_dec y c) as [->|Hc]; [now rewrite unlink_c|].
    destruct (Nat.eq_dec y p) as [->|Hp]; [rewrite unlink_p; apply set_list_parent|].
    now rewrite unlink_o.
  Qed.
  Lemma unlink_agg y : agg (unlink m p c w y) = agg (m y).
  Proof.
    destruct (Nat.eq_dec y c) as [->|Hc]; [now rewrite unlink_c|].
    destruct (Nat.eq_dec y p) as [->|Hp]; [rewrite unlink_p; apply set_list_agg|].
    now rewrite unlink_o.
  Qed.
  Lemma unlink_sched y : sched (unlink m p c w y) = sched (m y).
  Proof.
    destruct (Nat.eq_dec y c) as [->|Hc]; [now rewrite unlink_c|].
    destruct (Nat.eq_dec y p) as [->|Hp]; [rewrite unlink_p; apply set_list_sched|].
    now rewrite unlink_o.
  Qed.
  Lemma unlink_valid y : valid (unlink m p c w y) = valid (m y).
  Proof.
    destruct (Nat.eq_dec y c) as [->|Hc]; [now rewrite unlink_c|].
    destruct (Nat.eq_dec y p) as [->|Hp]; [rewrite unlink_p; apply set_list_valid|].
    now rewrite unlink_o.
  Qed.
  Lemma unlink_alive y : alive (unlink m p c w y) = alive (m y).
  Proof.
    destruct (Nat.eq_dec y c) as [->|Hc]; [now rewrite unlink_c|].
    destruct (Nat.eq_dec y p) as [->|Hp]; [rewrite unlink_p; apply set_list_alive|].
    now rewrite unlink_o.
  Qed.
  Lemma unlink_ngt y : ngt (unlink m p c w y) = ngt (m y).
  Proof.
    destruct (Nat.eq_dec y c) as [->|Hc]; [now rewrite unlink_c|].
    destruct (Nat.eq_dec y p) as [->|Hp]; [rewrite unlink_p; apply set_list_ngt|].
    now rewrite unlink_o.
  Qed.
  Lemma unlink_npl y : npl (unlink m p c w y) = npl (m y).
  Proof.
    destruct (Nat.eq_dec y c) as [->|Hc]; [now rewrite unlink_c|].
    destruct (Nat.eq_dec y p) as [->|Hp]; [rewrite unlink_p; apply set_list_npl|].
    now rewrite unlink_o.
  Qed.
  Lemma unlink_cur_c : cur (unlink m p c w c) = w.
  Proof. now rewrite unlink_c. Qed.
  Lemma unlink_cur_o y : y <> c -> cur (unlink m p c w y) = cur (m y).
  Proof.
    intro Hc. destruct (Nat.eq_dec y p) as [->|Hp]; [rewrite unlink_p; apply set_list_cur|].
    now rewrite unlink_o.
  Qed.

  Lemma unlink_list_c l : get_list (unlink m p c w c) l = get_list (m c) l.
  Proof. rewrite unlink_c. now destruct l. Qed.

  Lemma unlink_list_p_same :
    cur (m c) <> LNone ->
    get_list (unlink m p c w p) (cur (m c)) = remove_id c (get_list (m p) (cur (m c))).
  Proof. intro H. rewrite unlink_p. now apply get_set_list_same. Qed.

  Lemma unlink_list_p_other l :
    l <> cur (m c) -> get_list (unlink m p c w p) l = get_list (m p) l.
  Proof. intro H. rewrite unlink_p. apply get_set_list_other. congruence. Qed.

  Lemma unlink_list_o q l : q <> p -> get_list (unlink m p c w q) l = get_list (m q) l.
  Proof.
    intro Hq. destruct (Nat.eq_dec q c) as [->|Hc]; [apply unlink_list_c|]. now rewrite unlink_o.
  Qed.

  (* membership after unlinking: everything that was there, except c on its old list *)
  Lemma unlink_in q l x :
    In x (get_list (unlink m p c w q) l) <->
    In x (get_list (m q) l) /\ ~ (q = p /\ l = cur (m c) /\ x = c).
  Proof.
    destruct (Nat.eq_dec q p) as [->|Hq].
    - destruct (lst_eq_dec l (cur (m c))) as [->|Hl].
      + destruct (lst_eq_dec (cur (m c)) LNone) as [Hn|Hn].
        * rewrite Hn. simpl. tauto.
        * rewrite unlink_list_p_same by assumption. rewrite remove_id_in. intuition.
      + rewrite unlink_list_p_other by assumption. intuition.
    - rewrite unlink_list_o by assumption. intuition.
  Qed.
End Unlink.

(* ------------------------------------------------------------------ scalar fields are untouched *)

Definition same_scalars (m m' : nmap) : Prop :=
  forall y, parent (m' y) = parent (m y) /\ agg (m' y) = agg (m y) /\ sched (m' y) = sched (m y) /\
            valid (m' y) = valid (m y) /\ alive (m' y) = alive (m y) /\
            ngt (m' y) = ngt (m y) /\ npl (m' y) = npl (m y).

Lemma same_scalars_refl m : same_scalars m m.
Proof. intro y. repeat split. Qed.

Lemma same_scalars_trans m1 m2 m3 : same_scalars m1 m2 -> same_scalars m2 m3 -> same_scalars m1 m3.
Proof.
  intros H1 H2 y. destruct (H1 y) as (a1&a2&a3&a4&a5&a6&a7). destruct (H2 y) as (b1&b2&b3&b4&b5&b6&b7).
  repeat split; congruence.
Qed.

Lemma same_scalars_unlink m p c w : p <> c -> same_scalars m (unlink m p c w).
Proof.
  intros Hpc y. repeat split;
  auto using unlink_parent, unlink_agg, unlink_sched, unlink_valid, unlink_alive, unlink_ngt, unlink_npl.
Qed.

(* replacing one of a node's child lists keeps every scalar field *)
Lemma same_scalars_upd_list m x l v : same_scalars m (upd m x (set_list (m x) l v)).
Proof.
  intro y. destruct (upd_cases m x (set_list (m x) l v) y) as [[-> ->]|[Hne ->]]; [|repeat split].
  destruct (set_list_scalars (m x) l v) as (a1&a2&a3&a4&a5&a6&a7&a8). repeat split; assumption.
Qed.

Lemma same_scalars_set_ls m x v : same_scalars m (upd m x (set_ls (m x) v)).
Proof. exact (same_scalars_upd_list m x LSched v). Qed.
Lemma same_scalars_set_lu m x v : same_scalars m (upd m x (set_lu (m x) v)).
Proof. exact (same_scalars_upd_list m x LUnsched v). Qed.
Lemma same_scalars_set_lr m x v : same_scalars m (upd m x (set_lr (m x) v)).
Proof. exact (same_scalars_upd_list m x LRecalc v). Qed.

Lemma resched_scalars f : forall m p c w m',
  parent (m c) = Some p -> p <> c -> (forall x, parent (m x) <> Some x) ->
  resched f m p c w = Some m' -> same_scalars m m'.
Proof.
  induction f as [|f IH]; intros m p c w m' Hpar Hpc Hns H; [discriminate|].
  rewrite resched_unfold in H.
  destruct (lst_eqb w (cur (m c)) && negb (lst_eqb (cur (m c)) LSched)).
  { inversion H; subst. apply same_scalars_refl. }
  cbv zeta in H.
  pose proof (same_scalars_unlink m p c w Hpc) as Hu.
  destruct w.
  - inversion H; subst. assumption.
  - inversion H; subst. eapply same_scalars_trans; [exact Hu|apply same_scalars_set_ls].
  - inversion H; subst. eapply same_scalars_trans; [exact Hu|apply same_scalars_set_lu].
  - destruct (parent (unlink m p c LRecalc p)) as [g|] eqn:Hg.
    + destruct (resched f (unlink m p c LRecalc) g p LRecalc) as [m3|] eqn:Hr; [|discriminate].
      inversion H; subst.
      assert (Hgp : g <> p).
      { intro; subst g. rewrite unlink_parent in Hg by assumption. now apply (Hns p). }
      apply IH in Hr; [|assumption|assumption|].
      * eapply same_scalars_trans; [exact Hu|]. eapply same_scalars_trans; [exact Hr|apply same_scalars_set_lr].
      * intros x. rewrite unlink_parent by assumption. apply Hns.
    + inversion H; subst. eapply same_scalars_trans; [exact Hu|apply same_scalars_set_lr].
Qed.

(* ------------------------------------------------------------------ _curList after the call *)

Lemma resched_cur f : forall m p c w m',
  parent (m c) = Some p -> p <> c -> (forall x, parent (m x) <> Some x) ->
  resched f m p c w = Some m' ->
  cur (m' c) = w /\
  forall y, y <> c -> cur (m' y) = cur (m y) \/ (w = LRecalc /\ cur (m' y) = LRecalc).
Proof.
  induction f as [|f IH]; intros m p c w m' Hpar Hpc Hns H; [discriminate|].
  rewrite resched_unfold in H.
  destruct (lst_eqb w (cur (m c)) && negb (lst_eqb (cur (m c)) LSched)) eqn:Hno.
  { inversion H; subst. apply andb_prop in Hno. destruct Hno as [Hno _]. apply lst_eqb_eq in Hno.
    split; [congruence|auto]. }
  cbv zeta in H.
  destruct w.
  - inversion H; subst. split; [now apply unlink_cur_c|]. intros y Hy. left. now apply unlink_cur_o.
  - inversion H; subst. split.
    + rewrite upd_other by congruence. now apply unlink_cur_c.
    + intros y Hy. left. destruct (upd_cases (unlink m p c LSched) p
        (set_ls (unlink m p c LSched p) (ins_sched (unlink m p c LSched) c (ls (unlink m p c LSched p)))) y)
        as [[-> ->]|[Hne ->]]; simpl; now apply unlink_cur_o.
  - inversion H; subst. split.
    + rewrite upd_other by congruence. now apply unlink_cur_c.
    + intros y Hy. left. destruct (upd_cases (unlink m p c LUnsched) p
        (set_lu (unlink m p c LUnsched p) (c :: lu (unlink m p c LUnsched p))) y)
        as [[-> ->]|[Hne ->]]; simpl; now apply unlink_cur_o.
  - set (m2 := unlink m p c LRecalc) in *.
    assert (Hm3 : forall m3, (forall y, y <> c -> cur (m3 y) = cur (m2 y) \/ cur (m3 y) = LRecalc) ->
                  cur (m3 c) = LRecalc ->
                  cur (upd m3 p (set_lr (m3 p) (c :: lr (m3 p))) c) = LRecalc /\
                  forall y, y <> c -> cur (upd m3 p (set_lr (m3 p) (c :: lr (m3 p))) y) = cur (m y) \/
                                      (LRecalc = LRecalc /\ cur (upd m3 p (set_lr (m3 p) (c :: lr (m3 p))) y) = LRecalc)).
    { intros m3 Ho Hc. split.
      - rewrite upd_other by congruence. assumption.
      - intros y Hy.
        assert (Hcy : cur (upd m3 p (set_lr (m3 p) (c :: lr (m3 p))) y) = cur (m3 y)).
        { destruct (upd_cases m3 p (set_lr (m3 p) (c :: lr (m3 p))) y) as [[-> ->]|[Hne ->]]; reflexivity. }
        rewrite Hcy. destruct (Ho y Hy) as [He|He].
        + left. rewrite He. unfold m2. now apply unlink_cur_o.
        + right. auto. }
    destruct (parent (m2 p)) as [g|] eqn:Hg.
    + destruct (resched f m2 g p LRecalc) as [m3|] eqn:Hr; [|discriminate].
      inversion H; subst m'. clear H.
      assert (Hgp : g <> p).
      { intro; subst g. unfold m2 in Hg. rewrite unlink_parent in Hg by assumption. now apply (Hns p). }
      assert (Hns2 : forall x, parent (m2 x) <> Some x).
      { intros x. unfold m2. rewrite unlink_parent by assumption. apply Hns. }
      destruct (IH _ _ _ _ _ Hg Hgp Hns2 Hr) as [Hcp Hoth].
      apply Hm3.
      * intros y Hy. destruct (Nat.eq_dec y p) as [->|Hyp]; [right; assumption|].
        destruct (Hoth y Hyp) as [He|[_ He]]; auto.
      * destruct (Hoth c (not_eq_sym Hpc)) as [He|[_ He]]; [|assumption].
        rewrite He. unfold m2. now apply unlink_cur_c.
    + inversion H; subst m'. apply Hm3; [auto|]. unfold m2. now apply unlink_cur_c.
Qed.

(* ------------------------------------------------------------------ well-formedness *)

Section UnlinkWF.
  Variables (E : nat -> Prop) (m : nmap) (p c : nat) (w : lst).
  Hypothesis Hwf : WFx E m.
  Hypothesis HEc : ~ E c.
  Hypothesis Hpar : parent (m c) = Some p.

  Let Hpc : p <> c.
  Proof. intro; subst. now apply (wf_noself _ _ Hwf c). Qed.

  Lemma unlink_in_wf q l x :
    In x (get_list (unlink m p c w q) l) <-> In x (get_list (m q) l) /\ x <> c.
  Proof.
    rewrite unlink_in by exact Hpc. split.
    - intros [Hin Hn]. split; [assumption|]. intro; subst x.
      destruct (wf_in _ _ Hwf _ _ _ Hin) as [Hp Hc]. apply Hn. rewrite Hpar in Hp. split; [congruence|auto].
    - intros [Hin Hn]. split; [assumption|]. intros (_&_&?). contradiction.
  Qed.

  Lemma unlink_nodup q l : NoDup (get_list (unlink m p c w q) l).
  Proof.
    destruct (Nat.eq_dec q p) as [->|Hq].
    - destruct (lst_eq_dec l (cur (m c))) as [->|Hl].
      + destruct (lst_eq_dec (cur (m c)) LNone) as [Hn|Hn].
        * rewrite Hn. simpl. constructor.
        * rewrite unlink_list_p_same by (exact Hpc || assumption). apply remove_id_nodup. apply (wf_nodup _ _ Hwf).
      + rewrite unlink_list_p_other by (exact Hpc || assumption). apply (wf_nodup _ _ Hwf).
    - rewrite unlink_list_o by (exact Hpc || assumption). apply (wf_nodup _ _ Hwf).
  Qed.

  (* after unlinking, c is in transit *)
  Lemma unlink_WFx_recalc : w = LRecalc -> WFx (fun y => E y \/ y = c) (unlink m p c w).
  Proof.
    intro Hw. constructor.
    - intros q x l Hin. apply unlink_in_wf in Hin. destruct Hin as [Hin Hx].
      destruct (wf_in _ _ Hwf _ _ _ Hin) as [H1 H2].
      rewrite unlink_parent by exact Hpc. rewrite unlink_cur_o by (exact Hpc || assumption). auto.
    - intros x q Hx Hp Hc. assert (Hxc : x <> c) by tauto. assert (HEx : ~ E x) by tauto.
      rewrite unlink_parent in Hp by exact Hpc. rewrite unlink_cur_o in * by (exact Hpc || assumption).
      apply unlink_in_wf. split; [|assumption]. now apply (wf_par _ _ Hwf).
    - intros x Hp. rewrite unlink_parent in Hp by exact Hpc.
      destruct (Nat.eq_dec x c) as [->|Hxc]; [congruence|].
      rewrite unlink_cur_o by (exact Hpc || assumption). now apply (wf_root _ _ Hwf).
    - apply unlink_nodup.
    - intros x. rewrite unlink_parent by exact Hpc. apply (wf_noself _ _ Hwf).
    - intros e [He| ->].
      + assert (Hec : e <> c) by congruence. destruct (wf_exc _ _ Hwf e He) as [H1 H2]. split.
        * now rewrite unlink_cur_o by (exact Hpc || assumption).
        * intros q l Hin. apply unlink_in_wf in Hin. now apply (H2 q l).
      + split; [rewrite unlink_cur_c by exact Hpc; assumption|].
        intros q l Hin. apply unlink_in_wf in Hin. tauto.
  Qed.

  (* linking c on list w of p (w is a real list) restores well-formedness *)
  Lemma link_WFx m2 L :
    w <> LNone ->
    (forall q l x, In x (get_list (m2 q) l) <-> In x (get_list (m q) l) /\ x <> c) ->
    (forall q l, NoDup (get_list (m2 q) l)) ->
    (forall y, parent (m2 y) = parent (m y)) ->
    cur (m2 c) = w -> (forall y, y <> c -> cur (m2 y) = cur (m y)) ->
    (forall x, In x L <-> x = c \/ In x (get_list (m2 p) w)) -> NoDup L ->
    WFx E (upd m2 p (set_list (m2 p) w L)).
  Proof.
    intros Hw Hin2 Hnd2 Hpar2 Hcc Hco' HL HLnd.
    set (m' := upd m2 p (set_list (m2 p) w L)).
    assert (Hpar' : forall y, parent (m' y) = parent (m y)).
    { intro y. unfold m'. destruct (upd_cases m2 p (set_list (m2 p) w L) y) as [[-> ->]|[_ ->]];
      [rewrite set_list_parent|]; apply Hpar2. }
    assert (Hcur' : forall y, cur (m' y) = cur (m2 y)).
    { intro y. unfold m'. destruct (upd_cases m2 p (set_list (m2 p) w L) y) as [[-> ->]|[_ ->]];
      [apply set_list_cur|reflexivity]. }
    assert (Hin' : forall q l x, In x (get_list (m' q) l) <->
                                 (q = p /\ l = w /\ x = c) \/ (In x (get_list (m q) l) /\ x <> c)).
    { intros q l x. unfold m'.
      destruct (upd_cases m2 p (set_list (m2 p) w L) q) as [[-> ->]|[Hq ->]].
      - destruct (lst_eq_dec l w) as [->|Hl].
        + rewrite get_set_list_same by assumption. rewrite HL, Hin2.
          split; [intros [->|H]; auto|intros [(_&_&->)|H]; auto].
        + rewrite get_set_list_other by congruence. rewrite Hin2. intuition.
      - rewrite Hin2. intuition. }
    constructor.
    - intros q x l Hin. apply Hin' in Hin. rewrite Hpar', Hcur'.
      destruct Hin as [(->&->&->)|[Hin Hx]]; [auto|].
      rewrite Hco' by assumption. now apply (wf_in _ _ Hwf).
    - intros x q HEx Hp Hc. rewrite Hpar' in Hp. rewrite Hcur' in *. apply Hin'.
      destruct (Nat.eq_dec x c) as [->|Hxc].
      + left. rewrite Hcc. split; [congruence|auto].
      + right. rewrite Hco' in * by assumption. split; [|assumption]. now apply (wf_par _ _ Hwf).
    - intros x Hp. rewrite Hpar' in Hp. rewrite Hcur'.
      destruct (Nat.eq_dec x c) as [->|Hxc]; [congruence|]. rewrite Hco' by assumption. now apply (wf_root _ _ Hwf).
    - intros q l. unfold m'.
      destruct (upd_cases m2 p (set_list (m2 p) w L) q) as [[-> ->]|[Hq ->]]; [|apply Hnd2].
      destruct (lst_eq_dec l w) as [->|Hl].
      + now rewrite get_set_list_same by assumption.
      + rewrite get_set_list_other by congruence. apply Hnd2.
    - intros x. rewrite Hpar'. apply (wf_noself _ _ Hwf).
    - intros e He. assert (Hec : e <> c) by congruence. destruct (wf_exc _ _ Hwf e He) as [H1 H2]. split.
      + rewrite Hcur', Hco' by assumption. assumption.
      + intros q l Hin. apply Hin' in Hin. destruct Hin as [(_&_&?)|[Hin _]]; [contradiction|]. now apply (H2 q l).
  Qed.

  Lemma unlink_WFx_none : w = LNone -> WFx E (unlink m p c w).
  Proof.
    intro Hw. constructor.
    - intros q x l Hin. apply unlink_in_wf in Hin. destruct Hin as [Hin Hx].
      destruct (wf_in _ _ Hwf _ _ _ Hin) as [H1 H2].
      rewrite unlink_parent by exact Hpc. rewrite unlink_cur_o by (exact Hpc || assumption). auto.
    - intros x q Hx Hp Hc. rewrite unlink_parent in Hp by exact Hpc.
      destruct (Nat.eq_dec x c) as [->|Hxc]; [rewrite unlink_cur_c in Hc by exact Hpc; congruence|].
      rewrite unlink_cur_o in * by (exact Hpc || assumption).
      apply unlink_in_wf. split; [|assumption]. now apply (wf_par _ _ Hwf).
    - intros x Hp. rewrite unlink_parent in Hp by exact Hpc.
      destruct (Nat.eq_dec x c) as [->|Hxc]; [congruence|].
      rewrite unlink_cur_o by (exact Hpc || assumption). now apply (wf_root _ _ Hwf).
    - apply unlink_nodup.
    - intros x. rewrite unlink_parent by exact Hpc. apply (wf_noself _ _ Hwf).
    - intros e He. assert (Hec : e <> c) by congruence. destruct (wf_exc _ _ Hwf e He) as [H1 H2]. split.
      + now rewrite unlink_cur_o by (exact Hpc || assumption).
      + intros q l Hin. apply unlink_in_wf in Hin. now apply (H2 q l).
  Qed.
End UnlinkWF.

Lemma resched_WFx f : forall E m p c w m',
  WFx E m -> parent (m c) = Some p -> (E c -> w = LRecalc) ->
  resched f m p c w = Some m' -> WFx E m'.
Proof.
  induction f as [|f IH]; intros E m p c w m' Hwf Hpar HEc H; [discriminate|].
  assert (Hpc : p <> c) by (intro; subst; now apply (wf_noself _ _ Hwf c)).
  rewrite resched_unfold in H.
  destruct (lst_eqb w (cur (m c)) && negb (lst_eqb (cur (m c)) LSched)) eqn:Hno.
  { inversion H; subst. assumption. }
  assert (HnE : ~ E c).
  { intro He. rewrite (HEc He) in Hno. destruct (wf_exc _ _ Hwf c He) as [Hc _]. rewrite Hc in Hno. discriminate. }
  cbv zeta in H.
  destruct w.
  - inversion H; subst. now apply unlink_WFx_none.
  - inversion H; subst.
    apply (link_WFx E m p c LSched Hwf HnE Hpar (unlink m p c LSched)); try discriminate.
    + intros q l x. apply (unlink_in_wf E m p c LSched Hwf Hpar).
    + intros q l. apply (unlink_nodup E m p c _ Hwf Hpar).
    + intro y. now apply unlink_parent.
    + now apply unlink_cur_c.
    + intros y Hy. now apply unlink_cur_o.
    + intro x. apply ins_sched_in.
    + apply ins_sched_nodup; [|apply (unlink_nodup E m p c LSched Hwf Hpar p LSched)].
      intro Hin. apply (unlink_in_wf E m p c LSched Hwf Hpar p LSched) in Hin. tauto.
  - inversion H; subst.
    apply (link_WFx E m p c LUnsched Hwf HnE Hpar (unlink m p c LUnsched)); try discriminate.
    + intros q l x. apply (unlink_in_wf E m p c LUnsched Hwf Hpar).
    + intros q l. apply (unlink_nodup E m p c _ Hwf Hpar).
    + intro y. now apply unlink_parent.
    + now apply unlink_cur_c.
    + intros y Hy. now apply unlink_cur_o.
    + intro x. simpl. intuition.
    + constructor; [|apply (unlink_nodup E m p c LUnsched Hwf Hpar p LUnsched)].
      intro Hin. apply (unlink_in_wf E m p c LUnsched Hwf Hpar p LUnsched) in Hin. tauto.
  - set (m2 := unlink m p c LRecalc) in *.
    pose proof (unlink_WFx_recalc E m p c LRecalc Hwf HnE Hpar eq_refl) as Hwf2. fold m2 in Hwf2.
    set (E' := fun y => E y \/ y = c) in *.
    assert (Hm3 : exists m3, WFx E' m3 /\ m' = upd m3 p (set_lr (m3 p) (c :: lr (m3 p))) /\ same_scalars m m3).
    { destruct (parent (m2 p)) as [g|] eqn:Hg.
      - destruct (resched f m2 g p LRecalc) as [m3|] eqn:Hr; [|discriminate].
        exists m3. inversion H; subst m'. split; [|split; [reflexivity|]].
        + apply (IH E' m2 g p LRecalc m3 Hwf2 Hg); auto.
        + eapply same_scalars_trans; [apply same_scalars_unlink; exact Hpc|].
          apply (resched_scalars f m2 g p LRecalc m3 Hg); [|apply (wf_noself _ _ Hwf2)|exact Hr].
          intro; subst g. now apply (wf_noself _ _ Hwf2 p).
      - exists m2. inversion H; subst m'. split; [assumption|split; [reflexivity|]].
        apply same_scalars_unlink; exact Hpc. }
    destruct Hm3 as (m3 & Hwf3 & -> & Hsc).
    assert (Hc3 : cur (m3 c) = LRecalc /\ forall q l, ~ In c (get_list (m3 q) l)).
    { apply (wf_exc _ _ Hwf3 c). right. reflexivity. }
    destruct Hc3 as [Hcc Hcl].
    set (m' := upd m3 p (set_lr (m3 p) (c :: lr (m3 p)))).
    assert (Hpar' : forall y, parent (m' y) = parent (m3 y)).
    { intro y. unfold m'. destruct (upd_cases m3 p (set_lr (m3 p) (c :: lr (m3 p))) y) as [[-> ->]|[_ ->]]; reflexivity. }
    assert (Hcur' : forall y, cur (m' y) = cur (m3 y)).
    { intro y. unfold m'. destruct (upd_cases m3 p (set_lr (m3 p) (c :: lr (m3 p))) y) as [[-> ->]|[_ ->]]; reflexivity. }
    assert (Hin' : forall q l x, In x (get_list (m' q) l) <->
                                 (q = p /\ l = LRecalc /\ x = c) \/ In x (get_list (m3 q) l)).
    { intros q l x. unfold m'.
      destruct (upd_cases m3 p (set_lr (m3 p) (c :: lr (m3 p))) q) as [[-> ->]|[Hq ->]].
      - destruct l; simpl; intuition; try discriminate.
      - intuition. }
    assert (Hpar3 : parent (m3 c) = Some p) by (destruct (Hsc c) as [-> _]; assumption).
    constructor.
    + intros q x l Hin. apply Hin' in Hin. rewrite Hpar', Hcur'.
      destruct Hin as [(->&->&->)|Hin]; [auto|]. now apply (wf_in _ _ Hwf3).
    + intros x q HEx Hp Hc. rewrite Hpar' in Hp. rewrite Hcur' in *. apply Hin'.
      destruct (Nat.eq_dec x c) as [->|Hxc].
      * left. rewrite Hcc. split; [congruence|auto].
      * right. apply (wf_par _ _ Hwf3); auto. unfold E'. tauto.
    + intros x Hp. rewrite Hpar' in Hp. rewrite Hcur'. now apply (wf_root _ _ Hwf3).
    + intros q l. unfold m'.
      destruct (upd_cases m3 p (set_lr (m3 p) (c :: lr (m3 p))) q) as [[-> ->]|[Hq ->]]; [|apply (wf_nodup _ _ Hwf3)].
      destruct l; simpl; try apply (wf_nodup _ _ Hwf3 p LNone);
        try apply (wf_nodup _ _ Hwf3 p LSched); try apply (wf_nodup _ _ Hwf3 p LUnsched).
      constructor; [apply (Hcl p LRecalc)|apply (wf_nodup _ _ Hwf3 p LRecalc)].
    + intros x. rewrite Hpar'. apply (wf_noself _ _ Hwf3).
    + intros e He. assert (Hec : e <> c) by congruence.
      destruct (wf_exc _ _ Hwf3 e) as [H1 H2]; [left; assumption|]. split.
      * now rewrite Hcur'.
      * intros q l Hin. apply Hin' in Hin. destruct Hin as [(_&_&?)|Hin]; [contradiction|]. now apply (H2 q l).
Qed.

(* ------------------------------------------------------------------ K5: sortedness *)

Lemma K5_same_agg_ls m m' :
  (forall y, agg (m' y) = agg (m y)) -> (forall q, ls (m' q) = ls (m q)) -> K5 m -> K5 m'.
Proof.
  intros Ha Hl Hk q. rewrite Hl. apply sorted_ext with (m := m); auto.
Qed.

Lemma K5_unlink m p c w : p <> c -> K5 m -> K5 (unlink m p c w).
Proof.
  intros Hpc Hk q.
  apply sorted_ext with (m := m); [intros; now apply unlink_agg|].
  change (sorted m (get_list (unlink m p c w q) LSched)).
  destruct (Nat.eq_dec q p) as [->|Hq].
  - destruct (lst_eq_dec LSched (cur (m c))) as [He|He].
    + rewrite He at 1. rewrite unlink_list_p_same by (assumption || congruence).
      rewrite <- He. apply sorted_remove. apply Hk.
    + rewrite unlink_list_p_other by assumption. apply Hk.
  - rewrite unlink_list_o by assumption. apply Hk.
Qed.

Lemma K5_upd_other_list m x l v : l <> LSched -> K5 m -> K5 (upd m x (set_list (m x) l v)).
Proof.
  intros Hl Hk. apply K5_same_agg_ls with (m := m); [| |assumption].
  - intro y. destruct (upd_cases m x (set_list (m x) l v) y) as [[-> ->]|[_ ->]]; [apply set_list_agg|reflexivity].
  - intro q. destruct (upd_cases m x (set_list (m x) l v) q) as [[-> ->]|[_ ->]]; [|reflexivity].
    change (get_list (set_list (m x) l v) LSched = get_list (m x) LSched). now apply get_set_list_other.
Qed.

Lemma resched_K5 f : forall m p c w m',
  parent (m c) = Some p -> p <> c -> (forall x, parent (m x) <> Some x) ->
  K5 m -> resched f m p c w = Some m' -> K5 m'.
Proof.
  induction f as [|f IH]; intros m p c w m' Hpar Hpc Hns Hk H; [discriminate|].
  rewrite resched_unfold in H.
  destruct (lst_eqb w (cur (m c)) && negb (lst_eqb (cur (m c)) LSched)).
  { inversion H; subst. assumption. }
  cbv zeta in H. pose proof (K5_unlink m p c w Hpc Hk) as Hk2.
  destruct w.
  - inversion H; subst. assumption.
  - inversion H; subst. set (m2 := unlink m p c LSched) in *.
    intro q. destruct (upd_cases m2 p (set_ls (m2 p) (ins_sched m2 c (ls (m2 p)))) q) as [[-> ->]|[Hq ->]].
    + simpl. apply sorted_ext with (m := m2).
      * intros x _. destruct (upd_cases m2 p (set_ls (m2 p) (ins_sched m2 c (ls (m2 p)))) x) as [[-> ->]|[_ ->]]; reflexivity.
      * apply ins_sched_sorted. apply Hk2.
    + apply sorted_ext with (m := m2); [|apply Hk2].
      intros x _. destruct (upd_cases m2 p (set_ls (m2 p) (ins_sched m2 c (ls (m2 p)))) x) as [[-> ->]|[_ ->]]; reflexivity.
  - inversion H; subst. apply (K5_upd_other_list _ p LUnsched); [discriminate|assumption].
  - set (m2 := unlink m p c LRecalc) in *.
    destruct (parent (m2 p)) as [g|] eqn:Hg.
    + destruct (resched f m2 g p LRecalc) as [m3|] eqn:Hr; [|discriminate]. inversion H; subst.
      apply (K5_upd_other_list _ p LRecalc); [discriminate|].
      apply (IH m2 g p LRecalc m3 Hg); auto.
      * intro; subst g. unfold m2 in Hg. rewrite unlink_parent in Hg by assumption. now apply (Hns p).
      * intro x. unfold m2. rewrite unlink_parent by assumption. apply Hns.
    + inversion H; subst. apply (K5_upd_other_list _ p LRecalc); [discriminate|assumption].
Qed.

(* ------------------------------------------------------------------ K1 in needs-recalc mode *)

Lemma resched_R_K1 f : forall E m p c m',
  WFx E m -> parent (m c) = Some p -> K1 m ->
  resched f m p c LRecalc = Some m' -> K1 m'.
Proof.
  induction f as [|f IH]; intros E m p c m' Hwf Hpar Hk H; [discriminate|].
  assert (Hpc : p <> c) by (intro; subst; now apply (wf_noself _ _ Hwf c)).
  rewrite resched_unfold in H.
  destruct (lst_eqb LRecalc (cur (m c)) && negb (lst_eqb (cur (m c)) LSched)) eqn:Hno.
  { inversion H; subst. assumption. }
  cbv zeta in H.
  assert (HnE : ~ E c).
  { intro He. destruct (wf_exc _ _ Hwf c He) as [Hc _]. rewrite Hc in Hno. discriminate. }
  set (m2 := unlink m p c LRecalc) in *.
  assert (Hk2 : K1 m2).
  { intros x Hx. destruct (Nat.eq_dec x c) as [->|Hxc].
    - unfold m2. rewrite unlink_cur_c by assumption. left; reflexivity.
    - unfold m2. rewrite unlink_cur_o by assumption. apply Hk.
      intro Hl. apply Hx. change (get_list (m2 x) LRecalc = []).
      destruct (lr (m x)) eqn:Hlr; [|discriminate].
      destruct (get_list (m2 x) LRecalc) as [|a t] eqn:Hg; [reflexivity|].
      assert (Hin : In a (get_list (m2 x) LRecalc)) by (rewrite Hg; left; reflexivity).
      unfold m2 in Hin. apply unlink_in in Hin; [|assumption]. destruct Hin as [Hin _].
      change (In a (lr (m x))) in Hin. rewrite Hlr in Hin. destruct Hin. }
  assert (Hm3 : exists m3, K1 m3 /\ rn (cur (m3 p)) /\ m' = upd m3 p (set_lr (m3 p) (c :: lr (m3 p)))).
  { pose proof (unlink_WFx_recalc E m p c LRecalc Hwf HnE Hpar eq_refl) as Hwf2. fold m2 in Hwf2.
    destruct (parent (m2 p)) as [g|] eqn:Hg.
    - destruct (resched f m2 g p LRecalc) as [m3|] eqn:Hr; [|discriminate]. inversion H; subst m'.
      exists m3. split; [|split; [|reflexivity]].
      + apply (IH _ m2 g p m3 Hwf2 Hg Hk2 Hr).
      + left. apply (resched_cur f m2 g p LRecalc m3 Hg); [|apply (wf_noself _ _ Hwf2)|exact Hr].
        intro; subst g. now apply (wf_noself _ _ Hwf2 p).
    - inversion H; subst m'. exists m2. split; [assumption|split; [|reflexivity]].
      right. now apply (wf_root _ _ Hwf2). }
  destruct Hm3 as (m3 & Hk3 & Hrn & ->).
  intros x Hx. destruct (upd_cases m3 p (set_lr (m3 p) (c :: lr (m3 p))) x) as [[-> Hu]|[Hne Hu]]; rewrite Hu in *.
  - exact Hrn.
  - now apply Hk3.
Qed.

(* ------------------------------------------------------------------ K3 *)

Lemma K3at_upd_other_list m x l v y :
  l <> LSched -> K3at m y -> K3at (upd m x (set_list (m x) l v)) y.
Proof.
  intros Hl Hk. set (m' := upd m x (set_list (m x) l v)).
  assert (Hsc : same_scalars m m') by apply same_scalars_upd_list.
  assert (Hls : forall q, ls (m' q) = ls (m q)).
  { intro q. unfold m'. destruct (upd_cases m x (set_list (m x) l v) q) as [[-> ->]|[_ ->]]; [|reflexivity].
    change (get_list (set_list (m x) l v) LSched = get_list (m x) LSched). now apply get_set_list_other. }
  assert (Hcur : forall q, cur (m' q) = cur (m q)).
  { intro q. unfold m'. destruct (upd_cases m x (set_list (m x) l v) q) as [[-> ->]|[_ ->]]; [apply set_list_cur|reflexivity]. }
  destruct (Hsc y) as (_&Ha&Hs&Hv&_).
  apply K3at_ext with (m := m); auto.
  apply fsa_ext; [apply Hls|]. intro z. now destruct (Hsc z) as (_&?&_).
Qed.

(* unlinking c from p leaves K3 intact everywhere except possibly at p (when c headed p's
   scheduled list) and at c (whose _curList changes) *)
Lemma K3at_unlink m p c w y :
  p <> c -> y <> c -> (y <> p \/ hd_error (ls (m p)) <> Some c) ->
  K3at m y -> K3at (unlink m p c w) y.
Proof.
  intros Hpc Hyc Hyp Hk.
  apply K3at_ext with (m := m); auto using unlink_valid, unlink_cur_o, unlink_agg, unlink_sched.
  apply fsa_hd; [|intro z; now apply unlink_agg].
  change (hd_error (get_list (unlink m p c w y) LSched) = hd_error (get_list (m y) LSched)).
  destruct (Nat.eq_dec y p) as [->|Hne].
  - destruct Hyp as [?|Hhd]; [congruence|].
    destruct (lst_eq_dec LSched (cur (m c))) as [He|He].
    + rewrite He at 1. rewrite unlink_list_p_same by (assumption || congruence). rewrite <- He.
      change (get_list (m p) LSched) with (ls (m p)) in *.
      destruct (ls (m p)) as [|h t]; [reflexivity|].
      simpl in Hhd. assert (h <> c) by congruence. now rewrite remove_id_keeps_head.
    + now rewrite unlink_list_p_other.
  - now rewrite unlink_list_o.
Qed.

Lemma resched_R_K3 f : forall E m p c m',
  WFx E m -> parent (m c) = Some p -> (forall y, y <> c -> K3at m y) ->
  resched f m p c LRecalc = Some m' -> K3 m'.
Proof.
  induction f as [|f IH]; intros E m p c m' Hwf Hpar Hk H; [discriminate|].
  assert (Hpc : p <> c) by (intro; subst; now apply (wf_noself _ _ Hwf c)).
  rewrite resched_unfold in H.
  destruct (lst_eqb LRecalc (cur (m c)) && negb (lst_eqb (cur (m c)) LSched)) eqn:Hno.
  { inversion H; subst. apply K3_all. intro y. destruct (Nat.eq_dec y c) as [->|Hy]; [|auto].
    apply andb_prop in Hno. destruct Hno as [Hno _]. apply lst_eqb_eq in Hno.
    intros _ Hsu. rewrite <- Hno in Hsu. destruct Hsu; discriminate. }
  cbv zeta in H.
  assert (HnE : ~ E c).
  { intro He. destruct (wf_exc _ _ Hwf c He) as [Hc _]. rewrite Hc in Hno. discriminate. }
  set (m2 := unlink m p c LRecalc) in *.
  assert (Hk2 : forall y, y <> p -> K3at m2 y).
  { intros y Hy. destruct (Nat.eq_dec y c) as [->|Hyc].
    - intros _ Hsu. unfold m2 in Hsu. rewrite unlink_cur_c in Hsu by assumption. destruct Hsu; discriminate.
    - unfold m2. apply K3at_unlink; auto. }
  pose proof (unlink_WFx_recalc E m p c LRecalc Hwf HnE Hpar eq_refl) as Hwf2. fold m2 in Hwf2.
  assert (Hm3 : exists m3, K3 m3 /\ m' = upd m3 p (set_lr (m3 p) (c :: lr (m3 p)))).
  { destruct (parent (m2 p)) as [g|] eqn:Hg.
    - destruct (resched f m2 g p LRecalc) as [m3|] eqn:Hr; [|discriminate]. inversion H; subst m'.
      exists m3. split; [|reflexivity]. apply (IH _ m2 g p m3 Hwf2 Hg Hk2 Hr).
    - inversion H; subst m'. exists m2. split; [|reflexivity]. apply K3_all. intro y.
      destruct (Nat.eq_dec y p) as [->|Hy]; [|auto].
      intros _ Hsu. rewrite (wf_root _ _ Hwf2 p Hg) in Hsu. destruct Hsu; discriminate. }
  destruct Hm3 as (m3 & Hk3 & ->). apply K3_all. intro y.
  apply (K3at_upd_other_list m3 p LRecalc); [discriminate|]. now apply K3_all.
Qed.

(* ------------------------------------------------------------------ generic preservation from "scalars kept, _curList kept or moved to needs-recalc/none" *)

Definition cur_rel (m m' : nmap) : Prop := forall y, cur (m' y) = cur (m y) \/ rn (cur (m' y)).

Lemma K4_mono m m' : same_scalars m m' -> cur_rel m m' -> K4 m -> K4 m'.
Proof.
  intros Hsc Hc Hk x. destruct (Hsc x) as (_&Ha&_). rewrite Ha.
  destruct (Hc x) as [He|[He|He]]; rewrite He; [apply Hk| |]; split; discriminate.
Qed.

Lemma K6_mono m m' : same_scalars m m' -> K6 m -> K6 m'.
Proof. intros Hsc Hk x. destruct (Hsc x) as (_&Ha&Hs&_). rewrite Ha, Hs. apply Hk. Qed.

Definition K2at (G : nat -> Prop) (m : nmap) (x : nat) : Prop := ~ G x -> valid (m x) = false -> rn (cur (m x)).

Lemma K2_mono G m m' c :
  same_scalars m m' -> cur_rel m m' -> rn (cur (m' c)) -> (forall y, y <> c -> K2at G m y) -> K2 G m'.
Proof.
  intros Hsc Hc Hcc Hk x HG Hv. destruct (Nat.eq_dec x c) as [->|Hx]; [assumption|].
  destruct (Hsc x) as (_&_&_&Hvx&_). rewrite Hvx in Hv.
  destruct (Hc x) as [He|He]; [rewrite He; now apply Hk|assumption].
Qed.

Lemma acyc_mono m m' : same_scalars m m' -> acyc m -> acyc m'.
Proof. intros Hsc. apply acyc_ext. intro y. now destruct (Hsc y) as (?&_). Qed.

Lemma dead_inert_mono m m' : same_scalars m m' -> dead_inert m -> dead_inert m'.
Proof.
  intros Hsc Hd x Hx. destruct (Hsc x) as (Hp&_&_&_&Ha&_). rewrite Ha in Hx. destruct (Hd x Hx) as [H1 H2].
  split; [congruence|]. intros y. destruct (Hsc y) as (Hpy&_). rewrite Hpy. apply H2.
Qed.

Definition listed_except (c : nat) (m : nmap) : Prop :=
  forall y q, y <> c -> parent (m y) = Some q -> cur (m y) <> LNone.

Lemma listed_is_except m c : listed m -> listed_except c m.
Proof. intros H y q _. apply H. Qed.

Lemma K1_unlink m p c w : p <> c -> rn w -> K1 m -> K1 (unlink m p c w).
Proof.
  intros Hpc Hw Hk x Hx. destruct (Nat.eq_dec x c) as [->|Hxc].
  - now rewrite unlink_cur_c.
  - rewrite unlink_cur_o by assumption. apply Hk.
    intro Hl. apply Hx. change (get_list (unlink m p c w x) LRecalc = []).
    destruct (get_list (unlink m p c w x) LRecalc) as [|a t] eqn:Hg; [reflexivity|].
    assert (Hin : In a (get_list (unlink m p c w x) LRecalc)) by (rewrite Hg; left; reflexivity).
    apply unlink_in in Hin; [|assumption]. destruct Hin as [Hin _].
    change (In a (lr (m x))) in Hin. rewrite Hl in Hin. destruct Hin.
Qed.

Lemma cur_rel_unlink m p c w : p <> c -> rn w -> cur_rel m (unlink m p c w).
Proof.
  intros Hpc Hw y. destruct (Nat.eq_dec y c) as [->|Hy].
  - right. now rewrite unlink_cur_c.
  - left. now apply unlink_cur_o.
Qed.

Lemma resched_cur_rel f m p c w m' :
  parent (m c) = Some p -> p <> c -> (forall x, parent (m x) <> Some x) -> rn w ->
  resched f m p c w = Some m' -> cur_rel m m'.
Proof.
  intros Hpar Hpc Hns Hw H y. destruct (resched_cur f m p c w m' Hpar Hpc Hns H) as [Hc Ho].
  destruct (Nat.eq_dec y c) as [->|Hy]; [right; now rewrite Hc|].
  destruct (Ho y Hy) as [He|[_ He]]; [left; assumption|right; left; assumption].
Qed.

(* ------------------------------------------------------------------ moving a child to the needs-recalc list keeps the core invariants *)

Lemma resched_R_Core f m p c m' :
  Core m -> parent (m c) = Some p -> resched f m p c LRecalc = Some m' -> Core m'.
Proof.
  intros Hc Hpar H. destruct Hc as [Hwf Hk1 Hk4 Hk5 Hk6 Hac Hd].
  assert (Hns : forall x, parent (m x) <> Some x) by apply (wf_noself _ _ Hwf).
  assert (Hpc : p <> c) by (intro; subst; now apply (Hns c)).
  pose proof (resched_scalars f m p c LRecalc m' Hpar Hpc Hns H) as Hsc.
  assert (Hcr : cur_rel m m') by (eapply resched_cur_rel; eauto; left; reflexivity).
  constructor.
  - eapply resched_WFx; eauto; intros [].
  - eapply resched_R_K1; eauto.
  - eapply K4_mono; eauto.
  - eapply resched_K5; eauto.
  - eapply K6_mono; eauto.
  - eapply acyc_mono; eauto.
  - eapply dead_inert_mono; eauto.
Qed.

Lemma resched_R_K2 f G m p c m' :
  WF m -> parent (m c) = Some p -> (forall y, y <> c -> K2at G m y) ->
  resched f m p c LRecalc = Some m' -> K2 G m'.
Proof.
  intros Hwf Hpar Hk H.
  assert (Hns : forall x, parent (m x) <> Some x) by apply (wf_noself _ _ Hwf).
  assert (Hpc : p <> c) by (intro; subst; now apply (Hns c)).
  pose proof (resched_scalars f m p c LRecalc m' Hpar Hpc Hns H) as Hsc.
  assert (Hcr : cur_rel m m') by (eapply resched_cur_rel; eauto; left; reflexivity).
  apply (K2_mono G m m' c); auto.
  left. apply (resched_cur f m p c LRecalc m' Hpar Hpc Hns H).
Qed.

Lemma resched_R_listed f m p c m' :
  WF m -> parent (m c) = Some p -> listed_except c m ->
  resched f m p c LRecalc = Some m' -> listed m'.
Proof.
  intros Hwf Hpar Hl H.
  assert (Hns : forall x, parent (m x) <> Some x) by apply (wf_noself _ _ Hwf).
  assert (Hpc : p <> c) by (intro; subst; now apply (Hns c)).
  pose proof (resched_scalars f m p c LRecalc m' Hpar Hpc Hns H) as Hsc.
  destruct (resched_cur f m p c LRecalc m' Hpar Hpc Hns H) as [Hc Ho].
  intros y q Hq. destruct (Hsc y) as (Hpy&_). rewrite Hpy in Hq.
  destruct (Nat.eq_dec y c) as [->|Hy]; [rewrite Hc; discriminate|].
  destruct (Ho y Hy) as [He|[_ He]]; rewrite He; [eapply Hl; eauto|discriminate].
Qed.

(* scheduled / unscheduled lists never gain members unless something is moved onto them *)
Lemma resched_su_shrink f : forall m p c w m',
  parent (m c) = Some p -> p <> c -> (forall x, parent (m x) <> Some x) -> rn w ->
  resched f m p c w = Some m' ->
  forall q l y, su l -> In y (get_list (m' q) l) -> In y (get_list (m q) l).
Proof.
  induction f as [|f IH]; intros m p c w m' Hpar Hpc Hns Hw H q l y Hl Hin; [discriminate|].
  rewrite resched_unfold in H.
  destruct (lst_eqb w (cur (m c)) && negb (lst_eqb (cur (m c)) LSched)).
  { inversion H; subst. assumption. }
  cbv zeta in H.
  destruct Hw as [-> | ->].
  - set (m2 := unlink m p c LRecalc) in *.
    assert (Hm3 : exists m3, m' = upd m3 p (set_lr (m3 p) (c :: lr (m3 p))) /\
                             forall q l y, su l -> In y (get_list (m3 q) l) -> In y (get_list (m2 q) l)).
    { destruct (parent (m2 p)) as [g|] eqn:Hg.
      - destruct (resched f m2 g p LRecalc) as [m3|] eqn:Hr; [|discriminate]. inversion H; subst m'.
        exists m3. split; [reflexivity|]. apply (IH m2 g p LRecalc m3 Hg); auto.
        + intro; subst g. unfold m2 in Hg. rewrite unlink_parent in Hg by assumption. now apply (Hns p).
        + intro x. unfold m2. rewrite unlink_parent by assumption. apply Hns.
        + left; reflexivity.
      - inversion H; subst m'. exists m2. split; [reflexivity|auto]. }
    destruct Hm3 as (m3 & -> & Hm3).
    assert (Hin3 : In y (get_list (m3 q) l)).
    { destruct (upd_cases m3 p (set_lr (m3 p) (c :: lr (m3 p))) q) as [[-> Hu]|[Hne Hu]]; rewrite Hu in Hin; [|assumption].
      destruct Hl as [-> | ->]; exact Hin. }
    apply Hm3 in Hin3; [|assumption]. unfold m2 in Hin3. apply unlink_in in Hin3; tauto.
  - inversion H; subst. apply unlink_in in Hin; tauto.
Qed.

(* moving c to the needs-recalc list touches the _curList of c and of (some) ancestors of p only *)
Lemma resched_R_cur_frame f : forall m p c m',
  parent (m c) = Some p -> p <> c -> (forall x, parent (m x) <> Some x) ->
  resched f m p c LRecalc = Some m' ->
  forall z, z <> c -> ~ desc m z p -> cur (m' z) = cur (m z).
Proof.
  induction f as [|f IH]; intros m p c m' Hpar Hpc Hns H z Hzc Hzp; [discriminate|].
  rewrite resched_unfold in H.
  destruct (lst_eqb LRecalc (cur (m c)) && negb (lst_eqb (cur (m c)) LSched)).
  { inversion H; subst. reflexivity. }
  cbv zeta in H. set (m2 := unlink m p c LRecalc) in *.
  assert (Hzp' : z <> p) by (intro; subst; apply Hzp; constructor).
  assert (Hm3 : exists m3, m' = upd m3 p (set_lr (m3 p) (c :: lr (m3 p))) /\ cur (m3 z) = cur (m2 z)).
  { destruct (parent (m2 p)) as [g|] eqn:Hg.
    - destruct (resched f m2 g p LRecalc) as [m3|] eqn:Hr; [|discriminate]. inversion H; subst m'.
      exists m3. split; [reflexivity|].
      assert (Hg' : parent (m p) = Some g) by (unfold m2 in Hg; now rewrite unlink_parent in Hg).
      apply (IH m2 g p m3 Hg); auto.
      + intro; subst g. now apply (Hns p).
      + intro x. unfold m2. rewrite unlink_parent by assumption. apply Hns.
      + intro Hd. apply Hzp. eapply desc_child; [|exact Hg'].
        apply (desc_parent_ext m2 m); [|assumption]. intro y. unfold m2. symmetry. now apply unlink_parent.
    - inversion H; subst m'. exists m2. auto. }
  destruct Hm3 as (m3 & -> & Hc3). rewrite upd_other by assumption. rewrite Hc3. unfold m2. now apply unlink_cur_o.
Qed.
