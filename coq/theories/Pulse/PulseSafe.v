(* C20 -- GetPulseTime() callbacks that DO perform operations, as long as they leave alone the nodes whose own
   recalculation is running (the node itself and its ancestors up to the swept root).  An instrumented copy of
   GetPulseTimeAux carries that stack and refuses (returns None) an operation that would invalidate, detach, re-attach
   or destroy a stack node; whenever it returns a state, the plain model returns the same state (erasure), and the
   invariants [Good] are preserved.  The only excluded callbacks are thus exactly those of finding F16. *)
From Coq Require Import List Arith NArith Bool Lia.
From Muscle Require Import Pulse.PulseModel Pulse.PulseInv Pulse.PulseForest Pulse.PulseResched Pulse.PulseOps
     Pulse.PulseSweep Pulse.PulseReach Pulse.PulseMin Pulse.PulseExact Pulse.PulseFuel Pulse.PulseDepth Pulse.PulseFuelAny
     Pulse.PulseRefuted.
Import ListNotations.

(* ------------------------------------------------------------------ which nodes an operation withdraws *)

(* the nodes whose _myScheduledTimeValid or _parent the operation may change *)
Definition withdraws (m : nmap) (o : cop) (z : nat) : Prop :=
  match o with
  | CInval x _ => z = x
  | CAttach _ c => z = c
  | CDetach _ c => z = c
  | CClear p => parent (m z) = Some p
  | CDestroy p => z = p \/ parent (m z) = Some p
  end.

Definition keeps (m m' : nmap) (z : nat) : Prop :=
  valid (m' z) = valid (m z) /\ parent (m' z) = parent (m z) /\ alive (m' z) = alive (m z).

Lemma keeps_refl m z : keeps m m z.
Proof. repeat split; reflexivity. Qed.

Lemma keeps_trans m1 m2 m3 z : keeps m1 m2 z -> keeps m2 m3 z -> keeps m1 m3 z.
Proof. intros (A1&A2&A3) (B1&B2&B3). repeat split; congruence. Qed.

Lemma keeps_scalars m m' z : same_scalars m m' -> keeps m m' z.
Proof. intro H. destruct (H z) as (Hp&_&_&Hv&Ha&_). repeat split; assumption. Qed.

Lemma resched_keeps f m p c w m' z :
  WF m -> parent (m c) = Some p -> resched f m p c w = Some m' -> keeps m m' z.
Proof.
  intros Hwf Hpar H. apply keeps_scalars.
  assert (Hns : forall x, parent (m x) <> Some x) by apply (wf_noself _ _ Hwf).
  apply (resched_scalars f m p c w m' Hpar); auto. intro; subst. now apply (Hns c).
Qed.

Lemma resched_up_keeps f m x m' z : WF m -> resched_up f m x = Some m' -> keeps m m' z.
Proof.
  intros Hwf H. unfold resched_up in H. destruct (parent (m x)) as [p|] eqn:Hp.
  - eapply resched_keeps; eauto.
  - inversion H; subst. apply keeps_refl.
Qed.

Lemma invalidate_keeps G f m x cl m' z : Good G m -> invalidate f m x cl = Some m' -> z <> x -> keeps m m' z.
Proof.
  intros Hg H Hz. unfold invalidate in H.
  set (m1 := if cl then upd m x (set_sched (m x) NEVER) else m) in *.
  assert (Hs1 : same_struct m m1).
  { unfold m1. destruct cl; [apply same_struct_upd_scalar; reflexivity|intro y; repeat split]. }
  assert (K1 : keeps m m1 z).
  { unfold m1. destruct cl; [|apply keeps_refl]. repeat split; now rewrite upd_other. }
  destruct (valid (m1 x)).
  - set (m2 := upd m1 x (set_valid (m1 x) false)) in *.
    assert (Hs2 : same_struct m1 m2) by (apply same_struct_upd_scalar; reflexivity).
    assert (K2' : keeps m1 m2 z) by (unfold m2; repeat split; now rewrite upd_other).
    eapply keeps_trans; [exact K1|]. eapply keeps_trans; [exact K2'|].
    eapply resched_up_keeps; [|exact H].
    eapply WFx_struct; [exact Hs2|]. eapply WFx_struct; [exact Hs1|]. apply (c_wf _ (i_core _ (g_inv _ _ Hg))).
  - inversion H; subst. exact K1.
Qed.

Lemma remove_child_keeps G f m p c m' z :
  Good G m -> parent (m c) = Some p -> remove_child f m p c = Some m' -> z <> c -> keeps m m' z.
Proof.
  intros Hg Hpar H Hz. pose proof (i_core _ (g_inv _ _ Hg)) as Hc. pose proof (c_wf _ Hc) as Hwf.
  unfold remove_child in H.
  assert (Hpe : opt_nat_eqb (parent (m c)) p = true) by (rewrite Hpar; simpl; apply Nat.eqb_refl).
  rewrite Hpe in H. destruct (resched f m p c LNone) as [m1|] eqn:Hr; [|discriminate].
  assert (Hcl : cur (m c) <> LNone) by (eapply (i_listed _ (g_inv _ _ Hg)); eauto).
  pose proof (resched_keeps f m p c LNone m1 z Hwf Hpar Hr) as K1.
  apply resched_None in Hr; [|assumption]. subst m1.
  assert (Hpc : p <> c) by (intro; subst; now apply (wf_noself _ _ Hwf c)).
  fold (orphan (unlink m p c LNone) c) in H. set (m2 := orphan (unlink m p c LNone) c) in *.
  assert (K2' : keeps (unlink m p c LNone) m2 z).
  { unfold m2. split; [now apply orphan_valid_o|split; [now apply orphan_parent_o|apply orphan_alive]]. }
  destruct (opt_nat_eqb (hd_error (ls (m p))) c).
  - eapply keeps_trans; [exact K1|]. eapply keeps_trans; [exact K2'|].
    assert (Hc2 : Core m2).
    { unfold m2. apply Core_orphan.
      - now apply Core_unlink_none.
      - now apply unlink_cur_c.
      - intros q l Hin. apply (unlink_in_wf noexc m p c LNone Hwf Hpar) in Hin. tauto. }
    eapply resched_up_keeps; [apply (c_wf _ Hc2)|exact H].
  - inversion H; subst. eapply keeps_trans; eauto.
Qed.

Lemma clear_list_keeps G : forall f m x l m' z,
  Good G m -> clear_list f m x l = Some m' -> parent (m z) <> Some x -> keeps m m' z.
Proof.
  induction f as [|f IH]; intros m x l m' z Hg H Hz; [discriminate|]. simpl in H.
  destruct (get_list (m x) l) as [|c t] eqn:Hl; [inversion H; subst; apply keeps_refl|].
  destruct (remove_child f m x c) as [m1|] eqn:Hr; [|discriminate].
  assert (Hpar : parent (m c) = Some x).
  { apply (wf_in _ _ (c_wf _ (i_core _ (g_inv _ _ Hg))) x c l). rewrite Hl. now left. }
  destruct (remove_child_spec G f m x c m1 Hg Hpar Hr) as (Hg1 & _).
  assert (Hzc : z <> c) by congruence.
  pose proof (remove_child_keeps G f m x c m1 z Hg Hpar Hr Hzc) as K1.
  eapply keeps_trans; [exact K1|]. eapply IH; eauto. destruct K1 as (_ & Hp & _). congruence.
Qed.

Lemma clear_children_keeps G f m x m' z :
  Good G m -> clear_children f m x = Some m' -> parent (m z) <> Some x -> keeps m m' z.
Proof.
  intros Hg H Hz. unfold clear_children in H.
  destruct (clear_list f m x LSched) as [m1|] eqn:H1; [|discriminate].
  destruct (clear_list f m1 x LUnsched) as [m2|] eqn:H2; [|discriminate].
  destruct (clear_list_spec G f m x LSched m1 Hg H1) as (Hg1 & _).
  destruct (clear_list_spec G f m1 x LUnsched m2 Hg1 H2) as (Hg2 & _).
  pose proof (clear_list_keeps G f m x LSched m1 z Hg H1 Hz) as K1.
  assert (Hz1 : parent (m1 z) <> Some x) by (destruct K1 as (_ & Hp & _); congruence).
  pose proof (clear_list_keeps G f m1 x LUnsched m2 z Hg1 H2 Hz1) as K2'.
  assert (Hz2 : parent (m2 z) <> Some x) by (destruct K2' as (_ & Hp & _); congruence).
  eapply keeps_trans; [exact K1|]. eapply keeps_trans; [exact K2'|]. eapply clear_list_keeps; eauto.
Qed.

Lemma apply_cop_keeps G f m o m' z :
  Good G m -> apply_cop f m o = Some m' -> ~ withdraws m o z -> keeps m m' z.
Proof.
  intros Hg H Hz. destruct o as [x cl|p c|p c|x|x]; simpl in H, Hz.
  - destruct (alive (m x)); [|inversion H; subst; apply keeps_refl]. eapply invalidate_keeps; eauto.
  - destruct (alive (m p)); [|inversion H; subst; apply keeps_refl].
    destruct (alive (m c)); [|inversion H; subst; apply keeps_refl].
    destruct (Nat.eqb_spec p c) as [Heq|Hpc]; [inversion H; subst; apply keeps_refl|]. simpl in H.
    destruct (is_anc f m c p) as [[|]|] eqn:Ha; [inversion H; subst; apply keeps_refl| |discriminate].
    unfold put_child in H.
    assert (Hm1 : exists m1, Good G m1 /\ keeps m m1 z /\ resched f (adopt m1 p c) p c LRecalc = Some m').
    { destruct (parent (m c)) as [q|] eqn:Hq.
      - destruct (remove_child f m q c) as [m1|] eqn:Hr; [|discriminate].
        destruct (remove_child_spec G f m q c m1 Hg Hq Hr) as (Hg1 & _).
        exists m1. split; [assumption|]. split; [eapply remove_child_keeps; eauto|auto].
      - exists m. split; [assumption|]. split; [apply keeps_refl|auto]. }
    destruct Hm1 as (m1 & Hg1 & K1 & Hr).
    eapply keeps_trans; [exact K1|].
    assert (Ka : keeps m1 (adopt m1 p c) z) by (split; [apply adopt_valid|split; [now apply adopt_parent_o|apply adopt_alive]]).
    eapply keeps_trans; [exact Ka|]. apply keeps_scalars.
    pose proof (wf_noself _ _ (c_wf _ (i_core _ (g_inv _ _ Hg1)))) as Hns.
    apply (resched_scalars f (adopt m1 p c) p c LRecalc m'); auto using adopt_parent_c.
    intro y. destruct (Nat.eq_dec y c) as [->|Hy]; [rewrite adopt_parent_c; congruence|].
    rewrite adopt_parent_o by assumption. apply Hns.
  - destruct (alive (m p) && alive (m c)); [|inversion H; subst; apply keeps_refl].
    destruct (parent (m c)) as [q|] eqn:Hq.
    + destruct (Nat.eq_dec q p) as [->|Hne]; [eapply remove_child_keeps; eauto|].
      unfold remove_child in H. rewrite Hq in H. simpl in H. apply Nat.eqb_neq in Hne. rewrite Hne in H.
      inversion H; subst; apply keeps_refl.
    + unfold remove_child in H. rewrite Hq in H. simpl in H. inversion H; subst; apply keeps_refl.
  - destruct (alive (m x)); [|inversion H; subst; apply keeps_refl]. eapply clear_children_keeps; eauto.
  - destruct (alive (m x)); [|inversion H; subst; apply keeps_refl].
    unfold destroy in H.
    assert (Hm1 : exists m1, Good G m1 /\ keeps m m1 z /\
                  match clear_children f m1 x with None => None | Some m2 => Some (upd m2 x (set_alive (m2 x) false)) end = Some m').
    { destruct (parent (m x)) as [p|] eqn:Hp.
      - destruct (remove_child f m p x) as [m1|] eqn:Hr; [|discriminate].
        destruct (remove_child_spec G f m p x m1 Hg Hp Hr) as (Hg1 & _). exists m1.
        split; [assumption|]. split; [eapply remove_child_keeps; eauto|auto].
      - exists m. split; [assumption|]. split; [apply keeps_refl|auto]. }
    destruct Hm1 as (m1 & Hg1 & K1 & H1).
    destruct (clear_children f m1 x) as [m2|] eqn:Hcl; [|discriminate]. inversion H1; subst m'.
    eapply keeps_trans; [exact K1|].
    assert (Hz1 : parent (m1 z) <> Some x) by (destruct K1 as (_ & Hp & _); rewrite Hp; tauto).
    eapply keeps_trans; [eapply clear_children_keeps; eauto|].
    assert (Hzx : z <> x) by tauto. repeat split; now rewrite upd_other.
Qed.

(* ------------------------------------------------------------------ the instrumented recalculation sweep *)

Definition memb (x : nat) (F : list nat) : bool := existsb (Nat.eqb x) F.
Definition no_child_in (m : nmap) (F : list nat) (p : nat) : bool :=
  forallb (fun z => negb (opt_nat_eqb (parent (m z)) p)) F.

(* may operation o be performed while the recalculation of the nodes F is running? *)
Definition safe_op (m : nmap) (F : list nat) (o : cop) : bool :=
  match o with
  | CInval x _ => negb (memb x F)
  | CAttach _ c => negb (memb c F)
  | CDetach _ c => negb (memb c F)
  | CClear p => no_child_in m F p
  | CDestroy p => negb (memb p F) && no_child_in m F p
  end.

Fixpoint run_cops_s (f : nat) (F : list nat) (m : nmap) (os : list cop) : option nmap :=
  match os with
  | [] => Some m
  | o :: t =>
    if safe_op m F o then
      match apply_cop f m o with None => None | Some m1 => run_cops_s f F m1 t end
    else None
  end.

Section SafeModel.
  Variable gt : nmap -> nat -> nat -> N -> N -> N * list cop.
  Variable pl : nmap -> nat -> nat -> N -> N -> list cop.

  Definition get_self_s (f : nat) (F : list nat) (s : state) (x : nat) (now : N) : option state :=
    if valid (nd s x) then Some s
    else
      let k := ngt (nd s x) in
      let prev := sched (nd s x) in
      let m1 := upd (nd s) x (set_ngt (set_valid (nd s x) true) (S k)) in
      let r := gt m1 x k now prev in
      match run_cops_s f (x :: F) m1 (snd r) with
      | None => None
      | Some m2 => Some (mkSt (upd m2 x (set_sched (m2 x) (N.min (fst r) NEVER)))
                              (EGet x k now prev :: evs s))
      end.

  Fixpoint get_aux_s (f : nat) (F : list nat) (now : N) (s : state) (x : nat) (mn : N) : option (state * N) :=
    match f with
    | O => None
    | S f' =>
      match get_self_s f' F s x now with
      | None => None
      | Some s1 =>
        match loop_recalc (get_aux_s f' (x :: F) now) f' x s1 mn with
        | None => None
        | Some (s2, mn2) => get_finish f' s2 x mn2
        end
      end
    end.

  Definition top_get_s (f : nat) (s : state) (r : nat) (now : N) : option state :=
    if is_root (nd s) r then
      match get_aux_s f [] now s r NEVER with
      | None => None
      | Some (s1, mn) => Some (mkSt (nd s1) (EMin r mn :: evs s1))
      end
    else Some s.

  Definition step_s (f : nat) (s : state) (o : PulseModel.top) : option state :=
    match o with
    | TGet r now => top_get_s f s r now
    | TCycle r now => match top_get_s f s r now with None => None | Some s1 => top_pulse pl f s1 r now end
    | _ => step gt pl f s o
    end.

  Fixpoint run_s (f : nat) (s : state) (os : list PulseModel.top) : option state :=
    match os with
    | [] => Some s
    | o :: t => match step_s f s o with None => None | Some s1 => run_s f s1 t end
    end.

  (* ---------------------------------------------------------------- erasure: the instrumentation only refuses *)

  Lemma run_cops_s_erase f F : forall os m m', run_cops_s f F m os = Some m' -> run_cops f m os = Some m'.
  Proof.
    induction os as [|o t IH]; intros m m' H; simpl in *; [assumption|].
    destruct (safe_op m F o); [|discriminate]. destruct (apply_cop f m o) as [m1|]; [|discriminate]. now apply IH.
  Qed.

  Lemma get_self_s_erase f F s x now s1 : get_self_s f F s x now = Some s1 -> get_self gt f s x now = Some s1.
  Proof.
    unfold get_self_s, get_self. destruct (valid (nd s x)); [auto|].
    destruct (run_cops_s f (x :: F) _ _) as [m2|] eqn:Hr; [|discriminate].
    rewrite (run_cops_s_erase _ _ _ _ _ Hr). auto.
  Qed.

  Lemma loop_recalc_mono (c1 c2 : state -> nat -> N -> option (state * N)) x :
    (forall s c mn r, c1 s c mn = Some r -> c2 s c mn = Some r) ->
    forall k s mn r, loop_recalc c1 k x s mn = Some r -> loop_recalc c2 k x s mn = Some r.
  Proof.
    intros Hc. induction k as [|k IH]; intros s mn r H; [discriminate|]. simpl in *.
    destruct (lr (nd s x)) as [|c t]; [assumption|].
    destruct (c1 s c mn) as [[s1 mn1]|] eqn:H1; [|discriminate]. rewrite (Hc _ _ _ _ H1). now apply IH.
  Qed.

  Lemma get_aux_s_erase now : forall f F s x mn r, get_aux_s f F now s x mn = Some r -> get_aux gt f now s x mn = Some r.
  Proof.
    induction f as [|f IH]; intros F s x mn r H; [discriminate|]. simpl in *.
    destruct (get_self_s f F s x now) as [s1|] eqn:Hs; [|discriminate]. rewrite (get_self_s_erase _ _ _ _ _ _ Hs).
    destruct (loop_recalc (get_aux_s f (x :: F) now) f x s1 mn) as [[s2 mn2]|] eqn:Hl; [|discriminate].
    rewrite (loop_recalc_mono (get_aux_s f (x :: F) now) (get_aux gt f now) x (fun s c mn r => IH (x :: F) s c mn r) f s1 mn _ Hl).
    assumption.
  Qed.

  Lemma step_s_erase f s o s' : step_s f s o = Some s' -> step gt pl f s o = Some s'.
  Proof.
    assert (Htg : forall s r now s1, top_get_s f s r now = Some s1 -> top_get gt f s r now = Some s1).
    { intros s0 r now s1 H. unfold top_get_s, top_get in *. destruct (is_root (nd s0) r); [|assumption].
      destruct (get_aux_s f [] now s0 r NEVER) as [[sa mn]|] eqn:Ha; [|discriminate].
      now rewrite (get_aux_s_erase _ _ _ _ _ _ _ Ha). }
    destruct o; simpl; auto.
    destruct (top_get_s f s r now) as [s1|] eqn:H1; [|discriminate]. now rewrite (Htg _ _ _ _ H1).
  Qed.

  Lemma run_s_erase f : forall os s s', run_s f s os = Some s' -> run gt pl f s os = Some s'.
  Proof.
    induction os as [|o t IH]; intros s s' H; simpl in *; [assumption|].
    destruct (step_s f s o) as [s1|] eqn:H1; [|discriminate]. rewrite (step_s_erase _ _ _ _ H1). now apply IH.
  Qed.
End SafeModel.

(* ------------------------------------------------------------------ the running recalculations are left alone *)

(* F = nodes whose GetPulseTimeAux is running, innermost first: each is valid, on the needs-recalc list (or on
   none), and its parent is the next one (the outermost has no parent) *)
Fixpoint prot (F : list nat) (m : nmap) : Prop :=
  match F with
  | [] => True
  | z :: rest => valid (m z) = true /\ rn (cur (m z)) /\ parent (m z) = hd_error rest /\ alive (m z) = true /\ prot rest m
  end.

Lemma prot_keep F m m' :
  (forall z, In z F -> keeps m m' z /\ (rn (cur (m z)) -> rn (cur (m' z)))) -> prot F m -> prot F m'.
Proof.
  induction F as [|z rest IH]; simpl; [auto|]. intros Hk (Hv & Hc & Hp & Ha & Hr).
  destruct (Hk z (or_introl eq_refl)) as [(Kv & Kp & Ka) Kc].
  split; [congruence|]. split; [auto|]. split; [congruence|]. split; [congruence|]. apply IH; auto.
Qed.

Lemma prot_in F m z : prot F m -> In z F -> valid (m z) = true /\ rn (cur (m z)).
Proof.
  induction F as [|y rest IH]; simpl; intros Hp Hin; [destruct Hin|]. destruct Hp as (Hv & Hc & _ & _ & Hr).
  destruct Hin as [->|Hin]; auto.
Qed.

Lemma prot_parent F m c x : prot F m -> In c F -> parent (m c) = Some x -> In x F.
Proof.
  induction F as [|y rest IH]; simpl; intros Hp Hin Hpc; [destruct Hin|]. destruct Hp as (_ & _ & Hpy & _ & Hr).
  destruct Hin as [->|Hin].
  - rewrite Hpy in Hpc. destruct rest as [|w r]; [discriminate|]. simpl in Hpc. inversion Hpc; subst. right. now left.
  - right. eapply IH; eauto.
Qed.

Lemma memb_false x F : memb x F = false -> ~ In x F.
Proof.
  unfold memb. intros H Hin. assert (existsb (Nat.eqb x) F = true); [|congruence].
  apply existsb_exists. exists x. split; [assumption|apply Nat.eqb_refl].
Qed.

Lemma no_child_in_spec m F p z : no_child_in m F p = true -> In z F -> parent (m z) <> Some p.
Proof.
  unfold no_child_in. intros H Hin Hp. rewrite forallb_forall in H. specialize (H z Hin).
  rewrite Hp in H. simpl in H. rewrite Nat.eqb_refl in H. discriminate.
Qed.

Lemma safe_op_spec m F o z : safe_op m F o = true -> In z F -> ~ withdraws m o z.
Proof.
  intros Hs Hin Hw. destruct o as [x cl|p c|p c|x|x]; simpl in *.
  - subst z. apply negb_true_iff in Hs. now apply (memb_false x F).
  - subst z. apply negb_true_iff in Hs. now apply (memb_false c F).
  - subst z. apply negb_true_iff in Hs. now apply (memb_false c F).
  - now apply (no_child_in_spec m F x z).
  - apply andb_prop in Hs. destruct Hs as [H1 H2]. destruct Hw as [->|Hw].
    + apply negb_true_iff in H1. now apply (memb_false x F).
    + now apply (no_child_in_spec m F x z).
Qed.

Lemma cop_mono_rn m m' z : cop_mono m m' -> rn (cur (m z)) -> rn (cur (m' z)).
Proof.
  intros [Hm _] Hr. destruct (rn_su_dec (cur (m' z))) as [H|H]; [assumption|].
  destruct (Hm z H) as [He _]. rewrite <- He in H. exfalso. eapply rn_not_su; eauto.
Qed.

Lemma run_cops_s_good G f F : forall os m m',
  Good G m -> prot F m -> run_cops_s f F m os = Some m' -> Good G m' /\ prot F m'.
Proof.
  induction os as [|o t IH]; intros m m' Hg Hp H; simpl in H; [inversion H; subst; auto|].
  destruct (safe_op m F o) eqn:Hs; [|discriminate].
  destruct (apply_cop f m o) as [m1|] eqn:Ho; [|discriminate].
  apply (IH m1 m'); [eapply apply_cop_good; eauto| |assumption].
  apply (prot_keep F m m1); [|assumption]. intros z Hz. split.
  - eapply apply_cop_keeps; eauto. eapply safe_op_spec; eauto.
  - apply cop_mono_rn. eapply apply_cop_cop_mono; eauto.
Qed.

Section SafeSweep.
  Variable gt : nmap -> nat -> nat -> N -> N -> N * list cop.

  Lemma prot_upd_other F m x n : ~ In x F -> prot F m -> prot F (upd m x n).
  Proof.
    intros Hx. apply prot_keep. intros z Hz. assert (z <> x) by congruence.
    unfold keeps. rewrite upd_other by assumption. auto.
  Qed.

  Lemma get_self_s_good G f F s x now s1 :
    Good G (nd s) -> prot F (nd s) -> rn (cur (nd s x)) -> parent (nd s x) = hd_error F -> alive (nd s x) = true -> ~ In x F ->
    get_self_s gt f F s x now = Some s1 -> Good G (nd s1) /\ prot (x :: F) (nd s1).
  Proof.
    intros Hg Hp Hrn Hpar Hal Hx H. unfold get_self_s in H. destruct (valid (nd s x)) eqn:Hv.
    - inversion H; subst s1. split; [assumption|]. simpl. auto.
    - set (m1 := upd (nd s) x (set_ngt (set_valid (nd s x) true) (S (ngt (nd s x))))) in *.
      destruct (run_cops_s f (x :: F) m1 (snd (gt m1 x (ngt (nd s x)) now (sched (nd s x))))) as [m2|] eqn:Hr; [|discriminate].
      inversion H; subst s1. simpl. clear H.
      assert (Hg1 : Good G m1).
      { unfold m1. apply Good_scalar_upd;
          [exact Hg|reflexivity|reflexivity|reflexivity|reflexivity|reflexivity|reflexivity|reflexivity| | | ].
        - apply (c_k6 _ (i_core _ (g_inv _ _ Hg))).
        - intros _ Hsu. exfalso. eapply rn_not_su; eauto.
        - simpl. discriminate. }
      assert (Hp1 : prot (x :: F) m1).
      { simpl. unfold m1 at 1 2 3 4. rewrite !upd_same. simpl. split; [reflexivity|]. split; [assumption|]. split; [assumption|].
        split; [assumption|]. now apply prot_upd_other. }
      destruct (run_cops_s_good G f (x :: F) _ m1 m2 Hg1 Hp1 Hr) as [Hg2 Hp2].
      destruct Hp2 as (Hv2 & Hc2 & Hpa2 & Hal2 & Hr2).
      split.
      + apply Good_scalar_upd;
          [exact Hg2|reflexivity|reflexivity|reflexivity|reflexivity|reflexivity|reflexivity|reflexivity| | | ].
        * simpl. apply N.le_min_r.
        * intros _ Hsu. exfalso. eapply rn_not_su; eauto.
        * simpl. congruence.
      + simpl. rewrite !upd_same. simpl. split; [assumption|]. split; [assumption|]. split; [assumption|].
        split; [assumption|]. now apply prot_upd_other.
  Qed.

  Lemma get_aux_s_good now : forall f G F s x mn s' mn',
    Good G (nd s) -> prot F (nd s) -> rn (cur (nd s x)) -> parent (nd s x) = hd_error F -> alive (nd s x) = true ->
    ~ In x F -> NoDup F ->
    get_aux_s gt f F now s x mn = Some (s', mn') ->
    Good G (nd s') /\ prot F (nd s') /\ valid (nd s' x) = true /\ alive (nd s' x) = true /\ lr (nd s' x) = [] /\
    agg (nd s' x) = N.min (sched (nd s' x)) (first_sched_agg (nd s') x) /\
    parent (nd s' x) = parent (nd s x) /\ (parent (nd s x) = None \/ su (cur (nd s' x))) /\
    (mn' <= agg (nd s' x))%N.
  Proof.
    induction f as [|f IH]; intros G F s x mn s' mn' Hg Hp Hrn Hpar Hal Hx Hnd H; [discriminate|]. simpl in H.
    destruct (get_self_s gt f F s x now) as [s1|] eqn:Hself; [|discriminate].
    destruct (loop_recalc (get_aux_s gt f (x :: F) now) f x s1 mn) as [[s2 mn2]|] eqn:Hloop; [|discriminate].
    destruct (get_self_s_good G f F s x now s1 Hg Hp Hrn Hpar Hal Hx Hself) as [Hg1 Hp1].
    set (P := fun (si : state) (_ : N) => Good G (nd si) /\ prot (x :: F) (nd si)).
    assert (Hstep : forall si c t mi si1 mi1, P si mi -> lr (nd si x) = c :: t ->
                      get_aux_s gt f (x :: F) now si c mi = Some (si1, mi1) -> P si1 mi1).
    { intros si c t mi si1 mi1 [Hgi Hpi] Hl Hcall.
      pose proof (c_wf _ (i_core _ (g_inv _ _ Hgi))) as Hwfi.
      destruct (wf_in _ _ Hwfi x c LRecalc) as [Hpc Hcc]; [simpl; rewrite Hl; now left|].
      assert (HcF : ~ In c (x :: F)).
      { intros [Heq|Hin]; [subst c; now apply (wf_noself _ _ Hwfi x)|].
        assert (HxF : In x (x :: F) -> False).
        { intros _. simpl in Hpi. destruct Hpi as (_ & _ & _ & _ & HpF). apply Hx. eapply prot_parent; eauto. }
        apply HxF. now left. }
      assert (Halc : alive (nd si c) = true).
      { destruct (alive (nd si c)) eqn:E; [reflexivity|].
        destruct (c_dead _ (i_core _ (g_inv _ _ Hgi)) c E) as [Hn _]. congruence. }
      destruct (IH G (x :: F) si c mi si1 mi1 Hgi Hpi (or_introl Hcc)) as (Hg' & Hp' & _); auto.
      - constructor; assumption.
      - split; assumption. }
    destruct (loop_recalc_ind P (get_aux_s gt f (x :: F) now) x Hstep f s1 mn s2 mn2 (conj Hg1 Hp1) Hloop)
      as ([Hg2 Hp2] & Hlr2).
    pose proof Hp2 as Hp2'. simpl in Hp2'. destruct Hp2' as (Hv2 & Hc2 & Hpa2 & Hal2 & HpF2).
    destruct (get_finish_good G f s2 x mn2 s' mn' Hg2 Hc2 Hv2 Hlr2 H)
      as (Hg' & [Hfp Hfo] & Hv' & Hs' & Ha' & Hsu' & HL' & _ & Hmn').
    pose proof (c_wf _ (i_core _ (g_inv _ _ Hg2))) as Hwf2.
    assert (Hxx : parent (nd s2 x) <> Some x) by apply (wf_noself _ _ Hwf2).
    assert (Hlsx : ls (nd s' x) = ls (nd s2 x)).
    { change (get_list (nd s' x) LSched = get_list (nd s2 x) LSched). now apply HL'. }
    assert (Hfsa : first_sched_agg (nd s') x = first_sched_agg (nd s2) x).
    { unfold first_sched_agg. rewrite Hlsx. destruct (ls (nd s2 x)) as [|h t] eqn:Hls; [reflexivity|].
      assert (h <> x).
      { intro; subst h. destruct (wf_in _ _ Hwf2 x x LSched) as [Hq _]; [simpl; rewrite Hls; now left|]. contradiction. }
      now destruct (Hfo h H0) as (_&_&_&?). }
    split; [assumption|]. split; [|split; [assumption|split; [|split; [|split; [|split; [|split]]]]]].
    - apply (prot_keep F (nd s2) (nd s')); [|assumption]. intros z Hz. assert (z <> x) by congruence.
      destruct (Hfo z H0) as (E1&E2&_). destruct (Hfp z) as [E3 E4]. split; [repeat split; assumption|congruence].
    - destruct (Hfp x) as [_ E]. congruence.
    - change (get_list (nd s' x) LRecalc = []). rewrite HL' by assumption. exact Hlr2.
    - rewrite Ha', Hs', Hfsa. reflexivity.
    - destruct (Hfp x) as [E _]. congruence.
    - destruct Hsu' as [Hn|Hs]; [left|right; assumption]. congruence.
    - rewrite Hmn'. apply N.le_min_r.
  Qed.
End SafeSweep.

(* ------------------------------------------------------------------ reachable states, the reported wake-up time *)

Section SafeReach.
  Variable gt : nmap -> nat -> nat -> N -> N -> N * list cop.
  Variable pl : nmap -> nat -> nat -> N -> N -> list cop.

  (* recalc_min_safe: GetPulseTime() callbacks may perform any operations that leave the running recalculations
     alone.  After the sweep (which is a run of the plain model) every node attached below the root is valid, nothing
     awaits recalculation, the root's aggregate is the minimum of the requested times, and the time reported to the
     manager is not later than that minimum (it may be earlier when a callback removed a node that had already been
     counted: a harmless early wake-up) *)
  Theorem recalc_min_safe f s r now s' :
    Good nobody (nd s) -> is_root (nd s) r = true -> top_get_s gt f s r now = Some s' ->
    top_get gt f s r now = Some s' /\
    exists mn, hd_error (evs s') = Some (EMin r mn) /\ (mn <= agg (nd s' r))%N /\
      Good nobody (nd s') /\
      (forall y, desc (nd s') r y -> settled (nd s') y /\ (agg (nd s' r) <= sched (nd s' y))%N) /\
      (exists y, desc (nd s') r y /\ sched (nd s' y) = agg (nd s' r)) /\
      agg (nd s' r) = N.min (sched (nd s' r)) (first_sched_agg (nd s') r) /\ is_root (nd s') r = true.
  Proof.
    intros Hg Hr H. split.
    { unfold top_get_s, top_get in *. rewrite Hr in *.
      destruct (get_aux_s gt f [] now s r NEVER) as [[sa mn]|] eqn:Ha; [|discriminate].
      now rewrite (get_aux_s_erase gt now _ _ _ _ _ _ Ha). }
    unfold top_get_s in H. rewrite Hr in H.
    destruct (get_aux_s gt f [] now s r NEVER) as [[s1 mn]|] eqn:Ha; [|discriminate]. inversion H; subst s'. simpl. clear H.
    destruct (is_root_facts _ _ Hr) as [_ Hp].
    assert (Hrn : rn (cur (nd s r))) by (right; apply (wf_root _ _ (c_wf _ (i_core _ (g_inv _ _ Hg)))); assumption).
    destruct (is_root_facts _ _ Hr) as [Hal _].
    destruct (get_aux_s_good gt now f nobody [] s r NEVER s1 mn Hg I Hrn Hp Hal (fun F => F) (NoDup_nil _) Ha)
      as (Hg1 & _ & Hv & Hal1 & Hlr & Hagg & Hpar & _ & Hmn).
    assert (Hs : settled (nd s1) r) by (split; assumption).
    exists mn. split; [reflexivity|]. split; [assumption|]. split; [assumption|]. split; [|split; [|split]].
    - intros y Hd. split; [now apply (settled_desc (nd s1) r Hg1 Hs y Hd)|].
      destruct (agg_lower_bound (nd s1) r Hg1 Hs Hagg y Hd). lia.
    - apply (agg_attained (nd s1) r Hg1 Hs Hagg).
    - assumption.
    - unfold is_root. rewrite Hpar, Hp, Hal1. reflexivity.
  Qed.

  Lemma top_get_s_good f s r now s' :
    Good nobody (nd s) -> top_get_s gt f s r now = Some s' -> Good nobody (nd s').
  Proof.
    intros Hg H. destruct (is_root (nd s) r) eqn:Hr.
    - now destruct (recalc_min_safe f s r now s' Hg Hr H) as (_ & mn & _ & _ & ? & _).
    - unfold top_get_s in H. rewrite Hr in H. inversion H; subst; assumption.
  Qed.

  Lemma top_pulse_good' f s r now s' :
    Good nobody (nd s) -> top_pulse pl f s r now = Some s' -> Good nobody (nd s').
  Proof.
    intros Hg H. unfold top_pulse in H. destruct (is_root (nd s) r); [|inversion H; subst; assumption].
    destruct (N.leb (agg (nd s r)) now); [|inversion H; subst; assumption].
    eapply pulse_aux_good; eauto.
  Qed.

  Lemma step_s_good f s o s' : Good nobody (nd s) -> step_s gt pl f s o = Some s' -> Good nobody (nd s').
  Proof.
    intros Hg H. destruct o as [c|x|r now|r now|r now]; simpl in H.
    - destruct (apply_cop f (nd s) c) as [m|] eqn:Hc; [|discriminate]. inversion H; subst s'. simpl.
      eapply apply_cop_good; eauto.
    - destruct (alive (nd s x)) eqn:Ha; inversion H; subst s'; [assumption|]. simpl. now apply Good_new.
    - eapply top_get_s_good; eauto.
    - eapply top_pulse_good'; eauto.
    - destruct (top_get_s gt f s r now) as [s1|] eqn:H1; [|discriminate].
      eapply top_pulse_good'; [|eassumption]. eapply top_get_s_good; eauto.
  Qed.

  Lemma run_s_good f : forall os s s', Good nobody (nd s) -> run_s gt pl f s os = Some s' -> Good nobody (nd s').
  Proof.
    induction os as [|o t IH]; intros s s' Hg H; simpl in H; [inversion H; subst; assumption|].
    destruct (step_s gt pl f s o) as [s1|] eqn:Hs; [|discriminate]. eapply IH; [|eassumption]. eapply step_s_good; eauto.
  Qed.

  (* reach_inv_safe: every history in which no GetPulseTime() callback touches a node whose own recalculation is
     running (= the instrumented run returns a state) is a history of the plain model and ends in a Good state.
     Pulse() callbacks are arbitrary, GetPulseTime() callbacks arbitrary up to that one restriction: together with
     reentrant_recalc_refuted, the excluded callbacks are exactly those of finding F16 *)
  Theorem reach_inv_safe f os s :
    run_s gt pl f init_state os = Some s -> run gt pl f init_state os = Some s /\ Good nobody (nd s).
  Proof.
    intro H. split; [now apply run_s_erase|]. apply (run_s_good f os init_state s); [exact Good_init|exact H].
  Qed.
End SafeReach.

(* cycle_exact_safe: one manager cycle whose GetPulseTime() callbacks restructure the forest off the recalculation
   stack (and whose Pulse() callbacks perform no operations): after the recalculation sweep every attached node is
   valid, and Pulse() runs on exactly the nodes attached then whose requested time is <= now *)
Theorem cycle_exact_safe gt pl :
  (forall m x k now st, pl m x k now st = []) ->
  forall f s r now s',
    (now < NEVER)%N -> Good nobody (nd s) -> is_root (nd s) r = true ->
    step_s gt pl f s (TCycle r now) = Some s' ->
    step gt pl f s (TCycle r now) = Some s' /\
    exists s1,
      top_get gt f s r now = Some s1 /\ top_pulse pl f s1 r now = Some s' /\
      (forall y, desc (nd s1) r y -> valid (nd s1 y) = true) /\
      Good nobody (nd s') /\
      exists d, evs s' = d ++ evs s1 /\ NoDup (map ev_node d) /\
        (forall e, In e d -> exists y k, e = EPulse y k now (sched (nd s1 y)) /\ desc (nd s1) r y /\ (sched (nd s1 y) <= now)%N) /\
        (forall y, desc (nd s1) r y -> (sched (nd s1 y) <= now)%N -> exists k, In (EPulse y k now (sched (nd s1 y))) d) /\
        (forall y, desc (nd s1) r y -> (sched (nd s1 y) <= now)%N ->
                   valid (nd s' y) = false /\ (parent (nd s' y) <> None -> cur (nd s' y) = LRecalc)).
Proof.
  intros pl_pure f s r now s' Hnow Hg Hr H. split; [now apply step_s_erase|]. simpl in H.
  destruct (top_get_s gt f s r now) as [s1|] eqn:H1; [|discriminate].
  destruct (recalc_min_safe gt f s r now s1 Hg Hr H1) as (He & mn & _ & _ & Hg1 & Hall & _ & Hagg & Hr1).
  exists s1. split; [assumption|]. split; [assumption|]. split.
  { intros y Hd. now destruct (Hall y Hd) as [[? _] _]. }
  assert (Hset : settled (nd s1) r) by (now destruct (Hall r (desc_self _ _))).
  apply (pulse_exact pl pl_pure f s1 r now s' Hnow Hg1 Hr1 Hset Hagg H).
Qed.

(* ------------------------------------------------------------------ sanity of the instrumentation *)

(* the history of finding F16 is refused ... *)
Lemma f16_history_refused : run_s rr_gt rr_pl 50 init_state rr_ops = None.
Proof. vm_compute. reflexivity. Qed.

(* ... while a history whose GetPulseTime() callbacks invalidate a sibling, detach another one and destroy a third is
   accepted (so the theorems above are not vacuous for callbacks that perform operations) *)
Definition sf_gt : nmap -> nat -> nat -> N -> N -> N * list cop :=
  fun _ x k _ _ => match x, k with
                 | 1, 0 => (7%N, [CInval 2 true; CDetach 0 3; CDestroy 4])
                 | 2, _ => (5%N, [])
                 | _, _ => (NEVER, [])
                 end.
Definition sf_pl : nmap -> nat -> nat -> N -> N -> list cop := fun _ _ _ _ _ => [].
Definition sf_ops : list PulseModel.top :=
  [TNew 0; TNew 1; TNew 2; TNew 3; TNew 4; TOp (CAttach 0 2); TOp (CAttach 0 3); TOp (CAttach 0 4); TOp (CAttach 0 1);
   TCycle 0 1%N; TCycle 0 6%N].

Example safe_history_accepted :
  exists s, run_s sf_gt sf_pl 60 init_state sf_ops = Some s /\
            parent (nd s 3) = None /\ alive (nd s 4) = false /\ parent (nd s 1) = Some 0 /\
            length (filter (is_pulse_of 2) (evs s)) = 1.
Proof. eexists. split; [vm_compute; reflexivity|]. repeat split. Qed.
