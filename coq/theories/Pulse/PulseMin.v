(* C20 -- recalc_min: what the manager learns from the recalculation sweep. *)
From Coq Require Import List Arith NArith Bool Lia.
From Muscle Require Import Pulse.PulseModel Pulse.PulseInv Pulse.PulseForest Pulse.PulseResched Pulse.PulseOps
     Pulse.PulseSweep Pulse.PulseReach.
Import ListNotations.

(* a node is "settled" when its own time is valid and nothing below it awaits recalculation *)
Definition settled (m : nmap) (x : nat) : Prop := valid (m x) = true /\ lr (m x) = [].

Lemma settled_child m p y :
  Good nobody m -> settled m p -> parent (m y) = Some p -> settled m y /\ su (cur (m y)).
Proof.
  intros [[Hc Hl Hk3] Hk2] [Hvp Hlp] Hpy. pose proof (c_wf _ Hc) as Hwf.
  pose proof (Hl y p Hpy) as Hcn.
  pose proof (wf_par _ _ Hwf y p (fun F => F) Hpy Hcn) as Hin.
  assert (Hsu : su (cur (m y))).
  { destruct (cur (m y)) eqn:Hcy; [congruence|left; reflexivity|right; reflexivity|].
    simpl in Hin. rewrite Hlp in Hin. destruct Hin. }
  split; [|assumption]. split.
  - destruct (valid (m y)) eqn:Hv; [reflexivity|]. exfalso.
    apply (rn_not_su (cur (m y))); [|assumption]. apply Hk2; [intros []|assumption].
  - destruct (lr (m y)) as [|a t] eqn:Hlr; [reflexivity|]. exfalso.
    apply (rn_not_su (cur (m y))); [|assumption]. apply (c_k1 _ Hc). rewrite Hlr. discriminate.
Qed.

Lemma settled_desc m r :
  Good nobody m -> settled m r -> forall y, desc m r y -> settled m y /\ (y <> r -> su (cur (m y))).
Proof.
  intros Hg Hr y Hd. induction Hd as [|c p Hd IH Hp].
  - split; [assumption|]. intro F. now contradiction F.
  - destruct IH as [Hsp _]. destruct (settled_child m p c Hg Hsp Hp) as [Hs Hsu]. split; [assumption|auto].
Qed.

(* below a settled node whose aggregate is exact, no requested time is earlier than the aggregate *)
Lemma agg_lower_bound m r :
  Good nobody m -> settled m r ->
  agg (m r) = N.min (sched (m r)) (first_sched_agg m r) ->
  forall y, desc m r y -> (agg (m r) <= agg (m y))%N /\ (agg (m y) <= sched (m y))%N.
Proof.
  intros Hg Hr Hagg y Hd.
  pose proof (i_core _ (g_inv _ _ Hg)) as Hc. pose proof (c_wf _ Hc) as Hwf.
  assert (Hexact : forall z, desc m r z -> agg (m z) = N.min (sched (m z)) (first_sched_agg m z)).
  { intros z Hz. destruct (Nat.eq_dec z r) as [->|Hne]; [assumption|].
    destruct (settled_desc m r Hg Hr z Hz) as [[Hv _] Hsu]. apply (i_k3 _ (g_inv _ _ Hg)); auto. }
  split; [|rewrite (Hexact y Hd); apply N.le_min_l].
  induction Hd as [|c p Hd IH Hp]; [apply N.le_refl|].
  etransitivity; [exact IH|]. rewrite (Hexact p Hd). etransitivity; [apply N.le_min_r|].
  destruct (settled_desc m r Hg Hr p Hd) as [Hsp _].
  destruct (settled_child m p c Hg Hsp Hp) as [_ Hsu].
  destruct Hsu as [Hs|Hu].
  - pose proof (wf_par _ _ Hwf c p (fun F => F) Hp) as Hin. rewrite Hs in Hin. specialize (Hin ltac:(discriminate)).
    simpl in Hin. pose proof (sorted_head_le m (ls (m p)) c (c_k5 _ Hc p) Hin) as Hle.
    unfold first_sched_agg. destruct (ls (m p)); [destruct Hin|exact Hle].
  - destruct (c_k4 _ Hc c) as [_ HU]. rewrite (HU Hu).
    unfold first_sched_agg. destruct (ls (m p)) as [|h t]; [apply N.le_refl|apply (c_k6 _ Hc)].
Qed.

(* ... and the aggregate is attained: some attached node requests exactly that time *)
Lemma agg_attained m r :
  Good nobody m -> settled m r ->
  agg (m r) = N.min (sched (m r)) (first_sched_agg m r) ->
  exists y, desc m r y /\ sched (m y) = agg (m r).
Proof.
  intros Hg. pose proof (i_core _ (g_inv _ _ Hg)) as Hc. pose proof (c_wf _ Hc) as Hwf.
  destruct (c_acyc _ Hc) as (rk & B & Hrk & Hb).
  assert (Hgen : forall n x, B - rk x <= n -> settled m x ->
                 agg (m x) = N.min (sched (m x)) (first_sched_agg m x) ->
                 exists y, desc m x y /\ sched (m y) = agg (m x)).
  { induction n as [|n IH]; intros x Hn Hs Hagg.
    - (* rank at the bound: no children *)
      destruct (N.le_ge_cases (sched (m x)) (first_sched_agg m x)) as [Hle|Hge].
      + exists x. split; [constructor|]. rewrite Hagg. symmetry. now apply N.min_l.
      + unfold first_sched_agg in *. destruct (ls (m x)) as [|h t] eqn:Hls.
        * exists x. split; [constructor|]. rewrite Hagg. symmetry. apply N.min_l. apply (c_k6 _ Hc).
        * destruct (wf_in _ _ Hwf x h LSched) as [Hp _]; [simpl; rewrite Hls; now left|].
          pose proof (Hrk _ _ Hp). pose proof (Hb h). lia.
    - destruct (N.le_ge_cases (sched (m x)) (first_sched_agg m x)) as [Hle|Hge].
      + exists x. split; [constructor|]. rewrite Hagg. symmetry. now apply N.min_l.
      + unfold first_sched_agg in Hagg, Hge. destruct (ls (m x)) as [|h t] eqn:Hls.
        * exists x. split; [constructor|]. rewrite Hagg. symmetry. apply N.min_l. apply (c_k6 _ Hc).
        * destruct (wf_in _ _ Hwf x h LSched) as [Hp Hch]; [simpl; rewrite Hls; now left|].
          destruct (settled_child m x h Hg Hs Hp) as [Hsh Hsu].
          assert (Hexh : agg (m h) = N.min (sched (m h)) (first_sched_agg m h)).
          { apply (i_k3 _ (g_inv _ _ Hg)); [apply Hsh|assumption]. }
          destruct (IH h) as (y & Hd & Hy); [pose proof (Hrk _ _ Hp); lia|assumption|assumption|].
          exists y. split.
          -- apply desc_trans with (b := h); [eapply desc_child; [constructor|eassumption]|assumption].
          -- rewrite Hy, Hagg. symmetry. now apply N.min_r. }
  intros Hs Hagg. apply (Hgen (B - rk r) r); auto.
Qed.

Section RecalcMin.
  Variable gt : nmap -> nat -> nat -> N -> N -> N * list cop.
  Hypothesis gt_pure : forall m x k now prev, snd (gt m x k now prev) = [].

  (* recalc_min: after the manager's recalculation sweep on a root r, in any reachable (Good) state:
     every node attached below r has a valid time and nothing awaits recalculation; the time mn reported to
     the manager is the minimum of the times requested by the nodes attached below r (no node requests an
     earlier time, and some node requests exactly mn); scheduled lists are sorted (part of Good) *)
  Theorem recalc_min f s r now s' :
    Good nobody (nd s) -> is_root (nd s) r = true -> top_get gt f s r now = Some s' ->
    exists mn, hd_error (evs s') = Some (EMin r mn) /\ mn = agg (nd s' r) /\
      Good nobody (nd s') /\
      (forall y, desc (nd s') r y -> settled (nd s') y /\ (mn <= sched (nd s' y))%N) /\
      (exists y, desc (nd s') r y /\ sched (nd s' y) = mn) /\
      (forall y, parent (nd s' y) = parent (nd s y)).
  Proof.
    intros Hg Hr H. unfold top_get in H. rewrite Hr in H.
    destruct (get_aux gt f now s r NEVER) as [[s1 mn]|] eqn:Ha; [|discriminate]. inversion H; subst s'. simpl. clear H.
    destruct (is_root_facts _ _ Hr) as [_ Hp].
    assert (Hrn : rn (cur (nd s r))) by (right; apply (wf_root _ _ (c_wf _ (i_core _ (g_inv _ _ Hg)))); assumption).
    destruct (get_aux_spec gt gt_pure now f nobody s r NEVER s1 mn Hg Hrn Ha)
      as (Hg1 & Hpar & _ & Hv & Hlr & Hagg & _ & Hmn & _).
    assert (Hmn' : mn = agg (nd s1 r)).
    { rewrite Hmn. apply N.min_r. apply (c_k6 _ (i_core _ (g_inv _ _ Hg1))). }
    assert (Hs : settled (nd s1) r) by (split; assumption).
    exists mn. split; [reflexivity|]. split; [assumption|]. split; [assumption|]. split; [|split].
    - intros y Hd.
      split; [now apply (settled_desc (nd s1) r Hg1 Hs y Hd)|].
      destruct (agg_lower_bound (nd s1) r Hg1 Hs Hagg y Hd) as [H1 H2]. rewrite Hmn'. lia.
    - destruct (agg_attained (nd s1) r Hg1 Hs Hagg) as (y & Hd & Hy). exists y. split; [assumption|congruence].
    - intro y. now destruct (Hpar y) as [? _].
  Qed.
End RecalcMin.

(* an invalid node cannot be forgotten: it and every ancestor that has a parent sit on needs-recalc lists, so the
   next recalculation sweep from the root descends to it *)
Lemma invalid_on_recalc_path m x :
  Good nobody m -> valid (m x) = false ->
  forall a, desc m a x -> parent (m a) <> None -> cur (m a) = LRecalc.
Proof.
  intros Hg Hv. pose proof (i_core _ (g_inv _ _ Hg)) as Hc. pose proof (c_wf _ Hc) as Hwf.
  assert (Hrec : forall z, parent (m z) <> None -> rn (cur (m z)) -> cur (m z) = LRecalc).
  { intros z Hp [Hr|Hn]; [assumption|]. destruct (parent (m z)) as [p|] eqn:Hpz; [|congruence].
    exfalso. eapply (i_listed _ (g_inv _ _ Hg)); eauto. }
  assert (Hup : forall a z, desc m a z -> (parent (m z) <> None -> cur (m z) = LRecalc) ->
                            parent (m a) <> None -> cur (m a) = LRecalc).
  { intros a z Hd. induction Hd as [|c p Hd IH Hp]; intros Hz; [assumption|].
    apply IH. intro Hpp. apply Hrec; [assumption|]. apply (c_k1 _ Hc).
    assert (Hcc : cur (m c) = LRecalc) by (apply Hz; congruence).
    pose proof (wf_par _ _ Hwf c p (fun F => F) Hp) as Hin. rewrite Hcc in Hin. specialize (Hin ltac:(discriminate)).
    simpl in Hin. intro He. rewrite He in Hin. destruct Hin. }
  intros a Hd. apply (Hup a x Hd). intro Hp. apply Hrec; [assumption|].
  apply (g_k2 _ _ Hg); [intros []|assumption].
Qed.
