(* C20 -- the callback log of the recalculation sweep: GetPulseTime() is called exactly on the attached nodes
   whose time is not valid, once each, with (now, the previous value). *)
From Coq Require Import List Arith NArith Bool Lia.
From Muscle Require Import Pulse.PulseModel Pulse.PulseInv Pulse.PulseForest Pulse.PulseResched Pulse.PulseOps
     Pulse.PulseSweep Pulse.PulseReach Pulse.PulseMin Pulse.PulseExact.
Import ListNotations.

(* between s and s' the log grew by GetPulseTime events only; a node's time became valid exactly when it was
   asked; each event carries (now, the node's previous time); no node was asked twice *)
Definition ask_rel (now : N) (s s' : state) : Prop :=
  exists d, evs s' = d ++ evs s /\
    (forall y, valid (nd s y) = true -> valid (nd s' y) = true /\ sched (nd s' y) = sched (nd s y)) /\
    (forall y, valid (nd s' y) = false -> sched (nd s' y) = sched (nd s y)) /\
    (forall e, In e d -> exists y k, e = EGet y k now (sched (nd s y)) /\ valid (nd s y) = false /\ valid (nd s' y) = true) /\
    NoDup (map ev_node d) /\
    (forall y, valid (nd s y) = false -> valid (nd s' y) = true -> exists k, In (EGet y k now (sched (nd s y))) d).

Lemma ask_rel_quiet now s s' :
  evs s' = evs s -> (forall y, valid (nd s' y) = valid (nd s y) /\ sched (nd s' y) = sched (nd s y)) -> ask_rel now s s'.
Proof.
  intros He Hsame. exists []. split; [assumption|]. split; [|split; [|split; [intros e []|split; [constructor|]]]].
  - intros y Hy. destruct (Hsame y) as [-> ->]. auto.
  - intros y _. now destruct (Hsame y).
  - intros y H1 H2. destruct (Hsame y) as [Hv _]. congruence.
Qed.

Lemma ask_rel_trans now s1 s2 s3 : ask_rel now s1 s2 -> ask_rel now s2 s3 -> ask_rel now s1 s3.
Proof.
  intros (d1 & He1 & Hv1 & Hi1 & Hd1 & Hn1 & Hc1) (d2 & He2 & Hv2 & Hi2 & Hd2 & Hn2 & Hc2).
  assert (Hback : forall y, valid (nd s2 y) = false -> valid (nd s1 y) = false).
  { intros y H2. destruct (valid (nd s1 y)) eqn:E; [|reflexivity]. destruct (Hv1 y E). congruence. }
  exists (d2 ++ d1). split; [rewrite He2, He1; now rewrite app_assoc|]. split; [|split; [|split; [|split]]].
  - intros y Hy. destruct (Hv1 y Hy) as [Hy2 Hs2]. destruct (Hv2 y Hy2) as [Hy3 Hs3]. split; congruence.
  - intros y Hy3. assert (Hy2 : valid (nd s2 y) = false).
    { destruct (valid (nd s2 y)) eqn:E; [|reflexivity]. destruct (Hv2 y E). congruence. }
    rewrite (Hi2 y Hy3). now apply Hi1.
  - intros e Hin. apply in_app_iff in Hin. destruct Hin as [Hin|Hin].
    + destruct (Hd2 e Hin) as (y & k & -> & Hvy & Hvy'). exists y, k. rewrite (Hi1 y Hvy). auto.
    + destruct (Hd1 e Hin) as (y & k & -> & Hvy & Hvy'). exists y, k. split; [reflexivity|]. split; [assumption|].
      now destruct (Hv2 y Hvy').
  - rewrite map_app. apply nodup_app_intro; auto.
    intros n Hn2' Hn1'. apply in_map_iff in Hn2'. apply in_map_iff in Hn1'.
    destruct Hn2' as (e2 & <- & Hin2). destruct Hn1' as (e1 & Heq & Hin1).
    destruct (Hd2 e2 Hin2) as (y2 & k2 & -> & Hvy2 & _).
    destruct (Hd1 e1 Hin1) as (y1 & k1 & -> & _ & Hvy1). simpl in Heq. subst y1. congruence.
  - intros y Hy1 Hy3. destruct (valid (nd s2 y)) eqn:Hy2.
    + destruct (Hc1 y Hy1 Hy2) as (k & Hin). exists k. apply in_app_iff. now right.
    + destruct (Hc2 y Hy2 Hy3) as (k & Hin). exists k. apply in_app_iff. left. now rewrite <- (Hi1 y Hy2).
Qed.

Section Ask.
  Variable gt : nmap -> nat -> nat -> N -> N -> N * list cop.
  Hypothesis gt_pure : forall m x k now prev, snd (gt m x k now prev) = [].

  Lemma get_self_ask f s x now s1 : get_self gt f s x now = Some s1 -> ask_rel now s s1.
  Proof.
    intro H. unfold get_self in H. destruct (valid (nd s x)) eqn:Hv.
    - inversion H; subst. apply ask_rel_quiet; auto.
    - rewrite gt_pure in H. simpl in H. inversion H; subst s1. clear H.
      exists [EGet x (ngt (nd s x)) now (sched (nd s x))]. simpl. split; [reflexivity|].
      split; [|split; [|split; [|split]]].
      + intros y Hy. assert (y <> x) by congruence. now rewrite !upd_other by assumption.
      + intros y Hy. destruct (Nat.eq_dec y x) as [->|Hyx]; [rewrite !upd_same in Hy; discriminate|].
        now rewrite !upd_other by assumption.
      + intros e [<-|[]]. exists x, (ngt (nd s x)). split; [reflexivity|]. split; [assumption|].
        now rewrite !upd_same.
      + constructor; [intros []|constructor].
      + intros y H1 H2. destruct (Nat.eq_dec y x) as [->|Hyx]; [exists (ngt (nd s x)); now left|].
        rewrite !upd_other in H2 by assumption. congruence.
  Qed.

  Lemma get_aux_ask now : forall f G s x mn s' mn',
    Good G (nd s) -> rn (cur (nd s x)) -> get_aux gt f now s x mn = Some (s', mn') -> ask_rel now s s'.
  Proof.
    induction f as [|f IH]; intros G s x mn s' mn' Hg Hrn H; [discriminate|]. simpl in H.
    destruct (get_self gt f s x now) as [s1|] eqn:Hself; [|discriminate].
    destruct (loop_recalc (get_aux gt f now) f x s1 mn) as [[s2 mn2]|] eqn:Hloop; [|discriminate].
    destruct (get_self_good gt gt_pure G f s x now s1 Hg Hrn Hself) as (Hg1 & Hv1 & Hst1 & Ho1 & Ha1).
    pose proof (get_self_ask f s x now s1 Hself) as He1.
    assert (H2 : (Good G (nd s2) /\ ask_rel now s1 s2) /\ lr (nd s2 x) = []).
    { apply (loop_recalc_ind (fun si _ => Good G (nd si) /\ ask_rel now s1 si) (get_aux gt f now) x) with (k := f) (s := s1) (mn := mn) (mn' := mn2); [| |exact Hloop].
      - intros si c t mi si1 mi1 [Hgi Hei] Hl Hcall.
        destruct (wf_in _ _ (c_wf _ (i_core _ (g_inv _ _ Hgi))) x c LRecalc) as [_ Hcc]; [simpl; rewrite Hl; now left|].
        split.
        + now destruct (get_aux_spec gt gt_pure now f G si c mi si1 mi1 Hgi (or_introl Hcc) Hcall) as (? & _).
        + eapply ask_rel_trans; [exact Hei|]. eapply IH; eauto. now left.
      - split; [assumption|]. apply ask_rel_quiet; auto. }
    destruct H2 as [[Hg2 He2] Hlr2].
    eapply ask_rel_trans; [exact He1|]. eapply ask_rel_trans; [exact He2|].
    (* the tail changes aggregates and list membership only *)
    assert (Hv2 : valid (nd s2 x) = true).
    { destruct He2 as (_ & _ & Hm & _). now destruct (Hm x Hv1). }
    assert (Hrn2 : rn (cur (nd s2 x))).
    { clear -Hg Hg1 Hrn Hst1 Hloop Hself gt_pure Hg2.
      (* _curList of x is untouched by the frames of its children: use the sweep spec of the whole call *)
      destruct (Hst1 x) as (_ & Hc1 & _).
      assert (forall k si mi sj mj, Good G (nd si) -> cur (nd si x) = cur (nd s x) ->
                loop_recalc (get_aux gt f now) k x si mi = Some (sj, mj) -> cur (nd sj x) = cur (nd s x)) as Hgen.
      { induction k as [|k IHk]; intros si mi sj mj Hgi Hci Hl; [discriminate|]. simpl in Hl.
        destruct (lr (nd si x)) as [|c t] eqn:Hlr; [inversion Hl; subst; assumption|].
        destruct (get_aux gt f now si c mi) as [[sk mk]|] eqn:Hc; [|discriminate].
        destruct (wf_in _ _ (c_wf _ (i_core _ (g_inv _ _ Hgi))) x c LRecalc) as [Hpc Hcc]; [simpl; rewrite Hlr; now left|].
        destruct (get_aux_spec gt gt_pure now f G si c mi sk mk Hgi (or_introl Hcc) Hc) as (Hgk & _ & Hfk & _).
        apply (IHk sk mk sj mj Hgk); [|assumption].
        destruct (Hfk x) as (E & _); [apply acyc_no_cycle; [apply (c_acyc _ (i_core _ (g_inv _ _ Hgi)))|assumption]|].
        congruence. }
      rewrite (Hgen f s1 mn s2 mn2 Hg1 Hc1 Hloop). assumption. }
    destruct (get_finish_good G f s2 x mn2 s' mn' Hg2 Hrn2 Hv2 Hlr2 H) as (_ & [_ Hfo] & Hv' & Hs' & _ & _ & _ & Hev & _).
    apply ask_rel_quiet; [assumption|]. intro y. destruct (Nat.eq_dec y x) as [->|Hyx]; [split; congruence|].
    destruct (Hfo y Hyx) as (_ & E2 & E3 & _). auto.
  Qed.

  (* recalc_asks: the recalculation sweep on a root r calls GetPulseTime() on exactly the nodes attached below r
     whose time is not valid -- once each, with (now, previous value) -- and on nobody else *)
  Theorem recalc_asks f s r now s' :
    Good nobody (nd s) -> is_root (nd s) r = true -> top_get gt f s r now = Some s' ->
    exists mn d, evs s' = EMin r mn :: d ++ evs s /\ NoDup (map ev_node d) /\
      (forall e, In e d -> exists y k, e = EGet y k now (sched (nd s y)) /\ desc (nd s) r y /\ valid (nd s y) = false) /\
      (forall y, desc (nd s) r y -> valid (nd s y) = false -> exists k, In (EGet y k now (sched (nd s y))) d).
  Proof.
    intros Hg Hr H. unfold top_get in H. rewrite Hr in H.
    destruct (get_aux gt f now s r NEVER) as [[s1 mn]|] eqn:Ha; [|discriminate]. inversion H; subst s'. simpl. clear H.
    destruct (is_root_facts _ _ Hr) as [_ Hp].
    assert (Hrn : rn (cur (nd s r))) by (right; apply (wf_root _ _ (c_wf _ (i_core _ (g_inv _ _ Hg)))); assumption).
    destruct (get_aux_ask now f nobody s r NEVER s1 mn Hg Hrn Ha) as (d & He & Hm & Hi & Hd & Hn & Hc).
    destruct (get_aux_spec gt gt_pure now f nobody s r NEVER s1 mn Hg Hrn Ha) as (Hg1 & Hpar & Hfr & Hv & Hlr & _).
    exists mn, d. split; [now rewrite He|]. split; [assumption|]. split.
    - intros e Hin. destruct (Hd e Hin) as (y & k & -> & Hv0 & Hv1). exists y, k. split; [reflexivity|]. split; [|assumption].
      destruct (c_acyc _ (i_core _ (g_inv _ _ Hg))) as (rk & B & Hrk & _).
      destruct (is_anc_spec (nd s) rk Hrk (S (rk y)) r y) as (b & _ & Hb); [lia|].
      destruct b; [now apply Hb|]. exfalso.
      assert (Hnd : ~ desc (nd s) r y) by (intro F; apply Hb in F; discriminate).
      destruct (Hfr y Hnd) as (_ & E & _). congruence.
    - intros y Hdy Hv0. apply Hc; [assumption|].
      assert (Hs : settled (nd s1) r) by (split; assumption).
      assert (Hdy1 : desc (nd s1) r y) by (apply (desc_parent_ext (nd s)); [intro z; now destruct (Hpar z)|assumption]).
      now destruct (settled_desc (nd s1) r Hg1 Hs y Hdy1) as [[? _] _].
  Qed.
End Ask.

(* ------------------------------------------------------------------ one server cycle *)

Section Cycle.
  Variable gt : nmap -> nat -> nat -> N -> N -> N * list cop.
  Variable pl : nmap -> nat -> nat -> N -> N -> list cop.
  Hypothesis gt_pure : forall m x k now prev, snd (gt m x k now prev) = [].
  Hypothesis pl_pure : forall m x k now st, pl m x k now st = [].

  (* cycle_exact: when a tree is "pulsed at time now" by the manager -- recalculation sweep, then pulse sweep, as
     ReflectServer does each time it wakes up -- in ANY reachable state: every attached node has been asked, the
     reported wake-up time is the minimum of the requested times, and Pulse() runs on exactly the attached nodes
     whose requested time is <= now, once each, with (now, requested time); each of them is invalid afterwards and
     on its parent's needs-recalc list, so the next cycle asks it again *)
  Theorem cycle_exact f s r now s' :
    (now < NEVER)%N -> Good nobody (nd s) -> is_root (nd s) r = true ->
    step gt pl f s (TCycle r now) = Some s' ->
    exists s1 mn,
      top_get gt f s r now = Some s1 /\ top_pulse pl f s1 r now = Some s' /\
      hd_error (evs s1) = Some (EMin r mn) /\
      (forall y, desc (nd s1) r y -> valid (nd s1 y) = true /\ (mn <= sched (nd s1 y))%N) /\
      (exists y, desc (nd s1) r y /\ sched (nd s1 y) = mn) /\
      Good nobody (nd s') /\
      exists d, evs s' = d ++ evs s1 /\ NoDup (map ev_node d) /\
        (forall e, In e d -> exists y k, e = EPulse y k now (sched (nd s1 y)) /\ desc (nd s1) r y /\ (sched (nd s1 y) <= now)%N) /\
        (forall y, desc (nd s1) r y -> (sched (nd s1 y) <= now)%N -> exists k, In (EPulse y k now (sched (nd s1 y))) d) /\
        (forall y, desc (nd s1) r y -> (sched (nd s1 y) <= now)%N ->
                   valid (nd s' y) = false /\ (parent (nd s' y) <> None -> cur (nd s' y) = LRecalc)).
  Proof.
    intros Hnow Hg Hr H. simpl in H.
    destruct (top_get gt f s r now) as [s1|] eqn:H1; [|discriminate].
    destruct (recalc_min gt gt_pure f s r now s1 Hg Hr H1) as (mn & Hev & Hmn & Hg1 & Hall & Hatt & Hpar).
    exists s1, mn. split; [reflexivity|]. split; [assumption|]. split; [assumption|]. split.
    { intros y Hd. destruct (Hall y Hd) as [[Hv _] Hle]. auto. }
    split; [assumption|].
    (* the premises of pulse_exact at s1 *)
    pose proof H1 as H1'. unfold top_get in H1'. rewrite Hr in H1'.
    destruct (get_aux gt f now s r NEVER) as [[s0 mn0]|] eqn:Ha; [|discriminate]. inversion H1'; subst s1. simpl in *.
    destruct (is_root_facts _ _ Hr) as [Hal Hp].
    assert (Hrn : rn (cur (nd s r))) by (right; apply (wf_root _ _ (c_wf _ (i_core _ (g_inv _ _ Hg)))); assumption).
    destruct (get_aux_spec gt gt_pure now f nobody s r NEVER s0 mn0 Hg Hrn Ha) as (_ & Hst & _ & Hv & Hlr & Hagg & _).
    assert (Hr1 : is_root (nd s0) r = true).
    { unfold is_root. destruct (Hst r) as [-> ->]. rewrite Hal, Hp. reflexivity. }
    assert (Hset : settled (nd s0) r) by (split; assumption).
    apply (pulse_exact pl pl_pure f (mkSt (nd s0) (EMin r mn0 :: evs s0)) r now s' Hnow Hg1 Hr1 Hset Hagg H).
  Qed.
End Cycle.
