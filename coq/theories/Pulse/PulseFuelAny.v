(* C20 -- fuel adequacy of the pulse sweep for Pulse() callbacks that perform arbitrary operations: with
   fuel >= 3N+4 (N bounds the ids of the nodes in use) the sweep never runs out of fuel. *)
From Coq Require Import List Arith NArith Bool Lia.
From Muscle Require Import Pulse.PulseModel Pulse.PulseInv Pulse.PulseForest Pulse.PulseResched Pulse.PulseOps
     Pulse.PulseSweep Pulse.PulseReach Pulse.PulseMin Pulse.PulseExact Pulse.PulseFuel Pulse.PulseDepth.
Import ListNotations.

(* what every operation leaves alone: a node that is on a scheduled or unscheduled list afterwards was on the same list
   before, below the same parent; no object comes to life *)
Definition cop_mono (m m' : nmap) : Prop :=
  (forall z, su (cur (m' z)) -> cur (m z) = cur (m' z) /\ parent (m' z) = parent (m z)) /\
  (forall z, alive (m' z) = true -> alive (m z) = true).

Lemma cop_mono_sched m m' z : cop_mono m m' -> cur (m' z) = LSched -> cur (m z) = LSched /\ parent (m' z) = parent (m z).
Proof. intros [H _] Hz. destruct (H z (or_introl Hz)) as [Hc Hp]. split; congruence. Qed.

Lemma cop_mono_refl m : cop_mono m m.
Proof. split; auto. Qed.

Lemma cop_mono_trans m1 m2 m3 : cop_mono m1 m2 -> cop_mono m2 m3 -> cop_mono m1 m3.
Proof.
  intros [H1 A1] [H2 A2]. split; [|auto].
  intros z Hz. destruct (H2 z Hz) as [Hc Hp]. rewrite <- Hc in Hz. destruct (H1 z Hz) as [Hc' Hp']. split; congruence.
Qed.

Lemma resched_cop_mono f m p c w m' :
  WF m -> parent (m c) = Some p -> rn w -> resched f m p c w = Some m' -> cop_mono m m'.
Proof.
  intros Hwf Hpar Hw H.
  assert (Hns : forall x, parent (m x) <> Some x) by apply (wf_noself _ _ Hwf).
  assert (Hpc : p <> c) by (intro; subst; now apply (Hns c)).
  pose proof (resched_scalars f m p c w m' Hpar Hpc Hns H) as Hsc.
  destruct (resched_cur f m p c w m' Hpar Hpc Hns H) as [Hcc Hco].
  split.
  - intros z Hz. destruct (Hsc z) as (Hp & _). split; [|assumption].
    destruct (Nat.eq_dec z c) as [->|Hzc]; [rewrite Hcc in Hz; exfalso; eapply rn_not_su; eauto|].
    destruct (Hco z Hzc) as [He|[_ He]]; [congruence|]. rewrite He in Hz. destruct Hz; discriminate.
  - intros z Hz. destruct (Hsc z) as (_&_&_&_&Ha&_). congruence.
Qed.

Lemma resched_up_cop_mono f m x m' : WF m -> resched_up f m x = Some m' -> cop_mono m m'.
Proof.
  intros Hwf H. unfold resched_up in H. destruct (parent (m x)) as [p|] eqn:Hp.
  - eapply resched_cop_mono; eauto. now left.
  - inversion H; subst. apply cop_mono_refl.
Qed.

Lemma cop_mono_struct m m' : same_struct m m' -> cop_mono m m'.
Proof.
  intros Hs. split; intros z Hz; destruct (Hs z) as (Hp&Hc&_&_&_&Ha); [split; congruence|congruence].
Qed.

Lemma invalidate_cop_mono G f m x cl m' : Good G m -> invalidate f m x cl = Some m' -> cop_mono m m'.
Proof.
  intros Hg H. unfold invalidate in H.
  set (m1 := if cl then upd m x (set_sched (m x) NEVER) else m) in *.
  assert (Hs1 : same_struct m m1).
  { unfold m1. destruct cl; [apply same_struct_upd_scalar; reflexivity|intro y; repeat split]. }
  destruct (valid (m1 x)).
  - set (m2 := upd m1 x (set_valid (m1 x) false)) in *.
    assert (Hs2 : same_struct m1 m2) by (apply same_struct_upd_scalar; reflexivity).
    eapply cop_mono_trans; [apply cop_mono_struct; exact Hs1|].
    eapply cop_mono_trans; [apply cop_mono_struct; exact Hs2|].
    eapply resched_up_cop_mono; [|exact H].
    eapply WFx_struct; [exact Hs2|]. eapply WFx_struct; [exact Hs1|]. apply (c_wf _ (i_core _ (g_inv _ _ Hg))).
  - inversion H; subst. apply cop_mono_struct; exact Hs1.
Qed.

Lemma remove_child_cop_mono G f m p c m' :
  Good G m -> parent (m c) = Some p -> remove_child f m p c = Some m' -> cop_mono m m'.
Proof.
  intros Hg Hpar H. pose proof (i_core _ (g_inv _ _ Hg)) as Hc. pose proof (c_wf _ Hc) as Hwf.
  unfold remove_child in H.
  assert (Hpe : opt_nat_eqb (parent (m c)) p = true) by (rewrite Hpar; simpl; apply Nat.eqb_refl).
  rewrite Hpe in H. destruct (resched f m p c LNone) as [m1|] eqn:Hr; [|discriminate].
  assert (Hcl : cur (m c) <> LNone) by (eapply (i_listed _ (g_inv _ _ Hg)); eauto).
  pose proof (resched_cop_mono f m p c LNone m1 Hwf Hpar (or_intror eq_refl) Hr) as Hm1.
  apply resched_None in Hr; [|assumption]. subst m1.
  assert (Hpc : p <> c) by (intro; subst; now apply (wf_noself _ _ Hwf c)).
  fold (orphan (unlink m p c LNone) c) in H. set (m2 := orphan (unlink m p c LNone) c) in *.
  assert (H12 : cop_mono (unlink m p c LNone) m2).
  { split.
    - intros z Hz. unfold m2 in *. rewrite orphan_cur in *. split; [reflexivity|].
      destruct (Nat.eq_dec z c) as [->|Hzc]; [rewrite unlink_cur_c in Hz by assumption; destruct Hz; discriminate|].
      now rewrite orphan_parent_o.
    - intros z Hz. unfold m2 in Hz. now rewrite orphan_alive in Hz. }
  destruct (opt_nat_eqb (hd_error (ls (m p))) c).
  - eapply cop_mono_trans; [exact Hm1|]. eapply cop_mono_trans; [exact H12|].
    assert (Hc2 : Core m2).
    { unfold m2. apply Core_orphan.
      - now apply Core_unlink_none.
      - now apply unlink_cur_c.
      - intros q l Hin. apply (unlink_in_wf noexc m p c LNone Hwf Hpar) in Hin. tauto. }
    eapply resched_up_cop_mono; [apply (c_wf _ Hc2)|exact H].
  - inversion H; subst. eapply cop_mono_trans; eauto.
Qed.

Lemma clear_list_cop_mono G : forall f m x l m', Good G m -> clear_list f m x l = Some m' -> cop_mono m m'.
Proof.
  induction f as [|f IH]; intros m x l m' Hg H; [discriminate|]. simpl in H.
  destruct (get_list (m x) l) as [|c t] eqn:Hl; [inversion H; subst; apply cop_mono_refl|].
  destruct (remove_child f m x c) as [m1|] eqn:Hr; [|discriminate].
  assert (Hpar : parent (m c) = Some x).
  { apply (wf_in _ _ (c_wf _ (i_core _ (g_inv _ _ Hg))) x c l). rewrite Hl. now left. }
  destruct (remove_child_spec G f m x c m1 Hg Hpar Hr) as (Hg1 & _).
  eapply cop_mono_trans; [eapply remove_child_cop_mono; eauto|eapply IH; eauto].
Qed.

Lemma clear_children_cop_mono G f m x m' : Good G m -> clear_children f m x = Some m' -> cop_mono m m'.
Proof.
  intros Hg H. unfold clear_children in H.
  destruct (clear_list f m x LSched) as [m1|] eqn:H1; [|discriminate].
  destruct (clear_list f m1 x LUnsched) as [m2|] eqn:H2; [|discriminate].
  destruct (clear_list_spec G f m x LSched m1 Hg H1) as (Hg1 & _).
  destruct (clear_list_spec G f m1 x LUnsched m2 Hg1 H2) as (Hg2 & _).
  eapply cop_mono_trans; [eapply clear_list_cop_mono; eauto|].
  eapply cop_mono_trans; [eapply clear_list_cop_mono; eauto|eapply clear_list_cop_mono; eauto].
Qed.

Lemma apply_cop_cop_mono G f m o m' : Good G m -> apply_cop f m o = Some m' -> cop_mono m m'.
Proof.
  intros Hg H. destruct o as [x cl|p c|p c|x|x]; simpl in H.
  - destruct (alive (m x)); [|inversion H; subst; apply cop_mono_refl]. eapply invalidate_cop_mono; eauto.
  - destruct (alive (m p)); [|inversion H; subst; apply cop_mono_refl].
    destruct (alive (m c)); [|inversion H; subst; apply cop_mono_refl].
    destruct (Nat.eqb_spec p c) as [Heq|Hpc]; [inversion H; subst; apply cop_mono_refl|]. simpl in H.
    destruct (is_anc f m c p) as [[|]|] eqn:Ha; [inversion H; subst; apply cop_mono_refl| |discriminate].
    unfold put_child in H.
    assert (Hm1 : exists m1, Good G m1 /\ cop_mono m m1 /\ parent (m1 c) = None /\
                             resched f (adopt m1 p c) p c LRecalc = Some m').
    { destruct (parent (m c)) as [q|] eqn:Hq.
      - destruct (remove_child f m q c) as [m1|] eqn:Hr; [|discriminate].
        destruct (remove_child_spec G f m q c m1 Hg Hq Hr) as (Hg1 & Hp1 & _).
        exists m1. split; [assumption|]. split; [eapply remove_child_cop_mono; eauto|auto].
      - exists m. split; [assumption|]. split; [apply cop_mono_refl|auto]. }
    destruct Hm1 as (m1 & Hg1 & Hv1 & Hroot & Hr).
    eapply cop_mono_trans; [exact Hv1|].
    pose proof (c_wf _ (i_core _ (g_inv _ _ Hg1))) as Hwf1.
    assert (Hcc : cur (m1 c) = LNone) by now apply (wf_root _ _ Hwf1).
    (* the adopted child ends on the needs-recalc list; nobody else's parent changes *)
    assert (Hns : forall y, parent (adopt m1 p c y) <> Some y).
    { intro y. destruct (Nat.eq_dec y c) as [->|Hy]; [rewrite adopt_parent_c; congruence|].
      rewrite adopt_parent_o by assumption. apply (wf_noself _ _ Hwf1). }
    pose proof (resched_scalars f (adopt m1 p c) p c LRecalc m' (adopt_parent_c m1 p c) Hpc Hns Hr) as Hsc.
    destruct (resched_cur f (adopt m1 p c) p c LRecalc m' (adopt_parent_c m1 p c) Hpc Hns Hr) as [Hcur Hco].
    split.
    + intros z Hz. destruct (Nat.eq_dec z c) as [->|Hzc]; [rewrite Hcur in Hz; destruct Hz; discriminate|].
      destruct (Hsc z) as (Hp & _). rewrite adopt_parent_o in Hp by assumption.
      destruct (Hco z Hzc) as [He|[_ He]]; [|rewrite He in Hz; destruct Hz; discriminate]. rewrite adopt_cur in He. split; congruence.
    + intros z Hz. destruct (Hsc z) as (_&_&_&_&Ha'&_). rewrite adopt_alive in Ha'. congruence.
  - destruct (alive (m p) && alive (m c)); [|inversion H; subst; apply cop_mono_refl].
    destruct (parent (m c)) as [q|] eqn:Hq.
    + destruct (Nat.eq_dec q p) as [->|Hne]; [eapply remove_child_cop_mono; eauto|].
      unfold remove_child in H. rewrite Hq in H. simpl in H. apply Nat.eqb_neq in Hne. rewrite Hne in H.
      inversion H; subst; apply cop_mono_refl.
    + unfold remove_child in H. rewrite Hq in H. simpl in H. inversion H; subst; apply cop_mono_refl.
  - destruct (alive (m x)); [|inversion H; subst; apply cop_mono_refl]. eapply clear_children_cop_mono; eauto.
  - destruct (alive (m x)); [|inversion H; subst; apply cop_mono_refl].
    unfold destroy in H.
    assert (Hm1 : exists m1, Good G m1 /\ cop_mono m m1 /\
                  match clear_children f m1 x with None => None | Some m2 => Some (upd m2 x (set_alive (m2 x) false)) end = Some m').
    { destruct (parent (m x)) as [p|] eqn:Hp.
      - destruct (remove_child f m p x) as [m1|] eqn:Hr; [|discriminate].
        destruct (remove_child_spec G f m p x m1 Hg Hp Hr) as (Hg1 & _). exists m1.
        split; [assumption|]. split; [eapply remove_child_cop_mono; eauto|auto].
      - exists m. split; [assumption|]. split; [apply cop_mono_refl|auto]. }
    destruct Hm1 as (m1 & Hg1 & Hv1 & H1).
    destruct (clear_children f m1 x) as [m2|] eqn:Hcl; [|discriminate]. inversion H1; subst m'.
    eapply cop_mono_trans; [exact Hv1|]. eapply cop_mono_trans; [eapply clear_children_cop_mono; eauto|].
    split.
    + intros z Hz. destruct (upd_cases m2 x (set_alive (m2 x) false) z) as [[-> Hu]|[_ Hu]]; rewrite Hu in *; auto.
    + intros z Hz. destruct (upd_cases m2 x (set_alive (m2 x) false) z) as [[-> Hu]|[_ Hu]]; rewrite Hu in *; [discriminate|assumption].
Qed.

Lemma run_cops_cop_mono G f : forall os m m', Good G m -> run_cops f m os = Some m' -> cop_mono m m'.
Proof.
  induction os as [|o t IH]; intros m m' Hg H; simpl in H; [inversion H; subst; apply cop_mono_refl|].
  destruct (apply_cop f m o) as [m1|] eqn:Ho; [|discriminate].
  eapply cop_mono_trans; [eapply apply_cop_cop_mono; eauto|].
  eapply IH; [|eassumption]. eapply apply_cop_good; eauto.
Qed.

(* ------------------------------------------------------------------ counting the nodes on scheduled lists *)

Definition is_sched (m : nmap) (y : nat) : bool := lst_eqb (cur (m y)) LSched.
Definition cnt (N : nat) (m : nmap) : nat := length (filter (is_sched m) (seq 0 N)).

Lemma filter_len_le {A} (P : A -> bool) l : length (filter P l) <= length l.
Proof. induction l as [|a t IH]; simpl; [lia|]. destruct (P a); simpl; lia. Qed.

Lemma cnt_le N m : cnt N m <= N.
Proof. unfold cnt. etransitivity; [apply filter_len_le|]. now rewrite seq_length. Qed.

Lemma filter_count_lt (P P' : nat -> bool) l c :
  (forall y, P' y = true -> P y = true) -> In c l -> P c = true -> P' c = false ->
  length (filter P' l) < length (filter P l).
Proof.
  intros Himp. induction l as [|a t IH]; intros Hin Hc Hc'; [destruct Hin|]. simpl.
  assert (Hle : length (filter P' t) <= length (filter P t)).
  { clear -Himp. induction t as [|b r IHr]; simpl; [lia|].
    destruct (P' b) eqn:E; [rewrite (Himp b E); simpl; lia|]. destruct (P b); simpl; lia. }
  destruct Hin as [->|Hin].
  - rewrite Hc, Hc'. simpl. lia.
  - specialize (IH Hin Hc Hc'). destruct (P' a) eqn:E; [rewrite (Himp a E); simpl; lia|].
    destruct (P a); simpl; lia.
Qed.

Lemma cnt_decrease N m m' c :
  cop_mono m m' -> c < N -> cur (m c) = LSched -> cur (m' c) <> LSched -> cnt N m' < cnt N m.
Proof.
  intros Hm Hc H1 H2. unfold cnt. apply filter_count_lt with (c := c).
  - intros y Hy. unfold is_sched in *. apply lst_eqb_eq in Hy. apply lst_eqb_eq. now destruct (cop_mono_sched _ _ y Hm Hy).
  - apply in_seq. lia.
  - unfold is_sched. rewrite H1. reflexivity.
  - unfold is_sched. apply lst_eqb_neq. assumption.
Qed.

(* ------------------------------------------------------------------ the stack of running PulseAux frames *)

Fixpoint J (F : list nat) (m : nmap) : Prop :=
  match F with
  | [] => True
  | z :: rest => (cur (m z) = LSched -> parent (m z) = hd_error rest) /\ J rest m
  end.

Lemma J_mono F m m' : cop_mono m m' -> J F m -> J F m'.
Proof.
  intros Hm. induction F as [|z rest IH]; simpl; [auto|]. intros [H1 H2]. split; [|auto].
  intro Hz. destruct (cop_mono_sched _ _ z Hm Hz) as [Hc Hp]. rewrite Hp. auto.
Qed.

Lemma J_in F m c :
  J F m -> In c F -> cur (m c) = LSched -> parent (m c) = None \/ exists q, In q F /\ parent (m c) = Some q.
Proof.
  induction F as [|z rest IH]; simpl; intros HJ Hin Hc; [destruct Hin|]. destruct HJ as [H1 H2].
  destruct Hin as [->|Hin].
  - rewrite (H1 Hc). destruct rest as [|q r]; [left; reflexivity|right; exists q; split; [right; now left|reflexivity]].
  - destruct (IH H2 Hin Hc) as [Hn|(q & Hq & Hp)]; [now left|right; exists q; split; [now right|assumption]].
Qed.

Lemma loop_sched_total_mu (I : state -> Prop) (mu : state -> nat) call x now :
  (forall s c t, I s -> ls (nd s x) = c :: t -> (agg (nd s c) <= now)%N ->
     exists s1, call s c = Some s1 /\ I s1 /\ mu s1 < mu s) ->
  forall k s, I s -> mu s < k -> exists r, loop_sched call k x now s = Some r.
Proof.
  intros Hcall. induction k as [|k IH]; intros s Hi Hk; [lia|]. simpl.
  destruct (ls (nd s x)) as [|c t] eqn:Hl; [eauto|].
  destruct (N.leb_spec (agg (nd s c)) now) as [Hle|Hgt]; [|eauto].
  destruct (Hcall s c t Hi Hl Hle) as (s1 & -> & Hi1 & Hlen). apply IH; [assumption|lia].
Qed.

Section AnyPulseFuel.
  Variable pl : nmap -> nat -> nat -> N -> N -> list cop.

  Lemma run_cops_fuel G N f : forall os m,
    Good G m -> (forall y, alive (m y) = true -> y < N) -> 2 * N + 2 <= f -> exists m', run_cops f m os = Some m'.
  Proof.
    induction os as [|o t IH]; intros m Hg Ha Hf; simpl; [eauto|].
    destruct (small_rank m N (c_acyc _ (i_core _ (g_inv _ _ Hg))) (kids_lt_of_alive G N m Hg Ha)) as (rk & He & Hb).
    destruct (apply_cop_fuel G rk N N f m o Hg He Hb Ha) as (m1 & H1); [lia|]. rewrite H1.
    apply IH; [eapply apply_cop_good; eauto| |assumption].
    destruct (apply_cop_cop_mono G f m o m1 Hg H1) as [_ Hal]. intros y Hy. apply Ha. auto.
  Qed.

  (* what a whole PulseAux frame leaves alone, and where it leaves its own node *)
  Lemma pulse_aux_mono now : forall f G s x s',
    Good G (nd s) -> pulse_aux pl f now s x = Some s' -> cop_mono (nd s) (nd s') /\ cur (nd s' x) <> LSched.
  Proof.
    induction f as [|f IH]; intros G s x s' Hg H; [discriminate|]. simpl in H.
    destruct (pulse_self pl f s x now) as [s1|] eqn:Hs; [|discriminate].
    destruct (loop_sched (pulse_aux pl f now) f x now s1) as [s2|] eqn:Hl; [|discriminate].
    destruct (resched_up f (nd s2) x) as [m3|] eqn:Hr; [|discriminate]. inversion H; subst s'. simpl. clear H.
    pose proof (pulse_self_good pl G f s x now s1 Hg Hs) as Hg1.
    set (G' := fun y => G y \/ y = x) in *.
    assert (Hm1 : cop_mono (nd s) (nd s1)).
    { unfold pulse_self in Hs. destruct (valid (nd s x) && N.leb (sched (nd s x)) now); [|inversion Hs; subst; apply cop_mono_refl].
      set (m1 := upd (nd s) x (set_npl (nd s x) (S (npl (nd s x))))) in *.
      destruct (run_cops f m1 (pl m1 x (npl (nd s x)) now (sched (nd s x)))) as [m2|] eqn:Hrc; [|discriminate].
      inversion Hs; subst s1. simpl.
      assert (Hs01 : same_struct (nd s) m1) by (apply same_struct_upd_scalar; reflexivity).
      assert (Hgm1 : Good G m1).
      { unfold m1. apply Good_scalar_upd;
          [exact Hg|reflexivity|reflexivity|reflexivity|reflexivity|reflexivity|reflexivity|reflexivity| | | ].
        - apply (c_k6 _ (i_core _ (g_inv _ _ Hg))).
        - simpl. auto.
        - simpl. intros Hv' HG. now apply (g_k2 _ _ Hg). }
      eapply cop_mono_trans; [apply cop_mono_struct; exact Hs01|].
      eapply cop_mono_trans; [eapply run_cops_cop_mono; eauto|].
      apply cop_mono_struct. apply same_struct_upd_scalar; reflexivity. }
    assert (H2 : Good G' (nd s2) /\ cop_mono (nd s1) (nd s2)).
    { apply (loop_sched_ind (fun si => Good G' (nd si) /\ cop_mono (nd s1) (nd si)) (pulse_aux pl f now)) with (k := f) (x := x) (now := now) (s := s1); [| |exact Hl].
      - intros si c si1 [Hgi Hmi] Hcall. split; [eapply pulse_aux_good; eauto|].
        eapply cop_mono_trans; [exact Hmi|]. now destruct (IH G' si c si1 Hgi Hcall).
      - split; [assumption|apply cop_mono_refl]. }
    destruct H2 as [Hg2 Hm2]. pose proof (c_wf _ (i_core _ (g_inv _ _ Hg2))) as Hwf2.
    split.
    - eapply cop_mono_trans; [exact Hm1|]. eapply cop_mono_trans; [exact Hm2|]. eapply resched_up_cop_mono; eauto.
    - unfold resched_up in Hr. destruct (parent (nd s2 x)) as [p|] eqn:Hp.
      + assert (Hns2 : forall y, parent (nd s2 y) <> Some y) by apply (wf_noself _ _ Hwf2).
        assert (Hpx : p <> x) by (intro; subst; now apply (Hns2 x)).
        destruct (resched_cur f (nd s2) p x LRecalc m3 Hp Hpx Hns2 Hr) as [Hc _]. rewrite Hc. discriminate.
      + inversion Hr; subst m3. rewrite (wf_root _ _ Hwf2 x Hp). discriminate.
  Qed.

  Lemma pulse_aux_fuel_any now N : forall f F G s x,
    Good G (nd s) -> (forall y, alive (nd s y) = true -> y < N) ->
    NoDup (x :: F) -> (forall z, In z (x :: F) -> z < N) -> J (x :: F) (nd s) ->
    3 * N + 3 <= f + length F -> exists s', pulse_aux pl f now s x = Some s'.
  Proof.
    induction f as [|f IH]; intros F G s x Hg Ha Hnd Hlt HJ Hf.
    { exfalso. assert (length (x :: F) <= N).
      { rewrite <- (seq_length N 0). apply NoDup_incl_length; [assumption|].
        intros z Hz. apply in_seq. specialize (Hlt z Hz). lia. }
      simpl in *. lia. }
    assert (HlenF : length (x :: F) <= N).
    { rewrite <- (seq_length N 0). apply NoDup_incl_length; [assumption|].
      intros z Hz. apply in_seq. specialize (Hlt z Hz). lia. }
    simpl in HlenF. simpl.
    (* the node's own Pulse() *)
    assert (Hself : exists s1, pulse_self pl f s x now = Some s1).
    { unfold pulse_self. destruct (valid (nd s x) && N.leb (sched (nd s x)) now); [|eauto].
      set (m1 := upd (nd s) x (set_npl (nd s x) (S (npl (nd s x))))).
      assert (Hgm1 : Good G m1).
      { unfold m1. apply Good_scalar_upd;
          [exact Hg|reflexivity|reflexivity|reflexivity|reflexivity|reflexivity|reflexivity|reflexivity| | | ].
        - apply (c_k6 _ (i_core _ (g_inv _ _ Hg))).
        - simpl. auto.
        - simpl. intros Hv' HG. now apply (g_k2 _ _ Hg). }
      destruct (run_cops_fuel G N f (pl m1 x (npl (nd s x)) now (sched (nd s x))) m1 Hgm1) as (m2 & ->); [|lia|eauto].
      intros y Hy. apply Ha. unfold m1 in Hy.
      destruct (upd_cases (nd s) x (set_npl (nd s x) (S (npl (nd s x)))) y) as [[-> Hu]|[_ Hu]]; rewrite Hu in Hy; exact Hy. }
    destruct Hself as (s1 & Hs). rewrite Hs.
    pose proof (pulse_self_good pl G f s x now s1 Hg Hs) as Hg1.
    set (G' := fun y => G y \/ y = x) in *.
    (* a one-level unfolding of the frame gives what pulse_self leaves alone *)
    assert (Hm1 : cop_mono (nd s) (nd s1)).
    { unfold pulse_self in Hs. destruct (valid (nd s x) && N.leb (sched (nd s x)) now); [|inversion Hs; subst; apply cop_mono_refl].
      set (m1 := upd (nd s) x (set_npl (nd s x) (S (npl (nd s x))))) in *.
      destruct (run_cops f m1 (pl m1 x (npl (nd s x)) now (sched (nd s x)))) as [m2|] eqn:Hrc; [|discriminate].
      inversion Hs; subst s1. simpl.
      assert (Hs01 : same_struct (nd s) m1) by (apply same_struct_upd_scalar; reflexivity).
      assert (Hgm1 : Good G m1).
      { unfold m1. apply Good_scalar_upd;
          [exact Hg|reflexivity|reflexivity|reflexivity|reflexivity|reflexivity|reflexivity|reflexivity| | | ].
        - apply (c_k6 _ (i_core _ (g_inv _ _ Hg))).
        - simpl. auto.
        - simpl. intros Hv' HG. now apply (g_k2 _ _ Hg). }
      eapply cop_mono_trans; [apply cop_mono_struct; exact Hs01|].
      eapply cop_mono_trans; [eapply run_cops_cop_mono; eauto|].
      apply cop_mono_struct. apply same_struct_upd_scalar; reflexivity. }
    set (I := fun si : state => Good G' (nd si) /\ (forall y, alive (nd si y) = true -> y < N) /\ J (x :: F) (nd si)).
    assert (HI1 : I s1).
    { split; [assumption|]. split; [intros y Hy; apply Ha; now apply (proj2 Hm1)|]. eapply J_mono; eauto. }
    assert (Hloop : exists s2, loop_sched (pulse_aux pl f now) f x now s1 = Some s2 /\ I s2).
    { assert (Hstep : forall si c t, I si -> ls (nd si x) = c :: t -> (agg (nd si c) <= now)%N ->
                exists si1, pulse_aux pl f now si c = Some si1 /\ I si1 /\ cnt N (nd si1) < cnt N (nd si)).
      { intros si c t (Hgi & Hai & HJi) Hl _.
        pose proof (i_core _ (g_inv _ _ Hgi)) as Hci. pose proof (c_wf _ Hci) as Hwfi.
        destruct (wf_in _ _ Hwfi x c LSched) as [Hpc Hcc]; [simpl; rewrite Hl; now left|].
        assert (Hcx : c <> x) by (intro; subst; now apply (wf_noself _ _ Hwfi x)).
        assert (HcF : ~ In c (x :: F)).
        { intros [Heq|Hin]; [congruence|].
          destruct (J_in (x :: F) (nd si) c HJi (or_intror Hin) Hcc) as [Hn|(q & Hq & Hp)]; [congruence|].
          assert (q = x) by congruence. subst q.
          destruct Hq as [_|Hq]; [|inversion Hnd; subst; contradiction].
          (* the parent found in the stack is x itself, i.e. c sits directly above x in F: excluded below *)
          clear -HJi Hin Hcc Hpc Hnd. simpl in HJi. destruct HJi as [_ HJF].
          assert (Hgen : forall F0, J F0 (nd si) -> In c F0 -> ~ In x F0 -> False).
          { induction F0 as [|z r IHr]; simpl; intros HJ0 Hin0 Hx0; [destruct Hin0|]. destruct HJ0 as [H1 H2].
            destruct Hin0 as [->|Hin0].
            - specialize (H1 Hcc). rewrite Hpc in H1. destruct r as [|q r']; [discriminate|].
              simpl in H1. inversion H1; subst q. apply Hx0. right. now left.
            - apply IHr; auto. }
          apply (Hgen F HJF Hin). inversion Hnd; subst; assumption. }
        assert (HcN : c < N).
        { apply Hai. destruct (alive (nd si c)) eqn:Hal; [reflexivity|].
          destruct (c_dead _ Hci c Hal) as [Hn _]. congruence. }
        destruct (IH (x :: F) G' si c Hgi Hai) as (si1 & Hcall).
        - constructor; assumption.
        - intros z [<-|Hz]; [assumption|now apply Hlt].
        - simpl. split; [intros _; assumption|exact HJi].
        - simpl. lia.
        - exists si1. split; [assumption|].
          destruct (pulse_aux_mono now f G' si c si1 Hgi Hcall) as [Hmono Hend].
          split; [split; [eapply pulse_aux_good; eauto|split; [intros y Hy; apply Hai; now apply (proj2 Hmono)|eapply J_mono; eauto]]|].
          apply (cnt_decrease N (nd si) (nd si1) c Hmono HcN Hcc Hend). }
      destruct (loop_sched_total_mu I (fun si => cnt N (nd si)) (pulse_aux pl f now) x now Hstep f s1 HI1) as (s2 & Hl2).
      { pose proof (cnt_le N (nd s1)). lia. }
      exists s2. split; [assumption|].
      apply (loop_sched_ind2 I (pulse_aux pl f now) x now) with (k := f) (s := s1); [|exact HI1|exact Hl2].
      intros si c t si1 HIi Hls Hle Hcall. destruct (Hstep si c t HIi Hls Hle) as (si1' & Hc' & HI' & _). congruence. }
    destruct Hloop as (s2 & -> & (Hg2 & Ha2 & _)).
    destruct (small_rank (nd s2) N (c_acyc _ (i_core _ (g_inv _ _ Hg2))) (kids_lt_of_alive G' N (nd s2) Hg2 Ha2)) as (rk & He & Hb).
    destruct (resched_up_fuel rk f (nd s2) x He) as (m3 & ->); [intro y; specialize (Hb y); lia|]. eauto.
  Qed.
End AnyPulseFuel.

Section StepFuelAny.
  Variable gt : nmap -> nat -> nat -> N -> N -> N * list cop.
  Variable pl : nmap -> nat -> nat -> N -> N -> list cop.
  Hypothesis gt_pure : forall m x k now prev, snd (gt m x k now prev) = [].

  Lemma top_pulse_total_any f s r now N :
    Good nobody (nd s) -> (forall y, alive (nd s y) = true -> y < N) -> 3 * N + 3 <= f ->
    exists s', top_pulse pl f s r now = Some s'.
  Proof.
    intros Hg Ha Hf. unfold top_pulse. destruct (is_root (nd s) r) eqn:Hr; [|eauto].
    destruct (N.leb (agg (nd s r)) now); [|eauto]. destruct (is_root_facts _ _ Hr) as [Hal Hp].
    apply (pulse_aux_fuel_any pl now N f [] nobody s r Hg Ha).
    - constructor; [intros []|constructor].
    - intros z [<-|[]]. now apply Ha.
    - simpl. split; [intros _; assumption|exact I].
    - simpl. lia.
  Qed.

  (* step_total_any: in any reachable (Good) state whose nodes in use have ids below N, with fuel >= 3N+4, no operation
     of the manager runs out of fuel -- whatever the Pulse() callbacks do; GetPulseTime() callbacks perform no operations *)
  Theorem step_total_any f s o N :
    Good nobody (nd s) -> (forall y, alive (nd s y) = true -> y < N) -> 3 * N + 4 <= f ->
    exists s', step gt pl f s o = Some s'.
  Proof.
    intros Hg Ha Hf.
    pose proof (fits_of_ids f (nd s) nobody N Hg Ha Hf) as Hfit.
    destruct o as [c|x|r now|r now|r now]; simpl.
    - destruct (small_rank (nd s) N (c_acyc _ (i_core _ (g_inv _ _ Hg))) (kids_lt_of_alive nobody N (nd s) Hg Ha)) as (rk & He & Hb).
      destruct (apply_cop_fuel nobody rk N N f (nd s) c Hg He Hb Ha) as (m' & ->); [lia|eauto].
    - destruct (alive (nd s x)); eauto.
    - destruct (top_get_total gt gt_pure f s r now Hg Hfit) as (s' & -> & _). eauto.
    - apply (top_pulse_total_any f s r now N); auto. lia.
    - destruct (top_get_total gt gt_pure f s r now Hg Hfit) as (s1 & -> & Hg1 & Hst).
      apply (top_pulse_total_any f s1 r now N); auto; [|lia].
      intros y Hy. apply Ha. destruct (Hst y) as [_ <-]. exact Hy.
  Qed.
End StepFuelAny.

(* ------------------------------------------------------------------ whole histories *)

Definition creates_below (N : nat) (o : PulseModel.top) : Prop := match o with TNew x => x < N | _ => True end.

Section RunTotal.
  Variable gt : nmap -> nat -> nat -> N -> N -> N * list cop.
  Variable pl : nmap -> nat -> nat -> N -> N -> list cop.
  Hypothesis gt_pure : forall m x k now prev, snd (gt m x k now prev) = [].

  Lemma step_alive f s o s' N :
    Good nobody (nd s) -> (forall y, alive (nd s y) = true -> y < N) -> creates_below N o ->
    step gt pl f s o = Some s' -> forall y, alive (nd s' y) = true -> y < N.
  Proof.
    intros Hg Ha Hc H y Hy. destruct o as [c|x|r now|r now|r now]; simpl in H.
    - destruct (apply_cop f (nd s) c) as [m|] eqn:Hcop; [|discriminate]. inversion H; subst s'. simpl in Hy.
      apply Ha. now apply (proj2 (apply_cop_cop_mono nobody f (nd s) c m Hg Hcop)).
    - destruct (alive (nd s x)) eqn:Hal; inversion H; subst s'; [now apply Ha|]. simpl in Hy.
      destruct (upd_cases (nd s) x (fresh (ngt (nd s x)) (npl (nd s x))) y) as [[-> _]|[_ Hu]]; [exact Hc|].
      rewrite Hu in Hy. now apply Ha.
    - unfold top_get in H. destruct (is_root (nd s) r) eqn:Hr; [|inversion H; subst; now apply Ha].
      destruct (get_aux gt f now s r NEVER) as [[s1 mn]|] eqn:Hget; [|discriminate]. inversion H; subst s'. simpl in Hy.
      destruct (is_root_facts _ _ Hr) as [_ Hp].
      assert (Hrn : rn (cur (nd s r))) by (right; apply (wf_root _ _ (c_wf _ (i_core _ (g_inv _ _ Hg)))); assumption).
      destruct (get_aux_spec gt gt_pure now f nobody s r NEVER s1 mn Hg Hrn Hget) as (_ & Hst & _).
      apply Ha. destruct (Hst y) as [_ <-]. exact Hy.
    - unfold top_pulse in H. destruct (is_root (nd s) r); [|inversion H; subst; now apply Ha].
      destruct (N.leb (agg (nd s r)) now); [|inversion H; subst; now apply Ha].
      apply Ha. now apply (proj2 (proj1 (pulse_aux_mono pl now f nobody s r s' Hg H))).
    - destruct (top_get gt f s r now) as [s1|] eqn:H1; [|discriminate].
      assert (Hg1 : Good nobody (nd s1)) by (eapply top_get_good; eauto).
      assert (Ha1 : forall z, alive (nd s1 z) = true -> z < N).
      { intros z Hz. unfold top_get in H1. destruct (is_root (nd s) r) eqn:Hr; [|inversion H1; subst; now apply Ha].
        destruct (get_aux gt f now s r NEVER) as [[s0 mn]|] eqn:Hget; [|discriminate]. inversion H1; subst s1. simpl in Hz.
        destruct (is_root_facts _ _ Hr) as [_ Hp].
        assert (Hrn : rn (cur (nd s r))) by (right; apply (wf_root _ _ (c_wf _ (i_core _ (g_inv _ _ Hg)))); assumption).
        destruct (get_aux_spec gt gt_pure now f nobody s r NEVER s0 mn Hg Hrn Hget) as (_ & Hst & _).
        apply Ha. destruct (Hst z) as [_ <-]. exact Hz. }
      unfold top_pulse in H. destruct (is_root (nd s1) r); [|inversion H; subst; now apply Ha1].
      destruct (N.leb (agg (nd s1 r)) now); [|inversion H; subst; now apply Ha1].
      apply Ha1. now apply (proj2 (proj1 (pulse_aux_mono pl now f nobody s1 r s' Hg1 H))).
  Qed.

  (* run_total: a history that creates only nodes with ids below N never runs out of fuel >= 3N+4, so the other
     theorems (stated for runs/steps that return a state) apply to every such history *)
  Theorem run_total f N : 3 * N + 4 <= f -> forall os s,
    Good nobody (nd s) -> (forall y, alive (nd s y) = true -> y < N) -> Forall (creates_below N) os ->
    exists s', run gt pl f s os = Some s'.
  Proof.
    intros Hf. induction os as [|o t IH]; intros s Hg Ha Hall; simpl; [eauto|].
    inversion Hall; subst.
    destruct (step_total_any gt pl gt_pure f s o N Hg Ha Hf) as (s1 & Hs). rewrite Hs.
    apply IH; [eapply step_good; eauto|eapply step_alive; eauto|assumption].
  Qed.

  Corollary run_total_init f N os :
    3 * N + 4 <= f -> Forall (creates_below N) os -> exists s', run gt pl f init_state os = Some s'.
  Proof.
    intros Hf Hall. apply (run_total f N Hf os init_state); [exact Good_init| |assumption].
    intros y Hy. discriminate Hy.
  Qed.
End RunTotal.
