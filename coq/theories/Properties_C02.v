(* C02 -- property theorems only: each is closed by [exact] of a lemma proved elsewhere.

   [unflatten_i bs fixed] is the instrumented model of Message::UnflattenFromBytes(bs, |bs|) on the repaired code
   (Msg/MsgInstr.v); it returns the parse result, the final reader and the log of raw buffer accesses, allocation
   requests, nesting depth and undefined bool loads.  [fits bs] : the buffer is shorter than 2^31 bytes (the uint32
   API cannot describe 2^32-1 or more, and SeekRelative() takes its uint32 argument as an int32). *)
From Coq Require Import List NArith Strings.Byte.
From Muscle Require Import Gen.Consts Msg.MsgDefs Msg.MsgInstr Msg.MsgInstrProofs Msg.MsgInstrRefuted Gw.RecvInstr Gw.GwRecvProofs.
Import ListNotations.
Local Open Scope N_scope.

(* every raw access of the parser to the received bytes lies inside the buffer, for every byte string *)
Theorem C02_parse_in_bounds : forall bs, fits bs ->
  Forall (in_bounds (len bs)) (accesses (unflatten_i bs fixed)).
Proof. exact parse_in_bounds_proof. Qed.
Print Assumptions C02_parse_in_bounds.

(* termination: fuel |bs|+1 is never exhausted (every loop turn consumes input, every nesting level costs input) *)
Theorem C02_parse_fuel : forall bs, fits bs -> result_of (unflatten_i bs fixed) <> Fuel.
Proof. exact parse_fuel_proof. Qed.
Print Assumptions C02_parse_fuel.

(* no deliberate abort (MCRASH) is reachable and no byte other than 0/1 is loaded into a bool *)
Theorem C02_parse_no_abort : forall bs, fits bs ->
  result_of (unflatten_i bs fixed) <> Crash /\ ub_events (unflatten_i bs fixed) = 0.
Proof. exact parse_no_abort_proof. Qed.
Print Assumptions C02_parse_no_abort.

(* recursion depth is linear in the input, never more: 28 bytes of input per nesting level (the stack itself is runtime: F5) *)
Theorem C02_parse_depth : forall bs, fits bs -> 28 * depth_reached (unflatten_i bs fixed) <= len bs.
Proof. exact parse_depth_proof. Qed.
Print Assumptions C02_parse_depth.

(* allocation is linear in the input: at most KA = 128 bytes of requests (in the model's units: sizeof-based object,
   table, queue and buffer requests) per byte of the buffer, plus C = 0, whatever counts and lengths the bytes declare *)
Theorem C02_parse_alloc_linear : forall bs, fits bs -> allocated (unflatten_i bs fixed) <= KA * len bs.
Proof. exact parse_alloc_linear_proof. Qed.
Print Assumptions C02_parse_alloc_linear.
Example C02_KA_is_128 : KA = 128.
Proof. reflexivity. Qed.

(* totality: the parse ends with a Message or with an error status, nothing else; and a Message that comes out is well
   shaped at every nesting level: every item has the kind and exact width its field's type code calls for (bools are
   0/1), strings and field names hold no NUL, what-codes and type codes are 32-bit values *)
Theorem C02_parse_total : forall bs, fits bs ->
  (exists m, result_of (unflatten_i bs fixed) = Ok m /\ shape_msg m) \/ result_of (unflatten_i bs fixed) = Err.
Proof. exact parse_total_proof. Qed.
Print Assumptions C02_parse_total.

(* the reader never ends beyond the buffer *)
Theorem C02_parse_consumed : forall bs, fits bs -> consumed (unflatten_i bs fixed) <= len bs.
Proof. exact parse_consumed_proof. Qed.
Print Assumptions C02_parse_consumed.

(* ---- MessageIOGateway receive machine (stream mode), repaired code: for every configured maximum, every Message parser
   (zlib included), every byte stream under every segmentation the run terminates, every Read() target range and the
   header memcpy lie inside the buffer written to, and no buffer request exceeds max(scratch, hs + min(maxIncoming, 2^32-1-hs));
   hs+bodySize is uint32 arithmetic in the model as in the C++ *)
Theorem C02_recv_sound : forall max_in unflat (segs : list bytes),
  exists s lg, feed true max_in unflat g_init glog0 segs = Some (s, lg) /\
    Forall write_ok (gl_writes lg) /\
    Forall (fun n => n <= N.max g_scratch (g_hs + N.min max_in (g_nolim - g_hs))) (gl_allocs lg).
Proof. exact recv_sound_proof. Qed.
Print Assumptions C02_recv_sound.

(* ---- the pinned code violates the property: one witness per finding (each was replayed on the real code) *)
Theorem C02_recv_refuted_F3 :
  exists s lg i mb, recv_turn false g_nolim (fun _ => false) g_init glog0 f3_header g_nolim = TGo s lg i mb /\
                    In (0, 0, g_hs) (gl_writes lg) /\ ~ write_ok (0, 0, g_hs).
Proof. exact recv_f3_refuted_proof. Qed.
Print Assumptions C02_recv_refuted_F3.
Theorem C02_recv_spins_F3 : feed false g_nolim (fun _ => false) g_init glog0 [f3_header] = None.
Proof. exact recv_f3_spins_proof. Qed.
Print Assumptions C02_recv_spins_F3.
Theorem C02_parse_alloc_linear_refuted_F1 :
  fits f1_witness /\ len f1_witness = 35 /\
  KA * len f1_witness < allocated (unflatten_i f1_witness (only_without false true true true true)).
Proof. exact parse_alloc_linear_refuted_F1. Qed.
Print Assumptions C02_parse_alloc_linear_refuted_F1.
Theorem C02_parse_alloc_linear_refuted_F42 :
  fits (nest_bomb 100) /\
  KA * len (nest_bomb 100) < allocated (unflatten_i (nest_bomb 100) (only_without true true false true true)).
Proof. exact parse_alloc_linear_refuted_F42. Qed.
Print Assumptions C02_parse_alloc_linear_refuted_F42.
Theorem C02_parse_no_ub_refuted_F43 :
  fits f43_witness /\ 0 < ub_events (unflatten_i f43_witness (only_without true true true false true)).
Proof. exact parse_no_ub_refuted_F43. Qed.
Print Assumptions C02_parse_no_ub_refuted_F43.
Theorem C02_parse_no_abort_refuted_F44 :
  fits f44_witness /\ len f44_witness = 26 /\
  result_of (unflatten_i f44_witness (only_without true true true true false)) = Crash.
Proof. exact parse_no_abort_refuted_F44. Qed.
Print Assumptions C02_parse_no_abort_refuted_F44.
Theorem C02_tmpl_parse_in_bounds_refuted_F2 :
  fits f2_witness /\ len f2_witness = 16 /\
  all_in_bounds (len f2_witness) (accesses (tunflatten_i f2_witness (only_without true false true true true) f2_template)) = false /\
  In (16, 4) (accesses (tunflatten_i f2_witness (only_without true false true true true) f2_template)).
Proof. exact tmpl_parse_in_bounds_refuted_F2. Qed.
Print Assumptions C02_tmpl_parse_in_bounds_refuted_F2.

(* non-vacuity: the premise holds for real encodings, and the model parses them: an empty Message with what-code 7,
   and a Message holding one int32 field "i" = 5 *)
Definition ex_empty : bytes := [x30;x30;x4d;x50; x07;x00;x00;x00; x00;x00;x00;x00].
Definition ex_int32 : bytes := [x30;x30;x4d;x50; x07;x00;x00;x00; x01;x00;x00;x00;
                                x02;x00;x00;x00; x69;x00; x47;x4e;x4f;x4c; x04;x00;x00;x00; x05;x00;x00;x00].
Example C02_fits_nonvacuous : fits ex_empty /\ fits ex_int32.
Proof. split; vm_compute; reflexivity. Qed.
Example C02_model_parses_empty : result_of (unflatten_i ex_empty fixed) = Ok (Msg 7 FNil).
Proof. vm_compute. reflexivity. Qed.
Example C02_model_parses_int32 :
  result_of (unflatten_i ex_int32 fixed) = Ok (Msg 7 (FCons [x69] c_B_INT32_TYPE (RInline (IFix [x05;x00;x00;x00])) FNil))
  /\ consumed (unflatten_i ex_int32 fixed) = 30 /\ depth_reached (unflatten_i ex_int32 fixed) = 0.
Proof. vm_compute. repeat split; reflexivity. Qed.
