(* C02 -- property theorems only: each is closed by [exact] of a lemma proved elsewhere. *)
From Coq Require Import List NArith.
From Muscle Require Import Msg.MsgDefs Msg.MsgInstr Msg.MsgInstrProofs.
Local Open Scope N_scope.

Theorem C02_stage1_placeholder : forall (l : list N), 0 <= len l.
Proof. exact (@len_nonneg N). Qed.
Print Assumptions C02_stage1_placeholder.
