(* C14 -- Query filters evaluate as documented, survive archiving, tolerate bad archives.
   Property theorems only: each is closed by [exact] of a lemma proved under Flt/.
   (the model: Flt/FltModel.v evaluator, Flt/FltArchive.v archive codec, Flt/FltParse.v expression parser) *)
From Coq Require Import List NArith ZArith Bool Strings.Byte.
From Flocq Require Import IEEE754.Binary IEEE754.Bits.
From Muscle Require Import Gen.Consts Msg.MsgDefs Msg.MsgModel Flt.FltModel Flt.FltArchive Flt.FltParse
  Flt.FltProofs Flt.FltArchiveProofs Flt.FltDocProofs Flt.FltNumProofs Flt.FltParseProofs Flt.FltParseStruct Flt.FltLexProofs Flt.FltIeee Flt.FltObject Flt.FltObjectProofs.
Import ListNotations.
Local Open Scope N_scope.

(* ================= combinators: ThresholdMaxAux's loop with both early exits = the documented count rule *)
Theorem C14_min_match_is_count : forall smatch node n kids m,
  eval smatch node (FMin n kids) m =
  if flist_len kids =? 0 then true else N.min n (flist_len kids - 1) <? nmatch smatch node kids m.
Proof. exact eval_min. Qed.
Print Assumptions C14_min_match_is_count.

Theorem C14_max_match_is_count : forall smatch node n kids m,
  eval smatch node (FMax n kids) m =
  negb (if flist_len kids =? 0 then true else N.min n (flist_len kids - 1) <? nmatch smatch node kids m).
Proof. exact eval_max. Qed.
Print Assumptions C14_max_match_is_count.

Theorem C14_xor_is_parity : forall smatch node kids m,
  eval smatch node (FXor kids) m = N.odd (nmatch smatch node kids m).
Proof. exact eval_xor. Qed.
Print Assumptions C14_xor_is_parity.

Theorem C14_and_truth_table : forall smatch node kids m,
  flist_len kids <= c_MUSCLE_NO_LIMIT -> eval smatch node (FAnd kids) m = all_match smatch node kids m.
Proof. exact eval_and. Qed.
Print Assumptions C14_and_truth_table.

Theorem C14_or_truth_table : forall smatch node kids m,
  eval smatch node (FOr kids) m = if flist_len kids =? 0 then true else some_match smatch node kids m.
Proof. exact eval_or. Qed.
Print Assumptions C14_or_truth_table.

Theorem C14_nand_truth_table : forall smatch node kids m,
  flist_len kids <= c_MUSCLE_NO_LIMIT -> eval smatch node (FNand kids) m = negb (all_match smatch node kids m).
Proof. exact eval_nand. Qed.
Print Assumptions C14_nand_truth_table.

Theorem C14_nor_truth_table : forall smatch node kids m,
  eval smatch node (FNor kids) m = negb (if flist_len kids =? 0 then true else some_match smatch node kids m).
Proof. exact eval_nor. Qed.
Print Assumptions C14_nor_truth_table.

(* ================= numeric filters *)
Theorem C14_numeric_operator_table : forall o,
  ord_test c_NQF_OP_EQUAL_TO o = match o with OEq => true | _ => false end /\
  ord_test c_NQF_OP_LESS_THAN o = match o with OLt => true | _ => false end /\
  ord_test c_NQF_OP_GREATER_THAN o = match o with OGt => true | _ => false end /\
  ord_test c_NQF_OP_LESS_THAN_OR_EQUAL_TO o = match o with OLt | OEq => true | _ => false end /\
  ord_test c_NQF_OP_GREATER_THAN_OR_EQUAL_TO o = match o with OGt | OEq => true | _ => false end /\
  ord_test c_NQF_OP_NOT_EQUAL_TO o = match o with OEq => false | _ => true end.
Proof. exact ord_test_table. Qed.
Print Assumptions C14_numeric_operator_table.

Theorem C14_unknown_numeric_operator_never_matches : forall op o, c_NQF_NUM_NUMERIC_OPERATORS <= op -> ord_test op o = false.
Proof. exact ord_test_unknown. Qed.
Print Assumptions C14_unknown_numeric_operator_never_matches.

(* a NaN on either side: ==, <, >, <=, >= are false and != is true *)
Theorem C14_nan_is_unordered : forall eb mb x y,
  f_is_nan eb mb x = true \/ f_is_nan eb mb y = true ->
  forall op, ord_test op (f_ord eb mb x y) = (op =? c_NQF_OP_NOT_EQUAL_TO).
Proof. exact nan_compare_table. Qed.
Print Assumptions C14_nan_is_unordered.

Theorem C14_negative_zero_equals_zero :
  (f_ord 8 23 2147483648 0 = OEq /\ f_ord 8 23 0 2147483648 = OEq) /\
  (f_ord 11 52 9223372036854775808 0 = OEq /\ f_ord 11 52 0 9223372036854775808 = OEq).
Proof. exact zeros_equal. Qed.
Print Assumptions C14_negative_zero_equals_zero.

(* the model's float comparison is the IEEE-754 comparison: it agrees with Flocq's Bcompare on the binary32 / binary64
   numbers the bit patterns denote, for ALL pairs of bit patterns (b32_of_bits z is FF2B 24 128 (binary_float_of_bits_aux 23 8 z) V
   for Flocq's validity proof V; stated for every V, which keeps the theorem free of the real-number axioms V's proof uses) *)
Theorem C14_float_compare_is_ieee754_binary32 : forall x y Vx Vy,
  x < 2 ^ 32 -> y < 2 ^ 32 ->
  Bcompare 24 128 (FF2B 24 128 (binary_float_of_bits_aux 23 8 (Z.of_N x)) Vx)
                  (FF2B 24 128 (binary_float_of_bits_aux 23 8 (Z.of_N y)) Vy)
  = match f_ord 8 23 x y with OLt => Some Lt | OEq => Some Eq | OGt => Some Gt | OUn => None end.
Proof. exact f32_ord_is_ieee. Qed.
Print Assumptions C14_float_compare_is_ieee754_binary32.

Theorem C14_float_compare_is_ieee754_binary64 : forall x y Vx Vy,
  x < 2 ^ 64 -> y < 2 ^ 64 ->
  Bcompare 53 1024 (FF2B 53 1024 (binary_float_of_bits_aux 52 11 (Z.of_N x)) Vx)
                   (FF2B 53 1024 (binary_float_of_bits_aux 52 11 (Z.of_N y)) Vy)
  = match f_ord 11 52 x y with OLt => Some Lt | OEq => Some Eq | OGt => Some Gt | OUn => None end.
Proof. exact f64_ord_is_ieee. Qed.
Print Assumptions C14_float_compare_is_ieee754_binary64.

Theorem C14_infinity_is_top : forall eb mb x,
  f_is_nan eb mb x = false -> f_ord eb mb x (pos_inf eb mb) <> OGt /\ f_ord eb mb x (pos_inf eb mb) <> OUn.
Proof. exact pos_inf_is_top. Qed.
Print Assumptions C14_infinity_is_top.

Theorem C14_integers_compare_as_twos_complement : forall w a b, 0 < w ->
  let x := sval w (uval w a) in let y := sval w (uval w b) in
  (int_ord w a b = OLt <-> (x < y)%Z) /\ (int_ord w a b = OGt <-> (x > y)%Z) /\
  (int_ord w a b = OEq <-> uval w a = uval w b) /\ int_ord w a b <> OUn.
Proof. exact int_ord_spec. Qed.
Print Assumptions C14_integers_compare_as_twos_complement.

Theorem C14_mask_operations_bitwise : forall w mop v m i, i < w ->
  N.testbit (mask_u w mop v m) i = bitop mop (N.testbit v i) (N.testbit m i).
Proof. exact mask_bits. Qed.
Print Assumptions C14_mask_operations_bitwise.

Theorem C14_missing_value_rule : forall t m name idx op mop val msk def,
  num_matches t m name idx op mop val msk def =
  match find_fix m name (nt_tc t) idx with
  | Some v => num_test t op (num_apply_mask t mop v msk) val
  | None => match def with
            | Some d => num_test t op (num_apply_mask t mop d msk) val
            | None => false
            end
  end.
Proof. exact num_matches_rule. Qed.
Print Assumptions C14_missing_value_rule.

(* ================= value-exists filters *)
Theorem C14_exists_with_type : forall m name tc idx,
  (tc =? c_B_ANY_TYPE) = false ->
  ((tc =? c_B_STRING_TYPE) || (0 <? elem_size (ftype_of_tc tc))) = true ->
  exists_data m name tc idx =
  match flookup name (msg_fields m) with
  | Some (tc', r) => (tc =? tc') && match repr_nth idx r with Some _ => true | None => false end
  | None => false
  end.
Proof. exact exists_spec_fixed. Qed.
Print Assumptions C14_exists_with_type.

(* ================= raw-data filters: each operator is the documented relation on byte strings *)
Theorem C14_raw_equal : forall my his, raw_op c_RQF_OP_EQUAL_TO my his = true <-> his = my.
Proof. exact raw_equal_to. Qed.
Print Assumptions C14_raw_equal.
Theorem C14_raw_less_than : forall my his, raw_op c_RQF_OP_LESS_THAN my his = true <-> lex_cmp (ub his) (ub my) = Lt.
Proof. exact raw_less_than. Qed.
Print Assumptions C14_raw_less_than.
Theorem C14_raw_starts_with : forall my his, raw_op c_RQF_OP_STARTS_WITH my his = true <-> exists t, his = my ++ t.
Proof. exact raw_starts_with. Qed.
Print Assumptions C14_raw_starts_with.
Theorem C14_raw_ends_with : forall my his, raw_op c_RQF_OP_ENDS_WITH my his = true <-> exists t, his = t ++ my.
Proof. exact raw_ends_with. Qed.
Print Assumptions C14_raw_ends_with.
Theorem C14_raw_contains : forall my his, raw_op c_RQF_OP_CONTAINS my his = true <-> exists a b, his = a ++ my ++ b.
Proof. exact raw_contains. Qed.
Print Assumptions C14_raw_contains.
Theorem C14_raw_subset_of : forall my his, raw_op c_RQF_OP_SUBSET_OF my his = true <-> exists a b, my = a ++ his ++ b.
Proof. exact raw_subset_of. Qed.
Print Assumptions C14_raw_subset_of.

(* ================= string filters *)
Theorem C14_string_starts_with : forall smatch v s, str_op smatch c_SQF_OP_STARTS_WITH v s = true <-> exists t, s = v ++ t.
Proof. exact str_starts_with. Qed.
Print Assumptions C14_string_starts_with.
Theorem C14_string_contains : forall smatch v s,
  str_op smatch c_SQF_OP_CONTAINS v s = true <-> s <> [] /\ exists a b, s = a ++ v ++ b.
Proof. exact str_contains. Qed.
Print Assumptions C14_string_contains.
Theorem C14_string_contains_ignorecase : forall smatch v s,
  str_op smatch c_SQF_OP_CONTAINS_IGNORECASE v s = true <-> s <> [] /\ v <> [] /\ exists a b, lb s = a ++ lb v ++ b.
Proof. exact str_contains_ic. Qed.
Print Assumptions C14_string_contains_ignorecase.
Theorem C14_string_equal_ignorecase : forall smatch v s, str_op smatch c_SQF_OP_EQUAL_TO_IGNORECASE v s = true <-> lb s = lb v.
Proof. exact str_equal_to_ic. Qed.
Print Assumptions C14_string_equal_ignorecase.
Theorem C14_unknown_string_operator_never_matches : forall smatch v s op,
  c_SQF_NUM_STRING_OPERATORS <= op -> str_op smatch op v s = false.
Proof. exact str_unknown_op. Qed.
Print Assumptions C14_unknown_string_operator_never_matches.

(* ================= archiving *)
Theorem C14_archive_roundtrip : forall f, wf_filter f -> from_archive (to_archive f) = Ok f.
Proof. exact archive_roundtrip. Qed.
Print Assumptions C14_archive_roundtrip.

Theorem C14_archive_decides_identically : forall f,
  wf_filter f ->
  exists f', from_archive (to_archive f) = Ok f' /\
             forall smatch node m, eval smatch node f' m = eval smatch node f m.
Proof. exact archive_decides_identically. Qed.
Print Assumptions C14_archive_decides_identically.

(* ================= a REUSED filter object: SetFromArchive overwrites the whole state (incl. the cached StringMatcher) *)
Theorem C14_set_from_archive_overwrites : forall o g,
  wf_filter g -> what_of (so_filter o) = what_of g ->
  obj_set_from_archive o (to_archive g) = Ok (fresh g).
Proof. exact set_from_archive_overwrites. Qed.
Print Assumptions C14_set_from_archive_overwrites.

(* for ANY prior state o of the object (any members of its class, any cached matcher, however often evaluated):
   after SetFromArchive(archive of g) every later Matches() on it, in any number, is g's decision *)
Theorem C14_reused_object_decides_as_archived : forall o g,
  wf_filter g -> what_of (so_filter o) = what_of g ->
  exists o', obj_set_from_archive o (to_archive g) = Ok o' /\
             forall smatch node ms, fst (obj_eval_all smatch node o' ms) = map (eval smatch node g) ms.
Proof. exact reused_object_decides_as_archived. Qed.
Print Assumptions C14_reused_object_decides_as_archived.

(* a used object whose cache is consistent decides like the pure evaluator, and stays consistent *)
Theorem C14_used_object_decides_like_fresh : forall smatch node ms o,
  cache_ok o -> fst (obj_eval_all smatch node o ms) = map (eval smatch node (so_filter o)) ms.
Proof. exact obj_eval_all_ok. Qed.
Print Assumptions C14_used_object_decides_like_fresh.

Theorem C14_set_from_archive_leaves_consistent_object : forall o a o', obj_set_from_archive o a = Ok o' -> cache_ok o'.
Proof. exact set_from_archive_consistent. Qed.
Print Assumptions C14_set_from_archive_leaves_consistent_object.

Theorem C14_set_from_archive_total : forall o a, exists r, obj_set_from_archive o a = r /\ (r = Err \/ exists o', r = Ok o').
Proof. exact set_from_archive_total. Qed.
Print Assumptions C14_set_from_archive_total.

(* ================= untrusted archives *)
Theorem C14_from_archive_total : forall a, exists r, from_archive a = r /\ (r = Err \/ exists f, r = Ok f).
Proof. exact from_archive_total. Qed.
Print Assumptions C14_from_archive_total.

(* ================= expression strings *)
Theorem C14_parse_total : forall atof d2f (e : bytes),
  let chars := ub e in
  let s := lex_all (S (length chars)) chars in
  okerr (p_loop atof d2f (length (fst s) + 8) s pst0).
Proof. exact parse_expr_total. Qed.
Print Assumptions C14_parse_total.

Theorem C14_lexer_fuel_adequate : forall e f1 f2,
  (length e < f1)%nat -> (length e < f2)%nat -> lex_all f1 e = lex_all f2 e.
Proof. exact lex_all_fuel_adequate. Qed.
Print Assumptions C14_lexer_fuel_adequate.

Theorem C14_word_of_letters_is_one_token : forall w rest,
  forallb is_alpha w = true -> scan_word (w ++ 32 :: rest) = (w, 32 :: rest).
Proof. exact scan_word_letters. Qed.
Print Assumptions C14_word_of_letters_is_one_token.

Theorem C14_field_name_index_default : forall name digits def,
  name <> [] -> mem_char 58 name = false -> mem_char 124 name = false ->
  mem_char 58 digits = false -> mem_char 124 digits = false -> mem_char 124 def = false ->
  (0 <= atol digits)%Z ->
  parse_field_name (user_tok (name ++ 58 :: digits ++ 124 :: def) false) true
  = Ok (name, pat 32 (atol digits), Some def).
Proof. exact field_spec_full. Qed.
Print Assumptions C14_field_name_index_default.

(* the parser builds the tree the grammar denotes (token level; any nesting, any number of operands):
   a body is a predicate `[!] t1..tn` or `operand K operand K ..`; an operand is `[!] ( body )` *)
Theorem C14_parser_builds_denoted_tree : forall atof d2f b,
  wf_body b ->
  p_loop atof d2f (length (toks_body b) + 8) (toks_body b, None) pst0
  = bind (den_body atof d2f b) (fun f => Ok (f, ([], None))).
Proof. exact parse_body. Qed.
Print Assumptions C14_parser_builds_denoted_tree.

Theorem C14_parser_builds_denoted_tree_operand : forall atof d2f o,
  wf_op o ->
  p_loop atof d2f (length (toks_op o) + 8) (toks_op o, None) pst0
  = bind (den_op atof d2f o) (fun f => Ok (f, ([], None))).
Proof. exact parse_operand. Qed.
Print Assumptions C14_parser_builds_denoted_tree_operand.

(* the lexer reads back the printed token sequence (one blank after every token) *)
Theorem C14_lexer_reads_printed_tokens : forall ts fuel,
  Forall tok_ok ts -> (length (print ts) < fuel)%nat -> lex_all fuel (print ts) = (ts, None).
Proof. exact lex_print. Qed.
Print Assumptions C14_lexer_reads_printed_tokens.

(* parse_print, on strings: the printed form of an expression of the documented grammar is parsed into the filter the
   grammar denotes (None exactly when the denotation is an error) *)
Theorem C14_parse_print : forall atof d2f b,
  wf_body b -> Forall tok_ok (toks_body b) -> Forall (fun c => c < 256) (print (toks_body b)) ->
  parse_expr atof d2f (bytes_of (print (toks_body b))) =
  match den_body atof d2f b with Ok f => Some f | _ => None end.
Proof. exact parse_print_body. Qed.
Print Assumptions C14_parse_print.

Theorem C14_parse_print_operand : forall atof d2f o,
  wf_op o -> Forall tok_ok (toks_op o) -> Forall (fun c => c < 256) (print (toks_op o)) ->
  parse_expr atof d2f (bytes_of (print (toks_op o))) =
  match den_op atof d2f o with Ok f => Some f | _ => None end.
Proof. exact parse_print_operand. Qed.
Print Assumptions C14_parse_print_operand.

(* ================= non-vacuity: the premises are satisfiable by non-trivial instances *)
Example C14_wf_example :
  wf_filter (FAnd (LCons (FNum (KNum NFloat) [x61] 2 4 0 [x00; x00; xc0; x7f] [x00; x00; x00; x00] (Some [x00; x00; x00; x80]))
            (LCons (FMsg [x6d] 0 (OSome (FStr false [x73] 0 8 [x67; x72] None)) None)
            (LCons (FRaw [x72] 0 6 c_B_ANY_TYPE (Some [x01; x02]) None) LNil)))).
Proof. cbv [wf_filter wf_flist wf_ofilter FAnd opt_nonempty]. repeat split; try (vm_compute; reflexivity); vm_compute; discriminate. Qed.

Example C14_and_len_example : flist_len (LCons (FWhat 0 0) (LCons (FWhat 1 1) LNil)) <= c_MUSCLE_NO_LIMIT.
Proof. vm_compute. discriminate. Qed.

Example C14_nan_example : f_is_nan 8 23 2143289344 = true /\ f_is_nan 11 52 9221120237041090560 = true.   (* 0x7fc00000, 0x7ff8000000000000 *)
Proof. split; reflexivity. Qed.

Example C14_not_nan_example : f_is_nan 8 23 1065353216 = false.        (* 1.0f *)
Proof. reflexivity. Qed.

Example C14_letters_example : forallb is_alpha [101; 121; 101; 99; 111; 108; 111; 114] = true.     (* "eyecolor" *)
Proof. reflexivity. Qed.

Example C14_field_spec_example :          (* "age:2|18" *)
  [97; 103; 101] <> [] /\ mem_char 58 [97; 103; 101] = false /\ mem_char 124 [97; 103; 101] = false /\
  mem_char 58 [50] = false /\ mem_char 124 [50] = false /\ mem_char 124 [49; 56] = false /\ (0 <= atol ([50]%N))%Z.
Proof. repeat split; try reflexivity; try discriminate. Qed.

Example C14_wf_body_example :      (* ( a == 1 ) && !( b < 2 ) *)
  wf_body (BConj c_LTOKEN_AND
             (OGroup false (BLeaf false [user_tok [97] false; fixed_tok c_LTOKEN_EQ; user_tok [49] false]))
             (OCons (OGroup true (BLeaf false [user_tok [98] false; fixed_tok c_LTOKEN_LT; user_tok [50] false])) ONil)).
Proof. cbn. repeat split; try reflexivity; try discriminate; repeat constructor. Qed.

Example C14_lexable_examples :       (* age  eyecolor  21  150.0f *)
  lexable [97; 103; 101] /\ lexable [101; 121; 101; 99; 111; 108; 111; 114] /\ lexable [50; 49] /\ lexable [49; 53; 48; 46; 48; 102].
Proof. repeat split; apply lexable_of_chars; try discriminate; try reflexivity; intros rest; reflexivity. Qed.

Example C14_parse_print_example :    (* ( age >= 21 ) && ! ( eyecolor == "green" ) *)
  let b := BConj c_LTOKEN_AND
             (OGroup false (BLeaf false [user_tok [97; 103; 101] false; fixed_tok c_LTOKEN_GEQ; user_tok [50; 49] false]))
             (OCons (OGroup true (BLeaf false [user_tok [101; 121; 101; 99; 111; 108; 111; 114] false; fixed_tok c_LTOKEN_EQ;
                                               user_tok [103; 114; 101; 101; 110] true])) ONil) in
  wf_body b /\ Forall tok_ok (toks_body b) /\ Forall (fun c => c < 256) (print (toks_body b)).
Proof.
  cbv zeta. split; [|split].
  - cbn. repeat split; try reflexivity; try discriminate; repeat constructor.
  - destruct C14_lexable_examples as [L1 [L2 [L3 _]]].
    cbn [toks_body toks_op toks_rest neg_toks app].
    repeat (apply Forall_cons || apply Forall_nil); try (unfold tok_ok; cbn; repeat split; reflexivity); assumption.
  - vm_compute. repeat (apply Forall_cons || apply Forall_nil); reflexivity.
Qed.

Example C14_redundant_parens_example :     (* ( ! ( a == 1 ) ) *)
  wf_body (BOp (OGroup false (BOp (OGroup true (BLeaf false [user_tok [97] false; fixed_tok c_LTOKEN_EQ; user_tok [49] false]))))).
Proof. cbn. repeat split; try reflexivity; repeat constructor. Qed.

Example C14_exists_type_example : (c_B_INT32_TYPE =? c_B_ANY_TYPE) = false /\ ((c_B_INT32_TYPE =? c_B_STRING_TYPE) || (0 <? elem_size (ftype_of_tc c_B_INT32_TYPE))) = true.
Proof. split; reflexivity. Qed.

Example C14_reuse_example :     (* a used wildcard filter "a*" (matcher cached) and the filter "b*" of the same class and operator *)
  let o := mkSO (FStr false [x6e] 0 c_SQF_OP_SIMPLE_WILDCARD_MATCH [x61; x2a] None) (Some (c_SQF_OP_SIMPLE_WILDCARD_MATCH, [x61; x2a])) in
  let g := FStr false [x6e] 0 c_SQF_OP_SIMPLE_WILDCARD_MATCH [x62; x2a] (Some [x62]) in
  wf_filter g /\ what_of (so_filter o) = what_of g /\ cache_ok o.
Proof. cbv zeta. repeat split; vm_compute; reflexivity. Qed.

Example C14_unknown_op_example : c_NQF_NUM_NUMERIC_OPERATORS <= 200 /\ c_SQF_NUM_STRING_OPERATORS <= 200.
Proof. split; vm_compute; discriminate. Qed.
