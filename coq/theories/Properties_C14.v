(* C14 -- property theorems only: each is closed by [exact] of a lemma proved under Flt/. *)
From Coq Require Import List NArith.
From Muscle Require Import Msg.MsgDefs Msg.MsgModel Flt.FltModel Flt.FltProofs.

Theorem C14_and_of_nothing_matches : forall smatch node n m, eval smatch node (FMin n LNil) m = true.
Proof. exact eval_min_nil. Qed.
Print Assumptions C14_and_of_nothing_matches.
