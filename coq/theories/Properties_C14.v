(* C14 -- Query filters evaluate as documented, survive archiving, tolerate bad archives.
   Property theorems only: each is closed by [exact] of a lemma proved under Flt/. *)
From Coq Require Import List NArith Strings.Byte.
From Muscle Require Import Gen.Consts Msg.MsgDefs Msg.MsgModel Flt.FltModel Flt.FltArchive Flt.FltProofs Flt.FltArchiveProofs.
Import ListNotations.
Local Open Scope N_scope.

(* ---- combinators: ThresholdMaxAux's loop with both early exits computes the documented count rule *)
Theorem C14_min_match_is_count : forall smatch node n kids m,
  eval smatch node (FMin n kids) m =
  if flist_len kids =? 0 then true else N.min n (flist_len kids - 1) <? nmatch smatch node kids m.
Proof. exact eval_min. Qed.
Print Assumptions C14_min_match_is_count.

Theorem C14_max_match_is_count : forall smatch node n kids m,
  eval smatch node (FMax n kids) m =
  negb (if flist_len kids =? 0 then true else N.min n (flist_len kids - 1) <? nmatch smatch node kids m).
Proof. exact eval_max. Qed.
Print Assumptions C14_max_match_is_count.

Theorem C14_xor_is_parity : forall smatch node kids m,
  eval smatch node (FXor kids) m = N.odd (nmatch smatch node kids m).
Proof. exact eval_xor. Qed.
Print Assumptions C14_xor_is_parity.

Theorem C14_and_truth_table : forall smatch node kids m,
  flist_len kids <= c_MUSCLE_NO_LIMIT -> eval smatch node (FAnd kids) m = all_match smatch node kids m.
Proof. exact eval_and. Qed.
Print Assumptions C14_and_truth_table.

Theorem C14_or_truth_table : forall smatch node kids m,
  eval smatch node (FOr kids) m = if flist_len kids =? 0 then true else some_match smatch node kids m.
Proof. exact eval_or. Qed.
Print Assumptions C14_or_truth_table.

Theorem C14_nand_truth_table : forall smatch node kids m,
  flist_len kids <= c_MUSCLE_NO_LIMIT -> eval smatch node (FNand kids) m = negb (all_match smatch node kids m).
Proof. exact eval_nand. Qed.
Print Assumptions C14_nand_truth_table.

Theorem C14_nor_truth_table : forall smatch node kids m,
  eval smatch node (FNor kids) m = negb (if flist_len kids =? 0 then true else some_match smatch node kids m).
Proof. exact eval_nor. Qed.
Print Assumptions C14_nor_truth_table.

(* ---- archiving *)
Theorem C14_archive_roundtrip : forall f, wf_filter f -> from_archive (to_archive f) = Ok f.
Proof. exact archive_roundtrip. Qed.
Print Assumptions C14_archive_roundtrip.

Theorem C14_archive_decides_identically : forall f,
  wf_filter f ->
  exists f', from_archive (to_archive f) = Ok f' /\
             forall smatch node m, eval smatch node f' m = eval smatch node f m.
Proof. exact archive_decides_identically. Qed.
Print Assumptions C14_archive_decides_identically.

(* ---- untrusted archives *)
Theorem C14_from_archive_total : forall a, exists r, from_archive a = r /\ (r = Err \/ exists f, r = Ok f).
Proof. exact from_archive_total. Qed.
Print Assumptions C14_from_archive_total.

(* ---- non-vacuity: the premises are satisfiable by non-trivial filters *)
Example C14_wf_example :
  wf_filter (FAnd (LCons (FNum (KNum NFloat) [x61] 2 4 0 [x00; x00; xc0; x7f] [x00; x00; x00; x00] (Some [x00; x00; x00; x80]))
            (LCons (FMsg [x6d] 0 (OSome (FStr false [x73] 0 8 [x67; x72] None)) None)
            (LCons (FRaw [x72] 0 6 c_B_ANY_TYPE (Some [x01; x02]) None) LNil)))).
Proof. cbv [wf_filter wf_flist wf_ofilter FAnd opt_nonempty]. repeat split; try (vm_compute; reflexivity); vm_compute; discriminate. Qed.

Example C14_and_len_example : flist_len (LCons (FWhat 0 0) (LCons (FWhat 1 1) LNil)) <= c_MUSCLE_NO_LIMIT.
Proof. vm_compute. discriminate. Qed.
