(* C01 -- property theorems only: each is closed by [exact] of a lemma proved elsewhere. *)
From Coq Require Import List NArith.
From Muscle Require Import Msg.MsgDefs Msg.MsgModel Msg.MsgApi Msg.MsgProofs.

Theorem C01_len_app : forall (a b : bytes), len (a ++ b) = (len a + len b)%N.
Proof. exact (@len_app _). Qed.
Print Assumptions C01_len_app.
