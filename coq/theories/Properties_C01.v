(* C01 -- Message serialisation round-trips exactly and its size is exact.
   Property theorems only: each is closed by [exact] of a lemma proved under Msg/. *)
From Coq Require Import List NArith.
From Muscle Require Import Msg.MsgDefs Msg.MsgModel Msg.MsgApi Msg.MsgBytesProofs Msg.MsgSizeProofs Msg.MsgRoundTrip.
Local Open Scope N_scope.

(* the advertised flattened size is the number of bytes written, for every well-formed Message *)
Theorem C01_flatten_length : forall m : msg, wf_msg m -> len (flatten m) = flattened_size m.
Proof. exact flatten_length. Qed.
Print Assumptions C01_flatten_length.

(* parsing the serialised bytes yields the original Message: non-flattenable fields dropped (strip), one-item
   arrays returned as inline items (norm), everything else -- what-code, field order, names, type codes, item
   counts, item bytes at every nesting level -- identical *)
Theorem C01_unflatten_flatten : forall m : msg, wf m -> unflatten (flatten m) = Ok (rt m).
Proof. exact unflatten_flatten. Qed.
Print Assumptions C01_unflatten_flatten.
