(* C01 -- Message serialisation round-trips exactly and its size is exact.
   Property theorems only: each is closed by [exact] of a lemma proved under Msg/.

   Reading guide.  [msg] is the model of a muscle::Message (Msg/MsgDefs.v); [flatten], [flattened_size],
   [unflatten] mirror Message::Flatten/FlattenedSize/Unflatten and everything below them (Msg/MsgModel.v);
   [wf m] = structurally well-formed (unique NUL-free field names, items fit their type codes, strings
   NUL-free) and representable (what-code, type codes and the flattened size below 2^32);
   [rt m] = [norm_msg (strip_msg m)]: the fields that are never written (pointers, tags) removed and every
   one-item array turned into an inline item -- the only two ways in which the parsed Message may differ from
   the original; [content_msg] forgets the inline/array state.  All theorems quantify over every Message of
   any size, field order and nesting depth. *)
From Coq Require Import List NArith.
From Muscle Require Import Msg.MsgDefs Msg.MsgModel Msg.MsgApi Msg.MsgBytesProofs Msg.MsgSizeProofs
  Msg.MsgRoundTrip Msg.MsgReprProofs Msg.MsgApiProofs Msg.MsgEqProofs Msg.MsgFuelProofs Msg.MsgExamples
  Msg.TmplModel Msg.TmplProofs Msg.TmplHashProofs Msg.TmplMergeProofs.
Local Open Scope N_scope.

(* 1. the advertised flattened size is the number of bytes written *)
Theorem C01_flatten_length : forall m : msg, wf_msg m -> len (flatten m) = flattened_size m.
Proof. exact flatten_length. Qed.
Print Assumptions C01_flatten_length.

(* 2. parsing the serialised bytes yields the original Message (modulo strip and norm) *)
Theorem C01_unflatten_flatten : forall m : msg, wf m -> unflatten (flatten m) = Ok (rt m).
Proof. exact unflatten_flatten. Qed.
Print Assumptions C01_unflatten_flatten.

(* 3. ... and [rt m] has exactly the content of the original's flattenable part: same what-code, same fields
   in the same order, same type codes, same item counts, identical item bytes, at every nesting level *)
Theorem C01_rt_content : forall m : msg, content_msg (rt m) = content_msg (strip_msg m).
Proof. exact rt_content. Qed.
Print Assumptions C01_rt_content.

(* 4. serialising the parsed Message reproduces the original bytes; the advertised size is unchanged *)
Theorem C01_reflatten : forall m : msg, wf_msg m -> flatten (rt m) = flatten m.
Proof. exact reflatten. Qed.
Print Assumptions C01_reflatten.

Theorem C01_resize : forall m : msg, wf_msg m -> flattened_size (rt m) = flattened_size m.
Proof. exact resize. Qed.
Print Assumptions C01_resize.

(* 5. the content checksum is unchanged by the trip, whatever the hash function is *)
Theorem C01_checksum_roundtrip : forall (hash : bytes -> N) (m : msg), chk_msg hash false (rt m) = chk_msg hash false m.
Proof. exact checksum_roundtrip. Qed.
Print Assumptions C01_checksum_roundtrip.

(* 5b. representation independence of the checksum: a one-item array and an inline item count the same
   (for both values of countNonFlattenableFields) *)
Theorem C01_checksum_repr_indep : forall (hash : bytes -> N) (cnf : bool) (m : msg),
  chk_msg hash cnf (norm_msg m) = chk_msg hash cnf m.
Proof. exact (fun hash cnf => proj2 (proj2 (proj2 (proj2 (chk_norm_all hash cnf))))). Qed.
Print Assumptions C01_checksum_repr_indep.

(* 6. equality of two Messages is unchanged by the trip, whatever the (symmetric) equality of leaf values is
   -- so IEEE NaN <> NaN does not matter -- for every fuel and in particular for the adequate one *)
Theorem C01_eq_roundtrip :
  forall (ieq : ftype -> bytes -> bytes -> bool), (forall ft a b, ieq ft a b = ieq ft b a) ->
  forall (fuel : nat) (m n : msg), wf_msg m -> wf_msg n ->
    msg_eqb ieq fuel (rt m) (rt n) = msg_eqb ieq fuel (strip_msg m) (strip_msg n).
Proof. exact eq_roundtrip. Qed.
Print Assumptions C01_eq_roundtrip.

Theorem C01_eq_roundtrip_adequate :
  forall (ieq : ftype -> bytes -> bytes -> bool) (m n : msg),
    (forall ft a b, ieq ft a b = ieq ft b a) -> wf_msg m -> wf_msg n ->
    msg_eq ieq (rt m) (rt n) = msg_eq ieq (strip_msg m) (strip_msg n).
Proof. exact eq_roundtrip_adequate. Qed.
Print Assumptions C01_eq_roundtrip_adequate.

(* 6b. representation independence and symmetry of operator== (on Messages whose field names are unique at
   every level, which wf Messages without non-flattenable fields are) *)
Theorem C01_eqb_repr_indep :
  forall (ieq : ftype -> bytes -> bytes -> bool), (forall ft a b, ieq ft a b = ieq ft b a) ->
  forall (fuel : nat) (m n : msg), nd_msg m -> nd_msg n ->
    msg_eqb ieq fuel (norm_msg m) (norm_msg n) = msg_eqb ieq fuel m n.
Proof. exact msg_eqb_norm. Qed.
Print Assumptions C01_eqb_repr_indep.

Theorem C01_eqb_sym :
  forall (ieq : ftype -> bytes -> bytes -> bool), (forall ft a b, ieq ft a b = ieq ft b a) ->
  forall (fuel : nat) (m n : msg), nd_msg m -> nd_msg n -> msg_eqb ieq fuel m n = msg_eqb ieq fuel n m.
Proof. exact msg_eqb_sym. Qed.
Print Assumptions C01_eqb_sym.

Theorem C01_eq_fuel_adequate :
  forall (ieq : ftype -> bytes -> bytes -> bool) (fuel k : nat) (m n : msg),
    (depth_msg m <= fuel \/ depth_msg n <= fuel)%nat -> msg_eqb ieq (fuel + k) m n = msg_eqb ieq fuel m n.
Proof. exact msg_eqb_fuel_adequate. Qed.
Print Assumptions C01_eq_fuel_adequate.

(* 7. the hypothesis is satisfied by exactly what the public API builds: every sequence of well-typed
   Add/Prepend/Replace/RemoveData/RemoveName/Rename/Clear operations from the empty Message *)
Theorem C01_api_reachable_wf : forall ops : list mop, Forall op_ok ops -> wf_msg (run ops empty_msg).
Proof. exact api_reachable_wf. Qed.
Print Assumptions C01_api_reachable_wf.

(* 8. side conditions on the translated constants (re-checked whenever /repo's tables change) *)
Theorem C01_size_tables_ok : forall ft : ftype, ft_fixed ft = true ->
  wire_size ft = cpp_size ft /\ arr_unit ft = cpp_size ft /\ 0 < cpp_size ft.
Proof. exact size_tables_ok. Qed.
Print Assumptions C01_size_tables_ok.

(* 8b. fuel adequacy of the parser model: for EVERY byte string the model's loops terminate by consuming
   input, i.e. running out of fuel is not an outcome of [unflatten] *)
Theorem C01_unflatten_never_fuel : forall w : bytes, unflatten w <> Fuel.
Proof. exact unflatten_never_fuel. Qed.
Print Assumptions C01_unflatten_never_fuel.

(* 8c. the TEMPLATED serialisation (Message::TemplatedFlatten / TemplatedUnflatten, used by the templating
   mode of MessageIOGateway): for every template t and every payload p of t's shape (same flattenable fields,
   order, names, type codes and item counts at every level -- what equality of TemplateHashCode64 stands for),
   the templated bytes exist, their number is TemplatedFlattenedSize, and parsing them against t gives p back
   (modulo strip and norm, exactly as for the ordinary codec) *)
Theorem C01_tmpl_roundtrip : forall t p : msg,
  wf_msg t -> ne_msg t -> wf_msg p -> same_shape t p = true -> tmpl_flattened_size t p < two32 ->
  exists b, tmpl_flatten t p = Some b /\ len b = tmpl_flattened_size t p /\ tmpl_unflatten t b = Ok (rt p).
Proof. exact tmpl_roundtrip. Qed.
Print Assumptions C01_tmpl_roundtrip.

(* 8d. ... and the template the library itself makes (CreateMessageTemplate) qualifies, for every Message whose
   fields all hold at least one item -- which every Message built through the API does *)
Theorem C01_created_template_ok : forall p : msg, wf_msg p -> nz_msg p ->
  same_shape (tmpl_of_msg p) p = true /\ wf_msg (tmpl_of_msg p) /\ ne_msg (tmpl_of_msg p).
Proof. exact created_template_ok. Qed.
Print Assumptions C01_created_template_ok.

Theorem C01_tmpl_roundtrip_created : forall p : msg,
  wf_msg p -> nz_msg p -> tmpl_flattened_size (tmpl_of_msg p) p < two32 ->
  exists b, tmpl_flatten (tmpl_of_msg p) p = Some b /\ len b = tmpl_flattened_size (tmpl_of_msg p) p /\
            tmpl_unflatten (tmpl_of_msg p) b = Ok (rt p).
Proof. exact tmpl_roundtrip_created. Qed.
Print Assumptions C01_tmpl_roundtrip_created.

Theorem C01_api_reachable_nz : forall ops : list mop, Forall op_nz ops -> nz_msg (run ops empty_msg).
Proof. exact api_reachable_nz. Qed.
Print Assumptions C01_api_reachable_nz.

(* 8e. TemplateHashCode64 (the key of MessageIOGateway's template cache) is a function of the shape, whatever the
   64-bit string hash is: same shape, same hash; in particular a Message and the template made for it *)
Theorem C01_same_shape_same_hash : forall (h64 : bytes -> N) (t p : msg),
  same_shape t p = true -> tmpl_hash h64 t = tmpl_hash h64 p.
Proof. exact same_shape_same_hash. Qed.
Print Assumptions C01_same_shape_same_hash.

Theorem C01_created_template_hash : forall (h64 : bytes -> N) (p : msg),
  wf_msg p -> nz_msg p -> tmpl_hash h64 (tmpl_of_msg p) = tmpl_hash h64 p.
Proof. exact created_template_hash. Qed.
Print Assumptions C01_created_template_hash.

(* ... and the converse is false for every string hash: two well-formed Messages of different shapes with the same
   TemplateHashCode64 (the shape pair of finding F54) *)
Theorem C01_tmpl_hash_not_injective : forall (h64 : bytes -> N),
  wf_msg coll_1 /\ wf_msg coll_2 /\ nz_msg coll_1 /\ nz_msg coll_2 /\
  same_shape coll_1 coll_2 = false /\ same_shape coll_2 coll_1 = false /\
  tmpl_hash h64 coll_1 = tmpl_hash h64 coll_2.
Proof. exact hash_collision. Qed.
Print Assumptions C01_tmpl_hash_not_injective.

(* the templated codec for ANY template (fields non-empty) and ANY payload: the bytes are those of the payload merged
   into the template (the template's fields in the template's order; the payload's items where it has the field with
   the same type code, cut or padded with the template's items to the template's count), the merge has the template's
   shape, the size is exact and TemplatedUnflatten gives the merge back *)
Theorem C01_tmpl_merge_ok : forall t p : msg,
  wf_msg t -> nz_msg t -> wf_msg p ->
  wf_msg (tmpl_merge t p) /\ same_shape t (tmpl_merge t p) = true /\
  tmpl_flatten t (tmpl_merge t p) = tmpl_flatten t p /\
  tmpl_flattened_size t (tmpl_merge t p) = tmpl_flattened_size t p.
Proof. exact tmpl_merge_ok. Qed.
Print Assumptions C01_tmpl_merge_ok.

Theorem C01_tmpl_roundtrip_any : forall t p : msg,
  wf_msg t -> nz_msg t -> wf_msg p -> tmpl_flattened_size t p < two32 ->
  exists b, tmpl_flatten t p = Some b /\ len b = tmpl_flattened_size t p /\
            tmpl_unflatten t b = Ok (rt (tmpl_merge t p)).
Proof. exact tmpl_roundtrip_any. Qed.
Print Assumptions C01_tmpl_roundtrip_any.

Theorem C01_tmpl_merge_same_shape : forall t p : msg,
  wf_msg t -> nz_msg t -> wf_msg p -> same_shape t p = true -> tmpl_flattened_size t p < two32 ->
  rt (tmpl_merge t p) = rt p.
Proof. exact tmpl_merge_same_shape. Qed.
Print Assumptions C01_tmpl_merge_same_shape.

(* non-vacuity on the case the C++ got wrong: payload {a:["hi"]} against template {a:["qqqqq","x"]} *)
Theorem C01_tmpl_fewer_example :
  wf_msg fewer_t /\ nz_msg fewer_t /\ wf_msg fewer_p /\ same_shape fewer_t fewer_p = false /\
  tmpl_flattened_size fewer_t fewer_p = 21 /\
  tmpl_flatten fewer_t fewer_p =
    Some (cons Coq.Init.Byte.x00 (cons Coq.Init.Byte.x00 (cons Coq.Init.Byte.x00 (cons Coq.Init.Byte.x00
         (cons Coq.Init.Byte.x02 (cons Coq.Init.Byte.x00 (cons Coq.Init.Byte.x00 (cons Coq.Init.Byte.x00
         (cons Coq.Init.Byte.x03 (cons Coq.Init.Byte.x00 (cons Coq.Init.Byte.x00 (cons Coq.Init.Byte.x00
         (cons Coq.Init.Byte.x68 (cons Coq.Init.Byte.x69 (cons Coq.Init.Byte.x00
         (cons Coq.Init.Byte.x02 (cons Coq.Init.Byte.x00 (cons Coq.Init.Byte.x00 (cons Coq.Init.Byte.x00
         (cons Coq.Init.Byte.x78 (cons Coq.Init.Byte.x00 nil))))))))))))))))))))) /\
  tmpl_merge fewer_t fewer_p =
    Msg 0 (FCons (cons Coq.Init.Byte.x61 nil) Gen.Consts.c_B_STRING_TYPE
            (RArray (ICons (IStr (cons Coq.Init.Byte.x68 (cons Coq.Init.Byte.x69 nil))) (ICons (IStr (cons Coq.Init.Byte.x78 nil)) INil))) FNil).
Proof. exact ex_fewer. Qed.
Print Assumptions C01_tmpl_fewer_example.

(* 9. the domain boundary F9: a String with an embedded NUL is outside wf and does come back truncated *)
Theorem C01_nul_string_truncates :
  unflatten (flatten nul_msg) = Ok (Msg 0 (FCons nm_a Gen.Consts.c_B_STRING_TYPE (RInline (IStr (cons Coq.Init.Byte.x61 nil))) FNil))
  /\ ~ wf_msg nul_msg.
Proof. exact nul_string_truncates. Qed.
Print Assumptions C01_nul_string_truncates.

(* non-vacuity: the premises hold of non-trivial states (proved in Msg/MsgExamples.v) *)
Example C01_ex_wf : wf ex_msg.
Proof. exact ex_wf. Qed.
Example C01_ex_nontrivial : rt ex_msg <> ex_msg /\ unflatten (flatten ex_msg) = Ok (rt ex_msg).
Proof. exact (conj ex_rt_differs ex_roundtrip). Qed.
Example C01_ex_tmpl : wf_msg (tmpl_of_msg ex_msg) /\ ne_msg (tmpl_of_msg ex_msg) /\ same_shape (tmpl_of_msg ex_msg) ex_msg = true.
Proof. exact (conj (proj1 ex_tmpl) (conj (proj1 (proj2 ex_tmpl)) (proj1 (proj2 (proj2 ex_tmpl))))). Qed.
Example C01_ex_ops_ok : Forall op_ok ex_ops /\ wf (run ex_ops empty_msg).
Proof. exact (conj ex_ops_ok (proj1 ex_ops_result)). Qed.
