(* C04 -- property theorems only: each is closed by [exact] of a lemma proved elsewhere.
   Model: Refl/{Base,Tree,Matcher,Traverse,Session,Server,Mirror}.v.  Premises: the class MatchLaws (Refl/BaseProofs.v:
   laws of the external wildcard matcher), the history condition wf_run (a session arrives under a fresh
   (host, session-name) pair) and fewer than 2^31-1 SUBSCRIBE: items in the history (uint32/int32 counts). *)
From Coq Require Import List NArith ZArith.
From Muscle Require Import Refl.Base Refl.BaseProofs Refl.Tree Refl.TreeProofs Refl.Matcher Refl.MatcherProofs
     Refl.Traverse Refl.TraverseSpec Refl.Session Refl.Server Refl.ServerProofs Refl.RefcountProofs
     Refl.Concrete Refl.Examples.

(* refcount_inv (full): in every reachable state, for every node n and session id s, the node's subscriber table
   holds for s exactly the number of s's subscription paths that match n (GetMatchCount of s's _subscriptions;
   0 for an id that is no attached session). *)
Theorem C04_refcount_inv :
  forall (M : MatchOps) (L : MatchLaws M) (fx : fixes), fx_guard fx = true ->
  forall evs : list event,
  wf_run fx empty_server evs -> small (run_budget evs) ->
  forall (n : node) (s : sid), In n (sv_tree (run fx evs empty_server)) ->
  tbl_get (n_subs n) s = subscribed_count (run fx evs empty_server) s (n_path n).
Proof. exact @refcount_inv. Qed.
Print Assumptions C04_refcount_inv.

(* the subscriber tables hold each session at most once and no zero counts *)
Theorem C04_refcount_tables_ok :
  forall (M : MatchOps) (L : MatchLaws M) (fx : fixes), fx_guard fx = true ->
  forall evs : list event,
  wf_run fx empty_server evs -> small (run_budget evs) ->
  forall n : node, In n (sv_tree (run fx evs empty_server)) -> tbl_ok (n_subs n).
Proof. exact @refcount_tables_ok. Qed.
Print Assumptions C04_refcount_tables_ok.

(* the node tree stays a tree: distinct paths, every ancestor present *)
Theorem C04_tree_wf :
  forall (M : MatchOps) (L : MatchLaws M) (fx : fixes), fx_guard fx = true ->
  forall evs : list event,
  wf_run fx empty_server evs -> small (run_budget evs) -> wf_tree (sv_tree (run fx evs empty_server)).
Proof. exact @tree_wf_inv. Qed.
Print Assumptions C04_tree_wf.

(* traversal_eq_bruteforce for callbacks that go on (the repaired guard): DoTraversal calls back exactly on the nodes
   below the start node that MatchesNode accepts, each once *)
Theorem C04_traversal_visits_exactly_matching :
  forall (M : MatchOps) (L : MatchLaws M) (t : tree) (m : matcher) (root : path) (uf : bool) (n : node),
  wf_tree t -> wf_groups (m_groups m) ->
  (In n (visits t m root uf true) <->
   In n t /\ (exists r, r <> nil /\ n_path n = root ++ r)
   /\ matches_node m (n_path n) (dsel uf n) (length root) = true).
Proof. exact @visits_spec. Qed.
Print Assumptions C04_traversal_visits_exactly_matching.

Theorem C04_traversal_visits_once :
  forall (M : MatchOps) (L : MatchLaws M) (t : tree) (m : matcher) (root : path) (uf : bool),
  wf_tree t -> NoDup (visits t m root uf true).
Proof. exact @visits_nodup. Qed.
Print Assumptions C04_traversal_visits_once.

(* non-vacuity: the premises hold of a concrete matcher instance and a history with overlapping subscriptions *)
Example C04_premises_satisfiable :
  wf_run all_fixed empty_server ex1 /\ small (run_budget ex1).
Proof. exact ex1_premises. Qed.
Example C04_state_nontrivial :
  length (sv_tree ex1_state) = 7
  /\ option_map (fun n => tbl_get (n_subs n) 0%N) (find_node (sv_tree ex1_state) (1 :: 11 :: 21 :: nil)%N) = Some 1%N
  /\ option_map (fun n => tbl_get (n_subs n) 0%N)
       (find_node (sv_tree (run all_fixed (firstn 4 ex1) empty_server)) (1 :: 11 :: 21 :: nil)%N) = Some 2%N.
Proof. exact ex1_nontrivial. Qed.
