(* C04 -- property theorems only: each is closed by [exact] of a lemma proved elsewhere.
   Model: Refl/{Base,Tree,Matcher,Traverse,Session,Server,Mirror}.v.  Premises: the class MatchLaws (Refl/BaseProofs.v:
   laws of the external wildcard matcher), the history condition wf_run (a session arrives under a fresh
   (host, session-name) pair) and fewer than 2^31-1 SUBSCRIBE: items in the history (uint32/int32 counts). *)
From Coq Require Import List NArith ZArith.
From Muscle Require Import Refl.Base Refl.BaseProofs Refl.Tree Refl.TreeProofs Refl.Matcher Refl.MatcherProofs
     Refl.Traverse Refl.TraverseSpec Refl.Session Refl.Server Refl.ServerProofs Refl.RefcountProofs
     Refl.Concrete Refl.Examples Refl.Mirror Refl.MirrorBase Refl.MirrorCmd Refl.MirrorFrame Refl.MirrorQuiet Refl.MirrorTail Refl.MirrorProofs
     Refl.MirrorCheck Refl.MirrorStale Refl.MirrorExamples Refl.Params Refl.ParamsProofs Refl.ParamsExamples.

(* refcount_inv (full): in every reachable state, for every node n and session id s, the node's subscriber table
   holds for s exactly the number of s's subscription paths that match n (GetMatchCount of s's _subscriptions;
   0 for an id that is no attached session). *)
Theorem C04_refcount_inv :
  forall (M : MatchOps) (L : MatchLaws M) (fx : fixes), fx_guard fx = true ->
  forall evs : list event,
  wf_run fx empty_server evs -> small (run_budget evs) ->
  forall (n : node) (s : sid), In n (sv_tree (run fx evs empty_server)) ->
  tbl_get (n_subs n) s = subscribed_count (run fx evs empty_server) s (n_path n).
Proof. exact @refcount_inv. Qed.
Print Assumptions C04_refcount_inv.

(* the subscriber tables hold each session at most once and no zero counts *)
Theorem C04_refcount_tables_ok :
  forall (M : MatchOps) (L : MatchLaws M) (fx : fixes), fx_guard fx = true ->
  forall evs : list event,
  wf_run fx empty_server evs -> small (run_budget evs) ->
  forall n : node, In n (sv_tree (run fx evs empty_server)) -> tbl_ok (n_subs n).
Proof. exact @refcount_tables_ok. Qed.
Print Assumptions C04_refcount_tables_ok.

(* the node tree stays a tree: distinct paths, every ancestor present *)
Theorem C04_tree_wf :
  forall (M : MatchOps) (L : MatchLaws M) (fx : fixes), fx_guard fx = true ->
  forall evs : list event,
  wf_run fx empty_server evs -> small (run_budget evs) -> wf_tree (sv_tree (run fx evs empty_server)).
Proof. exact @tree_wf_inv. Qed.
Print Assumptions C04_tree_wf.

(* traversal_eq_bruteforce for callbacks that go on (the repaired guard): DoTraversal calls back exactly on the nodes
   below the start node that MatchesNode accepts, each once *)
Theorem C04_traversal_visits_exactly_matching :
  forall (M : MatchOps) (L : MatchLaws M) (t : tree) (m : matcher) (root : path) (uf : bool) (n : node),
  wf_tree t -> wf_groups (m_groups m) ->
  (In n (visits t m root uf true) <->
   In n t /\ (exists r, r <> nil /\ n_path n = root ++ r)
   /\ matches_node m (n_path n) (dsel uf n) (length root) = true).
Proof. exact @visits_spec. Qed.
Print Assumptions C04_traversal_visits_exactly_matching.

Theorem C04_traversal_visits_once :
  forall (M : MatchOps) (L : MatchLaws M) (t : tree) (m : matcher) (root : path) (uf : bool),
  wf_tree t -> NoDup (visits t m root uf true).
Proof. exact @visits_nodup. Qed.
Print Assumptions C04_traversal_visits_once.

(* non-vacuity: the premises hold of a concrete matcher instance and a history with overlapping subscriptions *)
Example C04_premises_satisfiable :
  wf_run all_fixed empty_server ex1 /\ small (run_budget ex1).
Proof. exact ex1_premises. Qed.
Example C04_state_nontrivial :
  length (sv_tree ex1_state) = 7
  /\ option_map (fun n => tbl_get (n_subs n) 0%N) (find_node (sv_tree ex1_state) (1 :: 11 :: 21 :: nil)%N) = Some 1%N
  /\ option_map (fun n => tbl_get (n_subs n) 0%N)
       (find_node (sv_tree (run all_fixed (firstn 4 ex1) empty_server)) (1 :: 11 :: 21 :: nil)%N) = Some 2%N.
Proof. exact ex1_nontrivial. Qed.

(* mirror_converges_partial.  Premises besides MatchLaws: the three repairs are in (fx = all_fixed on the repaired tree);
   a session arrives under a fresh (host, name) pair (wf_wrun); fewer than 2^31-1 SUBSCRIBE: items; and, read along the
   run (ok_wrun), for every command of session b in the state it meets:
   * ev_ok o -- quiet flags: every change of the tree by ANOTHER session is announced (no quiet SETDATA / REMOVEDATA; o's own
     may be quiet: they touch its own subtree only) and the observed session o does not subscribe quietly (other sessions
     may): cmd_loud_for; OR b is another session below whose session node none of o's subscription paths reaches
     (hidden_data), then b may use any quiet flag (lemma quiet_frame); batches nested below the server's limit;
   * ev_clean o -- what o itself sends: the SUBSCRIBE: fields of each of its Messages have distinct non-empty paths, the
     keys of an explicit GETDATA are subscriptions it holds at that moment (same path, same filter: cmd_covered, threaded
     through a BATCH; lemma getdata_covered_J), and an unsubscribe is a Message of its own or sits at the head and / or in
     the tail of a BATCH (head ++ middle ++ tail: head and tail hold unsubscribes, own SETDATA / REMOVEDATA and max-items
     changes only, the middle no unsubscribe; the client prunes once, after the BATCH; lemmas tail_fold, prune_J,
     batch_general_world_J).
   Client-mirror rule: Refl/Mirror.v (removals first, then sets; on its own unsubscribe the client drops what its
   remaining subscriptions no longer cover).
   Conclusion, at the quiescent point after ANY such history (any number of sessions coming and going, creation,
   overwrite, recursive and wildcard removal, subscription add / filter change / remove, overlapping subscriptions,
   payload changes across a filter, any max-items-per-update, batches): the client of o holds at every path outside o's
   own nodes exactly the node's current payload if one of o's subscriptions (path and filter) accepts it, and nothing
   otherwise -- none missing, none stale, none extra.
   Quiet set/remove on nodes the observer's subscription paths do reach: C04_mirror_converges_announced below (the
   statement restricted to the paths no quiet command changed).
   FULL statement not yet proved: a SUBSCRIBE: or GETDATA between two unsubscribes of one BATCH of the observer,
   a command that mixes quiet and announced changes of the tree seen by the observer, reflect-to-self, ordered indices. *)
Theorem C04_mirror_converges_partial :
  forall (M : MatchOps) (L : MatchLaws M) (fx : fixes),
  fx_guard fx = true -> fx_overlap fx = true -> fx_push fx = true ->
  forall (evs : list event) (o : sid),
  wf_wrun fx empty_world evs -> ok_wrun fx o empty_world evs -> small (run_budget evs) ->
  forall (c : client) (ss : session),
  In c (w_clients (world_run fx evs empty_world)) -> c_id c = o ->
  get_session (w_srv (world_run fx evs empty_world)) o = Some ss ->
  forall q : path, own_node ss q = false ->
  mirror_get (c_mirror c) q = expected (sv_tree (w_srv (world_run fx evs empty_world))) ss q.
Proof. exact @mirror_converges_partial. Qed.
Print Assumptions C04_mirror_converges_partial.

(* mirror_converges_announced: quiet changes that the observer CAN see.  Every event is either as above (ev_ok, ev_clean)
   or a command of another session made of quiet SETDATA / REMOVEDATA only (quiet_other; nobody is told anything).  The
   paths whose payload or existence such commands changed are collected along the run (stale_run); at every other path
   outside o's own nodes the mirror is exact at the quiescent point -- none missing, none stale, none extra there.  (Without
   quiet_other events the collection is empty and this is mirror_converges_partial.) *)
Theorem C04_mirror_converges_announced :
  forall (M : MatchOps) (L : MatchLaws M) (fx : fixes),
  fx_guard fx = true -> fx_overlap fx = true -> fx_push fx = true ->
  forall (o : sid) (evs : list event),
  wf_wrun fx empty_world evs -> oks_wrun fx o empty_world evs -> small (run_budget evs) ->
  forall (c : client) (ss : session),
  In c (w_clients (world_run fx evs empty_world)) -> c_id c = o ->
  get_session (w_srv (world_run fx evs empty_world)) o = Some ss ->
  forall q : path, own_node ss q = false -> pmem q (stale_run fx o empty_world evs nil) = false ->
  mirror_get (c_mirror c) q = expected (sv_tree (w_srv (world_run fx evs empty_world))) ss q.
Proof. exact @mirror_converges_announced. Qed.
Print Assumptions C04_mirror_converges_announced.

(* the same for histories as they are on the wire (Refl/Params.v): PR_COMMAND_REMOVEPARAMETERS works on parameter NAMES, so
   an unsubscribe under a spelling the client did not subscribe with ("SUBSCRIBE:x" for "SUBSCRIBE:/*/*/x") removes nothing;
   [pworld_run] threads every session's SUBSCRIBE: parameter names and lowers each command to what Server.v executes. *)
Theorem C04_mirror_converges_wire :
  forall (M : MatchOps) (L : MatchLaws M) (fx : fixes),
  fx_guard fx = true -> fx_overlap fx = true -> fx_push fx = true ->
  forall (evs : list event) (o : sid),
  wf_prun fx empty_pworld evs -> ok_prun fx o empty_pworld evs -> small (run_budget evs) ->
  let w := pw_world (pworld_run fx evs empty_pworld) in
  forall (c : client) (ss : session),
  In c (w_clients w) -> c_id c = o -> get_session (w_srv w) o = Some ss ->
  forall q : path, own_node ss q = false ->
  mirror_get (c_mirror c) q = expected (sv_tree (w_srv w)) ss q.
Proof. exact @mirror_converges_wire. Qed.
Print Assumptions C04_mirror_converges_wire.

(* ... and with premises that are tests of the events as they are on the wire (MirrorCheck.v: ev_ok_b -- no quiet flag on a
   change of the tree by another session, no quiet SUBSCRIBE: of o; ev_clean_b -- o sends no explicit GETDATA, distinct
   non-empty SUBSCRIBE: paths per Message, unsubscribes at the head / in the tail of a BATCH) *)
Theorem C04_mirror_converges_wire_checked :
  forall (M : MatchOps) (L : MatchLaws M) (fx : fixes),
  fx_guard fx = true -> fx_overlap fx = true -> fx_push fx = true ->
  forall (evs : list event) (o : sid),
  wf_prun fx empty_pworld evs -> forallb (ev_ok_b o) evs = true -> forallb (ev_clean_b o) evs = true ->
  small (run_budget evs) ->
  let w := pw_world (pworld_run fx evs empty_pworld) in
  forall (c : client) (ss : session),
  In c (w_clients w) -> c_id c = o -> get_session (w_srv w) o = Some ss ->
  forall q : path, own_node ss q = false ->
  mirror_get (c_mirror c) q = expected (sv_tree (w_srv w)) ss q.
Proof. exact @mirror_converges_wire_checked. Qed.
Print Assumptions C04_mirror_converges_wire_checked.

(* mirror_converges_announced on the wire (parameter names): the conditions are read off the lowered history *)
Theorem C04_mirror_converges_wire_announced :
  forall (M : MatchOps) (L : MatchLaws M) (fx : fixes),
  fx_guard fx = true -> fx_overlap fx = true -> fx_push fx = true ->
  forall (o : sid) (evs : list event),
  let evs' := lower_run fx empty_pworld evs in
  wf_wrun fx empty_world evs' -> oks_wrun fx o empty_world evs' -> small (run_budget evs') ->
  let w := pw_world (pworld_run fx evs empty_pworld) in
  forall (c : client) (ss : session),
  In c (w_clients w) -> c_id c = o -> get_session (w_srv w) o = Some ss ->
  forall q : path, own_node ss q = false -> pmem q (stale_run fx o empty_world evs' nil) = false ->
  mirror_get (c_mirror c) q = expected (sv_tree (w_srv w)) ss q.
Proof. exact @mirror_converges_wire_announced. Qed.
Print Assumptions C04_mirror_converges_wire_announced.

(* the repairs are necessary: with any one switched off, a clean history violates the statement
   (witnesses replayed on the real server: findings F12, F37, F38) *)
Theorem C04_mirror_refuted_without_F12_repair :
  premises_b (mkFixes false true true) ex_f12 0%N = true
  /\ holds_at (world_run (mkFixes false true true) ex_f12 empty_world) 0%N (1 :: 11 :: 30 :: 31 :: nil)%N = false
  /\ holds_at (world_run all_fixed ex_f12 empty_world) 0%N (1 :: 11 :: 30 :: 31 :: nil)%N = true.
Proof. exact mirror_refuted_without_F12_repair. Qed.
Print Assumptions C04_mirror_refuted_without_F12_repair.

Theorem C04_mirror_refuted_without_F37_repair :
  premises_b (mkFixes true false true) ex_f37 0%N = true
  /\ holds_at (world_run (mkFixes true false true) ex_f37 empty_world) 0%N (1 :: 11 :: 21 :: nil)%N = false
  /\ holds_at (world_run all_fixed ex_f37 empty_world) 0%N (1 :: 11 :: 21 :: nil)%N = true.
Proof. exact mirror_refuted_without_F37_repair. Qed.
Print Assumptions C04_mirror_refuted_without_F37_repair.

Theorem C04_mirror_refuted_without_F38_repair :
  premises_b (mkFixes true true false) ex_f38 0%N = true
  /\ holds_at (world_run (mkFixes true true false) ex_f38 empty_world) 0%N (1 :: 11 :: 21 :: nil)%N = false
  /\ holds_at (world_run all_fixed ex_f38 empty_world) 0%N (1 :: 11 :: 21 :: nil)%N = true.
Proof. exact mirror_refuted_without_F38_repair. Qed.
Print Assumptions C04_mirror_refuted_without_F38_repair.

(* non-vacuity of mirror_converges_partial: a history with overlapping subscriptions, filters, payload changes across a
   filter, a batch, an unsubscribe and a departure satisfies all premises, for two observers, and is non-trivial *)
Example C04_mirror_premises_satisfiable :
  premises_b all_fixed exm 0%N = true /\ premises_b all_fixed exm 2%N = true.
Proof. exact exm_premises. Qed.
Example C04_mirror_premises_imply_hypotheses :
  forall (M : MatchOps) (L : MatchLaws M) (fx : fixes) evs o, premises_b fx evs o = true ->
  wf_wrun fx empty_world evs /\ ok_wrun fx o empty_world evs /\ small (run_budget evs).
Proof. exact @premises_b_spec. Qed.
(* ... and by a history in which another session subscribes quietly and the observer sends explicit GETDATA for what it is
   subscribed to, alone and inside a BATCH *)
Example C04_mirror_premises_satisfiable_getdata :
  wf_wrun all_fixed empty_world exg /\ ok_wrun all_fixed 0%N empty_world exg /\ small (run_budget exg).
Proof. exact exg_premises. Qed.
Example C04_mirror_getdata_nontrivial :
  holds_at (world_run all_fixed exg empty_world) 0%N (1 :: 11 :: 21 :: nil)%N = true
  /\ option_map (fun c => length (c_mirror c)) (find (fun c => N.eqb (c_id c) 0%N) (w_clients (world_run all_fixed exg empty_world))) = Some 2%nat.
Proof. exact exg_nontrivial. Qed.

(* non-vacuity of mirror_converges_wire, and the parameter-name rule on a concrete history *)
Example C04_wire_premises_satisfiable :
  wf_prun_b all_fixed empty_pworld exw = true /\ ok_prun_b all_fixed 0%N empty_pworld exw = true.
Proof. exact wire_premises_satisfiable. Qed.
Example C04_wire_premises_imply_hypotheses :
  forall (fx : fixes) evs pw, wf_prun_b fx pw evs = true -> wf_prun fx pw evs.
Proof. exact wf_prun_b_spec. Qed.
Example C04_wire_ok_check_implies_hypothesis :
  forall (fx : fixes) o evs pw, ok_prun_b fx o pw evs = true -> ok_prun fx o pw evs.
Proof. exact ok_prun_b_spec. Qed.

(* ... and by a history in which a session the observer cannot see sets and removes quietly (quiet_frame) *)
Example C04_mirror_premises_satisfiable_quiet :
  wf_wrun all_fixed empty_world exq /\ ok_wrun all_fixed 0%N empty_world exq /\ small (run_budget exq).
Proof. exact exq_premises. Qed.
Example C04_mirror_quiet_nontrivial :
  holds_at (world_run all_fixed exq empty_world) 0%N (1 :: 11 :: 21 :: nil)%N = true
  /\ holds_at (world_run all_fixed exq empty_world) 0%N (1 :: 12 :: 21 :: nil)%N = true
  /\ option_map (fun c => length (c_mirror c)) (find (fun c => N.eqb (c_id c) 0%N) (w_clients (world_run all_fixed exq empty_world))) = Some 1%nat
  /\ length (sv_tree (w_srv (world_run all_fixed exq empty_world))) = 7%nat.
Proof. exact exq_nontrivial. Qed.

(* ... and by a history in which the observer switches subscriptions inside one BATCH (SUBSCRIBE: the new one, unsubscribe
   the old one) *)
Example C04_mirror_premises_satisfiable_batch_unsubscribe : premises_b all_fixed exb 0%N = true.
Proof. exact exb_premises. Qed.
Example C04_mirror_batch_unsubscribe_nontrivial :
  holds_at (world_run all_fixed exb empty_world) 0%N (1 :: 11 :: 21 :: nil)%N = true
  /\ holds_at (world_run all_fixed exb empty_world) 0%N (1 :: 11 :: 22 :: nil)%N = true
  /\ option_map (fun c => length (c_mirror c)) (find (fun c => N.eqb (c_id c) 0%N) (w_clients (world_run all_fixed (firstn 4 exb) empty_world))) = Some 2%nat
  /\ option_map (fun c => length (c_mirror c)) (find (fun c => N.eqb (c_id c) 0%N) (w_clients (world_run all_fixed exb empty_world))) = Some 1%nat.
Proof. exact exb_nontrivial. Qed.
(* ... and the other order (unsubscribe the old one, SUBSCRIBE: the new one, unsubscribe one more) *)
Example C04_mirror_premises_satisfiable_batch_unsubscribe_first : premises_b all_fixed exu 0%N = true.
Proof. exact exu_premises. Qed.
Example C04_mirror_batch_unsubscribe_first_nontrivial :
  holds_at (world_run all_fixed exu empty_world) 0%N (1 :: 11 :: 21 :: nil)%N = true
  /\ holds_at (world_run all_fixed exu empty_world) 0%N (1 :: 11 :: 22 :: nil)%N = true
  /\ holds_at (world_run all_fixed exu empty_world) 0%N (1 :: 11 :: 23 :: nil)%N = true
  /\ option_map (fun c => length (c_mirror c)) (find (fun c => N.eqb (c_id c) 0%N) (w_clients (world_run all_fixed (firstn 4 exu) empty_world))) = Some 3%nat
  /\ option_map (fun c => length (c_mirror c)) (find (fun c => N.eqb (c_id c) 0%N) (w_clients (world_run all_fixed exu empty_world))) = Some 1%nat.
Proof. exact exu_nontrivial. Qed.

(* non-vacuity of mirror_converges_announced: session 1 changes ab and creates ac quietly where the observer watches; the
   mirror is exact at ad (changed loudly afterwards) and NOT at ab, ac: the restriction to the uncollected paths is needed *)
Example C04_announced_premises_satisfiable :
  wf_wrun_b all_fixed empty_world exs = true /\ forallb (ev_oks_b 0%N) exs = true
  /\ stale_run all_fixed 0%N empty_world exs nil = ((1 :: 11 :: 21 :: nil) :: (1 :: 11 :: 21 :: nil) :: (1 :: 11 :: 22 :: nil) :: nil)%N.
Proof. exact exs_premises. Qed.
Example C04_announced_checks_imply_hypotheses :
  forall (M : MatchOps) (L : MatchLaws M) (fx : fixes) o evs w, forallb (ev_oks_b o) evs = true -> oks_wrun fx o w evs.
Proof. exact @oks_wrun_b_spec. Qed.
Example C04_announced_nontrivial :
  holds_at (world_run all_fixed exs empty_world) 0%N (1 :: 11 :: 20 :: nil)%N = true
  /\ holds_at (world_run all_fixed exs empty_world) 0%N (1 :: 11 :: 21 :: nil)%N = false
  /\ holds_at (world_run all_fixed exs empty_world) 0%N (1 :: 11 :: 22 :: nil)%N = false
  /\ option_map (fun c => length (c_mirror c)) (find (fun c => N.eqb (c_id c) 0%N) (w_clients (world_run all_fixed exs empty_world))) = Some 2%nat.
Proof. exact exs_nontrivial. Qed.
