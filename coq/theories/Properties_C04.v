(* C04 -- property theorems only: each is closed by [exact] of a lemma proved elsewhere. *)
From Coq Require Import List NArith ZArith.
From Muscle Require Import Refl.Base Refl.Tree Refl.TreeProofs.

Theorem C04_tbl_get_put_same : forall t s c, tbl_get (tbl_put t s c) s = c.
Proof. exact tbl_get_put_same. Qed.
Print Assumptions C04_tbl_get_put_same.
