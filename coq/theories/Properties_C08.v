(* C08 -- all Message implementations agree on one wire format, byte for byte.
   Property theorems only: each is closed by [exact] of a lemma proved under Msg/.

   [spec_msg] (Msg/MsgSpec.v) is the wire format written from the documentation alone: uniform over the list
   of a field's items, ignorant of the C++ representation and of the constants translated from /repo (it
   uses the four-character codes and the documented item widths).  [flatten] is the code-shaped model of
   Message::Flatten tied to the C++ by the C01 correspondence run.  The C and Python codecs are not modelled:
   they are compared with [spec_msg] and with each other by the differential run of checks/c08.py. *)
From Coq Require Import List NArith.
From Muscle Require Import Gen.Consts Msg.MsgDefs Msg.MsgModel Msg.MsgSpec Msg.MsgBytesProofs Msg.MsgSizeProofs
  Msg.MsgRoundTrip Msg.MsgReprProofs Msg.MsgSpecProofs Msg.MsgExamples.
Local Open Scope N_scope.

(* 1. the code-shaped model writes exactly the documented layout, for every well-formed Message: including the
   three historical special cases (no count word for Message fields, 1-byte bools, count + length prefixes for
   strings and raw data) and whichever of the two writers (inline item / array object) the field state selects *)
Theorem C08_flatten_is_spec : forall m : msg, wf_msg m -> flatten m = spec_msg m.
Proof. exact flatten_is_spec. Qed.
Print Assumptions C08_flatten_is_spec.

(* 2. the documented layout is a function of the content only *)
Theorem C08_spec_repr_indep : forall m : msg, spec_msg (content_msg m) = spec_msg m.
Proof. exact spec_repr_indep. Qed.
Print Assumptions C08_spec_repr_indep.

(* 3. the parser model accepts the documented layout and recovers the Message *)
Theorem C08_spec_roundtrip : forall m : msg, wf m -> unflatten (spec_msg m) = Ok (rt m).
Proof. exact spec_roundtrip. Qed.
Print Assumptions C08_spec_roundtrip.

(* 4. the bytes determine the content: two well-formed Messages with equal bytes have equal content *)
Theorem C08_spec_injective : forall m n : msg, wf m -> wf n -> spec_msg m = spec_msg n ->
  content_msg (strip_msg m) = content_msg (strip_msg n).
Proof. exact spec_injective. Qed.
Print Assumptions C08_spec_injective.

(* 5. the constants translated from /repo are the documented four-character codes, and the type switch of
   Message.cpp classifies type codes as documented with the documented item widths *)
Theorem C08_constants_documented :
  c_CURRENT_PROTOCOL_VERSION = s_PM00 /\ c_OLDEST_SUPPORTED_PROTOCOL_VERSION = s_PM00 /\
  c_MUSCLE_MESSAGE_ENCODING_DEFAULT = s_Enc0.
Proof. exact protocol_constants_documented. Qed.
Print Assumptions C08_constants_documented.

Theorem C08_type_switch_documented : forall tc : N, spec_class tc = class_of_ft (ftype_of_tc tc).
Proof. exact spec_class_ft. Qed.
Print Assumptions C08_type_switch_documented.

Theorem C08_item_widths_documented : forall ft : ftype, ft_fixed ft = true -> class_of_ft ft = SFixed (cpp_size ft).
Proof. exact class_width_ok. Qed.
Print Assumptions C08_item_widths_documented.

Theorem C08_constant_copies_agree :
  c_mini_CURRENT_PROTOCOL_VERSION = c_CURRENT_PROTOCOL_VERSION /\
  c_mini_OLDEST_SUPPORTED_PROTOCOL_VERSION = c_OLDEST_SUPPORTED_PROTOCOL_VERSION /\
  c_micro_CURRENT_PROTOCOL_VERSION = c_CURRENT_PROTOCOL_VERSION /\
  c_micro_OLDEST_SUPPORTED_PROTOCOL_VERSION = c_OLDEST_SUPPORTED_PROTOCOL_VERSION /\
  c_py_CURRENT_PROTOCOL_VERSION = c_CURRENT_PROTOCOL_VERSION /\
  c_minigw_ENCODING_DEFAULT = c_MUSCLE_MESSAGE_ENCODING_DEFAULT /\
  c_microgw_ENCODING_DEFAULT = c_MUSCLE_MESSAGE_ENCODING_DEFAULT /\
  c_py_ENCODING_DEFAULT = c_MUSCLE_MESSAGE_ENCODING_DEFAULT.
Proof. exact protocol_constant_copies_agree. Qed.
Print Assumptions C08_constant_copies_agree.

Theorem C08_python_type_codes_agree :
  c_py_B_BOOL_TYPE = c_B_BOOL_TYPE /\ c_py_B_DOUBLE_TYPE = c_B_DOUBLE_TYPE /\ c_py_B_FLOAT_TYPE = c_B_FLOAT_TYPE /\
  c_py_B_INT64_TYPE = c_B_INT64_TYPE /\ c_py_B_INT32_TYPE = c_B_INT32_TYPE /\ c_py_B_INT16_TYPE = c_B_INT16_TYPE /\
  c_py_B_INT8_TYPE = c_B_INT8_TYPE /\ c_py_B_MESSAGE_TYPE = c_B_MESSAGE_TYPE /\ c_py_B_POINTER_TYPE = c_B_POINTER_TYPE /\
  c_py_B_POINT_TYPE = c_B_POINT_TYPE /\ c_py_B_RECT_TYPE = c_B_RECT_TYPE /\ c_py_B_STRING_TYPE = c_B_STRING_TYPE /\
  c_py_B_RAW_TYPE = c_B_RAW_TYPE /\ c_py_B_ANY_TYPE = c_B_ANY_TYPE.
Proof. exact python_type_codes_agree. Qed.
Print Assumptions C08_python_type_codes_agree.

(* 6. the 8-byte stream frame *)
Theorem C08_unframe_frame : forall (enc : N) (body rest : bytes),
  len body < two32 -> enc < two32 -> unframe (frame enc body ++ rest) = Some (enc, body, rest).
Proof. exact unframe_frame. Qed.
Print Assumptions C08_unframe_frame.

(* non-vacuity *)
Example C08_ex_wf : wf ex_msg.
Proof. exact ex_wf. Qed.
Example C08_ex_spec : flatten ex_msg = spec_msg ex_msg /\ rt ex_msg <> ex_msg.
Proof. exact (conj (flatten_is_spec ex_msg (proj1 ex_wf)) ex_rt_differs). Qed.
