(* Refl/Tree.v -- the node tree of the reflector server as a flat list (reflector/DataNode.{h,cpp}).
   Definitions only.

   A node = (absolute path, payload, subscriber table).  The list is in creation order; the
   children of p are the entries p ++ [k] in list order, which is the iteration order of
   DataNode::_children (a muscle Hashtable iterates in insertion order and the reflector never
   reorders or overwrites a child entry).  The root (path []) is implicit: no pattern has zero
   clauses, so the root is never matched, subscribed to or reported.

   The subscriber table (DataNode::_subscribers, "session id -> number of that session's
   subscription strings that match this node") is an association list.  The pooled immutable
   tables of util/ImmutableHashtablePool.h are modelled at the level of their CONTENT
   ([tbl_adjust] = StorageReflectSession::GetDataNodeSubscribersTableFromPool, 295-309); the
   iteration order used here (new keys appended, updates in place) is the order of a table
   built without a cache hit. *)
From Coq Require Import List NArith ZArith Bool Arith.
From Muscle Require Import Refl.Base.
Import ListNotations.

Definition subtbl := list (sid * N).

Record node := mkNode { n_path : path; n_data : payload; n_subs : subtbl }.

Definition tree := list node.

Definition depth (n : node) : nat := length (n_path n).

(* ------------------------------------------------------------------ subscriber tables *)

Fixpoint tbl_get (t : subtbl) (s : sid) : N :=          (* Hashtable::operator[] : 0 when absent *)
  match t with
  | [] => 0%N
  | (k, c) :: r => if N.eqb k s then c else tbl_get r s
  end.

Fixpoint tbl_has (t : subtbl) (s : sid) : bool :=
  match t with
  | [] => false
  | (k, _) :: r => N.eqb k s || tbl_has r s
  end.

Fixpoint tbl_put (t : subtbl) (s : sid) (c : N) : subtbl :=
  match t with
  | [] => [(s, c)]
  | (k, c0) :: r => if N.eqb k s then (k, c) :: r else (k, c0) :: tbl_put r s c
  end.

Fixpoint tbl_remove (t : subtbl) (s : sid) : subtbl :=
  match t with
  | [] => []
  | (k, c0) :: r => if N.eqb k s then r else (k, c0) :: tbl_remove r s
  end.

(* GetDataNodeSubscribersTableFromPool(cur, sessionID, delta):  delta is an int32, the counts are uint32 *)
Definition tbl_adjust (t : subtbl) (s : sid) (delta : Z) : subtbl :=
  if Z.eqb delta 0 then t
  else
    let cur := tbl_get t s in
    let nw := if Z.leb 0 delta then u32 (cur + Z.to_N delta)
              else let d := Z.to_N (Z.opp delta) in
                   if N.leb d cur then (cur - d)%N else 0%N in
    if N.ltb 0 nw then tbl_put t s nw else tbl_remove t s.

(* ------------------------------------------------------------------ lookup *)

Fixpoint find_node (t : tree) (p : path) : option node :=
  match t with
  | [] => None
  | n :: r => if path_eqb (n_path n) p then Some n else find_node r p
  end.

Definition has_node (t : tree) (p : path) : bool :=
  match find_node t p with Some _ => true | None => false end.

(* children of p in Hashtable iteration order *)
Definition children (t : tree) (p : path) : list node :=
  filter (fun n => is_child p (n_path n)) t.

Definition get_child (t : tree) (p : path) (k : name) : option node := find_node t (p ++ [k]).

Definition has_children (t : tree) (p : path) : bool :=
  match children t p with [] => false | _ => true end.

(* ------------------------------------------------------------------ updates *)

Definition add_node (t : tree) (n : node) : tree := t ++ [n].

Definition remove_node (t : tree) (p : path) : tree :=
  filter (fun n => negb (path_eqb (n_path n) p)) t.

Definition map_node (f : node -> node) (t : tree) (p : path) : tree :=
  map (fun n => if path_eqb (n_path n) p then f n else n) t.

Definition set_data (t : tree) (p : path) (d : payload) : tree :=
  map_node (fun n => mkNode (n_path n) d (n_subs n)) t p.

Definition adjust_subs (t : tree) (p : path) (s : sid) (delta : Z) : tree :=
  map_node (fun n => mkNode (n_path n) (n_data n) (tbl_adjust (n_subs n) s delta)) t p.

(* ------------------------------------------------------------------ orders *)

(* The order in which DataNode::RemoveChild(key, notify, recurse=true) takes the subtree at p apart:
   `while(child->HasChildren()) child->RemoveChild(first key ...)`, then the node itself: post-order,
   children in iteration order.  Fuel: a chain of nested nodes needs as many list entries. *)
Fixpoint removal_order (fuel : nat) (t : tree) (p : path) : list path :=
  match fuel with
  | 0 => [p]
  | S f => flat_map (fun c => removal_order f t (n_path c)) (children t p) ++ [p]
  end.

(* depth-first pre-order below p (the canonical dump of the correspondence run) *)
Fixpoint dfs (fuel : nat) (t : tree) (p : path) : list node :=
  match fuel with
  | 0 => []
  | S f => flat_map (fun c => c :: dfs f t (n_path c)) (children t p)
  end.
