(* Refl/IndexModel.v -- C13: the reflector's ordered-index machinery as a state machine.
   Sessions 0..n-1 own the subtrees [NS s] :: _ of a flat node tree (Refl/Index.v); each keeps
   subscription patterns, the _indexingPresent flag, and a pending PR_RESULT_INDEXUPDATED log
   (_nextIndexSubscriptionMessage); each session's *client* keeps a replica (mirror) of the
   index of every node it is subscribed to, updated by replaying what is delivered.

   Mirrors: StorageReflectSession::SetDataNode, InsertOrderedData/InsertOrderedDataCallback/
   InsertOrderedChildNode, ReorderDataCallback (PR_COMMAND_REORDERDATA, MoveIndexEntries),
   DoRemoveData/RemoveDataCallback + DataNode::RemoveChild (recursive), DoGetData/GetDataCallback
   (index snapshot; own-subtree short cut), PR_COMMAND_SETPARAMETERS "SUBSCRIBE:", REMOVEPARAMETERS,
   NotifySubscribersThatNodeIndexChanged/NodeIndexChanged, PushSubscriptionMessages (after every
   command, also after every sub-Message of a PR_COMMAND_BATCH), CloneDataNodeSubtree,
   SaveNodeTreeToMessage/RestoreNodeTreeFromMessage, DataNode::RemoveIndexEntryAt, Cleanup (detach).

   [config] selects, for the two places where the pinned code breaks the property, between the
   code as found and the proposed repair; the theorems are about [cfg_fixed], the
   [.._refuted] lemmas about [cfg_pinned].   No proofs in this file. *)
From Coq Require Import List Arith Bool.
Import ListNotations.
From Muscle Require Import Refl.Index.

Record config := mkCfg {
  fix_reorder_ipres : bool;   (* ReorderDataCallback sets _indexingPresent (pinned code: does not) *)
  fix_clone : bool            (* CloneDataNodeSubtree drops an existing entry before InsertIndexEntryAt and
                                 sets _indexingPresent when it copies an index (pinned code: neither) *)
}.
Definition cfg_fixed : config := mkCfg true true.
Definition cfg_pinned : config := mkCfg false false.

Definition event := (nat * path * iop)%type.

Record state := mkSt {
  st_n : nat;                               (* number of attached sessions *)
  st_tree : tree;
  st_subs : nat -> list pattern;            (* _subscriptions (absolute patterns) *)
  st_ipres : nat -> bool;                   (* _indexingPresent *)
  st_refl : nat -> bool;                    (* MUSCLE_ROUTING_FLAG_REFLECT_TO_SELF *)
  st_pend : list event;                     (* all sessions' _nextIndexSubscriptionMessage, in emission order *)
  st_mirror : nat -> path -> list name;     (* client side: replica of the index of each subscribed node *)
  st_hist : nat -> path -> list iop;        (* ghost: what was delivered for (s,p) since s subscribed to p *)
  st_out : list event                       (* everything delivered during the current step, in delivery order *)
}.

Definition with_tree (st : state) (t : tree) : state :=
  mkSt (st_n st) t (st_subs st) (st_ipres st) (st_refl st) (st_pend st) (st_mirror st) (st_hist st) (st_out st).
Definition with_pend (st : state) (pe : list event) : state :=
  mkSt (st_n st) (st_tree st) (st_subs st) (st_ipres st) (st_refl st) pe (st_mirror st) (st_hist st) (st_out st).
Definition with_out (st : state) (o : list event) : state :=
  mkSt (st_n st) (st_tree st) (st_subs st) (st_ipres st) (st_refl st) (st_pend st) (st_mirror st) (st_hist st) o.
Definition set_ipres (st : state) (s : nat) : state :=
  mkSt (st_n st) (st_tree st) (st_subs st) (fun x => if Nat.eqb x s then true else st_ipres st x) (st_refl st)
       (st_pend st) (st_mirror st) (st_hist st) (st_out st).
Definition set_refl (st : state) (s : nat) (v : bool) : state :=
  mkSt (st_n st) (st_tree st) (st_subs st) (st_ipres st) (fun x => if Nat.eqb x s then v else st_refl st x)
       (st_pend st) (st_mirror st) (st_hist st) (st_out st).

Definition init_tree (n : nat) : tree := map (fun s => ([NS s], new_node)) (seq 0 n).

Definition init_state (n : nat) : state :=
  mkSt n (init_tree n) (fun _ => []) (fun _ => false) (fun _ => false) [] (fun _ _ => []) (fun _ _ => []) [].

Definition subscribed_in (subs : list pattern) (p : path) : bool := existsb (fun pat => pmatch pat p) subs.
Definition subscribed (st : state) (s : nat) (p : path) : bool := subscribed_in (st_subs st s) p.

Definition own (s : nat) (p : path) : bool :=
  match p with NS s' :: _ => Nat.eqb s' s | _ => false end.

(* ------------------------------------------------------------------ notification and delivery *)

(* NotifySubscribersThatNodeIndexChanged: every subscriber of p queues the ops *)
Definition notify_events (st : state) (p : path) (ops : list iop) : list event :=
  flat_map (fun s => if subscribed st s p then map (fun o => (s, p, o)) ops else []) (seq 0 (st_n st)).

Definition notify (st : state) (p : path) (ops : list iop) : state :=
  with_pend st (st_pend st ++ notify_events st p ops).

(* one op reaches the client of session s: it is logged; a client that is subscribed to p applies it
   to its replica, any other client treats it as a one-shot read *)
Definition deliver1 (st : state) (e : event) : state :=
  let '(s, p, o) := e in
  let hit := fun (s' : nat) (p' : path) => Nat.eqb s' s && path_eqb p' p && subscribed st s p in
  mkSt (st_n st) (st_tree st) (st_subs st) (st_ipres st) (st_refl st) (st_pend st)
       (fun s' p' => if hit s' p' then replay1 (st_mirror st s' p') o else st_mirror st s' p')
       (fun s' p' => if hit s' p' then st_hist st s' p' ++ [o] else st_hist st s' p')
       (st_out st ++ [e]).

Definition deliver (st : state) (s : nat) (p : path) (ops : list iop) : state :=
  fold_left deliver1 (map (fun o => (s, p, o)) ops) st.

(* PushSubscriptionMessages: every session's pending index Message goes out *)
Definition flush (st : state) : state :=
  fold_left deliver1 (st_pend st) (with_pend st []).

(* ------------------------------------------------------------------ primitives on the tree *)

Definition node_at (st : state) (p : path) : inode :=
  match lookup (st_tree st) p with Some n => n | None => new_node end.

Definition put_idx (st : state) (p : path) (n : inode) (ops : list iop) : state :=
  notify (with_tree st (set_node (st_tree st) p n)) p ops.

(* node.InsertOrderedChild(..) + `_indexingPresent = true`; p is a node at or below the session's own
   node (every caller starts from _sessionDir) *)
Definition prim_insert_ordered (st : state) (s : nat) (p : path) (b : bspec) (optname : option name) : state :=
  if own s p && has_node (st_tree st) p then
    let '(n', nm, ops) := insert_ordered_child (kids_of (st_tree st) p) (node_at st p) b optname in
    if has_node (st_tree st) (p ++ [nm]) then st
    else
      let t1 := add_node (set_node (st_tree st) p n') (p ++ [nm]) in
      set_ipres (notify (with_tree st t1) p ops) s
  else st.

(* ReorderDataCallback: indexNode = parent p (at or below the session's own node), child c looked up by name *)
Definition prim_reorder (cfg : config) (st : state) (s : nat) (p : path) (c : name) (b : bspec) : state :=
  if own s p && has_node (st_tree st) p && has_node (st_tree st) (p ++ [c]) then
    let '(n', ops) := reorder_child (kids_of (st_tree st) p) (node_at st p) c b in
    let st1 := put_idx st p n' ops in
    if fix_reorder_ipres cfg then set_ipres st1 s else st1
  else st.

(* parent.RemoveIndexEntry(key, notify) *)
Definition prim_remove_entry (st : state) (p : path) (k : name) : state :=
  if has_node (st_tree st) p then
    let '(n', ops) := remove_index_entry (node_at st p) k in put_idx st p n' ops
  else st.

(* what the recursion of DataNode::RemoveChild does to the index of one node q of the doomed subtree:
   its children go one by one, in iteration order, each leaving the index with a notification *)
Definition drain_node (st : state) (q : path) : state :=
  fold_left (fun st k => prim_remove_entry st q k) (kids_of (st_tree st) q) st.

(* parent->RemoveChild(name, this, recurse=true): v = parent ++ [name] *)
Definition remove_child_rec (st : state) (v : path) : state :=
  if has_node (st_tree st) v then
    let st1 := fold_left drain_node (subtree_paths (st_tree st) v) st in
    let st2 := prim_remove_entry st1 (parent_of v) (last_name v) in
    with_tree st2 (delete_subtree (st_tree st2) v)
  else st.

(* parent->RemoveChild(name, NULL, true): PR_NAME_REMOVE_QUIETLY / RemoveDataNodes(.., quiet = true).  Nobody is
   notified: the node, everything below it and its entry in the parent's index just go.  Not one of the commands
   of [run] (it gives up the replay property by design); IndexRunProofs.quiet_frame says how far the damage goes. *)
Definition remove_child_quiet (st : state) (v : path) : state :=
  if has_node (st_tree st) v then
    let t1 := match lookup (st_tree st) (parent_of v) with
              | Some n => set_node (st_tree st) (parent_of v) (fst (remove_index_entry n (last_name v)))
              | None => st_tree st
              end in
    with_tree st (delete_subtree t1 v)
  else st.

(* RemoveDataCallback only collects nodes below the session nodes (GetDepth() > NODE_DEPTH_SESSIONNAME) *)
Definition prim_remove_node (st : state) (v : path) : state :=
  if 2 <=? length v then remove_child_rec st v else st.

(* DataNode::RemoveIndexEntryAt(pos, this) on the node at p, through the subclass API *)
Definition prim_remove_entry_at (st : state) (p : path) (pos : nat) : state :=
  if has_node (st_tree st) p then
    let '(n', ops) := remove_index_entry_at (node_at st p) pos in put_idx st p n' ops
  else st.

(* DataNode::InsertIndexEntryAt(pos, this, key) on the own node at p, by a subclass that respects the documented
   preconditions (key is a child, is not in the index yet, pos is a valid position) and, since it edits an
   index by hand, switches the own-subtree short cut of GetDataCallback off (_indexingPresent = true) *)
Definition prim_insert_entry_at (st : state) (s : nat) (p : path) (pos : nat) (k : name) : state :=
  if own s p && has_node (st_tree st) p && mem k (kids_of (st_tree st) p)
     && negb (mem k (index_at (st_tree st) p)) && (pos <=? length (index_at (st_tree st) p)) then
    let '(n', ops) := insert_index_entry_at (kids_of (st_tree st) p) (node_at st p) pos k in
    set_ipres (put_idx st p n' ops) s
  else st.

(* StorageReflectSession::SetDataNode(path, data, flags{ADDTOINDEX}, optInsertBefore); cur = the node reached so far *)
Fixpoint set_data_node_aux (st : state) (s : nat) (cur : path) (rel : path) (addidx : bool) (b : bspec) : state :=
  match rel with
  | [] => st
  | [c] =>
      if has_node (st_tree st) (cur ++ [c]) then
        (if addidx then st
         else if is_remove b then prim_remove_entry st cur c else st)
      else if addidx then prim_insert_ordered st s cur b (Some c)
      else with_tree st (add_node (st_tree st) (cur ++ [c]))
  | c :: rest =>
      set_data_node_aux (with_tree st (add_node (st_tree st) (cur ++ [c]))) s (cur ++ [c]) rest addidx b
  end.

Definition set_data_node (st : state) (s : nat) (rel : path) (addidx : bool) (b : bspec) : state :=
  if has_node (st_tree st) [NS s] then set_data_node_aux st s [NS s] rel addidx b else st.

(* SetDataNode("<rel>/", data, ADDTOINDEX): the empty last clause names no child, so InsertOrderedChild is asked
   to generate the name; the clauses before it are created like any intermediate nodes *)
Fixpoint make_path (st : state) (cur : path) (rel : path) : state :=
  match rel with
  | [] => st
  | c :: r => make_path (with_tree st (add_node (st_tree st) (cur ++ [c]))) (cur ++ [c]) r
  end.

Definition set_data_gen (st : state) (s : nat) (rel : path) : state :=
  if has_node (st_tree st) [NS s] then prim_insert_ordered (make_path st [NS s] rel) s ([NS s] ++ rel) BEnd None else st.

(* DoGetData with one absolute pattern: GetDataCallback on every matching node *)
Definition getdata_node (st : state) (s : nat) (e : path * inode) : state :=
  let '(p, n) := e in
  if own s p && negb (st_ipres st s) && negb (st_refl st s) then st   (* "isn't part of our own tree" short cut *)
  else deliver st s p (snapshot n).

Definition getdata (st : state) (s : nat) (pat : pattern) : state :=
  fold_left (fun st e => getdata_node st s e) (filter (fun e => pmatch pat (fst e)) (st_tree st)) st.

Definition add_sub (subs : list pattern) (pat : pattern) : list pattern :=
  if existsb (pattern_eqb pat) subs then subs else subs ++ [pat].

Definition set_subs (st : state) (s : nat) (l : list pattern) : state :=
  mkSt (st_n st) (st_tree st) (fun x => if Nat.eqb x s then l else st_subs st x) (st_ipres st) (st_refl st)
       (st_pend st) (st_mirror st) (st_hist st) (st_out st).

(* SETPARAMETERS "SUBSCRIBE:<pat>" (the implied GETDATA, or for a quiet subscription the GETDATA of
   the same pattern that the client sends in the same batch) *)
Definition subscribe (st : state) (s : nat) (pat : pattern) : state :=
  getdata (set_subs st s (add_sub (st_subs st s) pat)) s pat.

(* REMOVEPARAMETERS: the subscriptions that satisfy [keep] stay; the client forgets the replicas it is no
   longer subscribed to *)
Definition unsubscribe_by (st : state) (s : nat) (keep_sub : pattern -> bool) : state :=
  let l := filter keep_sub (st_subs st s) in
  let keep := fun (s' : nat) (p : path) => negb (Nat.eqb s' s) || subscribed_in l p in
  mkSt (st_n st) (st_tree st) (fun x => if Nat.eqb x s then l else st_subs st x) (st_ipres st) (st_refl st) (st_pend st)
       (fun s' p => if keep s' p then st_mirror st s' p else [])
       (fun s' p => if keep s' p then st_hist st s' p else [])
       (st_out st).

(* REMOVEPARAMETERS "SUBSCRIBE:<pat>" (escaped: exactly that subscription) *)
Definition unsubscribe (st : state) (s : nat) (pat : pattern) : state :=
  unsubscribe_by st s (fun q => negb (pattern_eqb pat q)).

(* CloneDataNodeSubtree(node at src, destPath, flags{ADDTOINDEX}, optInsertBefore) *)
Fixpoint copy_index (cfg : config) (st : state) (dst : path) (l : list name) (w : nat) : state :=
  match l with
  | [] => st
  | nm :: rest =>
      if mem nm (kids_of (st_tree st) dst) then
        let st0 := if fix_clone cfg then prim_remove_entry st dst nm else st in
        let '(n', ops) := insert_index_entry_at (kids_of (st_tree st0) dst) (node_at st0 dst) w nm in
        copy_index cfg (put_idx st0 dst n' ops) dst rest (S w)
      else copy_index cfg st dst rest w
  end.

Fixpoint clone (cfg : config) (fuel : nat) (st : state) (s : nat) (src : path) (dstrel : path) (addidx : bool) (b : bspec) : state :=
  match fuel with
  | 0 => st
  | S f =>
      if has_node (st_tree st) src then
        let st1 := set_data_node st s dstrel addidx b in
        let st2 := fold_left (fun st k => clone cfg f st s (src ++ [k]) (dstrel ++ [k]) false BEnd)
                             (kids_of (st_tree st1) src) st1 in
        match idx (node_at st2 src) with
        | Some l =>
            let dst := NS s :: dstrel in
            if has_node (st_tree st2) dst then
              let st3 := copy_index cfg st2 dst l 0 in
              if fix_clone cfg then set_ipres st3 s else st3
            else st2
        | None => st2
        end
      else st
  end.

(* SaveNodeTreeToMessage(msg, node at src, "", true) followed by RestoreNodeTreeFromMessage(msg, dstrel, true, flags).
   The saved Message is a value: [t0] is the tree at the time of saving.  A node's index is saved only when
   the node has children; on restoring, the indexed children (those present) come first, in index order and
   with ADDTOINDEX, then the others in child-table order without it. *)
Fixpoint restore (fuel : nat) (t0 : tree) (st : state) (s : nat) (src : path) (dstrel : path) (addidx : bool) : state :=
  match fuel with
  | 0 => st
  | S f =>
      let st1 := set_data_node st s dstrel addidx BEnd in
      let ks := kids_of t0 src in
      let ix := match ks with [] => [] | _ => index_at t0 src end in
      let st2 := fold_left (fun st k => if mem k ks then restore f t0 st s (src ++ [k]) (dstrel ++ [k]) true else st) ix st1 in
      fold_left (fun st k => if mem k ix then st else restore f t0 st s (src ++ [k]) (dstrel ++ [k]) false) ks st2
  end.

(* the client of session s goes away: Cleanup() removes the session node with everything below it
   (subscribers are notified), pushes, and drops the session's subscriptions *)
Definition drop_session (st : state) (s : nat) : state :=
  mkSt (st_n st) (st_tree st) (fun x => if Nat.eqb x s then [] else st_subs st x) (st_ipres st) (st_refl st) (st_pend st)
       (fun s' p => if Nat.eqb s' s then [] else st_mirror st s' p)
       (fun s' p => if Nat.eqb s' s then [] else st_hist st s' p)
       (filter (fun e : event => negb (Nat.eqb (fst (fst e)) s)) (st_out st)).   (* nobody is left to receive them *)

(* ------------------------------------------------------------------ commands *)

Inductive cmd :=
| CSetData (items : list (path * bool)) (addidx : bool)       (* PR_COMMAND_SETDATA: one field per path, in order; the bool marks a
                                                                 trailing '/' (generated name; with ADDTOINDEX only);
                                                                 PR_NAME_FLAGS = ADDTOINDEX or not (QUIET changes nothing here) *)
| CInsertOrdered (ppats : list pattern) (items : list bspec)  (* PR_COMMAND_INSERTORDEREDDATA, keys of equal depth *)
| CReorder (fields : list (pattern * bspec))                  (* PR_COMMAND_REORDERDATA: one traversal per field, in order;
                                                                 also MoveIndexEntries *)
| CRemove (pats : list pattern)                               (* PR_COMMAND_REMOVEDATA, keys of equal depth; also RemoveDataNodes *)
| CSubscribe (pat : pattern)                                  (* SETPARAMETERS SUBSCRIBE:pat (+ GETDATA when quiet) *)
| CUnsubscribe (pat : pattern)                                (* REMOVEPARAMETERS SUBSCRIBE:pat *)
| CUnsubscribeAll                                             (* REMOVEPARAMETERS SUBSCRIBE:* (wildcard: every subscription) *)
| CGetData (pat : pattern)                                    (* PR_COMMAND_GETDATA, one key *)
| CSetRefl (v : bool)                                         (* PR_NAME_REFLECT_TO_SELF parameter set / removed *)
| CNoop                                                       (* anything without effect on indices *)
| ASetDataNode (rel : path) (addidx : bool) (b : bspec)       (* subclass API SetDataNode *)
| AClone (src : path) (dstrel : path) (addidx : bool) (b : bspec)    (* subclass API CloneDataNodeSubtree *)
| ARestore (src : path) (dstrel : path) (addidx : bool)              (* subclass API Save.. + RestoreNodeTreeFromMessage *)
| ARemoveEntryAt (rel : path) (pos : nat)                            (* DataNode::RemoveIndexEntryAt on an own node *)
| AInsertEntryAt (rel : path) (pos : nat) (k : name)                 (* DataNode::InsertIndexEntryAt on an own node *)
| CDetach                                                            (* the client closes its connection *)
| CAttach.                                                           (* a new session is attached (id = number of sessions so far) *)

Definition handle (cfg : config) (st : state) (s : nat) (c : cmd) : state :=
  match c with
  | CSetData items addidx =>
      fold_left (fun st (it : path * bool) =>
                   if snd it then (if addidx then set_data_gen st s (fst it) else st)
                   else set_data_node st s (fst it) addidx BEnd) items st
  | CInsertOrdered ppats items =>
      fold_left (fun st p => fold_left (fun st b => prim_insert_ordered st s p b None) items st)
                (expand_multi (st_tree st) [NS s] ppats) st
  | CReorder fields =>
      fold_left (fun st (f : pattern * bspec) =>
                   fold_left (fun st q => prim_reorder cfg st s (parent_of q) (last_name q) (snd f))
                             (expand (st_tree st) [NS s] (fst f)) st) fields st
  | CRemove pats =>
      fold_left prim_remove_node (rev (expand_multi (st_tree st) [NS s] pats)) st
  | CSubscribe pat => subscribe st s pat
  | CUnsubscribe pat => unsubscribe st s pat
  | CUnsubscribeAll => unsubscribe_by st s (fun _ => false)
  | CGetData pat => getdata st s pat
  | CSetRefl v => set_refl st s v
  | CNoop => st
  | ASetDataNode rel addidx b => set_data_node st s rel addidx b
  | AClone src dstrel addidx b => clone cfg (S (length (st_tree st))) st s src dstrel addidx b
  | ARestore src dstrel addidx =>
      if has_node (st_tree st) src then restore (S (length (st_tree st))) (st_tree st) st s src dstrel addidx else st
  | ARemoveEntryAt rel pos => prim_remove_entry_at st (NS s :: rel) pos
  | AInsertEntryAt rel pos k => prim_insert_entry_at st s (NS s :: rel) pos k
  | CDetach => remove_child_rec st [NS s]
  | CAttach => st
  end.

(* one command, then AfterMessageReceivedFromGateway -> PushSubscriptionMessages *)
(* AttachedToServer: the session node appears under the host node *)
Definition attach (st : state) : state :=
  mkSt (S (st_n st)) (add_node (st_tree st) [NS (st_n st)]) (st_subs st) (st_ipres st) (st_refl st)
       (st_pend st) (st_mirror st) (st_hist st) (st_out st).

Definition exec (cfg : config) (s : nat) (st : state) (c : cmd) : state :=
  match c with
  | CAttach => attach st
  | _ =>
    if (s <? st_n st) && has_node (st_tree st) [NS s] then     (* an attached session *)
      let st' := flush (handle cfg st s c) in
      match c with CDetach => drop_session st' s | _ => st' end
    else st
  end.

(* one step: session s's client sends one Message: a single command or a PR_COMMAND_BATCH (nested
   batches flatten: every leaf is followed by the push) *)
Definition step (cfg : config) (st : state) (sc : nat * list cmd) : state :=
  fold_left (exec cfg (fst sc)) (snd sc) (with_out st []).

Definition run (cfg : config) (n : nat) (steps : list (nat * list cmd)) : state :=
  fold_left (step cfg) steps (init_state n).
