(* Refl/BaseProofs.v -- the laws assumed of the external matching code, and basic facts about paths. *)
From Coq Require Import List NArith ZArith Bool Arith Lia.
From Muscle Require Import Refl.Base.
Import ListNotations.

(* What the theorems need of regex/StringMatcher (C15) -- premises, carried by every theorem that uses them. *)
Class MatchLaws (M : MatchOps) := {
  clause_eqb_spec : forall a b : clause, clause_eqb a b = true <-> a = b;
  cstar_matches : forall k : name, cmatch cstar k = true;
  ckeys_spec : forall (c : clause) (ks : list name), ckeys c = Some ks -> forall k : name, cmatch c k = true <-> In k ks
}.

Lemma name_eqb_eq : forall a b : name, name_eqb a b = true <-> a = b.
Proof. intros; apply N.eqb_eq. Qed.

Lemma name_eqb_refl : forall a : name, name_eqb a a = true.
Proof. intros; apply N.eqb_refl. Qed.

Lemma path_eqb_eq : forall p q : path, path_eqb p q = true <-> p = q.
Proof.
  induction p as [|a p IH]; destruct q as [|b q]; cbn; split; intros H; try congruence; auto.
  - apply andb_true_iff in H as [H1 H2]. apply name_eqb_eq in H1. apply IH in H2. congruence.
  - inversion H; subst. rewrite name_eqb_refl. cbn. now apply IH.
Qed.

Lemma path_eqb_refl : forall p : path, path_eqb p p = true.
Proof. intros; now apply path_eqb_eq. Qed.

Lemma path_eqb_neq : forall p q : path, path_eqb p q = false <-> p <> q.
Proof.
  intros p q; split; intros H.
  - intros E. apply path_eqb_eq in E. congruence.
  - destruct (path_eqb p q) eqn:E; auto. apply path_eqb_eq in E. contradiction.
Qed.

Lemma path_eqb_sym : forall p q : path, path_eqb p q = path_eqb q p.
Proof.
  intros p q. destruct (path_eqb p q) eqn:E.
  - apply path_eqb_eq in E; subst. now rewrite path_eqb_refl.
  - symmetry. apply path_eqb_neq. apply path_eqb_neq in E. congruence.
Qed.

Lemma strip_prefix_spec : forall p q r, strip_prefix p q = Some r <-> q = p ++ r.
Proof.
  induction p as [|a p IH]; intros q r; cbn.
  - split; intros H; congruence.
  - destruct q as [|b q].
    + split; intros H; discriminate.
    + destruct (name_eqb a b) eqn:E.
      * apply name_eqb_eq in E; subst. rewrite IH. split; intros H; congruence.
      * split; intros H; try discriminate. inversion H; subst. rewrite name_eqb_refl in E. discriminate.
Qed.

Lemma strip_prefix_app : forall p r, strip_prefix p (p ++ r) = Some r.
Proof. intros; now apply strip_prefix_spec. Qed.

Lemma is_prefix_spec : forall p q, is_prefix p q = true <-> exists r, q = p ++ r.
Proof.
  intros p q. unfold is_prefix. destruct (strip_prefix p q) eqn:E.
  - apply strip_prefix_spec in E. split; eauto.
  - split; [discriminate|]. intros [r H]. apply strip_prefix_spec in H. congruence.
Qed.

Lemma is_prefix_refl : forall p, is_prefix p p = true.
Proof. intros. apply is_prefix_spec. exists []. now rewrite app_nil_r. Qed.

Lemma child_name_spec : forall p q k, child_name p q = Some k <-> q = p ++ [k].
Proof.
  intros p q k. unfold child_name. destruct (strip_prefix p q) as [r|] eqn:E.
  - apply strip_prefix_spec in E. subst q.
    destruct r as [|a [|b r]]; split; intros H; try discriminate; try congruence.
    + apply app_inv_head in H. discriminate.
    + apply app_inv_head in H. congruence.
    + apply app_inv_head in H. discriminate.
  - split; [discriminate|]. intros H. apply strip_prefix_spec in H. congruence.
Qed.

Lemma is_child_spec : forall p q, is_child p q = true <-> exists k, q = p ++ [k].
Proof.
  intros p q. unfold is_child. destruct (child_name p q) eqn:E.
  - apply child_name_spec in E. split; eauto.
  - split; [discriminate|]. intros [k H]. apply child_name_spec in H. congruence.
Qed.

Lemma last_name_snoc : forall p k, last_name (p ++ [k]) = k.
Proof. intros. unfold last_name. apply last_last. Qed.

Lemma parent_path_snoc : forall p k, parent_path (p ++ [k]) = p.
Proof. intros. unfold parent_path. apply removelast_last. Qed.

Lemma path_snoc_cases : forall p : path, p = [] \/ exists q k, p = q ++ [k].
Proof.
  intros p. destruct p as [|a p]; auto. right.
  destruct (@exists_last _ (a :: p)) as [q [k H]]; [discriminate|]. eauto.
Qed.

Lemma NoDup_app_intro : forall (A : Type) (a b : list A),
  NoDup a -> NoDup b -> (forall x, In x a -> In x b -> False) -> NoDup (a ++ b).
Proof.
  induction a as [|x a IH]; intros b Ha Hb H; cbn; auto.
  inversion Ha as [|? ? Hx Ha']; subst. constructor.
  - rewrite in_app_iff. intros [H1|H1]; [contradiction|]. apply (H x); [now left|auto].
  - apply IH; auto. intros y Hy. apply H. now right.
Qed.

Lemma NoDup_flat_map : forall (A B : Type) (f : A -> list B) (l : list A),
  NoDup l -> (forall a, In a l -> NoDup (f a)) ->
  (forall a a' x, In a l -> In a' l -> a <> a' -> In x (f a) -> In x (f a') -> False) ->
  NoDup (flat_map f l).
Proof.
  induction l as [|a l IH]; intros Hl Hf Hd; cbn; [constructor|].
  inversion Hl as [|? ? Ha Hl']; subst.
  apply NoDup_app_intro.
  - apply Hf. now left.
  - apply IH; auto.
    + intros a' Ha'. apply Hf. now right.
    + intros a1 a2 x H1 H2. apply Hd; now right.
  - intros x Hx Hx'. apply in_flat_map in Hx' as [a' [Ha' Hx']].
    apply (Hd a a' x); auto; [now left|now right|]. intros E; subst. contradiction.
Qed.

Section PatFacts.
Context {M : MatchOps} {L : MatchLaws M}.

Lemma pat_eqb_eq : forall a b : pat, pat_eqb a b = true <-> a = b.
Proof.
  induction a as [|x a IH]; destruct b as [|y b]; cbn; split; intros H; try congruence; auto.
  - apply andb_true_iff in H as [H1 H2]. apply clause_eqb_spec in H1. apply IH in H2. congruence.
  - inversion H; subst. apply andb_true_iff. split; [now apply clause_eqb_spec | now apply IH].
Qed.

Lemma pat_eqb_refl : forall a : pat, pat_eqb a a = true.
Proof. intros; now apply pat_eqb_eq. Qed.

Lemma pat_eqb_neq : forall a b : pat, pat_eqb a b = false <-> a <> b.
Proof.
  intros a b; split; intros H.
  - intros E. apply pat_eqb_eq in E. congruence.
  - destruct (pat_eqb a b) eqn:E; auto. apply pat_eqb_eq in E. contradiction.
Qed.

Lemma pat_matches_length : forall (pt : pat) (p : path), pat_matches pt p = true -> length pt = length p.
Proof.
  induction pt as [|c pt IH]; intros p H; destruct p as [|k p]; cbn in *; try discriminate; auto.
  apply andb_true_iff in H as [_ H]. f_equal. now apply IH.
Qed.

Lemma pat_matches_app : forall (p1 p2 : pat) (q1 q2 : path),
  length p1 = length q1 ->
  pat_matches (p1 ++ p2) (q1 ++ q2) = pat_matches p1 q1 && pat_matches p2 q2.
Proof.
  induction p1 as [|c p1 IH]; intros p2 q1 q2 Hl; destruct q1 as [|k q1]; cbn in *; try discriminate; auto.
  rewrite IH by lia. now rewrite andb_assoc.
Qed.

Lemma pat_matches_nth : forall (pt : pat) (p : path) i,
  pat_matches pt p = true -> i < length pt -> cmatch (nth i pt cstar) (nth i p 0%N) = true.
Proof.
  induction pt as [|c pt IH]; intros p i H Hi; destruct p as [|k p]; cbn in *; try discriminate; try lia.
  apply andb_true_iff in H as [H1 H2]. destruct i; auto. apply IH; auto; lia.
Qed.

End PatFacts.
