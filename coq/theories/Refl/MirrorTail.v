(* Refl/MirrorTail.v -- what a session's own SETDATA / REMOVEDATA / max-items / unsubscribe do to ITS OWN virtual mirror:
   nothing (there is no reflect-to-self; an unsubscribe sends nothing), and the tree outside its own subtree stays as it is.
   Used for the tail of a BATCH after an unsubscribe of the observer: the client prunes once, at the end. *)
From Coq Require Import List NArith ZArith Bool Arith Lia.
From Muscle Require Import Gen.Consts Refl.Base Refl.BaseProofs Refl.Tree Refl.TreeProofs Refl.Matcher Refl.MatcherProofs
     Refl.Traverse Refl.TraverseFold Refl.TraverseSpec Refl.Session Refl.Server Refl.ServerProofs Refl.Mirror Refl.MirrorBase
     Refl.MirrorServer Refl.MirrorNotify Refl.MirrorSem Refl.MirrorSteps Refl.MirrorHandlers Refl.MirrorFrame Refl.MirrorQuiet.
Import ListNotations.

Section Tail.
Context {M : MatchOps} {L : MatchLaws M}.
Variable fx : fixes.
Variable mir : mirror.
Variable o : sid.

Notation V := (V mir).

(* ------------------------------------------------------------------ own SetDataNode *)

Lemma own_set_data_loop : forall cl sv pp d dc dow qf, pend_ok sv ->
  let sv' := set_data_loop sv o pp cl d dc dow qf in
  pend_ok sv' /\ (forall q, V sv' o q = V sv o q)
  /\ forall q, is_prefix pp q = false -> data_at (sv_tree sv') q = data_at (sv_tree sv) q.
Proof.
  induction cl as [|k rest IH]; intros sv pp d dc dow qf Hpo; cbn [set_data_loop]; [split; [auto|split; auto]|].
  assert (Hq : forall q, is_prefix pp q = false -> path_eqb (pp ++ [k]) q = false).
  { intros q Hq. apply path_eqb_neq. intros E. subst q.
    assert (is_prefix pp (pp ++ [k]) = true) by (apply is_prefix_spec; eauto). congruence. }
  assert (Hq' : forall q, is_prefix pp q = false -> is_prefix (pp ++ [k]) q = false).
  { intros q Hq0. destruct (is_prefix (pp ++ [k]) q) eqn:E; auto. apply is_prefix_trans_app in E. congruence. }
  (* telling the others: this session's own record and the tree stay *)
  assert (Hn : forall sv1 d1 old, pend_ok sv1 ->
            pend_ok (if qf then sv1 else notify_changed sv1 o (pp ++ [k]) d1 old false)
            /\ (forall q, V (if qf then sv1 else notify_changed sv1 o (pp ++ [k]) d1 old false) o q = V sv1 o q)
            /\ sv_tree (if qf then sv1 else notify_changed sv1 o (pp ++ [k]) d1 old false) = sv_tree sv1).
  { intros sv1 d1 old Hp1. destruct qf; [split; [auto|split; auto]|].
    split; [now apply pend_ok_notify_changed|split].
    - intros q. now apply V_notify_self_gen.
    - now destruct (notify_changed_core sv1 o (pp ++ [k]) d1 old false). }
  destruct (find_node (sv_tree sv) (pp ++ [k])) as [n|] eqn:Hf.
  - destruct rest as [|k2 rest2].
    + destruct dow; [split; [auto|split; auto]|].
      set (sv1 := set_tree sv (set_data (sv_tree sv) (pp ++ [k]) d)).
      destruct (Hn sv1 d (Some (n_data n))) as [H1 [H2 H3]]; [exact Hpo|].
      split; [exact H1|split].
      * intros q. rewrite H2. reflexivity.
      * intros q Hpq. rewrite H3. unfold sv1. cbn [sv_tree set_tree]. unfold data_at, set_data.
        rewrite find_node_map_node by reflexivity. destruct (find_node (sv_tree sv) q) as [x|] eqn:Hx; [|reflexivity].
        cbn [option_map]. destruct (path_eqb (n_path x) (pp ++ [k])) eqn:E; [|reflexivity].
        apply path_eqb_eq in E. apply find_node_some in Hx as [_ Hx]. rewrite Hx in E.
        specialize (Hq _ Hpq). rewrite E, path_eqb_refl in Hq. discriminate.
    + destruct (IH sv (pp ++ [k]) d dc dow qf Hpo) as [H1 [H2 H3]]. split; [exact H1|split; [exact H2|]].
      intros q Hpq. apply H3. now apply Hq'.
  - destruct dc; [split; [auto|split; auto]|].
    destruct (Nat.leb max_node_depth (length pp)); [split; [auto|split; auto]|].
    set (d0 := match rest with [] => d | _ => empty_payload end).
    set (sv1 := set_tree sv (add_node (sv_tree sv) (mkNode (pp ++ [k]) d0 (new_node_table sv (pp ++ [k]))))).
    destruct (Hn sv1 d0 None) as [H1 [H2 H3]]; [exact Hpo|].
    set (sv2 := if qf then sv1 else notify_changed sv1 o (pp ++ [k]) d0 None false) in *.
    assert (Hd2 : forall q, is_prefix pp q = false -> data_at (sv_tree sv2) q = data_at (sv_tree sv) q).
    { intros q Hpq. rewrite H3. unfold sv1. cbn [sv_tree set_tree]. unfold data_at. rewrite find_node_add.
      destruct (find_node (sv_tree sv) q); [reflexivity|]. cbn [n_path]. now rewrite (Hq _ Hpq). }
    assert (HV2 : forall q, V sv2 o q = V sv o q) by (intros q; rewrite H2; reflexivity).
    destruct rest as [|k2 rest2]; [split; [exact H1|split; assumption]|].
    destruct (IH sv2 (pp ++ [k]) d false dow qf H1) as [H4 [H5 H6]].
    split; [exact H4|split].
    + intros q. now rewrite H5.
    + intros q Hpq. rewrite H6 by (now apply Hq'). now apply Hd2.
Qed.

Lemma own_set_data_items : forall items sv flags D, pend_ok sv ->
  (forall ss, get_session sv o = Some ss -> session_dir ss = D) ->
  let sv' := fold_left (fun sv' it => match get_session sv' o with
                                      | Some ss' => match fst it with
                                                    | [] => sv'
                                                    | _ => set_data_node sv' ss' (fst it) (snd it) flags
                                                    end
                                      | None => sv'
                                      end) items sv in
  (forall q, V sv' o q = V sv o q) /\ forall q, is_prefix D q = false -> data_at (sv_tree sv') q = data_at (sv_tree sv) q.
Proof.
  induction items as [|it items IH]; intros sv flags D Hpo HD; cbn [fold_left]; [split; auto|].
  destruct (get_session sv o) as [ss|] eqn:Hss; [|apply IH; auto; intros ss Hs; congruence].
  destruct (fst it) as [|k rel]; [apply IH; auto; intros ss0 Hs0; apply HD; congruence|].
  pose proof (find_session_some _ _ _ Hss) as [_ Hid].
  unfold set_data_node. rewrite Hid.
  destruct (own_set_data_loop (k :: rel) sv (session_dir ss) (snd it)
              (flag_set flags c_SETDATANODE_FLAG_DONTCREATENODE) (flag_set flags c_SETDATANODE_FLAG_DONTOVERWRITEDATA)
              (flag_set flags c_SETDATANODE_FLAG_QUIET) Hpo) as [H1 [H2 H3]].
  set (sv1 := set_data_loop sv o (session_dir ss) (k :: rel) (snd it) _ _ _) in *.
  destruct (set_data_loop_frame (k :: rel) sv o (session_dir ss) (snd it)
              (flag_set flags c_SETDATANODE_FLAG_DONTCREATENODE) (flag_set flags c_SETDATANODE_FLAG_DONTOVERWRITEDATA)
              (flag_set flags c_SETDATANODE_FLAG_QUIET) Hpo) as [_ Hs1]. fold sv1 in Hs1.
  destruct (IH sv1 flags D H1) as [H4 H5].
  { intros ss1 Hs1'. destruct (get_session_sess sv sv1 o ss1 Hs1 Hs1') as [ss0 [Ha [_ Hb]]].
    rewrite <- Hb. apply HD. congruence. }
  split.
  - intros q. now rewrite H4.
  - intros q Hq. rewrite H5 by auto. apply H3. now rewrite (HD ss eq_refl).
Qed.

(* ------------------------------------------------------------------ own removal *)

Lemma own_remove_subtree : forall sv p notify, pend_ok sv ->
  let sv' := remove_subtree sv o p notify in
  (forall q, V sv' o q = V sv o q) /\ forall q, is_prefix p q = false -> data_at (sv_tree sv') q = data_at (sv_tree sv) q.
Proof.
  intros sv p notify. unfold remove_subtree.
  pose proof (removal_order_below (S (length (sv_tree sv))) (sv_tree sv) p) as Hb.
  revert Hb. generalize (removal_order (S (length (sv_tree sv))) (sv_tree sv) p). intros Lq.
  revert sv. induction Lq as [|x Lq IH]; intros sv Hb Hpo; cbn [fold_left]; [split; auto|].
  destruct (find_node (sv_tree sv) x) as [n|].
  - set (sv1 := if notify then notify_changed sv o x (n_data n) (Some (n_data n)) true else sv).
    assert (H1 : pend_ok sv1 /\ (forall q, V sv1 o q = V sv o q) /\ sv_tree sv1 = sv_tree sv).
    { unfold sv1. destruct notify; [|split; [auto|split; auto]].
      split; [now apply pend_ok_notify_changed|split].
      - intros q. now apply V_notify_self_gen.
      - now destruct (notify_changed_core sv o x (n_data n) (Some (n_data n)) true). }
    destruct H1 as [Hp1 [HV1 Ht1]].
    destruct (IH (set_tree sv1 (remove_node (sv_tree sv1) x))) as [H2 H3]; [intros y Hy; apply Hb; now right|exact Hp1|].
    split.
    + intros q. rewrite H2, V_set_tree. apply HV1.
    + intros q Hq. rewrite H3 by auto. cbn [sv_tree set_tree]. rewrite Ht1. unfold data_at. rewrite find_node_remove.
      destruct (path_eqb x q) eqn:E; [|reflexivity]. apply path_eqb_eq in E. subst x.
      rewrite (Hb q (or_introl eq_refl)) in Hq. discriminate.
  - apply IH; auto. intros y Hy. apply Hb. now right.
Qed.

Lemma own_do_remove_data : forall sv ss keys quiet, pend_ok sv -> s_id ss = o ->
  let sv' := do_remove_data fx sv ss keys quiet in
  (forall q, V sv' o q = V sv o q)
  /\ forall q, is_prefix (session_dir ss) q = false -> data_at (sv_tree sv') q = data_at (sv_tree sv) q.
Proof.
  intros sv ss keys quiet Hpo Hid. unfold do_remove_data. rewrite Hid.
  set (rs := do_traversal remove_cb (sv_tree sv) (m_of_list keys) (session_dir ss) true (fx_guard fx) []).
  assert (Hrs : forall p, In p rs -> is_prefix (session_dir ss) p = true).
  { intros p Hp. unfold rs in Hp.
    rewrite (do_traversal_go (list path) remove_cb
               (fun acc n => if Nat.ltb session_depth (depth n) then n_path n :: acc else acc)) in Hp.
    - apply fold_collect_in in Hp as [[]|[n [H1 H2]]]. apply vtrav_below_root in H1 as [r [_ Hr]].
      apply is_prefix_spec. exists r. congruence.
    - intros acc n. unfold remove_cb. destruct (Nat.ltb session_depth (depth n)); eexists; split; eauto; lia. }
  clearbody rs. revert sv Hpo. induction rs as [|p rs IH]; intros sv Hpo; cbn [fold_left]; [split; auto|].
  destruct (has_node (sv_tree sv) p).
  - destruct (own_remove_subtree sv p (negb quiet) Hpo) as [H1 H2].
    destruct (remove_subtree_frame sv o p (negb quiet) Hpo) as [Hp1 _].
    destruct (IH (fun x Hx => Hrs x (or_intror Hx)) (remove_subtree sv o p (negb quiet)) Hp1) as [H3 H4].
    split.
    + intros q. now rewrite H3.
    + intros q Hq. rewrite H4 by auto. apply H2.
      destruct (is_prefix p q) eqn:E; auto.
      rewrite (is_prefix_trans _ _ _ (Hrs p (or_introl eq_refl)) E) in Hq. discriminate.
  - apply IH; auto. intros x Hx. apply Hrs. now right.
Qed.

End Tail.
