(* Refl/RouteReach.v -- deliver_once for every state REACHABLE by client commands.
   The server part of a routing state evolves by the handlers of Refl/Server.v; build-C04's invariant (Refl/ServerProofs.v,
   run_inv) gives tree well-formedness and distinct session ids for every history from the empty server, the
   default-route tables are well formed by construction: so the only premises left are the clause laws (C04's class
   MatchLaws) and the two side conditions of run_inv (fewer than 2^31 subscriptions; a session arrives under a fresh
   (host, session id) pair). *)
From Coq Require Import List NArith ZArith Bool Arith Lia.
From Muscle Require Import Gen.Consts Refl.Base Refl.BaseProofs Refl.Tree Refl.TreeProofs Refl.Matcher Refl.Traverse Refl.Session
  Refl.Server Refl.ServerProofs Refl.BoundedInv Refl.Route Refl.TravBase Refl.TraverseProofs Refl.TraverseTheorems Refl.RouteProofs
  Refl.RouteRun.
Import ListNotations.

Lemma wf_tree_tree_wf : forall t : tree, wf_tree t -> tree_wf t.
Proof.
  intros t [ND [NE PC]]. split; [assumption|]. split; [assumption|].
  intros n p k Hn E. destruct p as [|a p]; [now left|]. right.
  destruct (PC n (a :: p) [k] Hn E) as [pn [H1 H2]]; [discriminate|]. now exists pn.
Qed.

Section Reach.
Context {M : MatchOps} {L : MatchLaws M}.
Variable fx : rfixes.

(* the server events inside a routing event *)
Definition srv_ev (ev : revent) : list event :=
  match ev with
  | RAttach s host nm => [EAttach s host nm]
  | RDetach s => [EDetach s]
  | RCmd s (RSrv c) => [ECmd s c]
  | RCmd _ _ => []
  end.

Lemma set_infos_srv : forall st l, rs_srv (set_infos st l) = rs_srv st.
Proof. reflexivity. Qed.

Lemma route_msg_srv : forall st s m, rs_srv (route_msg fx st s m) = rs_srv st.
Proof.
  intros st s m. unfold route_msg. destruct (in_cmd_range (u_what m)); [reflexivity|].
  destruct (get_session (rs_srv st) s); [|reflexivity]. destruct (get_info st s) as [ri|]; [|reflexivity].
  destruct (u_keys m); [|reflexivity].
  destruct (has_param (ri_params ri) PKeys); [reflexivity|]. destruct (ri_gw2nb ri); reflexivity.
Qed.

Lemma rs_srv_rstep : forall st ev, rs_srv (rstep fx st ev) = run (srv_fixes fx) (srv_ev ev) (rs_srv st).
Proof.
  intros st [s host nm | s | s c]; cbn [rstep srv_ev run fold_left].
  - destruct (get_session (rs_srv st) s) eqn:E; [|reflexivity]. cbn [step]. now rewrite E.
  - reflexivity.
  - destruct (get_session (rs_srv st) s) eqn:E.
    + destruct c; try reflexivity. apply route_msg_srv.
    + destruct c; try reflexivity. cbn [run fold_left step]. now rewrite E.
Qed.

Lemma run_app : forall f (a b : list event) (sv : server), run f (a ++ b) sv = run f b (run f a sv).
Proof. intros f a b sv. unfold run. apply fold_left_app. Qed.

Lemma rs_srv_rrun : forall evs st, rs_srv (rrun fx evs st) = run (srv_fixes fx) (flat_map srv_ev evs) (rs_srv st).
Proof.
  induction evs as [|ev evs IH]; intros st; [reflexivity|].
  cbn [rrun fold_left flat_map]. rewrite run_app, <- rs_srv_rstep. apply IH.
Qed.

(* the default-route tables are well formed by construction *)
Definition routes_wf (st : rstate) : Prop := forall ri, In ri (rs_info st) -> matcher_wf (ri_route ri).

Lemma set_params_route_wf : forall ri p, matcher_wf (ri_route ri) -> matcher_wf (ri_route (set_params fx ri p)).
Proof.
  intros ri p H. unfold set_params.
  destruct (sp_reflect p), (sp_gw2nb p), (sp_nb2gw p), (sp_keys p) as [|k ks], (sp_flts p) as [fs|], (rf_route fx);
    cbn [ri_route set_pnames set_flags set_rmsg update_route set_route]; try exact H; apply m_of_list_wf.
Qed.

Lemma remove_param_route : forall ri p, ri_route (remove_param ri p) = ri_route ri.
Proof. intros ri p. unfold remove_param. destruct (has_param (ri_params ri) p); [|reflexivity]. destruct p; reflexivity. Qed.

Lemma remove_params_route_wf : forall l ri, matcher_wf (ri_route ri) -> matcher_wf (ri_route (remove_params ri l)).
Proof.
  intros l ri H. unfold remove_params.
  assert (G : forall l acc, ri_route (fst (fold_left (fun acc p => (remove_param (fst acc) p, snd acc || touches_route (fst acc) p)) l acc)) = ri_route (fst acc)).
  { clear. induction l as [|p l IH]; intros acc; [reflexivity|]. cbn [fold_left]. rewrite IH. cbn [fst]. apply remove_param_route. }
  specialize (G l (ri, false)). cbn [fst] in G.
  destruct (fold_left (fun acc p => (remove_param (fst acc) p, snd acc || touches_route (fst acc) p)) l (ri, false)) as [ri1 upd].
  cbn [fst] in G. destruct upd; [apply m_of_list_wf | now rewrite G].
Qed.

Lemma put_inbox_route : forall s d ri, ri_route (put_inbox s d ri) = ri_route ri.
Proof. intros s d ri. unfold put_inbox. destruct (N.eqb s (ri_id ri) || ri_nb2gw ri); reflexivity. Qed.

Lemma deliver_to_routes : forall infos s r d,
  (forall ri, In ri infos -> matcher_wf (ri_route ri)) -> forall ri, In ri (deliver_to infos s r d) -> matcher_wf (ri_route ri).
Proof.
  intros infos s r d H ri Hin. unfold deliver_to in Hin. apply in_map_iff in Hin. destruct Hin as [x [E Hx]]. subst ri.
  destruct (N.eqb (ri_id x) r); [rewrite put_inbox_route|]; now apply H.
Qed.

Lemma rstep_routes_wf : forall st ev, routes_wf st -> routes_wf (rstep fx st ev).
Proof.
  intros st ev H. unfold routes_wf in *. destruct ev as [s host nm | s | s c]; cbn [rstep].
  - destruct (get_session (rs_srv st) s); [exact H|]. cbn [rs_info]. intros ri Hin. apply in_app_or in Hin.
    destruct Hin as [Hin|[Hin|[]]]; [now apply H | subst ri; apply empty_matcher_wf].
  - cbn [rs_info]. intros ri Hin. apply filter_In in Hin. now apply H.
  - destruct (get_session (rs_srv st) s); [|exact H]. destruct c as [p | l | m | c'].
    + unfold upd_info. cbn [rs_info]. intros ri Hin. apply in_map_iff in Hin. destruct Hin as [x [E Hx]]. subst ri.
      destruct (N.eqb (ri_id x) s); [apply set_params_route_wf|]; now apply H.
    + unfold upd_info. cbn [rs_info]. intros ri Hin. apply in_map_iff in Hin. destruct Hin as [x [E Hx]]. subst ri.
      destruct (N.eqb (ri_id x) s); [apply remove_params_route_wf|]; now apply H.
    + unfold route_msg. destruct (in_cmd_range (u_what m)); [exact H|].
      destruct (get_session (rs_srv st) s) as [ss|]; [|exact H]. destruct (get_info st s) as [ri0|]; [|exact H].
      assert (Via : forall sender self_ok d mt ri, In ri (pass_traversal fx st sender self_ok d mt) -> matcher_wf (ri_route ri)).
      { intros sender self_ok d mt. unfold pass_traversal, do_traversal.
        apply (TraverseExit.trav_invariant _ _ _ _ _ _ _ (fun acc : list rinfo * list sid => forall ri, In ri (fst acc) -> matcher_wf (ri_route ri))).
        - intros acc n HP. unfold pass_cb. destruct (owner_of (sv_sessions (rs_srv st)) (n_path n)) as [ss0|]; [|exact HP].
          destruct ((negb (N.eqb (s_id ss0) sender) || self_ok) && negb (rf_once fx && sid_mem (s_id ss0) (snd acc))); [|exact HP].
          cbn [fst]. now apply deliver_to_routes.
        - exact H. }
      destruct (u_keys m).
      * destruct (has_param (ri_params ri0) PKeys); [cbn [set_infos rs_info]; apply Via|].
        destruct (ri_gw2nb ri0); [|exact H]. cbn [set_infos rs_info]. unfold broadcast.
        assert (B : forall l infos, (forall ri, In ri infos -> matcher_wf (ri_route ri)) ->
                    forall ri, In ri (fold_left (fun inf ss0 => if ri_reflect ri0 || negb (N.eqb (s_id ss0) s)
                                                                then deliver_to inf s (s_id ss0) (mkD s (u_tag m) (overwrite (u_session m) (s_name ss))) else inf) l infos) ->
                               matcher_wf (ri_route ri)).
        { induction l as [|x l IH]; intros infos HI; [exact HI|]. cbn [fold_left]. apply IH.
          destruct (ri_reflect ri0 || negb (N.eqb (s_id x) s)); [now apply deliver_to_routes | exact HI]. }
        apply B. exact H.
      * cbn [set_infos rs_info]. apply Via.
    + exact H.
Qed.

Lemma rrun_routes_wf : forall evs st, routes_wf st -> routes_wf (rrun fx evs st).
Proof.
  induction evs as [|ev evs IH]; intros st H; [exact H|]. cbn [rrun fold_left]. apply IH. now apply rstep_routes_wf.
Qed.

(* every attached session has its routing record, in the same order *)
Definition aligned (st : rstate) : Prop := map ri_id (rs_info st) = ids (rs_srv st).

Lemma grown1_ids : forall d l l', Forall2 (grown1 d) l l' -> map ri_id l' = map ri_id l.
Proof. intros d l l' H. induction H as [|a b l l' [Hab _] H IH]; cbn; [reflexivity | now rewrite Hab, IH]. Qed.

Lemma map_filter_ri : forall (l : list rinfo) (s : sid),
  map ri_id (filter (fun ri => negb (N.eqb (ri_id ri) s)) l) = filter (fun k => negb (N.eqb k s)) (map ri_id l).
Proof.
  induction l as [|x l IH]; intros s; cbn [filter map]; [reflexivity|].
  destruct (N.eqb (ri_id x) s); cbn [negb map]; [apply IH | now rewrite IH].
Qed.

Lemma rstep_aligned : forall st ev, aligned st -> aligned (rstep fx st ev).
Proof.
  intros st ev H. unfold aligned in *. destruct ev as [s host nm | s | s c]; cbn [rstep].
  - destruct (get_session (rs_srv st) s) eqn:E; [exact H|]. cbn [rs_info rs_srv step]. rewrite E.
    rewrite map_app, H, ids_new_session. reflexivity.
  - cbn [rs_info rs_srv step]. rewrite map_filter_ri, H, ids_detach. reflexivity.
  - destruct (get_session (rs_srv st) s) as [ss|] eqn:E; [|exact H]. destruct c as [p | l | m | c'].
    + unfold upd_info. cbn [rs_info rs_srv]. rewrite map_map, <- H. apply map_ext. intros ri.
      destruct (N.eqb (ri_id ri) s); [apply set_params_keeps | reflexivity].
    + unfold upd_info. cbn [rs_info rs_srv]. rewrite map_map, <- H. apply map_ext. intros ri.
      destruct (N.eqb (ri_id ri) s); [apply remove_params_keeps | reflexivity].
    + rewrite route_msg_srv, <- H. unfold route_msg. destruct (in_cmd_range (u_what m)); [reflexivity|].
      rewrite E. destruct (get_info st s) as [ri0|]; [|reflexivity].
      destruct (u_keys m).
      * destruct (has_param (ri_params ri0) PKeys); [cbn [set_infos rs_info]; apply (grown1_ids _ _ _ (pass_traversal_grown fx st s _ _ _))|].
        destruct (ri_gw2nb ri0); [|reflexivity]. cbn [set_infos rs_info].
        apply (grown1_ids _ _ _ (broadcast_grown _ s _ _ _ _ (grown_refl_list _ _))).
      * cbn [set_infos rs_info]. apply (grown1_ids _ _ _ (pass_traversal_grown fx st s _ _ _)).
    + cbn [rs_info rs_srv step]. rewrite E. rewrite ids_push_all, ids_handle. exact H.
Qed.

Lemma rrun_aligned : forall evs st, aligned st -> aligned (rrun fx evs st).
Proof.
  induction evs as [|ev evs IH]; intros st H; [exact H|]. cbn [rrun fold_left]. apply IH. now apply rstep_aligned.
Qed.

Lemma find_info_in : forall (l : list rinfo) (s : sid), In s (map ri_id l) -> exists ri, find (fun ri => N.eqb (ri_id ri) s) l = Some ri.
Proof.
  induction l as [|x l IH]; intros s H; [destruct H|]. cbn [find].
  destruct (N.eqb (ri_id x) s) eqn:E; [now exists x|].
  destruct H as [H|H]; [apply N.eqb_neq in E; cbn in H; contradiction | now apply IH].
Qed.

(* an attached session has a routing record *)
Lemma aligned_get_info : forall st s ss, aligned st -> get_session (rs_srv st) s = Some ss -> exists ri, get_info st s = Some ri.
Proof.
  intros st s ss H Hs. unfold get_info. apply find_info_in. rewrite H. apply get_session_ids. now exists ss.
Qed.

End Reach.

Section ReachFixed.
Context {M : MatchOps} {L : MatchLaws M}.

Local Notation FX := r_all_fixed.

(* every state reached from the empty server satisfies the premises of deliver_once *)
Theorem reachable_premises_lemma : forall (evs : list revent),
  small (run_budget (flat_map srv_ev evs)) -> wf_run (srv_fixes FX) empty_server (flat_map srv_ev evs) ->
  tree_wf (sv_tree (rs_srv (rrun FX evs empty_rstate))) /\
  NoDup (map s_id (sv_sessions (rs_srv (rrun FX evs empty_rstate)))) /\
  routes_wf (rrun FX evs empty_rstate).
Proof.
  intros evs HB HW. rewrite rs_srv_rrun. cbn [rs_srv empty_rstate].
  assert (I := run_inv (srv_fixes FX) eq_refl (flat_map srv_ev evs) empty_server 0 HB empty_inv HW).
  split; [apply wf_tree_tree_wf; exact (inv_tree _ _ _ I)|]. split; [exact (inv_ids _ _ _ I)|].
  apply rrun_routes_wf. intros ri [].
Qed.

Lemma reachable_aligned : forall (fx : rfixes) (evs : list revent), aligned (rrun fx evs empty_rstate).
Proof. intros fx evs. apply rrun_aligned. reflexivity. Qed.

(* deliver_once in every reachable state *)
Theorem deliver_once_reachable_lemma : forall (evs : list revent) (s : sid) (ss : session) (ri : rinfo) (m : umsg),
  small (run_budget (flat_map srv_ev evs)) -> wf_run (srv_fixes FX) empty_server (flat_map srv_ev evs) ->
  let st := rrun FX evs empty_rstate in
  get_session (rs_srv st) s = Some ss -> get_info st s = Some ri -> in_cmd_range (u_what m) = false ->
  rstep FX st (RCmd s (RMsg m))
  = mkRS (rs_srv st)
         (map (fun x => if route_targets st s ri m (ri_id x)
                        then put_inbox s (mkD s (u_tag m) (overwrite (u_session m) (s_name ss))) x else x) (rs_info st)).
Proof.
  intros evs s ss ri m HB HW st Hs Hi Hw.
  destruct (reachable_premises_lemma evs HB HW) as [TWF [NDS RWF]]. fold st in TWF, NDS, RWF.
  cbn [rstep]. rewrite Hs.
  apply (deliver_once_lemma (fun _ => True)); try assumption.
  - intros c ks k _ Hk Hm. now apply (ckeys_spec c ks Hk k).
  - intros c ks k Hk Hin. now apply (ckeys_spec c ks Hk k).
  - intros n _. apply Forall_forall. intros; exact I.
  - apply RWF. unfold get_info in Hi. apply find_some in Hi. tauto.
Qed.

(* ... and the routing record of an attached session always exists *)
Theorem deliver_once_reachable_full_lemma : forall (evs : list revent) (s : sid) (ss : session) (m : umsg),
  small (run_budget (flat_map srv_ev evs)) -> wf_run (srv_fixes FX) empty_server (flat_map srv_ev evs) ->
  let st := rrun FX evs empty_rstate in
  get_session (rs_srv st) s = Some ss -> in_cmd_range (u_what m) = false ->
  exists ri, get_info st s = Some ri /\
    rstep FX st (RCmd s (RMsg m))
    = mkRS (rs_srv st)
           (map (fun x => if route_targets st s ri m (ri_id x)
                          then put_inbox s (mkD s (u_tag m) (overwrite (u_session m) (s_name ss))) x else x) (rs_info st)).
Proof.
  intros evs s ss m HB HW st Hs Hw.
  destruct (aligned_get_info st s ss (reachable_aligned FX evs) Hs) as [ri Hi].
  exists ri. split; [exact Hi|]. now apply deliver_once_reachable_lemma.
Qed.

End ReachFixed.

(* ------------------------------------------------------------------ non-vacuity: the small instance satisfies MatchLaws, the setup
   history of Refl/RouteWitness.v satisfies the side conditions *)

From Muscle Require Import Refl.TravWitness Refl.RouteWitness.

Lemma wclause_eqb_spec : forall a b : wclause, wclause_eqb a b = true <-> a = b.
Proof.
  intros [[w1 l1]|] [[w2 l2]|]; cbn; split; intros H; try discriminate; try reflexivity.
  - apply andb_true_iff in H. destruct H as [H1 H2]. apply Bool.eqb_prop in H1. apply TravBase.path_eqb_eq in H2. now subst.
  - inversion H; subst. apply andb_true_iff. split; [apply Bool.eqb_reflx | apply TravBase.path_eqb_refl].
Qed.

#[global] Instance WLaws : MatchLaws WOps.
Proof.
  constructor.
  - exact wclause_eqb_spec.
  - intros k. reflexivity.
  - intros c ks Hk k. split; [now apply wkeys_sound | now apply wkeys_complete].
Qed.

Example setup_side_conditions :
  small (run_budget (flat_map srv_ev setup)) /\ wf_run (srv_fixes r_all_fixed) empty_server (flat_map srv_ev setup).
Proof.
  split; [vm_compute; reflexivity|].
  cbn [flat_map srv_ev setup app wf_run wf_event]. repeat split; intros x Hx E; vm_compute in Hx;
    repeat (destruct Hx as [Hx|Hx]; [subst x; vm_compute in E; discriminate|]); destruct Hx.
Qed.
