(* Refl/IndexRunProofs.v -- C13: GETDATA / subscriptions, clone / restore, commands, steps and runs keep the
   invariants of Refl/IndexModelProofs.v; the statements of C13. *)
From Coq Require Import List Arith Bool Lia.
Import ListNotations.
From Muscle Require Import Refl.Index Refl.IndexProofs Refl.IndexModel Refl.IndexModelProofs.

(* ------------------------------------------------------------------ GETDATA, subscribe, unsubscribe *)

Definition gd_ops (ip rf : bool) (s : nat) (e : path * inode) : list iop :=
  if own s (fst e) && negb ip && negb rf then [] else snapshot (snd e).

Definition gd_events (ip rf : bool) (s : nat) (L : list (path * inode)) : list event :=
  flat_map (fun e => map (fun o => (s, fst e, o)) (gd_ops ip rf s e)) L.

Lemma getdata_node_as_fold : forall st s e,
  getdata_node st s e = fold_left deliver1 (map (fun o => (s, fst e, o)) (gd_ops (st_ipres st s) (st_refl st s) s e)) st.
Proof.
  intros st s [p n]. unfold getdata_node, gd_ops. simpl fst. simpl snd.
  destruct (own s p && negb (st_ipres st s) && negb (st_refl st s)); reflexivity.
Qed.

Lemma getdata_as_fold : forall L st s,
  fold_left (fun st e => getdata_node st s e) L st = fold_left deliver1 (gd_events (st_ipres st s) (st_refl st s) s L) st.
Proof.
  induction L as [|e L IH]; intros st s; [reflexivity|].
  cbn [fold_left]. unfold gd_events. cbn [flat_map]. rewrite fold_left_app.
  rewrite IH. rewrite getdata_node_as_fold.
  destruct (fold_deliver_fields (map (fun o => (s, fst e, o)) (gd_ops (st_ipres st s) (st_refl st s) s e)) st) as (_ & _ & _ & D & E & _).
  rewrite D, E. reflexivity.
Qed.

Lemma pend_for_gd_other : forall ip rf s L s' q, s' <> s -> pend_for (gd_events ip rf s L) s' q = [].
Proof.
  intros ip rf s L s' q Hne. induction L as [|e L IH]; [reflexivity|].
  unfold gd_events in *. cbn [flat_map]. rewrite pend_for_app, IH, pend_for_map.
  replace (Nat.eqb s s') with false by (symmetry; apply Nat.eqb_neq; congruence). reflexivity.
Qed.

Lemma pend_for_gd : forall ip rf s L q,
  pend_for (gd_events ip rf s L) s q = flat_map (fun e => if path_eqb (fst e) q then gd_ops ip rf s e else []) L.
Proof.
  intros ip rf s L q. induction L as [|e L IH]; [reflexivity|].
  unfold gd_events in *. cbn [flat_map]. rewrite pend_for_app, IH, pend_for_map, Nat.eqb_refl. reflexivity.
Qed.

Lemma flat_map_key_absent : forall (F : path * inode -> list iop) L q, ~ In q (map fst L) ->
  flat_map (fun e => if path_eqb (fst e) q then F e else []) L = [].
Proof.
  intros F L q H. induction L as [|e L IH]; [reflexivity|]. simpl.
  destruct (path_eqb (fst e) q) eqn:E.
  - exfalso. apply H. left. apply path_eqb_eq. exact E.
  - simpl. apply IH. intro Hin. apply H. right. exact Hin.
Qed.

Lemma flat_map_key_unique : forall (F : path * inode -> list iop) L q n, NoDup (map fst L) -> In (q, n) L ->
  flat_map (fun e => if path_eqb (fst e) q then F e else []) L = F (q, n).
Proof.
  intros F L q n Hn Hin. induction L as [|e L IH]; [inversion Hin|]. simpl in Hn. inversion Hn as [|? ? Hh Ht]; subst. simpl.
  destruct Hin as [->|Hin].
  - simpl. rewrite path_eqb_refl. rewrite flat_map_key_absent by exact Hh. apply app_nil_r.
  - destruct (path_eqb (fst e) q) eqn:E.
    + exfalso. apply path_eqb_eq in E. apply Hh. rewrite E. apply in_map_iff. exists (q, n). split; [reflexivity | exact Hin].
    + simpl. apply IH; assumption.
Qed.

Lemma NoDup_keys_filter : forall (f : path * inode -> bool) t, NoDup (map fst t) -> NoDup (map fst (filter f t)).
Proof.
  intros f t H. induction t as [|e t IH]; [constructor|]. simpl in H. inversion H as [|? ? Hh Ht]; subst. simpl.
  destruct (f e); [|apply IH; exact Ht]. simpl. constructor; [|apply IH; exact Ht].
  intro Hin. apply Hh. apply in_map_iff in Hin. destruct Hin as [e' [E Hin]]. apply filter_In in Hin.
  apply in_map_iff. exists e'. split; [exact E | apply Hin].
Qed.

(* replaying the snapshots of a GETDATA onto a replica that already equals the index changes nothing *)
Lemma replay_gd_same : forall ip rf s t L q, (forall e, In e L -> lookup t (fst e) = Some (snd e)) ->
  replay (flat_map (fun e => if path_eqb (fst e) q then gd_ops ip rf s e else []) L) (index_at t q) = index_at t q.
Proof.
  intros ip rf s t L q H. induction L as [|e L IH]; [reflexivity|]. simpl. rewrite replay_app.
  assert (Hhd : replay (if path_eqb (fst e) q then gd_ops ip rf s e else []) (index_at t q) = index_at t q).
  { destruct (path_eqb (fst e) q) eqn:E; [|reflexivity]. apply path_eqb_eq in E.
    unfold gd_ops. destruct (own s (fst e) && negb ip && negb rf); [reflexivity|].
    assert (Hl : lookup t q = Some (snd e)) by (rewrite <- E; apply H; left; reflexivity).
    rewrite (index_at_lookup _ _ _ Hl). apply replay_snapshot_same. }
  rewrite Hhd. apply IH. intros e' He'. apply H. right. exact He'.
Qed.

Lemma gd_fits : forall ip rf s L q l,
  ops_fit (flat_map (fun e => if path_eqb (fst e) q then gd_ops ip rf s e else []) L) l = true.
Proof.
  intros ip rf s L q. induction L as [|e L IH]; intro l; [reflexivity|]. simpl. rewrite ops_fit_app, IH, andb_true_r.
  destruct (path_eqb (fst e) q); [|reflexivity]. unfold gd_ops.
  destruct (own s (fst e) && negb ip && negb rf); [reflexivity | apply snapshot_fits].
Qed.

Lemma getdata_fields : forall st s pat,
  st_n (getdata st s pat) = st_n st /\ st_tree (getdata st s pat) = st_tree st /\ st_subs (getdata st s pat) = st_subs st /\
  st_ipres (getdata st s pat) = st_ipres st /\ st_refl (getdata st s pat) = st_refl st /\ st_pend (getdata st s pat) = st_pend st.
Proof. intros st s pat. unfold getdata. rewrite getdata_as_fold. apply fold_deliver_fields. Qed.

Lemma getdata_Inv_gen : forall st s pat,
  twf (st_tree st) -> I6 st -> st_pend st = [] ->
  (forall s' p, subscribed st s' p = false -> st_mirror st s' p = []) ->
  (forall s' p, replay (st_hist st s' p) [] = st_mirror st s' p) ->
  (forall s' p, ops_fit (st_hist st s' p) [] = true) ->
  (forall s' p, subscribed st s' p = false -> st_hist st s' p = []) ->
  (forall s', st_n st <= s' -> st_subs st s' = []) ->
  (forall s' p, subscribed st s' p = true ->
     st_mirror st s' p = index_at (st_tree st) p \/ (s' = s /\ pmatch pat p = true /\ st_mirror st s' p = [])) ->
  Inv (getdata st s pat).
Proof.
  intros st s pat W H6 Hp Hun Hh Hhf Hhu Hn Hsub.
  destruct (getdata_fields st s pat) as (A & B & C & D & E & F).
  set (L := filter (fun e : path * inode => pmatch pat (fst e)) (st_tree st)).
  assert (HL : forall e, In e L -> lookup (st_tree st) (fst e) = Some (snd e)).
  { intros [p n] He. apply filter_In in He. apply In_lookup; [apply W | apply He]. }
  assert (Hm : forall s' p, st_mirror (getdata st s pat) s' p =
            if subscribed st s' p then replay (pend_for (gd_events (st_ipres st s) (st_refl st s) s L) s' p) (st_mirror st s' p) else st_mirror st s' p).
  { intros s' p. unfold getdata. rewrite getdata_as_fold. apply fold_deliver_mirror. }
  assert (Hhi : forall s' p, st_hist (getdata st s pat) s' p =
            if subscribed st s' p then st_hist st s' p ++ pend_for (gd_events (st_ipres st s) (st_refl st s) s L) s' p else st_hist st s' p).
  { intros s' p. unfold getdata. rewrite getdata_as_fold. apply fold_deliver_hist. }
  split; [|split].
  - constructor.
    + rewrite B. exact W.
    + intros s' p Hs. rewrite (subscribed_subs st _ s' p C) in Hs. rewrite F, Hp, B. simpl. rewrite Hm, Hs.
      destruct (Nat.eq_dec s' s) as [->|Hne].
      * rewrite pend_for_gd. destruct (Hsub s p Hs) as [Ha|(_ & Hpm & Hb)].
        -- rewrite Ha. apply replay_gd_same. exact HL.
        -- rewrite Hb. destruct (lookup (st_tree st) p) as [n|] eqn:El.
           ++ assert (Hin : In (p, n) L) by (apply filter_In; split; [apply lookup_In; exact El | exact Hpm]).
              rewrite (flat_map_key_unique _ L p n); [|apply NoDup_keys_filter; apply W | exact Hin].
              unfold gd_ops. simpl fst. simpl snd. rewrite (index_at_lookup _ _ _ El).
              destruct (own s p && negb (st_ipres st s) && negb (st_refl st s)) eqn:Esk.
              ** apply andb_true_iff in Esk. destruct Esk as [Esk _]. apply andb_true_iff in Esk. destruct Esk as [Eo Ei].
                 destruct (H6 s) as [Hi|Hi]; [rewrite Hi in Ei; discriminate|].
                 rewrite <- (index_at_lookup _ _ _ El). rewrite (Hi p Eo). reflexivity.
              ** apply replay_snapshot_empty.
           ++ rewrite flat_map_key_absent.
              ** unfold index_at. rewrite El. reflexivity.
              ** intro Hin. apply in_map_iff in Hin. destruct Hin as [[p' n'] [Ep Hin]]. simpl in Ep. subst p'.
                 pose proof (HL _ Hin) as Hl. simpl in Hl. congruence.
      * rewrite pend_for_gd_other by exact Hne. simpl.
        destruct (Hsub s' p Hs) as [Ha|(Hc & _)]; [exact Ha | contradiction].
    + intros s' p Hs. rewrite (subscribed_subs st _ s' p C) in Hs. rewrite F, Hp. split; [|reflexivity].
      rewrite Hm, Hs. apply Hun. exact Hs.
    + intros s' p. rewrite Hm, Hhi. destruct (subscribed st s' p); [|apply Hh].
      rewrite replay_app, Hh. reflexivity.
    + intros s' Hs'. rewrite A in Hs'. rewrite C. apply Hn. exact Hs'.
    + intros s' p _. rewrite F, Hp. reflexivity.
    + intros s' p. rewrite Hhi. destruct (subscribed st s' p); [|apply Hhf].
      rewrite ops_fit_app, Hhf. simpl.
      destruct (Nat.eq_dec s' s) as [->|Hne]; [rewrite pend_for_gd; apply gd_fits | rewrite pend_for_gd_other by exact Hne; reflexivity].
    + intros s' p Hs. rewrite (subscribed_subs st _ s' p C) in Hs. rewrite Hhi, Hs. apply Hhu. exact Hs.
  - intro s'. apply (J_ext st); [exact D | exact B | apply H6].
  - rewrite F. exact Hp.
Qed.

Lemma getdata_Inv : forall st s pat, Inv st -> Inv (getdata st s pat).
Proof.
  intros st s pat (M & H6 & Hp). apply getdata_Inv_gen; try assumption.
  - apply (mA_twf st M).
  - intros s' p Hs. apply (mA_unsub st M s' p Hs).
  - apply (mA_hist st M).
  - apply (mA_hfit st M).
  - apply (mA_hunsub st M).
  - apply (mA_n st M).
  - intros s' p Hs. left. pose proof (mA_sub st M s' p Hs) as H. rewrite Hp in H. exact H.
Qed.

Lemma clause_eqb_eq : forall a b, clause_eqb a b = true -> a = b.
Proof.
  intros [|x] [|y] H; simpl in H; try discriminate; [reflexivity|]. apply name_eqb_eq in H. subst. reflexivity.
Qed.

Lemma pattern_eqb_eq : forall a b, pattern_eqb a b = true -> a = b.
Proof.
  induction a as [|x a IH]; intros [|y b] H; simpl in H; try discriminate; [reflexivity|].
  apply andb_true_iff in H. destruct H as [H1 H2]. apply clause_eqb_eq in H1. apply IH in H2. subst. reflexivity.
Qed.

Lemma subscribed_in_add : forall l pat p, subscribed_in (add_sub l pat) p = subscribed_in l p || pmatch pat p.
Proof.
  intros l pat p. unfold add_sub. destruct (existsb (pattern_eqb pat) l) eqn:E.
  - apply existsb_exists in E. destruct E as [x [Hx Ex]]. apply pattern_eqb_eq in Ex. subst x.
    destruct (pmatch pat p) eqn:Em; [|rewrite orb_false_r; reflexivity].
    rewrite orb_true_r. unfold subscribed_in. apply existsb_exists. exists pat. split; assumption.
  - unfold subscribed_in. rewrite existsb_app. simpl. rewrite orb_false_r. reflexivity.
Qed.

Lemma subscribe_Inv : forall st s pat, Inv st -> s < st_n st -> Inv (subscribe st s pat).
Proof.
  intros st s pat (M & H6 & Hp) Hlt. unfold subscribe.
  set (st0 := set_subs st s (add_sub (st_subs st s) pat)).
  assert (Hsub0 : forall s' p, subscribed st0 s' p = if Nat.eqb s' s then subscribed st s p || pmatch pat p else subscribed st s' p).
  { intros s' p. unfold subscribed, st0. simpl. destruct (Nat.eqb s' s) eqn:E; [|reflexivity].
    apply Nat.eqb_eq in E. subst s'. apply subscribed_in_add. }
  apply getdata_Inv_gen.
  - apply (mA_twf st M).
  - exact H6.
  - exact Hp.
  - intros s' p Hs. rewrite Hsub0 in Hs. simpl. apply (mA_unsub st M s' p).
    destruct (Nat.eqb s' s) eqn:E; [|exact Hs]. apply Nat.eqb_eq in E. subst s'.
    apply orb_false_iff in Hs. apply Hs.
  - apply (mA_hist st M).
  - apply (mA_hfit st M).
  - intros s' p Hs. rewrite Hsub0 in Hs. simpl. apply (mA_hunsub st M s' p).
    destruct (Nat.eqb s' s) eqn:E; [|exact Hs]. apply Nat.eqb_eq in E. subst s'.
    apply orb_false_iff in Hs. apply Hs.
  - intros s' Hs'. simpl in *. destruct (Nat.eqb s' s) eqn:E; [apply Nat.eqb_eq in E; lia | apply (mA_n st M s' Hs')].
  - intros s' p Hs. rewrite Hsub0 in Hs. simpl.
    destruct (subscribed st s' p) eqn:Eo.
    + left. pose proof (mA_sub st M s' p Eo) as H. rewrite Hp in H. exact H.
    + right. destruct (Nat.eqb s' s) eqn:E; [|congruence]. apply Nat.eqb_eq in E. subst s'.
      rewrite Eo in Hs. simpl in Hs. split; [reflexivity|]. split; [exact Hs|]. apply (mA_unsub st M s p Eo).
Qed.

Lemma unsubscribe_by_Inv : forall st s keep_sub, Inv st -> Inv (unsubscribe_by st s keep_sub).
Proof.
  intros st s keep_sub (M & H6 & Hp). unfold unsubscribe_by.
  set (l := filter keep_sub (st_subs st s)).
  assert (Hl : forall p, subscribed_in l p = true -> subscribed st s p = true).
  { intros p H. unfold subscribed_in in H. apply existsb_exists in H. destruct H as [x [Hx Hm]].
    apply filter_In in Hx. unfold subscribed, subscribed_in. apply existsb_exists. exists x. split; [apply Hx | exact Hm]. }
  split; [|split; [exact H6 | exact Hp]].
  constructor; simpl.
  - apply (mA_twf st M).
  - intros s' p Hs. unfold subscribed in Hs. simpl in Hs. rewrite Hp. simpl.
    destruct (Nat.eqb s' s) eqn:E.
    + apply Nat.eqb_eq in E. subst s'. fold (subscribed_in l p) in Hs. simpl. rewrite Hs.
      pose proof (mA_sub st M s p (Hl p Hs)) as H. rewrite Hp in H. exact H.
    + simpl. pose proof (mA_sub st M s' p Hs) as H. rewrite Hp in H. exact H.
  - intros s' p Hs. unfold subscribed in Hs. simpl in Hs. rewrite Hp. split; [|reflexivity].
    destruct (Nat.eqb s' s) eqn:E.
    + apply Nat.eqb_eq in E. subst s'. fold (subscribed_in l p) in Hs. simpl. rewrite Hs. reflexivity.
    + simpl. apply (mA_unsub st M s' p Hs).
  - intros s' p. destruct (negb (Nat.eqb s' s) || subscribed_in l p); [apply (mA_hist st M) | reflexivity].
  - intros s' Hs'. destruct (Nat.eqb s' s) eqn:E; [|apply (mA_n st M s' Hs')].
    apply Nat.eqb_eq in E. subst s'. unfold l. rewrite (mA_n st M s Hs'). reflexivity.
  - intros s' p _. rewrite Hp. reflexivity.
  - intros s' p. destruct (negb (Nat.eqb s' s) || subscribed_in l p); [apply (mA_hfit st M) | reflexivity].
  - intros s' p Hs. unfold subscribed in Hs. simpl in Hs.
    destruct (Nat.eqb s' s) eqn:E.
    + apply Nat.eqb_eq in E. subst s'. fold (subscribed_in l p) in Hs. simpl. rewrite Hs. reflexivity.
    + simpl. apply (mA_hunsub st M s' p Hs).
Qed.

(* ------------------------------------------------------------------ CloneDataNodeSubtree (repaired) *)

Lemma prim_remove_entry_index : forall st p k, has_node (st_tree st) p = true ->
  index_at (st_tree (prim_remove_entry st p k)) p = fst (remove_entry k (index_at (st_tree st) p)).
Proof.
  intros st p k Eh. unfold prim_remove_entry. rewrite Eh.
  destruct (has_node_lookup _ _ Eh) as [n Hl]. rewrite (node_at_lookup _ _ _ Hl), (index_at_lookup _ _ _ Hl).
  unfold remove_index_entry, index_of. destruct (idx n) as [l|] eqn:El.
  - destruct (remove_entry k l) as [l' ops] eqn:Er. simpl. rewrite (index_at_set_node _ _ n) by exact Hl.
    rewrite path_eqb_refl. reflexivity.
  - simpl. rewrite (index_at_set_node _ _ n) by exact Hl. rewrite path_eqb_refl. unfold index_of. rewrite El. reflexivity.
Qed.

Lemma copy_index_spec : forall cfg s dst l st w, fix_clone cfg = true -> own s dst = true ->
  MidA st -> I6x s st -> has_node (st_tree st) dst = true ->
  NoDup l -> w <= length (index_at (st_tree st) dst) ->
  (forall x, In x (firstn w (index_at (st_tree st) dst)) -> ~ In x l) ->
  MidA (copy_index cfg st dst l w) /\ I6x s (copy_index cfg st dst l w).
Proof.
  intros cfg s dst l. induction l as [|nm rest IH]; intros st w Hfix Ho M Hx Hd Hnd Hw Hpre; [split; assumption|].
  cbn [copy_index]. rewrite Hfix. inversion Hnd as [|? ? Hnm Hrest]; subst.
  destruct (mem nm (kids_of (st_tree st) dst)) eqn:Em.
  2:{ apply IH; try assumption. intros x Hin Hr. apply (Hpre x Hin). right. exact Hr. }
  destruct (prim_remove_entry_spec st dst nm M) as (M0 & I0 & K0 & S0).
  pose proof (prim_remove_entry_index st dst nm Hd) as Hidx0.
  set (st0 := prim_remove_entry st dst nm) in *.
  assert (Hd0 : has_node (st_tree st0) dst = true) by (rewrite (has_node_keys _ _ dst K0); exact Hd).
  destruct (has_node_lookup _ _ Hd0) as [n0 Hl0]. rewrite (node_at_lookup _ _ _ Hl0).
  (* the placed prefix survives the removal *)
  destruct (remove_entry nm (index_at (st_tree st) dst)) as [l0 ops0] eqn:Er. simpl in Hidx0.
  assert (Hnpre : ~ In nm (firstn w (index_at (st_tree st) dst))) by (intro Hin; apply (Hpre nm Hin); left; reflexivity).
  destruct (remove_entry_prefix _ _ _ _ w Er Hw Hnpre) as [Hw0 Hf0].
  rewrite (index_at_lookup _ _ _ Hl0) in Hidx0.
  assert (Em0 : mem nm (kids_of (st_tree st0) dst) = true) by (rewrite (kids_of_keys _ _ dst K0); exact Em).
  destruct (insert_index_entry_at (kids_of (st_tree st0) dst) n0 w nm) as [n' ops] eqn:Ei.
  assert (Hn' : index_of n' = insert_at (index_of n0) w nm).
  { unfold insert_index_entry_at in Ei. rewrite Em0 in Ei. injection Ei as <- _. reflexivity. }
  assert (Hnot : ~ In nm (index_of n0)).
  { intro Hin. rewrite <- (index_at_lookup _ _ _ Hl0) in Hin. destruct (S0 dst nm Hin) as [_ Hne]. apply (Hne eq_refl). reflexivity. }
  destruct (insert_index_entry_at_spec _ _ _ _ _ _ (proj2 (mA_twf st0 M0) dst n0 Hl0) Hnot Ei) as (W & R & _).
  assert (Fit : ops_fit ops (index_of n0) = true).
  { eapply insert_index_entry_at_fits; [|exact Ei]. rewrite Hidx0. exact Hw0. }
  assert (Hx0 : I6x s st0).
  { apply (I6x_shrink s st); [exact Hx | exact I0 | intros q x Hq; apply (S0 q x Hq)]. }
  assert (Hidx1 : index_at (st_tree (put_idx st0 dst n' ops)) dst = insert_at l0 w nm).
  { simpl. rewrite (index_at_set_node _ _ n0) by exact Hl0. rewrite path_eqb_refl, Hn', Hidx0. reflexivity. }
  apply IH; try assumption.
  - eapply put_idx_MidA; eassumption.
  - intros s' Hne. apply (J_other st0 _ s s' dst); [reflexivity | exact Ho | exact Hne | | apply Hx0; exact Hne].
    intros q Hq. simpl. rewrite (index_at_set_node _ _ n0) by exact Hl0.
    replace (path_eqb dst q) with false; [reflexivity|]. symmetry. apply path_eqb_neq. congruence.
  - simpl. rewrite has_node_set_node. exact Hd0.
  - rewrite Hidx1, insert_at_length. lia.
  - rewrite Hidx1. intros x Hin. rewrite firstn_insert_at in Hin by exact Hw0. rewrite Hf0 in Hin.
    apply in_app_or in Hin. destruct Hin as [Hin|[<-|[]]].
    + intro Hr. apply (Hpre x Hin). right. exact Hr.
    + exact Hnm.
Qed.

Lemma clone_Mid : forall cfg fuel st s src dstrel addidx b, fix_clone cfg = true -> Mid st ->
  Mid (clone cfg fuel st s src dstrel addidx b).
Proof.
  intros cfg fuel. induction fuel as [|f IH]; intros st s src dstrel addidx b Hfix HM; [exact HM|].
  cbn [clone]. destruct (has_node (st_tree st) src); [|exact HM].
  set (st1 := set_data_node st s dstrel addidx b).
  assert (HM1 : Mid st1) by (apply set_data_node_Mid; exact HM).
  assert (Hfold : forall ks st', Mid st' ->
            Mid (fold_left (fun st k => clone cfg f st s (src ++ [k]) (dstrel ++ [k]) false BEnd) ks st')).
  { induction ks as [|k ks IHk]; intros st' HM'; [exact HM'|]. simpl. apply IHk. apply IH; assumption. }
  specialize (Hfold (kids_of (st_tree st1) src) st1 HM1).
  set (st2 := fold_left (fun st k => clone cfg f st s (src ++ [k]) (dstrel ++ [k]) false BEnd) (kids_of (st_tree st1) src) st1) in *.
  destruct (idx (node_at st2 src)) as [l|] eqn:El; [|exact Hfold].
  destruct (has_node (st_tree st2) (NS s :: dstrel)) eqn:Ed; [|exact Hfold].
  rewrite Hfix. destruct Hfold as [M2 H62].
  assert (Ho : own s (NS s :: dstrel) = true) by (simpl; apply Nat.eqb_refl).
  assert (Hnd : NoDup l).
  { unfold node_at in El. destruct (lookup (st_tree st2) src) as [m|] eqn:Els; [|discriminate].
    pose proof (proj1 (proj2 (mA_twf st2 M2) src m Els)) as Hn. unfold index_of in Hn. rewrite El in Hn. exact Hn. }
  destruct (copy_index_spec cfg s (NS s :: dstrel) l st2 0 Hfix Ho M2 (I6_I6x _ _ H62) Ed Hnd (Nat.le_0_l _)) as [M3 X3].
  { intros x Hin. inversion Hin. }
  split; [apply MidA_set_ipres; exact M3 | apply I6_set_ipres; exact X3].
Qed.

Lemma restore_Mid : forall fuel t0 st s src dstrel addidx, Mid st -> Mid (restore fuel t0 st s src dstrel addidx).
Proof.
  intros fuel t0. induction fuel as [|f IH]; intros st s src dstrel addidx HM; [exact HM|].
  cbn [restore].
  assert (Hfold : forall (g : name -> bool) (flag : bool) ks st', Mid st' ->
            Mid (fold_left (fun st k => if g k then restore f t0 st s (src ++ [k]) (dstrel ++ [k]) flag else st) ks st')).
  { intros g flag ks. induction ks as [|k ks IHk]; intros st' HM'; [exact HM'|]. simpl. apply IHk.
    destruct (g k); [apply IH; exact HM' | exact HM']. }
  assert (Hfold2 : forall (g : name -> bool) (flag : bool) ks st', Mid st' ->
            Mid (fold_left (fun st k => if g k then st else restore f t0 st s (src ++ [k]) (dstrel ++ [k]) flag) ks st')).
  { intros g flag ks. induction ks as [|k ks IHk]; intros st' HM'; [exact HM'|]. simpl. apply IHk.
    destruct (g k); [exact HM' | apply IH; exact HM']. }
  apply Hfold2. apply (Hfold (fun k => mem k (kids_of t0 src))). apply set_data_node_Mid. exact HM.
Qed.

Lemma drop_session_Inv : forall st s, Inv st -> Inv (drop_session st s).
Proof.
  intros st s (M & H6 & Hp). split; [|split; [exact H6 | exact Hp]].
  assert (Hsub : forall s' p, subscribed (drop_session st s) s' p = if Nat.eqb s' s then false else subscribed st s' p).
  { intros s' p. unfold subscribed. simpl. destruct (Nat.eqb s' s); reflexivity. }
  constructor; simpl.
  - apply (mA_twf st M).
  - intros s' p Hs. rewrite Hsub in Hs. destruct (Nat.eqb s' s); [discriminate|]. apply (mA_sub st M s' p Hs).
  - intros s' p Hs. rewrite Hsub in Hs. rewrite Hp. destruct (Nat.eqb s' s); [split; reflexivity|].
    destruct (mA_unsub st M s' p Hs) as [H1 _]. split; [exact H1 | reflexivity].
  - intros s' p. destruct (Nat.eqb s' s); [reflexivity | apply (mA_hist st M)].
  - intros s' Hs'. destruct (Nat.eqb s' s); [reflexivity | apply (mA_n st M s' Hs')].
  - intros s' p _. rewrite Hp. reflexivity.
  - intros s' p. destruct (Nat.eqb s' s); [reflexivity | apply (mA_hfit st M)].
  - intros s' p Hs. rewrite Hsub in Hs. destruct (Nat.eqb s' s); [reflexivity | apply (mA_hunsub st M s' p Hs)].
Qed.

(* ------------------------------------------------------------------ commands, steps, runs *)

Definition cfg_ok (cfg : config) : Prop := fix_reorder_ipres cfg = true /\ fix_clone cfg = true.

Lemma Inv_Mid : forall st, Inv st -> Mid st.
Proof. intros st (M & H & _). split; assumption. Qed.

Lemma fold_Mid : forall (A : Type) (f : state -> A -> state) l st,
  (forall st a, Mid st -> Mid (f st a)) -> Mid st -> Mid (fold_left f l st).
Proof. intros A f l. induction l as [|a l IH]; intros st Hf HM; [exact HM|]. simpl. apply IH; [exact Hf | apply Hf; exact HM]. Qed.

Lemma make_path_Mid : forall rel st cur, Mid st -> Mid (make_path st cur rel).
Proof.
  induction rel as [|c r IH]; intros st cur HM; [exact HM|]. simpl. apply IH. apply add_node_Mid. exact HM.
Qed.

Lemma set_data_gen_Mid : forall st s rel, Mid st -> Mid (set_data_gen st s rel).
Proof.
  intros st s rel HM. unfold set_data_gen. destruct (has_node (st_tree st) [NS s]); [|exact HM].
  apply prim_insert_ordered_Mid. apply make_path_Mid. exact HM.
Qed.

Lemma handle_Mid : forall cfg st s c, cfg_ok cfg -> Inv st -> s < st_n st -> Mid (handle cfg st s c).
Proof.
  intros cfg st s c [Hf1 Hf2] HI Hlt. pose proof (Inv_Mid st HI) as HM.
  destruct c; cbn [handle].
  - apply fold_Mid; [|exact HM]. intros st' [rel gen] HM'. simpl.
    destruct gen; [destruct addidx; [apply set_data_gen_Mid|]; exact HM' | apply set_data_node_Mid; exact HM'].
  - apply fold_Mid; [|exact HM]. intros st' p HM'. apply fold_Mid; [|exact HM'].
    intros st'' b HM''. apply prim_insert_ordered_Mid; exact HM''.
  - apply fold_Mid; [|exact HM]. intros st' f HM'. apply fold_Mid; [|exact HM'].
    intros st'' q HM''. apply prim_reorder_Mid; assumption.
  - apply fold_Mid; [|exact HM]. intros st' v HM'. apply prim_remove_node_Mid; exact HM'.
  - apply Inv_Mid. apply subscribe_Inv; assumption.
  - apply Inv_Mid. apply unsubscribe_by_Inv; assumption.
  - apply Inv_Mid. apply unsubscribe_by_Inv; assumption.
  - apply Inv_Mid. apply getdata_Inv; assumption.
  - destruct HM as [M H6]. split; [apply MidA_set_refl; exact M | apply I6_set_refl; exact H6].
  - exact HM.
  - apply set_data_node_Mid; exact HM.
  - apply clone_Mid; assumption.
  - destruct (has_node (st_tree st) src); [apply restore_Mid|]; exact HM.
  - apply prim_remove_entry_at_Mid; exact HM.
  - apply prim_insert_entry_at_Mid; exact HM.
  - apply remove_child_rec_Mid; exact HM.
  - exact HM.
Qed.

Lemma flush_n : forall st, st_n (flush st) = st_n st.
Proof. intro st. unfold flush. destruct (fold_deliver_fields (st_pend st) (with_pend st [])) as (A & _). exact A. Qed.

Lemma attach_Inv : forall st, Inv st -> Inv (attach st).
Proof.
  intros st (M & H6 & Hp). split; [|split; [|exact Hp]].
  - constructor; simpl.
    + apply twf_add_node. apply (mA_twf st M).
    + intros s p Hs. rewrite index_at_add_node. apply (mA_sub st M s p Hs).
    + apply (mA_unsub st M).
    + apply (mA_hist st M).
    + intros s Hs. apply (mA_n st M). lia.
    + apply (mA_fit st M).
    + apply (mA_hfit st M).
    + apply (mA_hunsub st M).
  - apply (I6_shrink st); [exact H6 | reflexivity|]. intros q x Hx. simpl in Hx. rewrite index_at_add_node in Hx. exact Hx.
Qed.

Lemma exec_guarded_Inv : forall cfg s st c, cfg_ok cfg -> Inv st ->
  Inv (if (s <? st_n st) && has_node (st_tree st) [NS s]
       then match c with CDetach => drop_session (flush (handle cfg st s c)) s | _ => flush (handle cfg st s c) end
       else st).
Proof.
  intros cfg s st c Hc HI. destruct ((s <? st_n st) && has_node (st_tree st) [NS s]) eqn:E; [|exact HI].
  apply andb_true_iff in E. destruct E as [E _].
  apply Nat.ltb_lt in E. destruct (handle_Mid cfg st s c Hc HI E) as [M H6].
  pose proof (flush_Inv _ M H6) as HF.
  destruct c; try exact HF. apply drop_session_Inv. exact HF.
Qed.

Lemma exec_Inv : forall cfg s st c, cfg_ok cfg -> Inv st -> Inv (exec cfg s st c).
Proof.
  intros cfg s st c Hc HI. unfold exec.
  pose proof (exec_guarded_Inv cfg s st c Hc HI) as G.
  destruct c; try exact G. apply attach_Inv. exact HI.
Qed.

Lemma Inv_with_out : forall st o, Inv st -> Inv (with_out st o).
Proof. intros st o (M & H6 & Hp). split; [|split; [exact H6 | exact Hp]]. destruct M. constructor; assumption. Qed.

Lemma step_Inv : forall cfg st sc, cfg_ok cfg -> Inv st -> Inv (step cfg st sc).
Proof.
  intros cfg st [s cmds] Hc HI. unfold step. simpl.
  assert (H : forall l st', Inv st' -> Inv (fold_left (exec cfg s) l st')).
  { induction l as [|c l IH]; intros st' HI'; [exact HI'|]. simpl. apply IH. apply exec_Inv; assumption. }
  apply H. apply Inv_with_out. exact HI.
Qed.

Lemma init_tree_lookup : forall n p m, lookup (init_tree n) p = Some m -> m = new_node.
Proof.
  intros n p m H. apply lookup_In in H. unfold init_tree in H. apply in_map_iff in H.
  destruct H as [s [E _]]. inversion E. reflexivity.
Qed.

Lemma init_Inv : forall n, Inv (init_state n).
Proof.
  intro n. split; [|split].
  - constructor; simpl.
    + split.
      * unfold init_tree. rewrite map_map. simpl. apply FinFun.Injective_map_NoDup; [|apply seq_NoDup].
        intros x y H. inversion H. reflexivity.
      * intros p m H. rewrite (init_tree_lookup _ _ _ H). apply wfn_new.
    + intros s p H. discriminate.
    + intros s p _. split; reflexivity.
    + intros s p. reflexivity.
    + intros s _. reflexivity.
    + intros s p _. reflexivity.
    + intros s p. reflexivity.
    + intros s p _. reflexivity.
  - intro s. right. intros p _. simpl. unfold index_at.
    destruct (lookup (init_tree n) p) as [m|] eqn:E; [rewrite (init_tree_lookup _ _ _ E)|]; reflexivity.
  - reflexivity.
Qed.

Theorem run_Inv : forall cfg n steps, cfg_ok cfg -> Inv (run cfg n steps).
Proof.
  intros cfg n steps Hc. unfold run.
  assert (H : forall l st, Inv st -> Inv (fold_left (step cfg) l st)).
  { induction l as [|sc l IH]; intros st HI; [exact HI|]. simpl. apply IH. apply step_Inv; assumption. }
  apply H. apply init_Inv.
Qed.

Lemma cfg_fixed_ok : cfg_ok cfg_fixed.
Proof. split; reflexivity. Qed.

(* ------------------------------------------------------------------ the statements of C13 *)

(* index_inv: after every history, every index lists only existing children of its node, each at most once *)
Theorem index_inv : forall n steps p,
  let t := st_tree (run cfg_fixed n steps) in
  NoDup (index_at t p) /\ forall k, In k (index_at t p) -> has_node t (p ++ [k]) = true.
Proof.
  intros n steps p t. destruct (run_Inv cfg_fixed n steps cfg_fixed_ok) as (M & _ & _).
  split; [apply twf_index_NoDup | intros k Hk; apply twf_index_child]; try apply (mA_twf _ M). exact Hk.
Qed.

(* replay_eq: at every quiescent point the replica of every subscriber equals the server's index, and it is
   what replaying (from nothing) everything delivered since the subscription -- snapshot first -- yields *)
Theorem replay_eq : forall n steps s p,
  let st := run cfg_fixed n steps in
  subscribed st s p = true ->
  replay (st_hist st s p) [] = index_at (st_tree st) p /\ st_mirror st s p = index_at (st_tree st) p.
Proof.
  intros n steps s p st Hs. destruct (run_Inv cfg_fixed n steps cfg_fixed_ok) as (M & _ & Hp).
  fold st in M, Hp. pose proof (mA_sub st M s p Hs) as H. rewrite Hp in H. simpl in H.
  split; [rewrite (mA_hist st M s p)|]; exact H.
Qed.

(* nothing is left pending at a quiescent point, and a client holds nothing for nodes it is not subscribed to *)
Theorem quiescent_clean : forall n steps,
  let st := run cfg_fixed n steps in
  st_pend st = [] /\ forall s p, subscribed st s p = false -> st_mirror st s p = [].
Proof.
  intros n steps st. destruct (run_Inv cfg_fixed n steps cfg_fixed_ok) as (M & _ & Hp). fold st in M, Hp.
  split; [exact Hp | intros s p Hs; apply (mA_unsub st M s p Hs)].
Qed.

(* a child that does not exist is in no index *)
Theorem absent_child_not_indexed : forall n steps p k,
  let t := st_tree (run cfg_fixed n steps) in has_node t (p ++ [k]) = false -> ~ In k (index_at t p).
Proof.
  intros n steps p k t Hh Hin. destruct (index_inv n steps p) as [_ H]. fold t in H. rewrite (H k Hin) in Hh. discriminate.
Qed.

(* remove_drops_entry: removing a node (with its subtree) removes it from the tree and from its parent's index *)
Theorem remove_drops_entry : forall st v, Mid st -> has_node (st_tree st) v = true -> 2 <= length v ->
  let st' := prim_remove_node st v in
  has_node (st_tree st') v = false /\ ~ In (last_name v) (index_at (st_tree st') (parent_of v)) /\ Mid st'.
Proof.
  intros st v HM Hh Hl st'. pose proof (prim_remove_node_Mid st v HM) as HM'. fold st' in HM'.
  assert (Hgone : has_node (st_tree st') v = false).
  { unfold st', prim_remove_node, remove_child_rec. rewrite Hh. replace (2 <=? length v) with true by (symmetry; apply Nat.leb_le; exact Hl).
    simpl. rewrite has_node_delete, is_prefix_refl. apply andb_false_r. }
  split; [exact Hgone|]. split; [|exact HM'].
  intro Hin. apply (twf_index_child _ _ _ (mA_twf _ (proj1 HM'))) in Hin.
  assert (Hv : v = parent_of v ++ [last_name v]).
  { unfold parent_of, last_name. apply app_removelast_last. intro E. subst v. simpl in Hl. lia. }
  rewrite <- Hv in Hin. congruence.
Qed.

(* every op of the delivered stream can be applied by a strict client (insert positions within the replica,
   remove positions holding the named key), starting from nothing *)
Theorem log_fits : forall n steps s p, ops_fit (st_hist (run cfg_fixed n steps) s p) [] = true.
Proof.
  intros n steps s p. destruct (run_Inv cfg_fixed n steps cfg_fixed_ok) as (M & _ & _). apply (mA_hfit _ M).
Qed.

(* a session that leaves takes its nodes and its subscriptions with it; the invariant goes on *)
Theorem detach_clean : forall cfg st s, cfg_ok cfg -> Inv st -> s < st_n st -> has_node (st_tree st) [NS s] = true ->
  let st' := exec cfg s st CDetach in
  Inv st' /\ st_subs st' s = [] /\ forall p, own s p = true -> has_node (st_tree st') p = false /\ index_at (st_tree st') p = [].
Proof.
  intros cfg st s Hc HI Hlt Hh st'. split; [apply exec_Inv; assumption|].
  unfold st', exec. cbv iota. replace (s <? st_n st) with true by (symmetry; apply Nat.ltb_lt; exact Hlt). rewrite Hh. simpl andb. cbv iota.
  split; [simpl; rewrite Nat.eqb_refl; reflexivity|].
  intros p Ho. simpl st_tree. unfold flush.
  destruct (fold_deliver_fields (st_pend (remove_child_rec st [NS s])) (with_pend (remove_child_rec st [NS s]) [])) as (_ & B & _).
  rewrite B. simpl st_tree. unfold remove_child_rec. rewrite Hh. simpl st_tree.
  assert (Hp : is_prefix [NS s] p = true).
  { destruct p as [|[x|x|x] p]; simpl in Ho; try discriminate. apply Nat.eqb_eq in Ho. subst x.
    apply (is_prefix_app [NS s] p). }
  unfold has_node, index_at. rewrite lookup_delete_subtree, Hp. split; reflexivity.
Qed.

(* "always": the index invariant also holds while a command is being handled (before the push) *)
Theorem index_inv_mid : forall n steps s c p, s < st_n (run cfg_fixed n steps) ->
  let t := st_tree (handle cfg_fixed (run cfg_fixed n steps) s c) in
  NoDup (index_at t p) /\ forall k, In k (index_at t p) -> has_node t (p ++ [k]) = true.
Proof.
  intros n steps s c p Hlt t.
  destruct (handle_Mid cfg_fixed (run cfg_fixed n steps) s c cfg_fixed_ok (run_Inv cfg_fixed n steps cfg_fixed_ok) Hlt) as [M _].
  split; [apply twf_index_NoDup | intros k Hk; apply twf_index_child]; try apply (mA_twf _ M). exact Hk.
Qed.

(* ------------------------------------------------------------------ quiet removal (PR_NAME_REMOVE_QUIETLY) *)

Lemma twf_delete_subtree : forall t v, twf t -> ~ In (last_name v) (index_at t (parent_of v)) -> twf (delete_subtree t v).
Proof.
  intros t v W Hgone. split; [apply keys_delete_NoDup; apply W|].
  intros q m Hq. rewrite lookup_delete_subtree in Hq. destruct (is_prefix v q) eqn:Ep; [discriminate|].
  destruct (proj2 W q m Hq) as [Hnd Hinc]. split; [exact Hnd|].
  intros x Hx. apply kids_of_In. rewrite has_node_delete.
  assert (Hc : has_node t (q ++ [x]) = true) by (apply kids_of_In; apply Hinc; exact Hx).
  rewrite Hc. simpl. destruct (is_prefix v (q ++ [x])) eqn:Ep2; [|reflexivity]. exfalso.
  pose proof (is_prefix_snoc _ _ _ Ep2 Ep) as Ev. subst v.
  unfold parent_of, last_name in Hgone. rewrite removelast_snoc, last_snoc in Hgone.
  apply Hgone. rewrite (index_at_lookup _ _ _ Hq). exact Hx.
Qed.

(* A quiet removal keeps every index well-formed (index_inv does not depend on notifications) and the flag
   invariant; it changes no index except the parent's (which loses the entry) and those of the removed nodes; so
   every replica other than those of the parent and of the removed subtree is still exact.  The replicas of the
   parent's index are stale until their holders take a new snapshot -- that is what "quietly" means. *)
Theorem quiet_frame : forall st v, Mid st ->
  let st' := remove_child_quiet st v in
  twf (st_tree st') /\ I6 st' /\
  (forall p, p <> parent_of v -> is_prefix v p = false -> index_at (st_tree st') p = index_at (st_tree st) p) /\
  (forall s p, subscribed st' s p = true -> p <> parent_of v -> is_prefix v p = false ->
     replay (pend_for (st_pend st') s p) (st_mirror st' s p) = index_at (st_tree st') p) /\
  (has_node (st_tree st) v = true ->
     ~ In (last_name v) (index_at (st_tree st') (parent_of v)) /\
     forall p, is_prefix v p = true -> has_node (st_tree st') p = false).
Proof.
  intros st v [M H6] st'. unfold st', remove_child_quiet.
  destruct (has_node (st_tree st) v) eqn:Eh.
  2:{ split; [apply (mA_twf st M)|]. split; [exact H6|]. split; [reflexivity|].
      split; [intros s p Hs _ _; apply (mA_sub st M s p Hs) | discriminate]. }
  set (t := st_tree st) in *.
  set (t1 := match lookup t (parent_of v) with
             | Some n => set_node t (parent_of v) (fst (remove_index_entry n (last_name v)))
             | None => t end).
  assert (W : twf t) by apply (mA_twf st M).
  (* the tree after dropping the parent's entry *)
  assert (H1 : twf t1 /\ ~ In (last_name v) (index_at t1 (parent_of v)) /\
               (forall p, p <> parent_of v -> index_at t1 p = index_at t p) /\
               (forall p x, In x (index_at t1 p) -> In x (index_at t p)) /\ map fst t1 = map fst t).
  { unfold t1. destruct (lookup t (parent_of v)) as [n|] eqn:El.
    - destruct (remove_index_entry n (last_name v)) as [n' ops] eqn:Er. simpl fst.
      destruct (remove_index_entry_spec _ _ _ _ _ (proj2 W _ n El) Er) as (Wn & _ & Nk & Sub & _).
      split; [apply twf_set_node; assumption|]. split.
      + rewrite (index_at_set_node _ _ n) by exact El. rewrite path_eqb_refl. exact Nk.
      + split; [|split; [|apply keys_set_node]].
        * intros p Hp. rewrite (index_at_set_node _ _ n) by exact El.
          replace (path_eqb (parent_of v) p) with false; [reflexivity|]. symmetry. apply path_eqb_neq. congruence.
        * intros p x Hx. rewrite (index_at_set_node _ _ n) in Hx by exact El.
          destruct (path_eqb (parent_of v) p) eqn:E; [|exact Hx]. apply path_eqb_eq in E. subst p.
          rewrite (index_at_lookup _ _ _ El). apply Sub. exact Hx.
    - split; [exact W|]. split; [unfold index_at; rewrite El; intros []|]. split; [reflexivity|]. split; [intros p x Hx; exact Hx | reflexivity]. }
  destruct H1 as (W1 & Hgone & Hother & Hshrink & Hkeys).
  assert (Hidx : forall p, is_prefix v p = false -> index_at (delete_subtree t1 v) p = index_at t1 p).
  { intros p Hp. unfold index_at. rewrite lookup_delete_subtree, Hp. reflexivity. }
  simpl st_tree. split; [apply twf_delete_subtree; assumption|]. split; [|split; [|split]].
  - apply (I6_shrink st); [exact H6 | reflexivity|]. intros q x Hx. simpl in Hx.
    unfold index_at in Hx at 1. rewrite lookup_delete_subtree in Hx. destruct (is_prefix v q); [inversion Hx|].
    apply Hshrink. exact Hx.
  - intros p Hp Hv. rewrite (Hidx p Hv). apply Hother. exact Hp.
  - intros s p Hs Hp Hv. simpl. rewrite (Hidx p Hv), (Hother p Hp). apply (mA_sub st M s p Hs).
  - intros _. split.
    + destruct (is_prefix v (parent_of v)) eqn:E.
      * unfold index_at. rewrite lookup_delete_subtree, E. intros [].
      * rewrite (Hidx _ E). exact Hgone.
    + intros p Hp. rewrite has_node_delete, Hp. apply andb_false_r.
Qed.
