(* Refl/TraverseTheorems.v -- Part 2 of the traversal proofs: the visit list V of Refl/TraverseProofs.v has no
   duplicates and is exactly the set of nodes below the root accepted by PathMatcher::MatchesPath.

   Premises (Section hypotheses, they become premises of every theorem):
     ckeys_sound / ckeys_complete : a clause that reports lookup keys matches exactly those names (C15); soundness is
                                    only needed of the names that occur in the tree ([okname]: e.g. non-empty strings)
     tree_wf t                    : node paths distinct and non-empty, parents present
     matcher_wf m                 : group keys distinct, an entry sits in the group of its clause count *)
From Coq Require Import List NArith ZArith Bool Arith Lia.
From Muscle Require Import Refl.Base Refl.Tree Refl.Matcher Refl.Traverse Refl.TravBase Refl.TraverseProofs.
Import ListNotations.

Lemma nodup_app_intro : forall (A : Type) (a b : list A),
  NoDup a -> NoDup b -> (forall x, In x a -> ~ In x b) -> NoDup (a ++ b).
Proof.
  intros A a. induction a as [|x a IH]; intros b Ha Hb Hd; cbn; [assumption|].
  inversion Ha as [|? ? Hx Ha']; subst. constructor.
  - intros Hin. apply in_app_or in Hin. destruct Hin as [Hin|Hin]; [contradiction|].
    apply (Hd x); [now left | assumption].
  - apply IH; try assumption. intros y Hy. apply Hd. now right.
Qed.

Lemma nodup_flat_map_key : forall (A B K : Type) (F : A -> list B) (ka : A -> K) (kb : B -> K) (l : list A),
  NoDup (map ka l) -> (forall a, In a l -> NoDup (F a)) -> (forall a b, In a l -> In b (F a) -> kb b = ka a) ->
  NoDup (flat_map F l).
Proof.
  intros A B K F ka kb l. induction l as [|a l IH]; intros Hk Hn Hkey; cbn; [constructor|].
  cbn in Hk. inversion Hk as [|? ? Hnot Hk']; subst.
  apply nodup_app_intro.
  - apply Hn. now left.
  - apply IH; [assumption | intros; apply Hn; now right | intros a' b Ha' Hb; apply Hkey; [now right | assumption]].
  - intros b Hb Hb'. apply in_flat_map in Hb'. destruct Hb' as [a' [Ha' Hb']].
    apply Hnot. rewrite <- (Hkey a b (or_introl eq_refl) Hb). rewrite (Hkey a' b (or_intror Ha') Hb').
    now apply in_map.
Qed.

Lemma nodup_map_compose : forall (A B C : Type) (f : A -> B) (g : B -> C) (l : list A),
  NoDup (map f l) -> (forall a b, In a l -> In b l -> g (f a) = g (f b) -> f a = f b) ->
  NoDup (map (fun a => g (f a)) l).
Proof.
  intros A B C f g l. induction l as [|a l IH]; intros Hn Hinj; cbn; [constructor|].
  cbn in Hn. inversion Hn as [|? ? Hnot Hn']; subst. constructor.
  - intros Hin. apply in_map_iff in Hin. destruct Hin as [b [E Hb]].
    apply Hnot. rewrite <- (Hinj b a (or_intror Hb) (or_introl eq_refl) E). now apply in_map.
  - apply IH; [assumption|]. intros x y Hx Hy. apply Hinj; now right.
Qed.

Lemma path_mem_in : forall (p : path) (l : list path), path_mem p l = true <-> In p l.
Proof.
  intros p l. induction l as [|q l IH]; cbn; [split; [discriminate | intros []]|].
  rewrite orb_true_iff, IH, path_eqb_eq. tauto.
Qed.

Lemma path_mem_false : forall (p : path) (l : list path), path_mem p l = false <-> ~ In p l.
Proof.
  intros p l. rewrite <- path_mem_in. destruct (path_mem p l); split; intros H; try reflexivity; try discriminate.
  exfalso. now apply H.
Qed.

Lemma app_snoc_neq : forall (A : Type) (x r : list A), r <> [] -> x ++ r <> x.
Proof.
  intros A x r Hr E. assert (L : length (x ++ r) = length x) by now rewrite E.
  rewrite app_length in L. destruct r; [now apply Hr | cbn in L; lia].
Qed.

Section Props.
Context {M : MatchOps}.
Variable okname : name -> Prop.
Hypothesis ckeys_sound : forall (c : clause) (ks : list name) (k : name), okname k -> ckeys c = Some ks -> cmatch c k = true -> In k ks.
Hypothesis ckeys_complete : forall (c : clause) (ks : list name) (k : name), ckeys c = Some ks -> In k ks -> cmatch c k = true.
Variable t : tree.
Variable m : matcher.
Variable root : path.
Variable use_filters : bool.
Variable guard_fixed : bool.
Hypothesis TWF : tree_wf t.
Hypothesis MWF : matcher_wf m.
Hypothesis NOK : forall n, In n t -> Forall okname (n_path n).

Local Notation rd := (length root).
Local Notation ACT := (actions m rd use_filters guard_fixed).
Local Notation GOK := (guard_ok m rd use_filters guard_fixed).
Local Notation LKK := (lk_keys t).
Local Notation LKE := (lk_entries t).
Local Notation PROCS := (procs t m).
Local Notation VV := (V t m rd use_filters guard_fixed).
Local Notation CV := (child_visits m rd use_filters guard_fixed).

(* ------------------------------------------------------------------ what CheckChildForTraversal does for one child *)

Lemma actions_shape : forall es child rel known idx matched recursed,
  ACT child rel known es idx matched recursed = [] \/
  (matched = false /\ ACT child rel known es idx matched recursed = [ACall]) \/
  (recursed = false /\ ACT child rel known es idx matched recursed = [ARec]) \/
  (matched = false /\ recursed = false /\
   (ACT child rel known es idx matched recursed = [ACall; ARec] \/ ACT child rel known es idx matched recursed = [ARec; ACall])).
Proof.
  induction es as [|e es IH]; intros child rel known idx matched recursed; [now left|].
  cbn [actions]. destruct (hit child rel known e idx); [|apply IH].
  destruct (Nat.eqb (length (e_pat e)) (S rel)).
  - destruct matched; [apply IH|]. destruct (GOK child e); [|apply IH].
    destruct recursed; [right; left; now split|].
    destruct (IH child rel known (S idx) true false) as [H|[[H _]|[[_ H]|[H _]]]]; try discriminate; rewrite H.
    + right; left; now split.
    + right; right; right. repeat split; now left.
  - destruct recursed; [apply IH|].
    destruct matched; [right; right; left; now split|].
    destruct (IH child rel known (S idx) false true) as [H|[[_ H]|[[H _]|[_ [H _]]]]]; try discriminate; rewrite H.
    + right; right; left; now split.
    + right; right; right. repeat split; now right.
Qed.

Lemma actions_call_sound : forall es child rel known idx matched recursed,
  In ACall (ACT child rel known es idx matched recursed) ->
  matched = false /\ exists i e, nth_error es i = Some e /\ hit child rel known e (idx + i) = true /\
                                 length (e_pat e) = S rel /\ GOK child e = true.
Proof.
  induction es as [|e es IH]; intros child rel known idx matched recursed H; [destruct H|].
  cbn [actions] in H.
  assert (Tail : forall mt rc, In ACall (ACT child rel known es (S idx) mt rc) ->
                 mt = false /\ exists i e0, nth_error (e :: es) i = Some e0 /\ hit child rel known e0 (idx + i) = true /\
                                           length (e_pat e0) = S rel /\ GOK child e0 = true).
  { intros mt rc H0. destruct (IH _ _ _ _ _ _ H0) as [Hm [i [e0 [H1 [H2 H3]]]]]. split; [assumption|].
    exists (S i), e0. split; [assumption|]. split; [|assumption]. now replace (idx + S i) with (S idx + i) by lia. }
  destruct (hit child rel known e idx) eqn:Hhit; [|now apply (Tail matched recursed)].
  destruct (Nat.eqb (length (e_pat e)) (S rel)) eqn:Hterm.
  - destruct matched; [now apply (Tail true recursed)|].
    destruct (GOK child e) eqn:Hg; [|now apply (Tail false recursed)].
    split; [reflexivity|]. exists 0, e. rewrite Nat.add_0_r. apply Nat.eqb_eq in Hterm. now repeat split.
  - destruct recursed; [now apply (Tail matched true)|].
    destruct H as [H|H]; [discriminate|].
    destruct matched; [destruct H|]. destruct (Tail false true H) as [_ Ht]. now split.
Qed.

Lemma actions_rec_sound : forall es child rel known idx matched recursed,
  In ARec (ACT child rel known es idx matched recursed) ->
  recursed = false /\ exists i e, nth_error es i = Some e /\ hit child rel known e (idx + i) = true /\
                                  length (e_pat e) <> S rel.
Proof.
  induction es as [|e es IH]; intros child rel known idx matched recursed H; [destruct H|].
  cbn [actions] in H.
  assert (Tail : forall mt rc, In ARec (ACT child rel known es (S idx) mt rc) ->
                 rc = false /\ exists i e0, nth_error (e :: es) i = Some e0 /\ hit child rel known e0 (idx + i) = true /\
                                           length (e_pat e0) <> S rel).
  { intros mt rc H0. destruct (IH _ _ _ _ _ _ H0) as [Hm [i [e0 [H1 [H2 H3]]]]]. split; [assumption|].
    exists (S i), e0. split; [assumption|]. split; [|assumption]. now replace (idx + S i) with (S idx + i) by lia. }
  destruct (hit child rel known e idx) eqn:Hhit; [|now apply (Tail matched recursed)].
  destruct (Nat.eqb (length (e_pat e)) (S rel)) eqn:Hterm.
  - destruct matched; [now apply (Tail true recursed)|].
    destruct (GOK child e) eqn:Hg; [|now apply (Tail false recursed)].
    destruct H as [H|H]; [discriminate|].
    destruct recursed; [destruct H|]. destruct (Tail true false H) as [_ Ht]. now split.
  - destruct recursed; [now apply (Tail matched true)|].
    split; [reflexivity|]. exists 0, e. rewrite Nat.add_0_r. apply Nat.eqb_neq in Hterm. now repeat split.
Qed.

Lemma actions_call_complete : forall es child rel known idx recursed i e,
  nth_error es i = Some e -> hit child rel known e (idx + i) = true -> length (e_pat e) = S rel -> GOK child e = true ->
  In ACall (ACT child rel known es idx false recursed).
Proof.
  induction es as [|e0 es IH]; intros child rel known idx recursed i e Hn Hh Ht Hg; [destruct i; discriminate|].
  cbn [actions]. destruct i as [|i].
  - cbn in Hn. inversion Hn; subst e0. rewrite Nat.add_0_r in Hh. rewrite Hh.
    apply Nat.eqb_eq in Ht. rewrite Ht, Hg. now left.
  - cbn in Hn. replace (idx + S i) with (S idx + i) in Hh by lia.
    destruct (hit child rel known e0 idx); [|now apply (IH _ _ _ _ _ i e)].
    destruct (Nat.eqb (length (e_pat e0)) (S rel)).
    + destruct (GOK child e0); [now left | now apply (IH _ _ _ _ _ i e)].
    + destruct recursed; [now apply (IH _ _ _ _ _ i e)|]. right. now apply (IH _ _ _ _ _ i e).
Qed.

Lemma actions_rec_complete : forall es child rel known idx matched i e,
  nth_error es i = Some e -> hit child rel known e (idx + i) = true -> length (e_pat e) <> S rel ->
  In ARec (ACT child rel known es idx matched false).
Proof.
  induction es as [|e0 es IH]; intros child rel known idx matched i e Hn Hh Ht; [destruct i; discriminate|].
  cbn [actions]. destruct i as [|i].
  - cbn in Hn. inversion Hn; subst e0. rewrite Nat.add_0_r in Hh. rewrite Hh.
    apply Nat.eqb_neq in Ht. rewrite Ht. now left.
  - cbn in Hn. replace (idx + S i) with (S idx + i) in Hh by lia.
    destruct (hit child rel known e0 idx); [|now apply (IH _ _ _ _ _ i e)].
    destruct (Nat.eqb (length (e_pat e0)) (S rel)).
    + destruct matched; [now apply (IH _ _ _ _ _ i e)|].
      destruct (GOK child e0); [|now apply (IH _ _ _ _ _ i e)]. right. now apply (IH _ _ _ _ _ i e).
    + now left.
Qed.

(* ------------------------------------------------------------------ which children DoTraversalAux processes *)

Local Notation cpath := (fun ck : node * option nat => n_path (fst ck)).

Lemma lk_keys_spec : forall x idx ks did,
  (forall c kn, In (c, kn) (fst (LKK x idx ks did)) ->
     kn = Some idx /\ In c t /\ (exists k, In k ks /\ n_path c = x ++ [k]) /\ path_mem (n_path c) did = false) /\
  NoDup (map cpath (fst (LKK x idx ks did))) /\
  (forall p, path_mem p (snd (LKK x idx ks did)) = true <->
             path_mem p did = true \/ In p (map cpath (fst (LKK x idx ks did)))) /\
  (forall k c, In k ks -> get_child t x k = Some c -> path_mem (n_path c) (snd (LKK x idx ks did)) = true).
Proof.
  intros x idx ks. induction ks as [|k ks IH]; intros did.
  - cbn [lk_keys fst snd map]. split; [|split; [|split]].
    + intros c kn [].
    + constructor.
    + intros p. split; [now left | intros [H|[]]; assumption].
    + intros k c [].
  - cbn [lk_keys]. destruct (get_child t x k) as [c|] eqn:Hc.
    + destruct (path_mem (n_path c) did) eqn:Hmem.
      * destruct (IH did) as [I1 [I2 [I3 I4]]]. split; [|split; [|split]]; try assumption.
        -- intros c0 kn H0. destruct (I1 c0 kn H0) as [A1 [A2 [[k0 [A3 A4]] A5]]].
           repeat split; try assumption. exists k0. split; [now right | assumption].
        -- intros k0 c0 [E|Hin] Hg.
           ++ subst k0. rewrite Hc in Hg. inversion Hg; subst c0. apply I3. now left.
           ++ now apply (I4 k0 c0).
      * destruct (IH (n_path c :: did)) as [I1 [I2 [I3 I4]]]. cbn [fst snd].
        destruct (get_child_some _ _ _ _ Hc) as [Hct Hcp].
        split; [|split; [|split]].
        -- intros c0 kn [H0|H0].
           ++ inversion H0; subst c0 kn. repeat split; try assumption. exists k. split; [now left | assumption].
           ++ destruct (I1 c0 kn H0) as [A1 [A2 [[k0 [A3 A4]] A5]]]. repeat split; try assumption.
              ** exists k0. split; [now right | assumption].
              ** cbn in A5. apply orb_false_iff in A5. tauto.
        -- cbn [map]. constructor; [|assumption].
           intros Hin. apply in_map_iff in Hin. destruct Hin as [[c0 kn] [E H0]]. cbn in E.
           destruct (I1 c0 kn H0) as [_ [_ [_ A5]]]. cbn in A5. rewrite E, path_eqb_refl in A5. discriminate.
        -- intros p. rewrite I3. cbn [path_mem map In]. rewrite orb_true_iff, path_eqb_eq. tauto.
        -- intros k0 c0 [E|Hin] Hg.
           ++ subst k0. rewrite Hc in Hg. inversion Hg; subst c0. apply I3. left. cbn. now rewrite path_eqb_refl.
           ++ now apply (I4 k0 c0).
    + destruct (IH did) as [I1 [I2 [I3 I4]]]. split; [|split; [|split]]; try assumption.
      * intros c0 kn H0. destruct (I1 c0 kn H0) as [A1 [A2 [[k0 [A3 A4]] A5]]].
        repeat split; try assumption. exists k0. split; [now right | assumption].
      * intros k0 c0 [E|Hin] Hg; [subst k0; rewrite Hc in Hg; discriminate | now apply (I4 k0 c0)].
Qed.

Definition keys_of (e : entry) (rel : nat) : list name :=
  match ckeys (clause_at e rel) with Some ks => ks | None => [] end.

Lemma lk_entries_spec : forall x rel es idx did,
  (forall c kn, In (c, kn) (LKE x rel es idx did) ->
     In c t /\ path_mem (n_path c) did = false /\
     exists i e k, kn = Some (idx + i) /\ nth_error es i = Some e /\ In k (keys_of e rel) /\ n_path c = x ++ [k]) /\
  NoDup (map cpath (LKE x rel es idx did)) /\
  (forall e k c, In e es -> In k (keys_of e rel) -> get_child t x k = Some c ->
     path_mem (n_path c) did = true \/ In (n_path c) (map cpath (LKE x rel es idx did))).
Proof.
  intros x rel es. induction es as [|e es IH]; intros idx did.
  - cbn [lk_entries map]. split; [|split].
    + intros c kn [].
    + constructor.
    + intros e k c [].
  - cbn [lk_entries]. fold (keys_of e rel).
    destruct (lk_keys_spec x idx (keys_of e rel) did) as [K1 [K2 [K3 K4]]].
    destruct (IH (S idx) (snd (LKK x idx (keys_of e rel) did))) as [I1 [I2 I3]].
    split; [|split].
    + intros c kn Hin. apply in_app_or in Hin. destruct Hin as [Hin|Hin].
      * destruct (K1 c kn Hin) as [A1 [A2 [[k [A3 A4]] A5]]]. repeat split; try assumption.
        exists 0, e, k. rewrite Nat.add_0_r. now repeat split.
      * destruct (I1 c kn Hin) as [A1 [A2 [i [e0 [k [A3 [A4 [A5 A6]]]]]]]]. split; [assumption|]. split.
        -- destruct (path_mem (n_path c) did) eqn:Hm; [|reflexivity].
           assert (Hx : path_mem (n_path c) (snd (LKK x idx (keys_of e rel) did)) = true) by (apply K3; now left).
           congruence.
        -- exists (S i), e0, k. replace (idx + S i) with (S idx + i) by lia. now repeat split.
    + rewrite map_app. apply nodup_app_intro; try assumption.
      intros p Hp Hp'. apply in_map_iff in Hp'. destruct Hp' as [[c kn] [E Hin]]. cbn in E. subst p.
      destruct (I1 c kn Hin) as [_ [A2 _]].
      assert (Hx : path_mem (n_path c) (snd (LKK x idx (keys_of e rel) did)) = true) by (apply K3; now right).
      congruence.
    + intros e0 k c [E|Hin] Hk Hg.
      * subst e0. assert (Hx := K4 k c Hk Hg). apply K3 in Hx. destruct Hx as [Hx|Hx]; [now left|].
        right. rewrite map_app. apply in_or_app. now left.
      * destruct (I3 e0 k c Hin Hk Hg) as [Hx|Hx].
        -- apply K3 in Hx. destruct Hx as [Hx|Hx]; [now left|]. right. rewrite map_app. apply in_or_app. now left.
        -- right. rewrite map_app. apply in_or_app. now right.
Qed.

Lemma procs_in : forall x rel ck, In ck (PROCS x rel) -> In (fst ck) t /\ exists k, n_path (fst ck) = x ++ [k].
Proof.
  intros x rel [c kn] H. unfold procs in H.
  destruct (existsb (fun e => is_wild (clause_at e rel)) (active m rel)).
  - apply in_map_iff in H. destruct H as [c0 [E Hc]]. inversion E; subst c0 kn. cbn. now apply children_spec.
  - destruct (lk_entries_spec x rel (active m rel) 0 []) as [I1 _].
    destruct (I1 c kn H) as [A1 [_ [i [e [k [_ [_ [_ A6]]]]]]]]. cbn. split; [assumption | now exists k].
Qed.

(* a child found by the key of entry number i really matches that entry's clause *)
Lemma procs_known : forall x rel c i, In (c, Some i) (PROCS x rel) ->
  exists e, nth_error (active m rel) i = Some e /\ cmatch (clause_at e rel) (last_name (n_path c)) = true.
Proof.
  intros x rel c i H. unfold procs in H.
  destruct (existsb (fun e => is_wild (clause_at e rel)) (active m rel)).
  - apply in_map_iff in H. destruct H as [c0 [E _]]. discriminate.
  - destruct (lk_entries_spec x rel (active m rel) 0 []) as [I1 _].
    destruct (I1 c (Some i) H) as [_ [_ [i0 [e [k [A3 [A4 [A5 A6]]]]]]]]. cbn in A3. inversion A3; subst i0.
    exists e. split; [assumption|]. rewrite A6, last_name_app.
    unfold keys_of in A5. destruct (ckeys (clause_at e rel)) as [ks|] eqn:Hk; [|destruct A5].
    now apply (ckeys_complete (clause_at e rel) ks).
Qed.

Lemma procs_nodup : forall x rel, NoDup (map cpath (PROCS x rel)).
Proof.
  intros x rel. unfold procs. destruct (existsb (fun e => is_wild (clause_at e rel)) (active m rel)).
  - rewrite map_map. cbn. apply children_nodup. apply TWF.
  - apply (lk_entries_spec x rel (active m rel) 0 []).
Qed.

Lemma procs_complete : forall x rel c k e,
  In c t -> n_path c = x ++ [k] -> In e (active m rel) -> cmatch (clause_at e rel) k = true ->
  exists kn, In (c, kn) (PROCS x rel).
Proof.
  intros x rel c k e Hc Hp He Hm. unfold procs.
  destruct (existsb (fun e => is_wild (clause_at e rel)) (active m rel)) eqn:Hw.
  - exists None. apply in_map_iff. exists c. split; [reflexivity|]. apply children_spec. split; [assumption | now exists k].
  - destruct (lk_entries_spec x rel (active m rel) 0 []) as [I1 [_ I3]].
    assert (Hnw : is_wild (clause_at e rel) = false).
    { destruct (is_wild (clause_at e rel)) eqn:E; [|reflexivity].
      assert (X : existsb (fun e => is_wild (clause_at e rel)) (active m rel) = true) by (apply existsb_exists; now exists e).
      congruence. }
    unfold is_wild in Hnw. destruct (ckeys (clause_at e rel)) as [ks|] eqn:Hk; [|discriminate].
    assert (Hok : okname k).
    { assert (F := NOK c Hc). rewrite Hp in F. rewrite Forall_forall in F. apply F. apply in_or_app. right. now left. }
    assert (Hin : In k (keys_of e rel)) by (unfold keys_of; rewrite Hk; now apply (ckeys_sound (clause_at e rel) ks)).
    assert (Hg : get_child t x k = Some c) by (apply get_child_in; [apply TWF | assumption | assumption]).
    destruct (I3 e k c He Hin Hg) as [Hx|Hx]; [discriminate|].
    apply in_map_iff in Hx. destruct Hx as [[c0 kn] [E H0]]. cbn in E.
    destruct (I1 c0 kn H0) as [A1 _].
    assert (c0 = c) by (apply (nodup_map_inj _ _ n_path t); [apply TWF | assumption | assumption | assumption]).
    subst c0. now exists kn.
Qed.

(* ------------------------------------------------------------------ the visit list *)

Lemma V_below : forall fuel x n, In n (VV fuel x) -> In n t /\ exists r, r <> [] /\ n_path n = x ++ r.
Proof.
  induction fuel as [|f IH]; intros x n H; [destruct H|].
  cbn [V] in H. apply in_flat_map in H. destruct H as [ck [Hck Hn]].
  destruct (procs_in _ _ _ Hck) as [Hct [k Hcp]].
  unfold child_visits in Hn. apply in_flat_map in Hn. destruct Hn as [a [_ Hn]]. destruct a.
  - destruct Hn as [Hn|[]]. subst n. split; [assumption|]. exists [k]. split; [discriminate | assumption].
  - destruct (IH _ _ Hn) as [Hnt [r [Hr Hp]]]. split; [assumption|]. exists (k :: r). split; [discriminate|].
    rewrite Hp, Hcp, <- app_assoc. reflexivity.
Qed.

Lemma V_nodup : forall fuel x, NoDup (map n_path (VV fuel x)).
Proof.
  induction fuel as [|f IH]; intros x; [constructor|].
  cbn [V]. rewrite map_flat_map.
  apply (nodup_flat_map_key _ _ _ _ (fun ck => last_name (n_path (fst ck))) (fun p : path => nth (length x) p 0%N)).
  - apply (nodup_map_compose _ _ _ cpath last_name); [apply procs_nodup|].
    intros a b Ha Hb E. destruct (procs_in _ _ _ Ha) as [_ [ka Hka]]. destruct (procs_in _ _ _ Hb) as [_ [kb Hkb]].
    cbn in *. rewrite Hka, Hkb in *. rewrite !last_name_app in E. now subst.
  - intros ck Hck. destruct (procs_in _ _ _ Hck) as [_ [k Hcp]].
    unfold child_visits.
    assert (Hself : ~ In (n_path (fst ck)) (map n_path (VV f (n_path (fst ck))))).
    { intros Hin. apply in_map_iff in Hin. destruct Hin as [n [E Hn]]. destruct (V_below _ _ _ Hn) as [_ [r [Hr Hp]]].
      rewrite Hp in E. now apply (app_snoc_neq _ (n_path (fst ck)) r Hr). }
    destruct (actions_shape (active m (length x - rd)) (fst ck) (length x - rd) (snd ck) 0 false false)
      as [H|[[_ H]|[[_ H]|[_ [_ [H|H]]]]]]; rewrite H; cbn; try rewrite app_nil_r.
    + constructor.
    + constructor; [intros [] | constructor].
    + apply IH.
    + constructor; [assumption | apply IH].
    + rewrite map_app. cbn. apply nodup_app_intro; [apply IH | constructor; [intros [] | constructor] |].
      intros p Hp [E|[]]. subst p. contradiction.
  - intros ck p Hck Hp. destruct (procs_in _ _ _ Hck) as [_ [k Hcp]]. cbn. rewrite Hcp, last_name_app.
    apply in_map_iff in Hp. destruct Hp as [n [E Hn]]. subst p.
    unfold child_visits in Hn. apply in_flat_map in Hn. destruct Hn as [a [_ Hn]]. destruct a.
    + destruct Hn as [Hn|[]]. subst n. rewrite Hcp. rewrite app_nth2, Nat.sub_diag; [reflexivity | lia].
    + destruct (V_below _ _ _ Hn) as [_ [r [_ Hp]]]. rewrite Hp, Hcp, <- app_assoc.
      rewrite app_nth2, Nat.sub_diag; [reflexivity | lia].
Qed.

(* the data the filters of a traversal see *)
Definition fdata (n : node) : option payload := if use_filters then Some (n_data n) else None.

(* the brute-force test: PathMatcher::MatchesPath on the node's path relative to the root *)
Definition bf (n : node) : bool := matches_path m (skipn rd (n_path n)) (fdata n).

Lemma skipn_root : forall r : path, skipn rd (root ++ r) = r.
Proof. intros r. rewrite skipn_app, skipn_all, Nat.sub_diag. reflexivity. Qed.

Lemma hit_cmatch : forall x rel c kn e i,
  In (c, kn) (PROCS x rel) -> nth_error (active m rel) i = Some e -> hit c rel kn e i = true ->
  cmatch (clause_at e rel) (last_name (n_path c)) = true.
Proof.
  intros x rel c kn e i Hck Hn Hh. unfold hit in Hh. apply orb_true_iff in Hh. destruct Hh as [Hh|Hh]; [|assumption].
  destruct kn as [i0|]; [|discriminate]. apply Nat.eqb_eq in Hh. subst i0.
  destruct (procs_known _ _ _ _ Hck) as [e0 [H0 H1]]. rewrite Hn in H0. inversion H0; subst e0. assumption.
Qed.

Lemma clause_at_nth : forall e rel, rel < length (e_pat e) -> nth_error (e_pat e) rel = Some (clause_at e rel).
Proof. intros e rel H. unfold clause_at. now apply nth_error_nth'. Qed.

Lemma single_entry : forall e1 e2, num_entries m = 1 -> In e1 (all_entries m) -> In e2 (all_entries m) -> e1 = e2.
Proof.
  intros e1 e2 H H1 H2. unfold num_entries in H. destruct (all_entries m) as [|a [|b l]]; try discriminate.
  destruct H1 as [H1|[]], H2 as [H2|[]]. congruence.
Qed.

(* soundness: with the repaired guard every node called back on is accepted by the brute-force test *)
Lemma V_sound : guard_fixed = true ->
  forall fuel rx n,
    (num_entries m = 1 -> forall e, In e (all_entries m) -> pre_matches (e_pat e) rx = true) ->
    In n (VV fuel (root ++ rx)) -> bf n = true.
Proof.
  intros GF. induction fuel as [|f IH]; intros rx n Inv H; [destruct H|].
  cbn [V] in H. rewrite app_length in H. replace (rd + length rx - rd) with (length rx) in H by lia.
  apply in_flat_map in H. destruct H as [[c kn] [Hck Hn]].
  destruct (procs_in _ _ _ Hck) as [Hct [k Hcp]]. cbn [fst] in Hct, Hcp.
  unfold child_visits in Hn. cbn [fst snd] in Hn. apply in_flat_map in Hn. destruct Hn as [a [Ha Hn]].
  assert (Hname : last_name (n_path c) = k) by (rewrite Hcp; apply last_name_app).
  destruct a.
  - destruct Hn as [Hn|[]]. subst n.
    destruct (actions_call_sound _ _ _ _ _ _ _ Ha) as [_ [i [e [H1 [H2 [H3 H4]]]]]]. cbn in H2.
    assert (Hact : In e (active m (length rx))) by (eapply nth_error_In; eassumption).
    apply (active_spec m _ e MWF) in Hact. destruct Hact as [Hall Hlen].
    unfold bf. rewrite Hcp, <- app_assoc, skipn_root.
    unfold guard_ok in H4. apply orb_true_iff in H4. destruct H4 as [H4|H4].
    + apply andb_true_iff in H4. destruct H4 as [Hs Hf].
      unfold single_guard in Hs. rewrite GF in Hs. apply Nat.eqb_eq in Hs.
      apply (matches_path_spec m _ _ MWF). exists e. split; [assumption|]. split.
      * rewrite pat_matches_pre. apply andb_true_iff. split.
        -- rewrite pre_matches_snoc. rewrite (Inv Hs e Hall). cbn.
           rewrite (clause_at_nth e _ Hlen). rewrite <- Hname. now apply (hit_cmatch _ _ _ _ _ _ Hck H1 H2).
        -- rewrite H3, app_length. cbn [length]. apply Nat.eqb_eq. lia.
      * unfold fdata. apply orb_true_iff in Hf. destruct Hf as [Hf|Hf].
        -- apply negb_true_iff in Hf. rewrite Hf. destruct (e_flt e); reflexivity.
        -- apply negb_true_iff in Hf. unfold has_filter in Hf. destruct (e_flt e); [discriminate | reflexivity].
    + rewrite Hcp, <- app_assoc in H4. rewrite matches_node_rel in H4. exact H4.
  - destruct (actions_rec_sound _ _ _ _ _ _ _ Ha) as [_ [i [e [H1 [H2 H3]]]]]. cbn in H2.
    assert (Hact : In e (active m (length rx))) by (eapply nth_error_In; eassumption).
    apply (active_spec m _ e MWF) in Hact. destruct Hact as [Hall Hlen].
    rewrite Hcp, <- app_assoc in Hn. apply (IH (rx ++ [k]) n); [|assumption].
    intros Hs e' He'. rewrite (single_entry e' e Hs He' Hall).
    rewrite pre_matches_snoc. rewrite (Inv Hs e Hall). cbn.
    rewrite (clause_at_nth e _ Hlen). rewrite <- Hname. now apply (hit_cmatch _ _ _ _ _ _ Hck H1 H2).
Qed.

Lemma max_clauses_ge : forall e, In e (all_entries m) -> length (e_pat e) <= max_clauses m.
Proof.
  intros e H. apply all_entries_in in H. destruct H as [d [es [H1 H2]]].
  destruct MWF as [_ LEN]. rewrite (LEN d es e H1 H2).
  unfold max_clauses. clear - H1. induction (m_groups m) as [|g gs IH]; [destruct H1|].
  cbn. destruct H1 as [H1|H1]; [subst g; cbn; lia | specialize (IH H1); lia].
Qed.

(* completeness: every node below the start node that the brute-force test accepts is called back on *)
Lemma V_complete : forall fuel rx r n,
  max_clauses m < fuel + length rx ->
  In n t -> n_path n = root ++ rx ++ r -> r <> [] -> bf n = true -> In n (VV fuel (root ++ rx)).
Proof.
  induction fuel as [|f IH]; intros rx r n Hfuel Hnt Hp Hr Hbf.
  - exfalso. unfold bf in Hbf. rewrite Hp, skipn_root in Hbf.
    apply (matches_path_spec m _ _ MWF) in Hbf. destruct Hbf as [e [He [Hpm _]]].
    apply pat_matches_length in Hpm. rewrite app_length in Hpm. apply max_clauses_ge in He.
    destruct r; [now apply Hr | cbn in Hpm; lia].
  - destruct r as [|k r]; [now contradiction Hr|].
    assert (Hbf' := Hbf). unfold bf in Hbf'. rewrite Hp, skipn_root in Hbf'.
    apply (matches_path_spec m _ _ MWF) in Hbf'. destruct Hbf' as [e [He [Hpm Hfl]]].
    assert (Hlen : length (e_pat e) = length rx + S (length r))
      by (apply pat_matches_length in Hpm; rewrite app_length in Hpm; exact Hpm).
    assert (Hact : In e (active m (length rx))) by (apply (active_spec m _ e MWF); split; [assumption | lia]).
    assert (Hpre : pre_matches (e_pat e) (rx ++ k :: r) = true)
      by (rewrite pat_matches_pre in Hpm; apply andb_true_iff in Hpm; tauto).
    destruct (pre_matches_nth _ _ _ _ Hpre) as [cl [Hcl Hcm]].
    assert (Hcl' : cl = clause_at e (length rx)).
    { rewrite (clause_at_nth e (length rx)) in Hcl by lia. now inversion Hcl. }
    subst cl.
    destruct (ancestor_exists t TWF r n (root ++ rx) k Hnt) as [c [Hct Hcp]]; [rewrite Hp, <- app_assoc; reflexivity|].
    destruct (procs_complete (root ++ rx) (length rx) c k e Hct Hcp Hact Hcm) as [kn Hck].
    destruct (In_nth_error _ _ Hact) as [i Hi].
    assert (Hhit : hit c (length rx) kn e (0 + i) = true).
    { unfold hit. apply orb_true_iff. right. rewrite Hcp, last_name_app. exact Hcm. }
    cbn [V]. rewrite app_length. replace (rd + length rx - rd) with (length rx) by lia.
    apply in_flat_map. exists (c, kn). split; [assumption|].
    unfold child_visits. cbn [fst snd]. apply in_flat_map.
    destruct r as [|k' r].
    + (* n is the child itself: the entry is terminal here *)
      assert (n = c).
      { apply (nodup_map_inj _ _ n_path t); [apply TWF | assumption | assumption |].
        rewrite Hp, Hcp, <- app_assoc. reflexivity. }
      subst c. exists ACall. split; [|now left].
      apply (actions_call_complete _ _ _ _ _ _ i e Hi Hhit); [cbn in Hlen; lia|].
      unfold guard_ok. apply orb_true_iff. right.
      rewrite Hcp, <- app_assoc, matches_node_rel.
      unfold bf in Hbf. rewrite Hp, skipn_root in Hbf. exact Hbf.
    + exists ARec. split.
      * apply (actions_rec_complete _ _ _ _ _ _ i e Hi Hhit). cbn in Hlen. lia.
      * rewrite Hcp, <- app_assoc. apply (IH (rx ++ [k]) (k' :: r) n); try assumption.
        -- rewrite app_length. cbn. lia.
        -- rewrite Hp, <- !app_assoc. reflexivity.
        -- discriminate.
Qed.

End Props.

(* ------------------------------------------------------------------ PathMatcher tables built by PutPathString are well formed *)

Section MatcherWf.
Context {M : MatchOps}.

Lemma entries_put_in : forall (es : list entry) (e x : entry), In x (entries_put es e) -> x = e \/ In x es.
Proof.
  induction es as [|y es IH]; intros e x H; cbn in H.
  - destruct H as [H|[]]. now left.
  - destruct (pat_eqb (e_pat y) (e_pat e)).
    + destruct H as [H|H]; [now left | right; now right].
    + destruct H as [H|H]; [right; now left|]. destruct (IH e x H); [now left | right; now right].
Qed.

Lemma groups_put_keys : forall (gs : list group) (d : nat) (e : entry) (k : nat),
  In k (map fst (groups_put gs d e)) <-> k = d \/ In k (map fst gs).
Proof.
  induction gs as [|[k0 es] gs IH]; intros d e k; cbn.
  - intuition.
  - destruct (Nat.eqb k0 d) eqn:E; cbn.
    + apply Nat.eqb_eq in E. subst. intuition.
    + rewrite IH. intuition.
Qed.

Lemma groups_put_wf : forall (gs : list group) (d : nat) (e : entry),
  length (e_pat e) = d ->
  NoDup (map fst gs) -> (forall d' es x, In (d', es) gs -> In x es -> length (e_pat x) = d') ->
  NoDup (map fst (groups_put gs d e)) /\
  (forall d' es x, In (d', es) (groups_put gs d e) -> In x es -> length (e_pat x) = d').
Proof.
  induction gs as [|[k0 es0] gs IH]; intros d e Hl ND LEN; subst d; cbn.
  - split; [constructor; [intros [] | constructor]|].
    intros d' es x [H|[]] Hx. inversion H; subst. destruct Hx as [Hx|[]]. now subst.
  - cbn in ND. inversion ND as [|? ? Hnot ND']; subst.
    destruct (Nat.eqb k0 (length (e_pat e))) eqn:E; cbn.
    + apply Nat.eqb_eq in E. split; [now constructor|].
      intros d' es x [H|H] Hx.
      * inversion H; subst. apply entries_put_in in Hx. destruct Hx as [Hx|Hx]; [now subst|].
        apply (LEN _ es0 x); [now left | assumption].
      * apply (LEN d' es x); [now right | assumption].
    + destruct (IH (length (e_pat e)) e eq_refl ND') as [I1 I2].
      { intros d' es x H Hx. apply (LEN d' es x); [now right | assumption]. }
      split.
      * constructor; [|assumption]. intros Hin. apply groups_put_keys in Hin. destruct Hin as [Hin|Hin].
        -- subst. rewrite Nat.eqb_refl in E. discriminate.
        -- contradiction.
      * intros d' es x [H|H] Hx.
        -- inversion H; subst. apply (LEN d' es x); [now left | assumption].
        -- now apply (I2 d' es x).
Qed.

Lemma m_put_wf : forall (m : matcher) (p : pat) (f : option qfilter), matcher_wf m -> matcher_wf (m_put m p f).
Proof.
  intros m p f [ND LEN]. unfold m_put. destruct p as [|c p]; [now split|].
  unfold matcher_wf. cbn [m_groups].
  apply groups_put_wf; [reflexivity | assumption | assumption].
Qed.

Lemma empty_matcher_wf : matcher_wf empty_matcher.
Proof. split; [constructor | intros d es e []]. Qed.

Lemma m_of_list_wf : forall l : list (pat * option qfilter), matcher_wf (m_of_list l).
Proof.
  intros l. unfold m_of_list.
  assert (G : forall m0, matcher_wf m0 -> matcher_wf (fold_left (fun m pf => m_put m (fst pf) (snd pf)) l m0)).
  { induction l as [|pf l IH]; intros m0 H; cbn; [assumption|]. apply IH. now apply m_put_wf. }
  apply G. apply empty_matcher_wf.
Qed.

End MatcherWf.

(* ------------------------------------------------------------------ the theorem about NodePathMatcher::DoTraversal *)

Section Main.
Context {M : MatchOps}.
Variable okname : name -> Prop.
Hypothesis ckeys_sound : forall (c : clause) (ks : list name) (k : name), okname k -> ckeys c = Some ks -> cmatch c k = true -> In k ks.
Hypothesis ckeys_complete : forall (c : clause) (ks : list name) (k : name), ckeys c = Some ks -> In k ks -> cmatch c k = true.

Lemma visits_V : forall t m root uf gf, visits t m root uf gf = V t m (length root) uf gf (S (max_clauses m)) root.
Proof.
  intros. unfold visits, do_traversal. rewrite trav_continue. cbn [fst].
  rewrite fold_left_cons_rev, app_nil_r. apply rev_involutive.
Qed.

(* what "below the root and accepted by PathMatcher::MatchesPath" means for a node *)
Definition selected (t : tree) (m : matcher) (root : path) (use_filters : bool) (n : node) : Prop :=
  In n t /\ (exists r, r <> [] /\ n_path n = root ++ r) /\
  matches_path m (skipn (length root) (n_path n)) (if use_filters then Some (n_data n) else None) = true.

Theorem traversal_eq_bruteforce_lemma : forall t m root use_filters,
  tree_wf t -> matcher_wf m -> (forall n, In n t -> Forall okname (n_path n)) ->
  NoDup (map n_path (visits t m root use_filters true)) /\
  (forall n, In n (visits t m root use_filters true) <-> selected t m root use_filters n).
Proof.
  intros t m root uf TWF MWF NOK. rewrite visits_V. split.
  - now apply V_nodup.
  - intros n. unfold selected. split.
    + intros H. destruct (V_below t m root uf true _ _ _ H) as [Hn Hb].
      split; [assumption|]. split; [assumption|].
      apply (V_sound ckeys_complete t m root uf true MWF eq_refl (S (max_clauses m)) [] n).
      * intros _ e _. reflexivity.
      * rewrite app_nil_r. exact H.
    + intros [Hn [[r [Hr Hp]] Hbf]].
      assert (X : In n (V t m (length root) uf true (S (max_clauses m)) (root ++ []))).
      { apply (V_complete okname ckeys_sound t m root uf true TWF MWF NOK _ [] r n); try assumption. cbn. lia. }
      rewrite app_nil_r in X. exact X.
Qed.

End Main.
