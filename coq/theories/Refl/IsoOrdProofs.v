(* Refl/IsoOrdProofs.v -- C06 for ordered children (model: Refl/IsoOrd.v): a command of s -- INSERTORDEREDDATA and REORDERDATA
   included, alone or in batches -- leaves every index and name counter outside s's subtree alone (and the rest of the frame
   of Refl/IsoFrame.v holds as before); when s departs no index or counter at or below its directory is left and those of
   the others are kept. *)
From Coq Require Import List NArith ZArith Bool Arith Lia.
From Muscle Require Import Gen.Consts Refl.Base Refl.BaseProofs Refl.Tree Refl.TreeProofs Refl.Matcher Refl.MatcherProofs
     Refl.Traverse Refl.TraverseProofs Refl.TraverseTheorems
     Refl.Session Refl.Server Refl.ServerProofs Refl.IsoModel Refl.IsoBase Refl.IsoFrame Refl.IsoDetach Refl.IsoRun Refl.IsoClean Refl.IsoOrd.
Import ListNotations.

Section OrdTables.
Context {M : MatchOps}.

Notation oserver := (@oserver M).

(* ------------------------------------------------------------------ tables *)

Definition out (dir : path) (p : path) : bool := negb (is_prefix dir p).

Definition idx_out (dir : path) (ix : itbl) : itbl := filter (fun e => out dir (fst e)) ix.
Definition ctr_out (dir : path) (ct : ctbl) : ctbl := filter (fun e => out dir (fst e)) ct.

(* every index / counter sits at session level or below *)
Definition deep {A : Type} (tb : list (path * A)) : Prop := forall e, In e tb -> 2 <= length (fst e).

(* the entries speak of nodes and children that exist *)
Definition isat (t : tree) (ix : itbl) : Prop :=
  forall e, In e ix -> has_node t (fst e) = true /\ snd e <> [] /\ forall k, In k (snd e) -> has_node t (fst e ++ [k]) = true.
Definition csat (t : tree) (ct : ctbl) : Prop := forall e, In e ct -> has_node t (fst e) = true.

Definition ok (os : oserver) : Prop :=
  deep (o_idx os) /\ deep (o_ctr os) /\ isat (sv_tree (xs_sv (o_x os))) (o_idx os) /\ csat (sv_tree (xs_sv (o_x os))) (o_ctr os).

Lemma filter_id : forall (A : Type) (f : A -> bool) l, (forall x, In x l -> f x = true) -> filter f l = l.
Proof.
  intros A f l H. induction l as [|x l IH]; [reflexivity|]. cbn [filter]. rewrite (H x (or_introl eq_refl)). f_equal.
  apply IH. intros y Hy. apply H. now right.
Qed.

Lemma prune_idx_fix : forall t ix, isat t ix -> prune_idx t ix = ix.
Proof.
  intros t ix H. unfold prune_idx.
  rewrite (filter_id _ (fun e => has_node t (fst e)) ix) by (intros e He; apply (H e He)).
  assert (Hm : map (fun e : path * list name => (fst e, filter (fun k => has_node t (fst e ++ [k])) (snd e))) ix = ix).
  { rewrite <- (map_id ix) at 2. apply map_ext_in. intros [p l] He. cbn [fst snd]. f_equal. apply filter_id. intros k Hk.
    exact (proj2 (proj2 (H (p, l) He)) k Hk). }
  rewrite Hm. apply filter_id. intros [p l] He. destruct (H (p, l) He) as [_ [Hn _]]. cbn [snd] in *. destruct l; [congruence|reflexivity].
Qed.

Lemma prune_idx_sat : forall t ix, isat t (prune_idx t ix).
Proof.
  intros t ix e He. unfold prune_idx in He. apply filter_In in He as [He Hne]. apply in_map_iff in He as [[p l] [<- Hin]].
  apply filter_In in Hin as [_ Hp]. cbn [fst snd] in *. split; [exact Hp|]. split.
  - intros E. rewrite E in Hne. discriminate.
  - intros k Hk. apply filter_In in Hk. tauto.
Qed.

Lemma prune_idx_deep : forall t ix, deep ix -> deep (prune_idx t ix).
Proof.
  intros t ix H e He. unfold prune_idx in He. apply filter_In in He as [He _]. apply in_map_iff in He as [[p l] [<- Hin]].
  apply filter_In in Hin as [Hin _]. exact (H (p, l) Hin).
Qed.

Lemma prune_ctr_fix : forall t ct, csat t ct -> prune_ctr t ct = ct.
Proof. intros t ct H. unfold prune_ctr. apply filter_id. exact H. Qed.

Lemma prune_ctr_sat : forall t ct, csat t (prune_ctr t ct).
Proof. intros t ct e He. unfold prune_ctr in He. apply filter_In in He. tauto. Qed.

Lemma prune_ctr_deep : forall t ct, deep ct -> deep (prune_ctr t ct).
Proof. intros t ct H e He. unfold prune_ctr in He. apply filter_In in He as [He _]. now apply H. Qed.

Lemma oprune_ok : forall os, deep (o_idx os) -> deep (o_ctr os) -> ok (oprune os).
Proof.
  intros os H1 H2. unfold ok, oprune. cbn [o_x o_idx o_ctr]. split; [now apply prune_idx_deep|]. split; [now apply prune_ctr_deep|].
  split; [apply prune_idx_sat|apply prune_ctr_sat].
Qed.

Lemma filter_filter_comm : forall (A : Type) (f g : A -> bool) l, filter f (filter g l) = filter g (filter f l).
Proof.
  intros A f g l. induction l as [|n r IH]; [reflexivity|]. cbn [filter].
  destruct (g n) eqn:G, (f n) eqn:F; cbn [filter]; rewrite ?G, ?F; now rewrite IH.
Qed.

(* pruning works entry by entry *)
Lemma idx_out_prune : forall dir t ix, idx_out dir (prune_idx t ix) = prune_idx t (idx_out dir ix).
Proof.
  intros dir t ix. unfold idx_out, prune_idx. rewrite filter_filter_comm. f_equal.
  rewrite (filter_filter_comm _ (fun e => has_node t (fst e)) (fun e => out dir (fst e))).
  generalize (filter (fun e : path * list name => has_node t (fst e)) ix). intros l.
  induction l as [|e l IH]; [reflexivity|]. cbn [map filter fst]. destruct (out dir (fst e)); cbn [map]; now rewrite IH.
Qed.

Lemma ctr_out_prune : forall dir t ct, ctr_out dir (prune_ctr t ct) = prune_ctr t (ctr_out dir ct).
Proof. intros. unfold ctr_out, prune_ctr. apply filter_filter_comm. Qed.

Lemma isat_sub : forall t ix f, isat t ix -> isat t (filter f ix).
Proof. intros t ix f H e He. apply filter_In in He as [He _]. now apply H. Qed.

Lemma csat_sub : forall t ct f, csat t ct -> csat t (filter f ct).
Proof. intros t ct f H e He. apply filter_In in He as [He _]. now apply H. Qed.

Lemma idx_out_set_inside : forall dir ix p l, is_prefix dir p = true -> idx_out dir (idx_set ix p l) = idx_out dir ix.
Proof.
  intros dir ix p l Hp. unfold idx_out, idx_set. rewrite filter_app.
  assert (Hl : filter (fun e : path * list name => out dir (fst e)) (match l with [] => [] | _ => [(p, l)] end) = []).
  { destruct l; [reflexivity|]. cbn [filter fst]. unfold out. now rewrite Hp. }
  rewrite Hl, app_nil_r, filter_filter_comm. apply filter_id. intros e He. apply filter_In in He as [_ Ho].
  apply negb_true_iff. destruct (path_eqb (fst e) p) eqn:E; [|reflexivity]. apply path_eqb_eq in E. unfold out in Ho. rewrite E, Hp in Ho. discriminate.
Qed.

Lemma ctr_out_set_inside : forall dir ct p c, is_prefix dir p = true -> ctr_out dir (ctr_set ct p c) = ctr_out dir ct.
Proof.
  intros dir ct p c Hp. unfold ctr_out, ctr_set. rewrite filter_app.
  assert (Hl : filter (fun e : path * N => out dir (fst e)) (if N.eqb c 0 then [] else [(p, c)]) = []).
  { destruct (N.eqb c 0); [reflexivity|]. cbn [filter fst]. unfold out. now rewrite Hp. }
  rewrite Hl, app_nil_r, filter_filter_comm. apply filter_id. intros e He. apply filter_In in He as [_ Ho].
  apply negb_true_iff. destruct (path_eqb (fst e) p) eqn:E; [|reflexivity]. apply path_eqb_eq in E. unfold out in Ho. rewrite E, Hp in Ho. discriminate.
Qed.

Lemma deep_idx_set : forall ix p l, deep ix -> 2 <= length p -> deep (idx_set ix p l).
Proof.
  intros ix p l H Hp e He. unfold idx_set in He. apply in_app_iff in He as [He|He].
  - apply filter_In in He as [He _]. now apply H.
  - destruct l; [destruct He|]. destruct He as [<-|[]]. exact Hp.
Qed.

Lemma deep_ctr_set : forall ct p c, deep ct -> 2 <= length p -> deep (ctr_set ct p c).
Proof.
  intros ct p c H Hp e He. unfold ctr_set in He. apply in_app_iff in He as [He|He].
  - apply filter_In in He as [He _]. now apply H.
  - destruct (N.eqb c 0); [destruct He|]. destruct He as [<-|[]]. exact Hp.
Qed.

(* ------------------------------------------------------------------ trees that agree outside a directory *)

Definition same_outside (dir : path) (t t' : tree) : Prop := forall q, 2 <= length q -> out dir q = true -> has_node t' q = has_node t q.

Lemma has_node_iff_eq : forall t t' q, (has_node t q = true <-> has_node t' q = true) -> has_node t' q = has_node t q.
Proof.
  intros t t' q H. destruct (has_node t q) eqn:A, (has_node t' q) eqn:B; try reflexivity.
  - exact (proj1 H eq_refl).
  - symmetry. exact (proj2 H eq_refl).
Qed.

Lemma fv_same_outside : forall s dir t t', foreign_view s dir t' = foreign_view s dir t -> same_outside dir t t'.
Proof.
  intros s dir t t' H q _ Hq. apply has_node_iff_eq.
  assert (G : forall a b, foreign_view s dir a = foreign_view s dir b -> has_node a q = true -> has_node b q = true).
  { intros a b Hab Ha. apply has_node_spec in Ha as [n [Hn Hp]].
    assert (Hin : In (strip s n) (foreign_view s dir a)).
    { unfold foreign_view. apply in_map, filter_In. split; [exact Hn|]. unfold outside. rewrite Hp. exact Hq. }
    rewrite Hab in Hin. unfold foreign_view in Hin. apply in_map_iff in Hin as [n' [Hs Hn']]. apply filter_In in Hn' as [Hn' _].
    apply has_node_spec. exists n'. split; [exact Hn'|]. rewrite <- Hp. exact (f_equal n_path Hs). }
  split; [apply G; now symmetry|now apply G].
Qed.

(* below session level, the children of a node outside a session directory are outside it too *)
Lemma out_child : forall dir p k, length dir = 2 -> 2 <= length p -> out dir p = true -> out dir (p ++ [k]) = true.
Proof.
  intros dir p k Hd Hp Ho. unfold out in *. apply negb_true_iff. apply negb_true_iff in Ho.
  destruct (is_prefix dir (p ++ [k])) eqn:E; [|reflexivity]. apply is_prefix_spec in E as [r Hr].
  assert (Hf : firstn 2 (p ++ [k]) = firstn 2 p) by (rewrite firstn_app; replace (2 - length p) with 0 by lia; cbn; apply app_nil_r).
  assert (Hg : firstn 2 (dir ++ r) = dir) by (rewrite firstn_app, <- Hd, Nat.sub_diag, firstn_all; cbn; apply app_nil_r).
  rewrite Hr, Hg in Hf. assert (Hpre : is_prefix dir p = true).
  { apply is_prefix_spec. exists (skipn 2 p). rewrite Hf. symmetry. apply firstn_skipn. }
  congruence.
Qed.

Lemma isat_transfer : forall dir t t' ix, length dir = 2 -> same_outside dir t t' -> deep ix ->
  (forall e, In e ix -> out dir (fst e) = true) -> isat t ix -> isat t' ix.
Proof.
  intros dir t t' ix Hd Hs Hdeep Hout H e He. destruct (H e He) as [H1 [H2 H3]]. split; [|split; [exact H2|]].
  - rewrite (Hs _ (Hdeep e He) (Hout e He)). exact H1.
  - intros k Hk. rewrite (Hs (fst e ++ [k])); [now apply H3|rewrite app_length; cbn; pose proof (Hdeep e He); lia|]. apply out_child; auto.
Qed.

Lemma csat_transfer : forall dir t t' (ct : ctbl), same_outside dir t t' -> deep ct ->
  (forall e, In e ct -> out dir (fst e) = true) -> csat t ct -> csat t' ct.
Proof. intros dir t t' ct Hs Hd Hout H e He. rewrite (Hs _ (Hd e He) (Hout e He)). now apply H. Qed.

(* the heart of the frame for tables: the new tables agree with the old ones outside, the trees agree outside *)
Lemma prune_frame : forall dir (os : oserver) x' ix' ct', length dir = 2 -> ok os ->
  same_outside dir (sv_tree (xs_sv (o_x os))) (sv_tree (xs_sv x')) ->
  idx_out dir ix' = idx_out dir (o_idx os) -> ctr_out dir ct' = ctr_out dir (o_ctr os) ->
  deep ix' -> deep ct' ->
  let os' := oprune (mkO x' ix' ct') in
  idx_out dir (o_idx os') = idx_out dir (o_idx os) /\ ctr_out dir (o_ctr os') = ctr_out dir (o_ctr os) /\ ok os'.
Proof.
  intros dir os x' ix' ct' Hd [D1 [D2 [S1 S2]]] Hs Hi Hc D1' D2' os'. unfold os', oprune. cbn [o_x o_idx o_ctr]. split; [|split].
  - rewrite idx_out_prune, Hi. apply prune_idx_fix.
    apply (isat_transfer dir (sv_tree (xs_sv (o_x os)))); auto.
    + intros e He. apply filter_In in He as [He _]. now apply D1.
    + intros e He. apply filter_In in He. tauto.
    + now apply isat_sub.
  - rewrite ctr_out_prune, Hc. apply prune_ctr_fix.
    apply (csat_transfer dir (sv_tree (xs_sv (o_x os)))); auto.
    + intros e He. apply filter_In in He as [He _]. now apply D2.
    + intros e He. apply filter_In in He. tauto.
    + now apply csat_sub.
  - now apply (oprune_ok (mkO x' ix' ct')).
Qed.

(* ------------------------------------------------------------------ the traversals stay below the session directory *)

Lemma visits_below : forall t m root uf gf n, In n (visits t m root uf gf) -> exists r, r <> [] /\ n_path n = root ++ r.
Proof. intros t m root uf gf n H. rewrite visits_V in H. apply V_below in H. tauto. Qed.

Lemma below_inside : forall dir r, is_prefix dir (dir ++ r) = true.
Proof. intros. apply is_prefix_spec. now exists r. Qed.

Lemma removelast_app_ne : forall (A : Type) (a r : list A), r <> [] -> removelast (a ++ r) = a ++ removelast r.
Proof. intros. now apply removelast_app. Qed.

Lemma fold_idx_inside : forall (A : Type) dir (f : itbl -> A -> itbl) (l : list A) ix,
  (forall ix a, In a l -> idx_out dir (f ix a) = idx_out dir ix /\ (deep ix -> deep (f ix a))) ->
  idx_out dir (fold_left f l ix) = idx_out dir ix /\ (deep ix -> deep (fold_left f l ix)).
Proof.
  intros A dir f l. induction l as [|a l IH]; intros ix H; cbn [fold_left]; [now split|].
  destruct (H ix a (or_introl eq_refl)) as [H1 H2].
  destruct (IH (f ix a)) as [I1 I2]; [intros ix0 a0 Ha0; apply H; now right|]. split; [congruence|auto].
Qed.

Lemma fold_ctr_inside : forall (A : Type) dir (f : ctbl -> A -> ctbl) (l : list A) ct,
  (forall ct a, In a l -> ctr_out dir (f ct a) = ctr_out dir ct /\ (deep ct -> deep (f ct a))) ->
  ctr_out dir (fold_left f l ct) = ctr_out dir ct /\ (deep ct -> deep (fold_left f l ct)).
Proof.
  intros A dir f l. induction l as [|a l IH]; intros ct H; cbn [fold_left]; [now split|].
  destruct (H ct a (or_introl eq_refl)) as [H1 H2].
  destruct (IH (f ct a)) as [I1 I2]; [intros ct0 a0 Ha0; apply H; now right|]. split; [congruence|auto].
Qed.

End OrdTables.

(* ------------------------------------------------------------------ FRAME *)

Section OrdProofs.
Context {M : MatchOps}.
Variable fx : fixes.
Variable iname : N -> name.

Notation oserver := (@oserver M).

Definition oframe (s : sid) (dir : path) (os os' : oserver) : Prop :=
  xframe s dir (o_x os) (o_x os') /\
  idx_out dir (o_idx os') = idx_out dir (o_idx os) /\ ctr_out dir (o_ctr os') = ctr_out dir (o_ctr os) /\ ok os'.

Lemma frame_same_outside : forall s dir sv sv', frame s dir sv sv' -> same_outside dir (sv_tree sv) (sv_tree sv').
Proof. intros s dir sv sv' [H _]. now apply (fv_same_outside s). Qed.

Lemma ocmd_ind' : forall (P : ocmd -> Prop),
  (forall c, P (OX c)) -> (forall k i, P (OInsert k i)) -> (forall f, P (OReorder f)) -> (forall fl i, P (OSetIdx fl i)) ->
  (forall l, Forall P l -> P (OBatch l)) -> forall c, P c.
Proof.
  intros P H1 H2 H3 H5 H4.
  refine (fix IH (c : ocmd) : P c :=
            match c with
            | OX c => H1 c | OInsert k i => H2 k i | OReorder f => H3 f | OSetIdx fl i => H5 fl i
            | OBatch l => H4 l ((fix go (l : list ocmd) : Forall P l :=
                                   match l with [] => Forall_nil P | c' :: r => Forall_cons c' (IH c') (go r) end) l)
            end).
Qed.

Lemma idents_get_none : forall sv sv' s, idents sv' = idents sv -> get_session sv' s = None -> get_session sv s = None.
Proof.
  intros sv sv' s. unfold idents, get_session. generalize (sv_sessions sv) (sv_sessions sv').
  induction l as [|x l IH]; intros [|y l'] H Hn; cbn in *; try discriminate; [reflexivity|].
  assert (Hid : s_id y = s_id x) by exact (f_equal (fun c : sid * name * name => fst (fst c)) (f_equal (hd (sident x)) H)).
  assert (Hl : map sident l' = map sident l) by exact (f_equal (@tl _) H).
  rewrite Hid in Hn. destruct (N.eqb (s_id x) s); [discriminate|]. now apply (IH l').
Qed.

Lemma session_dir_len : forall ss : session, length (session_dir ss) = 2.
Proof. reflexivity. Qed.

Lemma visit_paths_below : forall t ss key p, In p (visit_paths fx t ss key) -> exists r, r <> [] /\ p = session_dir ss ++ r.
Proof.
  intros t ss key p H. unfold visit_paths in H. apply in_map_iff in H as [n [<- Hn]]. now apply visits_below in Hn.
Qed.

Lemma do_insert_tables : forall (os : oserver) ss key items (t' : tree),
  let dir := session_dir ss in
  let t := sv_tree (xs_sv (o_x os)) in
  let plans : list plan := map (fun p => (p, plan_names iname t p (ctr_get (o_ctr os) p) items)) (visit_paths fx t ss key) in
  let idx' := fold_left (fun ix (pl : plan) =>
                           idx_set ix (fst pl)
                             (fold_left (fun l (e : name * option name * payload) =>
                                           if has_node t' (fst pl ++ [fst (fst e)]) then idx_insert l (snd (fst e)) (fst (fst e)) else l)
                                        (snd (snd pl)) (idx_get ix (fst pl)))) plans (o_idx os) in
  let ctr' := fold_left (fun ct (pl : plan) => ctr_set ct (fst pl) (fst (snd pl))) plans (o_ctr os) in
  (idx_out dir idx' = idx_out dir (o_idx os) /\ (deep (o_idx os) -> deep idx')) /\
  (ctr_out dir ctr' = ctr_out dir (o_ctr os) /\ (deep (o_ctr os) -> deep ctr')).
Proof.
  intros os ss key items t' dir t plans idx' ctr'.
  assert (Hpl : forall pl, In pl plans -> is_prefix dir (fst pl) = true /\ 2 <= length (fst pl)).
  { intros pl Hpl. unfold plans in Hpl. apply in_map_iff in Hpl as [p [<- Hp]]. cbn [fst].
    apply visit_paths_below in Hp as [r [Hr ->]]. split; [apply below_inside|]. rewrite app_length. unfold dir. rewrite session_dir_len. lia. }
  split.
  - apply fold_idx_inside. intros ix a Ha. destruct (Hpl a Ha) as [P1 P2]. split; [now apply idx_out_set_inside|intros; now apply deep_idx_set].
  - apply fold_ctr_inside. intros ct a Ha. destruct (Hpl a Ha) as [P1 P2]. split; [now apply ctr_out_set_inside|intros; now apply deep_ctr_set].
Qed.

Lemma do_insert_frame : forall nest os ss key items, get_session (xs_sv (o_x os)) (s_id ss) = Some ss -> ok os ->
  oframe (s_id ss) (session_dir ss) os (do_insert fx iname nest os ss key items).
Proof.
  intros nest os ss key items Hs Hok. unfold do_insert. cbv zeta.
  match goal with |- oframe _ _ _ (oprune (mkO ?X ?I ?C)) => set (x' := X) end.
  destruct (do_insert_tables os ss key items (sv_tree (xs_sv x'))) as [[I1 I2] [C1 C2]]. cbv zeta in I1, I2, C1, C2.
  assert (Fx : xframe (s_id ss) (session_dir ss) (o_x os) x') by (apply xhandle_xframe; exact Hs).
  pose proof Hok as [D1 [D2 [S1 S2]]].
  assert (Hso : same_outside (session_dir ss) (sv_tree (xs_sv (o_x os))) (sv_tree (xs_sv x'))) by (apply (frame_same_outside (s_id ss)); exact (proj1 Fx)).
  destruct (prune_frame (session_dir ss) os x' _ _ (session_dir_len ss) Hok Hso I1 C1 (I2 D1) (C2 D2)) as [A1 [A2 A3]].
  split; [exact Fx|]. split; [exact A1|]. split; [exact A2|exact A3].
Qed.

Lemma reorder_at_inside : forall t b ss key p ix, In p (visit_paths fx t ss key) ->
  idx_out (session_dir ss) (reorder_at t b ix p) = idx_out (session_dir ss) ix /\ (deep ix -> deep (reorder_at t b ix p)).
Proof.
  intros t b ss key p ix Hp. apply visit_paths_below in Hp as [r [Hr ->]]. unfold reorder_at. cbv zeta.
  rewrite removelast_app_ne by exact Hr. split; [apply idx_out_set_inside, below_inside|].
  intros; apply deep_idx_set; [assumption|]. rewrite app_length, session_dir_len. lia.
Qed.

Lemma do_reorder_tables : forall (os : oserver) ss fields,
  let t := sv_tree (xs_sv (o_x os)) in
  let idx' := fold_left (fun ix (f : spath * option name) => fold_left (reorder_at t (snd f)) (visit_paths fx t ss (fst f, None)) ix)
                        fields (o_idx os) in
  idx_out (session_dir ss) idx' = idx_out (session_dir ss) (o_idx os) /\ (deep (o_idx os) -> deep idx').
Proof.
  intros os ss fields t idx'. apply fold_idx_inside. intros ix f _. apply fold_idx_inside. intros ix0 p Hp. now apply (reorder_at_inside t (snd f) ss (fst f, None)).
Qed.

Lemma do_reorder_frame : forall os ss fields, get_session (xs_sv (o_x os)) (s_id ss) = Some ss -> ok os ->
  oframe (s_id ss) (session_dir ss) os (do_reorder fx os ss fields).
Proof.
  intros os ss fields Hs Hok. unfold do_reorder. cbv zeta.
  destruct (do_reorder_tables os ss fields) as [I1 I2]. cbv zeta in I1, I2.
  pose proof Hok as [D1 [D2 [S1 S2]]].
  assert (Hso : same_outside (session_dir ss) (sv_tree (xs_sv (o_x os))) (sv_tree (xs_sv (o_x os)))) by (intros q _ _; reflexivity).
  destruct (prune_frame (session_dir ss) os (o_x os) _ (o_ctr os) (session_dir_len ss) Hok Hso I1 eq_refl (I2 D1) D2) as [A1 [A2 A3]].
  split; [apply xframe_refl|]. split; [exact A1|]. split; [exact A2|exact A3].
Qed.

(* SETDATA with ADDTOINDEX: item by item *)
Definition item_inv (s : sid) (dir : path) (os0 os : oserver) : Prop :=
  xframe s dir (o_x os0) (o_x os) /\ idx_out dir (o_idx os) = idx_out dir (o_idx os0) /\ o_ctr os = o_ctr os0 /\
  (deep (o_idx os0) -> deep (o_idx os)) /\
  exists ss', get_session (xs_sv (o_x os)) s = Some ss' /\ session_dir ss' = dir.

Lemma set_idx_item_inv : forall nest ss flags os0 os it,
  item_inv (s_id ss) (session_dir ss) os0 os -> item_inv (s_id ss) (session_dir ss) os0 (set_idx_item fx nest ss flags os it).
Proof.
  intros nest ss flags os0 os it [Fx [HI [HC [HD [ss' [Hs' Hd']]]]]]. unfold set_idx_item. cbv zeta.
  match goal with |- item_inv _ _ _ (mkO ?X _ _) => set (x' := X) end.
  pose proof (xhandle_xframe fx (XSetData (N.setbit flags c_SETDATANODE_FLAG_DONTOVERWRITEDATA) [it]) nest (o_x os) (s_id ss) ss' Hs') as F1.
  rewrite Hd' in F1. fold x' in F1.
  split; [eapply xframe_trans; eassumption|]. cbn [o_idx o_ctr o_x].
  assert (Hin : is_prefix (session_dir ss) (session_dir ss ++ removelast (snd (fst it))) = true) by apply below_inside.
  assert (Hlen : 2 <= length (session_dir ss ++ removelast (snd (fst it)))) by (rewrite app_length, session_dir_len; lia).
  split; [|split; [exact HC|split]].
  - destruct (_ && has_node _ _); [|exact HI]. now rewrite idx_out_set_inside.
  - intros D. destruct (_ && has_node _ _); [|now apply HD]. apply deep_idx_set; [now apply HD|exact Hlen].
  - pose proof (proj2 (proj2 (proj1 F1))) as Hid.
    destruct (get_session (xs_sv x') (s_id ss)) as [ss2|] eqn:Hs2.
    + exists ss2. split; [reflexivity|]. destruct (idents_session_dir _ _ (s_id ss) ss' ss2 Hid Hs' Hs2) as [_ H2]. congruence.
    + pose proof (idents_get_none _ _ (s_id ss) Hid Hs2). congruence.
Qed.

Lemma do_set_idx_frame : forall nest os ss flags items, get_session (xs_sv (o_x os)) (s_id ss) = Some ss -> ok os ->
  oframe (s_id ss) (session_dir ss) os (do_set_idx fx nest os ss flags items).
Proof.
  intros nest os ss flags items Hs Hok. unfold do_set_idx.
  assert (G : item_inv (s_id ss) (session_dir ss) os (fold_left (set_idx_item fx nest ss flags) items os)).
  { assert (G0 : item_inv (s_id ss) (session_dir ss) os os).
    { split; [apply xframe_refl|]. split; [reflexivity|]. split; [reflexivity|]. split; [auto|]. now exists ss. }
    revert G0. generalize os at 2 4. induction items as [|it items IH]; intros os1 G1; cbn [fold_left]; [exact G1|].
    apply IH. now apply set_idx_item_inv. }
  destruct G as [Fx [HI [HC [HD _]]]]. set (os1 := fold_left (set_idx_item fx nest ss flags) items os) in *.
  pose proof Hok as [D1 [D2 [S1 S2]]].
  assert (Hso : same_outside (session_dir ss) (sv_tree (xs_sv (o_x os))) (sv_tree (xs_sv (o_x os1)))) by (apply (frame_same_outside (s_id ss)); exact (proj1 Fx)).
  assert (HC' : ctr_out (session_dir ss) (o_ctr os1) = ctr_out (session_dir ss) (o_ctr os)) by now rewrite HC.
  assert (D2' : deep (o_ctr os1)) by now rewrite HC.
  destruct (prune_frame (session_dir ss) os (o_x os1) (o_idx os1) (o_ctr os1) (session_dir_len ss) Hok Hso HI HC' (HD D1) D2') as [A1 [A2 A3]].
  replace (mkO (o_x os1) (o_idx os1) (o_ctr os1)) with os1 in * by (destruct os1; reflexivity).
  split; [exact Fx|]. split; [exact A1|]. split; [exact A2|exact A3].
Qed.

Lemma oframe_trans : forall s dir a b c, oframe s dir a b -> oframe s dir b c -> oframe s dir a c.
Proof.
  intros s dir a b c [X1 [I1 [C1 _]]] [X2 [I2 [C2 K2]]]. split; [eapply xframe_trans; eassumption|]. split; [congruence|]. split; [congruence|exact K2].
Qed.

Lemma oframe_refl : forall s dir os, ok os -> oframe s dir os os.
Proof. intros s dir os H. split; [apply xframe_refl|]. split; [reflexivity|]. split; [reflexivity|exact H]. Qed.

Lemma opush_frame : forall s dir os, ok os -> oframe s dir os (opush os).
Proof.
  intros s dir os [D1 [D2 [S1 S2]]]. unfold opush. split; [apply xframe_with_sv, same_state_frame, push_all_same|].
  cbn [o_idx o_ctr o_x]. split; [reflexivity|]. split; [reflexivity|]. unfold ok. cbn [o_idx o_ctr o_x xs_sv with_sv].
  rewrite (proj1 (push_all_same (xs_sv (o_x os)))). split; [exact D1|]. split; [exact D2|]. split; [exact S1|exact S2].
Qed.

(* FRAME for ordered children: whatever command s sends -- INSERTORDEREDDATA, REORDERDATA, anything of Refl/IsoModel.v, in
   batches or alone -- the frame of Refl/IsoFrame.v holds for the dispatcher part, and every ordered index and every name
   counter of a node outside s's subtree is what it was *)
Theorem ohandle_frame : forall c nest os s ss, get_session (xs_sv (o_x os)) s = Some ss -> ok os ->
  oframe s (session_dir ss) os (ohandle fx iname nest os s c).
Proof.
  induction c as [xc|k i|f|fl i|l IHl] using ocmd_ind'; intros nest os s ss Hs Hok; pose proof (get_session_id _ _ _ Hs) as Hid.
  - assert (G : forall nest', oframe s (session_dir ss) os (oprune (mkO (xhandle fx nest' (o_x os) s xc) (o_idx os) (o_ctr os)))).
    { intros nest'. pose proof (xhandle_xframe fx xc nest' (o_x os) s ss Hs) as Fx.
      assert (Hso : same_outside (session_dir ss) (sv_tree (xs_sv (o_x os))) (sv_tree (xs_sv (xhandle fx nest' (o_x os) s xc))))
        by (apply (frame_same_outside s); exact (proj1 Fx)).
      destruct (prune_frame (session_dir ss) os (xhandle fx nest' (o_x os) s xc) (o_idx os) (o_ctr os) (session_dir_len ss) Hok Hso eq_refl eq_refl
                            (proj1 Hok) (proj1 (proj2 Hok))) as [A1 [A2 A3]].
      split; [exact Fx|]. split; [exact A1|]. split; [exact A2|exact A3]. }
    destruct nest; cbn [ohandle]; rewrite Hs; apply G.
  - subst s. destruct nest; cbn [ohandle]; rewrite Hs; now apply do_insert_frame.
  - subst s. destruct nest; cbn [ohandle]; rewrite Hs; now apply do_reorder_frame.
  - subst s. destruct nest; cbn [ohandle]; rewrite Hs; now apply do_set_idx_frame.
  - assert (G : forall nest' os', ok os' ->
              forall ss', get_session (xs_sv (o_x os')) s = Some ss' -> session_dir ss' = session_dir ss ->
              oframe s (session_dir ss) os'
                ((fix go (l0 : list ocmd) (os0 : oserver) : oserver :=
                    match l0 with
                    | [] => os0
                    | c' :: r => go r (opush (ohandle fx iname (S nest') os0 s c'))
                    end) l os')).
    { intros nest'. clear Hs Hok. induction IHl as [|c l Hc _ IHl']; intros os' Hok' ss' Hs' Hd'; [now apply oframe_refl|].
      pose proof (Hc (S nest') os' s ss' Hs' Hok') as F1. rewrite Hd' in F1.
      pose proof (opush_frame s (session_dir ss) _ (proj2 (proj2 (proj2 F1)))) as F2.
      pose proof (oframe_trans _ _ _ _ _ F1 F2) as F12.
      (* s is still a session, in the same directory *)
      assert (Hid' : idents (xs_sv (o_x (opush (ohandle fx iname (S nest') os' s c)))) = idents (xs_sv (o_x os')))
        by exact (proj2 (proj2 (proj1 (proj1 F12)))).
      destruct (get_session (xs_sv (o_x (opush (ohandle fx iname (S nest') os' s c)))) s) as [ss2|] eqn:Hs2.
      - destruct (idents_session_dir _ _ s ss' ss2 Hid' Hs' Hs2) as [_ Hd2].
        eapply oframe_trans; [exact F12|]. apply (IHl' _ (proj2 (proj2 (proj2 F12))) ss2 Hs2). congruence.
      - exfalso. pose proof (idents_get_none _ _ s Hid' Hs2) as Hn. congruence. }
    destruct nest as [|nest]; cbn [ohandle]; rewrite Hs; (destruct (Nat.ltb _ _); [apply (G _ os Hok ss Hs eq_refl)|now apply oframe_refl]).
Qed.

(* ------------------------------------------------------------------ reachable states *)

Lemma ok_empty : ok (empty_oserver).
Proof. split; [intros x []|]. split; [intros x []|]. split; intros x []. Qed.

Lemma ohandle_ok : forall c nest os s, ok os -> ok (ohandle fx iname nest os s c).
Proof.
  intros c nest os s Hok. destruct (get_session (xs_sv (o_x os)) s) as [ss|] eqn:Hs.
  - exact (proj2 (proj2 (proj2 (ohandle_frame c nest os s ss Hs Hok)))).
  - destruct c, nest; cbn [ohandle]; rewrite Hs; exact Hok.
Qed.

Lemma ostep_ok : forall os ev, ok os -> ok (ostep fx iname os ev).
Proof.
  intros os [s host nm bits|s|s c] Hok; cbn [ostep].
  - apply (oprune_ok (mkO _ _ _)); apply Hok.
  - apply (oprune_ok (mkO _ _ _)); apply Hok.
  - destruct (get_session (xs_sv (o_x os)) s); [|exact Hok]. cbv zeta.
    pose proof (ohandle_ok c 0 os s Hok) as H1. apply (oprune_ok (mkO _ _ _)); cbn [o_idx o_ctr opush]; apply H1.
Qed.

Theorem orun_ok : forall evs os, ok os -> ok (orun fx iname evs os).
Proof. induction evs as [|ev evs IH]; intros os H; cbn; [exact H|]. apply IH. now apply ostep_ok. Qed.

(* FRAME, one whole turn (command, update push, removal of kicked sessions, pruning) of an unprivileged session *)
Lemma oprune_id : forall os, ok os -> oprune os = os.
Proof.
  intros [x ix ct] [_ [_ [S1 S2]]]. unfold oprune. cbn [o_x o_idx o_ctr] in *. f_equal; [now apply prune_idx_fix|now apply prune_ctr_fix].
Qed.

Theorem ostep_frame : forall os s c ss, get_session (xs_sv (o_x os)) s = Some ss -> ok os ->
  unprivileged (o_x os) s -> xs_ducks (o_x os) = [] ->
  oframe s (session_dir ss) os (ostep fx iname os (OCmd s c)).
Proof.
  intros os s c ss Hs Hok Hu Hd. cbn [ostep]. rewrite Hs. cbv zeta.
  pose proof (ohandle_frame c 0 os s ss Hs Hok) as F1.
  pose proof (opush_frame s (session_dir ss) _ (proj2 (proj2 (proj2 F1)))) as F2.
  pose proof (oframe_trans _ _ _ _ _ F1 F2) as F12.
  destruct (proj2 (proj2 (proj1 F12)) Hu) as [_ Hd1].
  rewrite clear_ducks_nil by congruence.
  set (os1 := opush (ohandle fx iname 0 os s c)) in *.
  replace (mkO (o_x os1) (o_idx os1) (o_ctr os1)) with os1 by (destruct os1; reflexivity).
  rewrite oprune_id by exact (proj2 (proj2 (proj2 F12))). exact F12.
Qed.

End OrdProofs.

(* ------------------------------------------------------------------ DETACH *)

Section OrdDetach.
Context {M : MatchOps} {L : MatchLaws M}.
Variable fx : fixes.
Hypothesis guard_on : fx_guard fx = true.
Variable iname : N -> name.

(* when s's connection ends: the dispatcher part is left clean (Refl/IsoClean.v), no ordered index and no name counter at or
   below s's directory is left, and those of all nodes outside it are what they were *)
Theorem odetach_clean : forall B (os : @oserver M) s ss, small B -> inv B (xs_sv (o_x os)) -> xs_ducks (o_x os) = [] ->
  get_session (xs_sv (o_x os)) s = Some ss -> ok os ->
  let os' := ostep fx iname os (ODetach s) in
  left_clean (o_x os) s ss (o_x os') /\
  (forall e, In e (o_idx os') -> is_prefix (session_dir ss) (fst e) = false) /\
  (forall e, In e (o_ctr os') -> is_prefix (session_dir ss) (fst e) = false) /\
  idx_out (session_dir ss) (o_idx os') = idx_out (session_dir ss) (o_idx os) /\
  ctr_out (session_dir ss) (o_ctr os') = ctr_out (session_dir ss) (o_ctr os) /\ ok os'.
Proof.
  intros B os s ss HB I Hd Hs Hok os'.
  pose proof (xdetach_clean fx guard_on B (o_x os) s ss HB I Hd Hs) as C.
  assert (Hso : same_outside (session_dir ss) (sv_tree (xs_sv (o_x os))) (sv_tree (xs_sv (xdetach fx (o_x os) s)))).
  { intros q Hq Ho. apply has_node_iff_eq. split; intros H; apply has_node_spec in H as [n [Hn Hp]].
    - rewrite <- Hp. apply (lc_kept _ _ _ _ C n Hn).
      + unfold out in Ho. apply negb_true_iff in Ho. now rewrite Hp.
      + rewrite Hp. intros E. rewrite E in Hq. cbn in Hq. lia.
    - destruct (lc_rest _ _ _ _ C n Hn) as [n0 [Hn0 [Hp0 _]]]. apply has_node_spec. exists n0. split; [exact Hn0|congruence]. }
  destruct (prune_frame (session_dir ss) os (xdetach fx (o_x os) s) (o_idx os) (o_ctr os) eq_refl Hok Hso eq_refl eq_refl
                        (proj1 Hok) (proj1 (proj2 Hok))) as [A1 [A2 A3]].
  fold os' in A1, A2, A3. split; [exact C|]. split; [|split; [|split; [exact A1|split; [exact A2|exact A3]]]].
  - intros e He. destruct (proj1 (proj2 (proj2 A3)) e He) as [Hn _]. apply has_node_spec in Hn as [n [Hn Hp]].
    rewrite <- Hp. exact (lc_subtree _ _ _ _ C n Hn).
  - intros e He. pose proof (proj2 (proj2 (proj2 A3)) e He) as Hn. apply has_node_spec in Hn as [n [Hn Hp]].
    rewrite <- Hp. exact (lc_subtree _ _ _ _ C n Hn).
Qed.

End OrdDetach.
