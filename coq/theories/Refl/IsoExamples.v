(* Refl/IsoExamples.v -- C06: a small concrete instance of the external matching code and a few concrete states, used by the
   non-vacuity Examples (the premises of the theorems are satisfiable by non-trivial states). *)
From Coq Require Import List NArith ZArith Bool Arith.
From Muscle Require Import Gen.Consts Refl.Base Refl.BaseProofs Refl.Tree Refl.Matcher Refl.Traverse Refl.Session Refl.Server Refl.IsoModel Refl.IsoOrd.
Import ListNotations.

(* clauses: "*" or one literal name; filters: none that reject *)
Definition ex_clause_eqb (a b : option N) : bool :=
  match a, b with None, None => true | Some x, Some y => N.eqb x y | _, _ => false end.

#[export] Instance ExOps : MatchOps := {
  clause := option N;
  clause_eqb := ex_clause_eqb;
  cmatch := fun c k => match c with None => true | Some x => N.eqb x k end;
  ckeys := fun c => match c with None => None | Some x => Some [x] end;
  cstar := None;
  qfilter := unit;
  fmatch := fun _ _ => true
}.

(* host 1; sessions 10, 11 (unprivileged) and 12 (may kick); 11 owns two nodes, 10 subscribes to everything at user level *)
Definition ex_history : list xevent :=
  [ XAttach 10%N 1%N 10%N 0%N; XAttach 11%N 1%N 11%N 0%N; XAttach 12%N 1%N 12%N 1%N;
    XCmd 10%N (XBase (CSubscribe false [(Rel [None], None); (Rel [Some 7%N], None)]));
    XCmd 11%N (XSetData 0%N [((false, [7%N]), 5%N); ((false, [8%N; 9%N]), 6%N)]) ].

Definition ex_state (fx : fixes) : xserver := xrun fx ex_history empty_xserver.

(* the same without any kick privilege: 12 lives on another host and may edit bans; 11 also tries to kick and to write elsewhere *)
Definition ex_history2 : list xevent :=
  [ XAttach 10%N 1%N 10%N 0%N; XAttach 11%N 1%N 11%N 0%N; XAttach 12%N 2%N 12%N 6%N;
    XCmd 10%N (XBase (CSubscribe false [(Rel [None], None); (Rel [Some 7%N], None)]));
    XCmd 11%N (XSetData 0%N [((false, [7%N]), 5%N); ((false, [8%N; 9%N]), 6%N); ((true, [1%N; 10%N; 7%N]), 9%N)]);
    XCmd 11%N (XCode c_PR_COMMAND_KICK [(Abs [None; None], None)]);
    XCmd 12%N (XBase (CSubscribe false [(Abs [None; None; None], None)])) ].

(* 12 (on another host) holds PR_PRIVILEGE_KICK: it kicks 11, whose later command goes nowhere, and then everybody on host 1 *)
Definition ex_history3 : list xevent :=
  [ XAttach 10%N 1%N 10%N 0%N; XAttach 11%N 1%N 11%N 0%N; XAttach 12%N 2%N 12%N 1%N;
    XCmd 10%N (XBase (CSubscribe false [(Rel [None], None); (Rel [Some 7%N], None)]));
    XCmd 11%N (XSetData 0%N [((false, [7%N]), 5%N); ((false, [8%N; 9%N]), 6%N); ((true, [1%N; 10%N; 7%N]), 9%N)]);
    XCmd 12%N (XBatch [XCode c_PR_COMMAND_KICK [(Abs [None; Some 11%N], None)]; XBase (CSubscribe false [(Abs [None; None; None], None)])]);
    XCmd 11%N (XSetData 0%N [((false, [7%N]), 6%N)]);
    XCmd 12%N (XCode c_PR_COMMAND_KICK [(Abs [Some 1%N; None], None)]) ].

(* the example instance satisfies the laws the theorems assume of the matching code *)
#[export] Instance ExLaws : MatchLaws ExOps.
Proof.
  constructor.
  - intros [a|] [b|]; cbn; split; intros H; try discriminate; try reflexivity.
    + apply N.eqb_eq in H. now subst.
    + inversion H. apply N.eqb_refl.
  - reflexivity.
  - intros [x|] ks H k; cbn in *; [|discriminate]. inversion H; subst. cbn. rewrite N.eqb_eq. split; [intros ->; now left|intros [E|[]]; now subst].
Qed.

(* ordered children: 11 inserts two generated children under its node 7 (names "I<n>" = 1000 + n), moves the second before
   the first; 10 aims the same commands at 11's node; a third child is inserted and one removed *)
Definition ex_iname (n : N) : name := (1000 + n)%N.
Definition ex_ohistory : list oevent :=
  [ OAttach 10%N 1%N 10%N 0%N; OAttach 11%N 1%N 11%N 0%N;
    OCmd 11%N (OX (XSetData 0%N [((false, [7%N]), 5%N)]));
    OCmd 10%N (OX (XBase (CSubscribe false [(Abs [None; None; None; None], None)])));
    OCmd 11%N (OInsert (Rel [Some 7%N], None) [(Some 99%N, 1%N); (Some 99%N, 2%N)]);
    OCmd 11%N (OReorder [(Rel [Some 7%N; Some 1001%N], Some 1000%N)]);
    OCmd 10%N (OBatch [OInsert (Abs [Some 1%N; Some 11%N; Some 7%N], None) [(Some 99%N, 9%N)];
                       OReorder [(Abs [None; None; None; None], None); (Rel [Some 7%N; None], None)]]);
    OCmd 11%N (OInsert (Rel [None], None) [(Some 1001%N, 3%N)]);
    OCmd 11%N (OX (XRemoveData false [(Rel [Some 7%N; Some 1000%N], None)])) ].

(* both sessions use ordered children: 10 under its node 7, 11 under its own node 7 and -- in vain -- under 10's *)
Definition ex_ohistory2 : list oevent :=
  [ OAttach 10%N 1%N 10%N 0%N; OAttach 11%N 1%N 11%N 0%N;
    OCmd 10%N (OX (XSetData 0%N [((false, [7%N]), 5%N)]));
    OCmd 11%N (OX (XSetData 0%N [((false, [7%N]), 6%N)]));
    OCmd 11%N (OInsert (Rel [Some 7%N], None) [(Some 99%N, 1%N)]);
    OCmd 10%N (OInsert (Rel [Some 7%N], None) [(Some 99%N, 1%N); (Some 1000%N, 2%N)]);
    OCmd 11%N (OInsert (Abs [Some 1%N; Some 10%N; Some 7%N], None) [(Some 99%N, 9%N)]);
    OCmd 11%N (OReorder [(Abs [None; None; None; None], None); (Rel [None; None], Some 77%N)]);
    OCmd 11%N (OBatch [OReorder [(Abs [Some 1%N; Some 10%N; Some 7%N; None], None)]; OX (XRemoveData false [(Abs [None; None; None], None)])]) ].

(* 10 is subscribed to everything at depth 4; 11 then creates the node 7/8 by SETDATA with QUIET|ADDTOINDEX (PR_NAME_FLAGS = 12) *)
Definition ex_ohistory3 : list oevent :=
  [ OAttach 10%N 1%N 10%N 0%N; OAttach 11%N 1%N 11%N 0%N;
    OCmd 10%N (OX (XBase (CSubscribe false [(Abs [None; None; None; None], None)])));
    OCmd 11%N (OX (XSetData 0%N [((false, [7%N]), 5%N)]));
    OCmd 11%N (OSetIdx 12%N [((false, [7%N; 8%N]), 1%N); ((false, [7%N]), 9%N)]) ].
