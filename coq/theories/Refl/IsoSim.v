(* Refl/IsoSim.v -- C06, as-if-never: the simulation between the "full" run F (session s takes part) and the "erased" run E
   (s's events removed).  [rel s F E]: E's tree body is F's tree body without s's subtree and marks (Refl/IsoSimBase.v), and
   E's sessions are F's sessions other than s, with the same identity, subscriptions and limits.  Every command of another
   session, executed on both sides, keeps the relation. *)
From Coq Require Import List NArith ZArith Bool Arith Lia.
From Muscle Require Import Gen.Consts Refl.Base Refl.BaseProofs Refl.Tree Refl.TreeProofs Refl.Matcher Refl.MatcherProofs
     Refl.Traverse Refl.TraverseSpec Refl.Session Refl.Server Refl.ServerProofs Refl.IsoModel Refl.IsoBase Refl.IsoTrav Refl.IsoFrame
     Refl.IsoSimBase Refl.IsoSimTrav.
Import ListNotations.

Section Sim.
Context {M : MatchOps} {L : MatchLaws M}.
Variable fx : fixes.
Hypothesis guard_on : fx_guard fx = true.
Variable s : sid.

Definition sdir (F : server) : option path := option_map session_dir (get_session F s).

Definition others (l : list session) : list session := filter (fun x => negb (N.eqb (s_id x) s)) l.

(* E's sessions are F's sessions other than s, with the same id, host, name, subscriptions and update limit *)
Definition rel_sess (F E : server) : Prop := all_params E = map sparams (others (sv_sessions F)).

Definition rel (F E : server) : Prop := rel_tree s (sdir F) (sv_tree F) (sv_tree E) /\ rel_sess F E.

(* ------------------------------------------------------------------ parameters of sessions *)

Lemma sparams_parts : forall x y : session, sparams x = sparams y ->
  s_id x = s_id y /\ s_host x = s_host y /\ s_name x = s_name y /\ s_subs x = s_subs y /\ s_max x = s_max y.
Proof.
  intros x y H. unfold sparams in H.
  pose proof (f_equal (fun c => fst (fst (fst (fst c)))) H) as H1. pose proof (f_equal (fun c => snd (fst (fst (fst c)))) H) as H2.
  pose proof (f_equal (fun c => snd (fst (fst c))) H) as H3. pose proof (f_equal (fun c => snd (fst c)) H) as H4.
  pose proof (f_equal snd H) as H5. cbn in *. repeat split; assumption.
Qed.

Lemma map_sparams_cons : forall (x y : session) l l', map sparams (y :: l') = map sparams (x :: l) ->
  sparams y = sparams x /\ map sparams l' = map sparams l.
Proof.
  intros x y l l' H. cbn [map] in H. split.
  - exact (f_equal (fun l0 => hd (sparams x) l0) H).
  - exact (f_equal (@tl _) H).
Qed.

(* the projection C04's lemmas are stated over *)
Lemma sparams_core : forall x y : session, sparams x = sparams y -> core x = core y.
Proof.
  intros [a1 a2 a3 a4 a5 a6 a7] [b1 b2 b3 b4 b5 b6 b7] H. apply sparams_parts in H as [H1 [H2 [H3 [H4 H5]]]]. cbn in *. subst. reflexivity.
Qed.

Lemma params_core : forall l l', map sparams l' = map sparams l -> map core l' = map core l.
Proof.
  induction l as [|x l IH]; intros [|y l'] H; try discriminate; [reflexivity|].
  apply map_sparams_cons in H as [H1 H2]. cbn [map]. f_equal; [now apply sparams_core|now apply IH].
Qed.

Lemma same_state_core : forall sv sv', same_state sv sv' -> same_core sv sv'.
Proof. intros sv sv' [H1 H2]. split; [exact H1|]. now apply params_core. Qed.

Lemma find_session_params : forall l l' t, map sparams l' = map sparams l ->
  match find_session l t, find_session l' t with
  | Some a, Some b => sparams b = sparams a
  | None, None => True
  | _, _ => False
  end.
Proof.
  induction l as [|x l IH]; intros [|y l'] t H; try discriminate; cbn [find_session]; [exact I|].
  apply map_sparams_cons in H as [H1 H2]. pose proof (sparams_parts _ _ H1) as [Hid _]. rewrite Hid.
  destruct (N.eqb (s_id x) t); [exact H1|now apply IH].
Qed.

Lemma sdir_params : forall F F', all_params F' = all_params F -> sdir F' = sdir F.
Proof.
  intros F F' H. unfold sdir, get_session. pose proof (find_session_params (sv_sessions F) (sv_sessions F') s H) as Hc.
  destruct (find_session (sv_sessions F) s) as [a|], (find_session (sv_sessions F') s) as [b|]; try contradiction; [|reflexivity].
  cbn. apply sparams_parts in Hc as [_ [H2 [H3 _]]]. unfold session_dir. now rewrite H2, H3.
Qed.

Lemma others_params_eq : forall l l', map sparams l' = map sparams l -> map sparams (others l') = map sparams (others l).
Proof.
  induction l as [|x l IH]; intros [|y l'] H; try discriminate; [reflexivity|].
  apply map_sparams_cons in H as [H1 H2]. pose proof (sparams_parts _ _ H1) as [Hid _].
  cbn [others filter]. rewrite Hid. destruct (negb (N.eqb (s_id x) s)); cbn [map]; [f_equal; [exact H1|]|]; now apply IH.
Qed.

(* ------------------------------------------------------------------ what does not matter *)

Lemma rel_same_state : forall F F' E E', same_state F F' -> same_state E E' -> rel F E -> rel F' E'.
Proof.
  intros F F' E E' [HtF HsF] [HtE HsE] [R1 R2]. split.
  - rewrite (sdir_params F F' HsF), HtF, HtE. exact R1.
  - unfold rel_sess in *. rewrite HsE, R2. symmetry. now apply others_params_eq.
Qed.

Lemma sdir_set_tree : forall F t, sdir (set_tree F t) = sdir F.
Proof. reflexivity. Qed.

(* the same new tree on both sides *)
Lemma rel_set_tree : forall F E tF tE, rel F E -> rel_tree s (sdir F) tF tE -> rel (set_tree F tF) (set_tree E tE).
Proof. intros F E tF tE [_ R2] R. split; [exact R|exact R2]. Qed.

(* a relation put together from its parts *)
Lemma rel_parts : forall F E F' E' tF' tE', rel F E ->
  sv_tree F' = tF' -> sv_tree E' = tE' -> all_params F' = all_params F -> all_params E' = all_params E ->
  rel_tree s (sdir F) tF' tE' -> rel F' E'.
Proof.
  intros F E F' E' tF' tE' [_ R2] HF HE HcF HcE R. split.
  - rewrite (sdir_params F F' HcF), HF, HE. exact R.
  - unfold rel_sess in *. rewrite HcE, R2. symmetry. now apply others_params_eq.
Qed.

(* ------------------------------------------------------------------ sessions *)

Lemma find_session_others : forall l t, t <> s -> find_session (others l) t = find_session l t.
Proof. intros. unfold others. apply find_session_filter. congruence. Qed.

Lemma rel_get_session : forall F E t, rel_sess F E -> t <> s ->
  match get_session F t, get_session E t with
  | Some a, Some b => sparams b = sparams a
  | None, None => True
  | _, _ => False
  end.
Proof.
  intros F E t R Ht. unfold get_session. rewrite <- (find_session_others (sv_sessions F) t Ht).
  apply find_session_params. exact R.
Qed.

Lemma rel_no_s : forall F E, rel_sess F E -> get_session E s = None.
Proof.
  intros F E R. unfold get_session. pose proof (find_session_params (others (sv_sessions F)) (sv_sessions E) s R) as H.
  unfold others in H. rewrite find_session_filter_self in H. destruct (find_session (sv_sessions E) s); [contradiction|reflexivity].
Qed.

(* updating session t <> s alike on both sides, by a function whose effect on the parameters depends on the parameters only *)
Lemma rel_sess_upd : forall F E t (f : session -> session), rel_sess F E -> t <> s ->
  (forall x, s_id (f x) = s_id x) ->
  (forall x y, sparams x = sparams y -> sparams (f x) = sparams (f y)) ->
  rel_sess (upd_session F t f) (upd_session E t f).
Proof.
  intros F E t f R Ht Hid Hf. unfold rel_sess, all_params, upd_session in *. cbn [sv_sessions].
  revert R. generalize (sv_sessions E) as lE. induction (sv_sessions F) as [|x lF IH]; intros lE R.
  - cbn in *. destruct lE; [reflexivity|discriminate].
  - cbn [map others filter] in *. destruct (N.eqb (s_id x) s) eqn:Exs.
    + assert (Ext : N.eqb (s_id x) t = false).
      { apply N.eqb_neq. intros Hx. apply N.eqb_eq in Exs. apply Ht. rewrite <- Hx. exact Exs. }
      rewrite Ext, Exs. cbn [negb] in *. now apply IH.
    + cbn [negb] in R. destruct lE as [|y lE]; [discriminate|].
      apply map_sparams_cons in R as [H1 H2]. fold (others lF) in H2.
      pose proof (sparams_parts _ _ H1) as [Hy _].
      cbn [map]. rewrite Hy. destruct (N.eqb (s_id x) t) eqn:Ext.
      * rewrite Hid, Exs. cbn [negb map]. f_equal; [now apply Hf|now apply IH].
      * rewrite Exs. cbn [negb map]. f_equal; [exact H1|now apply IH].
Qed.

Lemma sdir_upd_other : forall F t f, t <> s -> (forall x, s_id (f x) = s_id x) -> sdir (upd_session F t f) = sdir F.
Proof.
  intros F t f Ht Hid. unfold sdir. rewrite get_session_upd by exact Hid.
  assert (Et : N.eqb t s = false) by (apply N.eqb_neq; exact Ht). now rewrite Et.
Qed.

Lemma rel_upd : forall F E t (f : session -> session), rel F E -> t <> s ->
  (forall x, s_id (f x) = s_id x) -> (forall x y, sparams x = sparams y -> sparams (f x) = sparams (f y)) ->
  rel (upd_session F t f) (upd_session E t f).
Proof.
  intros F E t f [R1 R2] Ht Hid Hf. split; [|now apply rel_sess_upd]. rewrite sdir_upd_other by assumption. exact R1.
Qed.

(* ------------------------------------------------------------------ the table of a new node *)

Definition nnt_step (p : path) (tb : subtbl) (ss : session) : subtbl :=
  tbl_adjust tb (s_id ss) (i32_of_u32 (u32 (match_count (s_subs ss) p None 0))).

Lemma nnt_params : forall p l l' tb, map sparams l' = map sparams l -> fold_left (nnt_step p) l' tb = fold_left (nnt_step p) l tb.
Proof.
  intros p. induction l as [|x l IH]; intros [|y l'] tb H; try discriminate; [reflexivity|].
  apply map_sparams_cons in H as [H1 H2]. cbn [fold_left].
  apply sparams_parts in H1 as [Hi [_ [_ [Hs _]]]]. unfold nnt_step at 2 4. rewrite Hi, Hs. now apply IH.
Qed.

Lemma nnt_others : forall p l tb, tbl_without s (fold_left (nnt_step p) l tb) = fold_left (nnt_step p) (others l) (tbl_without s tb).
Proof.
  intros p. induction l as [|x l IH]; intros tb; cbn [fold_left others filter]; [reflexivity|].
  rewrite IH. destruct (N.eqb (s_id x) s) eqn:E; cbn [negb].
  - apply N.eqb_eq in E. unfold nnt_step at 2. rewrite E, tbl_without_adjust. reflexivity.
  - cbn [fold_left]. unfold nnt_step at 2 4. rewrite tbl_without_adjust_other; [reflexivity|]. now apply N.eqb_neq.
Qed.

Lemma rel_new_node_table : forall F E p, rel_sess F E -> tbl_without s (new_node_table F p) = new_node_table E p.
Proof.
  intros F E p R. unfold new_node_table. change (fun tb ss => tbl_adjust tb (s_id ss) (i32_of_u32 (u32 (match_count (s_subs ss) p None 0)))) with (nnt_step p).
  rewrite nnt_others. cbn [tbl_without filter]. symmetry. now apply nnt_params.
Qed.

(* ------------------------------------------------------------------ SETDATA *)

Lemma hidden_app : forall od pp r, hidden od pp = false -> (forall r', hidden od (pp ++ r') = false) -> hidden od (pp ++ r) = false.
Proof. intros. auto. Qed.

Lemma set_data_loop_sim : forall cl F E by_ pp d dc dw q,
  rel F E -> 2 <= length pp -> (forall r, hidden (sdir F) (pp ++ r) = false) ->
  rel (set_data_loop F by_ pp cl d dc dw q) (set_data_loop E by_ pp cl d dc dw q).
Proof.
  induction cl as [|k rest IH]; intros F E by_ pp d dc dw q R Hl Hh; cbn [set_data_loop]; [exact R|].
  assert (Hl' : 2 <= length (pp ++ [k])) by (rewrite app_length; cbn; lia).
  assert (Hh' : forall r, hidden (sdir F) ((pp ++ [k]) ++ r) = false) by (intros r; rewrite <- app_assoc; apply Hh).
  destruct R as [R1 R2].
  rewrite (rel_find s (sdir F) (sv_tree F) (sv_tree E) (pp ++ [k]) R1 Hl' (Hh [k])).
  destruct (find_node (sv_tree F) (pp ++ [k])) as [n|]; cbn [option_map].
  - destruct rest as [|k2 rest'].
    + destruct dw; [now split|].
      assert (R' : rel (set_tree F (set_data (sv_tree F) (pp ++ [k]) d)) (set_tree E (set_data (sv_tree E) (pp ++ [k]) d))).
      { apply rel_set_tree; [now split|]. now apply rel_set_data. }
      destruct q; [exact R'|]. rewrite strip_data. eapply rel_same_state; [apply notify_changed_same|apply notify_changed_same|exact R'].
    + apply IH; [now split|exact Hl'|exact Hh'].
  - destruct dc; [now split|]. destruct (Nat.leb max_node_depth (length pp)); [now split|].
    assert (G : forall d0,
              let F1 := set_tree F (add_node (sv_tree F) (mkNode (pp ++ [k]) d0 (new_node_table F (pp ++ [k])))) in
              let E1 := set_tree E (add_node (sv_tree E) (mkNode (pp ++ [k]) d0 (new_node_table E (pp ++ [k])))) in
              rel (if q then F1 else notify_changed F1 by_ (pp ++ [k]) d0 None false)
                  (if q then E1 else notify_changed E1 by_ (pp ++ [k]) d0 None false) /\
              sdir (if q then F1 else notify_changed F1 by_ (pp ++ [k]) d0 None false) = sdir F).
    { intros d0 F1 E1.
      assert (R' : rel F1 E1).
      { apply rel_set_tree; [now split|]. apply rel_add; [exact R1| |].
        - unfold strip. cbn [n_path n_data n_subs]. f_equal. symmetry. now apply rel_new_node_table.
        - unfold vis, nonhost. cbn [n_path]. rewrite (Hh [k]). apply Nat.leb_le in Hl'. now rewrite Hl'. }
      split.
      - destruct q; [exact R'|]. eapply rel_same_state; [apply notify_changed_same|apply notify_changed_same|exact R'].
      - destruct q; [reflexivity|]. rewrite (sdir_params _ _ (proj2 (notify_changed_same _ _ _ _ _ _))). reflexivity. }
    destruct rest as [|k2 rest'].
    + apply (G d).
    + destruct (G empty_payload) as [G1 G2]. apply IH; [exact G1|exact Hl'|]. intros r. rewrite G2. apply Hh'.
Qed.

(* the directory of another session and everything below it is visible *)
Lemma other_dir_visible : forall B F t st, inv B F -> t <> s -> get_session F t = Some st ->
  forall r, hidden (sdir F) (session_dir st ++ r) = false.
Proof.
  intros B F t st I Ht Hst r. unfold sdir. destruct (get_session F s) as [ss|] eqn:Hss; [|reflexivity]. cbn [option_map hidden].
  destruct (is_prefix (session_dir ss) (session_dir st ++ r)) eqn:E; [|reflexivity]. exfalso.
  apply is_prefix_spec in E as [r' Hr']. unfold session_dir in Hr'. cbn in Hr'. injection Hr' as H1 H2 _.
  apply find_session_some in Hss as [Hin1 Hid1]. apply find_session_some in Hst as [Hin2 Hid2].
  assert (st = ss); [|subst; congruence].
  apply (NoDup_map_inj _ _ session_dir (sv_sessions F)); [apply (inv_dirs_nodup _ _ _ I)|exact Hin2|exact Hin1|].
  unfold session_dir. congruence.
Qed.

(* ------------------------------------------------------------------ REMOVEDATA *)

Lemma remove_subtree_params : forall sv by_ p notify, all_params (remove_subtree sv by_ p notify) = all_params sv.
Proof.
  intros sv by_ p notify. unfold remove_subtree.
  generalize (removal_order (S (length (sv_tree sv))) (sv_tree sv) p). intros l. revert sv.
  induction l as [|q l IH]; intros sv; cbn [fold_left]; [reflexivity|]. rewrite IH.
  destruct (find_node _ _); [|reflexivity]. unfold all_params. cbn [sv_sessions set_tree].
  destruct notify; [apply (proj2 (notify_changed_same _ _ _ _ _ _))|reflexivity].
Qed.

Lemma remove_cb_strip : forall acc n, remove_cb acc (strip s n) = remove_cb acc n.
Proof. reflexivity. Qed.

(* removing the same visible subtrees on both sides *)
Lemma remove_fold_sim : forall rs by_ notify F E,
  rel F E -> wf_tree (sv_tree F) -> wf_tree (sv_tree E) ->
  Forall (fun p => 2 <= length p /\ hidden (sdir F) p = false) rs ->
  rel (fold_left (fun sv' p => if has_node (sv_tree sv') p then remove_subtree sv' by_ p notify else sv') rs F)
      (fold_left (fun sv' p => if has_node (sv_tree sv') p then remove_subtree sv' by_ p notify else sv') rs E).
Proof.
  induction rs as [|p rs IH]; intros by_ notify F E R WF WE Hall; cbn [fold_left]; [exact R|].
  inversion Hall as [|? ? [Hl Hh] Hall']; subst.
  destruct R as [R1 R2].
  rewrite (rel_has_node s (sdir F) _ _ p R1 Hl Hh).
  destruct (has_node (sv_tree F) p) eqn:Hn; [|apply IH; [now split|exact WF|exact WE|exact Hall']].
  assert (Hpn : p <> []) by (intros ->; cbn in Hl; lia).
  destruct (remove_subtree_spec F by_ p notify WF Hpn) as [HtF _].
  destruct (remove_subtree_spec E by_ p notify WE Hpn) as [HtE _].
  apply IH.
  - apply (rel_parts F E _ _ _ _ (conj R1 R2) HtF HtE (remove_subtree_params _ _ _ _) (remove_subtree_params _ _ _ _)). now apply rel_prune.
  - rewrite HtF. now apply wf_tree_prune.
  - rewrite HtE. now apply wf_tree_prune.
  - rewrite (sdir_params F _ (remove_subtree_params _ _ _ _)). exact Hall'.
Qed.

Lemma do_remove_data_sim : forall F E stF stE keys q,
  rel F E -> sparams stE = sparams stF -> wf_tree (sv_tree F) -> wf_tree (sv_tree E) ->
  (forall r, hidden (sdir F) (session_dir stF ++ r) = false) ->
  rel (do_remove_data fx F stF keys q) (do_remove_data fx E stE keys q).
Proof.
  intros F E stF stE keys q R Hc WF WE Hv. unfold do_remove_data.
  apply sparams_parts in Hc as [Hi [Hc2 [Hc3 _]]].
  assert (Hd : session_dir stE = session_dir stF) by (unfold session_dir; now rewrite Hc2, Hc3).
  rewrite Hd, Hi.
  assert (Hrs : do_traversal remove_cb (sv_tree E) (m_of_list keys) (session_dir stF) true (fx_guard fx) [] =
                do_traversal remove_cb (sv_tree F) (m_of_list keys) (session_dir stF) true (fx_guard fx) []).
  { destruct R as [R1 _]. apply (do_traversal_two _ remove_cb (sv_tree F) (sv_tree E) _ _ _ _ s); [apply remove_cb_strip| |].
    - intros x Hx. apply (rel_children s (sdir F)); [exact R1| |].
      + apply is_prefix_spec in Hx as [r Hr]. rewrite Hr. discriminate.
      + intros k. apply is_prefix_spec in Hx as [r Hr]. rewrite Hr, <- app_assoc. apply Hv.
    - intros x k Hx. apply (rel_get_child s (sdir F)); [exact R1| |].
      + apply is_prefix_spec in Hx as [r Hr]. rewrite Hr. discriminate.
      + apply is_prefix_spec in Hx as [r Hr]. rewrite Hr, <- app_assoc. apply Hv. }
  rewrite Hrs. apply remove_fold_sim; [exact R|exact WF|exact WE|].
  pose proof (remove_cb_collects_below (sv_tree F) (m_of_list keys) (session_dir stF) true (fx_guard fx)) as Hall.
  eapply Forall_impl; [|exact Hall]. intros p Hp. cbn beta in Hp. apply is_prefix_spec in Hp as [r Hr]. split.
  - rewrite Hr, app_length. cbn. lia.
  - rewrite Hr. apply Hv.
Qed.

(* ------------------------------------------------------------------ subscriptions *)

Lemma sparams_set_subs : forall (g : matcher -> matcher) x y, sparams x = sparams y ->
  sparams (set_subs x (g (s_subs x))) = sparams (set_subs y (g (s_subs y))).
Proof. intros g x y H. apply sparams_parts in H as [H1 [H2 [H3 [H4 H5]]]]. unfold sparams. cbn. now rewrite H1, H2, H3, H4, H5. Qed.

Lemma strip_adj_other : forall t delta n, t <> s -> strip s (adj_node t delta n) = adj_node t delta (strip s n).
Proof.
  intros t delta n Ht. unfold strip, adj_node. cbn [n_path n_data n_subs]. f_equal. now apply tbl_without_adjust_other.
Qed.

(* marking the nodes of one of t's subscription paths, on both sides *)
Lemma mark_nodes_sim : forall od tF tE m t delta, rel_tree s od tF tE -> t <> s ->
  wf_tree tF -> wf_tree tE -> wf_groups (m_groups m) ->
  rel_tree s od (mark_nodes fx tF m t delta) (mark_nodes fx tE m t delta).
Proof.
  intros od tF tE m t delta R Ht WF WE Wm.
  rewrite (mark_nodes_spec fx guard_on tF m t delta WF Wm), (mark_nodes_spec fx guard_on tE m t delta WE Wm).
  apply rel_map; [exact R| | |].
  - intros n. destruct (matches_node _ _ _ _); reflexivity.
  - intros n. destruct (matches_node _ _ _ _); reflexivity.
  - intros n. rewrite strip_path. destruct (matches_node _ _ _ _); [now apply strip_adj_other|reflexivity].
Qed.

Lemma mark_nodes_wf : forall t m k delta, wf_tree t -> wf_groups (m_groups m) -> wf_tree (mark_nodes fx t m k delta).
Proof.
  intros t m k delta W Wm. rewrite (mark_nodes_spec fx guard_on t m k delta W Wm). apply wf_tree_map; [|exact W].
  intros n. destruct (matches_node _ _ _ _); reflexivity.
Qed.

Lemma cqf_traversal_same : forall sv t oldf newf m,
  same_state sv (do_traversal (continue_cb (cqf_cb fx t oldf newf)) (sv_tree sv) m [] false (fx_guard fx) sv).
Proof.
  intros. apply (do_traversal_inv _ _ (sv_tree sv) m [] false (fx_guard fx) (fun acc => same_state sv acc)); [|apply same_state_refl].
  intros acc n Ha _ _. unfold continue_cb. cbn [fst]. eapply same_state_trans; [exact Ha|apply cqf_cb_same].
Qed.

Lemma subscribe_one_sim : forall F E t sf, rel F E -> t <> s -> wf_tree (sv_tree F) -> wf_tree (sv_tree E) ->
  rel (subscribe_one fx F t sf) (subscribe_one fx E t sf).
Proof.
  intros F E t sf R Ht WF WE. unfold subscribe_one.
  pose proof (rel_get_session F E t (proj2 R) Ht) as Hg.
  destruct (get_session F t) as [a|], (get_session E t) as [b|]; try contradiction; [|exact R].
  assert (Hsub : s_subs b = s_subs a) by (apply sparams_parts in Hg; tauto).
  destruct (fix_path (fst sf)) as [|c fp] eqn:Efp; [exact R|]. rewrite Hsub.
  destruct (m_get (s_subs a) (c :: fp)) as [e|].
  - apply rel_upd; [|exact Ht|reflexivity|].
    + destruct (snd sf), (e_flt e); try exact R; (eapply rel_same_state; [apply cqf_traversal_same|apply cqf_traversal_same|exact R]).
    + intros x y Hxy. apply (sparams_set_subs (fun m0 => m_set_filter m0 (c :: fp) (snd sf))). exact Hxy.
  - assert (R1 : rel (upd_session F t (fun x => set_subs x (m_put (s_subs x) (c :: fp) (snd sf))))
                     (upd_session E t (fun x => set_subs x (m_put (s_subs x) (c :: fp) (snd sf))))).
    { apply rel_upd; [exact R|exact Ht|reflexivity|].
      intros x y Hxy. apply (sparams_set_subs (fun m0 => m_put m0 (c :: fp) (snd sf))). exact Hxy. }
    apply rel_set_tree; [exact R1|]. rewrite sdir_upd_other by (try exact Ht; reflexivity).
    apply mark_nodes_sim; [exact (proj1 R)|exact Ht|exact WF|exact WE|]. apply single_wf. discriminate.
Qed.

Lemma subscribe_one_wf : forall sv t sf, wf_tree (sv_tree sv) -> wf_tree (sv_tree (subscribe_one fx sv t sf)).
Proof.
  intros sv t sf W. unfold subscribe_one. destruct (get_session sv t) as [a|]; [|exact W].
  destruct (fix_path (fst sf)) as [|c fp]; [exact W|]. destruct (m_get _ _) as [e|].
  - cbn [sv_tree upd_session]. destruct (snd sf), (e_flt e); try exact W; (rewrite (proj1 (cqf_traversal_same sv t _ _ _)); exact W).
  - cbn [sv_tree set_tree upd_session]. apply mark_nodes_wf; [exact W|]. apply single_wf. discriminate.
Qed.

Lemma unsubscribe_one_sim : forall F E t sp, rel F E -> t <> s -> wf_tree (sv_tree F) -> wf_tree (sv_tree E) ->
  rel (unsubscribe_one fx F t sp) (unsubscribe_one fx E t sp).
Proof.
  intros F E t sp R Ht WF WE. unfold unsubscribe_one.
  pose proof (rel_get_session F E t (proj2 R) Ht) as Hg.
  destruct (get_session F t) as [a|], (get_session E t) as [b|]; try contradiction; [|exact R].
  assert (Hsub : s_subs b = s_subs a) by (apply sparams_parts in Hg; tauto). rewrite Hsub.
  destruct (m_remove (s_subs a) (fix_path sp)) as [m'|] eqn:Em; [|exact R].
  assert (R1 : rel (upd_session F t (fun x => set_subs x m')) (upd_session E t (fun x => set_subs x m'))).
  { apply rel_upd; [exact R|exact Ht|reflexivity|].
    intros x y Hxy. apply (sparams_set_subs (fun _ => m')). exact Hxy. }
  apply rel_set_tree; [exact R1|]. rewrite sdir_upd_other by (try exact Ht; reflexivity).
  apply mark_nodes_sim; [exact (proj1 R)|exact Ht|exact WF|exact WE|].
  destruct (fix_path sp) as [|c fp]; [|apply single_wf; discriminate].
  unfold single, m_put. apply (proj1 wf_empty).
Qed.

Lemma unsubscribe_one_wf : forall sv t sp, wf_tree (sv_tree sv) -> wf_tree (sv_tree (unsubscribe_one fx sv t sp)).
Proof.
  intros sv t sp W. unfold unsubscribe_one. destruct (get_session sv t) as [a|]; [|exact W].
  destruct (m_remove _ _); [|exact W]. cbn [sv_tree set_tree upd_session]. apply mark_nodes_wf; [exact W|].
  destruct (fix_path sp) as [|c fp]; [|apply single_wf; discriminate]. unfold single, m_put. apply (proj1 wf_empty).
Qed.

(* ------------------------------------------------------------------ the command handler of Refl/Server.v *)

Lemma set_data_loop_params : forall cl sv by_ pp d dc dw q, all_params (set_data_loop sv by_ pp cl d dc dw q) = all_params sv.
Proof.
  induction cl as [|k rest IH]; intros sv by_ pp d dc dw q; cbn [set_data_loop]; [reflexivity|].
  destruct (find_node _ _) as [n|].
  - destruct rest as [|k2 rest']; [|apply IH]. destruct dw; [reflexivity|]. destruct q; [reflexivity|].
    rewrite (proj2 (notify_changed_same _ _ _ _ _ _)). reflexivity.
  - destruct dc; [reflexivity|]. destruct (Nat.leb _ _); [reflexivity|].
    match goal with |- all_params (if ?l then ?a else _) = _ => assert (Ha : all_params a = all_params sv) end.
    { destruct q; [reflexivity|]. rewrite (proj2 (notify_changed_same _ _ _ _ _ _)). reflexivity. }
    destruct rest as [|k2 rest']; [exact Ha|]. rewrite IH. exact Ha.
Qed.

Lemma visible_params : forall F F' (d : path), all_params F' = all_params F ->
  (forall r, hidden (sdir F) (d ++ r) = false) -> forall r, hidden (sdir F') (d ++ r) = false.
Proof. intros F F' d H Hv r. rewrite (sdir_params F F' H). apply Hv. Qed.

Lemma get_session_params : forall F F' t a, all_params F' = all_params F -> get_session F t = Some a ->
  exists a', get_session F' t = Some a' /\ sparams a' = sparams a.
Proof.
  intros F F' t a H Ha. unfold get_session in *. pose proof (find_session_params (sv_sessions F) (sv_sessions F') t H) as Hc.
  rewrite Ha in Hc. destruct (find_session (sv_sessions F') t) as [a'|]; [|contradiction]. now exists a'.
Qed.

Lemma set_data_items_sim : forall flags items F0 F E t a,
  rel F E -> t <> s -> all_params F = all_params F0 -> get_session F0 t = Some a ->
  (forall r, hidden (sdir F0) (session_dir a ++ r) = false) ->
  rel (fold_left (fun sv' (it : list name * payload) =>
                    match get_session sv' t with
                    | Some ss' => match fst it with [] => sv' | _ :: _ => set_data_node sv' ss' (fst it) (snd it) flags end
                    | None => sv' end) items F)
      (fold_left (fun sv' (it : list name * payload) =>
                    match get_session sv' t with
                    | Some ss' => match fst it with [] => sv' | _ :: _ => set_data_node sv' ss' (fst it) (snd it) flags end
                    | None => sv' end) items E).
Proof.
  intros flags items F0. induction items as [|it items IH]; intros F E t a R Ht HF Ha Hv; cbn [fold_left]; [exact R|].
  destruct (get_session_params F0 F t a HF Ha) as [aF [HaF HpF]].
  pose proof (rel_get_session F E t (proj2 R) Ht) as Hg. rewrite HaF in Hg.
  destruct (get_session E t) as [aE|]; [|contradiction]. rewrite HaF.
  destruct (fst it) as [|k rest] eqn:Efst.
  - apply (IH F E t a); assumption.
  - apply sparams_parts in HpF as [P1 [P2 [P3 _]]]. apply sparams_parts in Hg as [G1 [G2 [G3 _]]].
    assert (HdF : session_dir aF = session_dir a) by (unfold session_dir; now rewrite P2, P3).
    assert (HdE : session_dir aE = session_dir aF) by (unfold session_dir; now rewrite G2, G3).
    unfold set_data_node. rewrite HdE, G1, HdF.
    apply (IH _ _ t a).
    + apply set_data_loop_sim; [exact R|reflexivity|]. now apply (visible_params F0 F).
    + exact Ht.
    + rewrite set_data_loop_params. exact HF.
    + exact Ha.
    + exact Hv.
Qed.

Lemma sparams_set_max : forall v x y, sparams x = sparams y -> sparams (set_max x v) = sparams (set_max y v).
Proof. intros v x y H. apply sparams_parts in H as [H1 [H2 [H3 [H4 H5]]]]. unfold sparams. cbn. now rewrite H1, H2, H3, H4. Qed.

Theorem handle_sim : forall c nest F E t B, small (B + cmd_budget c) -> inv B F -> inv B E -> rel F E -> t <> s ->
  rel (handle fx nest F t c) (handle fx nest E t c).
Proof.
  induction c as [flags items|q keys|q subs|subs|n| |keys|l IHl] using cmd_ind'; intros nest F E t B HB IF IE R Ht;
    pose proof (rel_get_session F E t (proj2 R) Ht) as Hg;
    (destruct (get_session F t) as [a|] eqn:Ha; destruct (get_session E t) as [b|] eqn:Hb; try contradiction;
     [|destruct nest; cbn [handle]; rewrite Ha, Hb; exact R]).
  - (* SETDATA *)
    destruct nest; cbn [handle]; rewrite Ha, Hb;
      (apply (set_data_items_sim flags items F F E t a); [exact R|exact Ht|reflexivity|exact Ha|now apply (other_dir_visible B F t a)]).
  - (* REMOVEDATA *)
    destruct nest; cbn [handle]; rewrite Ha, Hb;
      (apply do_remove_data_sim; [exact R|exact Hg|apply (inv_tree _ _ _ IF)|apply (inv_tree _ _ _ IE)|now apply (other_dir_visible B F t a)]).
  - (* SETPARAMETERS / SUBSCRIBE *)
    assert (G : forall l F' E', rel F' E' -> wf_tree (sv_tree F') -> wf_tree (sv_tree E') ->
              rel (fold_left (fun sv' sf => subscribe_one fx sv' t sf) l F') (fold_left (fun sv' sf => subscribe_one fx sv' t sf) l E') /\
              wf_tree (sv_tree (fold_left (fun sv' sf => subscribe_one fx sv' t sf) l F')) /\
              wf_tree (sv_tree (fold_left (fun sv' sf => subscribe_one fx sv' t sf) l E'))).
    { induction l as [|sf l IHl]; intros F' E' R' WF' WE'; cbn [fold_left]; [split; [exact R'|split; assumption]|].
      apply IHl; [now apply subscribe_one_sim|now apply subscribe_one_wf|now apply subscribe_one_wf]. }
    destruct (G subs F E R (inv_tree _ _ _ IF) (inv_tree _ _ _ IE)) as [G1 _].
    destruct nest; cbn [handle]; rewrite Ha, Hb; (destruct q; [exact G1|]); (destruct subs as [|sf subs']; [exact G1|]);
      (destruct (fx_push fx);
       [eapply rel_same_state; [eapply same_state_trans; [apply push_all_same|apply do_get_data_same]
                               |eapply same_state_trans; [apply push_all_same|apply do_get_data_same]|exact G1]
       |eapply rel_same_state; [apply do_get_data_same|apply do_get_data_same|exact G1]]).
  - (* REMOVEPARAMETERS / SUBSCRIBE *)
    assert (G : forall l F' E', rel F' E' -> wf_tree (sv_tree F') -> wf_tree (sv_tree E') ->
              rel (fold_left (fun sv' sp => unsubscribe_one fx sv' t sp) l F') (fold_left (fun sv' sp => unsubscribe_one fx sv' t sp) l E')).
    { induction l as [|sp l IHl]; intros F' E' R' WF' WE'; cbn [fold_left]; [exact R'|].
      apply IHl; [now apply unsubscribe_one_sim|now apply unsubscribe_one_wf|now apply unsubscribe_one_wf]. }
    destruct nest; cbn [handle]; rewrite Ha, Hb; (apply G; [exact R|apply (inv_tree _ _ _ IF)|apply (inv_tree _ _ _ IE)]).
  - destruct nest; cbn [handle]; rewrite Ha, Hb; (apply rel_upd; [exact R|exact Ht|reflexivity|apply sparams_set_max]).
  - destruct nest; cbn [handle]; rewrite Ha, Hb; (apply rel_upd; [exact R|exact Ht|reflexivity|apply sparams_set_max]).
  - destruct nest; cbn [handle]; rewrite Ha, Hb; (eapply rel_same_state; [apply do_get_data_same|apply do_get_data_same|exact R]).
  - (* BATCH *)
    set (sum := fix sum (l : list cmd) : nat := match l with [] => 0 | c' :: r => cmd_budget c' + sum r end).
    change (cmd_budget (CBatch l)) with (sum l) in HB.
    assert (G : forall nest' F' E' B', small (B' + sum l) -> inv B' F' -> inv B' E' -> rel F' E' ->
              rel ((fix go (l0 : list cmd) (sv0 : server) : server :=
                      match l0 with [] => sv0 | c' :: r => go r (push_all (handle fx (S nest') sv0 t c')) end) l F')
                  ((fix go (l0 : list cmd) (sv0 : server) : server :=
                      match l0 with [] => sv0 | c' :: r => go r (push_all (handle fx (S nest') sv0 t c')) end) l E')).
    { intros nest'. clear HB IF IE R Hg Ha Hb. induction IHl as [|c l Hc _ IHl']; intros F' E' B' HB' IF' IE' R'; [exact R'|].
      change (sum (c :: l)) with (cmd_budget c + sum l) in HB'.
      apply (IHl' _ _ (B' + cmd_budget c)).
      - now rewrite <- Nat.add_assoc.
      - eapply inv_same_core; [apply push_all_core|]. apply (handle_inv fx guard_on); [|exact IF']. eapply small_le; [|exact HB']. lia.
      - eapply inv_same_core; [apply push_all_core|]. apply (handle_inv fx guard_on); [|exact IE']. eapply small_le; [|exact HB']. lia.
      - eapply rel_same_state; [apply push_all_same|apply push_all_same|].
        apply (Hc (S nest') F' E' t B'); [|exact IF'|exact IE'|exact R'|exact Ht]. eapply small_le; [|exact HB']. lia. }
    destruct nest as [|nest]; cbn [handle]; rewrite Ha, Hb; (destruct (Nat.ltb _ _); [now apply (G _ F E B)|exact R]).
Qed.

End Sim.
