(* Refl/IsoAsIf.v -- C06, as-if-never at the dispatcher level: the simulation relation of Refl/IsoSim.v through whole turns
   of the server (command, update push, removal of kicked sessions), with sessions that hold PR_PRIVILEGE_KICK present;
   the events of s itself leave the erased side alone, and when s has left the two states agree. *)
From Coq Require Import List NArith ZArith Bool Arith Lia Permutation.
From Muscle Require Import Gen.Consts Refl.Base Refl.BaseProofs Refl.Tree Refl.TreeProofs Refl.Matcher Refl.MatcherProofs
     Refl.Traverse Refl.TraverseSpec Refl.Session Refl.Server Refl.ServerProofs Refl.IsoModel Refl.IsoBase Refl.IsoTrav Refl.IsoFrame
     Refl.IsoSimBase Refl.IsoSimTrav Refl.IsoSim Refl.IsoDetach Refl.IsoRun Refl.IsoHosts Refl.IsoNever Refl.IsoKick.
Import ListNotations.

Section AsIf.
Context {M : MatchOps} {L : MatchLaws M}.
Variable fx : fixes.
Hypothesis guard_on : fx_guard fx = true.
Variable s : sid.

(* ------------------------------------------------------------------ privilege tables *)

Lemma priv_get_filter : forall (f : sid -> bool) l k,
  priv_get (filter (fun kb : sid * N => f (fst kb)) l) k = if f k then priv_get l k else 0%N.
Proof.
  intros f l k. induction l as [|[k0 b] r IH]; cbn [filter priv_get fst]; [now destruct (f k)|].
  destruct (f k0) eqn:F0; cbn [priv_get].
  - rewrite IH. destruct (N.eqb k0 k) eqn:E; [|reflexivity]. apply N.eqb_eq in E. subst k0. now rewrite F0.
  - rewrite IH. destruct (N.eqb k0 k) eqn:E; [|reflexivity]. apply N.eqb_eq in E. subst k0. now rewrite F0.
Qed.

Lemma priv_get_remove : forall l a k, priv_get (priv_remove l a) k = if N.eqb a k then 0%N else priv_get l k.
Proof.
  intros l a k. unfold priv_remove. etransitivity; [exact (priv_get_filter (fun j => negb (N.eqb j a)) l k)|]. cbv beta.
  rewrite (N.eqb_sym k a). now destruct (N.eqb a k).
Qed.

Lemma priv_remove_comm : forall l a b, priv_remove (priv_remove l a) b = priv_remove (priv_remove l b) a.
Proof. intros. unfold priv_remove. apply filter_comm. Qed.

Lemma priv_remove_app_other : forall l k b, k <> s -> priv_remove (l ++ [(k, b)]) s = priv_remove l s ++ [(k, b)].
Proof.
  intros l k b Hk. unfold priv_remove. rewrite filter_app. cbn [filter fst].
  assert (N.eqb k s = false) as -> by now apply N.eqb_neq. reflexivity.
Qed.

Lemma priv_remove_app_self : forall l b, priv_remove (l ++ [(s, b)]) s = priv_remove l s.
Proof. intros l b. unfold priv_remove. rewrite filter_app. cbn [filter fst]. rewrite N.eqb_refl. cbn [negb]. apply app_nil_r. Qed.

(* s does not hold PR_PRIVILEGE_KICK *)
Definition nokick_s (xs : xserver) : Prop := N.testbit (priv_get (xs_priv xs) s) c_PR_PRIVILEGE_KICK = false.

Lemma nokick_s_app : forall l k b, N.testbit (priv_get l s) c_PR_PRIVILEGE_KICK = false ->
  (k = s -> N.testbit b c_PR_PRIVILEGE_KICK = false) ->
  N.testbit (priv_get (l ++ [(k, b)]) s) c_PR_PRIVILEGE_KICK = false.
Proof.
  induction l as [|[k0 b0] r IH]; intros k b K Hb; cbn [app priv_get] in *.
  - destruct (N.eqb k s) eqn:E; [apply N.eqb_eq in E; now apply Hb|apply N.bits_0].
  - destruct (N.eqb k0 s); [exact K|now apply IH].
Qed.

Lemma nokick_s_filter : forall (f : sid -> bool) l, N.testbit (priv_get l s) c_PR_PRIVILEGE_KICK = false ->
  N.testbit (priv_get (filter (fun kb : sid * N => f (fst kb)) l) s) c_PR_PRIVILEGE_KICK = false.
Proof. intros f l K. rewrite priv_get_filter. destruct (f s); [exact K|apply N.bits_0]. Qed.

(* ------------------------------------------------------------------ the relation between the two servers *)

Definition xrel (XF XE : xserver) : Prop :=
  rel s (xs_sv XF) (xs_sv XE) /\ priv_remove (xs_priv XF) s = xs_priv XE /\ duck_rel s (xs_ducks XF) (xs_ducks XE) /\ nokick_s XF.

Lemma has_priv_erased : forall XF XE t p, priv_remove (xs_priv XF) s = xs_priv XE -> t <> s -> has_priv XE t p = has_priv XF t p.
Proof.
  intros XF XE t p P Ht. unfold has_priv. rewrite <- P, priv_get_remove.
  assert (N.eqb s t = false) as -> by (apply N.eqb_neq; congruence). reflexivity.
Qed.

Lemma dispatch_priv : forall xs ss what keys sess, xs_priv (dispatch fx xs ss what keys sess) = xs_priv xs.
Proof.
  intros. unfold dispatch, bounce, log_to, with_ducks.
  repeat (match goal with |- context [if ?b then _ else _] => destruct b end); try reflexivity; destruct keys; reflexivity.
Qed.

Lemma dispatch_ducks : forall xs ss what keys sess,
  xs_ducks (dispatch fx xs ss what keys sess) =
  if in_command_range what && N.eqb what c_PR_COMMAND_KICK && has_priv xs (s_id ss) c_PR_PRIVILEGE_KICK
  then match keys with
       | [] => xs_ducks xs
       | _ => do_traversal (kick_cb (xs_sv xs) (s_id ss)) (sv_tree (xs_sv xs)) (keys_matcher keys) [] true (fx_guard fx) (xs_ducks xs)
       end
  else xs_ducks xs.
Proof.
  intros. unfold dispatch, bounce, log_to, with_ducks.
  destruct (in_command_range what); cbn [andb]; [|destruct keys; reflexivity].
  destruct (N.eqb what c_PR_COMMAND_KICK); cbn [andb].
  - destruct (has_priv xs (s_id ss) c_PR_PRIVILEGE_KICK); [destruct keys; reflexivity|reflexivity].
  - repeat (match goal with |- context [if ?b then _ else _] => destruct b end); reflexivity.
Qed.

Lemma dispatch_sim : forall B XF XE a a' what keys sess, inv B (xs_sv XF) -> inv B (xs_sv XE) ->
  hosts_ok (xs_sv XF) -> hosts_ok (xs_sv XE) -> names_ok (xs_sv XF) ->
  xrel XF XE -> s_id a' = s_id a -> s_id a <> s ->
  xrel (dispatch fx XF a what keys sess) (dispatch fx XE a' what keys sess).
Proof.
  intros B XF XE a a' what keys sess IF IE HF HE NF [R [P [D K]]] Hid Ht. unfold xrel, nokick_s.
  rewrite !dispatch_sv, !dispatch_priv, !dispatch_ducks, Hid, (has_priv_erased XF XE (s_id a) _ P Ht).
  split; [exact R|]. split; [exact P|]. split; [|exact K].
  destruct (in_command_range what && N.eqb what c_PR_COMMAND_KICK && has_priv XF (s_id a) c_PR_PRIVILEGE_KICK); [|exact D].
  destruct keys as [|k0 keys]; [exact D|]. now apply (kick_ducks_sim fx guard_on s B).
Qed.

(* what a command leaves in place for the next one of the same batch *)
Lemma xhandle_none : forall c nest xs k, get_session (xs_sv xs) k = None -> xhandle fx nest xs k c = xs.
Proof. intros c nest xs k H. destruct c, nest; cbn [xhandle]; rewrite H; reflexivity. Qed.

Lemma xhandle_keeps : forall c nest xs k,
  let xs1 := xhandle fx nest xs k c in
  (hosts_ok (xs_sv xs) -> hosts_ok (push_all (xs_sv xs1))) /\ (names_ok (xs_sv xs) -> names_ok (push_all (xs_sv xs1))).
Proof.
  intros c nest xs k xs1.
  assert (Hi : idents (push_all (xs_sv xs1)) = idents (xs_sv xs1)) by (apply all_params_idents; apply (proj2 (push_all_same _))).
  destruct (get_session (xs_sv xs) k) as [a|] eqn:Ha.
  - pose proof (xhandle_xframe fx c nest xs k a Ha) as [Fr _]. fold xs1 in Fr. split; intros H.
    + eapply hosts_ok_same_state; [apply push_all_same|]. apply (hosts_ok_frame (xs_sv xs) _ k (session_dir a)); [reflexivity|exact Fr|exact H].
    + apply (names_ok_idents (xs_sv xs)); [|exact H]. rewrite Hi. exact (proj2 (proj2 Fr)).
  - unfold xs1 in *. rewrite (xhandle_none c nest xs k Ha) in *. split; intros H.
    + eapply hosts_ok_same_state; [apply push_all_same|exact H].
    + apply (names_ok_idents (xs_sv xs)); [exact Hi|exact H].
Qed.

Theorem xhandle_sim : forall c nest XF XE t B, small (B + xcmd_budget c) -> inv B (xs_sv XF) -> inv B (xs_sv XE) ->
  hosts_ok (xs_sv XF) -> hosts_ok (xs_sv XE) -> names_ok (xs_sv XF) ->
  xrel XF XE -> t <> s -> xrel (xhandle fx nest XF t c) (xhandle fx nest XE t c).
Proof.
  induction c as [b|f i|q k|w k|b| |w k se|l IHl] using xcmd_ind'; intros nest XF XE t B HB IF IE HF HE NF X Ht;
    pose proof X as [R [P [D K]]];
    pose proof (rel_get_session s _ _ t (proj2 R) Ht) as Hg;
    (destruct (get_session (xs_sv XF) t) as [a|] eqn:Ha; destruct (get_session (xs_sv XE) t) as [a'|] eqn:Ha'; try contradiction;
     [|destruct nest; cbn [xhandle]; rewrite Ha, Ha'; exact X]).
  - destruct nest; cbn [xhandle]; rewrite Ha, Ha'; (split; [|split; [exact P|split; [exact D|exact K]]]); cbn [xs_sv with_sv]; now apply (handle_sim fx guard_on s b _ _ _ t B).
  - cbn [xcmd_budget] in HB. destruct nest; cbn [xhandle]; rewrite Ha, Ha'; (split; [|split; [exact P|split; [exact D|exact K]]]); cbn [xs_sv with_sv];
      (apply (handle_sim fx guard_on s _ _ _ _ t B); [exact HB|exact IF|exact IE|exact R|exact Ht]).
  - cbn [xcmd_budget] in HB. destruct nest; cbn [xhandle]; rewrite Ha, Ha'; (split; [|split; [exact P|split; [exact D|exact K]]]); cbn [xs_sv with_sv];
      (apply (handle_sim fx guard_on s _ _ _ _ t B); [exact HB|exact IF|exact IE|exact R|exact Ht]).
  - apply sparams_parts in Hg as [Hg _]. pose proof (get_session_id _ _ _ Ha) as Hida.
    destruct nest; cbn [xhandle]; rewrite Ha, Ha'; (apply (dispatch_sim B); auto; congruence).
  - destruct nest; cbn [xhandle]; rewrite Ha, Ha'; exact X.
  - destruct nest; cbn [xhandle]; rewrite Ha, Ha'; (split; [exact R|]); cbn [xs_priv xs_ducks with_priv];
      (split; [rewrite priv_remove_comm; now rewrite P|]); (split; [exact D|]);
      unfold nokick_s; cbn [xs_priv with_priv]; unfold priv_remove; now apply (nokick_s_filter (fun j => negb (N.eqb j t))).
  - apply sparams_parts in Hg as [Hg _]. pose proof (get_session_id _ _ _ Ha) as Hida.
    destruct nest; cbn [xhandle]; rewrite Ha, Ha'; (apply (dispatch_sim B); auto; congruence).
  - (* BATCH *)
    rewrite (xcmd_budget_batch l) in HB.
    assert (G : forall nest' XF' XE' B', small (B' + xsum l) -> inv B' (xs_sv XF') -> inv B' (xs_sv XE') ->
              hosts_ok (xs_sv XF') -> hosts_ok (xs_sv XE') -> names_ok (xs_sv XF') -> xrel XF' XE' ->
              xrel ((fix go (l0 : list xcmd) (xs0 : xserver) : xserver :=
                       match l0 with
                       | [] => xs0
                       | c' :: r => go r (let xs1 := xhandle fx (S nest') xs0 t c' in with_sv xs1 (push_all (xs_sv xs1)))
                       end) l XF')
                   ((fix go (l0 : list xcmd) (xs0 : xserver) : xserver :=
                       match l0 with
                       | [] => xs0
                       | c' :: r => go r (let xs1 := xhandle fx (S nest') xs0 t c' in with_sv xs1 (push_all (xs_sv xs1)))
                       end) l XE')).
    { intros nest'. clear HB IF IE HF HE NF X R P D K Hg Ha Ha'.
      induction IHl as [|c l Hc _ IHl']; intros XF' XE' B' HB' IF' IE' HF' HE' NF' X'; [exact X'|].
      cbn [xsum] in HB'.
      assert (HBc : small (B' + xcmd_budget c)) by (eapply small_le; [|exact HB']; lia).
      pose proof (Hc (S nest') XF' XE' t B' HBc IF' IE' HF' HE' NF' X' Ht) as [R1 [P1 [D1 K1]]].
      pose proof (xhandle_keeps c (S nest') XF' t) as [KF1 KF2]. pose proof (xhandle_keeps c (S nest') XE' t) as [KE1 _].
      apply (IHl' _ _ (B' + xcmd_budget c)).
      - now rewrite <- Nat.add_assoc.
      - cbn [xs_sv with_sv]. eapply inv_same_core; [apply push_all_core|]. now apply (xhandle_inv fx guard_on).
      - cbn [xs_sv with_sv]. eapply inv_same_core; [apply push_all_core|]. now apply (xhandle_inv fx guard_on).
      - cbn [xs_sv with_sv]. now apply KF1.
      - cbn [xs_sv with_sv]. now apply KE1.
      - cbn [xs_sv with_sv]. now apply KF2.
      - split; [|split; [exact P1|split; [exact D1|exact K1]]]. cbn [xs_sv with_sv]. eapply rel_same_state; [apply push_all_same|apply push_all_same|exact R1]. }
    destruct nest as [|nest]; cbn [xhandle]; rewrite Ha, Ha'; (destruct (Nat.ltb _ _); [now apply (G _ XF XE B)|exact X]).
Qed.

(* a session without PR_PRIVILEGE_KICK marks nobody for removal, and cannot give itself the privilege *)
Lemma xhandle_self_quiet : forall c nest xs, nokick_s xs ->
  xs_ducks (xhandle fx nest xs s c) = xs_ducks xs /\ nokick_s (xhandle fx nest xs s c).
Proof.
  induction c as [b|f i|q ky|w ky|b| |w ky se|l IHl] using xcmd_ind'; intros nest xs K;
    (destruct (get_session (xs_sv xs) s) as [a|] eqn:Ha; [|destruct nest; cbn [xhandle]; rewrite Ha; now split]).
  - destruct nest; cbn [xhandle]; rewrite Ha; now split.
  - destruct nest; cbn [xhandle]; rewrite Ha; now split.
  - destruct nest; cbn [xhandle]; rewrite Ha; now split.
  - pose proof (get_session_id _ _ _ Ha) as Hid.
    assert (Hp : has_priv xs (s_id a) c_PR_PRIVILEGE_KICK = false) by (unfold has_priv; now rewrite Hid).
    destruct nest; cbn [xhandle]; rewrite Ha; unfold nokick_s; rewrite dispatch_priv, dispatch_ducks, Hp, andb_false_r; now split.
  - destruct nest; cbn [xhandle]; rewrite Ha; now split.
  - destruct nest; cbn [xhandle]; rewrite Ha; (split; [reflexivity|]);
      unfold nokick_s; cbn [xs_priv with_priv]; unfold priv_remove; now apply (nokick_s_filter (fun j => negb (N.eqb j s))).
  - pose proof (get_session_id _ _ _ Ha) as Hid.
    assert (Hp : has_priv xs (s_id a) c_PR_PRIVILEGE_KICK = false) by (unfold has_priv; now rewrite Hid).
    destruct nest; cbn [xhandle]; rewrite Ha; unfold nokick_s; rewrite dispatch_priv, dispatch_ducks, Hp, andb_false_r; now split.
  - assert (G : forall nest' xs', nokick_s xs' ->
              xs_ducks ((fix go (l0 : list xcmd) (xs0 : xserver) : xserver :=
                           match l0 with
                           | [] => xs0
                           | c' :: r => go r (let xs1 := xhandle fx (S nest') xs0 s c' in with_sv xs1 (push_all (xs_sv xs1)))
                           end) l xs') = xs_ducks xs' /\
              nokick_s ((fix go (l0 : list xcmd) (xs0 : xserver) : xserver :=
                           match l0 with
                           | [] => xs0
                           | c' :: r => go r (let xs1 := xhandle fx (S nest') xs0 s c' in with_sv xs1 (push_all (xs_sv xs1)))
                           end) l xs')).
    { intros nest'. clear K Ha. induction IHl as [|c l Hc _ IHl']; intros xs' K'; [now split|].
      destruct (Hc (S nest') xs' K') as [D1 K1].
      destruct (IHl' (with_sv (xhandle fx (S nest') xs' s c) (push_all (xs_sv (xhandle fx (S nest') xs' s c))))) as [D2 K2]; [exact K1|].
      split; [|exact K2]. etransitivity; [exact D2|exact D1]. }
    destruct nest as [|nest]; cbn [xhandle]; rewrite Ha; (destruct (Nat.ltb _ _); [now apply G|now split]).
Qed.

(* ------------------------------------------------------------------ session names *)

(* a session arrives under a name (the server's id string) no session has, which is nobody's host name either, and from a
   host whose name is not a session name *)
Definition xnm_event (xs : xserver) (ev : xevent) : Prop :=
  match ev with
  | XAttach _ host nm _ =>
    nm <> host /\ forall x, In x (sv_sessions (xs_sv xs)) -> s_name x <> nm /\ s_name x <> host /\ s_host x <> nm
  | _ => True
  end.

Fixpoint xnm_run (xs : xserver) (evs : list xevent) : Prop :=
  match evs with
  | [] => True
  | ev :: r => xnm_event xs ev /\ xnm_run (xstep fx xs ev) r
  end.

Lemma names_ok_sub : forall (l : list session) (f : session -> bool) sv sv',
  idents sv = map sident l -> idents sv' = map sident (filter f l) -> names_ok sv -> names_ok sv'.
Proof.
  intros l f sv sv' H H' [N1 N2]. unfold names_ok. rewrite H in N1, N2. rewrite H'. split.
  - rewrite map_map in *. now apply NoDup_map_filter.
  - intros p q Hp Hq. apply N2.
    + apply in_map_iff in Hp as [a [Ha1 Ha2]]. apply filter_In in Ha2 as [Ha2 _]. apply in_map_iff. now exists a.
    + apply in_map_iff in Hq as [a [Ha1 Ha2]]. apply filter_In in Ha2 as [Ha2 _]. apply in_map_iff. now exists a.
Qed.

Lemma idents_of_params : forall sv (l : list session), all_params sv = map sparams l -> idents sv = map sident l.
Proof.
  intros sv l H. unfold idents, all_params in *.
  assert (Hm : forall l0 : list session, map sident l0 = map (fun c : sid * name * name * matcher * N => fst (fst c)) (map sparams l0))
    by (intros l0; rewrite map_map; reflexivity).
  now rewrite (Hm (sv_sessions sv)), H, <- Hm.
Qed.

Lemma names_ok_detach : forall sv k, names_ok sv -> names_ok (detach fx sv k).
Proof.
  intros sv k H. apply (names_ok_sub (sv_sessions sv) (fun x => negb (N.eqb (s_id x) k)) sv); [reflexivity| |exact H].
  apply idents_of_params. apply (detach_params fx).
Qed.

Lemma names_ok_attach : forall sv k host nm, names_ok sv -> xnm_event (mkX sv [] [] []) (XAttach k host nm 0) ->
  names_ok (attach sv k host nm).
Proof.
  intros sv k host nm [N1 N2] [Hnh Hfr]. cbn [xs_sv] in Hfr.
  set (ss := mkSession k host nm empty_matcher default_max_items None []).
  assert (Hi : idents (attach sv k host nm) = idents sv ++ [sident ss]).
  { transitivity (map sident (sv_sessions sv ++ [ss])); [|unfold idents; now rewrite map_app].
    apply idents_of_params. rewrite attach_unfold. cbv zeta. fold ss.
    rewrite (proj2 (push_all_same _)), (proj2 (notify_changed_same _ _ _ _ _ _)). cbn [set_tree sv_sessions all_params].
    change (all_params (with_host (mkServer (sv_tree sv) (sv_sessions sv ++ [ss]) (sv_dirty sv)) k host) = map sparams (sv_sessions sv ++ [ss])).
    now rewrite with_host_params. }
  unfold names_ok. rewrite Hi. split.
  - rewrite map_app. cbn [map sident snd ss s_name]. apply NoDup_app_single; [exact N1|].
    intros Hin. apply in_map_iff in Hin as [c [Hc1 Hc2]]. unfold idents in Hc2. apply in_map_iff in Hc2 as [x [Hx1 Hx2]].
    destruct (Hfr x Hx2) as [H1 _]. apply H1. rewrite <- Hc1, <- Hx1. reflexivity.
  - intros p q Hp Hq. apply in_app_iff in Hp, Hq. cbn [In] in Hp, Hq.
    destruct Hp as [Hp|[Hp|[]]], Hq as [Hq|[Hq|[]]].
    + now apply N2.
    + subst q. cbn [sident fst snd ss s_host]. unfold idents in Hp. apply in_map_iff in Hp as [x [Hx1 Hx2]].
      destruct (Hfr x Hx2) as [_ [H2 _]]. rewrite <- Hx1. exact H2.
    + subst p. cbn [sident fst snd ss s_name]. unfold idents in Hq. apply in_map_iff in Hq as [x [Hx1 Hx2]].
      destruct (Hfr x Hx2) as [_ [_ H3]]. rewrite <- Hx1. cbn [sident fst snd]. congruence.
    + subst p q. exact Hnh.
Qed.

Lemma names_ok_clear_ducks : forall xs, names_ok (xs_sv xs) -> names_ok (xs_sv (clear_ducks fx xs)).
Proof.
  intros xs. unfold clear_ducks. generalize (xs_ducks xs). intros l. revert xs.
  induction l as [|d l IH]; intros xs H; cbn [fold_left]; [exact H|]. apply IH. cbn [xs_sv xdetach]. now apply names_ok_detach.
Qed.

Lemma names_ok_xstep : forall ev xs, names_ok (xs_sv xs) -> xnm_event xs ev -> names_ok (xs_sv (xstep fx xs ev)).
Proof.
  intros [k host nm bits|k|k c] xs H Hn; cbn [xstep].
  - destruct (get_session _ _); [exact H|]. cbn [xs_sv xattach]. apply names_ok_attach; [exact H|exact Hn].
  - cbn [xs_sv xdetach]. now apply names_ok_detach.
  - destruct (get_session (xs_sv xs) k) as [a|] eqn:Ha; [|exact H]. cbv zeta. apply names_ok_clear_ducks. cbn [xs_sv with_sv].
    now apply (proj2 (xhandle_keeps c 0 xs k)).
Qed.

(* ------------------------------------------------------------------ one turn *)

Definition ev_of (ev : xevent) : sid := match ev with XAttach k _ _ _ => k | XDetach k => k | XCmd k _ => k end.

(* s is never granted PR_PRIVILEGE_KICK *)
Definition ev_nokick (ev : xevent) : Prop :=
  match ev with XAttach k _ _ bits => k = s -> N.testbit bits c_PR_PRIVILEGE_KICK = false | _ => True end.

Lemma duck_rel_filter : forall dF dE k, duck_rel s dF dE ->
  duck_rel s (filter (fun d => negb (N.eqb d k)) dF) (filter (fun d => negb (N.eqb d k)) dE).
Proof.
  intros dF dE k [D1 [D2 D3]]. split; [now apply NoDup_filter|]. split; [now apply NoDup_filter|].
  intros j. rewrite !filter_In, D3. tauto.
Qed.

Lemma duck_rel_nil_l : forall dE, duck_rel s [] dE -> dE = [].
Proof. intros [|k dE] [_ [_ D3]]; [reflexivity|]. destruct (proj1 (D3 k) (or_introl eq_refl)) as [[] _]. Qed.

(* a turn for another session, on both sides *)
Lemma xstep_other : forall ev XF XE B, small (B + xev_budget ev) -> inv B (xs_sv XF) -> inv B (xs_sv XE) ->
  hosts_ok (xs_sv XF) -> hosts_ok (xs_sv XE) -> names_ok (xs_sv XF) ->
  xrel XF XE -> ev_of ev <> s -> xwf_event XF ev ->
  xrel (xstep fx XF ev) (xstep fx XE ev).
Proof.
  intros [t host nm bits|t|t c] XF XE B HB IF IE HF HE NF X Ht Hwf; cbn [ev_of] in Ht; pose proof X as [R [P [D K]]];
    pose proof (rel_get_session s _ _ t (proj2 R) Ht) as Hg.
  - (* arrival *)
    cbn [xstep]. destruct (get_session (xs_sv XF) t) as [a|] eqn:Ha; destruct (get_session (xs_sv XE) t) as [a'|] eqn:Ha'; try contradiction; [exact X|].
    unfold xattach. split; [|split; [|split; [exact D|]]]; cbn [xs_sv xs_priv xs_ducks].
    + apply attach_sim; [exact R|exact Ht|]. cbn [xwf_event] in Hwf. unfold sdir.
      destruct (get_session (xs_sv XF) s) as [ss|] eqn:Hss; [|reflexivity]. cbn [option_map hidden].
      destruct (is_prefix (session_dir ss) [host; nm]) eqn:E0; [|reflexivity]. exfalso.
      apply (Hwf ss); [apply find_session_some in Hss; tauto|]. apply is_prefix_same_length; [exact E0|reflexivity].
    + destruct (N.eqb bits 0); [exact P|]. rewrite priv_remove_app_other by exact Ht. now rewrite P.
    + unfold nokick_s. cbn [xs_priv]. destruct (N.eqb bits 0); [exact K|]. apply nokick_s_app; [exact K|]. intros ->. contradiction.
  - (* departure *)
    cbn [xstep]. unfold xdetach. split; [|split; [|split]]; cbn [xs_sv xs_priv xs_ducks].
    + now apply (detach_sim fx guard_on s B).
    + rewrite priv_remove_comm. now rewrite P.
    + now apply duck_rel_filter.
    + unfold nokick_s. cbn [xs_priv]. unfold priv_remove. now apply (nokick_s_filter (fun j => negb (N.eqb j t))).
  - (* a command *)
    cbn [xstep xev_budget] in *.
    destruct (get_session (xs_sv XF) t) as [a|] eqn:Ha; destruct (get_session (xs_sv XE) t) as [a'|] eqn:Ha'; try contradiction; [|exact X].
    cbv zeta. pose proof (xhandle_sim c 0 XF XE t B HB IF IE HF HE NF X Ht) as [R1 [P1 [D1 K1]]].
    set (XF1 := with_sv (xhandle fx 0 XF t c) (push_all (xs_sv (xhandle fx 0 XF t c)))).
    set (XE1 := with_sv (xhandle fx 0 XE t c) (push_all (xs_sv (xhandle fx 0 XE t c)))).
    destruct (clear_ducks_sim fx guard_on s (B + xcmd_budget c) XF1 XE1) as [R2 P2]; try exact HB.
    + cbn [XF1 xs_sv with_sv]. eapply inv_same_core; [apply push_all_core|]. now apply (xhandle_inv fx guard_on).
    + cbn [XE1 xs_sv with_sv]. eapply inv_same_core; [apply push_all_core|]. now apply (xhandle_inv fx guard_on).
    + cbn [XF1 XE1 xs_sv with_sv]. eapply rel_same_state; [apply push_all_same|apply push_all_same|exact R1].
    + exact P1.
    + exact D1.
    + split; [exact R2|]. split; [exact P2|]. rewrite !clear_ducks_none. split; [apply duck_rel_nil|].
      unfold nokick_s, clear_ducks. rewrite priv_fold_xdetach. apply (nokick_s_filter (fun j => negb (sid_mem j (xs_ducks XF1)))). exact K1.
Qed.

(* a turn for s itself: the erased side stands still *)
Lemma xstep_self : forall ev XF XE B, inv B (xs_sv XF) -> xrel XF XE -> xs_ducks XF = [] -> ev_of ev = s -> xwf_event XF ev -> ev_nokick ev ->
  xrel (xstep fx XF ev) XE.
Proof.
  intros [t host nm bits|t|t c] XF XE B IF X D0 Ht Hwf Hnk; cbn [ev_of] in Ht; subst t; pose proof X as [R [P [D K]]].
  - cbn [xstep]. destruct (get_session (xs_sv XF) s) as [a|] eqn:Ha; [exact X|].
    unfold xattach. split; [|split; [|split; [exact D|]]]; cbn [xs_sv xs_priv xs_ducks].
    + now apply (attach_self s B).
    + destruct (N.eqb bits 0); [exact P|]. now rewrite priv_remove_app_self.
    + cbn [ev_nokick] in Hnk. unfold nokick_s. cbn [xs_priv]. destruct (N.eqb bits 0); [exact K|]. now apply nokick_s_app.
  - cbn [xstep]. unfold xdetach. split; [|split; [|split]]; cbn [xs_sv xs_priv xs_ducks].
    + destruct (get_session (xs_sv XF) s) as [a|] eqn:Ha; [now apply (detach_self fx guard_on s B _ _ a)|]. unfold detach. now rewrite Ha.
    + unfold priv_remove. rewrite filter_filter_implied by auto. exact P.
    + rewrite D0. rewrite D0 in D. exact D.
    + unfold nokick_s. cbn [xs_priv]. unfold priv_remove. now apply (nokick_s_filter (fun j => negb (N.eqb j s))).
  - cbn [xstep]. destruct (get_session (xs_sv XF) s) as [a|] eqn:Ha; [|exact X]. cbv zeta.
    pose proof (xhandle_xframe fx c 0 XF s a Ha) as [Fr [Pr _]].
    destruct (xhandle_self_quiet c 0 XF K) as [Dk Kk].
    rewrite clear_ducks_nil by (cbn [xs_ducks with_sv]; congruence).
    split; [|split; [|split]]; cbn [xs_sv xs_priv xs_ducks with_sv].
    + apply (rel_frame s (xs_sv XF) _ _ a); [exact R|exact Ha|]. eapply frame_trans; [exact Fr|apply same_state_frame, push_all_same].
    + now rewrite Pr.
    + now rewrite Dk.
    + exact Kk.
Qed.

(* ------------------------------------------------------------------ whole histories *)

(* the history with everything s did (arriving, commands, leaving) taken out *)
Definition erase (evs : list xevent) : list xevent := filter (fun ev => negb (N.eqb (ev_of ev) s)) evs.

Lemma erased_wf_event : forall XF XE ev, rel_sess s (xs_sv XF) (xs_sv XE) -> xwf_event XF ev -> xwf_event XE ev.
Proof.
  intros XF XE [t host nm bits|t|t c] R Hwf; cbn [xwf_event] in *; [|exact I|exact I].
  intros x Hx Hd. unfold rel_sess, all_params in R.
  assert (Hin : In (sparams x) (map sparams (others s (sv_sessions (xs_sv XF))))) by (rewrite <- R; now apply in_map).
  apply in_map_iff in Hin as [y [Hy1 Hy2]]. unfold others in Hy2. apply filter_In in Hy2 as [Hy2 _].
  apply (Hwf y Hy2). apply sparams_parts in Hy1 as [_ [H2 [H3 _]]]. unfold session_dir in *. congruence.
Qed.

Theorem sim_run : forall evs XF XE B, small (B + xrun_budget evs) -> inv B (xs_sv XF) -> inv B (xs_sv XE) -> xrel XF XE ->
  hosts_ok (xs_sv XF) -> hosts_ok (xs_sv XE) -> names_ok (xs_sv XF) -> xs_ducks XF = [] ->
  xwf_run fx XF evs -> xnm_run XF evs -> Forall ev_nokick evs ->
  xrel (xrun fx evs XF) (xrun fx (erase evs) XE) /\
  (inv (B + xrun_budget evs) (xs_sv (xrun fx evs XF)) /\ inv (B + xrun_budget evs) (xs_sv (xrun fx (erase evs) XE))) /\
  (hosts_ok (xs_sv (xrun fx evs XF)) /\ hosts_ok (xs_sv (xrun fx (erase evs) XE))).
Proof.
  induction evs as [|ev evs IH]; intros XF XE B HB IF IE X HF HE NF D0 Hwf Hnm Hnk; cbn [xrun fold_left erase filter xrun_budget] in *.
  - rewrite Nat.add_0_r. split; [exact X|split; split; assumption].
  - destruct Hwf as [Hw1 Hw2]. destruct Hnm as [Hm1 Hm2]. inversion Hnk as [|? ? Hn1 Hn2]; subst.
    assert (HBe : small (B + xev_budget ev)) by (eapply small_le; [|exact HB]; lia).
    assert (IF' : inv (B + xev_budget ev) (xs_sv (xstep fx XF ev))) by now apply (xstep_inv fx guard_on).
    assert (HF' : hosts_ok (xs_sv (xstep fx XF ev))) by now apply (hosts_ok_xstep fx guard_on ev XF B).
    assert (NF' : names_ok (xs_sv (xstep fx XF ev))) by now apply names_ok_xstep.
    assert (D0' : xs_ducks (xstep fx XF ev) = []) by now apply xstep_no_ducks.
    rewrite Nat.add_assoc.
    destruct (N.eqb (ev_of ev) s) eqn:Es; cbn [negb].
    + apply N.eqb_eq in Es.
      apply (IH _ _ (B + xev_budget ev)); [now rewrite <- Nat.add_assoc|exact IF'|apply (inv_weaken B); [lia|exact IE]| |exact HF'|exact HE|exact NF'|exact D0'|exact Hw2|exact Hm2|exact Hn2].
      now apply (xstep_self ev XF XE B).
    + apply N.eqb_neq in Es. cbn [fold_left].
      assert (Hw1E : xwf_event XE ev) by (eapply erased_wf_event; [exact (proj2 (proj1 X))|exact Hw1]).
      apply (IH _ _ (B + xev_budget ev)); [now rewrite <- Nat.add_assoc|exact IF'| | |exact HF'| |exact NF'|exact D0'|exact Hw2|exact Hm2|exact Hn2].
      * now apply (xstep_inv fx guard_on).
      * now apply (xstep_other ev XF XE B).
      * now apply (hosts_ok_xstep fx guard_on ev XE B).
Qed.

Lemma xrel_empty : xrel empty_xserver empty_xserver.
Proof.
  split; [split; [reflexivity|reflexivity]|]. split; [reflexivity|]. split; [apply duck_rel_nil|]. apply N.bits_0.
Qed.

Lemma names_ok_empty : names_ok (xs_sv empty_xserver).
Proof. split; [constructor|]. intros p q []. Qed.

Lemma xwf_run_app : forall evs xs ev, xwf_run fx xs evs -> xwf_event (xrun fx evs xs) ev -> xwf_run fx xs (evs ++ [ev]).
Proof.
  induction evs as [|e evs IH]; intros xs ev H1 H2; cbn [app xwf_run xrun fold_left] in *; [now split|].
  destruct H1 as [Ha Hb]. split; [exact Ha|]. now apply IH.
Qed.

Lemma xnm_run_app : forall evs xs ev, xnm_run xs evs -> xnm_event (xrun fx evs xs) ev -> xnm_run xs (evs ++ [ev]).
Proof.
  induction evs as [|e evs IH]; intros xs ev H1 H2; cbn [app xnm_run xrun fold_left] in *; [now split|].
  destruct H1 as [Ha Hb]. split; [exact Ha|]. now apply IH.
Qed.

Lemma xrun_budget_app : forall a b, xrun_budget (a ++ b) = xrun_budget a + xrun_budget b.
Proof. induction a as [|e a IH]; intros b; cbn [app xrun_budget]; [reflexivity|]. rewrite IH. lia. Qed.

Lemma xrun_app : forall a b xs, xrun fx (a ++ b) xs = xrun fx b (xrun fx a xs).
Proof. intros. unfold xrun. apply fold_left_app. Qed.

Lemma erase_app : forall a b, erase (a ++ b) = erase a ++ erase b.
Proof. intros. unfold erase. apply filter_app. Qed.

Lemma others_none : forall l, find_session l s = None -> others s l = l.
Proof.
  induction l as [|x l IH]; intros H; [reflexivity|]. cbn in *. destruct (N.eqb (s_id x) s); [discriminate|]. cbn. f_equal. now apply IH.
Qed.

(* the whole run with s's departure appended, against the erased run *)
Lemma sim_whole : forall evs,
  small (xrun_budget evs) -> xwf_run fx empty_xserver evs -> xnm_run empty_xserver evs -> Forall ev_nokick evs ->
  let XF := xstep fx (xrun fx evs empty_xserver) (XDetach s) in
  let XE := xrun fx (erase evs) empty_xserver in
  xrel XF XE /\ (inv (xrun_budget evs) (xs_sv XF) /\ inv (xrun_budget evs) (xs_sv XE)) /\ (hosts_ok (xs_sv XF) /\ hosts_ok (xs_sv XE)).
Proof.
  intros evs HB Hwf Hnm Hnk XF XE.
  assert (HB' : small (0 + xrun_budget (evs ++ [XDetach s]))) by (rewrite xrun_budget_app; cbn; now rewrite !Nat.add_0_r).
  assert (H0 : hosts_ok (xs_sv empty_xserver)) by (intros n []).
  destruct (sim_run (evs ++ [XDetach s]) empty_xserver empty_xserver 0 HB' empty_inv empty_inv xrel_empty H0 H0 names_ok_empty eq_refl)
    as [X [[IF IE] [HF HE]]].
  - apply xwf_run_app; [exact Hwf|exact I].
  - apply xnm_run_app; [exact Hnm|exact I].
  - apply Forall_app. split; [exact Hnk|constructor; [exact I|constructor]].
  - rewrite xrun_app in X, IF, HF. rewrite erase_app in X, IE, HE. cbn [erase filter ev_of] in X, IE, HE. rewrite N.eqb_refl in X, IE, HE.
    cbn [negb] in X, IE, HE. rewrite app_nil_r in X, IE, HE. cbn [xrun fold_left] in X, IF, HF.
    rewrite xrun_budget_app in IF, IE. cbn [xrun_budget xev_budget] in IF, IE. rewrite !Nat.add_0_r in IF, IE. cbn [Nat.add] in IF, IE.
    split; [exact X|]. split; split; assumption.
Qed.

(* AS IF NEVER.  Take any history evs in which s is never granted PR_PRIVILEGE_KICK (other sessions may hold it and may kick
   anybody, s included; sessions arrive under fresh (host, id) pairs and fresh names; fewer than 2^31-1 subscription strings
   in total), let s's connection end after it, and compare with the history in which s never arrived, sent or left:
     * below host level the two trees are the same list of nodes: same paths, same payloads, same order (= child iteration
       order), same subscriber tables;
     * the sessions are the same, in the same order, with the same identity, subscriptions and update limits;
     * the privilege tables are the same and nobody is marked for removal.
   (Host nodes: see [as_if_never_hosts].)  What the others were sent in the meantime is of course not compared. *)
Theorem as_if_never : forall evs,
  small (xrun_budget evs) -> xwf_run fx empty_xserver evs -> xnm_run empty_xserver evs -> Forall ev_nokick evs ->
  let XF := xstep fx (xrun fx evs empty_xserver) (XDetach s) in
  let XE := xrun fx (erase evs) empty_xserver in
  body (sv_tree (xs_sv XF)) = body (sv_tree (xs_sv XE)) /\
  all_params (xs_sv XF) = all_params (xs_sv XE) /\
  xs_priv XF = xs_priv XE /\ xs_ducks XF = [] /\ xs_ducks XE = [].
Proof.
  intros evs HB Hwf Hnm Hnk XF XE.
  destruct (sim_whole evs HB Hwf Hnm Hnk) as [X [[IF IE] _]]. fold XF in X, IF. fold XE in X, IE.
  destruct X as [[R1 R2] [P [D _]]].
  assert (Hnone : get_session (xs_sv XF) s = None).
  { unfold XF. cbn [xstep xs_sv xdetach]. unfold detach. destruct (get_session (xs_sv (xrun fx evs empty_xserver)) s) eqn:E0; [|exact E0].
    unfold get_session. cbn [sv_sessions]. apply find_session_filter_self. }
  assert (Hstrip : forall n, In n (sv_tree (xs_sv XF)) -> strip s n = n).
  { intros n Hn. destruct (inv_marks _ _ _ IF n Hn) as [Hok Hget].
    unfold strip. destruct n as [p d tb]. cbn [n_path n_data n_subs] in *. f_equal. apply tbl_without_absent.
    intros Hin. pose proof (tbl_in_get_pos _ _ Hok Hin) as Hpos. rewrite Hget in Hpos. unfold count_for in Hpos. rewrite Hnone in Hpos. lia. }
  assert (DF : xs_ducks XF = []).
  { unfold XF. cbn [xstep xs_ducks xdetach]. now rewrite (xrun_no_ducks fx evs empty_xserver eq_refl). }
  split; [|split; [|split; [|split]]].
  - unfold sdir in R1. rewrite Hnone in R1. cbn [option_map] in R1. unfold rel_tree in R1. rewrite R1. unfold body.
    assert (Hf : filter (vis None) (sv_tree (xs_sv XF)) = filter nonhost (sv_tree (xs_sv XF))).
    { apply filter_ext. intros n. unfold vis, hidden. apply andb_true_r. }
    rewrite Hf. rewrite <- (map_id (filter nonhost (sv_tree (xs_sv XF)))) at 1. apply map_ext_in.
    intros n Hn. apply filter_In in Hn as [Hn _]. symmetry. now apply Hstrip.
  - unfold rel_sess in R2. rewrite R2. unfold all_params. f_equal. symmetry. now apply others_none.
  - rewrite <- P. unfold XF. cbn [xstep xs_priv xdetach]. unfold priv_remove. now rewrite filter_filter_implied by auto.
  - exact DF.
  - rewrite DF in D. now apply duck_rel_nil_l.
Qed.

(* two states with the same sessions (identity, subscriptions) that both satisfy the invariants agree on their host nodes *)
Lemma hosts_agree : forall B A Bv h, inv B A -> inv B Bv -> hosts_ok A -> hosts_ok Bv -> all_params A = all_params Bv ->
  match find_node (sv_tree A) [h], find_node (sv_tree Bv) [h] with
  | Some a, Some b => n_data a = n_data b /\ forall k, tbl_get (n_subs a) k = tbl_get (n_subs b) k
  | None, None => True
  | _, _ => False
  end.
Proof.
  intros B A Bv h IA IB HA HB Hp.
  assert (Hhost : forall (X Y : server) n, inv B Y -> hosts_ok X -> all_params X = all_params Y ->
                  find_node (sv_tree X) [h] = Some n -> has_node (sv_tree Y) [h] = true).
  { intros X Y n IY HX Hxy Hf. apply find_node_some in Hf as [Hin Hpn].
    destruct (HX n Hin) as [_ [x [Hx1 Hx2]]]; [now rewrite Hpn|].
    unfold all_params in Hxy. assert (Hi : In (sparams x) (map sparams (sv_sessions Y))) by (rewrite <- Hxy; now apply in_map).
    apply in_map_iff in Hi as [y [Hy1 Hy2]]. apply sparams_parts in Hy1 as [_ [Hh _]].
    pose proof (host_of_session B Y y IY Hy2) as Hn. rewrite Hpn in Hx2. injection Hx2 as Hx2. now rewrite Hh, Hx2 in Hn. }
  destruct (find_node (sv_tree A) [h]) as [a|] eqn:Ea; destruct (find_node (sv_tree Bv) [h]) as [b|] eqn:Eb.
  - apply find_node_some in Ea as [Ia Pa]. apply find_node_some in Eb as [Ib Pb].
    destruct (HA a Ia) as [Da _]; [now rewrite Pa|]. destruct (HB b Ib) as [Db _]; [now rewrite Pb|].
    split; [congruence|]. intros k.
    destruct (inv_marks _ _ _ IA a Ia) as [_ Ga]. destruct (inv_marks _ _ _ IB b Ib) as [_ Gb]. rewrite Ga, Gb, Pa, Pb.
    unfold count_for, get_session. pose proof (find_session_params (sv_sessions Bv) (sv_sessions A) k Hp) as Hc.
    destruct (find_session (sv_sessions Bv) k) as [y|], (find_session (sv_sessions A) k) as [x|]; try contradiction; [|reflexivity].
    apply sparams_parts in Hc as [_ [_ [_ [Hs _]]]]. now rewrite Hs.
  - pose proof (Hhost A Bv a IB HA Hp Ea) as Hn. unfold has_node in Hn. rewrite Eb in Hn. discriminate.
  - pose proof (Hhost Bv A b IA HB (eq_sym Hp) Eb) as Hn. unfold has_node in Hn. rewrite Ea in Hn. discriminate.
  - exact I.
Qed.

(* AS IF NEVER, host level: the two states have the same host nodes, with the same (empty) payload and the same subscriber
   counts for every session.  (A host node's position among its siblings is the one thing that may differ: the run without s
   may have created it later.) *)
Theorem as_if_never_hosts : forall evs,
  small (xrun_budget evs) -> xwf_run fx empty_xserver evs -> xnm_run empty_xserver evs -> Forall ev_nokick evs ->
  let XF := xstep fx (xrun fx evs empty_xserver) (XDetach s) in
  let XE := xrun fx (erase evs) empty_xserver in
  forall h,
  match find_node (sv_tree (xs_sv XF)) [h], find_node (sv_tree (xs_sv XE)) [h] with
  | Some a, Some b => n_data a = n_data b /\ forall k, tbl_get (n_subs a) k = tbl_get (n_subs b) k
  | None, None => True
  | _, _ => False
  end.
Proof.
  intros evs HB Hwf Hnm Hnk XF XE h.
  destruct (as_if_never evs HB Hwf Hnm Hnk) as [_ [Hp _]]. fold XF in Hp. fold XE in Hp.
  destruct (sim_whole evs HB Hwf Hnm Hnk) as [_ [[IF IE] [HF HE]]]. fold XF in IF, HF. fold XE in IE, HE.
  now apply (hosts_agree _ _ _ h IF IE HF HE Hp).
Qed.

End AsIf.
