(* Refl/BoundedServe.v -- C07, the statement itself: whatever the other clients send, in whatever order, whether they
   read their replies or not, a client that is attached and reading stays attached and reading, and its PING is
   answered in the very turn of the event loop that dispatches it. *)
From Coq Require Import List NArith ZArith Bool Arith Lia.
From Muscle Require Import Gen.Consts Refl.Base Refl.Tree Refl.Matcher Refl.Traverse Refl.Session Refl.Server
  Refl.Bounded Refl.BoundedSpec Refl.BoundedProofs Refl.BoundedInv.
Import ListNotations.

Section Serve.
Context {M : MatchOps}.
Variable fx : fixes.

(* ------------------------------------------------------------------ gateways *)

Lemma find_gw_sid : forall l w g, find_gw l w = Some g -> g_sid g = w.
Proof.
  induction l as [|x l IH]; intros w g H; cbn [find_gw] in H.
  - discriminate.
  - destruct (N.eqb (g_sid x) w) eqn:E.
    + inversion H; subst. apply N.eqb_eq. exact E.
    + apply IH. exact H.
Qed.

Lemma find_gw_map : forall (f : gw -> gw) l w,
  (forall g, g_sid (f g) = g_sid g) ->
  find_gw (map f l) w = option_map f (find_gw l w).
Proof.
  intros f l w Hf. induction l as [|x l IH]; cbn [map find_gw].
  - reflexivity.
  - rewrite Hf. destruct (N.eqb (g_sid x) w); [reflexivity|exact IH].
Qed.

(* what is known of w's gateway: its queue up to an appended suffix, and whether its client reads *)
Definition reads (l : list gw) (w : sid) : Prop := exists g, find_gw l w = Some g /\ g_blocked g = false.

Lemma reads_map : forall (f : gw -> gw) l w,
  (forall g, g_sid (f g) = g_sid g) -> (forall g, g_blocked (f g) = g_blocked g) ->
  reads l w -> reads (map f l) w.
Proof.
  intros f l w Hs Hb [g [Hg Hbl]]. exists (f g). rewrite find_gw_map by exact Hs. rewrite Hg. split; [reflexivity|].
  rewrite Hb. exact Hbl.
Qed.

Lemma reads_map_other : forall (f : gw -> gw) l w s,
  s <> w -> (forall g, g_sid (f g) = g_sid g) ->
  reads l w -> reads (map (fun g => if N.eqb (g_sid g) s then f g else g) l) w.
Proof.
  intros f l w s Hne Hs [g [Hg Hbl]]. exists g. split; [|exact Hbl].
  rewrite find_gw_map.
  - rewrite Hg. cbn [option_map]. apply find_gw_sid in Hg. rewrite Hg.
    destruct (N.eqb w s) eqn:E; [apply N.eqb_eq in E; congruence|reflexivity].
  - intros x. destruct (N.eqb (g_sid x) s); [apply Hs|reflexivity].
Qed.

Lemma reads_absorb : forall b sv w, reads (b_gws b) w -> reads (b_gws (absorb b sv)) w.
Proof.
  intros b sv w H. unfold absorb. cbn [b_gws]. apply reads_map; [| |exact H].
  - intros g. destruct (find_session (sv_sessions sv) (g_sid g)); reflexivity.
  - intros g. destruct (find_session (sv_sessions sv) (g_sid g)); reflexivity.
Qed.

Lemma reads_flush : forall b w, reads (b_gws b) w -> reads (b_gws (flush b)) w.
Proof.
  intros b w [g [Hg Hbl]]. unfold flush. cbn [b_gws].
  exists (mkGw (g_sid g) [] false). split; [|reflexivity].
  rewrite find_gw_map.
  - rewrite Hg. cbn [option_map]. rewrite Hbl. reflexivity.
  - intros x. destruct (g_blocked x); reflexivity.
Qed.

Lemma reads_app : forall l g w, reads l w -> reads (l ++ [g]) w.
Proof.
  intros l g w [g0 [Hg Hbl]]. exists g0. split; [|exact Hbl].
  induction l as [|x l IH]; cbn [app find_gw] in *.
  - discriminate.
  - destruct (N.eqb (g_sid x) w); [exact Hg|apply IH; exact Hg].
Qed.

Lemma reads_filter : forall l s w, s <> w -> reads l w -> reads (filter (fun g => negb (N.eqb (g_sid g) s)) l) w.
Proof.
  intros l s w Hne [g0 [Hg Hbl]]. exists g0. split; [|exact Hbl].
  induction l as [|x l IH]; cbn [filter find_gw] in *.
  - discriminate.
  - destruct (N.eqb (g_sid x) w) eqn:Ew.
    + apply N.eqb_eq in Ew. destruct (N.eqb (g_sid x) s) eqn:Es; [apply N.eqb_eq in Es; congruence|].
      cbn [negb find_gw]. rewrite (proj2 (N.eqb_eq _ _) Ew). exact Hg.
    + destruct (N.eqb (g_sid x) s); cbn [negb find_gw]; [apply IH; exact Hg|].
      rewrite Ew. apply IH. exact Hg.
Qed.

(* ------------------------------------------------------------------ sessions *)

Lemma ids_absorb : forall b sv, ids (b_sv (absorb b sv)) = ids sv.
Proof.
  intros b sv. unfold absorb, ids. cbn [b_sv sv_sessions]. rewrite map_map. apply map_ext. reflexivity.
Qed.

Lemma ids_bpush_spec : forall b, ids (b_sv (bpush_spec b)) = ids (b_sv b).
Proof. intros b. unfold bpush_spec. rewrite ids_absorb. apply ids_push_all. Qed.

(* ------------------------------------------------------------------ the supersede variant of SETDATA: same shape *)

(* who is attached, and which gateways exist with which reading state *)
Definition gshape (l : list gw) : list (sid * bool) := map (fun g => (g_sid g, g_blocked g)) l.
Definition shape (b : bserver) : list sid * list (sid * bool) := (ids (b_sv b), gshape (b_gws b)).

Lemma gshape_map : forall (f : gw -> gw) l,
  (forall g, g_sid (f g) = g_sid g) -> (forall g, g_blocked (f g) = g_blocked g) -> gshape (map f l) = gshape l.
Proof.
  intros f l Hs Hb. unfold gshape. rewrite map_map. apply map_ext. intros g. rewrite Hs, Hb. reflexivity.
Qed.

Lemma reads_gshape : forall l l' w, gshape l = gshape l' -> reads l w -> reads l' w.
Proof.
  induction l as [|x l IH]; intros l' w Hsh [g [Hg Hbl]]; cbn [find_gw] in Hg.
  - discriminate.
  - destruct l' as [|x' l']; [discriminate|]. unfold gshape in Hsh. cbn [map] in Hsh.
    inversion Hsh as [[Hsid Hblk Hrest]].
    destruct (N.eqb (g_sid x) w) eqn:E.
    + inversion Hg; subst g. exists x'. cbn [find_gw]. rewrite <- Hsid, E. split; [reflexivity|]. rewrite <- Hblk. exact Hbl.
    + destruct (IH l' w Hrest (ex_intro _ g (conj Hg Hbl))) as [g' [Hg' Hbl']].
      exists g'. cbn [find_gw]. rewrite <- Hsid, E. split; assumption.
Qed.

Lemma shape_absorb : forall b sv, shape (absorb b sv) = (ids sv, gshape (b_gws b)).
Proof.
  intros b sv. unfold shape. rewrite ids_absorb. f_equal. unfold absorb. cbn [b_gws].
  apply gshape_map; intros g; destruct (find_session (sv_sessions sv) (g_sid g)); reflexivity.
Qed.

Lemma shape_set_queue : forall b s q, shape (set_queue b s q) = shape b.
Proof.
  intros b s q. unfold shape, set_queue, upd_gw. cbn [b_sv b_gws]. f_equal.
  apply gshape_map; intros g; destruct (N.eqb (g_sid g) s); reflexivity.
Qed.

Lemma shape_prune_for : forall b s p, shape (prune_for b s p) = shape b.
Proof.
  intros b s p. unfold prune_for. destruct (get_session (b_sv b) s) as [ss|]; [|reflexivity].
  match goal with |- context [match ?x with Some _ => _ | None => _ end] => destruct x end.
  - unfold shape, with_sv. cbn [b_sv b_gws]. rewrite ids_upd_session by (intros; reflexivity). reflexivity.
  - apply shape_set_queue.
Qed.

Lemma shape_bnca_set : forall b s p d sup, shape (bnca_set b s p d sup) = shape b.
Proof.
  intros b s p d sup. unfold bnca_set. cbv zeta. rewrite shape_absorb, ids_node_changed_aux.
  destruct sup; [|reflexivity]. exact (shape_prune_for b s p).
Qed.

Lemma shape_bnode_changed : forall b s p d old sup, shape (bnode_changed b s p d old sup) = shape b.
Proof.
  intros b s p d old sup. unfold bnode_changed. destruct (get_session (b_sv b) s) as [ss|]; [|reflexivity].
  cbv zeta. outer_if; [|apply shape_bnca_set].
  destruct old; repeat outer_if; try reflexivity; try apply shape_bnca_set.
  rewrite shape_absorb, ids_node_changed_aux. reflexivity.
Qed.

Lemma shape_bnotify_changed : forall b by_ p d old sup, shape (bnotify_changed b by_ p d old sup) = shape b.
Proof.
  intros b by_ p d old sup. unfold bnotify_changed.
  destruct (find_node (sv_tree (b_sv b)) p) as [n|]; [|reflexivity].
  generalize (n_subs n). intros l. revert b. induction l as [|kc l IH]; intros b; cbn [fold_left].
  - reflexivity.
  - rewrite IH. outer_if; [reflexivity|]. apply shape_bnode_changed.
Qed.

Lemma shape_with_sv_tree : forall b t, shape (with_sv b (set_tree (b_sv b) t)) = shape b.
Proof. reflexivity. Qed.

Lemma shape_bset_data_loop : forall cl b by_ pp d dc dov q sup, shape (bset_data_loop b by_ pp cl d dc dov q sup) = shape b.
Proof.
  induction cl as [|k rest IH]; intros b by_ pp d dc dov q sup; cbn [bset_data_loop].
  - reflexivity.
  - cbv zeta. destruct (find_node (sv_tree (b_sv b)) (pp ++ [k])) as [n|].
    + destruct rest as [|k2 rest2].
      * destruct dov; [reflexivity|]. destruct q; [reflexivity|]. rewrite shape_bnotify_changed. reflexivity.
      * apply IH.
    + destruct dc; [reflexivity|]. outer_if; [reflexivity|].
      destruct rest as [|k2 rest2].
      * destruct q; [reflexivity|]. rewrite shape_bnotify_changed. reflexivity.
      * rewrite IH. destruct q; [reflexivity|]. rewrite shape_absorb, ids_notify_changed. reflexivity.
Qed.

Lemma shape_bsetsup : forall (items : list (list name * payload)) flags b s,
  shape (fold_left (fun b' it =>
                      match get_session (b_sv b') s with
                      | Some ss' => match fst it with
                                    | [] => b'
                                    | _ => bset_data_loop b' (s_id ss') (session_dir ss') (fst it) (snd it)
                                             (flag_set flags c_SETDATANODE_FLAG_DONTCREATENODE)
                                             (flag_set flags c_SETDATANODE_FLAG_DONTOVERWRITEDATA)
                                             (flag_set flags c_SETDATANODE_FLAG_QUIET) true
                                    end
                      | None => b'
                      end) items b) = shape b.
Proof.
  induction items as [|it items IH]; intros flags b s; cbn [fold_left].
  - reflexivity.
  - rewrite IH. destruct (get_session (b_sv b) s) as [ss'|]; [|reflexivity].
    destruct (fst it); [reflexivity|apply shape_bset_data_loop].
Qed.

Lemma ids_bhandle_spec : forall c nest b s, ids (b_sv (bhandle_spec fx nest b s c)) = ids (b_sv b).
Proof.
  induction c as [c0|flags items|t| |code what|keys|ids0|id keys|l IHl] using bcmd_ind'; intros nest b s;
    cbn [bhandle_spec]; destruct (get_session (b_sv b) s) as [ss|]; try reflexivity.
  - rewrite ids_absorb. apply ids_handle.
  - exact (f_equal fst (shape_bsetsup items flags b s)).
  - destruct (Nat.ltb nest max_batch_nest); [|reflexivity].
    revert b. induction IHl as [|c' r Hc' _ IHr]; intros b.
    + reflexivity.
    + rewrite IHr. rewrite ids_bpush_spec. apply Hc'.
Qed.

Lemma reads_bpush_spec : forall b w, reads (b_gws b) w -> reads (b_gws (bpush_spec b)) w.
Proof. intros b w H. unfold bpush_spec. apply reads_absorb. exact H. Qed.

(* a command of session s leaves every other gateway's reading state alone *)
Lemma reads_bhandle_spec : forall c nest b s w, s <> w ->
  reads (b_gws b) w -> reads (b_gws (bhandle_spec fx nest b s c)) w.
Proof.
  induction c as [c0|flags items|t| |code what|keys|ids0|id keys|l IHl] using bcmd_ind'; intros nest b s w Hne Hr;
    cbn [bhandle_spec]; destruct (get_session (b_sv b) s) as [ss|]; try exact Hr.
  - apply reads_absorb. exact Hr.
  - apply (reads_gshape (b_gws b)); [|exact Hr]. symmetry. exact (f_equal snd (shape_bsetsup items flags b s)).
  - unfold enqueue, upd_gw. cbn [b_gws]. apply reads_map_other; [exact Hne|reflexivity|exact Hr].
  - unfold enqueue, upd_gw. cbn [b_gws]. apply reads_map_other; [exact Hne|reflexivity|exact Hr].
  - unfold set_queue, upd_gw. cbn [b_gws]. apply reads_map_other; [exact Hne|reflexivity|exact Hr].
  - unfold set_queue, upd_gw. cbn [b_gws]. apply reads_map_other; [exact Hne|reflexivity|exact Hr].
  - unfold enqueue, upd_gw. cbn [b_gws]. apply reads_map_other; [exact Hne|reflexivity|exact Hr].
  - destruct (Nat.ltb nest max_batch_nest); [|exact Hr].
    revert b Hr. induction IHl as [|c' r Hc' _ IHr]; intros b Hr.
    + exact Hr.
    + apply IHr. apply reads_bpush_spec. apply Hc'; assumption.
Qed.

(* ------------------------------------------------------------------ the invariant *)

Lemma serving_alt : forall b w, serving b w <-> (In w (ids (b_sv b)) /\ reads (b_gws b) w).
Proof. intros b w. unfold serving, reads. rewrite get_session_ids. reflexivity. Qed.

(* one event of ANOTHER client -- any command, any nesting, arriving, leaving, not reading -- and w is still served *)
Lemma serving_step : forall b ev w, ev_sid ev <> w -> serving b w -> serving (bstep_spec fx b ev) w.
Proof.
  intros b ev w Hne Hs. apply serving_alt in Hs. destruct Hs as [Hin Hr]. apply serving_alt.
  destruct ev as [s host nm|s|s bl|s c]; cbn [ev_sid] in Hne; cbn [bstep_spec].
  - destruct (get_session (b_sv b) s) as [ss|].
    + split; [exact Hin|apply reads_flush; exact Hr].
    + split.
      * unfold flush. cbn [b_sv]. rewrite ids_absorb, ids_new_session. apply in_or_app. left. exact Hin.
      * apply reads_flush. apply reads_absorb. cbn [b_gws]. apply reads_app. exact Hr.
  - split.
    + unfold flush. cbn [b_sv]. rewrite ids_absorb, ids_detach. apply filter_In. split; [exact Hin|].
      destruct (N.eqb w s) eqn:E; [apply N.eqb_eq in E; congruence|reflexivity].
    + apply reads_flush. cbn [b_gws]. apply reads_filter; [exact Hne|]. apply reads_absorb. exact Hr.
  - split; [exact Hin|]. apply reads_flush. unfold upd_gw. cbn [b_gws].
    apply reads_map_other; [exact Hne|reflexivity|exact Hr].
  - destruct (get_session (b_sv b) s) as [ss|].
    + split.
      * unfold flush. cbn [b_sv]. rewrite ids_bpush_spec, ids_bhandle_spec. exact Hin.
      * apply reads_flush. apply reads_bpush_spec. apply reads_bhandle_spec; assumption.
    + split; [exact Hin|apply reads_flush; exact Hr].
Qed.

Lemma serving_run : forall evs b w,
  (forall ev, In ev evs -> ev_sid ev <> w) -> serving b w -> serving (brun_spec fx evs b) w.
Proof.
  induction evs as [|ev r IH]; intros b w Hall Hs; unfold brun_spec; cbn [fold_left].
  - exact Hs.
  - apply IH.
    + intros e He. apply Hall. right. exact He.
    + apply serving_step; [apply Hall; left; reflexivity|exact Hs].
Qed.

(* ------------------------------------------------------------------ the ping *)

Lemma flush_delivers : forall b w g,
  find_gw (b_gws b) w = Some g -> g_blocked g = false -> g_q g <> [] -> In (w, g_q g) (b_last (flush b)).
Proof.
  intros b w g Hg Hbl Hq. unfold flush. cbn [b_last].
  apply in_flat_map. exists g. split.
  - clear Hbl Hq. induction (b_gws b) as [|x l IH]; cbn [find_gw] in Hg.
    + discriminate.
    + destruct (N.eqb (g_sid x) w); [inversion Hg; left; reflexivity|right; apply IH; exact Hg].
  - rewrite Hbl. rewrite (find_gw_sid _ _ _ Hg). destruct (g_q g); [congruence|left; reflexivity].
Qed.

(* a served client's PING is answered in the same turn *)
Lemma ping_answered : forall b w t, serving b w -> delivered (bstep_spec fx b (BCmd w (BPing t))) w (OPong t).
Proof.
  intros b w t [[ss Hss] [g [Hg Hbl]]]. cbn [bstep_spec]. rewrite Hss. cbn [bhandle_spec]. rewrite Hss.
  pose proof (find_gw_sid _ _ _ Hg) as Hsid.
  (* after the handler: w's queue ends with the PONG *)
  assert (H1 : find_gw (b_gws (enqueue b w (OPong t))) w = Some (mkGw (g_sid g) (g_q g ++ [OPong t]) (g_blocked g))).
  { unfold enqueue, upd_gw. cbn [b_gws]. rewrite find_gw_map.
    - rewrite Hg. cbn [option_map]. rewrite Hsid, N.eqb_refl. reflexivity.
    - intros x. destruct (N.eqb (g_sid x) w); reflexivity. }
  (* after PushSubscriptionMessages: possibly more behind it *)
  assert (H2 : exists extra, find_gw (b_gws (bpush_spec (enqueue b w (OPong t)))) w
                            = Some (mkGw (g_sid g) ((g_q g ++ [OPong t]) ++ extra) (g_blocked g))).
  { unfold bpush_spec, absorb. cbn [b_gws]. rewrite find_gw_map.
    - rewrite H1. cbn [option_map g_sid g_q g_blocked].
      destruct (find_session _ (g_sid g)) as [ss1|].
      + eexists. reflexivity.
      + exists []. rewrite app_nil_r. reflexivity.
    - intros x. destruct (find_session _ (g_sid x)); reflexivity. }
  destruct H2 as [extra H2].
  exists ((g_q g ++ [OPong t]) ++ extra). split.
  - apply (flush_delivers _ w _ H2); cbn [g_blocked g_q]; [exact Hbl|].
    destruct (g_q g); discriminate.
  - apply in_or_app. left. apply in_or_app. right. left. reflexivity.
Qed.

(* witness_ping_answered: the property.  For every state in which w is served, every history of events of other
   sessions (hostile or not), w is served afterwards and its ping is answered. *)
Theorem witness_ping_answered : forall (evs : list bevent) (b : bserver) (w : sid) (t : N),
  serving b w -> (forall ev, In ev evs -> ev_sid ev <> w) ->
  serving (brun_spec fx evs b) w /\
  delivered (bstep_spec fx (brun_spec fx evs b) (BCmd w (BPing t))) w (OPong t).
Proof.
  intros evs b w t Hs Hall. split.
  - apply serving_run; assumption.
  - apply ping_answered. apply serving_run; assumption.
Qed.

(* the same on the fuelled semantics: as soon as the fuel exceeds the heaviest queued Message met (and 2), the whole
   history followed by the ping returns, and the PONG is delivered *)
Theorem witness_ping_answered_fuel : forall (fuel : nat) (evs : list bevent) (b : bserver) (w : sid) (t : N),
  serving b w -> (forall ev, In ev evs -> ev_sid ev <> w) ->
  2 <= fuel -> rpeak fx (evs ++ [BCmd w (BPing t)]) b < fuel ->
  exists b', brun fx true fuel (evs ++ [BCmd w (BPing t)]) b = Some b' /\ delivered b' w (OPong t).
Proof.
  intros fuel evs b w t Hs Hall Hf2 Hpk.
  exists (brun_spec fx (evs ++ [BCmd w (BPing t)]) b). split.
  - apply server_run_total; assumption.
  - unfold brun_spec. rewrite fold_left_app. cbn [fold_left].
    apply (witness_ping_answered evs b w t Hs Hall).
Qed.

End Serve.
