(* Refl/IsoSimBase.v -- C06, as-if-never, the vocabulary: the relation between a tree in which session s lives (the "full"
   run) and the tree of the run from which s's events were erased, and how the tree primitives of Refl/Tree.v respect it.

   [body t]: the nodes below host level, in list (= creation = child iteration) order.  Host nodes are left out of the
   relation on purpose: whether and where a host node exists is determined by the sessions (it is there iff a session lives
   on that host), and the erased run may create a host node later than the full run did.
   [rel_tree s od tF tE]: the body of tE is, node for node and in the same order, the body of tF without the nodes at or below
   s's directory [od] (if s is attached) and without s's marks in the subscriber tables. *)
From Coq Require Import List NArith ZArith Bool Arith Lia.
From Muscle Require Import Refl.Base Refl.BaseProofs Refl.Tree Refl.TreeProofs Refl.IsoBase.
Import ListNotations.

Definition nonhost (n : node) : bool := Nat.leb 2 (length (n_path n)).
Definition body (t : tree) : tree := filter nonhost t.

Definition hidden (od : option path) (p : path) : bool :=
  match od with Some d => is_prefix d p | None => false end.

Definition vis (od : option path) (n : node) : bool := nonhost n && negb (hidden od (n_path n)).

Definition rel_tree (s : sid) (od : option path) (tF tE : tree) : Prop :=
  body tE = map (strip s) (filter (vis od) tF).

(* ------------------------------------------------------------------ subscriber tables: s's entry commutes with everybody else's *)

Lemma tbl_get_without : forall tb s k, k <> s -> tbl_get (tbl_without s tb) k = tbl_get tb k.
Proof.
  unfold tbl_without. induction tb as [|[k0 c0] r IH]; intros s k Hk; cbn; [reflexivity|].
  destruct (N.eqb k0 s) eqn:E; cbn.
  - apply N.eqb_eq in E. subst k0. destruct (N.eqb s k) eqn:E2; [apply N.eqb_eq in E2; congruence|]. now apply IH.
  - destruct (N.eqb k0 k); [reflexivity|now apply IH].
Qed.

Lemma tbl_without_put_other : forall tb s k c, k <> s -> tbl_without s (tbl_put tb k c) = tbl_put (tbl_without s tb) k c.
Proof.
  unfold tbl_without. induction tb as [|[k0 c0] r IH]; intros s k c Hk; cbn.
  - assert (N.eqb k s = false) as -> by now apply N.eqb_neq. reflexivity.
  - destruct (N.eqb k0 k) eqn:E; cbn.
    + apply N.eqb_eq in E. subst k0. assert (N.eqb k s = false) as -> by now apply N.eqb_neq. cbn. now rewrite N.eqb_refl.
    + destruct (N.eqb k0 s); cbn; [now apply IH|]. rewrite E. now rewrite IH.
Qed.

Lemma tbl_without_remove_other : forall tb s k, k <> s -> tbl_without s (tbl_remove tb k) = tbl_remove (tbl_without s tb) k.
Proof.
  unfold tbl_without. induction tb as [|[k0 c0] r IH]; intros s k Hk; cbn; [reflexivity|].
  destruct (N.eqb k0 k) eqn:E; cbn.
  - apply N.eqb_eq in E. subst k0. assert (N.eqb k s = false) as -> by now apply N.eqb_neq. cbn. now rewrite N.eqb_refl.
  - destruct (N.eqb k0 s); cbn; [now apply IH|]. rewrite E. now rewrite IH.
Qed.

Lemma tbl_without_adjust_other : forall tb s k d, k <> s -> tbl_without s (tbl_adjust tb k d) = tbl_adjust (tbl_without s tb) k d.
Proof.
  intros tb s k d Hk. unfold tbl_adjust. destruct (Z.eqb d 0); [reflexivity|].
  rewrite (tbl_get_without tb s k Hk).
  match goal with |- context [if N.ltb 0 ?x then _ else _] => destruct (N.ltb 0 x) end.
  - now apply tbl_without_put_other.
  - now apply tbl_without_remove_other.
Qed.

Lemma tbl_without_idem : forall tb s, tbl_without s (tbl_without s tb) = tbl_without s tb.
Proof.
  unfold tbl_without. induction tb as [|[k c] r IH]; intros s; cbn; [reflexivity|].
  destruct (N.eqb k s) eqn:E; cbn; [apply IH|]. rewrite E. cbn. now rewrite IH.
Qed.

Lemma tbl_without_absent : forall tb s, ~ In s (map fst tb) -> tbl_without s tb = tb.
Proof.
  unfold tbl_without. induction tb as [|[k c] r IH]; intros s H; cbn; [reflexivity|].
  destruct (N.eqb k s) eqn:E.
  - apply N.eqb_eq in E. subst. exfalso. apply H. now left.
  - cbn. f_equal. apply IH. intros Hin. apply H. now right.
Qed.

(* ------------------------------------------------------------------ nodes *)

Lemma strip_path : forall s n, n_path (strip s n) = n_path n.
Proof. reflexivity. Qed.

Lemma strip_data : forall s n, n_data (strip s n) = n_data n.
Proof. reflexivity. Qed.

Lemma strip_idem : forall s n, strip s (strip s n) = strip s n.
Proof. intros. unfold strip. cbn [n_path n_data n_subs]. now rewrite tbl_without_idem. Qed.

Lemma nonhost_strip : forall s n, nonhost (strip s n) = nonhost n.
Proof. reflexivity. Qed.

(* ------------------------------------------------------------------ lookup *)

Lemma find_node_filter : forall (f : node -> bool) t p,
  (forall n, n_path n = p -> f n = true) -> find_node (filter f t) p = find_node t p.
Proof.
  intros f t p Hf. induction t as [|n r IH]; cbn; [reflexivity|].
  destruct (path_eqb (n_path n) p) eqn:E.
  - apply path_eqb_eq in E. rewrite (Hf n E). cbn. apply path_eqb_eq in E. now rewrite E.
  - destruct (f n); cbn; [rewrite E|]; exact IH.
Qed.

Lemma find_node_map_strip : forall s t p, find_node (map (strip s) t) p = option_map (strip s) (find_node t p).
Proof.
  intros s t p. induction t as [|n r IH]; cbn; [reflexivity|]. destruct (path_eqb (n_path n) p); [reflexivity|exact IH].
Qed.

(* a visible path below host level is looked up alike on both sides *)
Lemma rel_find : forall s od tF tE p, rel_tree s od tF tE -> 2 <= length p -> hidden od p = false ->
  find_node tE p = option_map (strip s) (find_node tF p).
Proof.
  intros s od tF tE p R Hl Hh.
  rewrite <- (find_node_filter nonhost tE p).
  - fold (body tE). rewrite R, find_node_map_strip. f_equal. apply find_node_filter.
    intros n Hn. unfold vis, nonhost. rewrite Hn, Hh. apply Nat.leb_le in Hl. now rewrite Hl.
  - intros n Hn. unfold nonhost. rewrite Hn. now apply Nat.leb_le.
Qed.

Lemma rel_has_node : forall s od tF tE p, rel_tree s od tF tE -> 2 <= length p -> hidden od p = false ->
  has_node tE p = has_node tF p.
Proof.
  intros s od tF tE p R Hl Hh. unfold has_node. rewrite (rel_find s od tF tE p R Hl Hh). destruct (find_node tF p); reflexivity.
Qed.

(* ------------------------------------------------------------------ updates *)

Lemma body_app : forall a b, body (a ++ b) = body a ++ body b.
Proof. intros. unfold body. apply filter_app. Qed.

(* a visible node below host level is appended on both sides *)
Lemma rel_add : forall s od tF tE nF nE, rel_tree s od tF tE -> nE = strip s nF -> vis od nF = true ->
  rel_tree s od (add_node tF nF) (add_node tE nE).
Proof.
  intros s od tF tE nF nE R HE Hv. unfold rel_tree, add_node in *. rewrite body_app, filter_app, map_app, R. f_equal.
  assert (Hn : nonhost nF = true) by (unfold vis in Hv; apply andb_true_iff in Hv; tauto).
  unfold body. cbn [filter]. rewrite Hv. subst nE. rewrite nonhost_strip, Hn. reflexivity.
Qed.

Lemma filter_map_pres : forall (A : Type) (f : A -> bool) (g : A -> A) l, (forall n, f (g n) = f n) -> filter f (map g l) = map g (filter f l).
Proof.
  intros A f g l H. induction l as [|n r IH]; [reflexivity|]. cbn [map filter]. rewrite H. destruct (f n); cbn [map]; now rewrite IH.
Qed.

(* the same path-preserving rewriting of the nodes on both sides, commuting with the erasure *)
Lemma rel_map : forall s od tF tE (gF gE : node -> node), rel_tree s od tF tE ->
  (forall n, n_path (gF n) = n_path n) -> (forall n, n_path (gE n) = n_path n) ->
  (forall n, strip s (gF n) = gE (strip s n)) ->
  rel_tree s od (map gF tF) (map gE tE).
Proof.
  intros s od tF tE gF gE R HF HE Hc. unfold rel_tree in *. unfold body in *.
  rewrite (filter_map_pres _ nonhost gE) by (intros n; unfold nonhost; now rewrite HE).
  rewrite (filter_map_pres _ (vis od) gF) by (intros n; unfold vis, nonhost; now rewrite HF).
  rewrite R, !map_map. apply map_ext. intros n. symmetry. apply Hc.
Qed.

Lemma filter_comm : forall (A : Type) (f g : A -> bool) l, filter f (filter g l) = filter g (filter f l).
Proof.
  intros A f g l. induction l as [|n r IH]; [reflexivity|]. cbn [filter].
  destruct (g n) eqn:G, (f n) eqn:F; cbn [filter]; rewrite ?G, ?F; now rewrite IH.
Qed.

(* the same nodes filtered away on both sides (by a test on the path) *)
Lemma rel_filter : forall s od tF tE (keep : path -> bool), rel_tree s od tF tE ->
  rel_tree s od (filter (fun n => keep (n_path n)) tF) (filter (fun n => keep (n_path n)) tE).
Proof.
  intros s od tF tE keep R. unfold rel_tree, body in *.
  rewrite filter_comm, R.
  rewrite (filter_map_pres _ (fun n => keep (n_path n)) (strip s)) by reflexivity.
  now rewrite (filter_comm _ (vis od)).
Qed.

Lemma rel_prune : forall s od tF tE p, rel_tree s od tF tE -> rel_tree s od (prune_tree tF p) (prune_tree tE p).
Proof. intros. unfold prune_tree. now apply (rel_filter s od tF tE (fun q => negb (is_prefix p q))). Qed.

Lemma rel_set_data : forall s od tF tE p d, rel_tree s od tF tE -> rel_tree s od (set_data tF p d) (set_data tE p d).
Proof.
  intros s od tF tE p d R. unfold set_data, map_node. apply rel_map; [exact R| | |].
  - intros n. destruct (path_eqb (n_path n) p); reflexivity.
  - intros n. destruct (path_eqb (n_path n) p); reflexivity.
  - intros n. cbn. destruct (path_eqb (n_path n) p); reflexivity.
Qed.

(* ------------------------------------------------------------------ children *)

Lemma children_body : forall t x, x <> [] -> children t x = children (body t) x.
Proof.
  intros t x Hx. unfold children, body. induction t as [|n r IH]; [reflexivity|]. cbn [filter].
  destruct (is_child x (n_path n)) eqn:C.
  - assert (Hn : nonhost n = true).
    { pose proof C as C'. apply is_child_spec in C' as [k Hk]. unfold nonhost. apply Nat.leb_le. rewrite Hk, app_length. cbn.
      destruct x; [congruence|cbn; lia]. }
    rewrite Hn. cbn [filter]. rewrite C. now rewrite IH.
  - destruct (nonhost n); cbn [filter]; [rewrite C|]; exact IH.
Qed.

(* below a visible node that is not the parent of a hidden directory, both sides have the same children *)
Lemma rel_children : forall s od tF tE x, rel_tree s od tF tE -> x <> [] ->
  (forall k, hidden od (x ++ [k]) = false) ->
  children tE x = map (strip s) (children tF x).
Proof.
  intros s od tF tE x R Hx Hh. rewrite (children_body tE x Hx), R. clear R. unfold children.
  induction tF as [|n r IH]; [reflexivity|]. cbn [filter].
  destruct (is_child x (n_path n)) eqn:C.
  - assert (Hv : vis od n = true).
    { pose proof C as C'. apply is_child_spec in C' as [k Hk]. unfold vis, nonhost. rewrite Hk, Hh. cbn [negb]. rewrite andb_true_r.
      apply Nat.leb_le. rewrite app_length. destruct x; [congruence|]. cbn [length]. lia. }
    rewrite Hv. cbn [map filter]. rewrite strip_path, C. cbn [map]. now rewrite IH.
  - destruct (vis od n); cbn [map filter]; [rewrite strip_path, C|]; exact IH.
Qed.

Lemma rel_get_child : forall s od tF tE x k, rel_tree s od tF tE -> x <> [] -> hidden od (x ++ [k]) = false ->
  get_child tE x k = option_map (strip s) (get_child tF x k).
Proof.
  intros s od tF tE x k R Hx Hh. unfold get_child. apply (rel_find s od); [exact R| |exact Hh].
  rewrite app_length. cbn. destruct x; [congruence|cbn; lia].
Qed.
