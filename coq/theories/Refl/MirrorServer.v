(* Refl/MirrorServer.v -- what the update machinery of the server does to a subscriber's *virtual mirror*:
   the mirror its client will hold once everything queued for it (sent but not yet applied, and pending)
   has been applied.  Flushes do not change it, so max-items batching and the forced flush are invisible
   at this level. *)
From Coq Require Import List NArith ZArith Bool Arith Lia.
From Muscle Require Import Refl.Base Refl.BaseProofs Refl.Tree Refl.TreeProofs Refl.Matcher Refl.MatcherProofs
     Refl.Traverse Refl.Session Refl.Server Refl.ServerProofs Refl.Mirror Refl.MirrorBase.
Import ListNotations.

Section VM.
Context {M : MatchOps} {L : MatchLaws M}.
Variable mir : mirror.          (* what the client holds now *)

Definition vm (ss : session) : mirror :=
  let m1 := apply_all mir (s_out ss) in
  match s_pending ss with Some d => apply_di m1 d | None => m1 end.

(* the virtual mirror of the session with id o, read at path q (None: no such session) *)
Definition V (sv : server) (o : sid) (q : path) : option (option payload) :=
  option_map (fun ss => mirror_get (vm ss) q) (get_session sv o).

Lemma apply_all_snoc : forall m ds d, apply_all m (ds ++ [d]) = apply_di (apply_all m ds) d.
Proof. intros m ds d. unfold apply_all. now rewrite fold_left_app. Qed.

Lemma vm_push : forall ss, vm (push_pending ss) = vm ss.
Proof.
  intros ss. unfold push_pending. destruct (s_pending ss) as [d|] eqn:E; [|reflexivity].
  unfold vm. cbn [set_pending send s_out s_pending]. rewrite apply_all_snoc. now rewrite E.
Qed.

Lemma apply_di_empty : forall m q, mirror_get (apply_di m empty_di) q = mirror_get m q.
Proof. intros m q. rewrite apply_di_get. reflexivity. Qed.

(* ------------------------------------------------------------------ pending Messages are well formed; dirty says so *)

Definition pend_ok (sv : server) : Prop :=
  (forall ss d, In ss (sv_sessions sv) -> s_pending ss = Some d -> di_ok d)
  /\ ((exists ss, In ss (sv_sessions sv) /\ s_pending ss <> None) -> sv_dirty sv = true).

Lemma V_push_all : forall sv o q, V (push_all sv) o q = V sv o q.
Proof.
  intros sv o q. unfold V, push_all. destruct (sv_dirty sv); auto.
  unfold get_session. cbn [sv_sessions].
  induction (sv_sessions sv) as [|x l IH]; cbn; auto.
  assert (E : s_id (push_pending x) = s_id x) by (unfold push_pending; destruct (s_pending x); reflexivity).
  rewrite E. destruct (N.eqb (s_id x) o); auto. cbn. now rewrite vm_push.
Qed.

Lemma pend_ok_push_all : forall sv, pend_ok sv -> pend_ok (push_all sv).
Proof.
  intros sv Hpo. unfold push_all. destruct (sv_dirty sv) eqn:Ed; [|exact Hpo]. destruct Hpo as [H1 H2].
  split; cbn [sv_sessions sv_dirty].
  - intros ss d Hin Hp. apply in_map_iff in Hin as [x [Hx _]]. subst ss.
    unfold push_pending in Hp. destruct (s_pending x) eqn:E; cbn in Hp; congruence.
  - intros [ss [Hin Hp]]. apply in_map_iff in Hin as [x [Hx _]]. subst ss.
    exfalso. apply Hp. unfold push_pending. destruct (s_pending x) eqn:E; [reflexivity|exact E].
Qed.

Lemma push_all_no_pending : forall sv, pend_ok sv -> forall ss, In ss (sv_sessions (push_all sv)) -> s_pending ss = None.
Proof.
  intros sv [H1 H2] ss Hin. unfold push_all in Hin. destruct (sv_dirty sv) eqn:Ed.
  - cbn in Hin. apply in_map_iff in Hin as [x [Hx _]]. subst ss. unfold push_pending. destruct (s_pending x) eqn:E; [reflexivity|exact E].
  - destruct (s_pending ss) eqn:E; auto. exfalso.
    assert (false = true); [|discriminate]. apply H2. exists ss. split; auto. congruence.
Qed.

Lemma V_upd_other : forall sv s f o q, (forall x, s_id (f x) = s_id x) -> s <> o ->
  V (upd_session sv s f) o q = V sv o q.
Proof.
  intros sv s f o q Hf Hne. unfold V. rewrite get_session_upd by auto.
  apply N.eqb_neq in Hne. now rewrite Hne.
Qed.

Lemma V_set_dirty : forall sv b o q, V (set_dirty sv b) o q = V sv o q.
Proof. reflexivity. Qed.

Lemma V_set_tree : forall sv t o q, V (set_tree sv t) o q = V sv o q.
Proof. reflexivity. Qed.

(* ------------------------------------------------------------------ NodeChangedAux *)

Lemma pend_ok_upd : forall sv s d, pend_ok sv -> di_ok d ->
  pend_ok (set_dirty (upd_session sv s (fun x => set_pending x (Some d))) true).
Proof.
  intros sv s d [H1 H2] Hd. split; cbn [sv_sessions sv_dirty set_dirty upd_session]; auto.
  intros ss d' Hin Hp. apply in_map_iff in Hin as [x [Hx Hin]]. subst ss.
  destruct (N.eqb (s_id x) s); [cbn in Hp; congruence|eauto].
Qed.

Lemma pending_or_new_ok : forall sv ss, pend_ok sv -> In ss (sv_sessions sv) -> di_ok (pending_or_new ss).
Proof.
  intros sv ss [H1 _] Hin. unfold pending_or_new. destruct (s_pending ss) eqn:E; [eauto|apply empty_di_ok].
Qed.

Lemma pend_ok_nca : forall sv s p d r, pend_ok sv -> pend_ok (node_changed_aux sv s p d r).
Proof.
  intros sv s p d r H. unfold node_changed_aux.
  destruct (get_session sv s) as [ss|] eqn:Hss; auto.
  assert (Hin : In ss (sv_sessions sv)) by (apply find_session_some in Hss; tauto).
  pose proof (pending_or_new_ok sv ss H Hin) as Hpo.
  cbv zeta.
  match goal with |- pend_ok (match get_session ?X s with _ => _ end) => set (sv1 := X) end.
  assert (H1 : pend_ok sv1).
  { unfold sv1. destruct r.
    - destruct (di_has_set (pending_or_new ss) p).
      + apply pend_ok_upd; [|apply di_add_removed_ok, empty_di_ok].
        apply pend_ok_push_all. now apply pend_ok_upd.
      + apply pend_ok_upd; auto.
    - apply pend_ok_upd; auto. now apply di_add_set_ok. }
  destruct (get_session sv1 s) as [ss1|]; auto.
  destruct (s_pending ss1); auto.
  destruct (N.leb _ _); auto. now apply pend_ok_push_all.
Qed.

(* the effect on the session being told, and on everybody else *)
Lemma V_nca : forall sv s p d r o q, pend_ok sv -> (exists ss, get_session sv s = Some ss) ->
  V (node_changed_aux sv s p d r) o q
  = if N.eqb o s && path_eqb p q
    then option_map (fun _ => if r then None else Some d) (get_session sv o)
    else V sv o q.
Proof.
  intros sv s p d r o q Hpo [ss Hss]. unfold node_changed_aux. rewrite Hss. cbv zeta.
  assert (Hin : In ss (sv_sessions sv)) by (apply find_session_some in Hss; tauto).
  pose proof (pending_or_new_ok sv ss Hpo Hin) as Hdo.
  (* the final flush never matters *)
  match goal with |- V (match get_session ?X s with _ => _ end) o q = _ => set (sv1 := X) end.
  assert (Hfin : forall Y, V (match get_session sv1 s with
                              | Some ss1 => match s_pending ss1 with
                                            | Some pd => if N.leb (s_max ss1) (di_num_names pd) then push_all sv1 else sv1
                                            | None => sv1
                                            end
                              | None => sv1
                              end) o q = Y <-> V sv1 o q = Y).
  { intros Y. destruct (get_session sv1 s) as [ss1|]; [|reflexivity].
    destruct (s_pending ss1); [|reflexivity]. destruct (N.leb _ _); [|reflexivity]. now rewrite V_push_all. }
  apply Hfin. clear Hfin. unfold sv1. clear sv1.
  destruct (N.eqb o s) eqn:Eos; cbn [andb].
  - (* the session told *)
    apply N.eqb_eq in Eos. subst o.
    assert (Hvm : forall f, V (upd_session sv s f) s q = option_map (fun x => mirror_get (vm (f x)) q) (get_session sv s)
                  \/ True) by (intros; now right).
    clear Hvm.
    assert (Hbase : mirror_get (vm ss) q
                    = mirror_get (apply_di (apply_all mir (s_out ss)) (pending_or_new ss)) q).
    { unfold vm, pending_or_new. destruct (s_pending ss); [reflexivity|]. now rewrite apply_di_empty. }
    destruct r.
    + destruct (di_has_set (pending_or_new ss) p) eqn:Ehs.
      * (* flush, then a fresh Message holding the removal *)
        set (svA := set_dirty (upd_session sv s (fun x => set_pending x (Some (pending_or_new ss)))) true).
        assert (HpA : pend_ok svA) by (now apply pend_ok_upd).
        assert (HVA : forall q', V svA s q' = Some (mirror_get (vm ss) q')).
        { intros q'. unfold svA. rewrite V_set_dirty. unfold V. rewrite get_session_upd by reflexivity.
          rewrite N.eqb_refl, Hss. cbn [option_map]. f_equal. unfold vm at 1. cbn [set_pending s_out s_pending].
          unfold vm, pending_or_new. destruct (s_pending ss); [reflexivity|]. now rewrite apply_di_empty. }
        assert (HVp : forall q', V (push_all svA) s q' = Some (mirror_get (vm ss) q')).
        { intros q'. now rewrite V_push_all. }
        unfold V in HVp.
        destruct (get_session (push_all svA) s) as [ssp|] eqn:Hssp; [|specialize (HVp q); discriminate].
        assert (Hnp : s_pending ssp = None).
        { apply (push_all_no_pending svA HpA). apply find_session_some in Hssp. tauto. }
        rewrite V_set_dirty. unfold V. rewrite get_session_upd by reflexivity. rewrite N.eqb_refl, Hssp, Hss.
        cbn [option_map]. f_equal. unfold vm at 1. cbn [set_pending s_out s_pending].
        rewrite apply_di_get, di_lookup_add_removed by reflexivity.
        destruct (path_eqb p q); [reflexivity|].
        specialize (HVp q). cbn [option_map] in HVp. rewrite <- HVp.
        unfold di_lookup. cbn. unfold vm. now rewrite Hnp.
      * rewrite V_set_dirty. unfold V. rewrite get_session_upd by reflexivity. rewrite N.eqb_refl, Hss.
        cbn [option_map]. f_equal. unfold vm at 1. cbn [set_pending s_out s_pending].
        rewrite apply_di_get, di_lookup_add_removed by exact Ehs.
        destruct (path_eqb p q); [reflexivity|]. rewrite Hbase, apply_di_get. reflexivity.
    + rewrite V_set_dirty. unfold V. rewrite get_session_upd by reflexivity. rewrite N.eqb_refl, Hss.
      cbn [option_map]. f_equal. unfold vm at 1. cbn [set_pending s_out s_pending].
      rewrite apply_di_get, di_lookup_add_set by exact Hdo.
      destruct (path_eqb p q); [reflexivity|]. rewrite Hbase, apply_di_get. reflexivity.
  - (* somebody else *)
    apply N.eqb_neq in Eos. assert (Hne : s <> o) by congruence.
    destruct r.
    + destruct (di_has_set (pending_or_new ss) p).
      * rewrite V_set_dirty, V_upd_other, V_push_all, V_set_dirty, V_upd_other by (auto; reflexivity). reflexivity.
      * rewrite V_set_dirty, V_upd_other by (auto; reflexivity). reflexivity.
    + rewrite V_set_dirty, V_upd_other by (auto; reflexivity). reflexivity.
Qed.

End VM.
