(* Refl/IsoHosts.v -- C06: the host nodes are determined by the sessions.
   In every reachable state a node of depth 1 exists iff some attached session lives on that host, and it carries the empty
   Message.  (Together with the counting invariant of Refl/ServerProofs.v this fixes everything about host nodes, which is why
   the as-if-never relation of Refl/IsoSimBase.v can leave them out.) *)
From Coq Require Import List NArith ZArith Bool Arith Lia.
From Muscle Require Import Gen.Consts Refl.Base Refl.BaseProofs Refl.Tree Refl.TreeProofs Refl.Matcher Refl.MatcherProofs
     Refl.Traverse Refl.TraverseSpec Refl.Session Refl.Server Refl.ServerProofs Refl.IsoModel Refl.IsoBase Refl.IsoFrame
     Refl.IsoDetach Refl.IsoRun.
Import ListNotations.

Section Hosts.
Context {M : MatchOps} {L : MatchLaws M}.
Variable fx : fixes.
Hypothesis guard_on : fx_guard fx = true.

Definition hosts_ok (sv : server) : Prop :=
  forall n, In n (sv_tree sv) -> length (n_path n) = 1 ->
            n_data n = empty_payload /\ exists x, In x (sv_sessions sv) /\ [s_host x] = n_path n.

Lemma hosts_ok_same_state : forall sv sv', same_state sv sv' -> hosts_ok sv -> hosts_ok sv'.
Proof.
  intros sv sv' [Ht Hp] H n Hn Hl. rewrite Ht in Hn. destruct (H n Hn Hl) as [Hd [x [Hx1 Hx2]]]. split; [exact Hd|].
  unfold all_params in Hp.
  assert (Hin : In (sparams x) (map sparams (sv_sessions sv'))) by (rewrite Hp; now apply in_map).
  apply in_map_iff in Hin as [y [Hy1 Hy2]]. exists y. split; [exact Hy2|].
  assert (s_host y = s_host x) by exact (f_equal (fun c => snd (fst (fst (fst c)))) Hy1). congruence.
Qed.

(* anything that respects some session's frame leaves the host nodes alone *)
Lemma hosts_ok_frame : forall sv sv' k dir, length dir = 2 -> frame k dir sv sv' -> hosts_ok sv -> hosts_ok sv'.
Proof.
  intros sv sv' k dir Hdl [Hfv [_ Hid]] H n' Hn' Hl.
  assert (Hout : outside dir n' = true).
  { unfold outside. apply negb_true_iff. destruct (is_prefix dir (n_path n')) eqn:E; [|reflexivity].
    apply is_prefix_length in E. lia. }
  assert (Hin : In (strip k n') (foreign_view k dir (sv_tree sv'))).
  { unfold foreign_view. apply in_map. apply filter_In. now split. }
  rewrite Hfv in Hin. unfold foreign_view in Hin. apply in_map_iff in Hin as [n [Hs Hn]]. apply filter_In in Hn as [Hn _].
  assert (Hp : n_path n = n_path n') by exact (f_equal n_path Hs). assert (Hd : n_data n = n_data n') by exact (f_equal n_data Hs).
  destruct (H n Hn) as [Hd0 [x [Hx1 Hx2]]]; [now rewrite Hp|]. split; [congruence|].
  unfold idents in Hid.
  assert (Hi : In (sident x) (map sident (sv_sessions sv'))) by (rewrite Hid; now apply in_map).
  apply in_map_iff in Hi as [y [Hy1 Hy2]]. exists y. split; [exact Hy2|].
  assert (s_host y = s_host x) by exact (f_equal (fun c => snd (fst c)) Hy1). congruence.
Qed.

Lemma hosts_ok_attach : forall sv k host nm, hosts_ok sv -> hosts_ok (attach sv k host nm).
Proof.
  intros sv k host nm H. unfold attach.
  set (ss := mkSession k host nm empty_matcher default_max_items None []).
  set (sv0 := mkServer (sv_tree sv) (sv_sessions sv ++ [ss]) (sv_dirty sv)).
  assert (H0 : hosts_ok sv0).
  { intros n Hn Hl. destruct (H n Hn Hl) as [Hd [x [Hx1 Hx2]]]. split; [exact Hd|]. exists x. split; [|exact Hx2].
    unfold sv0. cbn [sv_sessions]. apply in_or_app. now left. }
  match goal with |- hosts_ok (push_all (notify_changed (set_tree ?X _) _ _ _ _ _)) => set (sv1 := X) end.
  assert (H1 : hosts_ok sv1).
  { unfold sv1. destruct (has_node (sv_tree sv0) [host]); [exact H0|].
    eapply hosts_ok_same_state; [apply notify_changed_same|].
    intros n Hn Hl. cbn [sv_tree set_tree] in Hn. unfold add_node in Hn. apply in_app_or in Hn as [Hn|[Hn|[]]].
    - destruct (H0 n Hn Hl) as [Hd X]. split; [exact Hd|exact X].
    - subst n. cbn [n_data n_path]. split; [reflexivity|]. exists ss. split; [|reflexivity].
      cbn [sv_sessions set_tree sv0]. apply in_or_app. right. now left. }
  eapply hosts_ok_same_state; [eapply same_state_trans; [apply notify_changed_same|apply push_all_same]|].
  intros n Hn Hl. cbn [sv_tree set_tree] in Hn. unfold add_node in Hn. apply in_app_or in Hn as [Hn|[Hn|[]]].
  - exact (H1 n Hn Hl).
  - subst n. cbn [n_path length] in Hl. discriminate.
Qed.

Lemma hosts_ok_detach : forall B sv k, inv B sv -> hosts_ok sv -> hosts_ok (detach fx sv k).
Proof.
  intros B sv k I H. destruct (get_session sv k) as [ss|] eqn:Hs; [|unfold detach; now rewrite Hs].
  destruct (detach_shape fx guard_on B sv k ss I Hs) as [Ht Hcore].
  assert (Hid : s_id ss = k) by (apply find_session_some in Hs; tauto).
  intros n' Hn' Hl. rewrite Ht in Hn'. unfold tree_without in Hn'. apply in_map_iff in Hn' as [n [Hn1 Hn2]].
  assert (Hp : n_path n' = n_path n) by (subst n'; destruct (matches_node _ _ _ _); reflexivity).
  assert (Hd : n_data n' = n_data n) by (subst n'; destruct (matches_node _ _ _ _); reflexivity).
  set (t1 := prune_tree (sv_tree sv) (session_dir ss)) in *.
  (* a witness among the remaining sessions *)
  assert (Hwit : exists x, In x (sv_sessions sv) /\ s_id x <> k /\ [s_host x] = n_path n).
  { assert (Hn : In n t1) by (destruct (has_children t1 [s_host ss]); [exact Hn2|apply in_prune in Hn2; tauto]).
    apply in_prune in Hn as [Hn _]. destruct (H n Hn) as [_ [x [Hx1 Hx2]]]; [now rewrite <- Hp|].
    destruct (N.eq_dec (s_id x) k) as [E|E]; [|exists x; now repeat split].
    (* the only known witness is the departing session: then the host node survived because it still has a child *)
    assert (x = ss) by (apply (session_unique sv k ss x (inv_ids _ _ _ I) Hs Hx1 E)). subst x.
    destruct (has_children t1 [s_host ss]) eqn:Hch.
    - unfold has_children in Hch. destruct (children t1 [s_host ss]) as [|c cs] eqn:Ec; [discriminate|].
      assert (Hc : In c (children t1 [s_host ss])) by (rewrite Ec; now left).
      apply children_in in Hc as [Hc1 [j Hj]]. apply in_prune in Hc1 as [Hc1 Hc2].
      destruct (inv_depth2 _ _ _ I c Hc1) as [y [Hy1 Hy2]]; [rewrite Hj; reflexivity|].
      exists y. split; [exact Hy1|]. rewrite Hj in Hy2. unfold session_dir in Hy2. cbn in Hy2.
      split; [|rewrite <- Hx2; f_equal; congruence].
      intros E2. assert (y = ss) by (apply (session_unique sv k ss y (inv_ids _ _ _ I) Hs Hy1 E2)). subst y.
      assert (Hpc : n_path c = session_dir ss) by (rewrite Hj; unfold session_dir; cbn; congruence).
      rewrite Hpc, is_prefix_refl in Hc2. discriminate.
    - apply in_prune in Hn2 as [_ Hn2]. rewrite <- Hx2, is_prefix_refl in Hn2. discriminate. }
  destruct Hwit as [x [Hx1 [Hx2 Hx3]]].
  split.
  - rewrite Hd. assert (Hn : In n (sv_tree sv)).
    { assert (Hn : In n t1) by (destruct (has_children t1 [s_host ss]); [exact Hn2|apply in_prune in Hn2; tauto]). apply in_prune in Hn. tauto. }
    apply (H n Hn). now rewrite <- Hp.
  - assert (Hi : In (core x) (map core (sv_sessions (detach fx sv k)))).
    { rewrite Hcore. apply in_map. apply filter_In. split; [exact Hx1|]. apply negb_true_iff. now apply N.eqb_neq. }
    apply in_map_iff in Hi as [y [Hy1 Hy2]]. exists y. split; [exact Hy2|]. rewrite Hp, <- Hx3. f_equal.
    unfold core in Hy1. congruence.
Qed.

Lemma hosts_ok_clear_ducks : forall B xs, small B -> inv B (xs_sv xs) -> hosts_ok (xs_sv xs) -> hosts_ok (xs_sv (clear_ducks fx xs)).
Proof.
  intros B xs HB. unfold clear_ducks. generalize (xs_ducks xs). intros l. revert xs.
  induction l as [|d l IH]; intros xs I H; cbn [fold_left]; [exact H|]. apply IH; cbn [xs_sv xdetach].
  - now apply detach_inv.
  - now apply (hosts_ok_detach B).
Qed.

Lemma hosts_ok_xstep : forall ev xs B, small (B + xev_budget ev) -> inv B (xs_sv xs) -> hosts_ok (xs_sv xs) ->
  hosts_ok (xs_sv (xstep fx xs ev)).
Proof.
  intros [k host nm bits|k|k c] xs B HB I H; cbn [xstep xev_budget] in *.
  - destruct (get_session _ _); [exact H|]. cbn [xs_sv xattach]. now apply hosts_ok_attach.
  - cbn [xs_sv xdetach]. now apply (hosts_ok_detach B).
  - destruct (get_session (xs_sv xs) k) as [a|] eqn:Ha; [|exact H]. cbv zeta.
    assert (I1 : inv (B + xcmd_budget c) (xs_sv (xhandle fx 0 xs k c))) by now apply (xhandle_inv fx guard_on).
    apply (hosts_ok_clear_ducks (B + xcmd_budget c)); [exact HB| |]; cbn [xs_sv with_sv].
    + eapply inv_same_core; [apply push_all_core|exact I1].
    + eapply hosts_ok_same_state; [apply push_all_same|].
      pose proof (xhandle_xframe fx c 0 xs k a Ha) as [Fr _].
      apply (hosts_ok_frame (xs_sv xs) _ k (session_dir a)); [reflexivity|exact Fr|exact H].
Qed.

Theorem reachable_hosts_ok : forall evs xs B, small (B + xrun_budget evs) -> inv B (xs_sv xs) -> hosts_ok (xs_sv xs) ->
  xwf_run fx xs evs -> hosts_ok (xs_sv (xrun fx evs xs)).
Proof.
  induction evs as [|ev evs IH]; intros xs B HB I H Hwf; cbn [xrun fold_left xrun_budget] in *; [exact H|].
  destruct Hwf as [Hw1 Hw2].
  assert (HBe : small (B + xev_budget ev)) by (eapply small_le; [|exact HB]; lia).
  apply (IH _ (B + xev_budget ev)); [now rewrite <- Nat.add_assoc| | |exact Hw2].
  - now apply (xstep_inv fx guard_on).
  - now apply (hosts_ok_xstep ev xs B).
Qed.

(* the converse: a session's host node exists (its directory does, and the tree is closed under parents) *)
Lemma host_of_session : forall B sv x, inv B sv -> In x (sv_sessions sv) -> has_node (sv_tree sv) [s_host x] = true.
Proof.
  intros B sv x I Hx. pose proof (inv_dirs_exist B sv x I Hx) as Hd. apply has_node_spec in Hd as [n [H1 H2]].
  destruct (inv_tree _ _ _ I) as [_ [_ Hpre]].
  destruct (Hpre n [s_host x] [s_name x] H1 H2) as [n' [H3 H4]]; [discriminate|]. apply has_node_spec. eauto.
Qed.

End Hosts.
