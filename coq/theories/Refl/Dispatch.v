(* Refl/Dispatch.v -- C07: the `switch(msg.what)` of StorageReflectSession::MessageReceivedFromGateway (561-893) over the
   regenerated protocol constants: which handler a what-code reaches.  Definitions only. *)
From Coq Require Import List NArith Bool.
From Muscle Require Import Gen.Consts.
Import ListNotations.
Local Open Scope N_scope.

Inductive handler :=
| HSetParameters | HGetParameters | HRemoveParameters | HSetData | HGetData | HRemoveData | HJettisonResults
| HInsertOrderedData | HPing | HPrivileged (* KICK, ADD/REMOVEBANS, ADD/REMOVEREQUIRES *) | HBatch | HNoop | HReorderData
| HSetDataTrees | HGetDataTrees | HJettisonDataTrees
| HDefault           (* in the command range, no case label: BounceMessage(PR_RESULT_ERRORUNIMPLEMENTED) *)
| HClientToClient.   (* outside the command range: routed to other sessions *)

Scheme Equality for handler.

(* muscleInRange(msg.what, BEGIN_PR_COMMANDS, END_PR_COMMANDS): both ends included *)
Definition in_command_range (what : N) : bool := N.leb c_BEGIN_PR_COMMANDS what && N.leb what c_END_PR_COMMANDS.

Definition case_labels : list (N * handler) :=
  [ (c_PR_COMMAND_JETTISONDATATREES, HJettisonDataTrees); (c_PR_COMMAND_SETDATATREES, HSetDataTrees);
    (c_PR_COMMAND_GETDATATREES, HGetDataTrees); (c_PR_COMMAND_NOOP, HNoop); (c_PR_COMMAND_BATCH, HBatch);
    (c_PR_COMMAND_KICK, HPrivileged); (c_PR_COMMAND_ADDBANS, HPrivileged); (c_PR_COMMAND_ADDREQUIRES, HPrivileged);
    (c_PR_COMMAND_REMOVEBANS, HPrivileged); (c_PR_COMMAND_REMOVEREQUIRES, HPrivileged);
    (c_PR_COMMAND_SETPARAMETERS, HSetParameters); (c_PR_COMMAND_GETPARAMETERS, HGetParameters);
    (c_PR_COMMAND_REMOVEPARAMETERS, HRemoveParameters); (c_PR_COMMAND_SETDATA, HSetData);
    (c_PR_COMMAND_INSERTORDEREDDATA, HInsertOrderedData); (c_PR_COMMAND_REORDERDATA, HReorderData);
    (c_PR_COMMAND_GETDATA, HGetData); (c_PR_COMMAND_REMOVEDATA, HRemoveData);
    (c_PR_COMMAND_JETTISONRESULTS, HJettisonResults); (c_PR_COMMAND_PING, HPing) ].

Fixpoint lookup_label (l : list (N * handler)) (what : N) : handler :=
  match l with
  | [] => HDefault
  | (k, h) :: r => if N.eqb k what then h else lookup_label r what
  end.

Definition dispatch (what : N) : handler :=
  if in_command_range what then lookup_label case_labels what else HClientToClient.

(* the handlers whose loops Refl/Bounded.v (with Refl/Server.v) models: everything but the reply of GETPARAMETERS, the
   ordered-index commands (C13) and client-to-client routing (C05) *)
Definition modelled (h : handler) : bool :=
  match h with
  | HGetParameters | HInsertOrderedData | HReorderData | HClientToClient => false
  | _ => true
  end.
