(* Refl/IsoRun.v -- C06: the server invariant of Refl/ServerProofs.v holds in every state the dispatcher model
   (Refl/IsoModel.v) reaches, so the statements of Refl/IsoDetach.v apply to a connection that ends at ANY point of ANY history. *)
From Coq Require Import List NArith ZArith Bool Arith Lia.
From Muscle Require Import Gen.Consts Refl.Base Refl.BaseProofs Refl.Tree Refl.TreeProofs Refl.Matcher Refl.MatcherProofs
     Refl.Traverse Refl.Session Refl.Server Refl.ServerProofs Refl.IsoModel Refl.IsoBase Refl.IsoFrame.
Import ListNotations.

Section Run.
Context {M : MatchOps} {L : MatchLaws M}.
Variable fx : fixes.
Hypothesis guard_on : fx_guard fx = true.

(* the number of subscription strings a command can add (the invariant bounds the per-session count below 2^31) *)
Fixpoint xcmd_budget (c : xcmd) : nat :=
  match c with
  | XBase b => cmd_budget b
  | XBatch l => (fix sum (l : list xcmd) : nat := match l with [] => 0 | c' :: r => xcmd_budget c' + sum r end) l
  | _ => 0
  end.

Fixpoint xsum (l : list xcmd) : nat := match l with [] => 0 | c' :: r => xcmd_budget c' + xsum r end.

Lemma xcmd_budget_batch : forall l, xcmd_budget (XBatch l) = xsum l.
Proof. induction l as [|c l IH]; [reflexivity|]. cbn [xsum]. rewrite <- IH. reflexivity. Qed.

Definition xev_budget (ev : xevent) : nat := match ev with XCmd _ c => xcmd_budget c | _ => 0 end.

Fixpoint xrun_budget (evs : list xevent) : nat :=
  match evs with [] => 0 | ev :: r => xev_budget ev + xrun_budget r end.

(* the one condition on a history: a session arrives under a (host, session name) pair no attached session has *)
Definition xwf_event (xs : xserver) (ev : xevent) : Prop :=
  match ev with
  | XAttach s host nm _ => forall ss, In ss (sv_sessions (xs_sv xs)) -> session_dir ss <> [host; nm]
  | _ => True
  end.

Fixpoint xwf_run (xs : xserver) (evs : list xevent) : Prop :=
  match evs with
  | [] => True
  | ev :: r => xwf_event xs ev /\ xwf_run (xstep fx xs ev) r
  end.

Lemma dispatch_sv : forall xs ss what keys sess, xs_sv (dispatch fx xs ss what keys sess) = xs_sv xs.
Proof.
  intros. unfold dispatch, bounce, log_to, with_ducks.
  repeat (match goal with |- context [if ?b then _ else _] => destruct b end); try reflexivity; destruct keys; reflexivity.
Qed.

Lemma xhandle_inv : forall c nest xs s B, small (B + xcmd_budget c) -> inv B (xs_sv xs) ->
  inv (B + xcmd_budget c) (xs_sv (xhandle fx nest xs s c)).
Proof.
  induction c as [b|f i|q k|w k|b| |w k se|l IHl] using xcmd_ind'; intros nest xs s B HB I;
    try (cbn [xcmd_budget] in *; rewrite Nat.add_0_r in * ).
  - destruct nest; cbn [xhandle]; (destruct (get_session (xs_sv xs) s); [|apply (inv_weaken B); [lia|exact I]]);
      cbn [xs_sv with_sv]; now apply handle_inv.
  - destruct nest; cbn [xhandle]; (destruct (get_session (xs_sv xs) s); [|exact I]); cbn [xs_sv with_sv];
      match goal with |- inv B (handle fx ?n ?sv s ?c) => pose proof (handle_inv fx guard_on c n sv s B) as H end;
      cbn [cmd_budget] in H; rewrite Nat.add_0_r in H; now apply H.
  - destruct nest; cbn [xhandle]; (destruct (get_session (xs_sv xs) s); [|exact I]); cbn [xs_sv with_sv];
      match goal with |- inv B (handle fx ?n ?sv s ?c) => pose proof (handle_inv fx guard_on c n sv s B) as H end;
      cbn [cmd_budget] in H; rewrite Nat.add_0_r in H; now apply H.
  - destruct nest; cbn [xhandle]; (destruct (get_session (xs_sv xs) s); [|exact I]); now rewrite dispatch_sv.
  - destruct nest; cbn [xhandle]; (destruct (get_session (xs_sv xs) s); exact I).
  - destruct nest; cbn [xhandle]; (destruct (get_session (xs_sv xs) s); exact I).
  - destruct nest; cbn [xhandle]; (destruct (get_session (xs_sv xs) s); [|exact I]); now rewrite dispatch_sv.
  - (* BATCH *)
    rewrite xcmd_budget_batch in *.
    assert (G : forall nest' xs' B', small (B' + xsum l) -> inv B' (xs_sv xs') ->
              inv (B' + xsum l)
                (xs_sv ((fix go (l0 : list xcmd) (xs0 : xserver) : xserver :=
                           match l0 with
                           | [] => xs0
                           | c' :: r => go r (let xs1 := xhandle fx (S nest') xs0 s c' in with_sv xs1 (push_all (xs_sv xs1)))
                           end) l xs'))).
    { intros nest'. clear HB I. induction IHl as [|c l Hc _ IHl']; intros xs' B' HB' I'; cbn [xsum] in *.
      - now rewrite Nat.add_0_r.
      - rewrite Nat.add_assoc. apply IHl'; [now rewrite <- Nat.add_assoc|]. cbn [xs_sv with_sv].
        eapply inv_same_core; [apply push_all_core|]. apply Hc; [|exact I']. eapply small_le; [|exact HB']. lia. }
    destruct nest as [|nest]; cbn [xhandle]; (destruct (get_session (xs_sv xs) s); [|apply (inv_weaken B); [lia|exact I]]);
      (destruct (Nat.ltb _ _); [now apply G|apply (inv_weaken B); [lia|exact I]]).
Qed.

Lemma clear_ducks_inv : forall B xs, small B -> inv B (xs_sv xs) -> inv B (xs_sv (clear_ducks fx xs)).
Proof.
  intros B xs HB. unfold clear_ducks. generalize (xs_ducks xs). intros l. revert xs.
  induction l as [|d l IH]; intros xs I; cbn [fold_left]; [exact I|]. apply IH. cbn [xs_sv xdetach]. now apply detach_inv.
Qed.

Lemma xstep_inv : forall ev xs B, small (B + xev_budget ev) -> inv B (xs_sv xs) -> xwf_event xs ev ->
  inv (B + xev_budget ev) (xs_sv (xstep fx xs ev)).
Proof.
  intros [s host nm bits|s|s c] xs B HB I Hwf; cbn [xstep xev_budget] in *; try rewrite Nat.add_0_r in *.
  - destruct (get_session (xs_sv xs) s) eqn:Hs; [exact I|]. cbn [xs_sv xattach]. now apply attach_inv.
  - cbn [xs_sv xdetach]. now apply detach_inv.
  - destruct (get_session (xs_sv xs) s); [|apply (inv_weaken B); [lia|exact I]].
    cbv zeta. apply clear_ducks_inv; [exact HB|]. cbn [xs_sv with_sv].
    eapply inv_same_core; [apply push_all_core|]. now apply xhandle_inv.
Qed.

Theorem xrun_inv : forall evs xs B, small (B + xrun_budget evs) -> inv B (xs_sv xs) -> xwf_run xs evs ->
  inv (B + xrun_budget evs) (xs_sv (xrun fx evs xs)).
Proof.
  induction evs as [|ev evs IH]; intros xs B HB I Hwf; cbn [xrun fold_left xrun_budget] in *.
  - now rewrite Nat.add_0_r.
  - destruct Hwf as [Hw1 Hw2]. rewrite Nat.add_assoc. apply IH; [now rewrite <- Nat.add_assoc| |exact Hw2].
    apply xstep_inv; [|exact I|exact Hw1]. eapply small_le; [|exact HB]. lia.
Qed.

(* every state reached from the empty server *)
Corollary reachable_inv : forall evs, small (xrun_budget evs) -> xwf_run empty_xserver evs ->
  inv (xrun_budget evs) (xs_sv (xrun fx evs empty_xserver)).
Proof. intros evs HB Hwf. apply (xrun_inv evs empty_xserver 0); [exact HB|apply empty_inv|exact Hwf]. Qed.

End Run.
