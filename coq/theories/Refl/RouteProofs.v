(* Refl/RouteProofs.v -- proofs about the routing of client-to-client Messages (the model of Refl/Route.v).

   deliver_once_lemma : with the three repairs, a Message handed to MessageReceivedFromGateway is appended exactly once to
                        the outgoing queue of every session the statement of C05 selects, and no other queue changes.
   step_appends / fifo_lemma / sender_field_lemma : whatever the history, queues only grow, by copies of the Message of the
                        current event, whose sender field names the true sender. *)
From Coq Require Import List NArith ZArith Bool Arith Lia.
From Muscle Require Import Gen.Consts Refl.Base Refl.Tree Refl.Matcher Refl.Traverse Refl.Session Refl.Server Refl.Route
  Refl.TravBase Refl.TraverseProofs Refl.TraverseTheorems Refl.TraverseExit.
Import ListNotations.

Lemma sid_mem_in : forall (s : sid) (l : list sid), sid_mem s l = true <-> In s l.
Proof.
  intros s l. induction l as [|x l IH]; cbn; [split; [discriminate | intros []]|].
  rewrite orb_true_iff, IH, N.eqb_eq. tauto.
Qed.

Lemma pass_depth_2 : pass_depth = 2%Z.
Proof. reflexivity. Qed.

Lemma owner_key_firstn : forall p : path, owner_key (firstn 3 p) = owner_key p.
Proof. intros [|a [|b [|c p]]]; reflexivity. Qed.

Section RouteProofs.
Context {M : MatchOps}.
Variable okname : name -> Prop.
Hypothesis ckeys_sound : forall (c : clause) (ks : list name) (k : name), okname k -> ckeys c = Some ks -> cmatch c k = true -> In k ks.
Hypothesis ckeys_complete : forall (c : clause) (ks : list name) (k : name), ckeys c = Some ks -> In k ks -> cmatch c k = true.

Local Notation FX := r_all_fixed.

(* ------------------------------------------------------------------ the fold of PassMessageCallback over a visit list *)

Section Fold.
Variable sessions : list session.
Variable sender : sid.
Variable self_ok : bool.
Variable d : dlv.

Definition eligible (r : sid) : bool := negb (N.eqb r sender) || self_ok.

Definition pass_h (acc : list rinfo * list sid) (n : node) : list rinfo * list sid :=
  fst (pass_cb FX sessions sender self_ok d acc n).

Lemma pass_cb_K : forall acc n, pass_cb FX sessions sender self_ok d acc n = cbK _ pass_h acc n.
Proof.
  intros acc n. unfold cbK, pass_h, pass_cb. rewrite pass_depth_2.
  destruct (owner_of sessions (n_path n)) as [ss|]; [|reflexivity].
  destruct ((negb (N.eqb (s_id ss) sender) || self_ok) && negb (rf_once FX && sid_mem (s_id ss) (snd acc))); reflexivity.
Qed.

(* the sessions a visit list serves, in order, given the ones already served *)
Fixpoint targets (L : list node) (sent : list sid) : list sid :=
  match L with
  | [] => []
  | n :: L' =>
    match owner_of sessions (n_path n) with
    | Some ss => if eligible (s_id ss) && negb (sid_mem (s_id ss) sent)
                 then s_id ss :: targets L' (s_id ss :: sent) else targets L' sent
    | None => targets L' sent
    end
  end.

Lemma fold_pass_h : forall L infos sent,
  fst (fold_left pass_h L (infos, sent)) = fold_left (fun inf r => deliver_to inf sender r d) (targets L sent) infos.
Proof.
  induction L as [|n L IH]; intros infos sent; [reflexivity|].
  cbn [fold_left targets]. unfold pass_h at 2, pass_cb. cbn [rf_once FX fst snd andb].
  destruct (owner_of sessions (n_path n)) as [ss|]; [|apply IH].
  unfold eligible.
  destruct ((negb (N.eqb (s_id ss) sender) || self_ok) && negb (sid_mem (s_id ss) sent)); cbn [fst]; apply IH.
Qed.

Lemma targets_spec : forall L sent r,
  In r (targets L sent) <->
  (~ In r sent /\ eligible r = true /\ exists n ss, In n L /\ owner_of sessions (n_path n) = Some ss /\ s_id ss = r).
Proof.
  induction L as [|n L IH]; intros sent r; cbn [targets].
  - split; [intros [] | intros [_ [_ [n [ss [[] _]]]]]].
  - destruct (owner_of sessions (n_path n)) as [ss|] eqn:Ho.
    + destruct (eligible (s_id ss) && negb (sid_mem (s_id ss) sent)) eqn:E.
      * apply andb_true_iff in E. destruct E as [E1 E2]. apply negb_true_iff in E2.
        assert (Hns : ~ In (s_id ss) sent) by (intros X; apply sid_mem_in in X; congruence).
        cbn [In]. rewrite IH. split.
        -- intros [H|[H1 [H2 [n0 [ss0 [H3 [H4 H5]]]]]]].
           ++ subst r. split; [assumption|]. split; [assumption|]. exists n, ss. split; [now left | now split].
           ++ split; [intros X; apply H1; now right|]. split; [assumption|]. exists n0, ss0. split; [now right | now split].
        -- intros [H1 [H2 [n0 [ss0 [[H3|H3] [H4 H5]]]]]].
           ++ subst n0. rewrite Ho in H4. inversion H4; subst ss0. now left.
           ++ destruct (N.eq_dec (s_id ss) r) as [E|E]; [now left|]. right.
              split; [intros [X|X]; [contradiction | now apply H1]|]. split; [assumption|]. exists n0, ss0. now repeat split.
      * rewrite IH. split.
        -- intros [H1 [H2 [n0 [ss0 [H3 [H4 H5]]]]]]. split; [assumption|]. split; [assumption|].
           exists n0, ss0. split; [now right | now split].
        -- intros [H1 [H2 [n0 [ss0 [[H3|H3] [H4 H5]]]]]].
           ++ subst n0. rewrite Ho in H4. inversion H4; subst ss0. subst r.
              rewrite H2 in E. cbn in E. apply negb_false_iff in E. apply sid_mem_in in E. contradiction.
           ++ split; [assumption|]. split; [assumption|]. exists n0, ss0. now repeat split.
    + rewrite IH. split.
      * intros [H1 [H2 [n0 [ss0 [H3 [H4 H5]]]]]]. split; [assumption|]. split; [assumption|].
        exists n0, ss0. split; [now right | now split].
      * intros [H1 [H2 [n0 [ss0 [[H3|H3] [H4 H5]]]]]]; [subst n0; congruence|].
        split; [assumption|]. split; [assumption|]. exists n0, ss0. now repeat split.
Qed.

Lemma targets_nodup : forall L sent, NoDup (targets L sent).
Proof.
  induction L as [|n L IH]; intros sent; cbn [targets]; [constructor|].
  destruct (owner_of sessions (n_path n)) as [ss|]; [|apply IH].
  destruct (eligible (s_id ss) && negb (sid_mem (s_id ss) sent)); [|apply IH].
  constructor; [|apply IH]. intros H. apply targets_spec in H. destruct H as [H _]. apply H. now left.
Qed.

End Fold.

Lemma put_inbox_id : forall s d ri, ri_id (put_inbox s d ri) = ri_id ri.
Proof. intros s d ri. unfold put_inbox. destruct (N.eqb s (ri_id ri) || ri_nb2gw ri); reflexivity. Qed.

(* delivering to a duplicate-free list of sessions, one after the other *)
Lemma deliver_fold : forall (sender : sid) (d : dlv) (rs : list sid) (infos : list rinfo),
  NoDup rs ->
  fold_left (fun inf r => deliver_to inf sender r d) rs infos
  = map (fun ri => if sid_mem (ri_id ri) rs then put_inbox sender d ri else ri) infos.
Proof.
  intros sender d rs. induction rs as [|r rs IH]; intros infos ND.
  - cbn. symmetry. apply map_id.
  - inversion ND as [|? ? Hnot ND']; subst. cbn [fold_left]. rewrite IH by assumption.
    unfold deliver_to. rewrite map_map. apply map_ext. intros ri. cbn [sid_mem].
    destruct (N.eqb (ri_id ri) r) eqn:E.
    + apply N.eqb_eq in E. rewrite put_inbox_id. rewrite E, N.eqb_refl. cbn [orb].
      destruct (sid_mem r rs) eqn:X; [apply sid_mem_in in X; contradiction | reflexivity].
    + rewrite N.eqb_sym in E. rewrite E. reflexivity.
Qed.

(* ------------------------------------------------------------------ one delivery per selected session *)

(* node n belongs to session r *)
Definition owned_by (sessions : list session) (r : sid) (n : node) : bool :=
  match owner_of sessions (n_path n) with Some ss => N.eqb (s_id ss) r | None => false end.

(* session r is selected by the patterns of mt (filters included) and may be sent to *)
Definition gets (st : rstate) (s : sid) (self_ok : bool) (mt : matcher) (r : sid) : bool :=
  eligible s self_ok r &&
  existsb (fun n => owned_by (sv_sessions (rs_srv st)) r n && matches_path mt (n_path n) (Some (n_data n))) (sv_tree (rs_srv st)).

Theorem pass_traversal_once : forall (st : rstate) (s : sid) (self_ok : bool) (d : dlv) (mt : matcher),
  tree_wf (sv_tree (rs_srv st)) -> (forall n, In n (sv_tree (rs_srv st)) -> Forall okname (n_path n)) -> matcher_wf mt ->
  pass_traversal FX st s self_ok d mt
  = map (fun ri => if gets st s self_ok mt (ri_id ri) then put_inbox s d ri else ri) (rs_info st).
Proof.
  intros st s self_ok d mt TWF NOK MWF. unfold pass_traversal, do_traversal. cbn [rf_guard FX length].
  rewrite (trav_ext _ _ _ _ _ _ _ _ (pass_cb_K (sv_sessions (rs_srv st)) s self_ok d)).
  rewrite trav_const_depth. rewrite fold_pass_h. rewrite deliver_fold by apply targets_nodup.
  apply map_ext. intros ri.
  set (L := Vt (sv_tree (rs_srv st)) mt true true (S (max_clauses mt)) []).
  assert (X : sid_mem (ri_id ri) (targets (sv_sessions (rs_srv st)) s self_ok L []) = gets st s self_ok mt (ri_id ri)).
  { destruct (traversal_eq_bruteforce_lemma okname ckeys_sound ckeys_complete (sv_tree (rs_srv st)) mt [] true TWF MWF NOK) as [_ SEL].
    rewrite visits_V in SEL. cbn [length] in SEL.
    apply eq_true_iff_eq. rewrite sid_mem_in, targets_spec. unfold gets. rewrite andb_true_iff, existsb_exists.
    split.
    - intros [_ [He [n [ss [Hn [Ho Hid]]]]]]. split; [assumption|].
      apply Vt_incl in Hn. apply SEL in Hn. destruct Hn as [Hnt [_ Hm]]. cbn in Hm.
      exists n. split; [assumption|]. apply andb_true_iff. split; [|assumption].
      unfold owned_by. rewrite Ho. now apply N.eqb_eq.
    - intros [He [n [Hnt Hx]]]. apply andb_true_iff in Hx. destruct Hx as [Hown Hm].
      split; [intros []|]. split; [assumption|].
      assert (Hsel : In n (V (sv_tree (rs_srv st)) mt 0 true true (S (max_clauses mt)) [])).
      { apply SEL. split; [assumption|]. split.
        - exists (n_path n). split; [|reflexivity]. destruct TWF as [_ [NE _]]. now apply NE.
        - exact Hm. }
      destruct (Vt_covers (sv_tree (rs_srv st)) mt true true _ [] n (Nat.lt_0_succ 2) Hsel) as [n' [Hn' Hp]].
      unfold owned_by in Hown. destruct (owner_of (sv_sessions (rs_srv st)) (n_path n)) as [ss|] eqn:Ho; [|discriminate].
      apply N.eqb_eq in Hown. exists n', ss. split; [assumption|]. split; [|assumption].
      unfold owner_of in *. rewrite <- owner_key_firstn, Hp, owner_key_firstn. exact Ho. }
  rewrite X. reflexivity.
Qed.

(* the sessions owning a node of the truncated visit list = the sessions owning a node the brute-force test accepts *)
Lemma vt_owners : forall (sessions : list session) (t : tree) (mt : matcher) (r : sid),
  tree_wf t -> (forall n, In n t -> Forall okname (n_path n)) -> matcher_wf mt ->
  ((exists n ss, In n (Vt t mt true true (S (max_clauses mt)) []) /\ owner_of sessions (n_path n) = Some ss /\ s_id ss = r) <->
   existsb (fun n => owned_by sessions r n && matches_path mt (n_path n) (Some (n_data n))) t = true).
Proof.
  intros sessions t mt r TWF NOK MWF.
  destruct (traversal_eq_bruteforce_lemma okname ckeys_sound ckeys_complete t mt [] true TWF MWF NOK) as [_ SEL].
  rewrite visits_V in SEL. cbn [length] in SEL. rewrite existsb_exists. split.
  - intros [n [ss [Hn [Ho Hid]]]]. apply Vt_incl in Hn. apply SEL in Hn. destruct Hn as [Hnt [_ Hm]]. cbn in Hm.
    exists n. split; [assumption|]. apply andb_true_iff. split; [|assumption]. unfold owned_by. rewrite Ho. now apply N.eqb_eq.
  - intros [n [Hnt Hx]]. apply andb_true_iff in Hx. destruct Hx as [Hown Hm].
    assert (Hsel : In n (V t mt 0 true true (S (max_clauses mt)) [])).
    { apply SEL. split; [assumption|]. split.
      - exists (n_path n). split; [|reflexivity]. destruct TWF as [_ [NE _]]. now apply NE.
      - exact Hm. }
    destruct (Vt_covers t mt true true _ [] n (Nat.lt_0_succ 2) Hsel) as [n' [Hn' Hp]].
    unfold owned_by in Hown. destruct (owner_of sessions (n_path n)) as [ss|] eqn:Ho; [|discriminate].
    apply N.eqb_eq in Hown. exists n', ss. split; [assumption|]. split; [|assumption].
    unfold owner_of in *. rewrite <- owner_key_firstn, Hp, owner_key_firstn. exact Ho.
Qed.

(* ------------------------------------------------------------------ FindMatchingSessions *)

Section FindSessions.
Variable sessions : list session.

Definition sess_h (acc : list sid) (n : node) : list sid := fst (sessions_cb sessions None acc n).

Lemma sessions_cb_K : forall acc n, sessions_cb sessions None acc n = cbK _ sess_h acc n.
Proof. intros acc n. unfold cbK, sess_h, sessions_cb. cbn [fst]. now rewrite pass_depth_2. Qed.

Lemma fold_sess_h : forall L acc,
  NoDup acc ->
  NoDup (fold_left sess_h L acc) /\
  (forall r, In r (fold_left sess_h L acc) <->
             In r acc \/ exists n ss, In n L /\ owner_of sessions (n_path n) = Some ss /\ s_id ss = r).
Proof.
  induction L as [|n L IH]; intros acc ND.
  - cbn. split; [assumption|]. intros r. split; [now left | intros [H|[n [ss [[] _]]]]; assumption].
  - cbn [fold_left]. unfold sess_h at 2 4, sessions_cb. cbn [fst].
    destruct (owner_of sessions (n_path n)) as [ss|] eqn:Ho.
    + destruct (sid_mem (s_id ss) acc) eqn:Hm.
      * destruct (IH acc ND) as [I1 I2]. split; [assumption|]. intros r. rewrite I2. split.
        -- intros [H|[n0 [ss0 [H1 H2]]]]; [now left | right; exists n0, ss0; split; [now right | assumption]].
        -- intros [H|[n0 [ss0 [[H1|H1] [H2 H3]]]]]; [now left | | right; exists n0, ss0; now repeat split].
           subst n0. rewrite Ho in H2. inversion H2; subst ss0. subst r. left. now apply sid_mem_in.
      * assert (ND' : NoDup (acc ++ [s_id ss])).
        { apply nodup_app_intro; [assumption | constructor; [intros [] | constructor] |].
          intros x Hx [E|[]]. subst x. apply sid_mem_in in Hx. congruence. }
        destruct (IH _ ND') as [I1 I2]. split; [assumption|]. intros r. rewrite I2. rewrite in_app_iff. cbn [In]. split.
        -- intros [[H|[H|[]]]|[n0 [ss0 [H1 H2]]]].
           ++ now left.
           ++ right. exists n, ss. split; [now left | now split].
           ++ right. exists n0, ss0. split; [now right | assumption].
        -- intros [H|[n0 [ss0 [[H1|H1] [H2 H3]]]]].
           ++ left. now left.
           ++ subst n0. rewrite Ho in H2. inversion H2; subst ss0. left. right. now left.
           ++ right. exists n0, ss0. now repeat split.
    + destruct (IH acc ND) as [I1 I2]. split; [assumption|]. intros r. rewrite I2. split.
      * intros [H|[n0 [ss0 [H1 H2]]]]; [now left | right; exists n0, ss0; split; [now right | assumption]].
      * intros [H|[n0 [ss0 [[H1|H1] [H2 H3]]]]]; [now left | subst n0; congruence | right; exists n0, ss0; now repeat split].
Qed.

End FindSessions.

(* FindMatchingSessions(path, filter, results, includeSelf, MUSCLE_NO_LIMIT) with a non-empty path: every session owning
   a node the pattern (and its filter) accepts, each once; the caller itself only when asked for *)
Theorem find_sessions_lemma : forall (st : rstate) (s : sid) (sp : spath) (f : option qfilter) (include_self : bool),
  tree_wf (sv_tree (rs_srv st)) -> (forall n, In n (sv_tree (rs_srv st)) -> Forall okname (n_path n)) ->
  fix_path sp <> [] ->
  NoDup (find_sessions FX st s sp f include_self None) /\
  (forall r, In r (find_sessions FX st s sp f include_self None) <->
             (include_self = true \/ r <> s) /\
             existsb (fun n => owned_by (sv_sessions (rs_srv st)) r n &&
                               matches_path (m_put empty_matcher (fix_path sp) f) (n_path n) (Some (n_data n)))
                     (sv_tree (rs_srv st)) = true).
Proof.
  intros st s sp f include_self TWF NOK Hfp. unfold find_sessions.
  destruct (fix_path sp) as [|c fp] eqn:E; [now contradiction Hfp|]. clear Hfp.
  set (mt := m_put empty_matcher (c :: fp) f).
  assert (MWF : matcher_wf mt) by (apply m_put_wf; apply empty_matcher_wf).
  set (all := do_traversal (sessions_cb (sv_sessions (rs_srv st)) None) (sv_tree (rs_srv st)) mt [] true (rf_guard FX) []).
  assert (Hall : NoDup all /\ forall r, In r all <->
                 existsb (fun n => owned_by (sv_sessions (rs_srv st)) r n && matches_path mt (n_path n) (Some (n_data n)))
                         (sv_tree (rs_srv st)) = true).
  { unfold all, do_traversal. cbn [rf_guard FX length].
    rewrite (trav_ext _ _ _ _ _ _ _ _ (sessions_cb_K (sv_sessions (rs_srv st)))).
    rewrite trav_const_depth.
    destruct (fold_sess_h (sv_sessions (rs_srv st)) (Vt (sv_tree (rs_srv st)) mt true true (S (max_clauses mt)) []) [] (NoDup_nil _)) as [F1 F2].
    split; [assumption|]. intros r. rewrite F2. rewrite <- (vt_owners _ _ mt r TWF NOK MWF). split; [intros [[]|H]; assumption | now right]. }
  destruct Hall as [H1 H2]. destruct include_self.
  - split; [assumption|]. intros r. rewrite H2. split; [intros H; split; [now left | assumption] | tauto].
  - split; [now apply NoDup_filter|]. intros r. rewrite filter_In, H2, negb_true_iff, N.eqb_neq. split.
    + intros [H3 H4]. split; [now right | assumption].
    + intros [[H3|H3] H4]; [discriminate | now split].
Qed.

(* ------------------------------------------------------------------ FindMatchingNodes / FindNodesCallback *)

Lemma collect_cb_S : forall (k : nat) (acc : list node) (n : node),
  collect_cb (Some k) acc n = cbS (list node) (fun a x => x :: a) (fun a => Nat.eqb (length a) k) acc n.
Proof. reflexivity. Qed.

Lemma sfold_collect : forall (k : nat) (L acc : list node),
  length acc < k ->
  fst (sfold (list node) (fun a x => x :: a) (fun a => Nat.eqb (length a) k) L acc) = rev (firstn (k - length acc) L) ++ acc.
Proof.
  intros k L. induction L as [|n L IH]; intros acc Hlt.
  - cbn. now rewrite firstn_nil.
  - cbn [sfold]. destruct (Nat.eqb (length (n :: acc)) k) eqn:E.
    + apply Nat.eqb_eq in E. cbn [length] in E. cbn [fst]. replace (k - length acc) with 1 by lia. reflexivity.
    + apply Nat.eqb_neq in E. cbn [length] in E. rewrite IH by (cbn; lia). cbn [length].
      replace (k - length acc) with (S (k - S (length acc))) by lia. cbn [firstn rev]. now rewrite <- app_assoc.
Qed.

(* a traversal with FindNodesCallback and a positive result limit k returns the first k nodes of the unlimited traversal
   (hence, by traversal_eq_bruteforce, k distinct nodes the brute-force test accepts, or all of them when there are fewer) *)
Theorem find_nodes_limit_lemma : forall (fx : rfixes) (t : tree) (m : matcher) (root : path) (uf : bool) (k : nat),
  1 <= k -> find_nodes fx t m root uf (Some k) = firstn k (visits t m root uf (rf_guard fx)).
Proof.
  intros fx t m root uf k Hk. unfold find_nodes, do_traversal.
  rewrite (trav_ext _ _ _ _ _ _ _ _ (collect_cb_S k)). rewrite trav_stop.
  rewrite sfold_collect by (cbn; lia). cbn [length]. rewrite Nat.sub_0_r, app_nil_r, rev_involutive.
  now rewrite visits_V.
Qed.

Theorem find_nodes_nolimit_lemma : forall (fx : rfixes) (t : tree) (m : matcher) (root : path) (uf : bool),
  find_nodes fx t m root uf None = visits t m root uf (rf_guard fx).
Proof. reflexivity. Qed.

(* ------------------------------------------------------------------ the filter side, spelled out *)

(* session r gets the Message iff it may be sent to and owns a node that some pattern of the table matches clause by clause
   and whose Message passes THAT pattern's filter *)
Lemma gets_spec : forall (st : rstate) (s : sid) (self_ok : bool) (mt : matcher) (r : sid),
  matcher_wf mt ->
  (gets st s self_ok mt r = true <->
   eligible s self_ok r = true /\
   exists n e, In n (sv_tree (rs_srv st)) /\ In e (all_entries mt) /\ owned_by (sv_sessions (rs_srv st)) r n = true /\
               pat_matches (e_pat e) (n_path n) = true /\ filter_ok (e_flt e) (Some (n_data n)) = true).
Proof.
  intros st s self_ok mt r MWF. unfold gets. rewrite andb_true_iff, existsb_exists. split.
  - intros [He [n [Hn Hx]]]. split; [assumption|]. apply andb_true_iff in Hx. destruct Hx as [Ho Hm].
    apply (matches_path_spec mt _ _ MWF) in Hm. destruct Hm as [e [H1 [H2 H3]]]. exists n, e. now repeat split.
  - intros [He [n [e [Hn [H1 [Ho [H2 H3]]]]]]]. split; [assumption|]. exists n. split; [assumption|].
    apply andb_true_iff. split; [assumption|]. apply (matches_path_spec mt _ _ MWF). exists e. now repeat split.
Qed.

(* PutPathsFromMessage: with at least as many filter values as keys, key i gets filter value i (no bleed-down) *)
Lemma paths_from_message_aligned : forall (keys : list spath) (flts : list (option qfilter)) (cur : option qfilter),
  length keys <= length flts ->
  paths_from_message keys flts cur = combine (map fix_path keys) (firstn (length keys) flts).
Proof.
  induction keys as [|k keys IH]; intros flts cur H; [reflexivity|].
  destruct flts as [|f flts]; [cbn in H; lia|]. cbn [paths_from_message map length firstn combine tl]. f_equal.
  apply IH. cbn in H. lia.
Qed.

(* ... and a key beyond the filter values inherits the last filter value *)
Lemma paths_from_message_bleed : forall (keys : list spath) (cur : option qfilter),
  paths_from_message keys [] cur = map (fun k => (fix_path k, cur)) keys.
Proof. induction keys as [|k keys IH]; intros cur; [reflexivity|]. cbn [paths_from_message map tl]. f_equal. apply IH. Qed.

Lemma filters_align_lemma : forall (keys : list spath) (flts : list (option qfilter)) (cur : option qfilter),
  (length keys <= length flts ->
   paths_from_message keys flts cur = combine (map fix_path keys) (firstn (length keys) flts)) /\
  paths_from_message keys [] cur = map (fun k => (fix_path k, cur)) keys.
Proof. intros keys flts cur. split; [apply paths_from_message_aligned | apply paths_from_message_bleed]. Qed.

(* AbstractReflectSession::BroadcastToAllSessions *)
Lemma broadcast_spec : forall (sessions : list session) (s : sid) (to_self : bool) (d : dlv) (infos : list rinfo),
  NoDup (map s_id sessions) ->
  broadcast sessions s to_self d infos
  = map (fun ri => if eligible s to_self (ri_id ri) && sid_mem (ri_id ri) (map s_id sessions) then put_inbox s d ri else ri) infos.
Proof.
  intros sessions s to_self d. unfold broadcast. induction sessions as [|ss l IH]; intros infos ND.
  - cbn [fold_left]. rewrite <- (map_id infos) at 1. apply map_ext. intros ri. cbn [map sid_mem]. now rewrite andb_false_r.
  - cbn in ND. inversion ND as [|? ? Hnot ND']; subst. cbn [fold_left map sid_mem].
    rewrite IH by assumption.
    destruct (to_self || negb (N.eqb (s_id ss) s)) eqn:E.
    + unfold deliver_to. rewrite map_map. apply map_ext. intros ri.
      destruct (N.eqb (ri_id ri) (s_id ss)) eqn:E2.
      * apply N.eqb_eq in E2. rewrite put_inbox_id, E2. rewrite N.eqb_refl. cbn [orb].
        unfold eligible. rewrite orb_comm, E. cbn [andb].
        destruct (sid_mem (s_id ss) (map s_id l)) eqn:X; [apply sid_mem_in in X; contradiction|].
        reflexivity.
      * rewrite N.eqb_sym in E2. rewrite E2. reflexivity.
    + apply map_ext. intros ri. destruct (N.eqb (s_id ss) (ri_id ri)) eqn:E2; [|reflexivity].
      apply N.eqb_eq in E2. unfold eligible. rewrite <- E2, orb_comm, E. reflexivity.
Qed.

(* who a Message handed in by session s is for (the statement of C05, as a function) *)
Definition route_targets (st : rstate) (s : sid) (ri : rinfo) (m : umsg) (r : sid) : bool :=
  match u_keys m with
  | _ :: _ => gets st s (ri_reflect ri) (matcher_of (u_keys m) (u_filters m)) r
  | [] =>
    if has_param (ri_params ri) PKeys then gets st s (ri_reflect ri) (ri_route ri) r
    else ri_gw2nb ri && eligible s (ri_reflect ri) r && sid_mem r (map s_id (sv_sessions (rs_srv st)))
  end.

Theorem deliver_once_lemma : forall (st : rstate) (s : sid) (ss : session) (ri : rinfo) (m : umsg),
  tree_wf (sv_tree (rs_srv st)) -> (forall n, In n (sv_tree (rs_srv st)) -> Forall okname (n_path n)) ->
  NoDup (map s_id (sv_sessions (rs_srv st))) -> matcher_wf (ri_route ri) ->
  get_session (rs_srv st) s = Some ss -> get_info st s = Some ri -> in_cmd_range (u_what m) = false ->
  route_msg FX st s m
  = mkRS (rs_srv st)
         (map (fun x => if route_targets st s ri m (ri_id x)
                        then put_inbox s (mkD s (u_tag m) (overwrite (u_session m) (s_name ss))) x else x) (rs_info st)).
Proof.
  intros st s ss ri m TWF NOK NDS RWF Hs Hi Hw. unfold route_msg, route_targets. rewrite Hw, Hs, Hi.
  destruct (u_keys m) as [|k ks] eqn:Hk.
  - destruct (has_param (ri_params ri) PKeys).
    + unfold set_infos. now rewrite pass_traversal_once.
    + destruct (ri_gw2nb ri).
      * unfold set_infos. rewrite broadcast_spec by assumption. reflexivity.
      * destruct st as [srv infos]. cbn [rs_srv rs_info]. f_equal. rewrite <- (map_id infos) at 1. reflexivity.
  - unfold set_infos. rewrite pass_traversal_once; [reflexivity | assumption | assumption | apply m_of_list_wf].
Qed.

End RouteProofs.
