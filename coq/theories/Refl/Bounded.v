(* Refl/Bounded.v -- C07: the reflector server as one client's traffic sees it: the shared server model
   (Refl/Server.v) extended with each session's OUTGOING MESSAGE QUEUE (AbstractMessageIOGateway::_outgoingMessages),
   a client that has stopped reading, and the handlers that iterate over / edit that queue.  Definitions only
   (no proofs).  Line numbers refer to reflector/StorageReflectSession.cpp.

   The loops that the C++ writes as `while`/index loops whose termination is not evident from a container
   bound are written here ON FUEL, exactly as the code writes them, and return None when the fuel runs out:
     JettisonOutgoingResults (1762)   the removed-strings loop  `while(FindString(REMOVED, nextr)) {remove or nextr++}`
                                      the per-field item loop   `for (j=0; FindMessage(name, j); ) {RemoveData(name, IDX) or j++}`
                                      with IDX = the queue index i (the code as found, finding F4) or the item index j (repaired)
     PushSubscriptionMessages (1211)  `while(_subsDirty) {_subsDirty = false; every session pushes}`
     NodeChangedAux (357)             the "flush, then start again" recursion with its nest counter (cap 100)
     DataNode::RemoveChild            `while(child->HasChildren()) child->RemoveChild(first key, recurse)`
   Index loops over a finite container that the body does not grow (the outer `for (i=last; i>=0; i--)` of the
   jettison handlers, the supersede scan of NodeChangedAux (395-411, reached through SETDATA with
   SETDATANODE_FLAG_ENABLESUPERCEDE: [BSetSup]), field iterators, the BATCH loop with its nest counter) are structural.

   Every fuelled function passes its fuel unchanged to the loops nested inside it and spends one unit per
   iteration of its own loop ("depth fuel"): [f fuel x = None] iff some single loop instance would iterate more
   than [fuel] times.  BoundedProofs.v shows that fuel linear in the size of the loop's own input is adequate, so
   the running time of a handler is bounded by the product along the (constant) nesting depth. *)
From Coq Require Import List NArith ZArith Bool Arith.
From Muscle Require Import Gen.Consts Refl.Base Refl.Tree Refl.Matcher Refl.Traverse Refl.Session Refl.Server.
Import ListNotations.

Definition max_nca_nest : nat := N.to_nat c_max_node_changed_aux_nest_count.

(* Queue::RemoveItemAt(n) / MessageField::RemoveDataItem(n): nothing happens when n is out of range *)
Definition remove_nth {A : Type} (n : nat) (l : list A) : list A := firstn n l ++ skipn (S n) l.

Fixpoint replace_nth {A : Type} (n : nat) (l : list A) (x : A) : list A :=
  match l, n with
  | [], _ => []
  | _ :: r, 0 => x :: r
  | y :: r, S n' => y :: replace_nth n' r x
  end.

Section Bounded.
Context {M : MatchOps}.

(* ------------------------------------------------------------------ outgoing Messages *)

Inductive omsg :=
| ODataItems (d : ditems)                           (* PR_RESULT_DATAITEMS: subscription updates and GETDATA replies *)
| ODataTrees (id : option name) (roots : list path) (* PR_RESULT_DATATREES: PR_NAME_TREE_REQUEST_ID, the field names (node paths) *)
| OPong (tag : N)                                   (* PR_RESULT_PONG: the client's own Message coming back *)
| OBounce (code what : N).                          (* PR_RESULT_ERRORUNIMPLEMENTED / ERRORACCESSDENIED with the rejected what-code *)

(* the gateway of one session: its outgoing queue (oldest first) and whether its client has stopped reading
   (the socket is not ready-for-write, so ReflectServer::HandleEvents never calls DoOutput for it) *)
Record gw := mkGw { g_sid : sid; g_q : list omsg; g_blocked : bool }.

Record bserver := mkB {
  b_sv : server;                      (* tree, sessions (their s_out is always empty here: see [absorb]), _subsDirty *)
  b_gws : list gw;
  b_last : list (sid * list omsg)     (* what the last server turn delivered to each reading client *)
}.

Definition empty_bserver : bserver := mkB empty_server [] [].

Fixpoint find_gw (l : list gw) (s : sid) : option gw :=
  match l with
  | [] => None
  | g :: r => if N.eqb (g_sid g) s then Some g else find_gw r s
  end.

Definition queue_of (b : bserver) (s : sid) : list omsg :=
  match find_gw (b_gws b) s with Some g => g_q g | None => [] end.

Definition upd_gw (b : bserver) (s : sid) (f : gw -> gw) : bserver :=
  mkB (b_sv b) (map (fun g => if N.eqb (g_sid g) s then f g else g) (b_gws b)) (b_last b).

Definition set_queue (b : bserver) (s : sid) (q : list omsg) : bserver :=
  upd_gw b s (fun g => mkGw (g_sid g) q (g_blocked g)).

(* AddOutgoingMessage *)
Definition enqueue (b : bserver) (s : sid) (m : omsg) : bserver :=
  upd_gw b s (fun g => mkGw (g_sid g) (g_q g ++ [m]) (g_blocked g)).

(* The handlers of Server.v hand their PR_RESULT_DATAITEMS to [s_out]; none of them reads it.  After each of them
   the Messages are moved to the gateway queues, in order. *)
Definition absorb (b : bserver) (sv : server) : bserver :=
  mkB (mkServer (sv_tree sv) (map clear_out (sv_sessions sv)) (sv_dirty sv))
      (map (fun g => match find_session (sv_sessions sv) (g_sid g) with
                     | Some ss => mkGw (g_sid g) (g_q g ++ map ODataItems (s_out ss)) (g_blocked g)
                     | None => g
                     end) (b_gws b))
      (b_last b).

(* ------------------------------------------------------------------ JettisonOutgoingResults (1762-1813) *)

Section Jettison.
Variable jfix : bool.        (* true: RemoveData(nextFieldName, j)   false: RemoveData(nextFieldName, i), the code as found (F4) *)
Variable m : matcher.

(* int nextr = 0; while(msg->FindString(PR_NAME_REMOVED_DATAITEMS, nextr, &rname).IsOK())
      {if (matcher->MatchesPath(rname, NULL, NULL)) msg->RemoveData(PR_NAME_REMOVED_DATAITEMS, nextr); else nextr++;} *)
Fixpoint jett_removed (fuel : nat) (rs : list path) (nextr : nat) : option (list path) :=
  match fuel with
  | 0 => None
  | S f =>
    match nth_error rs nextr with
    | None => Some rs
    | Some p => if matches_path m p None then jett_removed f (remove_nth nextr rs) nextr
                else jett_removed f rs (S nextr)
    end
  end.

(* for (uint32 j=0; msg->FindMessage(nextFieldName, j, nextSubMsgRef).IsOK(); )
      {if (matcher->MatchesPath(nextFieldName, nextSubMsgRef(), NULL)) msg->RemoveData(nextFieldName, IDX); else j++;}
   [i] = index of the Message in the outgoing queue.  A field whose last value is removed disappears
   (Message::RemoveData -> RemoveName), after which FindMessage fails. *)
Fixpoint jett_items (fuel : nat) (i : nat) (p : path) (vs : list payload) (j : nat) : option (list payload) :=
  match fuel with
  | 0 => None
  | S f =>
    match nth_error vs j with
    | None => Some vs
    | Some v => if matches_path m p (Some v) then jett_items f i p (remove_nth (if jfix then j else i) vs) j
                else jett_items f i p vs (S j)
    end
  end.

(* for (MessageFieldNameIterator iter = msg->GetFieldNameIterator(B_MESSAGE_TYPE); iter.HasData(); iter++) ... *)
Fixpoint jett_fields (fuel : nat) (i : nat) (fs : list (path * list payload)) : option (list (path * list payload)) :=
  match fs with
  | [] => Some []
  | (p, vs) :: r =>
    let cur := if N.ltb 0 (m_nfilters m) then jett_items fuel i p vs 0
               else if matches_path m p None then Some [] else Some vs in
    match cur with
    | None => None
    | Some vs' =>
      match jett_fields fuel i r with
      | None => None
      | Some r' => Some (match vs' with [] => r' | _ => (p, vs') :: r' end)
      end
    end
  end.

Definition jett_msg (fuel : nat) (i : nat) (d : ditems) : option ditems :=
  match jett_removed fuel (di_removed d) 0 with
  | None => None
  | Some rs =>
    match jett_fields fuel i (di_sets d) with
    | None => None
    | Some fs => Some (mkDI rs fs)
    end
  end.

End Jettison.

Definition di_has_names (d : ditems) : bool := negb (N.eqb (di_num_names d) 0).

(* for (int32 i=oq.GetLastValidIndex(); i>=0; i--) {...  if (msg->HasNames() == false) oq.RemoveItemAt(i);}
   [n] = i+1;  [om] = None is the NULL matcher (msg->Clear()) *)
Fixpoint jett_queue (jfix : bool) (om : option matcher) (fuel : nat) (n : nat) (q : list omsg) : option (list omsg) :=
  match n with
  | 0 => Some q
  | S i =>
    match nth_error q i with
    | Some (ODataItems d) =>
      match (match om with Some m => jett_msg jfix m fuel i d | None => Some empty_di end) with
      | None => None
      | Some d' => jett_queue jfix om fuel i (if di_has_names d' then replace_nth i q (ODataItems d') else remove_nth i q)
      end
    | _ => jett_queue jfix om fuel i q
    end
  end.

Definition jettison_results (jfix : bool) (om : option matcher) (fuel : nat) (q : list omsg) : option (list omsg) :=
  jett_queue jfix om fuel (length q) q.

(* ------------------------------------------------------------------ JettisonOutgoingSubtrees (1726-1757) *)

(* one call JettisonOutgoingSubtrees(optMatchString): [pat] = Some c: remove the PR_RESULT_DATATREES whose id matches c;
   None: remove those that carry no id *)
Fixpoint jett_trees_from (pat : option clause) (n : nat) (q : list omsg) : list omsg :=
  match n with
  | 0 => q
  | S i =>
    match nth_error q i with
    | Some (ODataTrees id _) =>
      let remove_it := match pat, id with
                       | Some c, Some k => cmatch c k
                       | Some _, None => false
                       | None, None => true
                       | None, Some _ => false
                       end in
      jett_trees_from pat i (if remove_it then remove_nth i q else q)
    | _ => jett_trees_from pat i q
    end
  end.

Definition jett_trees_one (pat : option clause) (q : list omsg) : list omsg := jett_trees_from pat (length q) q.

(* PR_COMMAND_JETTISONDATATREES: one pass per PR_NAME_TREE_REQUEST_ID string, or one pass with NULL *)
Definition jettison_trees (ids : option (list clause)) (q : list omsg) : list omsg :=
  match ids with
  | None => jett_trees_one None q
  | Some l => fold_left (fun q' c => jett_trees_one (Some c) q') l q
  end.

(* ------------------------------------------------------------------ the supersede scan of NodeChangedAux (395-411) *)

(* PruneSubscriptionMessage(msg, np): msg.RemoveName(np) of the Message-typed field; Some = B_NO_ERROR *)
Definition prune_di (d : ditems) (p : path) : option ditems :=
  if di_has_set d p then Some (mkDI (di_removed d) (filter (fun qv => negb (path_eqb (fst qv) p)) (di_sets d))) else None.

(* for (int32 i=oq.GetLastValidIndex(); i>=0; i--) if (what == DATAITEMS && Prune(msg, np).IsOK())
      {if (!msg->HasNames()) oq.RemoveItemAt(i); break;} *)
Fixpoint supersede_scan (p : path) (n : nat) (q : list omsg) : list omsg :=
  match n with
  | 0 => q
  | S i =>
    match nth_error q i with
    | Some (ODataItems d) =>
      match prune_di d p with
      | Some d' => if di_has_names d' then replace_nth i q (ODataItems d') else remove_nth i q
      | None => supersede_scan p i q
      end
    | _ => supersede_scan p i q
    end
  end.

(* ------------------------------------------------------------------ SETDATANODE_FLAG_ENABLESUPERCEDE *)

Definition with_sv (b : bserver) (sv : server) : bserver := mkB sv (b_gws b) (b_last b).

(* the supersede step of NodeChangedAux (395-411) for subscriber s: PruneSubscriptionMessage on the pending Message; when
   that fails, the scan of s's own outgoing queue *)
Definition prune_for (b : bserver) (s : sid) (p : path) : bserver :=
  match get_session (b_sv b) s with
  | None => b
  | Some ss =>
    match (match s_pending ss with Some pd => prune_di pd p | None => None end) with
    | Some pd' => with_sv b (upd_session (b_sv b) s (fun x => set_pending x (Some pd')))
    | None => set_queue b s (supersede_scan p (length (queue_of b s)) (queue_of b s))
    end
  end.

(* NodeChangedAux(node, data, {ENABLESUPERCEDE?}) of subscriber s, node not being removed *)
Definition bnca_set (b : bserver) (s : sid) (p : path) (d : payload) (sup : bool) : bserver :=
  let b1 := if sup then prune_for b s p else b in
  absorb b1 (node_changed_aux (b_sv b1) s p d false).

(* NodeChanged(modifiedNode, oldData, {ENABLESUPERCEDE?}) of subscriber s (the filter enter/leave logic of Server.node_changed) *)
Definition bnode_changed (b : bserver) (s : sid) (p : path) (d : payload) (old : option payload) (sup : bool) : bserver :=
  match get_session (b_sv b) s with
  | None => b
  | Some ss =>
    let subs := s_subs ss in
    if N.ltb 0 (m_nfilters subs) then
      let before := matches_node subs p old 0 in
      let now := matches_node subs p (Some d) 0 in
      match old with
      | Some _ => if now then bnca_set b s p d sup
                  else if before then absorb b (node_changed_aux (b_sv b) s p d true) else b
      | None => if now then bnca_set b s p d sup else b
      end
    else bnca_set b s p d sup
  end.

Definition bnotify_changed (b : bserver) (by_ : sid) (p : path) (d : payload) (old : option payload) (sup : bool) : bserver :=
  match find_node (sv_tree (b_sv b)) p with
  | None => b
  | Some n =>
    fold_left (fun b' kc => if N.eqb (fst kc) by_ then b' else bnode_changed b' (fst kc) p d old sup) (n_subs n) b
  end.

(* SetDataNode (459) with the supersede bit: as Server.set_data_loop; only DataNode::SetData on the last clause carries the bit *)
Fixpoint bset_data_loop (b : bserver) (by_ : sid) (pp : path) (cl : list name) (d : payload)
         (dontcreate dontoverwrite quiet sup : bool) : bserver :=
  match cl with
  | [] => b
  | k :: rest =>
    let last := match rest with [] => true | _ => false end in
    let p := pp ++ [k] in
    let sv := b_sv b in
    match find_node (sv_tree sv) p with
    | Some n =>
      if last then
        if dontoverwrite then b
        else
          let b1 := with_sv b (set_tree sv (set_data (sv_tree sv) p d)) in
          if quiet then b1 else bnotify_changed b1 by_ p d (Some (n_data n)) sup
      else bset_data_loop b by_ p rest d dontcreate dontoverwrite quiet sup
    | None =>
      if dontcreate then b
      else if Nat.leb max_node_depth (length pp) then b
      else
        let d0 := if last then d else empty_payload in
        let sv1 := set_tree sv (add_node (sv_tree sv) (mkNode p d0 (new_node_table sv p))) in
        if last then (if quiet then with_sv b sv1 else bnotify_changed (with_sv b sv1) by_ p d0 None sup)
        else bset_data_loop (if quiet then with_sv b sv1 else absorb b (notify_changed sv1 by_ p d0 None false))
                            by_ p rest d dontcreate dontoverwrite quiet sup
    end
  end.

(* ------------------------------------------------------------------ PR_COMMAND_GETDATATREES (590-607) *)

(* GetSubtreesCallback: own nodes are skipped (no index, no reflect-to-self), every other matched node becomes a field *)
Definition subtrees_cb (ss : session) (acc : list path) (n : node) : list path * Z :=
  if own_node ss (n_path n) then (acc, Z.of_nat session_depth)
  else (n_path n :: acc, Z.of_nat (depth n)).

Definition get_trees (fx : fixes) (sv : server) (ss : session) (keys : list (spath * option qfilter)) : list path :=
  let mt := m_of_list (map (fun kf => (fix_path (fst kf), snd kf)) keys) in
  rev (do_traversal (subtrees_cb ss) (sv_tree sv) mt [] true (fx_guard fx) []).

(* ------------------------------------------------------------------ PushSubscriptionMessages (1211) on fuel *)

(* while(_subsDirty) {_subsDirty = false; for every session: PushSubscriptionMessage(_nextSubscriptionMessage)} *)
Fixpoint push_loop (fuel : nat) (sv : server) : option server :=
  match fuel with
  | 0 => None
  | S f =>
    if sv_dirty sv
    then push_loop f (mkServer (sv_tree sv) (map push_pending (sv_sessions sv)) false)
    else Some sv
  end.

(* ------------------------------------------------------------------ NodeChangedAux (357) with its nest counter *)

(* [nest] = _nodeChangedAuxNestCount.  The recursive call happens after PushSubscriptionMessages(), i.e. with no
   pending Message left, so the "has this node been set in the pending Message" test cannot succeed again. *)
Fixpoint nca_rec (fuel : nat) (nest : nat) (sv : server) (s : sid) (p : path) (d : payload) (removed : bool) : option server :=
  match fuel with
  | 0 => None
  | S f =>
    match get_session sv s with
    | None => Some sv
    | Some ss =>
      let pend := pending_or_new ss in
      let sv0 := set_dirty (upd_session sv s (fun x => set_pending x (Some pend))) true in
      let flush sv1 :=
        match get_session sv1 s with
        | Some ss1 =>
          match s_pending ss1 with
          | Some pd => if N.leb (s_max ss1) (di_num_names pd) then push_loop fuel sv1 else Some sv1
          | None => Some sv1
          end
        | None => Some sv1
        end in
      if removed then
        if di_has_set pend p then
          match push_loop fuel sv0 with
          | None => None
          | Some sv' =>
            match (if Nat.ltb nest max_nca_nest then nca_rec f (S nest) sv' s p d removed else Some sv') with
            | None => None
            | Some sv2 => flush sv2
            end
          end
        else flush (set_dirty (upd_session sv s (fun x => set_pending x (Some (di_add_removed pend p)))) true)
      else flush (set_dirty (upd_session sv s (fun x => set_pending x (Some (di_add_set pend p d)))) true)
    end
  end.

(* ------------------------------------------------------------------ DataNode::RemoveChild(key, notify, recurse = true) on fuel *)

(* RemoveChild for the node at path p:  while(child->HasChildren()) child->RemoveChild(first key);  then the node itself.
   [leave] = what happens to one node when it goes (notification + unlinking), as a function of the server state. *)
Section RemoveRec.
Variable leave : server -> path -> server.

Fixpoint remove_rec (fuel : nat) (sv : server) (p : path) : option server :=
  match fuel with
  | 0 => None
  | S f =>
    match drain_kids f sv p with
    | None => None
    | Some sv1 => Some (leave sv1 p)
    end
  end
with drain_kids (fuel : nat) (sv : server) (p : path) : option server :=
  match fuel with
  | 0 => None
  | S f =>
    match children (sv_tree sv) p with
    | [] => Some sv
    | c :: _ =>
      match remove_rec f sv (n_path c) with
      | None => None
      | Some sv1 => drain_kids f sv1 p
      end
    end
  end.
End RemoveRec.

(* what Server.remove_subtree does per node *)
Definition leave_node (by_ : sid) (notify : bool) (sv : server) (q : path) : server :=
  match find_node (sv_tree sv) q with
  | None => sv
  | Some n =>
    let sv1 := if notify then notify_changed sv by_ q (n_data n) (Some (n_data n)) true else sv in
    set_tree sv1 (remove_node (sv_tree sv1) q)
  end.

(* ------------------------------------------------------------------ commands *)

Inductive bcmd :=
| BBase (c : cmd)                                             (* the commands of Server.v *)
| BSetSup (flags : N) (items : list (list name * payload))    (* PR_COMMAND_SETDATA with SETDATANODE_FLAG_ENABLESUPERCEDE *)
| BPing (tag : N)                                             (* PR_COMMAND_PING *)
| BNoop                                                       (* PR_COMMAND_NOOP *)
| BBounce (code what : N)                                     (* SETDATATREES, unknown codes: ERRORUNIMPLEMENTED; KICK/ADDBANS/.. without privilege: ERRORACCESSDENIED *)
| BJettResults (keys : option (list (spath * option qfilter)))(* PR_COMMAND_JETTISONRESULTS: None = no PR_NAME_KEYS string field *)
| BJettTrees (ids : option (list clause))                     (* PR_COMMAND_JETTISONDATATREES *)
| BGetTrees (id : option name) (keys : list (spath * option qfilter))   (* PR_COMMAND_GETDATATREES *)
| BBatch (l : list bcmd).                                     (* PR_COMMAND_BATCH *)

Variable fx : fixes.
Variable jfix : bool.

(* AfterMessageReceivedFromGateway: PushSubscriptionMessages *)
Definition bpush (fuel : nat) (b : bserver) : option bserver :=
  match push_loop fuel (b_sv b) with
  | None => None
  | Some sv => Some (absorb b sv)
  end.

(* MessageReceivedFromGateway(msg) of session s; [nest] = _batchMsgNestCount *)
Fixpoint bhandle (fuel : nat) (nest : nat) (b : bserver) (s : sid) (c : bcmd) {struct c} : option bserver :=
  match get_session (b_sv b) s with
  | None => Some b
  | Some ss =>
    match c with
    | BBase c0 => Some (absorb b (handle fx nest (b_sv b) s c0))
    | BSetSup flags items =>
      Some (fold_left (fun b' it =>
                         match get_session (b_sv b') s with
                         | Some ss' => match fst it with
                                       | [] => b'
                                       | _ => bset_data_loop b' (s_id ss') (session_dir ss') (fst it) (snd it)
                                                (flag_set flags c_SETDATANODE_FLAG_DONTCREATENODE)
                                                (flag_set flags c_SETDATANODE_FLAG_DONTOVERWRITEDATA)
                                                (flag_set flags c_SETDATANODE_FLAG_QUIET) true
                                       end
                         | None => b'
                         end) items b)
    | BPing t => Some (enqueue b s (OPong t))
    | BNoop => Some b
    | BBounce code what => Some (enqueue b s (OBounce code what))
    | BJettResults keys =>
      let om := match keys with
                | Some ks => Some (m_of_list (map (fun kf => (fix_path (fst kf), snd kf)) ks))
                | None => None
                end in
      match jettison_results jfix om fuel (queue_of b s) with
      | None => None
      | Some q' => Some (set_queue b s q')
      end
    | BJettTrees ids => Some (set_queue b s (jettison_trees ids (queue_of b s)))
    | BGetTrees id keys => Some (enqueue b s (ODataTrees id (get_trees fx (b_sv b) ss keys)))
    | BBatch l =>
      if Nat.ltb nest max_batch_nest then
        (fix go (l : list bcmd) (b : bserver) : option bserver :=
           match l with
           | [] => Some b
           | c' :: r =>
             match bhandle fuel (S nest) b s c' with
             | None => None
             | Some b1 => match bpush fuel b1 with None => None | Some b2 => go r b2 end
             end
           end) l b
      else Some b
    end
  end.

(* ------------------------------------------------------------------ one turn of the event loop *)

Inductive bevent :=
| BAttach (s : sid) (host nm : name)
| BDetach (s : sid)
| BBlock (s : sid) (blocked : bool)       (* the client stops / resumes reading *)
| BCmd (s : sid) (c : bcmd).

(* DoOutput for every session whose client reads: its queue goes out *)
Definition flush (b : bserver) : bserver :=
  mkB (b_sv b)
      (map (fun g => if g_blocked g then g else mkGw (g_sid g) [] false) (b_gws b))
      (flat_map (fun g => if g_blocked g then [] else match g_q g with [] => [] | q => [(g_sid g, q)] end) (b_gws b)).

Definition bstep (fuel : nat) (b : bserver) (ev : bevent) : option bserver :=
  match ev with
  | BAttach s host nm =>
    match get_session (b_sv b) s with
    | Some _ => Some (flush b)
    | None =>
      let b1 := mkB (b_sv b) (b_gws b ++ [mkGw s [] false]) (b_last b) in
      Some (flush (absorb b1 (attach (b_sv b) s host nm)))
    end
  | BDetach s =>
    let b1 := absorb b (detach fx (b_sv b) s) in
    Some (flush (mkB (b_sv b1) (filter (fun g => negb (N.eqb (g_sid g) s)) (b_gws b1)) (b_last b1)))
  | BBlock s bl => Some (flush (upd_gw b s (fun g => mkGw (g_sid g) (g_q g) bl)))
  | BCmd s c =>
    match get_session (b_sv b) s with
    | None => Some (flush b)
    | Some _ =>
      match bhandle fuel 0 b s c with
      | None => None
      | Some b1 => match bpush fuel b1 with None => None | Some b2 => Some (flush b2) end
      end
    end
  end.

Fixpoint brun (fuel : nat) (evs : list bevent) (b : bserver) : option bserver :=
  match evs with
  | [] => Some b
  | ev :: r => match bstep fuel b ev with None => None | Some b1 => brun fuel r b1 end
  end.

End Bounded.

(* ------------------------------------------------------------------ the code at hand (regenerated constants, gen/gen_consts.py) *)

(* which index the per-field item loop of JettisonOutgoingResults passes to RemoveData in the sources the check runs on *)
Definition code_jfix : bool := N.eqb c_c07_jettison_removes_item_j 1.

(* which of the three repairs of the shared server model the sources at hand contain *)
Definition code_fixes : fixes :=
  mkFixes (N.eqb c_c07_guard_as_found 0) (N.eqb c_c07_cqf_as_found 0) (N.eqb c_c07_push_as_found 0).
