(* Refl/MirrorStale.v -- quiet changes the observer CAN see: mirror_converges_announced.
   A command of another session that consists of quiet SETDATA / REMOVEDATA only tells nobody anything; the observer's
   mirror keeps what it held at the nodes whose payload (or existence) the command changed.  Those paths are collected
   ([stale_run]); at every other foreign path the mirror is exact at every quiescent point, whatever happened quietly
   elsewhere.  (A path stays in the collection once it is in: a later announced change would in fact repair it, unless a
   filter hides it.)
   Proof: a ghost client whose mirror is exact everywhere runs along (its mirror is patched at the changed paths when a
   quiet command happens); real and ghost mirror agree outside the collection, and every step keeps that. *)
From Coq Require Import List NArith ZArith Bool Arith Lia.
From Muscle Require Import Gen.Consts Refl.Base Refl.BaseProofs Refl.Tree Refl.TreeProofs Refl.Matcher Refl.MatcherProofs
     Refl.Traverse Refl.TraverseFold Refl.TraverseSpec Refl.Session Refl.Server Refl.ServerProofs Refl.Mirror Refl.MirrorBase
     Refl.MirrorServer Refl.MirrorNotify Refl.MirrorSem Refl.MirrorSteps Refl.MirrorHandlers Refl.MirrorSubscribe Refl.MirrorFetch
     Refl.MirrorSubJ Refl.MirrorCmd Refl.MirrorFrame Refl.MirrorQuiet Refl.MirrorTail Refl.MirrorProofs Refl.MirrorCheck.
Import ListNotations.

Section Stale.
Context {M : MatchOps} {L : MatchLaws M}.
Variable fx : fixes.
Hypothesis guard_on : fx_guard fx = true.
Hypothesis overlap_on : fx_overlap fx = true.
Hypothesis push_on : fx_push fx = true.

(* ------------------------------------------------------------------ commands that tell nobody anything *)

Fixpoint all_quiet (c : cmd) : bool :=
  match c with
  | CSetData flags _ => flag_set flags c_SETDATANODE_FLAG_QUIET
  | CRemoveData q _ => q
  | CBatch l => forallb all_quiet l
  | _ => false
  end.

Lemma push_all_clean : forall sv, sv_dirty sv = false -> push_all sv = sv.
Proof. intros sv H. unfold push_all. now rewrite H. Qed.

Lemma all_quiet_rest : forall c nest sv b, all_quiet c = true -> sv_dirty sv = false -> same_rest sv (handle fx nest sv b c).
Proof.
  induction c using cmd_ind'; intros nest sv b Hq Hd; try discriminate; cbn [handle all_quiet] in *;
    destruct (get_session sv b) as [bs|] eqn:Hbs; try apply same_rest_refl.
  - destruct (set_data_items_quiet i sv b f (session_dir bs) Hq) as [Hr _]; [intros x Hx; congruence|]. exact Hr.
  - subst q. destruct (do_remove_data_quiet fx sv bs k) as [Hr _]. exact Hr.
  - destruct (Nat.ltb nest max_batch_nest); [|apply same_rest_refl].
    clear Hbs bs. revert sv Hd Hq. induction H as [|c l Hc Hl IHl]; intros sv Hd Hq; [apply same_rest_refl|].
    cbn [forallb] in Hq. apply andb_true_iff in Hq as [H1 H2].
    pose proof (Hc (S nest) sv b H1 Hd) as Hr1.
    assert (Hd1 : sv_dirty (handle fx (S nest) sv b c) = false) by (destruct Hr1 as [_ Hx]; congruence).
    rewrite (push_all_clean _ Hd1). eapply same_rest_trans; [exact Hr1|]. now apply IHl.
Qed.

(* ------------------------------------------------------------------ the paths whose payload / existence changed *)

Definition opt_eqb (a b : option payload) : bool :=
  match a, b with Some x, Some y => N.eqb x y | None, None => true | _, _ => false end.

Lemma opt_eqb_eq : forall a b, opt_eqb a b = true -> a = b.
Proof. intros [x|] [y|] H; cbn in H; try discriminate; auto. apply N.eqb_eq in H. now subst. Qed.

Definition changed (t t' : tree) : list path :=
  filter (fun p => negb (opt_eqb (data_at t p) (data_at t' p))) (map n_path t ++ map n_path t').

Lemma changed_spec : forall t t' q, pmem q (changed t t') = false -> data_at t' q = data_at t q.
Proof.
  intros t t' q H. destruct (opt_eqb (data_at t q) (data_at t' q)) eqn:E; [symmetry; now apply opt_eqb_eq|].
  destruct (in_dec (list_eq_dec N.eq_dec) q (map n_path t ++ map n_path t')) as [Hin|Hni].
  - assert (In q (changed t t')) by (unfold changed; apply filter_In; split; [auto|now rewrite E]).
    apply pmem_spec in H0. congruence.
  - assert (H1 : find_node t q = None).
    { apply find_node_none. intros n Hn E'. apply Hni. apply in_or_app. left. apply in_map_iff. eauto. }
    assert (H2 : find_node t' q = None).
    { apply find_node_none. intros n Hn E'. apply Hni. apply in_or_app. right. apply in_map_iff. eauto. }
    unfold data_at. now rewrite H1, H2.
Qed.

(* ------------------------------------------------------------------ patching a mirror at given paths *)

Definition patch (m : mirror) (ps : list path) (f : path -> option payload) : mirror :=
  fold_left (fun m p => match f p with Some v => mirror_set m p v | None => mirror_remove m p end) ps m.

Lemma patch_get : forall ps m f q, mirror_get (patch m ps f) q = if pmem q ps then f q else mirror_get m q.
Proof.
  unfold patch. induction ps as [|p ps IH]; intros m f q; cbn [fold_left pmem existsb]; [reflexivity|].
  rewrite IH. fold (pmem q ps). destruct (pmem q ps); [now rewrite orb_true_r|]. rewrite orb_false_r.
  rewrite (path_eqb_sym q p).
  destruct (f p) as [v|] eqn:Ef; [rewrite mirror_get_set|rewrite mirror_get_remove];
    destruct (path_eqb p q) eqn:E; auto; apply path_eqb_eq in E; subst; now rewrite Ef.
Qed.

Lemma patch_ok : forall ps m f, mirror_ok m -> mirror_ok (patch m ps f).
Proof.
  unfold patch. induction ps as [|p ps IH]; intros m f H; cbn [fold_left]; auto.
  apply IH. destruct (f p); [now apply mirror_set_ok|now apply mirror_remove_ok].
Qed.

(* ------------------------------------------------------------------ real and ghost clients *)

Definition agree (st : list path) (m mg : mirror) : Prop :=
  forall q, pmem q st = false -> mirror_get m q = mirror_get mg q.

Definition R (st : list path) (c cg : client) : Prop :=
  c_id cg = c_id c /\ c_subs cg = c_subs c /\ mirror_ok (c_mirror c) /\ mirror_ok (c_mirror cg)
  /\ agree st (c_mirror c) (c_mirror cg).

Lemma agree_apply_all : forall st ds m mg, agree st m mg -> agree st (apply_all m ds) (apply_all mg ds).
Proof.
  intros st ds m mg H q Hq. destruct (apply_all_shape ds q) as [[r Hr]|Hf]; [now rewrite !Hr|]. rewrite !Hf. now apply H.
Qed.

Lemma agree_filter : forall st (f : path * payload -> bool) m mg, mirror_ok m -> mirror_ok mg ->
  agree st m mg -> agree st (filter f m) (filter f mg).
Proof. intros st f m mg H1 H2 H q Hq. rewrite !mirror_get_filter by auto. now rewrite (H q Hq). Qed.

Lemma agree_more : forall st st' m mg, (forall q, pmem q st' = false -> pmem q st = false) -> agree st m mg -> agree st' m mg.
Proof. intros st st' m mg H Ha q Hq. apply Ha. now apply H. Qed.

Lemma R_deliver : forall st sv c cg, R st c cg -> R st (deliver sv c) (deliver sv cg).
Proof.
  intros st sv c cg [H1 [H2 [H3 [H4 H5]]]]. unfold deliver. rewrite H1.
  destruct (get_session sv (c_id c)) as [ss|]; [|repeat split; auto].
  repeat split; cbn [c_id c_subs c_mirror]; auto; try (now apply apply_all_ok). now apply agree_apply_all.
Qed.

Lemma R_prune : forall st c cg, R st c cg -> R st (prune c) (prune cg).
Proof.
  intros st c cg [H1 [H2 [H3 [H4 H5]]]]. unfold prune. rewrite H1, H2.
  repeat split; cbn [c_id c_subs c_mirror]; auto; try (now apply filter_ok_mirror). now apply agree_filter.
Qed.

Lemma Forall2_map2 : forall (A : Type) (P : A -> A -> Prop) (f g : A -> A) l l',
  (forall a b, P a b -> P (f a) (g b)) -> Forall2 P l l' -> Forall2 P (map f l) (map g l').
Proof. intros A P f g l l' H HF. induction HF; cbn; constructor; auto. Qed.

Lemma Forall2_filter2 : forall (A : Type) (P : A -> A -> Prop) (f : A -> bool) l l',
  (forall a b, P a b -> f a = f b) -> Forall2 P l l' -> Forall2 P (filter f l) (filter f l').
Proof.
  intros A P f l l' H HF. induction HF as [|a b l l' Hab HF IH]; cbn; [constructor|].
  rewrite <- (H a b Hab). destruct (f a); [constructor|]; auto.
Qed.

(* one event keeps real and ghost clients related (same server, same event) *)
Lemma world_step_rel : forall st sv cl cg last lastg ev, Forall2 (R st) cl cg ->
  Forall2 (R st) (w_clients (world_step fx (mkWorld sv cl last) ev)) (w_clients (world_step fx (mkWorld sv cg lastg) ev)).
Proof.
  intros st sv cl cg last lastg ev HF. unfold world_step. cbn [w_srv w_clients].
  set (sv1 := step fx sv ev).
  destruct ev as [s host nm|s|s c].
  - apply Forall2_map2; [intros a b; apply R_deliver|].
    destruct (get_session sv s); [exact HF|]. apply Forall2_app; [exact HF|]. constructor; [|constructor].
    repeat split; cbn; try constructor. 
  - apply Forall2_filter2; [intros a b [H1 _]; now rewrite H1|].
    apply Forall2_map2; [intros a b; apply R_deliver|exact HF].
  - destruct (get_session sv s) as [ss|].
    + assert (H0 : Forall2 (R st)
                (map (deliver sv1) (map (fun x => if N.eqb (c_id x) s then mkClient (c_id x) (c_mirror x) (fst (client_cmd (c_subs x) c)) else x) cl))
                (map (deliver sv1) (map (fun x => if N.eqb (c_id x) s then mkClient (c_id x) (c_mirror x) (fst (client_cmd (c_subs x) c)) else x) cg))).
      { apply Forall2_map2; [intros a b; apply R_deliver|].
        apply Forall2_map2; [|exact HF]. intros a b [H1 [H2 [H3 [H4 H5]]]]. rewrite H1, H2.
        destruct (N.eqb (c_id a) s); repeat split; cbn [c_id c_subs c_mirror]; auto. }
      destruct (snd (client_cmd empty_matcher c)); [|exact H0].
      apply Forall2_map2; [|exact H0]. intros a b HR. pose proof HR as [H1 _]. rewrite H1.
      destruct (N.eqb (c_id a) s); [now apply R_prune|exact HR].
    + apply Forall2_map2; [intros a b; apply R_deliver|exact HF].
Qed.

(* ------------------------------------------------------------------ quiet commands of another session *)

Variable o : sid.

Definition quiet_other (ev : event) : bool :=
  match ev with ECmd b c => negb (N.eqb b o) && all_quiet c | _ => false end.

Lemma all_quiet_nounsub : forall c, all_quiet c = true -> cmd_nounsub c = true.
Proof.
  induction c using cmd_ind'; intros Hq; try discriminate; try reflexivity.
  cbn [all_quiet cmd_nounsub] in *. induction H as [|c l Hc Hl IH]; [reflexivity|].
  cbn [forallb] in *. apply andb_true_iff in Hq as [H1 H2]. now rewrite (Hc H1), (IH H2).
Qed.

Lemma all_quiet_subs : forall c m, all_quiet c = true -> fst (client_cmd m c) = m.
Proof.
  induction c using cmd_ind'; intros m Hq; try discriminate; try reflexivity.
  cbn [client_cmd]. rewrite (client_batch_fst l m false). cbn [all_quiet] in Hq. revert m. induction H as [|c l Hc Hl IH]; intros m; [reflexivity|].
  cbn [forallb] in Hq. apply andb_true_iff in Hq as [H1 H2]. cbn [fold_left]. rewrite (Hc m H1). now apply IH.
Qed.

(* the ghost's mirror after a quiet command: what it should hold at the changed paths *)
Definition patch_client (sv : server) (t' : tree) (S : list path) (c : client) : client :=
  mkClient (c_id c)
           (patch (c_mirror c) S (fun q => match get_session sv (c_id c) with
                                           | Some ss => expected t' ss q
                                           | None => None
                                           end))
           (c_subs c).

(* the invariant: some ghost clients, exact everywhere, agree with the real ones outside [st] *)
Definition SInv (B : nat) (w : world) (st : list path) : Prop :=
  exists cg lastg, Forall2 (R st) (w_clients w) cg
                   /\ winv B (mkWorld (w_srv w) cg lastg) /\ wJ (mkWorld (w_srv w) cg lastg) o.

Lemma pmem_app : forall q a b, pmem q (a ++ b) = pmem q a || pmem q b.
Proof. intros q a b. unfold pmem. apply existsb_app. Qed.

Lemma stale_step_quiet : forall B w st b c, small (B + cmd_budget c) -> SInv B w st ->
  b <> o -> all_quiet c = true ->
  SInv (B + cmd_budget c) (world_step fx w (ECmd b c))
       (st ++ changed (sv_tree (w_srv w)) (sv_tree (w_srv (world_step fx w (ECmd b c))))).
Proof.
  intros B [sv cl last] st b c HB [cg [lastg [HF [HW HJ]]]] Hne Hq. cbn [w_srv w_clients] in *.
  destruct HW as [I Hqu Hhas Hmok]. cbn [w_srv w_clients] in *.
  pose proof (quiet_settled _ Hqu) as Hset0.
  set (sv1 := step fx sv (ECmd b c)).
  assert (Hr : same_rest sv sv1).
  { unfold sv1. cbn [step]. destruct (get_session sv b); [|apply same_rest_refl].
    pose proof (all_quiet_rest c 0 sv b Hq (proj1 Hqu)) as Hr. destruct Hr as [Hr1 Hr2].
    rewrite push_all_clean by (rewrite Hr2; apply (proj1 Hqu)). split; auto. }
  destruct Hr as [Hr1 Hr2].
  assert (Hset1 : settled sv1).
  { split; [rewrite Hr2; apply (proj1 Hqu)|]. intros ss Hin. rewrite Hr1 in Hin. apply (proj2 Hset0 ss Hin). }
  assert (I1 : inv (B + cmd_budget c) sv1) by (apply (step_inv fx guard_on (ECmd b c) sv B); auto; exact Logic.I).
  assert (Hgs : forall k, get_session sv1 k = get_session sv k) by (intros k; unfold get_session; now rewrite Hr1).
  set (S := changed (sv_tree sv) (sv_tree sv1)).
  (* the real clients keep everything *)
  assert (Hreal : forall x, In x cl ->
            let x' := deliver sv1 (if N.eqb (c_id x) b then mkClient (c_id x) (c_mirror x) (fst (client_cmd (c_subs x) c)) else x) in
            c_id x' = c_id x /\ c_subs x' = c_subs x /\ c_mirror x' = c_mirror x).
  { intros x Hx. rewrite (all_quiet_subs c (c_subs x) Hq).
    assert (Hd : forall y, c_id (deliver sv1 y) = c_id y /\ c_subs (deliver sv1 y) = c_subs y /\ c_mirror (deliver sv1 y) = c_mirror y).
    { intros y. unfold deliver. rewrite Hgs. destruct (get_session sv (c_id y)) as [ss|] eqn:Hss; [|auto].
      cbn [c_id c_subs c_mirror]. assert (Hin : In ss (sv_sessions sv)) by (apply find_session_some in Hss; tauto).
      destruct (proj2 Hqu ss Hin) as [_ Hout]. rewrite Hout. auto. }
    destruct (N.eqb (c_id x) b); [destruct (Hd (mkClient (c_id x) (c_mirror x) (c_subs x))) as [H1 [H2 H3]]; auto|apply Hd]. }
  exists (map (patch_client sv (sv_tree sv1) S) cg), [].
  unfold world_step. cbn [w_srv w_clients step]. fold sv1.
  assert (Hfl : snd (client_cmd empty_matcher c) = false) by (apply nounsub_no_unsub; now apply all_quiet_nounsub).
  split; [|split].
  - (* related *)
    fold (step fx sv (ECmd b c)). fold sv1.
    assert (Hcl : Forall2 (R (st ++ S))
              (map (deliver sv1) (map (fun x => if N.eqb (c_id x) b then mkClient (c_id x) (c_mirror x) (fst (client_cmd (c_subs x) c)) else x) cl))
              (map (patch_client sv (sv_tree sv1) S) cg)).
    { clear Hhas Hmok HJ. induction HF as [|x y cl cg Hxy HF IH]; cbn [map]; [constructor|].
      constructor; [|apply IH; intros z Hz; apply Hreal; now right].
      destruct (Hreal x (or_introl eq_refl)) as [H1 [H2 H3]]. destruct Hxy as [G1 [G2 [G3 [G4 G5]]]].
      unfold R. rewrite H1, H2, H3. unfold patch_client. cbn [c_id c_subs c_mirror].
      repeat split; auto; [now apply patch_ok|].
      intros q Hq'. rewrite pmem_app in Hq'. apply orb_false_iff in Hq' as [Hq1 Hq2].
      rewrite patch_get. fold S. rewrite Hq2. now apply G5. }
    destruct (get_session sv b); [rewrite Hfl|]; [exact Hcl|].
    (* no such session: the command is ignored, the client list is just delivered *)
    assert (Hcl' : Forall2 (R (st ++ S)) (map (deliver sv1) cl) (map (patch_client sv (sv_tree sv1) S) cg)).
    { clear Hhas Hmok HJ Hcl. induction HF as [|x y cl cg Hxy HF IH]; cbn [map]; [constructor|].
      constructor; [|apply IH; intros z Hz; apply Hreal; now right].
      destruct Hxy as [G1 [G2 [G3 [G4 G5]]]].
      assert (Hd : c_id (deliver sv1 x) = c_id x /\ c_subs (deliver sv1 x) = c_subs x /\ c_mirror (deliver sv1 x) = c_mirror x).
      { unfold deliver. rewrite Hgs. destruct (get_session sv (c_id x)) as [ss|] eqn:Hss; [|auto].
        cbn [c_id c_subs c_mirror]. assert (Hin : In ss (sv_sessions sv)) by (apply find_session_some in Hss; tauto).
        destruct (proj2 Hqu ss Hin) as [_ Hout]. rewrite Hout. auto. }
      destruct Hd as [H1 [H2 H3]].
      unfold R. rewrite H1, H2, H3. unfold patch_client. cbn [c_id c_subs c_mirror].
      repeat split; auto; [now apply patch_ok|].
      intros q Hq'. rewrite pmem_app in Hq'. apply orb_false_iff in Hq' as [Hq1 Hq2].
      rewrite patch_get. fold S. rewrite Hq2. now apply G5. }
    exact Hcl'.
  - (* the ghost world is well formed *)
    constructor; cbn [w_srv w_clients].
    + eapply inv_same_core; [apply clear_outs_core|exact I1].
    + now apply quiet_clear_outs.
    + intros c' Hc'. apply in_map_iff in Hc' as [x [Hx1 Hx2]]. subst c'. cbn [patch_client c_id c_subs].
      destruct (Hhas x Hx2) as [ss [Hss Hsub]]. exists (clear_out ss). rewrite get_session_clear, Hgs, Hss. auto.
    + intros c' Hc'. apply in_map_iff in Hc' as [x [Hx1 Hx2]]. subst c'. cbn [patch_client c_mirror]. apply patch_ok. now apply Hmok.
  - (* ... and exact *)
    intros c' Hc' Hid. cbn [w_srv w_clients] in *. apply in_map_iff in Hc' as [x [Hx1 Hx2]]. subst c'.
    cbn [patch_client c_id c_mirror] in *.
    destruct (Hhas x Hx2) as [ss [Hss Hsub]]. rewrite Hid in Hss.
    intros ss' Hss' q Hown. rewrite get_session_clear, Hgs, Hss in Hss'. cbn in Hss'. inversion Hss'; subst ss'. clear Hss'.
    assert (Hss1 : get_session sv1 o = Some ss) by (now rewrite Hgs).
    rewrite (V_cleared _ sv1 o ss q Hset1 Hss1). f_equal. rewrite patch_get. rewrite Hid, Hss.
    assert (Hown0 : own_node ss q = false) by (rewrite <- Hown; apply own_node_dir; reflexivity).
    assert (He : expected (sv_tree (clear_outs sv1)) (clear_out ss) q = expected (sv_tree sv1) ss q) by (apply expected_subs; reflexivity).
    change (match get_session sv b with Some _ => push_all (handle fx 0 sv b c) | None => sv end) with sv1.
    rewrite He. fold S. destruct (pmem q S) eqn:Eq; [reflexivity|].
    pose proof (HJ x Hx2 Hid ss Hss q Hown0) as Hx. cbn [w_srv] in Hx.
    rewrite (V_quiet (c_mirror x) sv o ss q Hqu Hss) in Hx. inversion Hx as [Hx'].
    rewrite Hx'. symmetry. apply expected_data. now apply changed_spec.
Qed.

Lemma stale_step_ok : forall B w st ev, small (B + ev_budget ev) -> SInv B w st ->
  wf_event (w_srv w) ev -> ev_ok o w ev -> ev_clean o w ev ->
  SInv (B + ev_budget ev) (world_step fx w ev) st.
Proof.
  intros B [sv cl last] st ev HB [cg [lastg [HF [HW HJ]]]] Hwf Hok Hcl. cbn [w_srv w_clients] in *.
  destruct (world_step_ok fx guard_on overlap_on push_on B (mkWorld sv cg lastg) ev o HB HW HJ Hwf Hok Hcl) as [HW' HJ'].
  exists (w_clients (world_step fx (mkWorld sv cg lastg) ev)), (w_last (world_step fx (mkWorld sv cg lastg) ev)).
  split; [now apply world_step_rel|]. split; [exact HW'|exact HJ'].
Qed.

(* ------------------------------------------------------------------ histories *)

(* every event is either fine for mirror_converges_partial, or an all-quiet command of another session *)
Fixpoint oks_wrun (w : world) (evs : list event) : Prop :=
  match evs with
  | [] => True
  | ev :: r => (quiet_other ev = true \/ (ev_ok o w ev /\ ev_clean o w ev)) /\ oks_wrun (world_step fx w ev) r
  end.

(* the paths changed by the all-quiet commands of other sessions, collected along the run *)
Fixpoint stale_run (w : world) (evs : list event) (st : list path) : list path :=
  match evs with
  | [] => st
  | ev :: r =>
    let w' := world_step fx w ev in
    stale_run w' r (if quiet_other ev then st ++ changed (sv_tree (w_srv w)) (sv_tree (w_srv w')) else st)
  end.

Lemma stale_run_ok : forall evs B w st, small (B + run_budget evs) -> SInv B w st -> wf_wrun fx w evs -> oks_wrun w evs ->
  SInv (B + run_budget evs) (world_run fx evs w) (stale_run w evs st).
Proof.
  induction evs as [|ev evs IH]; intros B w st HB HS Hwf Hok; cbn [world_run fold_left run_budget stale_run] in *.
  - now rewrite Nat.add_0_r.
  - destruct Hwf as [Hw1 Hw2]. destruct Hok as [Hok1 Hok2]. rewrite Nat.add_assoc.
    assert (HB1 : small (B + ev_budget ev)) by (eapply small_le; [|exact HB]; lia).
    destruct (quiet_other ev) eqn:Eq.
    + destruct ev as [| |b c]; try discriminate. cbn [quiet_other] in Eq. apply andb_true_iff in Eq as [E1 E2].
      apply negb_true_iff in E1. apply N.eqb_neq in E1. cbn [ev_budget] in *.
      apply IH; auto; [now rewrite <- Nat.add_assoc|]. now apply stale_step_quiet.
    + destruct Hok1 as [Hq|[Ha Hb]]; [discriminate|].
      apply IH; auto; [now rewrite <- Nat.add_assoc|]. now apply stale_step_ok.
Qed.

Lemma Forall2_In_l : forall (A : Type) (P : A -> A -> Prop) l l' a, Forall2 P l l' -> In a l -> exists b, In b l' /\ P a b.
Proof.
  intros A P l l' a HF. induction HF as [|x y l l' Hxy HF IH]; intros Hin; [destruct Hin|].
  destruct Hin as [E|Hin]; [subst; exists y; split; [now left|auto]|].
  destruct (IH Hin) as [b [H1 H2]]. exists b. split; [now right|auto].
Qed.

(* mirror_converges_announced: quiet changes by other sessions allowed anywhere; the mirror is exact at every foreign
   path that no all-quiet command changed *)
Theorem mirror_converges_announced : forall evs,
  wf_wrun fx empty_world evs -> oks_wrun empty_world evs -> small (run_budget evs) ->
  forall c ss, In c (w_clients (world_run fx evs empty_world)) -> c_id c = o ->
  get_session (w_srv (world_run fx evs empty_world)) o = Some ss ->
  forall q, own_node ss q = false -> pmem q (stale_run empty_world evs []) = false ->
  mirror_get (c_mirror c) q = expected (sv_tree (w_srv (world_run fx evs empty_world))) ss q.
Proof.
  intros evs Hwf Hok Hsm c ss Hc Hid Hss q Hown Hst.
  assert (HS0 : SInv 0 empty_world []).
  { exists [], []. split; [constructor|]. split; [apply empty_winv|]. intros c0 []. }
  destruct (stale_run_ok evs 0 empty_world [] Hsm HS0 Hwf Hok) as [cg [lastg [HF [HW HJ]]]].
  destruct (Forall2_In_l _ _ _ _ c HF Hc) as [cgc [Hin [H1 [H2 [H3 [H4 H5]]]]]].
  rewrite (H5 q Hst).
  destruct HW as [_ Hq _ _]. cbn [w_srv w_clients] in *.
  assert (Hidg : c_id cgc = o) by congruence.
  pose proof (HJ cgc Hin Hidg ss Hss q Hown) as H. cbn [w_srv] in H.
  rewrite (V_quiet (c_mirror cgc) _ o ss q Hq Hss) in H. now inversion H.
Qed.

(* a state-free test of oks_wrun *)
Definition ev_oks_b (ev : event) : bool := quiet_other ev || (ev_ok_b o ev && ev_clean_b o ev).

Lemma oks_wrun_b_spec : forall evs w, forallb ev_oks_b evs = true -> oks_wrun w evs.
Proof.
  induction evs as [|ev evs IH]; intros w H; [exact I|]. cbn [forallb] in H. apply andb_true_iff in H as [H1 H2].
  split; [|now apply IH]. unfold ev_oks_b in H1. apply orb_true_iff in H1 as [H1|H1]; [now left|right].
  apply andb_true_iff in H1 as [Ha Hb]. split; [now apply ev_ok_b_one|now apply ev_clean_b_one].
Qed.

End Stale.
