(* Refl/RoutePat.v -- the traversal and routing theorems of C05 instantiated with the StringMatcher model of C15
   (Refl/PatInst.v): the clause laws are no longer premises, they are C15's theorems about the model of
   regex/StringMatcher.cpp plus the repaired key parsing of DoTraversalAux.  What remains as premises: the tree and table
   invariants, and that node names are non-empty strings with one number each ([okname]). *)
From Coq Require Import List NArith ZArith Bool Arith Lia.
From Muscle Require Import Gen.Consts Refl.Base Refl.Tree Refl.Matcher Refl.Traverse Refl.Session Refl.Server Refl.Route
  Refl.TravBase Refl.TraverseProofs Refl.TraverseTheorems Refl.RouteProofs Refl.PatInst.
Import ListNotations.

Section Concrete.
Variable tbl : name -> list N.
Variable untbl : list N -> name.
Hypothesis tbl_untbl : forall s, tbl (untbl s) = s.

Local Notation OPS := (pat_ops tbl untbl true).
Local Notation OK := (okname tbl untbl).

Theorem traversal_eq_bruteforce_stringmatcher_lemma :
  forall (t : @tree) (m : @matcher OPS) (root : path) (use_filters : bool),
    tree_wf t -> matcher_wf m -> (forall n, In n t -> Forall OK (n_path n)) ->
    NoDup (map n_path (@visits OPS t m root use_filters true)) /\
    (forall n, In n (@visits OPS t m root use_filters true) <-> @selected OPS t m root use_filters n).
Proof.
  intros t m root uf TWF MWF NOK.
  exact (@traversal_eq_bruteforce_lemma OPS OK (pkeys_sound tbl untbl) (pkeys_complete tbl untbl tbl_untbl) t m root uf TWF MWF NOK).
Qed.

Theorem deliver_once_stringmatcher_lemma :
  forall (st : @rstate OPS) (s : sid) (ss : @session OPS) (ri : @rinfo OPS) (m : @umsg OPS),
    tree_wf (sv_tree (rs_srv st)) -> (forall n, In n (sv_tree (rs_srv st)) -> Forall OK (n_path n)) ->
    NoDup (map s_id (sv_sessions (rs_srv st))) -> matcher_wf (ri_route ri) ->
    get_session (rs_srv st) s = Some ss -> get_info st s = Some ri -> in_cmd_range (u_what m) = false ->
    route_msg r_all_fixed st s m
    = mkRS (rs_srv st)
           (map (fun x => if route_targets st s ri m (ri_id x)
                          then put_inbox s (mkD s (u_tag m) (overwrite (u_session m) (s_name ss))) x else x) (rs_info st)).
Proof.
  exact (@deliver_once_lemma OPS OK (pkeys_sound tbl untbl) (pkeys_complete tbl untbl tbl_untbl)).
Qed.

End Concrete.
