(* Refl/IndexProofs.v -- lemmas about the per-node index algebra and the flat tree of Refl/Index.v. *)
From Coq Require Import List Arith Bool Lia.
Import ListNotations.
From Muscle Require Import Refl.Index.

Lemma replay_app : forall a b l, replay (a ++ b) l = replay b (replay a l).
Proof. intros a b l. unfold replay. apply fold_left_app. Qed.
