(* Refl/IndexProofs.v -- lemmas about the per-node index algebra and the flat tree of Refl/Index.v. *)
From Coq Require Import List Arith Bool Lia Permutation.
Import ListNotations.
From Muscle Require Import Refl.Index.

(* ------------------------------------------------------------------ equality tests *)

Lemma name_eqb_eq : forall a b, name_eqb a b = true <-> a = b.
Proof.
  intros [x|x|x] [y|y|y]; simpl; split; intro H; try discriminate; try (inversion H; subst; apply Nat.eqb_refl);
    apply Nat.eqb_eq in H; subst; reflexivity.
Qed.

Lemma name_eqb_refl : forall a, name_eqb a a = true.
Proof. intro a. apply name_eqb_eq. reflexivity. Qed.

Lemma name_eqb_neq : forall a b, name_eqb a b = false <-> a <> b.
Proof.
  intros a b. split.
  - intros H E. apply name_eqb_eq in E. congruence.
  - intro H. destruct (name_eqb a b) eqn:E; [apply name_eqb_eq in E; contradiction | reflexivity].
Qed.

Lemma name_eq_dec : forall a b : name, {a = b} + {a <> b}.
Proof.
  intros a b. destruct (name_eqb a b) eqn:E.
  - left. apply name_eqb_eq. exact E.
  - right. apply name_eqb_neq. exact E.
Qed.

Lemma path_eqb_eq : forall p q, path_eqb p q = true <-> p = q.
Proof.
  induction p as [|a p IH]; intros [|b q]; simpl; split; intro H; try discriminate; try reflexivity.
  - apply andb_true_iff in H. destruct H as [H1 H2]. apply name_eqb_eq in H1. apply IH in H2. subst. reflexivity.
  - inversion H; subst. rewrite name_eqb_refl. simpl. apply IH. reflexivity.
Qed.

Lemma path_eqb_refl : forall p, path_eqb p p = true.
Proof. intro p. apply path_eqb_eq. reflexivity. Qed.

Lemma path_eqb_neq : forall p q, path_eqb p q = false <-> p <> q.
Proof.
  intros p q. split.
  - intros H E. apply path_eqb_eq in E. congruence.
  - intro H. destruct (path_eqb p q) eqn:E; [apply path_eqb_eq in E; contradiction | reflexivity].
Qed.

Lemma path_eqb_sym : forall p q, path_eqb p q = path_eqb q p.
Proof.
  intros p q. destruct (path_eqb p q) eqn:E.
  - apply path_eqb_eq in E. subst. symmetry. apply path_eqb_refl.
  - symmetry. apply path_eqb_neq. apply path_eqb_neq in E. congruence.
Qed.

Lemma mem_In : forall k l, mem k l = true <-> In k l.
Proof.
  intros k l. induction l as [|x t IH]; simpl.
  - split; [discriminate | contradiction].
  - rewrite orb_true_iff, IH, name_eqb_eq. tauto.
Qed.

Lemma mem_false : forall k l, mem k l = false <-> ~ In k l.
Proof.
  intros k l. rewrite <- mem_In. destruct (mem k l); split; congruence.
Qed.

(* ------------------------------------------------------------------ insert_at / remove_at *)

Lemma insert_at_perm : forall l i k, Permutation (k :: l) (insert_at l i k).
Proof.
  intros l i k. unfold insert_at.
  rewrite <- (firstn_skipn i l) at 1. apply Permutation_middle.
Qed.

Lemma insert_at_In : forall l i k x, In x (insert_at l i k) <-> x = k \/ In x l.
Proof.
  intros l i k x. split; intro H.
  - apply (Permutation_in x (Permutation_sym (insert_at_perm l i k))) in H. simpl in H. intuition.
  - apply (Permutation_in x (insert_at_perm l i k)). simpl. intuition.
Qed.

Lemma insert_at_NoDup : forall l i k, NoDup l -> ~ In k l -> NoDup (insert_at l i k).
Proof.
  intros l i k Hn Hk. apply (Permutation_NoDup (insert_at_perm l i k)). constructor; assumption.
Qed.

Lemma remove_at_perm : forall l i k, nth_error l i = Some k -> Permutation l (k :: remove_at l i).
Proof.
  induction l as [|x t IH]; intros [|i] k H; simpl in H; try discriminate.
  - inversion H; subst. unfold remove_at. simpl. apply Permutation_refl.
  - unfold remove_at. simpl. specialize (IH i k H). unfold remove_at in IH.
    eapply Permutation_trans; [apply perm_skip; exact IH | apply perm_swap].
Qed.

Lemma remove_at_In : forall l i x, In x (remove_at l i) -> In x l.
Proof.
  intros l i x H. unfold remove_at in H. apply in_app_or in H. destruct H as [H|H].
  - rewrite <- (firstn_skipn i l). apply in_or_app. left. exact H.
  - rewrite <- (firstn_skipn (S i) l). apply in_or_app. right. exact H.
Qed.

Lemma remove_at_NoDup : forall l i, NoDup l -> NoDup (remove_at l i).
Proof.
  intros l i H. destruct (nth_error l i) as [k|] eqn:E.
  - pose proof (Permutation_NoDup (remove_at_perm l i k E) H) as H2. inversion H2; assumption.
  - unfold remove_at. apply nth_error_None in E.
    rewrite firstn_all2 by lia. rewrite skipn_all2 by lia. rewrite app_nil_r. exact H.
Qed.

Lemma remove_at_not_In : forall l i k, NoDup l -> nth_error l i = Some k -> ~ In k (remove_at l i).
Proof.
  intros l i k H E. pose proof (Permutation_NoDup (remove_at_perm l i k E) H) as H2. inversion H2; assumption.
Qed.

Lemma remove_at_keeps : forall l i k x, nth_error l i = Some k -> In x l -> x <> k -> In x (remove_at l i).
Proof.
  intros l i k x E Hin Hne. apply (Permutation_in x (remove_at_perm l i k E)) in Hin. simpl in Hin.
  destruct Hin as [H|H]; [congruence | exact H].
Qed.

(* ------------------------------------------------------------------ find_last *)

Lemma find_last_some : forall k l i, find_last k l = Some i -> nth_error l i = Some k.
Proof.
  intros k l. induction l as [|x t IH]; intros i H; simpl in H; [discriminate|].
  destruct (find_last k t) as [j|] eqn:E.
  - inversion H; subst. simpl. apply IH. reflexivity.
  - destruct (name_eqb x k) eqn:Ex; [|discriminate]. inversion H; subst. apply name_eqb_eq in Ex. subst. reflexivity.
Qed.

Lemma find_last_none : forall k l, find_last k l = None <-> ~ In k l.
Proof.
  intros k l. induction l as [|x t IH]; simpl.
  - split; [intros _ H; exact H | reflexivity].
  - destruct (find_last k t) as [j|] eqn:E.
    + split; [discriminate|]. intro H. exfalso. apply H. right.
      destruct (in_dec name_eq_dec k t) as [Hi|Hn]; [exact Hi|]. apply IH in Hn. discriminate.
    + destruct (name_eqb x k) eqn:Ex.
      * split; [discriminate|]. intro H. exfalso. apply H. left. apply name_eqb_eq. exact Ex.
      * split; [|reflexivity]. intros _ [H|H].
        -- apply name_eqb_neq in Ex. contradiction.
        -- apply (proj1 IH eq_refl). exact H.
Qed.

Lemma find_last_lt : forall k l i, find_last k l = Some i -> i < length l.
Proof.
  intros k l i H. apply find_last_some in H. apply nth_error_Some. congruence.
Qed.

(* ------------------------------------------------------------------ generated names are fresh *)

Lemma gen_name_spec : forall kids fuel c,
  ~ In (fst (gen_name kids c fuel)) kids \/ (forall j, c <= j < c + fuel -> In (NI j) kids).
Proof.
  intros kids fuel. induction fuel as [|f IH]; intro c; simpl.
  - right. intros j Hj. lia.
  - destruct (mem (NI c) kids) eqn:E.
    + destruct (IH (S c)) as [H|H]; [left; exact H|].
      right. intros j Hj. destruct (Nat.eq_dec j c) as [->|Hne].
      * apply mem_In. exact E.
      * apply H. lia.
    + left. simpl. apply mem_false. exact E.
Qed.

Lemma NI_seq_NoDup : forall c n, NoDup (map NI (seq c n)).
Proof.
  intros c n. apply FinFun.Injective_map_NoDup; [|apply seq_NoDup].
  intros x y H. inversion H. reflexivity.
Qed.

Lemma gen_name_fresh : forall kids c, ~ In (fst (gen_name kids c (S (length kids)))) kids.
Proof.
  intros kids c. destruct (gen_name_spec kids (S (length kids)) c) as [H|H]; [exact H|].
  exfalso.
  assert (Hincl : incl (map NI (seq c (S (length kids)))) kids).
  { intros x Hx. apply in_map_iff in Hx. destruct Hx as [j [<- Hj]]. apply in_seq in Hj. apply H. lia. }
  pose proof (NoDup_incl_length (NI_seq_NoDup c (S (length kids))) Hincl) as Hl.
  rewrite map_length, seq_length in Hl. lia.
Qed.

(* ------------------------------------------------------------------ replay *)

Lemma replay_app : forall a b l, replay (a ++ b) l = replay b (replay a l).
Proof. intros a b l. unfold replay. apply fold_left_app. Qed.

Lemma replay_nil : forall l, replay [] l = l.
Proof. reflexivity. Qed.

Lemma replay_ins_from : forall l pre, replay (ins_from (length pre) l) pre = pre ++ l.
Proof.
  induction l as [|k t IH]; intro pre; simpl.
  - rewrite app_nil_r. reflexivity.
  - unfold replay. simpl. fold (replay (ins_from (S (length pre)) t) (insert_at pre (length pre) k)).
    unfold insert_at. rewrite firstn_all, skipn_all.
    replace (S (length pre)) with (length (pre ++ [k])) by (rewrite app_length; simpl; lia).
    rewrite IH. rewrite <- app_assoc. reflexivity.
Qed.

(* what a client holds after replaying a snapshot: the index, whatever it held before -- unless the
   index is empty, for which the server sends nothing at all *)
Lemma replay_snapshot_nonempty : forall n l, index_of n <> [] -> replay (snapshot n) l = index_of n.
Proof.
  intros n l H. unfold snapshot. destruct (index_of n) as [|k t] eqn:E; [congruence|].
  change (replay (OpClear :: ins_from 0 (k :: t)) l) with (replay (ins_from (length (@nil name)) (k :: t)) []).
  rewrite replay_ins_from. reflexivity.
Qed.

Lemma replay_snapshot_empty : forall n, replay (snapshot n) [] = index_of n.
Proof.
  intro n. destruct (index_of n) as [|k t] eqn:E.
  - unfold snapshot. rewrite E. reflexivity.
  - rewrite <- E. apply replay_snapshot_nonempty. congruence.
Qed.

Lemma replay_snapshot_same : forall n, replay (snapshot n) (index_of n) = index_of n.
Proof.
  intro n. destruct (index_of n) as [|k t] eqn:E.
  - unfold snapshot. rewrite E. reflexivity.
  - rewrite <- E. apply replay_snapshot_nonempty. congruence.
Qed.

(* ------------------------------------------------------------------ one node: well-formedness is kept, the log is exact *)

(* the index lists only children, each at most once *)
Definition wfn (kids : list name) (n : inode) : Prop := NoDup (index_of n) /\ incl (index_of n) kids.

Lemma wfn_new : forall kids, wfn kids new_node.
Proof. intro kids. split; [constructor | intros x H; inversion H]. Qed.

Lemma wfn_incl : forall kids kids' n, incl kids kids' -> wfn kids n -> wfn kids' n.
Proof. intros kids kids' n Hi [H1 H2]. split; [exact H1 | intros x Hx; apply Hi, H2, Hx]. Qed.

Lemma remove_entry_spec : forall k l l' ops, NoDup l -> remove_entry k l = (l', ops) ->
  NoDup l' /\ replay ops l = l' /\ ~ In k l' /\ (forall x, In x l' -> In x l) /\ (forall x, In x l -> x <> k -> In x l').
Proof.
  intros k l l' ops Hn H. unfold remove_entry in H. destruct (find_last k l) as [i|] eqn:E.
  - inversion H; subst. pose proof (find_last_some _ _ _ E) as Hi. repeat split.
    + apply remove_at_NoDup; assumption.
    + apply remove_at_not_In; assumption.
    + intros x Hx. eapply remove_at_In; eassumption.
    + intros x Hx Hne. eapply remove_at_keeps; eassumption.
  - inversion H; subst. apply find_last_none in E. repeat split; try assumption.
    + intros x Hx; exact Hx.
    + intros x Hx _; exact Hx.
Qed.

Lemma remove_index_entry_spec : forall kids n k n' ops, wfn kids n -> remove_index_entry n k = (n', ops) ->
  wfn kids n' /\ replay ops (index_of n) = index_of n' /\ ~ In k (index_of n') /\
  (forall x, In x (index_of n') -> In x (index_of n)) /\ ctr n' = ctr n.
Proof.
  intros kids n k n' ops [Hn Hi] H. unfold remove_index_entry in H. unfold wfn, index_of in *.
  destruct (idx n) as [l|] eqn:El.
  - destruct (remove_entry k l) as [l' o] eqn:Er. inversion H; subst. simpl.
    destruct (remove_entry_spec _ _ _ _ Hn Er) as (A & B & C & D & _).
    split; [split; [exact A | intros x Hx; apply Hi, D, Hx]|].
    split; [exact B|]. split; [exact C|]. split; [exact D | reflexivity].
  - inversion H; subst. rewrite El.
    split; [split; assumption|]. split; [reflexivity|]. split; [intros []|]. split; [intros x Hx; exact Hx | reflexivity].
Qed.

Lemma target_pos_le : forall b l, target_pos b l <= length l.
Proof.
  intros [| |x] l; simpl; try lia. destruct (find_last x l) as [i|] eqn:E; [apply find_last_lt in E|]; lia.
Qed.

Lemma insert_ordered_child_spec : forall kids n b optname n' nm ops,
  wfn kids n -> (forall x, optname = Some x -> ~ In x kids) ->
  insert_ordered_child kids n b optname = (n', nm, ops) ->
  ~ In nm kids /\ wfn (kids ++ [nm]) n' /\ replay ops (index_of n) = index_of n'.
Proof.
  intros kids n b optname n' nm ops [Hn Hi] Hopt H. unfold insert_ordered_child in H.
  assert (Hfresh : forall nm0 c0, (match optname with Some x => (x, ctr n) | None => gen_name kids (ctr n) (S (length kids)) end) = (nm0, c0) -> ~ In nm0 kids).
  { intros nm0 c0 E. destruct optname as [x|].
    - inversion E; subst. apply Hopt. reflexivity.
    - pose proof (gen_name_fresh kids (ctr n)) as F. rewrite E in F. exact F. }
  destruct (match optname with Some x => (x, ctr n) | None => gen_name kids (ctr n) (S (length kids)) end) as [nm0 c0] eqn:Eg.
  specialize (Hfresh nm0 c0 eq_refl).
  unfold index_of in *.
  destruct (idx n) as [l|] eqn:El.
  - destruct (is_remove b) eqn:Er.
    + inversion H; subst. simpl. repeat split; try assumption. intros x Hx. apply in_or_app. left. apply Hi, Hx.
    + inversion H; subst. simpl. repeat split.
      * assumption.
      * apply insert_at_NoDup; [assumption|]. intro Hc. apply Hfresh, Hi, Hc.
      * intros x Hx. apply insert_at_In in Hx. apply in_or_app. destruct Hx as [->|Hx]; [right; left; reflexivity | left; apply Hi, Hx].
  - destruct (is_remove b) eqn:Er.
    + inversion H; subst. simpl. repeat split; try assumption. intros x Hx. inversion Hx.
    + inversion H; subst. simpl. repeat split.
      * assumption.
      * apply insert_at_NoDup; [constructor | intro Hc; inversion Hc].
      * intros x Hx. apply insert_at_In in Hx. apply in_or_app. destruct Hx as [->|Hx]; [right; left; reflexivity | inversion Hx].
Qed.

Lemma reorder_go_spec : forall kids cn c b l n2 ops2,
  NoDup l -> incl l kids -> In c kids -> reorder_go kids cn c b l = (n2, ops2) ->
  wfn kids n2 /\ replay ops2 l = index_of n2 /\ ctr n2 = cn.
Proof.
  intros kids cn c b l n2 ops2 Hl Hli Hc E. unfold reorder_go in E.
  destruct (remove_entry c l) as [l1 ops1] eqn:Er.
  destruct (remove_entry_spec _ _ _ _ Hl Er) as (A & B & C & D & _).
  assert (Hins : forall tgt, wfn kids (mkNode (Some (insert_at l1 tgt c)) cn) /\
                             replay (ops1 ++ [OpIns tgt c]) l = insert_at l1 tgt c).
  { intro tgt. split.
    - split; simpl.
      + apply insert_at_NoDup; assumption.
      + intros x Hx. apply insert_at_In in Hx. destruct Hx as [->|Hx]; [exact Hc | apply Hli, D, Hx].
    - rewrite replay_app, B. reflexivity. }
  destruct b as [| |x].
  - injection E as <- <-. destruct (Hins (length l1)) as [W R]. split; [exact W|]. split; [exact R | reflexivity].
  - injection E as <- <-. split; [split; simpl; [exact A | intros y Hy; apply Hli, D, Hy]|]. split; [exact B | reflexivity].
  - injection E as <- <-. destruct (Hins (if mem x kids then target_pos (BName x) l1 else length l1)) as [W R].
    split; [exact W|]. split; [exact R | reflexivity].
Qed.

Lemma reorder_child_spec : forall kids n c b n' ops,
  wfn kids n -> In c kids -> reorder_child kids n c b = (n', ops) ->
  wfn kids n' /\ replay ops (index_of n) = index_of n' /\ ctr n' = ctr n.
Proof.
  intros kids n c b n' ops Hw Hc H. unfold reorder_child in H.
  assert (Hsame : (n, @nil iop) = (n', ops) -> wfn kids n' /\ replay ops (index_of n) = index_of n' /\ ctr n' = ctr n).
  { intro E. inversion E; subst. split; [exact Hw|]. split; reflexivity. }
  destruct Hw as [Hn Hi].
  destruct (idx n) as [l|] eqn:El.
  - assert (Ei : index_of n = l) by (unfold index_of; rewrite El; reflexivity). rewrite Ei in *.
    destruct (match b with BName x => name_eqb x c | _ => false end); [apply Hsame; exact H|].
    apply (reorder_go_spec kids (ctr n) c b l n' ops Hn Hi Hc H).
  - assert (Ei : index_of n = []) by (unfold index_of; rewrite El; reflexivity). rewrite Ei in *.
    destruct (is_remove b); [apply Hsame; exact H|].
    destruct (match b with BName x => name_eqb x c | _ => false end); [apply Hsame; exact H|].
    apply (reorder_go_spec kids (ctr n) c b [] n' ops Hn Hi Hc H).
Qed.

Lemma insert_index_entry_at_spec : forall kids n pos k n' ops,
  wfn kids n -> ~ In k (index_of n) -> insert_index_entry_at kids n pos k = (n', ops) ->
  wfn kids n' /\ replay ops (index_of n) = index_of n' /\ ctr n' = ctr n.
Proof.
  intros kids n pos k n' ops [Hn Hi] Hk H. unfold insert_index_entry_at in H.
  destruct (mem k kids) eqn:E.
  - injection H as <- <-. apply mem_In in E. split; [split; simpl|split; reflexivity].
    + apply insert_at_NoDup; assumption.
    + intros x Hx. apply insert_at_In in Hx. destruct Hx as [->|Hx]; [exact E | apply Hi, Hx].
  - injection H as <- <-. split; [split; assumption | split; reflexivity].
Qed.

Lemma remove_index_entry_at_spec : forall kids n pos n' ops,
  wfn kids n -> remove_index_entry_at n pos = (n', ops) ->
  wfn kids n' /\ replay ops (index_of n) = index_of n' /\ ctr n' = ctr n.
Proof.
  intros kids n pos n' ops Hw H. unfold remove_index_entry_at in H.
  assert (Hsame : (n, @nil iop) = (n', ops) -> wfn kids n' /\ replay ops (index_of n) = index_of n' /\ ctr n' = ctr n).
  { intro E. injection E as <- <-. split; [exact Hw | split; reflexivity]. }
  destruct Hw as [Hn Hi].
  destruct (idx n) as [l|] eqn:El; [|apply Hsame; exact H].
  assert (Ei : index_of n = l) by (unfold index_of; rewrite El; reflexivity). rewrite Ei in *.
  destruct (nth_error l pos) as [k|] eqn:E; [|apply Hsame; exact H].
  injection H as <- <-. split; [split; simpl|split; reflexivity].
  - apply remove_at_NoDup; assumption.
  - intros x Hx. apply Hi. simpl in Hx. exact (remove_at_In _ _ _ Hx).
Qed.

Lemma remove_index_entry_at_incl : forall n pos n' ops, remove_index_entry_at n pos = (n', ops) ->
  forall x, In x (index_of n') -> In x (index_of n).
Proof.
  intros n pos n' ops H x Hx. unfold remove_index_entry_at in H.
  destruct (idx n) as [l|] eqn:El; [|injection H as <- <-; exact Hx].
  destruct (nth_error l pos) as [k|]; [|injection H as <- <-; exact Hx].
  injection H as <- <-. simpl in Hx. unfold index_of. rewrite El. eapply remove_at_In. exact Hx.
Qed.

(* ------------------------------------------------------------------ the emitted ops fit the index they were emitted for *)

Lemma ops_fit_app : forall a b l, ops_fit (a ++ b) l = ops_fit a l && ops_fit b (replay a l).
Proof.
  induction a as [|o a IH]; intros b l; simpl; [reflexivity|].
  rewrite IH. rewrite andb_assoc. reflexivity.
Qed.

Lemma remove_entry_fits : forall k l l' ops, remove_entry k l = (l', ops) -> ops_fit ops l = true.
Proof.
  intros k l l' ops H. unfold remove_entry in H. destruct (find_last k l) as [i|] eqn:E.
  - injection H as <- <-. simpl. rewrite (find_last_some _ _ _ E), name_eqb_refl. reflexivity.
  - injection H as <- <-. reflexivity.
Qed.

Lemma remove_index_entry_fits : forall n k n' ops, remove_index_entry n k = (n', ops) -> ops_fit ops (index_of n) = true.
Proof.
  intros n k n' ops H. unfold remove_index_entry in H. unfold index_of.
  destruct (idx n) as [l|]; [|injection H as <- <-; reflexivity].
  destruct (remove_entry k l) as [l' o] eqn:Er. injection H as <- <-. eapply remove_entry_fits. exact Er.
Qed.

Lemma insert_ordered_child_fits : forall kids n b optname n' nm ops,
  insert_ordered_child kids n b optname = (n', nm, ops) -> ops_fit ops (index_of n) = true.
Proof.
  intros kids n b optname n' nm ops H. unfold insert_ordered_child in H. unfold index_of.
  destruct (match optname with Some x => (x, ctr n) | None => gen_name kids (ctr n) (S (length kids)) end) as [nm0 c0].
  destruct (idx n) as [l|]; destruct (is_remove b); injection H as <- <- <-; try reflexivity; simpl.
  - rewrite andb_true_r. apply Nat.leb_le. apply target_pos_le.
  - rewrite andb_true_r. apply Nat.leb_le. apply (target_pos_le b []).
Qed.

Lemma reorder_go_fits : forall kids cn c b l n2 ops2, NoDup l -> reorder_go kids cn c b l = (n2, ops2) -> ops_fit ops2 l = true.
Proof.
  intros kids cn c b l n2 ops2 Hl E. unfold reorder_go in E.
  destruct (remove_entry c l) as [l1 ops1] eqn:Er.
  pose proof (remove_entry_fits _ _ _ _ Er) as F1.
  destruct (remove_entry_spec _ _ _ _ Hl Er) as (_ & B & _).
  assert (Hins : forall tgt, tgt <= length l1 -> ops_fit (ops1 ++ [OpIns tgt c]) l = true).
  { intros tgt Ht. rewrite ops_fit_app, F1, B. simpl. rewrite andb_true_r. apply Nat.leb_le. exact Ht. }
  destruct b as [| |x].
  - injection E as <- <-. apply Hins. lia.
  - injection E as <- <-. exact F1.
  - injection E as <- <-. apply Hins. destruct (mem x kids); [apply (target_pos_le (BName x) l1) | lia].
Qed.

Lemma reorder_child_fits : forall kids n c b n' ops, wfn kids n -> reorder_child kids n c b = (n', ops) ->
  ops_fit ops (index_of n) = true.
Proof.
  intros kids n c b n' ops [Hn _] H. unfold reorder_child in H.
  destruct (idx n) as [l|] eqn:El.
  - assert (Ei : index_of n = l) by (unfold index_of; rewrite El; reflexivity). rewrite Ei in *.
    destruct (match b with BName x => name_eqb x c | _ => false end); [injection H as <- <-; reflexivity|].
    eapply reorder_go_fits; eassumption.
  - assert (Ei : index_of n = []) by (unfold index_of; rewrite El; reflexivity). rewrite Ei in *.
    destruct (is_remove b); [injection H as <- <-; reflexivity|].
    destruct (match b with BName x => name_eqb x c | _ => false end); [injection H as <- <-; reflexivity|].
    eapply reorder_go_fits; eassumption.
Qed.

Lemma insert_index_entry_at_fits : forall kids n pos k n' ops, pos <= length (index_of n) ->
  insert_index_entry_at kids n pos k = (n', ops) -> ops_fit ops (index_of n) = true.
Proof.
  intros kids n pos k n' ops Hp H. unfold insert_index_entry_at in H.
  destruct (mem k kids); injection H as <- <-; [|reflexivity]. simpl. rewrite andb_true_r. apply Nat.leb_le. exact Hp.
Qed.

Lemma remove_index_entry_at_fits : forall n pos n' ops, remove_index_entry_at n pos = (n', ops) -> ops_fit ops (index_of n) = true.
Proof.
  intros n pos n' ops H. unfold remove_index_entry_at in H. unfold index_of.
  destruct (idx n) as [l|]; [|injection H as <- <-; reflexivity].
  destruct (nth_error l pos) as [k|] eqn:E; injection H as <- <-; [|reflexivity].
  simpl. rewrite E, name_eqb_refl. reflexivity.
Qed.

Lemma ins_from_fits : forall l pre, ops_fit (ins_from (length pre) l) pre = true.
Proof.
  induction l as [|k t IH]; intro pre; simpl; [reflexivity|].
  rewrite Nat.leb_refl. simpl. unfold insert_at. rewrite firstn_all, skipn_all.
  replace (S (length pre)) with (length (pre ++ [k])) by (rewrite app_length; simpl; lia). apply IH.
Qed.

Lemma snapshot_fits : forall n l, ops_fit (snapshot n) l = true.
Proof.
  intros n l. unfold snapshot. destruct (index_of n) as [|k t]; [reflexivity|].
  change (ops_fit (OpClear :: ins_from 0 (k :: t)) l) with (ops_fit (ins_from (length (@nil name)) (k :: t)) []).
  apply ins_from_fits.
Qed.

(* CloneDataNodeSubtree's copy loop keeps a prefix of w placed entries: dropping a name that is not in the
   prefix leaves the prefix alone, inserting at w extends it *)
Lemma nth_error_firstn_lt : forall (l : list name) w i, i < w -> nth_error (firstn w l) i = nth_error l i.
Proof.
  induction l as [|x l IH]; intros w i H; [destruct w; destruct i; reflexivity|].
  destruct w as [|w]; [lia|]. destruct i as [|i]; [reflexivity|]. simpl. apply IH. lia.
Qed.

Lemma remove_entry_prefix : forall k l l' ops w, remove_entry k l = (l', ops) ->
  w <= length l -> ~ In k (firstn w l) -> w <= length l' /\ firstn w l' = firstn w l.
Proof.
  intros k l l' ops w H Hw Hk. unfold remove_entry in H. destruct (find_last k l) as [i|] eqn:E.
  - injection H as <- <-. pose proof (find_last_some _ _ _ E) as Hi. pose proof (find_last_lt _ _ _ E) as Hlt.
    assert (Hwi : w <= i).
    { destruct (Nat.le_gt_cases w i) as [Hle|Hgt]; [exact Hle|]. exfalso. apply Hk.
      apply nth_error_In with (n := i). rewrite nth_error_firstn_lt by exact Hgt. exact Hi. }
    unfold remove_at. split.
    + rewrite app_length, firstn_length, skipn_length. lia.
    + rewrite firstn_app, firstn_firstn, firstn_length.
      replace (Nat.min w i) with w by lia. replace (w - Nat.min i (length l)) with 0 by lia.
      simpl. apply app_nil_r.
  - injection H as <- <-. split; [exact Hw | reflexivity].
Qed.

Lemma firstn_insert_at : forall (l : list name) w k, w <= length l -> firstn (S w) (insert_at l w k) = firstn w l ++ [k].
Proof.
  intros l w k Hw. unfold insert_at. rewrite firstn_app, firstn_length.
  replace (Nat.min w (length l)) with w by lia. replace (S w - w) with 1 by lia.
  rewrite firstn_all2 by (rewrite firstn_length; lia). reflexivity.
Qed.

Lemma insert_at_length : forall (l : list name) w k, length (insert_at l w k) = S (length l).
Proof.
  intros l w k. unfold insert_at. rewrite app_length. simpl.
  rewrite <- (firstn_skipn w l) at 3. rewrite app_length. lia.
Qed.

(* the pinned InsertIndexEntryAt happily inserts a name a second time (its documented precondition);
   CloneDataNodeSubtree onto a destination that already has the entry does exactly that *)
Lemma insert_index_entry_at_dup_refuted :
  exists kids n pos k, wfn kids n /\ ~ NoDup (index_of (fst (insert_index_entry_at kids n pos k))).
Proof.
  exists [NI 0], (mkNode (Some [NI 0]) 0), 0, (NI 0). split.
  - split; simpl; [repeat constructor; intros [] | intros x Hx; exact Hx].
  - simpl. intro H. inversion H as [|? ? Hn _]. apply Hn. left. reflexivity.
Qed.

(* ------------------------------------------------------------------ paths and prefixes *)

Lemma strip_prefix_spec : forall p q r, strip_prefix p q = Some r <-> q = p ++ r.
Proof.
  induction p as [|a p IH]; intros q r; simpl.
  - split; intro H; [inversion H | subst]; reflexivity.
  - destruct q as [|b q]; [split; intro H; discriminate|].
    destruct (name_eqb a b) eqn:E.
    + apply name_eqb_eq in E. subst. rewrite IH. split; intro H; [subst | inversion H]; reflexivity.
    + apply name_eqb_neq in E. split; intro H; [discriminate | inversion H; congruence].
Qed.

Lemma is_prefix_spec : forall p q, is_prefix p q = true <-> exists r, q = p ++ r.
Proof.
  intros p q. unfold is_prefix. destruct (strip_prefix p q) as [r|] eqn:E.
  - split; [intros _; exists r; apply strip_prefix_spec; exact E | reflexivity].
  - split; [discriminate|]. intros [r Hr]. apply strip_prefix_spec in Hr. congruence.
Qed.

Lemma is_prefix_refl : forall p, is_prefix p p = true.
Proof. intro p. apply is_prefix_spec. exists []. rewrite app_nil_r. reflexivity. Qed.

Lemma is_prefix_app : forall p r, is_prefix p (p ++ r) = true.
Proof. intros p r. apply is_prefix_spec. exists r. reflexivity. Qed.

Lemma is_prefix_length : forall p q, is_prefix p q = true -> length p <= length q.
Proof. intros p q H. apply is_prefix_spec in H. destruct H as [r ->]. rewrite app_length. lia. Qed.

(* v is a prefix of q ++ [k] but not of q: then v is q ++ [k] itself *)
Lemma is_prefix_snoc : forall v q k, is_prefix v (q ++ [k]) = true -> is_prefix v q = false -> v = q ++ [k].
Proof.
  intros v q k H1 H2. apply is_prefix_spec in H1. destruct H1 as [r Hr].
  destruct r as [|x r] using rev_ind.
  - rewrite app_nil_r in Hr. symmetry. exact Hr.
  - exfalso. rewrite app_assoc in Hr. apply app_inj_tail in Hr. destruct Hr as [Hq _].
    assert (is_prefix v q = true) by (apply is_prefix_spec; exists r; exact Hq). congruence.
Qed.

(* ------------------------------------------------------------------ the flat tree *)

Lemma lookup_set_node : forall t p n q,
  lookup (set_node t p n) q = if path_eqb p q then (match lookup t p with Some _ => Some n | None => None end) else lookup t q.
Proof.
  induction t as [|[r m] t IH]; intros p n q; simpl.
  - destruct (path_eqb p q); reflexivity.
  - destruct (path_eqb r p) eqn:E1.
    + apply path_eqb_eq in E1. subst r. simpl. destruct (path_eqb p q) eqn:E2; reflexivity.
    + simpl. destruct (path_eqb r q) eqn:E2.
      * destruct (path_eqb p q) eqn:E3; [|reflexivity].
        apply path_eqb_eq in E2. apply path_eqb_eq in E3. subst. rewrite path_eqb_refl in E1. discriminate.
      * apply IH.
Qed.

Lemma keys_set_node : forall t p n, map fst (set_node t p n) = map fst t.
Proof.
  induction t as [|[r m] t IH]; intros p n; simpl; [reflexivity|].
  destruct (path_eqb r p); simpl; [reflexivity | rewrite IH; reflexivity].
Qed.

Lemma kids_of_keys : forall t t' p, map fst t = map fst t' -> kids_of t p = kids_of t' p.
Proof.
  induction t as [|[r m] t IH]; intros [|[r' m'] t'] p H; simpl in *; try discriminate; [reflexivity|].
  inversion H; subst. rewrite (IH t' p) by assumption. reflexivity.
Qed.

Lemma kids_of_set_node : forall t p n q, kids_of (set_node t p n) q = kids_of t q.
Proof. intros. apply kids_of_keys. apply keys_set_node. Qed.

Lemma has_node_set_node : forall t p n q, has_node (set_node t p n) q = has_node t q.
Proof.
  intros t p n q. unfold has_node. rewrite lookup_set_node.
  destruct (path_eqb p q) eqn:E; [|reflexivity]. apply path_eqb_eq in E. subst.
  destruct (lookup t q); reflexivity.
Qed.

Lemma lookup_app : forall t1 t2 q, lookup (t1 ++ t2) q = match lookup t1 q with Some n => Some n | None => lookup t2 q end.
Proof.
  induction t1 as [|[r m] t1 IH]; intros t2 q; simpl; [reflexivity|].
  destruct (path_eqb r q); [reflexivity | apply IH].
Qed.

Lemma lookup_add_node : forall t p q,
  lookup (add_node t p) q = match lookup t q with Some n => Some n | None => if path_eqb p q then Some new_node else None end.
Proof.
  intros t p q. unfold add_node, has_node. destruct (lookup t p) as [n|] eqn:E.
  - destruct (lookup t q) eqn:E2; [reflexivity|]. destruct (path_eqb p q) eqn:E3; [|reflexivity].
    apply path_eqb_eq in E3. subst. congruence.
  - rewrite lookup_app. simpl. destruct (lookup t q); reflexivity.
Qed.

Lemma kids_of_app : forall t1 t2 p, kids_of (t1 ++ t2) p = kids_of t1 p ++ kids_of t2 p.
Proof.
  induction t1 as [|[r m] t1 IH]; intros t2 p; simpl; [reflexivity|].
  destruct (strip_prefix p r) as [[|k [|k2 r2]]|]; simpl; rewrite IH; reflexivity.
Qed.

Lemma kids_of_In : forall t p k, In k (kids_of t p) <-> has_node t (p ++ [k]) = true.
Proof.
  induction t as [|[r m] t IH]; intros p k; simpl.
  - unfold has_node. simpl. split; [contradiction | discriminate].
  - unfold has_node in *. simpl.
    destruct (path_eqb r (p ++ [k])) eqn:E.
    + apply path_eqb_eq in E. subst r.
      assert (S : strip_prefix p (p ++ [k]) = Some [k]) by (apply strip_prefix_spec; reflexivity).
      rewrite S. simpl. split; [reflexivity | intros _; left; reflexivity].
    + destruct (strip_prefix p r) as [[|k1 [|k2 r2]]|] eqn:S; try apply IH.
      simpl. rewrite IH. apply strip_prefix_spec in S. subst r.
      split; [|intro H; right; exact H]. intros [->|H]; [|exact H].
      rewrite path_eqb_refl in E. discriminate.
Qed.

Lemma kids_of_add_node : forall t p q, incl (kids_of t q) (kids_of (add_node t p) q).
Proof.
  intros t p q. unfold add_node. destruct (has_node t p); [apply incl_refl|].
  rewrite kids_of_app. apply incl_appl, incl_refl.
Qed.

Lemma has_node_add_node : forall t p q, has_node (add_node t p) q = has_node t q || path_eqb p q.
Proof.
  intros t p q. unfold has_node. rewrite lookup_add_node. destruct (lookup t q); [reflexivity|].
  destruct (path_eqb p q); reflexivity.
Qed.

Lemma keys_add_node_NoDup : forall t p, NoDup (map fst t) -> NoDup (map fst (add_node t p)).
Proof.
  intros t p H. unfold add_node. destruct (has_node t p) eqn:E; [exact H|].
  rewrite map_app. simpl. apply NoDup_app_remove_r with (l' := []) || idtac.
  assert (Hn : ~ In p (map fst t)).
  { intro Hin. apply in_map_iff in Hin. destruct Hin as [[r m] [Hr Hin]]. simpl in Hr. subst r.
    unfold has_node in E. clear H. induction t as [|[r2 m2] t IH]; [inversion Hin|].
    simpl in E. destruct (path_eqb r2 p) eqn:E2; [discriminate|].
    destruct Hin as [Hin|Hin]; [inversion Hin; subst; rewrite path_eqb_refl in E2; discriminate | apply IH; assumption]. }
  clear E. induction (map fst t) as [|x l IH]; simpl.
  - constructor; [intros [] | constructor].
  - inversion H; subst. constructor.
    + intro Hin. apply in_app_or in Hin. destruct Hin as [Hin|[Hin|[]]]; [contradiction|]. subst. apply Hn. left. reflexivity.
    + apply IH; [assumption|]. intro Hin. apply Hn. right. exact Hin.
Qed.

Lemma lookup_In : forall t p n, lookup t p = Some n -> In (p, n) t.
Proof.
  induction t as [|[r m] t IH]; intros p n H; simpl in H; [discriminate|].
  destruct (path_eqb r p) eqn:E.
  - apply path_eqb_eq in E. inversion H; subst. left. reflexivity.
  - right. apply IH. exact H.
Qed.

Lemma In_lookup : forall t p n, NoDup (map fst t) -> In (p, n) t -> lookup t p = Some n.
Proof.
  induction t as [|[r m] t IH]; intros p n Hn H; [inversion H|].
  simpl in Hn. inversion Hn as [|? ? Hr Hn']; subst. simpl. destruct H as [H|H].
  - inversion H; subst. rewrite path_eqb_refl. reflexivity.
  - destruct (path_eqb r p) eqn:E.
    + apply path_eqb_eq in E. subst. exfalso. apply Hr. apply in_map_iff. exists (p, n). split; [reflexivity | exact H].
    + apply IH; assumption.
Qed.

Lemma lookup_filter_key : forall (f : path -> bool) t q,
  lookup (filter (fun e => f (fst e)) t) q = if f q then lookup t q else None.
Proof.
  intros f t q. induction t as [|[r m] t IH]; simpl.
  - destruct (f q); reflexivity.
  - destruct (f r) eqn:Ef; simpl.
    + destruct (path_eqb r q) eqn:E.
      * apply path_eqb_eq in E. subst. rewrite Ef. reflexivity.
      * exact IH.
    + destruct (path_eqb r q) eqn:E.
      * apply path_eqb_eq in E. subst. rewrite Ef in *. exact IH.
      * exact IH.
Qed.

Lemma lookup_delete_subtree : forall t v q,
  lookup (delete_subtree t v) q = if is_prefix v q then None else lookup t q.
Proof.
  intros t v q. unfold delete_subtree.
  rewrite (lookup_filter_key (fun p => negb (is_prefix v p))). destruct (is_prefix v q); reflexivity.
Qed.

Lemma keys_delete_NoDup : forall t v, NoDup (map fst t) -> NoDup (map fst (delete_subtree t v)).
Proof.
  intros t v H. unfold delete_subtree. induction t as [|[r m] t IH]; simpl; [constructor|].
  simpl in H. inversion H as [|? ? Hr Hn]; subst.
  destruct (negb (is_prefix v r)); simpl; [|apply IH; assumption].
  constructor; [|apply IH; assumption].
  intro Hin. apply Hr. apply in_map_iff in Hin. destruct Hin as [[r2 m2] [E Hin]]. simpl in E. subst.
  apply filter_In in Hin. apply in_map_iff. exists (r, m2). split; [reflexivity | apply Hin].
Qed.

Lemma subtree_paths_In : forall t v q, In q (subtree_paths t v) <-> has_node t q = true /\ is_prefix v q = true.
Proof.
  intros t v q. unfold subtree_paths. rewrite in_map_iff. split.
  - intros [[r m] [E H]]. simpl in E. subst. apply filter_In in H. destruct H as [Hin Hp]. simpl in Hp. split; [|exact Hp].
    unfold has_node. clear Hp. induction t as [|[r2 m2] t IH]; [inversion Hin|]. simpl.
    destruct (path_eqb r2 q) eqn:E; [reflexivity|]. destruct Hin as [Hin|Hin]; [inversion Hin; subst; rewrite path_eqb_refl in E; discriminate | apply IH; exact Hin].
  - intros [Hh Hp]. unfold has_node in Hh. destruct (lookup t q) as [n|] eqn:E; [|discriminate].
    exists (q, n). split; [reflexivity|]. apply filter_In. split; [apply lookup_In; exact E | exact Hp].
Qed.

(* ------------------------------------------------------------------ tree well-formedness *)

(* every index lists only existing children of its node, each at most once *)
Definition twf (t : tree) : Prop :=
  NoDup (map fst t) /\ forall p n, lookup t p = Some n -> wfn (kids_of t p) n.

Lemma index_at_lookup : forall t p n, lookup t p = Some n -> index_at t p = index_of n.
Proof. intros t p n H. unfold index_at. rewrite H. reflexivity. Qed.

Lemma twf_index_NoDup : forall t p, twf t -> NoDup (index_at t p).
Proof.
  intros t p [_ H]. unfold index_at. destruct (lookup t p) as [n|] eqn:E; [apply (H p n E) | constructor].
Qed.

Lemma twf_index_child : forall t p k, twf t -> In k (index_at t p) -> has_node t (p ++ [k]) = true.
Proof.
  intros t p k [_ H] Hin. unfold index_at in Hin. destruct (lookup t p) as [n|] eqn:E; [|inversion Hin].
  apply kids_of_In. apply (H p n E). exact Hin.
Qed.

Lemma twf_set_node : forall t p n', twf t -> wfn (kids_of t p) n' -> twf (set_node t p n').
Proof.
  intros t p n' [Hk H] Hw. split; [rewrite keys_set_node; exact Hk|].
  intros q m Hq. rewrite lookup_set_node in Hq. rewrite kids_of_set_node.
  destruct (path_eqb p q) eqn:E.
  - apply path_eqb_eq in E. subst q. destruct (lookup t p); [|discriminate]. inversion Hq; subst. exact Hw.
  - apply H. exact Hq.
Qed.

Lemma twf_add_node : forall t p, twf t -> twf (add_node t p).
Proof.
  intros t p [Hk H]. split; [apply keys_add_node_NoDup; exact Hk|].
  intros q m Hq. rewrite lookup_add_node in Hq. destruct (lookup t q) as [m0|] eqn:E.
  - inversion Hq; subst. eapply wfn_incl; [apply kids_of_add_node | apply H; exact E].
  - destruct (path_eqb p q); [|discriminate]. inversion Hq; subst. apply wfn_new.
Qed.

