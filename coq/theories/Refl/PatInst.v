(* Refl/PatInst.v -- the concrete instance of the external matching code (class MatchOps of Refl/Base.v) that the C05
   correspondence run uses, defined in Coq over the StringMatcher model of C15 (Pat/Translate.v, Pat/Ere.v) and the
   lookup-key parsing of Refl/ClauseKeys.v, and the proof that it satisfies the clause laws the traversal theorems
   assume (from C15's laws: a unique pattern matches exactly RemoveEscapeChars(pattern), a list-of-unique-values pattern
   matches exactly its values).  This discharges the premise "ckeys_sound / ckeys_complete" for the repaired key parsing;
   for the parsing as found it is refuted (finding F52).

   Names of the tree model are numbers; [tbl] gives the string of a name, [untbl] the name of a string (the correspondence
   driver's intern table).  The laws hold of the names that are the canonical number of a non-empty string. *)
From Coq Require Import List NArith ZArith Bool Arith Lia.
From Muscle Require Import Gen.Consts Pat.Ere Pat.Simple Pat.Translate Pat.PatSpec Pat.UvProofs Pat.PatProofs Refl.Base Refl.ClauseKeys.
Import ListNotations.
Local Open Scope N_scope.

(* ------------------------------------------------------------------ RemoveEscapeChars as a left-to-right automaton *)

(* (characters put out so far, an escape is pending) *)
Definition ustep (st : list N * bool) (c : N) : list N * bool :=
  if snd st then (fst st ++ [c], false)
  else if c =? ch_bsl then (fst st, true)
  else (fst st ++ [c], false).

Definition utrail (pend : bool) : list N := if pend && (c_une_keeps_trailing =? 1) then [ch_bsl] else [].

Lemma unescape_aux_fold : forall raw out f,
  out ++ unescape_aux raw f = fst (fold_left ustep raw (out, f)) ++ utrail (snd (fold_left ustep raw (out, f))).
Proof.
  induction raw as [|c raw IH]; intros out f; [reflexivity|].
  cbn [unescape_aux fold_left]. destruct f.
  - unfold ustep. cbn [fst snd orb]. rewrite andb_false_r. rewrite (app_assoc out [c]). apply IH.
  - unfold ustep. cbn [fst snd orb negb]. destruct (c =? ch_bsl) eqn:E; cbn [negb andb].
    + cbn [app]. apply IH.
    + rewrite (app_assoc out [c]). apply IH.
Qed.

Lemma unescape_fold : forall raw,
  unescape raw = fst (fold_left ustep raw ([], false)) ++ utrail (snd (fold_left ustep raw ([], false))).
Proof. intros raw. unfold unescape. exact (unescape_aux_fold raw [] false). Qed.

(* after at least one character the automaton has put something out or has an escape pending *)
Definition unonzero (st : list N * bool) : Prop := fst st <> [] \/ snd st = true.

Lemma ustep_nonzero : forall st c, unonzero (ustep st c).
Proof.
  intros [out f] c. unfold ustep, unonzero. cbn [fst snd]. destruct f.
  - left. destruct out; discriminate.
  - destruct (c =? ch_bsl); [now right | left; destruct out; discriminate].
Qed.

Lemma ufold_nonzero : forall raw st, raw <> [] -> unonzero (fold_left ustep raw st).
Proof.
  induction raw as [|c raw IH]; intros st H; [contradiction|].
  cbn [fold_left]. destruct raw as [|c' raw']; [apply ustep_nonzero | apply IH; discriminate].
Qed.

(* ------------------------------------------------------------------ the repaired key parsing yields C15's values *)

Lemma tbl_keeps_trailing : c_une_keeps_trailing = 1.
Proof. reflexivity. Qed.

Definition nonnil (v : list N) : bool := negb (is_nil v).

Lemma uv_loop_values_gen : forall p prevEsc scratch cur,
  fold_left ustep (rev scratch) ([], false) = (cur, prevEsc) ->
  map unescape (uv_loop true p prevEsc scratch) = filter nonnil (uv_segs p prevEsc cur).
Proof.
  induction p as [|c p IH]; intros prevEsc scratch cur Hst.
  - cbn [uv_loop uv_segs filter].
    assert (Hu : unescape (rev scratch) = cur ++ utrail prevEsc) by (rewrite unescape_fold, Hst; reflexivity).
    destruct scratch as [|x scratch].
    + cbn in Hst. inversion Hst; subst. reflexivity.
    + cbn [is_nil map]. rewrite Hu. unfold utrail. rewrite tbl_keeps_trailing. cbn [N.eqb Pos.eqb andb].
      assert (NZ : unonzero (fold_left ustep (rev (x :: scratch)) ([], false))).
      { apply ufold_nonzero. cbn. destruct (rev scratch); discriminate. }
      rewrite Hst in NZ. unfold unonzero in NZ. cbn [fst snd] in NZ.
      destruct prevEsc; rewrite ?andb_true_r.
      * unfold nonnil. destruct (cur ++ [ch_bsl]) eqn:E; [destruct cur; discriminate | reflexivity].
      * rewrite app_nil_r. unfold nonnil. destruct cur; [destruct NZ as [NZ|NZ]; [contradiction | discriminate] | reflexivity].
  - cbn [uv_loop uv_segs].
    assert (Step : forall st', ustep (cur, prevEsc) c = st' -> fold_left ustep (rev (c :: scratch)) ([], false) = st').
    { intros st' E. cbn [rev]. rewrite fold_left_app, Hst. cbn [fold_left]. exact E. }
    destruct prevEsc.
    + (* the character after an escape *)
      rewrite andb_false_r. cbn [orb].
      apply IH. apply Step. reflexivity.
    + rewrite andb_true_r. cbn [orb].
      destruct (c =? ch_bsl) eqn:Eb.
      * apply IH. apply Step. unfold ustep. cbn [fst snd]. now rewrite Eb.
      * unfold ck_comma, ch_comma. destruct (c =? 44) eqn:Ec; cbn [negb].
        -- (* an unescaped comma ends the item *)
           assert (Hu : unescape (rev scratch) = cur).
           { rewrite unescape_fold, Hst. cbn [fst snd]. unfold utrail. cbn. now rewrite app_nil_r. }
           destruct scratch as [|x scratch].
           ++ cbn in Hst. inversion Hst; subst cur. cbn [is_nil filter nonnil negb].
              apply IH. reflexivity.
           ++ cbn [is_nil map filter].
              assert (NZ : unonzero (fold_left ustep (rev (x :: scratch)) ([], false))).
              { apply ufold_nonzero. cbn. destruct (rev scratch); discriminate. }
              rewrite Hst in NZ. unfold unonzero in NZ. cbn [fst snd] in NZ.
              assert (Hn : nonnil cur = true) by (unfold nonnil; destruct cur; [destruct NZ as [NZ|NZ]; [contradiction | discriminate] | reflexivity]).
              rewrite Hn, Hu. f_equal. apply IH. reflexivity.
        -- apply IH. apply Step. unfold ustep. cbn [fst snd]. now rewrite Eb.
Qed.

Lemma uv_loop_values : forall p, map unescape (uv_loop true p false []) = uv_values p.
Proof. intros p. unfold uv_values. apply uv_loop_values_gen. reflexivity. Qed.

(* with the second repair (empty items kept) the keys are ALL the values of the list pattern, the empty one included *)
Lemma uv_loop_all_segs_gen : forall p prevEsc scratch cur,
  fold_left ustep (rev scratch) ([], false) = (cur, prevEsc) ->
  map unescape (uv_loop_all p prevEsc scratch) = uv_segs p prevEsc cur.
Proof.
  induction p as [|c p IH]; intros prevEsc scratch cur Hst.
  - cbn [uv_loop_all uv_segs map]. rewrite unescape_fold, Hst. cbn [fst snd]. unfold utrail. rewrite tbl_keeps_trailing.
    cbn [N.eqb Pos.eqb]. destruct prevEsc; cbn [andb]; [reflexivity | now rewrite app_nil_r].
  - cbn [uv_loop_all uv_segs].
    assert (Step : forall st', ustep (cur, prevEsc) c = st' -> fold_left ustep (rev (c :: scratch)) ([], false) = st').
    { intros st' E. cbn [rev]. rewrite fold_left_app, Hst. cbn [fold_left]. exact E. }
    destruct prevEsc.
    + rewrite andb_false_r. cbn [orb]. apply IH. apply Step. reflexivity.
    + rewrite andb_true_r. cbn [orb].
      destruct (c =? ch_bsl) eqn:Eb.
      * apply IH. apply Step. unfold ustep. cbn [fst snd]. now rewrite Eb.
      * unfold ck_comma, ch_comma. destruct (c =? 44) eqn:Ec; cbn [negb].
        -- cbn [map]. f_equal.
           ++ rewrite unescape_fold, Hst. cbn [fst snd]. unfold utrail. cbn. now rewrite app_nil_r.
           ++ apply IH. reflexivity.
        -- apply IH. apply Step. unfold ustep. cbn [fst snd]. now rewrite Eb.
Qed.

Lemma uv_loop_all_segs : forall p, map unescape (uv_loop_all p false []) = uv_segs p false [].
Proof. intros p. apply uv_loop_all_segs_gen. reflexivity. Qed.

(* ------------------------------------------------------------------ the instance *)

(* the filters of the correspondence run: on the int32 field v of the node's Message (payload 0 = no such field) *)
Inductive fspec := FG (n : Z) | FL (n : Z) | FE (n : Z) | FX.

Definition fspec_match (f : fspec) (p : payload) : bool :=
  if N.eqb p 0 then false
  else let v := (Z.of_N p - 1)%Z in
       match f with FG k => Z.ltb k v | FL k => Z.ltb v k | FE k => Z.eqb v k | FX => true end.

Fixpoint text_eqb (a b : list N) : bool :=
  match a, b with
  | [], [] => true
  | x :: a', y :: b' => N.eqb x y && text_eqb a' b'
  | _, _ => false
  end.

Definition star_text : list N := [42].
Definition is_star (c : list N) : bool := text_eqb c star_text.

Section Inst.
Variable tbl : name -> list N.        (* the string a name stands for *)
Variable untbl : list N -> name.      (* the name of a string *)
Variable keep_esc : bool.             (* the repair of F52 *)

(* PutPathString: the clause text "*" gets no StringMatcher at all *)
Definition pmatch (c : list N) (k : name) : bool :=
  if is_star c then true else matches (sm_of ere_engine c) (tbl k).

Definition pkeys (c : list N) : option (list name) :=
  if is_star c then None
  else match clause_keys_with keep_esc (sm_of ere_engine c) with
       | Some ks => Some (map untbl ks)
       | None => None
       end.

Definition pat_ops : MatchOps :=
  {| clause := list N; clause_eqb := text_eqb; cmatch := pmatch; ckeys := pkeys; cstar := star_text;
     qfilter := fspec; fmatch := fspec_match |}.

(* the same with both repairs of the key parsing (F52 and F63): every item of a list pattern is a lookup key *)
Definition pkeys_all (c : list N) : option (list name) :=
  if is_star c then None
  else match clause_keys_all (sm_of ere_engine c) with
       | Some ks => Some (map untbl ks)
       | None => None
       end.

Definition pat_ops_all : MatchOps :=
  {| clause := list N; clause_eqb := text_eqb; cmatch := pmatch; ckeys := pkeys_all; cstar := star_text;
     qfilter := fspec; fmatch := fspec_match |}.

(* ... and, where a clause has lookup keys, "matches" read off the keys.  On every name that is the number of its own string
   this is the StringMatcher model again (pmatch_n_agrees below); on the other numbers -- which stand for no node name -- it
   is what makes the clause law hold of ALL numbers, the form build-C04's invariant proofs (class MatchLaws) ask for. *)
Fixpoint name_mem (k : name) (l : list name) : bool :=
  match l with [] => false | x :: r => N.eqb x k || name_mem k r end.

Definition pmatch_n (c : list N) (k : name) : bool :=
  match pkeys_all c with
  | Some ks => name_mem k ks
  | None => pmatch c k
  end.

Definition pat_ops_n : MatchOps :=
  {| clause := list N; clause_eqb := text_eqb; cmatch := pmatch_n; ckeys := pkeys_all; cstar := star_text;
     qfilter := fspec; fmatch := fspec_match |}.

End Inst.

(* ------------------------------------------------------------------ its laws *)

(* SetPattern stores the text it was given *)
Lemma set_pattern_text : forall engine st0 p, s_pattern (fst (set_pattern engine st0 p true)) = p.
Proof.
  intros engine [p0 v0 n0 m0 s0 u0 r0 x0] p. unfold set_pattern.
  destruct (can_match_multiple p) as [multi only].
  destruct (strip_negate p) as [neg str]. cbn [fst snd].
  destruct (simple_body str) as [[ranges rp] str']. cbn [fst snd].
  destruct v0, ranges as [|r1 rs], rp as [|c0 cs], str' as [|d0 ds];
    cbv [free_regex set_uvlist set_regex set_ranges set_negate set_multi set_pat fst snd is_nil
         s_pattern s_valid s_negate s_multi s_simple s_uvlist s_ranges s_regexp app];
    try reflexivity;
    match goal with |- context [engine ?x] => destruct (engine x) end; reflexivity.
Qed.

Lemma sm_of_text : forall c, s_pattern (sm_of ere_engine c) = c.
Proof. intros c. unfold sm_of. apply set_pattern_text. Qed.

Section Laws.
Variable tbl : name -> list N.
Variable untbl : list N -> name.
Hypothesis tbl_untbl : forall s, tbl (untbl s) = s.

(* a name that is the canonical number of a non-empty string *)
Definition okname (k : name) : Prop := tbl k <> [] /\ untbl (tbl k) = k.

Lemma ere_is_ere : forall re, ere_compile re <> CUnsupported -> ere_engine re = ere_engine re.
Proof. reflexivity. Qed.

Lemma uv_values_nonempty : forall p v, In v (uv_values p) -> v <> [].
Proof. intros p v H. unfold uv_values in H. apply filter_In in H. destruct H as [_ H]. destruct v; [discriminate | discriminate]. Qed.

Theorem pkeys_sound : forall (c : list N) (ks : list name) (k : name),
  okname k -> pkeys untbl true c = Some ks -> pmatch tbl c k = true -> In k ks.
Proof.
  intros c ks k [Hne Hcan] Hk Hm. unfold pkeys in Hk. unfold pmatch in Hm.
  destruct (is_star c); [discriminate|].
  destruct (model_laws ere_engine ere_is_ere) as [US [_ [_ [_ [UV _]]]]].
  unfold clause_keys_with in Hk.
  destruct (is_uvlist (sm_of ere_engine c)) eqn:Huv.
  - inversion Hk; subst ks. rewrite sm_of_text, uv_loop_values.
    rewrite <- Hcan. apply in_map. apply (UV c (tbl k) Huv Hne). exact Hm.
  - destruct (is_unique (sm_of ere_engine c)) eqn:Hun; [|discriminate].
    inversion Hk; subst ks. rewrite sm_of_text. left. rewrite <- Hcan. f_equal. symmetry. apply (US c (tbl k) Hun). exact Hm.
Qed.

Theorem pkeys_complete : forall (c : list N) (ks : list name) (k : name),
  pkeys untbl true c = Some ks -> In k ks -> pmatch tbl c k = true.
Proof.
  intros c ks k Hk Hin. unfold pkeys in Hk. unfold pmatch.
  destruct (is_star c); [reflexivity|].
  destruct (model_laws ere_engine ere_is_ere) as [US [_ [_ [_ [UV _]]]]].
  unfold clause_keys_with in Hk.
  destruct (is_uvlist (sm_of ere_engine c)) eqn:Huv.
  - inversion Hk; subst ks. rewrite sm_of_text, uv_loop_values in Hin. apply in_map_iff in Hin. destruct Hin as [v [E Hv]]. subst k.
    rewrite tbl_untbl. apply (UV c v Huv (uv_values_nonempty c v Hv)). exact Hv.
  - destruct (is_unique (sm_of ere_engine c)) eqn:Hun; [|discriminate].
    inversion Hk; subst ks. rewrite sm_of_text in Hin. destruct Hin as [E|[]]. subst k. rewrite tbl_untbl. now apply (US c (unescape c) Hun).
Qed.

(* the canonical names: the number of their own string (the empty string included) *)
Definition canon (k : name) : Prop := untbl (tbl k) = k.

Lemma uvlist_exact_ere : forall p t, is_uvlist (sm_of ere_engine p) = true ->
  (matches (sm_of ere_engine p) t = true <-> In t (uv_segs p false [])).
Proof. intros p t H. unfold sm_of in *. now apply (uvlist_exact ere_engine ere_is_ere p sm_init t). Qed.

Theorem pkeys_all_sound : forall (c : list N) (ks : list name) (k : name),
  canon k -> pkeys_all untbl c = Some ks -> pmatch tbl c k = true -> In k ks.
Proof.
  intros c ks k Hcan Hk Hm. unfold pkeys_all in Hk. unfold pmatch in Hm.
  destruct (is_star c); [discriminate|].
  destruct (model_laws ere_engine ere_is_ere) as [US _].
  unfold clause_keys_all in Hk.
  destruct (is_uvlist (sm_of ere_engine c)) eqn:Huv.
  - inversion Hk; subst ks. rewrite sm_of_text, uv_loop_all_segs.
    rewrite <- Hcan. apply in_map. now apply (uvlist_exact_ere c (tbl k) Huv).
  - destruct (is_unique (sm_of ere_engine c)) eqn:Hun; [|discriminate].
    inversion Hk; subst ks. rewrite sm_of_text. left. rewrite <- Hcan. f_equal. symmetry. apply (US c (tbl k) Hun). exact Hm.
Qed.

Theorem pkeys_all_complete : forall (c : list N) (ks : list name) (k : name),
  pkeys_all untbl c = Some ks -> In k ks -> pmatch tbl c k = true.
Proof.
  intros c ks k Hk Hin. unfold pkeys_all in Hk. unfold pmatch.
  destruct (is_star c); [reflexivity|].
  destruct (model_laws ere_engine ere_is_ere) as [US _].
  unfold clause_keys_all in Hk.
  destruct (is_uvlist (sm_of ere_engine c)) eqn:Huv.
  - inversion Hk; subst ks. rewrite sm_of_text, uv_loop_all_segs in Hin. apply in_map_iff in Hin. destruct Hin as [v [E Hv]]. subst k.
    rewrite tbl_untbl. now apply (uvlist_exact_ere c v Huv).
  - destruct (is_unique (sm_of ere_engine c)) eqn:Hun; [|discriminate].
    inversion Hk; subst ks. rewrite sm_of_text in Hin. destruct Hin as [E|[]]. subst k. rewrite tbl_untbl. now apply (US c (unescape c) Hun).
Qed.

Lemma name_mem_in : forall k l, name_mem k l = true <-> In k l.
Proof.
  intros k l. induction l as [|x l IH]; cbn; [split; [discriminate | intros []]|].
  rewrite orb_true_iff, IH, N.eqb_eq. tauto.
Qed.

(* on canonical names the law-normalised instance IS the StringMatcher model *)
Theorem pmatch_n_agrees : forall (c : list N) (k : name), canon k -> pmatch_n tbl untbl c k = pmatch tbl c k.
Proof.
  intros c k Hcan. unfold pmatch_n. destruct (pkeys_all untbl c) as [ks|] eqn:Hk; [|reflexivity].
  apply eq_true_iff_eq. rewrite name_mem_in. split.
  - now apply (pkeys_all_complete c ks k Hk).
  - now apply (pkeys_all_sound c ks k Hcan Hk).
Qed.

End Laws.

Lemma clause_laws_lemma :
  forall (tbl : name -> list N) (untbl : list N -> name), (forall s, tbl (untbl s) = s) ->
    (forall (c : list N) (ks : list name) (k : name),
       okname tbl untbl k -> pkeys untbl true c = Some ks -> pmatch tbl c k = true -> In k ks) /\
    (forall (c : list N) (ks : list name) (k : name), pkeys untbl true c = Some ks -> In k ks -> pmatch tbl c k = true).
Proof. intros tbl untbl H. split; [exact (pkeys_sound tbl untbl) | exact (pkeys_complete tbl untbl H)]. Qed.

Lemma clause_laws_all_lemma :
  forall (tbl : name -> list N) (untbl : list N -> name), (forall s, tbl (untbl s) = s) ->
    (forall (c : list N) (ks : list name) (k : name),
       canon tbl untbl k -> pkeys_all untbl c = Some ks -> pmatch tbl c k = true -> In k ks) /\
    (forall (c : list N) (ks : list name) (k : name), pkeys_all untbl c = Some ks -> In k ks -> pmatch tbl c k = true).
Proof. intros tbl untbl H. split; [exact (pkeys_all_sound tbl untbl) | exact (pkeys_all_complete tbl untbl H)]. Qed.

(* F52: with the key parsing as found (escape characters dropped before DoDirectChildLookup unescapes once more) a clause
   reports a lookup key it does not match: the clause  a\\b,c  looks up  ab *)
Lemma uvkeys_refuted_as_found_lemma :
  exists (p k : list N),
    is_uvlist (sm_of ere_engine p) = true /\
    (exists ks, clause_keys_with false (sm_of ere_engine p) = Some ks /\ In k ks) /\
    matches (sm_of ere_engine p) k = false /\
    clause_keys_with true (sm_of ere_engine p) = Some [[97; 92; 98]; [99]].
Proof.
  exists [97; 92; 92; 98; 44; 99], [97; 98]. split; [vm_compute; reflexivity|]. split.
  - exists [[97; 98]; [99]]. split; [vm_compute; reflexivity | now left].
  - split; vm_compute; reflexivity.
Qed.
