(* Refl/MirrorProofs.v -- mirror_converges_partial: at every quiescent point of every loud history, a
   subscriber that issues no explicit GETDATA holds exactly the foreign nodes its subscriptions select,
   each with the node's current payload. *)
From Coq Require Import List NArith ZArith Bool Arith Lia.
From Muscle Require Import Gen.Consts Refl.Base Refl.BaseProofs Refl.Tree Refl.TreeProofs Refl.Matcher Refl.MatcherProofs
     Refl.Traverse Refl.TraverseFold Refl.TraverseSpec Refl.Session Refl.Server Refl.ServerProofs Refl.Mirror Refl.MirrorBase
     Refl.MirrorServer Refl.MirrorNotify Refl.MirrorSem Refl.MirrorSteps Refl.MirrorHandlers Refl.MirrorSubscribe Refl.MirrorFetch
     Refl.MirrorSubJ Refl.MirrorCmd Refl.MirrorFrame Refl.MirrorQuiet Refl.MirrorTail.
Import ListNotations.

Section WorldProofs.
Context {M : MatchOps} {L : MatchLaws M}.
Variable fx : fixes.
Hypothesis guard_on : fx_guard fx = true.
Hypothesis overlap_on : fx_overlap fx = true.
Hypothesis push_on : fx_push fx = true.

(* ------------------------------------------------------------------ quiescence *)

(* nothing pending, nothing undelivered *)
Definition quiet (sv : server) : Prop :=
  sv_dirty sv = false /\ forall ss, In ss (sv_sessions sv) -> s_pending ss = None /\ s_out ss = [].

(* nothing pending (outputs may wait for delivery) *)
Definition settled (sv : server) : Prop :=
  sv_dirty sv = false /\ forall ss, In ss (sv_sessions sv) -> s_pending ss = None.

Lemma quiet_pend_ok : forall sv, settled sv -> pend_ok sv.
Proof.
  intros sv [H1 H2]. split.
  - intros ss d Hin Hp. rewrite (H2 ss Hin) in Hp. discriminate.
  - intros [ss [Hin Hp]]. now rewrite (H2 ss Hin) in Hp.
Qed.

Lemma quiet_settled : forall sv, quiet sv -> settled sv.
Proof. intros sv [H1 H2]. split; auto. intros ss Hin. now destruct (H2 ss Hin). Qed.

Lemma settled_push_all : forall sv, pend_ok sv -> settled (push_all sv).
Proof.
  intros sv Hpo. split.
  - unfold push_all. destruct (sv_dirty sv) eqn:E; auto.
  - now apply push_all_no_pending.
Qed.

Lemma quiet_clear_outs : forall sv, settled sv -> quiet (clear_outs sv).
Proof.
  intros sv [H1 H2]. split; [exact H1|]. intros ss Hin. cbn in Hin. apply in_map_iff in Hin as [x [Hx Hin]]. subst ss.
  split; [exact (H2 x Hin)|reflexivity].
Qed.

(* ------------------------------------------------------------------ pending Messages through arrival and departure *)

Lemma pend_ok_attach : forall sv s host nm, pend_ok sv -> pend_ok (attach sv s host nm).
Proof.
  intros sv s host nm Hpo. unfold attach.
  set (ssn := mkSession s host nm empty_matcher default_max_items None []).
  set (sv0 := mkServer (sv_tree sv) (sv_sessions sv ++ [ssn]) (sv_dirty sv)).
  assert (Hpo0 : pend_ok sv0).
  { destruct Hpo as [H1 H2]. split; cbn [sv_sessions sv_dirty sv0].
    - intros ss d Hin Hp. apply in_app_or in Hin as [Hin|[Hin|[]]]; [eauto|subst ss; discriminate].
    - intros [ss [Hin Hp]]. apply in_app_or in Hin as [Hin|[Hin|[]]]; [apply H2; eauto|subst ss; now contradiction Hp]. }
  apply pend_ok_push_all. apply pend_ok_notify_changed.
  destruct (has_node (sv_tree sv0) [host]); [exact Hpo0|]. apply pend_ok_notify_changed. exact Hpo0.
Qed.

Lemma pend_ok_drop : forall sv t s, pend_ok sv ->
  pend_ok (mkServer t (filter (fun x => negb (N.eqb (s_id x) s)) (sv_sessions sv)) (sv_dirty sv)).
Proof.
  intros sv t s [H1 H2]. split; cbn [sv_sessions sv_dirty].
  - intros ss d Hin Hp. apply filter_In in Hin as [Hin _]. eauto.
  - intros [ss [Hin Hp]]. apply filter_In in Hin as [Hin _]. apply H2. eauto.
Qed.

Lemma settled_detach : forall sv s, settled sv -> settled (detach fx sv s).
Proof.
  intros sv s Hq. pose proof (quiet_pend_ok sv Hq) as Hpo. unfold detach.
  destruct (get_session sv s) as [ss|]; auto.
  match goal with |- settled (mkServer _ (filter _ (sv_sessions ?X)) _) => set (sv3 := X) end.
  assert (H3 : settled sv3).
  { unfold sv3. destruct (has_node (sv_tree sv) [s_host ss]); auto.
    apply settled_push_all.
    assert (H1 : pend_ok (if has_node (sv_tree sv) (session_dir ss) then remove_subtree sv s (session_dir ss) true else sv)).
    { destruct (has_node (sv_tree sv) (session_dir ss)); auto. now apply remove_subtree_frame. }
    destruct (has_children _ _); auto. now apply remove_subtree_frame. }
  destruct H3 as [Hd Hp]. split; cbn [sv_dirty sv_sessions]; auto.
  intros x Hx. apply filter_In in Hx as [Hx _]. now apply Hp.
Qed.

(* ------------------------------------------------------------------ delivery *)

Lemma V_settled : forall mir sv o ss q, get_session sv o = Some ss -> s_pending ss = None ->
  V mir sv o q = Some (mirror_get (apply_all mir (s_out ss)) q).
Proof. intros mir sv o ss q Hss Hp. unfold V. rewrite Hss. cbn [option_map]. unfold vm. now rewrite Hp. Qed.

Lemma get_session_clear : forall sv o, get_session (clear_outs sv) o = option_map clear_out (get_session sv o).
Proof.
  intros sv o. unfold get_session, clear_outs. cbn [sv_sessions].
  induction (sv_sessions sv) as [|x l IH]; cbn; auto.
  destruct (N.eqb (s_id x) o); auto.
Qed.

(* handing the queued Messages to the client *)
Lemma deliver_J : forall mir sv o ss, settled sv -> get_session sv o = Some ss -> J mir sv o ->
  J (apply_all mir (s_out ss)) (clear_outs sv) o.
Proof.
  intros mir sv o ss [_ Hset] Hss HJ ss' Hss' q Hown.
  rewrite get_session_clear, Hss in Hss'. cbn in Hss'. inversion Hss'; subst ss'. clear Hss'.
  assert (Hin : In ss (sv_sessions sv)) by (apply find_session_some in Hss; tauto).
  unfold V. rewrite get_session_clear, Hss. cbn [option_map]. unfold vm. cbn [clear_out s_out s_pending].
  rewrite (Hset ss Hin). cbn [apply_all fold_left].
  pose proof (HJ ss Hss q Hown) as H. rewrite (V_settled mir sv o ss q Hss (Hset ss Hin)) in H.
  inversion H as [H']. rewrite H'. reflexivity.
Qed.


(* ------------------------------------------------------------------ who is there after an arrival / a departure *)

Lemma settled_attach : forall sv s host nm, pend_ok sv -> settled (attach sv s host nm).
Proof.
  intros sv s host nm Hpo. unfold attach. apply settled_push_all. apply pend_ok_notify_changed.
  set (ssn := mkSession s host nm empty_matcher default_max_items None []).
  set (sv0 := mkServer (sv_tree sv) (sv_sessions sv ++ [ssn]) (sv_dirty sv)).
  assert (Hpo0 : pend_ok sv0).
  { destruct Hpo as [H1 H2]. split; cbn [sv_sessions sv_dirty sv0].
    - intros ss d Hin Hp. apply in_app_or in Hin as [Hin|[Hin|[]]]; [eauto|subst ss; discriminate].
    - intros [ss [Hin Hp]]. apply in_app_or in Hin as [Hin|[Hin|[]]]; [apply H2; eauto|subst ss; now contradiction Hp]. }
  destruct (has_node (sv_tree sv0) [host]); [exact Hpo0|]. apply pend_ok_notify_changed. exact Hpo0.
Qed.

Lemma attach_sessions : forall sv s host nm,
  let ssn := mkSession s host nm empty_matcher default_max_items None [] in
  let sv0 := mkServer (sv_tree sv) (sv_sessions sv ++ [ssn]) (sv_dirty sv) in
  same_sess sv0 (attach sv s host nm).
Proof.
  intros sv s host nm ssn sv0. unfold attach. fold ssn. fold sv0.
  match goal with |- same_sess sv0 (push_all (notify_changed (set_tree ?X ?T) _ _ _ _ _)) => set (sv1 := X); set (t2 := T) end.
  assert (Hs1 : same_sess sv0 sv1).
  { unfold sv1. destruct (has_node (sv_tree sv0) [host]); [reflexivity|].
    apply (same_sess_trans sv0 (set_tree sv0 (add_node (sv_tree sv0) (mkNode [host] empty_payload (new_node_table sv0 [host])))));
      [reflexivity|apply same_core_sess, notify_changed_core]. }
  apply (same_sess_trans sv0 sv1); auto. apply (same_sess_trans sv1 (set_tree sv1 t2)); [reflexivity|].
  eapply same_sess_trans; [apply same_core_sess, notify_changed_core|apply same_core_sess, push_all_core].
Qed.

Lemma detach_sessions : forall sv s o ss', settled sv -> o <> s -> get_session (detach fx sv s) o = Some ss' ->
  exists ss, get_session sv o = Some ss /\ s_subs ss = s_subs ss' /\ session_dir ss = session_dir ss'.
Proof.
  intros sv s o ss' Hq Hne Hss'. pose proof (quiet_pend_ok sv Hq) as Hpo. unfold detach in Hss'.
  destruct (get_session sv s) as [ss|] eqn:Hss; [|exists ss'; auto].
  unfold get_session in Hss'. cbn [sv_sessions] in Hss'. rewrite find_session_filter in Hss' by congruence.
  match type of Hss' with find_session (sv_sessions ?X) o = _ => set (sv3 := X) in * end.
  assert (Hs3 : same_sess sv sv3).
  { unfold sv3. destruct (has_node (sv_tree sv) [s_host ss]); [|reflexivity].
    set (sv1 := if has_node (sv_tree sv) (session_dir ss) then remove_subtree sv s (session_dir ss) true else sv).
    assert (H1 : pend_ok sv1 /\ same_sess sv sv1).
    { unfold sv1. destruct (has_node (sv_tree sv) (session_dir ss)); [now apply remove_subtree_frame|split; [auto|reflexivity]]. }
    destruct H1 as [Hpo1 Hs1].
    eapply same_sess_trans; [|apply same_core_sess, push_all_core].
    destruct (has_children (sv_tree sv1) [s_host ss]); auto.
    destruct (remove_subtree_frame sv1 s [s_host ss] true Hpo1) as [_ H2]. eapply same_sess_trans; eauto. }
  apply (get_session_sess sv sv3 o ss' Hs3). exact Hss'.
Qed.

(* ------------------------------------------------------------------ the observer unsubscribes, and prunes *)

Lemma unsub_fold_V : forall mir subs sv o,
  let sv' := fold_left (fun sv' sp => unsubscribe_one fx sv' o sp) subs sv in
  (forall q, V mir sv' o q = V mir sv o q) /\ (forall q, data_at (sv_tree sv') q = data_at (sv_tree sv) q).
Proof.
  intros mir. induction subs as [|sp subs IH]; intros sv o; cbn [fold_left]; [split; auto|].
  destruct (IH (unsubscribe_one fx sv o sp) o) as [H1 H2].
  assert (H0 : (forall q, V mir (unsubscribe_one fx sv o sp) o q = V mir sv o q)
               /\ (forall q, data_at (sv_tree (unsubscribe_one fx sv o sp)) q = data_at (sv_tree sv) q)).
  { unfold unsubscribe_one. destruct (get_session sv o) as [ss|]; [|split; auto].
    destruct (m_remove (s_subs ss) (fix_path sp)) as [m'|]; [|split; auto]. split.
    - intros q. rewrite V_set_tree. apply V_upd_keep. intros x; auto.
    - intros q. cbn [sv_tree set_tree upd_session]. apply data_at_mark_gen. }
  destruct H0 as [H3 H4]. split; intros q; [now rewrite H1|now rewrite H2].
Qed.

Lemma unsub_entries_subset : forall subs m x,
  In x (all_entries (fold_left (fun m' sp => match m_remove m' (fix_path sp) with Some m'' => m'' | None => m' end) subs m)) ->
  In x (all_entries m).
Proof.
  induction subs as [|sp subs IH]; intros m x H; cbn [fold_left] in H; auto.
  apply IH in H. destruct (m_remove m (fix_path sp)) as [m'|] eqn:E; auto. now apply (all_entries_remove m (fix_path sp) m').
Qed.

Lemma unsub_world_J : forall B mir sv0 o ss0 subs, small B -> inv B sv0 -> quiet sv0 ->
  get_session sv0 o = Some ss0 -> mirror_ok mir -> J mir sv0 o ->
  let sv1 := push_all (handle fx 0 sv0 o (CUnsubscribe subs)) in
  forall ss1, get_session sv1 o = Some ss1 ->
  J (filter (fun pv => matches_path (s_subs ss1) (fst pv) (Some (snd pv))) (apply_all mir (s_out ss1))) (clear_outs sv1) o.
Proof.
  intros B mir sv0 o ss0 subs HB I Hq Hss0 Hmok HJ sv1 ss1 Hss1.
  pose proof (quiet_pend_ok sv0 (quiet_settled sv0 Hq)) as Hpo0.
  unfold sv1 in *. cbn [handle] in *. rewrite Hss0 in *.
  set (svu := fold_left (fun sv' sp => unsubscribe_one fx sv' o sp) subs sv0) in *.
  destruct (unsub_fold_V mir subs sv0 o) as [HVu Hdu]. fold svu in HVu, Hdu.
  destruct (unsubscribe_fold_track fx subs sv0 o Hpo0) as [Hpou Htr]. fold svu in Hpou, Htr.
  pose proof (unsubscribe_fold_inv fx guard_on subs B sv0 o HB I) as Iu. fold svu in Iu.
  assert (Hset : settled (push_all svu)) by (now apply settled_push_all).
  destruct (Htr o ss0 Hss0) as [ssu [Hssu [Hdiru Hsubu]]]. rewrite N.eqb_refl in Hsubu.
  destruct (get_session_sess svu (push_all svu) o ss1 (same_core_sess _ _ (push_all_core svu)) Hss1) as [ssu' [Hssu' [Hsub1 Hdir1]]].
  assert (ssu' = ssu) by congruence. subst ssu'.
  assert (Hin1 : In ss1 (sv_sessions (push_all svu))) by (apply find_session_some in Hss1; tauto).
  pose proof (proj2 Hset ss1 Hin1) as Hnp1.
  assert (Ipu : inv B (push_all svu)) by (eapply inv_same_core; [apply push_all_core|exact Iu]).
  destruct (inv_subs _ _ _ Ipu ss1 Hin1) as [[Hw1 _] _].
  assert (Hin0 : In ss0 (sv_sessions sv0)) by (apply find_session_some in Hss0; tauto).
  destruct (inv_subs _ _ _ I ss0 Hin0) as [[Hw0 _] _].
  destruct (proj2 Hq ss0 Hin0) as [Hnp0 Hout0].
  (* the Messages delivered do not change what the client holds: the server said nothing *)
  assert (Hm1 : forall q, mirror_get (apply_all mir (s_out ss1)) q = mirror_get mir q).
  { intros q. pose proof (V_settled mir (push_all svu) o ss1 q Hss1 Hnp1) as Ha.
    rewrite V_push_all, HVu, (V_settled mir sv0 o ss0 q Hss0 Hnp0), Hout0 in Ha. cbn [apply_all fold_left] in Ha. now inversion Ha. }
  assert (Hsub : forall x, In x (all_entries (s_subs ss1)) -> In x (all_entries (s_subs ss0))).
  { intros x Hx. rewrite <- Hsub1, Hsubu in Hx. now apply unsub_entries_subset in Hx. }
  intros ss' Hss' q Hown.
  rewrite get_session_clear, Hss1 in Hss'. cbn in Hss'. inversion Hss'; subst ss'. clear Hss'.
  assert (Hown0 : own_node ss0 q = false).
  { rewrite <- Hown. apply own_node_dir. unfold session_dir in *. cbn [clear_out s_host s_name]. congruence. }
  unfold V. rewrite get_session_clear, Hss1. cbn [option_map]. unfold vm. cbn [clear_out s_out s_pending]. rewrite Hnp1.
  cbn [apply_all fold_left]. f_equal.
  rewrite mirror_get_filter by (now apply apply_all_ok). rewrite Hm1. cbn [fst snd].
  pose proof (HJ ss0 Hss0 q Hown0) as H0. rewrite (V_settled mir sv0 o ss0 q Hss0 Hnp0), Hout0 in H0.
  cbn [apply_all fold_left] in H0. inversion H0 as [H0']. clear H0. rewrite H0'.
  rewrite !expected_exp_with. cbn [clear_out s_subs sv_tree clear_outs].
  fold (data_at (sv_tree sv0) q). fold (data_at (sv_tree (push_all svu)) q).
  destruct (push_all_core svu) as [Htp _]. rewrite Htp, Hdu.
  destruct (data_at (sv_tree sv0) q) as [v|]; [|reflexivity].
  unfold exp_with. destruct (matches_path (s_subs ss0) q (Some v)) eqn:E0.
  - reflexivity.
  - destruct (matches_path (s_subs ss1) q (Some v)) eqn:E1; auto.
    apply matches_path_spec in E1 as [e [He [H1 H2]]]; auto.
    assert (matches_path (s_subs ss0) q (Some v) = true); [|congruence].
    apply matches_path_spec; auto. exists e. auto.
Qed.


(* ------------------------------------------------------------------ the observer unsubscribes inside a BATCH *)

(* what may follow an unsubscribe inside a BATCH of the observer: things that tell the observer nothing about foreign nodes *)
Definition tail_flat (c : cmd) : bool :=
  match c with
  | CUnsubscribe _ | CSetData _ _ | CRemoveData _ _ | CSetMax _ | CResetMax => true
  | _ => false
  end.

Fixpoint tail_cmd (c : cmd) : bool :=
  match c with
  | CUnsubscribe _ | CSetData _ _ | CRemoveData _ _ | CSetMax _ | CResetMax => true
  | CBatch l => forallb tail_cmd l
  | _ => false
  end.

Lemma handle_batch_fold : forall l nest sv s ss, get_session sv s = Some ss -> Nat.ltb nest max_batch_nest = true ->
  handle fx nest sv s (CBatch l) = fold_left (fun s' c => push_all (handle fx (S nest) s' s c)) l sv.
Proof.
  intros l nest sv s ss Hss Hlt. cbn [handle]. rewrite Hss, Hlt. clear Hss ss. revert sv.
  induction l as [|c l IH]; intros sv; cbn [fold_left]; [reflexivity|]. apply IH.
Qed.

(* one tail command of the observer (not a BATCH) *)
Lemma tail_step0 : forall mir o c nest sv B ss, tail_flat c = true -> small B -> inv B sv -> pend_ok sv ->
  get_session sv o = Some ss ->
  let sv' := push_all (handle fx nest sv o c) in
  pend_ok sv' /\ inv B sv' /\ (forall q, V mir sv' o q = V mir sv o q)
  /\ (forall q, own_node ss q = false -> data_at (sv_tree sv') q = data_at (sv_tree sv) q)
  /\ (exists ss', get_session sv' o = Some ss' /\ session_dir ss' = session_dir ss
                  /\ forall x, In x (all_entries (s_subs ss')) -> In x (all_entries (s_subs ss)))
  /\ settled sv'.
Proof.
  intros mir o c nest sv B ss Ht HB I Hpo Hss sv'.
  assert (Hdep : nest + cmd_depth c <= max_batch_nest \/ True) by now right.
  assert (Hfor : forall q, own_node ss q = false -> is_prefix (session_dir ss) q = false).
  { intros q Hq. destruct (is_prefix (session_dir ss) q) eqn:E; auto. apply own_node_of_prefix in E. congruence. }
  assert (Hb0 : cmd_budget c = 0) by (destruct c; try discriminate; reflexivity).
  assert (I1 : inv B (handle fx nest sv o c)).
  { pose proof (handle_inv fx guard_on c nest sv o B) as Hi. rewrite Hb0, Nat.add_0_r in Hi. now apply Hi. }
  pose proof (find_session_some _ _ _ Hss) as [_ Hid].
  (* the handler itself *)
  assert (Hh : pend_ok (handle fx nest sv o c) /\ (forall q, V mir (handle fx nest sv o c) o q = V mir sv o q)
               /\ (forall q, own_node ss q = false -> data_at (sv_tree (handle fx nest sv o c)) q = data_at (sv_tree sv) q)
               /\ exists ss', get_session (handle fx nest sv o c) o = Some ss' /\ session_dir ss' = session_dir ss
                              /\ forall x, In x (all_entries (s_subs ss')) -> In x (all_entries (s_subs ss))).
  { destruct c as [flags items|qq keys|qs ks|subs|n| |gk|bl]; try discriminate; cbn [handle]; rewrite Hss.
    - (* SETDATA *)
      destruct (set_data_items_frame items sv o flags Hpo) as [Hp1 Hs1].
      destruct (own_set_data_items mir o items sv flags (session_dir ss) Hpo) as [HV Hd]; [intros x Hx; congruence|].
      split; [exact Hp1|split; [exact HV|split; [intros q Hq; apply Hd; now apply Hfor|]]].
      destruct (get_session_sess_fwd sv _ o ss Hs1 Hss) as [ss' [Ha [Hb Hc]]]. exists ss'. split; [auto|split; [auto|]].
      intros x Hx. now rewrite <- Hb.
    - (* REMOVEDATA *)
      destruct (do_remove_data_frame fx sv ss keys qq Hpo) as [Hp1 Hs1].
      destruct (own_do_remove_data fx mir o sv ss keys qq Hpo Hid) as [HV Hd].
      split; [exact Hp1|split; [exact HV|split; [intros q Hq; apply Hd; now apply Hfor|]]].
      destruct (get_session_sess_fwd sv _ o ss Hs1 Hss) as [ss' [Ha [Hb Hc]]]. exists ss'. split; [auto|split; [auto|]].
      intros x Hx. now rewrite <- Hb.
    - (* unsubscribe *)
      destruct (unsub_fold_V mir subs sv o) as [HV Hd].
      destruct (unsubscribe_fold_track fx subs sv o Hpo) as [Hp1 Htr].
      split; [exact Hp1|split; [exact HV|split; [intros q _; apply Hd|]]].
      destruct (Htr o ss Hss) as [ss' [Ha [Hb Hc]]]. rewrite N.eqb_refl in Hc. exists ss'. split; [auto|split; [auto|]].
      intros x Hx. rewrite Hc in Hx. now apply unsub_entries_subset in Hx.
    - (* max update items *)
      split; [apply pend_ok_upd_keep; [reflexivity|auto]|]. split; [intros q; apply V_upd_keep; intros x; auto|].
      split; [intros q _; reflexivity|].
      destruct (get_session_core_some sv (upd_session sv o (fun x => set_max x (u32_of_Z n))) o ss) as [ss' [Ha Hb]]; auto.
      { apply upd_session_core. reflexivity. }
      exists ss'. split; [auto|split]. 
      + rewrite get_session_upd in Ha by (intros x; reflexivity). rewrite N.eqb_refl, Hss in Ha. cbn in Ha. inversion Ha. reflexivity.
      + intros x Hx. now rewrite <- Hb.
    - split; [apply pend_ok_upd_keep; [reflexivity|auto]|]. split; [intros q; apply V_upd_keep; intros x; auto|].
      split; [intros q _; reflexivity|].
      destruct (get_session_core_some sv (upd_session sv o (fun x => set_max x default_max_items)) o ss) as [ss' [Ha Hb]]; auto.
      { apply upd_session_core. reflexivity. }
      exists ss'. split; [auto|split].
      + rewrite get_session_upd in Ha by (intros x; reflexivity). rewrite N.eqb_refl, Hss in Ha. cbn in Ha. inversion Ha. reflexivity.
      + intros x Hx. now rewrite <- Hb. }
  destruct Hh as [Hp1 [HV1 [Hd1 [ss1 [Ha [Hb Hc]]]]]].
  split; [now apply pend_ok_push_all|]. split; [eapply inv_same_core; [apply push_all_core|exact I1]|].
  split; [intros q; unfold sv'; now rewrite V_push_all|].
  split; [intros q Hq; unfold sv'; destruct (push_all_core (handle fx nest sv o c)) as [Htr _]; rewrite Htr; now apply Hd1|].
  destruct (get_session_sess_fwd _ sv' o ss1 (same_core_sess _ _ (push_all_core _)) Ha) as [ss2 [Hd [He Hf]]].
  split; [|now apply settled_push_all].
  exists ss2. split; [exact Hd|split; [congruence|]]. intros x Hx. apply Hc. now rewrite <- He.
Qed.

(* the facts of tail_step0, as a predicate, and what they survive *)
Definition tail_facts (mir : mirror) (o : sid) (B : nat) (sv : server) (ss : session) (sv' : server) : Prop :=
  pend_ok sv' /\ inv B sv' /\ (forall q, V mir sv' o q = V mir sv o q)
  /\ (forall q, own_node ss q = false -> data_at (sv_tree sv') q = data_at (sv_tree sv) q)
  /\ (exists ss', get_session sv' o = Some ss' /\ session_dir ss' = session_dir ss
                  /\ forall x, In x (all_entries (s_subs ss')) -> In x (all_entries (s_subs ss))).

Lemma tail_facts_refl : forall mir o B sv ss, pend_ok sv -> inv B sv -> get_session sv o = Some ss -> tail_facts mir o B sv ss sv.
Proof. intros. split; [auto|split; [auto|split; [auto|split; [auto|]]]]. exists ss. auto. Qed.

Lemma tail_facts_trans : forall mir o B sv ss sv1 ss1 sv2,
  tail_facts mir o B sv ss sv1 -> get_session sv1 o = Some ss1 -> tail_facts mir o B sv1 ss1 sv2 -> tail_facts mir o B sv ss sv2.
Proof.
  intros mir o B sv ss sv1 ss1 sv2 [Hp1 [I1 [HV1 [Hd1 [x [Hx [Hdx Hsx]]]]]]] Hss1 [Hp2 [I2 [HV2 [Hd2 [y [Hy [Hdy Hsy]]]]]]].
  assert (x = ss1) by congruence. subst x.
  split; [auto|split; [auto|split; [intros q; now rewrite HV2|split]]].
  - intros q Hq. rewrite Hd2; [now apply Hd1|]. now rewrite (own_node_dir ss1 ss q Hdx).
  - exists y. split; [auto|split; [congruence|auto]].
Qed.

Lemma tail_facts_push : forall mir o B sv ss sv1, tail_facts mir o B sv ss sv1 ->
  tail_facts mir o B sv ss (push_all sv1) /\ settled (push_all sv1).
Proof.
  intros mir o B sv ss sv1 [Hp1 [I1 [HV1 [Hd1 [x [Hx [Hdx Hsx]]]]]]].
  split; [|now apply settled_push_all].
  split; [now apply pend_ok_push_all|]. split; [eapply inv_same_core; [apply push_all_core|exact I1]|].
  split; [intros q; now rewrite V_push_all|].
  split; [intros q Hq; destruct (push_all_core sv1) as [Ht _]; rewrite Ht; now apply Hd1|].
  destruct (get_session_sess_fwd sv1 (push_all sv1) o x (same_core_sess _ _ (push_all_core _)) Hx) as [y [Hy [Hsy Hdy]]].
  exists y. split; [auto|split; [congruence|]]. intros z Hz. apply Hsx. now rewrite <- Hsy.
Qed.

(* one tail command of the observer, nested BATCHes of tail commands included *)
Lemma tail_step : forall mir o c nest sv B ss, tail_cmd c = true -> small B -> inv B sv -> pend_ok sv ->
  get_session sv o = Some ss ->
  let sv' := push_all (handle fx nest sv o c) in
  tail_facts mir o B sv ss sv' /\ settled sv'.
Proof.
  intros mir o. induction c using cmd_ind'; intros nest sv B ss Ht HB I Hpo Hss sv'; try discriminate;
    try (match goal with sv'0 := push_all (handle fx nest sv o ?c0) |- _ =>
           destruct (tail_step0 mir o c0 nest sv B ss eq_refl HB I Hpo Hss) as [H1 [H2 [H3 [H4 [H5 H6]]]]];
           split; [split; [exact H1|split; [exact H2|split; [exact H3|split; [exact H4|exact H5]]]]|exact H6]
         end).
  (* BATCH *)
  unfold sv'. apply tail_facts_push. cbn [handle]. rewrite Hss. cbn [tail_cmd] in Ht.
  destruct (Nat.ltb nest max_batch_nest); [|now apply tail_facts_refl].
  clear sv'. revert sv ss I Hpo Hss Ht.
  induction H as [|c l Hc Hl IHl]; intros sv ss I Hpo Hss Ht; [now apply tail_facts_refl|].
  cbn [forallb] in Ht. apply andb_true_iff in Ht as [Ht1 Ht2].
  destruct (Hc (S nest) sv B ss Ht1 HB I Hpo Hss) as [Hf1 _].
  pose proof Hf1 as [Hp1 [I1 [_ [_ [ss1 [Hss1 _]]]]]].
  apply (tail_facts_trans mir o B sv ss (push_all (handle fx (S nest) sv o c)) ss1); auto.
Qed.

Lemma tail_fold : forall mir o l2 nest sv B ss, forallb tail_cmd l2 = true -> small B -> inv B sv -> pend_ok sv ->
  get_session sv o = Some ss ->
  let sv' := fold_left (fun s' c => push_all (handle fx nest s' o c)) l2 sv in
  pend_ok sv' /\ inv B sv' /\ (forall q, V mir sv' o q = V mir sv o q)
  /\ (forall q, own_node ss q = false -> data_at (sv_tree sv') q = data_at (sv_tree sv) q)
  /\ (exists ss', get_session sv' o = Some ss' /\ session_dir ss' = session_dir ss
                  /\ forall x, In x (all_entries (s_subs ss')) -> In x (all_entries (s_subs ss)))
  /\ (settled sv -> settled sv').
Proof.
  intros mir o. induction l2 as [|c l2 IH]; intros nest sv B ss Ht HB I Hpo Hss; cbn [fold_left].
  - split; [auto|split; [auto|split; [auto|split; [auto|split; [|auto]]]]]. exists ss. auto.
  - cbn [forallb] in Ht. apply andb_true_iff in Ht as [Ht1 Ht2].
    destruct (tail_step mir o c nest sv B ss Ht1 HB I Hpo Hss) as [[Hp1 [I1 [HV1 [Hd1 [ss1 [Ha [Hb Hc]]]]]]] Hset1].
    destruct (IH nest _ B ss1 Ht2 HB I1 Hp1 Ha) as [Hp2 [I2 [HV2 [Hd2 [[ss2 [Hd [He Hf]]] Hset2]]]]].
    split; [exact Hp2|split; [exact I2|split; [intros q; now rewrite HV2|split; [|split; [|auto]]]]].
    + intros q Hq. rewrite Hd2; [now apply Hd1|]. now rewrite (own_node_dir ss1 ss q Hb).
    + exists ss2. split; [exact Hd|split; [congruence|auto]].
Qed.

(* the client's pruning at the end: J held at some earlier point of the command (virtual mirror, foreign data unchanged
   since, subscriptions only dropped since) *)
Lemma prune_J : forall Bm B1 mir svm sv1 o ssm ss1, inv Bm svm -> inv B1 sv1 -> settled sv1 -> mirror_ok mir ->
  get_session svm o = Some ssm -> get_session sv1 o = Some ss1 -> session_dir ss1 = session_dir ssm ->
  (forall q, V mir sv1 o q = V mir svm o q) ->
  (forall q, own_node ssm q = false -> data_at (sv_tree sv1) q = data_at (sv_tree svm) q) ->
  (forall x, In x (all_entries (s_subs ss1)) -> In x (all_entries (s_subs ssm))) ->
  J mir svm o ->
  J (filter (fun pv => matches_path (s_subs ss1) (fst pv) (Some (snd pv))) (apply_all mir (s_out ss1))) (clear_outs sv1) o.
Proof.
  intros Bm B1 mir svm sv1 o ssm ss1 Im I1 Hset Hmok Hssm Hss1 Hdir HV Hd Hsub HJ.
  assert (Hin1 : In ss1 (sv_sessions sv1)) by (apply find_session_some in Hss1; tauto).
  pose proof (proj2 Hset ss1 Hin1) as Hnp1.
  destruct (inv_subs _ _ _ I1 ss1 Hin1) as [[Hw1 _] _].
  assert (Hinm : In ssm (sv_sessions svm)) by (apply find_session_some in Hssm; tauto).
  destruct (inv_subs _ _ _ Im ssm Hinm) as [[Hwm _] _].
  intros ss' Hss' q Hown.
  rewrite get_session_clear, Hss1 in Hss'. cbn in Hss'. inversion Hss'; subst ss'. clear Hss'.
  assert (Hownm : own_node ssm q = false).
  { rewrite <- Hown. apply own_node_dir. unfold session_dir in *. cbn [clear_out s_host s_name]. congruence. }
  unfold V. rewrite get_session_clear, Hss1. cbn [option_map]. unfold vm. cbn [clear_out s_out s_pending]. rewrite Hnp1.
  cbn [apply_all fold_left]. f_equal.
  rewrite mirror_get_filter by (now apply apply_all_ok). cbn [fst snd].
  pose proof (V_settled mir sv1 o ss1 q Hss1 Hnp1) as Ha. rewrite HV, (HJ ssm Hssm q Hownm) in Ha. inversion Ha as [Ha']. clear Ha.
  rewrite !expected_exp_with. cbn [clear_out s_subs sv_tree clear_outs].
  fold (data_at (sv_tree svm) q). fold (data_at (sv_tree sv1) q). rewrite (Hd q Hownm).
  destruct (data_at (sv_tree svm) q) as [v|]; [|reflexivity].
  unfold exp_with. destruct (matches_path (s_subs ssm) q (Some v)) eqn:E0.
  - reflexivity.
  - destruct (matches_path (s_subs ss1) q (Some v)) eqn:E1; auto.
    apply matches_path_spec in E1 as [e [He [H1 H2]]]; auto.
    assert (matches_path (s_subs ssm) q (Some v) = true); [|congruence].
    apply matches_path_spec; auto. exists e. auto.
Qed.

Lemma batch_budget_app : forall l1 l2, cmd_budget (CBatch (l1 ++ l2)) = cmd_budget (CBatch l1) + cmd_budget (CBatch l2).
Proof. intros l1 l2. cbn [cmd_budget]. induction l1 as [|c l1 IH]; cbn [app]; [reflexivity|]. rewrite IH. lia. Qed.

Lemma batch_depth_app_l : forall l1 l2, cmd_depth (CBatch l1) <= cmd_depth (CBatch (l1 ++ l2)).
Proof.
  intros l1 l2. cbn [cmd_depth]. apply le_n_S. induction l1 as [|c l1 IH]; cbn [app]; [lia|]. lia.
Qed.

Lemma batch_subs_ok_app_l : forall l1 l2, cmd_subs_ok (CBatch (l1 ++ l2)) -> cmd_subs_ok (CBatch l1).
Proof.
  intros l1 l2. cbn [cmd_subs_ok]. induction l1 as [|c l1 IH]; cbn [app]; [intros _; exact I|]. intros [H1 H2]. split; [exact H1|now apply IH].
Qed.

(* a BATCH of the observer: commands without unsubscribe, then unsubscribes and other tail commands; the client prunes
   once, after the whole BATCH *)
Lemma batch_tail_world_J : forall B mir sv0 o ss0 l1 l2, small (B + cmd_budget (CBatch (l1 ++ l2))) -> inv B sv0 -> quiet sv0 ->
  get_session sv0 o = Some ss0 -> mirror_ok mir -> J mir sv0 o ->
  cmd_loud_for true (CBatch (l1 ++ l2)) = true -> cmd_depth (CBatch (l1 ++ l2)) <= max_batch_nest ->
  cmd_subs_ok (CBatch (l1 ++ l2)) -> forallb cmd_nounsub l1 = true -> forallb tail_cmd l2 = true ->
  cmd_covered (s_subs ss0) (CBatch l1) ->
  let sv1 := push_all (handle fx 0 sv0 o (CBatch (l1 ++ l2))) in
  forall ss1, get_session sv1 o = Some ss1 ->
  J (filter (fun pv => matches_path (s_subs ss1) (fst pv) (Some (snd pv))) (apply_all mir (s_out ss1))) (clear_outs sv1) o.
Proof.
  intros B mir sv0 o ss0 l1 l2 HB I Hq Hss0 Hmok HJ Hloud Hdep Hsok Hnu Htl Hcov sv1 ss1 Hss1.
  pose proof (quiet_pend_ok sv0 (quiet_settled sv0 Hq)) as Hpo0.
  assert (Hlt : Nat.ltb 0 max_batch_nest = true) by (apply Nat.ltb_lt; cbn [cmd_depth] in Hdep; lia).
  assert (Hin0 : In ss0 (sv_sessions sv0)) by (apply find_session_some in Hss0; tauto).
  destruct (proj2 Hq ss0 Hin0) as [Hnp0 _].
  unfold sv1 in *. clear sv1.
  rewrite (handle_batch_fold (l1 ++ l2) 0 sv0 o ss0 Hss0 Hlt), fold_left_app in *.
  rewrite <- (handle_batch_fold l1 0 sv0 o ss0 Hss0 Hlt) in *.
  set (svm := handle fx 0 sv0 o (CBatch l1)) in *.
  pose proof (batch_budget_app l1 l2) as Hbud.
  assert (HB1 : small (B + cmd_budget (CBatch l1))) by (eapply small_le; [|exact HB]; lia).
  pose proof (batch_depth_app_l l1 l2) as Hd1.
  assert (Hl1 : cmd_loud_for true (CBatch l1) = true).
  { cbn [cmd_loud_for] in *. rewrite forallb_app in Hloud. now apply andb_true_iff in Hloud as [H1 _]. }
  destruct (handle_J fx guard_on overlap_on push_on mir o (CBatch l1) 0 sv0 o B) as [HJm Hpom]; auto.
  { left. now rewrite N.eqb_refl. }
  { cbn [Nat.add]. lia. }
  { intros _. split; [exact Hnu|split; [now apply (batch_subs_ok_app_l l1 l2)|]].
    intros ss Hss. assert (ss = ss0) by congruence. subst ss. split; auto. }
  fold svm in HJm, Hpom.
  assert (Im : inv (B + cmd_budget (CBatch l1)) svm) by (now apply handle_inv).
  destruct (handle_track fx (CBatch l1) 0 sv0 o Hpo0) as [_ Htr]; [cbn [Nat.add]; lia|]. fold svm in Htr.
  destruct (Htr o ss0 Hss0) as [ssm [Hssm [Hdirm _]]].
  destruct (tail_fold mir o l2 1 svm (B + cmd_budget (CBatch l1)) ssm Htl HB1 Im Hpom Hssm)
    as [Hpoe [Ie [HVe [Hde [[sse [Hsse [Hdire Hsube]]] _]]]]].
  set (sve := fold_left (fun s' c => push_all (handle fx 1 s' o c)) l2 svm) in *.
  assert (Hset : settled (push_all sve)) by (now apply settled_push_all).
  destruct (get_session_sess sve (push_all sve) o ss1 (same_core_sess _ _ (push_all_core sve)) Hss1) as [sse' [Hsse' [Hsub1 Hdir1]]].
  assert (sse' = sse) by congruence. subst sse'.
  apply (prune_J (B + cmd_budget (CBatch l1)) (B + cmd_budget (CBatch l1)) mir svm (push_all sve) o ssm ss1); auto.
  - eapply inv_same_core; [apply push_all_core|exact Ie].
  - congruence.
  - intros q. now rewrite V_push_all.
  - intros q Hown. destruct (push_all_core sve) as [Ht _]. rewrite Ht. now apply Hde.
  - intros x Hx. apply Hsube. now rewrite Hsub1.
Qed.

(* ------------------------------------------------------------------ unsubscribes at the head of a BATCH of the observer *)

(* at a path, the Messages queued for a session either decide what the client will hold, whatever it holds now, or they
   say nothing about it *)
Lemma apply_all_shape : forall ds q,
  (exists r, forall m, mirror_get (apply_all m ds) q = r) \/ (forall m, mirror_get (apply_all m ds) q = mirror_get m q).
Proof.
  induction ds as [|d ds IH]; intros q; [right; intros m; reflexivity|].
  destruct (IH q) as [[r Hr]|Hf].
  - left. exists r. intros m. unfold apply_all in *. cbn [fold_left]. apply Hr.
  - destruct (di_lookup d q) as [r|] eqn:E.
    + left. exists r. intros m. unfold apply_all in *. cbn [fold_left]. rewrite Hf, apply_di_get, E. reflexivity.
    + right. intros m. unfold apply_all in *. cbn [fold_left]. rewrite Hf, apply_di_get, E. reflexivity.
Qed.

Lemma V_quiet : forall m sv o ss q, quiet sv -> get_session sv o = Some ss -> V m sv o q = Some (mirror_get m q).
Proof.
  intros m sv o ss q Hq Hss. assert (Hin : In ss (sv_sessions sv)) by (apply find_session_some in Hss; tauto).
  destruct (proj2 Hq ss Hin) as [Hnp Hout]. rewrite (V_settled m sv o ss q Hss Hnp), Hout. reflexivity.
Qed.

Lemma subscribe_one_data : forall sv b sf q, data_at (sv_tree (subscribe_one fx sv b sf)) q = data_at (sv_tree sv) q.
Proof.
  intros sv b [sp f] q. unfold subscribe_one. cbn [fst snd].
  destruct (get_session sv b) as [bs|]; [|reflexivity].
  destruct (fix_path sp) as [|c fp'] eqn:Efp; [reflexivity|]. rewrite <- Efp.
  destruct (m_get (s_subs bs) (fix_path sp)) as [e|].
  - cbn [sv_tree upd_session].
    match goal with |- data_at (sv_tree ?X) q = _ => assert (Ht : sv_tree X = sv_tree sv) end.
    { destruct f, (e_flt e); try reflexivity; exact (proj1 (cqf_traversal_core fx _ _ _ _ _ _ _ _ sv)). }
    now rewrite Ht.
  - cbn [sv_tree set_tree upd_session]. apply data_at_mark_gen.
Qed.

(* a session's own commands leave the payloads outside its own nodes alone *)
Lemma handle_data_foreign : forall o c nest sv ss, pend_ok sv -> get_session sv o = Some ss ->
  nest + cmd_depth c <= max_batch_nest ->
  forall q, own_node ss q = false -> data_at (sv_tree (handle fx nest sv o c)) q = data_at (sv_tree sv) q.
Proof.
  intros o. induction c using cmd_ind'; intros nest sv ss Hpo Hss Hdep qp Hown; cbn [handle]; rewrite Hss.
  - destruct (own_set_data_items [] o i sv f (session_dir ss) Hpo) as [_ Hd]; [intros x Hx; congruence|].
    apply Hd. destruct (is_prefix (session_dir ss) qp) eqn:E; auto. apply own_node_of_prefix in E. congruence.
  - pose proof (find_session_some _ _ _ Hss) as [_ Hid].
    destruct (own_do_remove_data fx [] o sv ss k q Hpo Hid) as [_ Hd].
    apply Hd. destruct (is_prefix (session_dir ss) qp) eqn:E; auto. apply own_node_of_prefix in E. congruence.
  - assert (Hf : forall subs sv0, data_at (sv_tree (fold_left (fun sv' sf => subscribe_one fx sv' o sf) subs sv0)) qp = data_at (sv_tree sv0) qp).
    { induction subs as [|sf subs IH]; intros sv0; cbn [fold_left]; [reflexivity|]. rewrite IH. apply subscribe_one_data. }
    destruct q; [apply Hf|]. destruct k as [|sf0 k0]; [reflexivity|].
    destruct (do_get_data_core fx (if fx_push fx then push_all (fold_left (fun sv' sf => subscribe_one fx sv' o sf) (sf0 :: k0) sv)
                                   else fold_left (fun sv' sf => subscribe_one fx sv' o sf) (sf0 :: k0) sv) o (sf0 :: k0)) as [Ht _].
    rewrite Ht. destruct (fx_push fx); [destruct (push_all_core (fold_left (fun sv' sf => subscribe_one fx sv' o sf) (sf0 :: k0) sv)) as [Ht' _]; rewrite Ht'|]; apply Hf.
  - destruct (unsub_fold_V [] k sv o) as [_ Hd]. apply Hd.
  - reflexivity.
  - reflexivity.
  - destruct (do_get_data_core fx sv o k) as [Ht _]. now rewrite Ht.
  - cbn [cmd_depth] in Hdep.
    assert (Hlt : Nat.ltb nest max_batch_nest = true) by (apply Nat.ltb_lt; lia). rewrite Hlt.
    clear Hlt. revert sv ss Hpo Hss Hdep Hown.
    induction H as [|c l Hc Hl IHl]; intros sv ss Hpo Hss Hdep Hown; [reflexivity|].
    destruct (handle_track fx c (S nest) sv o Hpo) as [Hpo1 Htr]; [lia|].
    destruct (Htr o ss Hss) as [ss1 [Hss1 [Hdir1 _]]].
    set (sv1 := push_all (handle fx (S nest) sv o c)).
    destruct (get_session_sess_fwd _ sv1 o ss1 (same_core_sess _ _ (push_all_core _)) Hss1) as [ss2 [Hss2 [_ Hdir2]]].
    rewrite (IHl sv1 ss2); auto.
    + unfold sv1. destruct (push_all_core (handle fx (S nest) sv o c)) as [Ht _]. rewrite Ht. apply (Hc (S nest) sv ss); auto. lia.
    + now apply pend_ok_push_all.
    + lia.
    + rewrite <- Hown. apply own_node_dir. congruence.
Qed.

Lemma batch_depth_app_r : forall l1 l2, cmd_depth (CBatch l2) <= cmd_depth (CBatch (l1 ++ l2)).
Proof.
  intros l1 l2. cbn [cmd_depth]. apply le_n_S. induction l1 as [|c l1 IH]; cbn [app]; [lia|]. lia.
Qed.

Lemma batch_subs_ok_app_r : forall l1 l2, cmd_subs_ok (CBatch (l1 ++ l2)) -> cmd_subs_ok (CBatch l2).
Proof.
  intros l1 l2. cbn [cmd_subs_ok]. induction l1 as [|c l1 IH]; cbn [app]; [auto|]. intros [H1 H2]. now apply IH.
Qed.

Lemma tail_cmd_budget : forall c, tail_cmd c = true -> cmd_budget c = 0.
Proof.
  induction c using cmd_ind'; intros Ht; try discriminate; try reflexivity.
  cbn [tail_cmd cmd_budget] in *. induction H as [|c l Hc Hl IH]; [reflexivity|].
  cbn [forallb] in Ht. apply andb_true_iff in Ht as [H1 H2]. now rewrite (Hc H1), (IH H2).
Qed.

Lemma tail_budget : forall l, forallb tail_cmd l = true -> cmd_budget (CBatch l) = 0.
Proof. intros l H. apply (tail_cmd_budget (CBatch l)). exact H. Qed.

(* pruning with fewer subscriptions what was exact for more *)
Lemma prune_math : forall (S0 S1 : matcher) q d0, wf_groups (m_groups S0) -> wf_groups (m_groups S1) ->
  (forall x, In x (all_entries S1) -> In x (all_entries S0)) ->
  match exp_with S0 q d0 with
  | Some v => if matches_path S1 q (Some v) then Some v else None
  | None => None
  end = exp_with S1 q d0.
Proof.
  intros S0 S1 q d0 H0 H1 Hsub. destruct d0 as [v|]; [|reflexivity]. unfold exp_with.
  destruct (matches_path S0 q (Some v)) eqn:E0; [reflexivity|].
  destruct (matches_path S1 q (Some v)) eqn:E1; auto.
  apply matches_path_spec in E1 as [e [He [Ha Hb]]]; auto.
  assert (matches_path S0 q (Some v) = true); [|congruence].
  apply matches_path_spec; auto. exists e. auto.
Qed.

Lemma V_cleared : forall X sv o ss q, settled sv -> get_session sv o = Some ss ->
  V X (clear_outs sv) o q = Some (mirror_get X q).
Proof.
  intros X sv o ss q Hset Hss. assert (Hin : In ss (sv_sessions sv)) by (apply find_session_some in Hss; tauto).
  unfold V. rewrite get_session_clear, Hss. cbn [option_map]. unfold vm. cbn [clear_out s_out s_pending].
  rewrite (proj2 Hset ss Hin). reflexivity.
Qed.

(* a BATCH of the observer: unsubscribes (and other tail commands) first, then commands without unsubscribe, then tail
   commands again; the client prunes once, after the whole BATCH *)
Lemma batch_general_world_J : forall B mir sv0 o ss0 l0 l1 l2,
  small (B + cmd_budget (CBatch (l0 ++ l1 ++ l2))) -> inv B sv0 -> quiet sv0 ->
  get_session sv0 o = Some ss0 -> mirror_ok mir -> J mir sv0 o ->
  cmd_loud_for true (CBatch (l0 ++ l1 ++ l2)) = true -> cmd_depth (CBatch (l0 ++ l1 ++ l2)) <= max_batch_nest ->
  cmd_subs_ok (CBatch (l0 ++ l1 ++ l2)) ->
  forallb tail_cmd l0 = true -> forallb cmd_nounsub l1 = true -> forallb tail_cmd l2 = true ->
  cmd_covered (fst (client_cmd (s_subs ss0) (CBatch l0))) (CBatch l1) ->
  let sv1 := push_all (handle fx 0 sv0 o (CBatch (l0 ++ l1 ++ l2))) in
  forall ss1, get_session sv1 o = Some ss1 ->
  J (filter (fun pv => matches_path (s_subs ss1) (fst pv) (Some (snd pv))) (apply_all mir (s_out ss1))) (clear_outs sv1) o.
Proof.
  intros B mir sv0 o ss0 l0 l1 l2 HB I Hq Hss0 Hmok HJ Hloud Hdep Hsok Ht0 Hnu Ht2 Hcov sv1 ss1 Hss1.
  pose proof (quiet_settled sv0 Hq) as Hset0. pose proof (quiet_pend_ok sv0 Hset0) as Hpo0.
  assert (Hlt : Nat.ltb 0 max_batch_nest = true) by (apply Nat.ltb_lt; cbn [cmd_depth] in Hdep; lia).
  assert (Hmax : 1 <= max_batch_nest) by (apply Nat.ltb_lt in Hlt; lia).
  unfold sv1 in *. clear sv1.
  rewrite (handle_batch_fold (l0 ++ l1 ++ l2) 0 sv0 o ss0 Hss0 Hlt), !fold_left_app in *.
  set (step := fun (s' : server) (c : cmd) => push_all (handle fx 1 s' o c)) in *.
  set (sva := fold_left step l0 sv0) in *.
  assert (HB0 : small B) by (eapply small_le; [|exact HB]; lia).
  (* ---- the head: tail commands from the quiet state *)
  destruct (tail_fold mir o l0 1 sv0 B ss0 Ht0 HB0 I Hpo0 Hss0) as [Hpoa [Ia [_ [Hda [[ssa [Hssa [Hdira Hsuba]]] Hseta]]]]].
  fold step in Hpoa, Ia, Hda, Hssa, Hseta. fold sva in Hpoa, Ia, Hda, Hssa, Hseta.
  specialize (Hseta Hset0).
  assert (HVa : forall m q, V m sva o q = Some (mirror_get m q)).
  { intros m q. destruct (tail_fold m o l0 1 sv0 B ss0 Ht0 HB0 I Hpo0 Hss0) as [_ [_ [HV _]]].
    fold step in HV. fold sva in HV. rewrite HV. now apply (V_quiet m sv0 o ss0). }
  (* the subscriptions after the head, as the client computes them *)
  assert (Hsa : s_subs ssa = fst (client_cmd (s_subs ss0) (CBatch l0))).
  { destruct (handle_track fx (CBatch l0) 0 sv0 o Hpo0) as [_ Htr]; [cbn [Nat.add]; pose proof (batch_depth_app_l l0 (l1 ++ l2)); lia|].
    rewrite (handle_batch_fold l0 0 sv0 o ss0 Hss0 Hlt) in Htr. fold step in Htr. fold sva in Htr.
    destruct (Htr o ss0 Hss0) as [x [Hx [_ Hy]]]. rewrite N.eqb_refl in Hy. congruence. }
  assert (Hina : In ssa (sv_sessions sva)) by (apply find_session_some in Hssa; tauto).
  destruct (inv_subs _ _ _ Ia ssa Hina) as [[Hwa _] _].
  assert (Hin0 : In ss0 (sv_sessions sv0)) by (apply find_session_some in Hss0; tauto).
  destruct (inv_subs _ _ _ I ss0 Hin0) as [[Hw0 _] _].
  (* ---- the ghost mirror: what the client would hold had it pruned right after the head *)
  set (m := filter (fun pv => matches_path (s_subs ssa) (fst pv) (Some (snd pv))) mir).
  assert (Hmokm : mirror_ok m) by (now apply filter_ok_mirror).
  assert (Hm0 : forall q, own_node ss0 q = false -> mirror_get mir q = expected (sv_tree sv0) ss0 q).
  { intros q Hown. pose proof (HJ ss0 Hss0 q Hown) as H. rewrite (V_quiet mir sv0 o ss0 q Hq Hss0) in H. now inversion H. }
  assert (HJa : J m sva o).
  { intros ss Hss q Hown. assert (ss = ssa) by congruence. subst ss.
    assert (Hown0 : own_node ss0 q = false) by (rewrite <- Hown; apply own_node_dir; congruence).
    rewrite HVa. f_equal. unfold m. rewrite mirror_get_filter by exact Hmok. cbn [fst snd].
    rewrite (Hm0 q Hown0), !expected_exp_with.
    fold (data_at (sv_tree sv0) q). fold (data_at (sv_tree sva) q). rewrite (Hda q Hown0).
    now apply prune_math. }
  (* ---- the middle: commands without unsubscribe, with the ghost mirror *)
  assert (Hb3 : cmd_budget (CBatch (l0 ++ l1 ++ l2)) = cmd_budget (CBatch l1)).
  { rewrite !batch_budget_app, (tail_budget l0 Ht0), (tail_budget l2 Ht2). lia. }
  assert (HB1 : small (B + cmd_budget (CBatch l1))) by (now rewrite <- Hb3).
  assert (Hd1 : cmd_depth (CBatch l1) <= max_batch_nest).
  { pose proof (batch_depth_app_r l0 (l1 ++ l2)). pose proof (batch_depth_app_l l1 l2). lia. }
  assert (Hl1 : cmd_loud_for true (CBatch l1) = true).
  { cbn [cmd_loud_for] in *. rewrite !forallb_app in Hloud. apply andb_true_iff in Hloud as [_ H1].
    now apply andb_true_iff in H1 as [H1 _]. }
  assert (Hs1 : cmd_subs_ok (CBatch l1)).
  { apply (batch_subs_ok_app_l l1 l2). now apply (batch_subs_ok_app_r l0 (l1 ++ l2)). }
  set (svb := fold_left step l1 sva) in *.
  assert (Esvb : svb = handle fx 0 sva o (CBatch l1)) by (now rewrite (handle_batch_fold l1 0 sva o ssa Hssa Hlt)).
  destruct (handle_J fx guard_on overlap_on push_on m o (CBatch l1) 0 sva o B) as [HJb Hpob]; auto.
  { left. now rewrite N.eqb_refl. }
  { intros _. split; [exact Hnu|split; [exact Hs1|]].
    intros ss Hss. assert (ss = ssa) by congruence. subst ss. split; [apply (proj2 Hseta ssa Hina)|now rewrite Hsa]. }
  rewrite <- Esvb in HJb, Hpob.
  assert (Ib : inv (B + cmd_budget (CBatch l1)) svb) by (rewrite Esvb; now apply handle_inv).
  destruct (handle_track fx (CBatch l1) 0 sva o Hpoa) as [_ Htrb]; [cbn [Nat.add]; exact Hd1|]. rewrite <- Esvb in Htrb.
  destruct (Htrb o ssa Hssa) as [ssb [Hssb [Hdirb _]]].
  assert (Hdb : forall q, own_node ssa q = false -> data_at (sv_tree svb) q = data_at (sv_tree sva) q).
  { intros q Hown. rewrite Esvb. apply (handle_data_foreign o (CBatch l1) 0 sva ssa); auto. }
  (* ---- the tail *)
  destruct (tail_fold m o l2 1 svb (B + cmd_budget (CBatch l1)) ssb Ht2 HB1 Ib Hpob Hssb)
    as [Hpoe [Ie [HVe [Hde [[sse [Hsse [Hdire Hsube]]] _]]]]].
  fold step in Hpoe, Ie, HVe, Hde, Hsse. set (sve := fold_left step l2 svb) in *.
  assert (Hset1 : settled (push_all sve)) by (now apply settled_push_all).
  destruct (get_session_sess sve (push_all sve) o ss1 (same_core_sess _ _ (push_all_core sve)) Hss1) as [sse' [Hsse' [Hsub1 Hdir1]]].
  assert (sse' = sse) by congruence. subst sse'.
  assert (I1 : inv (B + cmd_budget (CBatch l1)) (push_all sve)) by (eapply inv_same_core; [apply push_all_core|exact Ie]).
  (* the ghost client is exact after its final pruning *)
  assert (Hghost : J (filter (fun pv => matches_path (s_subs ss1) (fst pv) (Some (snd pv))) (apply_all m (s_out ss1)))
                     (clear_outs (push_all sve)) o).
  { apply (prune_J (B + cmd_budget (CBatch l1)) (B + cmd_budget (CBatch l1)) m svb (push_all sve) o ssb ss1); auto.
    - congruence.
    - intros q. now rewrite V_push_all.
    - intros q Hown. destruct (push_all_core sve) as [Ht _]. rewrite Ht. now apply Hde.
    - intros x Hx. apply Hsube. now rewrite Hsub1. }
  (* ---- the real client holds the same, path by path *)
  assert (Hin1 : In ss1 (sv_sessions (push_all sve))) by (apply find_session_some in Hss1; tauto).
  destruct (inv_subs _ _ _ I1 ss1 Hin1) as [[Hw1 _] _].
  intros ss' Hss' q Hown.
  pose proof (Hghost ss' Hss' q Hown) as Hg.
  rewrite (V_cleared (filter (fun pv => matches_path (s_subs ss1) (fst pv) (Some (snd pv))) (apply_all m (s_out ss1)))
             (push_all sve) o ss1 q Hset1 Hss1) in Hg.
  rewrite (V_cleared (filter (fun pv => matches_path (s_subs ss1) (fst pv) (Some (snd pv))) (apply_all mir (s_out ss1)))
             (push_all sve) o ss1 q Hset1 Hss1).
  rewrite <- Hg. f_equal.
  rewrite get_session_clear, Hss1 in Hss'. cbn in Hss'. inversion Hss'; subst ss'. clear Hss'.
  rewrite !mirror_get_filter by (now apply apply_all_ok). cbn [fst snd].
  destruct (apply_all_shape (s_out ss1) q) as [[r Hr]|Hf]; [now rewrite !Hr|].
  rewrite !Hf. unfold m at 1. rewrite mirror_get_filter by exact Hmok. cbn [fst snd].
  destruct (mirror_get mir q) as [v|] eqn:Emq; [|reflexivity].
  destruct (matches_path (s_subs ssa) q (Some v)) eqn:Ea; [reflexivity|].
  (* held since before the BATCH, dropped by the head's unsubscribe: its payload is still the node's, and the final
     subscriptions do not select it, or the ghost would hold it *)
  assert (Hown1 : own_node ss1 q = false).
  { rewrite <- Hown. apply own_node_dir. unfold session_dir. reflexivity. }
  assert (Hownb : own_node ssb q = false) by (rewrite <- Hown1; apply own_node_dir; congruence).
  assert (Howna : own_node ssa q = false) by (rewrite <- Hownb; apply own_node_dir; congruence).
  assert (Hown0 : own_node ss0 q = false) by (rewrite <- Howna; apply own_node_dir; congruence).
  assert (Hd0 : data_at (sv_tree sv0) q = Some v).
  { pose proof (Hm0 q Hown0) as H. rewrite Emq, expected_exp_with in H. fold (data_at (sv_tree sv0) q) in H.
    destruct (data_at (sv_tree sv0) q) as [v'|]; [|discriminate]. unfold exp_with in H.
    destruct (matches_path (s_subs ss0) q (Some v')); congruence. }
  assert (Hd1' : data_at (sv_tree (push_all sve)) q = Some v).
  { destruct (push_all_core sve) as [Ht _]. rewrite Ht, (Hde q Hownb), (Hdb q Howna), (Hda q Hown0). exact Hd0. }
  (* the ghost holds nothing at q *)
  rewrite !mirror_get_filter in Hg by (now apply apply_all_ok). cbn [fst snd] in Hg. rewrite Hf in Hg.
  unfold m in Hg at 1. rewrite mirror_get_filter in Hg by exact Hmok. cbn [fst snd] in Hg. rewrite Emq, Ea in Hg.
  rewrite expected_exp_with in Hg. cbn [clear_outs sv_tree clear_out s_subs] in Hg.
  fold (data_at (sv_tree (push_all sve)) q) in Hg. rewrite Hd1' in Hg. unfold exp_with in Hg.
  destruct (matches_path (s_subs ss1) q (Some v)); [inversion Hg|reflexivity].
Qed.

(* ------------------------------------------------------------------ the world invariant *)

Record winv (B : nat) (w : world) : Prop := mkW {
  wi_inv : inv B (w_srv w);
  wi_quiet : quiet (w_srv w);
  wi_has : forall c, In c (w_clients w) -> exists ss, get_session (w_srv w) (c_id c) = Some ss /\ c_subs c = s_subs ss;
  wi_mok : forall c, In c (w_clients w) -> mirror_ok (c_mirror c)
}.

(* the observer's client(s) satisfy J *)
Definition wJ (w : world) (o : sid) : Prop :=
  forall c, In c (w_clients w) -> c_id c = o -> J (c_mirror c) (w_srv w) o.

Lemma clear_outs_core : forall sv, same_core sv (clear_outs sv).
Proof.
  intros sv. split; [reflexivity|]. cbn [sv_sessions clear_outs]. rewrite map_map. apply map_ext. intros x. reflexivity.
Qed.

(* the common last part of a world step: deliver, then forget what was delivered *)
Lemma finish_winv : forall B sv1 (cl0 : list client) last,
  inv B sv1 -> settled sv1 ->
  (forall c, In c cl0 -> mirror_ok (c_mirror c)) ->
  (forall c, In c cl0 -> exists ss, get_session sv1 (c_id c) = Some ss /\ c_subs c = s_subs ss) ->
  winv B (mkWorld (clear_outs sv1) (map (deliver sv1) cl0) last).
Proof.
  intros B sv1 cl0 last I Hset Hmok Hhas. constructor; cbn [w_srv w_clients].
  - eapply inv_same_core; [apply clear_outs_core|exact I].
  - now apply quiet_clear_outs.
  - intros c' Hc'. apply in_map_iff in Hc' as [c [Hc1 Hc2]]. subst c'.
    destruct (Hhas c Hc2) as [ss [Hss Hsub]]. unfold deliver. rewrite Hss. cbn [c_id c_subs].
    exists (clear_out ss). rewrite get_session_clear, Hss. split; [reflexivity|exact Hsub].
  - intros c' Hc'. apply in_map_iff in Hc' as [c [Hc1 Hc2]]. subst c'. unfold deliver.
    destruct (get_session sv1 (c_id c)); cbn [c_mirror]; [apply apply_all_ok|]; now apply Hmok.
Qed.

Lemma finish_wJ : forall sv1 (cl0 : list client) last o,
  settled sv1 ->
  (forall c, In c cl0 -> c_id c = o -> (exists ss, get_session sv1 o = Some ss) /\ J (c_mirror c) sv1 o) ->
  wJ (mkWorld (clear_outs sv1) (map (deliver sv1) cl0) last) o.
Proof.
  intros sv1 cl0 last o Hset HJ c' Hc' Hid. cbn [w_srv w_clients] in *. apply in_map_iff in Hc' as [c [Hc1 Hc2]]. subst c'.
  assert (Hidc : c_id c = o) by (unfold deliver in Hid; destruct (get_session sv1 (c_id c)); exact Hid).
  destruct (HJ c Hc2 Hidc) as [[ss Hss] HJc]. unfold deliver. rewrite Hidc, Hss. cbn [c_mirror].
  now apply deliver_J.
Qed.

(* ------------------------------------------------------------------ one event *)

(* what may be quiet in the state [w]: cmd_loud_for (everything that changes the tree is announced; the observer's own
   SUBSCRIBE: asks for its initial values) -- or anything at all, from a session other than the observer below whose session
   node none of the observer's subscription paths reaches (quiet_frame); and the server's BATCH nesting limit *)
Definition ev_ok (o : sid) (w : world) (ev : event) : Prop :=
  match ev with
  | ECmd b c =>
    (cmd_loud_for (N.eqb b o) c = true \/
     (b <> o /\ forall so sb, get_session (w_srv w) o = Some so -> get_session (w_srv w) b = Some sb ->
                              hidden_data (all_entries (s_subs so)) (session_dir sb)))
    /\ cmd_depth c <= max_batch_nest
  | _ => True
  end.

(* what the observer itself may send in the state [w]: well-formed SUBSCRIBE: field lists, and
   - a command without unsubscribe whose explicit GETDATA keys are subscriptions it holds at that moment, or
   - an unsubscribe as a Message of its own, or
   - a BATCH with an unsubscribe of the shape  head ++ middle ++ tail : head and tail hold unsubscribes (and own SETDATA /
     REMOVEDATA / max-items changes) only, the middle no unsubscribe (its GETDATA keys are subscriptions held after the
     head).  So "unsubscribe the old, subscribe the new" and "subscribe the new, unsubscribe the old" are both fine; what is
     left out is a SUBSCRIBE: / GETDATA between two unsubscribes of one BATCH *)
Definition ev_clean (o : sid) (w : world) (ev : event) : Prop :=
  match ev with
  | ECmd b c => b = o -> cmd_subs_ok c /\
                ((cmd_nounsub c = true /\ forall ss, get_session (w_srv w) o = Some ss -> cmd_covered (s_subs ss) c)
                 \/ (exists subs, c = CUnsubscribe subs)
                 \/ (exists l0 l1 l2, c = CBatch (l0 ++ l1 ++ l2) /\ snd (client_cmd empty_matcher c) = true /\
                        forallb tail_cmd l0 = true /\ forallb cmd_nounsub l1 = true /\ forallb tail_cmd l2 = true /\
                        forall ss, get_session (w_srv w) o = Some ss ->
                                   cmd_covered (fst (client_cmd (s_subs ss) (CBatch l0))) (CBatch l1)))
  | _ => True
  end.

Lemma nounsub_no_unsub : forall c m, cmd_nounsub c = true -> snd (client_cmd m c) = false.
Proof.
  induction c using cmd_ind'; intros m Hp; cbn [client_cmd cmd_nounsub snd] in *; auto; try discriminate.
  (* BATCH *)
  assert (Hg : forall l0 acc, Forall (fun c => forall m, cmd_nounsub c = true -> snd (client_cmd m c) = false) l0 ->
            forallb cmd_nounsub l0 = true ->
            snd ((fix go (l : list cmd) (acc : matcher * bool) : matcher * bool :=
                    match l with
                    | [] => acc
                    | c' :: r => let '(m1, u1) := client_cmd (fst acc) c' in go r (m1, snd acc || u1)
                    end) l0 acc) = snd acc).
  { induction l0 as [|c l0 IH]; intros acc HF Hpl; auto.
    inversion HF as [|? ? Hc HF']; subst. cbn [forallb] in Hpl. apply andb_true_iff in Hpl as [Hp1 Hp2].
    pose proof (Hc (fst acc) Hp1) as Hs. destruct (client_cmd (fst acc) c) as [m1 u1]. cbn [snd] in Hs. subst u1.
    rewrite IH; auto. cbn [snd]. apply orb_false_r. }
  rewrite Hg; auto.
Qed.

Lemma deliver_id : forall sv (c : client), c_id (deliver sv c) = c_id c.
Proof. intros sv c. unfold deliver. destruct (get_session sv (c_id c)); reflexivity. Qed.

Lemma detach_sessions_fwd : forall sv s o ss, settled sv -> o <> s -> get_session sv o = Some ss ->
  exists ss', get_session (detach fx sv s) o = Some ss' /\ s_subs ss' = s_subs ss.
Proof.
  intros sv s o ss Hq Hne Hss. pose proof (quiet_pend_ok sv Hq) as Hpo. unfold detach.
  destruct (get_session sv s) as [sd|] eqn:Hsd; [|eauto].
  unfold get_session. cbn [sv_sessions]. rewrite find_session_filter by congruence.
  match goal with |- exists ss', find_session (sv_sessions ?X) o = _ /\ _ => set (sv3 := X) end.
  assert (Hs3 : same_sess sv sv3).
  { unfold sv3. destruct (has_node (sv_tree sv) [s_host sd]); [|reflexivity].
    set (sv1 := if has_node (sv_tree sv) (session_dir sd) then remove_subtree sv s (session_dir sd) true else sv).
    assert (H1 : pend_ok sv1 /\ same_sess sv sv1).
    { unfold sv1. destruct (has_node (sv_tree sv) (session_dir sd)); [now apply remove_subtree_frame|split; [auto|reflexivity]]. }
    destruct H1 as [Hpo1 Hs1].
    eapply same_sess_trans; [|apply same_core_sess, push_all_core].
    destruct (has_children (sv_tree sv1) [s_host sd]); auto.
    destruct (remove_subtree_frame sv1 s [s_host sd] true Hpo1) as [_ H2]. eapply same_sess_trans; eauto. }
  destruct (get_session_sess_fwd sv sv3 o ss Hs3 Hss) as [ss' [H1 [H2 _]]]. eauto.
Qed.


Lemma quiet_out : forall sv ss, quiet sv -> In ss (sv_sessions sv) -> s_out ss = [].
Proof. intros sv ss [_ H] Hin. now destruct (H ss Hin). Qed.

Lemma world_attach : forall B w s host nm o, small B -> winv B w -> wJ w o ->
  wf_event (w_srv w) (EAttach s host nm) ->
  winv B (world_step fx w (EAttach s host nm)) /\ wJ (world_step fx w (EAttach s host nm)) o.
Proof.
  intros B w s host nm o HB [I Hq Hhas Hmok] HJ Hwf. cbn [wf_event] in Hwf.
  pose proof (quiet_settled _ Hq) as Hset0. pose proof (quiet_pend_ok _ Hset0) as Hpo0.
  unfold world_step. cbn [step].
  destruct (get_session (w_srv w) s) as [sx|] eqn:Hs.
  - (* the id is taken: nothing happens *)
    split.
    + apply finish_winv; auto.
    + apply finish_wJ; auto. intros c Hc Hid. split; [|now apply HJ].
      destruct (Hhas c Hc) as [ss [Hss _]]. rewrite Hid in Hss. eauto.
  - set (ssn := mkSession s host nm empty_matcher default_max_items None []).
    set (sv0 := mkServer (sv_tree (w_srv w)) (sv_sessions (w_srv w) ++ [ssn]) (sv_dirty (w_srv w))).
    pose proof (attach_sessions (w_srv w) s host nm) as Hsess. fold ssn in Hsess. fold sv0 in Hsess. cbv zeta in Hsess.
    assert (Hold : forall o' ss, get_session (w_srv w) o' = Some ss ->
              exists ss', get_session (attach (w_srv w) s host nm) o' = Some ss' /\ s_subs ss' = s_subs ss).
    { intros o' ss Hss. assert (H0 : get_session sv0 o' = Some ss).
      { unfold get_session in *. cbn [sv_sessions sv0]. now rewrite find_session_app, Hss. }
      destruct (get_session_sess_fwd sv0 _ o' ss Hsess H0) as [ss' [H1 [H2 _]]]. eauto. }
    assert (Hnew : exists ss', get_session (attach (w_srv w) s host nm) s = Some ss' /\ s_subs ss' = empty_matcher).
    { assert (H0 : get_session sv0 s = Some ssn).
      { unfold get_session in *. cbn [sv_sessions sv0]. rewrite find_session_app, Hs. cbn [s_id ssn]. now rewrite N.eqb_refl. }
      destruct (get_session_sess_fwd sv0 _ s ssn Hsess H0) as [ss' [H1 [H2 _]]]. eauto. }
    split.
    + apply finish_winv.
      * now apply attach_inv.
      * now apply settled_attach.
      * intros c Hc. apply in_app_or in Hc as [Hc|[Hc|[]]]; [now apply Hmok|subst c; constructor].
      * intros c Hc. apply in_app_or in Hc as [Hc|[Hc|[]]].
        -- destruct (Hhas c Hc) as [ss [Hss Hsub]]. destruct (Hold _ ss Hss) as [ss' [H1 H2]]. exists ss'. split; [auto|congruence].
        -- subst c. cbn [c_id c_subs]. destruct Hnew as [ss' [H1 H2]]. exists ss'. split; [auto|congruence].
    + apply finish_wJ; [now apply settled_attach|].
      intros c Hc Hid. apply in_app_or in Hc as [Hc|[Hc|[]]].
      * destruct (Hhas c Hc) as [ss [Hss _]]. rewrite Hid in Hss.
        assert (Hne : o <> s) by (intros E; subst o; congruence).
        split; [destruct (Hold o ss Hss) as [ss' [H1 _]]; eauto|].
        apply (attach_J (c_mirror c) B); auto.
      * subst c. cbn [c_id c_mirror] in *. subst o. split; [destruct Hnew as [ss' [H1 _]]; eauto|].
        now apply attach_J_new.
Qed.

Lemma filter_deliver : forall sv s (l : list client),
  filter (fun x => negb (N.eqb (c_id x) s)) (map (deliver sv) l)
  = map (deliver sv) (filter (fun x => negb (N.eqb (c_id x) s)) l).
Proof.
  intros sv s. induction l as [|c l IH]; cbn [map filter]; auto. rewrite deliver_id.
  destruct (negb (N.eqb (c_id c) s)); cbn [map]; now rewrite IH.
Qed.

Lemma world_detach : forall B w s o, small B -> winv B w -> wJ w o ->
  winv B (world_step fx w (EDetach s)) /\ wJ (world_step fx w (EDetach s)) o.
Proof.
  intros B w s o HB [I Hq Hhas Hmok] HJ.
  pose proof (quiet_settled _ Hq) as Hset0. pose proof (quiet_pend_ok _ Hset0) as Hpo0.
  unfold world_step. cbn [step].
  set (sv1 := detach fx (w_srv w) s).
  rewrite filter_deliver. split.
  - apply finish_winv.
    + now apply (detach_inv fx guard_on).
    + now apply settled_detach.
    + intros c Hc. apply filter_In in Hc as [Hc _]. now apply Hmok.
    + intros c Hc. apply filter_In in Hc as [Hc Hne]. apply negb_true_iff, N.eqb_neq in Hne.
      destruct (Hhas c Hc) as [ss [Hss Hsub]].
      destruct (detach_sessions_fwd (w_srv w) s (c_id c) ss Hset0 Hne Hss) as [ss' [H1 H2]].
      exists ss'. split; [auto|congruence].
  - apply finish_wJ; [now apply settled_detach|].
    intros c Hc Hid. apply filter_In in Hc as [Hc Hne]. apply negb_true_iff, N.eqb_neq in Hne. rewrite Hid in Hne.
    destruct (Hhas c Hc) as [ss [Hss _]]. rewrite Hid in Hss.
    split; [destruct (detach_sessions_fwd (w_srv w) s o ss Hset0 Hne Hss) as [ss' [H1 _]]; eauto|].
    apply (detach_J fx (c_mirror c) B); auto.
Qed.


Lemma snd_client_unsub : forall m subs, snd (client_cmd m (CUnsubscribe subs)) = true.
Proof. reflexivity. Qed.

Lemma world_cmd : forall B w b c0 o, small (B + cmd_budget c0) -> winv B w -> wJ w o ->
  ev_ok o w (ECmd b c0) -> ev_clean o w (ECmd b c0) ->
  winv (B + cmd_budget c0) (world_step fx w (ECmd b c0)) /\ wJ (world_step fx w (ECmd b c0)) o.
Proof.
  intros B w b c0 o HB [I Hq Hhas Hmok] HJ [Hloud Hdepth] Hclean. cbn [ev_clean] in Hclean.
  pose proof (quiet_settled _ Hq) as Hset0. pose proof (quiet_pend_ok _ Hset0) as Hpo0.
  unfold world_step. cbn [step].
  destruct (get_session (w_srv w) b) as [bs|] eqn:Hb.
  2:{ split.
      - apply finish_winv; auto. apply (inv_weaken B); auto. lia.
      - apply finish_wJ; auto. intros c Hc Hid. split; [|now apply HJ].
        destruct (Hhas c Hc) as [ss [Hss _]]. rewrite Hid in Hss. eauto. }
  set (hd := handle fx 0 (w_srv w) b c0).
  destruct (handle_track fx c0 0 (w_srv w) b Hpo0) as [Hpoh Htr]; [cbn [Nat.add]; exact Hdepth|]. fold hd in Hpoh, Htr.
  set (sv1 := push_all hd).
  assert (I1 : inv (B + cmd_budget c0) sv1).
  { eapply inv_same_core; [apply push_all_core|]. now apply handle_inv. }
  assert (Hset1 : settled sv1) by (now apply settled_push_all).
  set (upd := fun x : client => if N.eqb (c_id x) b then mkClient (c_id x) (c_mirror x) (fst (client_cmd (c_subs x) c0)) else x).
  assert (Hupd_id : forall x, c_id (upd x) = c_id x) by (intros x; unfold upd; destruct (N.eqb (c_id x) b); reflexivity).
  assert (Hupd_mir : forall x, c_mirror (upd x) = c_mirror x) by (intros x; unfold upd; destruct (N.eqb (c_id x) b); reflexivity).
  (* every client's record of its subscriptions is still the server's *)
  assert (Hhas1 : forall c, In c (w_clients w) ->
            exists ss1, get_session sv1 (c_id c) = Some ss1 /\ c_subs (upd c) = s_subs ss1).
  { intros c Hc. destruct (Hhas c Hc) as [ss [Hss Hsub]].
    destruct (Htr (c_id c) ss Hss) as [ssh [Hssh [_ Hsubh]]].
    destruct (get_session_sess_fwd hd sv1 (c_id c) ssh (same_core_sess _ _ (push_all_core hd)) Hssh) as [ss1 [Hss1 [Hsub1 _]]].
    exists ss1. split; [auto|]. rewrite Hsub1, Hsubh. unfold upd. rewrite (N.eqb_sym b (c_id c)).
    destruct (N.eqb (c_id c) b); cbn [c_subs]; congruence. }
  assert (HW1 : winv (B + cmd_budget c0)
                  (mkWorld (clear_outs sv1) (map (deliver sv1) (map upd (w_clients w)))
                           (map (fun ss => (s_id ss, s_out ss)) (sv_sessions sv1)))).
  { apply finish_winv; auto.
    - intros c' Hc'. apply in_map_iff in Hc' as [c [H1 H2]]. subst c'. rewrite Hupd_mir. now apply Hmok.
    - intros c' Hc'. apply in_map_iff in Hc' as [c [H1 H2]]. subst c'. rewrite Hupd_id. now apply Hhas1. }
  (* J for the observer's clients, before any pruning, whenever the command is not the observer's unsubscribe *)
  assert (HJ1 : (b = o -> cmd_nounsub c0 = true /\ forall ss, get_session (w_srv w) o = Some ss -> cmd_covered (s_subs ss) c0) ->
            forall c, In c (w_clients w) -> c_id c = o ->
            (exists ss, get_session sv1 o = Some ss) /\ J (c_mirror c) sv1 o).
  { intros Hpl c Hc Hid. destruct (Hhas1 c Hc) as [ss1 [Hss1 _]]. rewrite Hid in Hss1. split; [eauto|].
    apply J_push_all. apply (handle_J fx guard_on overlap_on push_on (c_mirror c) o c0 0 (w_srv w) b B); auto.
    { destruct Hloud as [Hl|[Hne Hh]]; [now left|right]. split; [auto|].
      destruct (Hhas c Hc) as [so [Hso _]]. rewrite Hid in Hso. exists so, bs. split; [auto|split; [auto|]]. now apply Hh. }
    intros E. destruct (Hclean E) as [Hs _]. destruct (Hpl E) as [Hp1 Hp2]. split; [auto|split; [auto|]].
    intros ss Hss. split; [|now apply Hp2].
    destruct Hq as [_ Hq2]. apply (Hq2 ss). apply find_session_some in Hss. tauto. }
  destruct (snd (client_cmd empty_matcher c0)) eqn:Hflag.
  - (* some unsubscribe in the command: its sender prunes *)
    set (pr := fun x : client => if N.eqb (c_id x) b then prune x else x).
    assert (Hpr_id : forall x, c_id (pr x) = c_id x) by (intros x; unfold pr; destruct (N.eqb (c_id x) b); reflexivity).
    split.
    + destruct HW1 as [W1 W2 W3 W4]. constructor; cbn [w_srv w_clients] in *; auto.
      * intros c' Hc'. apply in_map_iff in Hc' as [c [H1 H2]]. subst c'. rewrite Hpr_id.
        destruct (W3 c H2) as [ss [Hss Hsub]]. exists ss. split; auto.
        unfold pr. destruct (N.eqb (c_id c) b); auto.
      * intros c' Hc'. apply in_map_iff in Hc' as [c [H1 H2]]. subst c'. unfold pr.
        destruct (N.eqb (c_id c) b); [|now apply W4]. unfold prune. cbn [c_mirror]. apply filter_ok_mirror. now apply W4.
    + intros c'' Hc'' Hid. cbn [w_srv w_clients] in *.
      apply in_map_iff in Hc'' as [c' [H1 H2]]. subst c''. rewrite Hpr_id in Hid.
      apply in_map_iff in H2 as [cu [H3 H4]]. subst c'. rewrite deliver_id in Hid.
      apply in_map_iff in H4 as [c [H5 H6]]. subst cu. rewrite Hupd_id in Hid.
      unfold pr. rewrite deliver_id, Hupd_id.
      destruct (N.eqb (c_id c) b) eqn:Eb.
      * (* the observer's own command: it must be its unsubscribe *)
        apply N.eqb_eq in Eb. assert (Ebo : b = o) by congruence.
        destruct (Hclean Ebo) as [Hsok [Hpl|[[subs Hun]|[l0 [l1 [l2 [Hun [_ [Ht0 [Hnu [Htl Hcov]]]]]]]]]]].
        { rewrite (nounsub_no_unsub c0 empty_matcher (proj1 Hpl)) in Hflag. discriminate. }
        { subst c0. destruct (Hhas1 c H6) as [ss1 [Hss1 Hsub1]].
          destruct (Hhas c H6) as [ss0 [Hss0 Hsub0]].
          unfold prune, deliver. rewrite Hupd_id, Hss1. cbn [c_mirror c_subs c_id]. rewrite Hupd_mir, Hsub1.
          rewrite Hid in Hss0, Hss1. unfold sv1, hd in *. rewrite Ebo in *.
          apply (unsub_world_J B (c_mirror c) (w_srv w) o ss0 subs); auto;
            try (cbn [cmd_budget] in HB; rewrite Nat.add_0_r in HB; exact HB); try (apply HJ; auto). }
        subst c0. destruct (Hhas1 c H6) as [ss1 [Hss1 Hsub1]].
        destruct (Hhas c H6) as [ss0 [Hss0 Hsub0]].
        unfold prune, deliver. rewrite Hupd_id, Hss1. cbn [c_mirror c_subs c_id]. rewrite Hupd_mir, Hsub1.
        rewrite Hid in Hss0, Hss1. unfold sv1, hd in *. rewrite Ebo in *.
        apply (batch_general_world_J B (c_mirror c) (w_srv w) o ss0 l0 l1 l2); auto; try (apply HJ; auto).
        destruct Hloud as [Hl|[Hne _]]; [|congruence]. now rewrite N.eqb_refl in Hl.
      * (* somebody else's client is pruned, not this one *)
        apply N.eqb_neq in Eb.
        assert (Hne : b = o -> cmd_nounsub c0 = true /\ forall ss, get_session (w_srv w) o = Some ss -> cmd_covered (s_subs ss) c0) by (intros E; congruence).
        destruct (HJ1 Hne c H6 Hid) as [[ss Hss] HJc].
        unfold deliver. rewrite Hupd_id, Hid, Hss. cbn [c_mirror]. rewrite Hupd_mir. now apply deliver_J.
  - split; [exact HW1|].
    apply finish_wJ; auto. intros c' Hc' Hid. apply in_map_iff in Hc' as [c [H1 H2]]. subst c'.
    rewrite Hupd_id in Hid. rewrite Hupd_mir. apply HJ1; auto.
    intros E. destruct (Hclean E) as [_ [Hpl|[[subs Hun]|[l0 [l1 [l2 [Hun [Hfl _]]]]]]]]; auto.
    + subst c0. cbn in Hflag. discriminate.
    + congruence.
Qed.


(* ------------------------------------------------------------------ histories *)

Lemma world_step_ok : forall B w ev o, small (B + ev_budget ev) -> winv B w -> wJ w o ->
  wf_event (w_srv w) ev -> ev_ok o w ev -> ev_clean o w ev ->
  winv (B + ev_budget ev) (world_step fx w ev) /\ wJ (world_step fx w ev) o.
Proof.
  intros B w [s host nm|s|b c] o HB HW HJ Hwf Hok Hcl; cbn [ev_budget] in *; try rewrite Nat.add_0_r in *.
  - now apply world_attach.
  - now apply world_detach.
  - now apply world_cmd.
Qed.

(* the history condition of refcount_inv, read along the world's run (delivery does not touch what it looks at) *)
Fixpoint wf_wrun (w : world) (evs : list event) : Prop :=
  match evs with
  | [] => True
  | ev :: r => wf_event (w_srv w) ev /\ wf_wrun (world_step fx w ev) r
  end.

(* the conditions on quiet flags (ev_ok) and on the observer's own commands (ev_clean), read along the run *)
Fixpoint ok_wrun (o : sid) (w : world) (evs : list event) : Prop :=
  match evs with
  | [] => True
  | ev :: r => ev_ok o w ev /\ ev_clean o w ev /\ ok_wrun o (world_step fx w ev) r
  end.

Theorem world_run_ok : forall evs B w o, small (B + run_budget evs) -> winv B w -> wJ w o ->
  wf_wrun w evs -> ok_wrun o w evs ->
  winv (B + run_budget evs) (world_run fx evs w) /\ wJ (world_run fx evs w) o.
Proof.
  induction evs as [|ev evs IH]; intros B w o HB HW HJ Hwf Hok; cbn [world_run fold_left run_budget] in *.
  - rewrite Nat.add_0_r. auto.
  - destruct Hwf as [Hw1 Hw2]. destruct Hok as [Hok1 [Hcl1 Hok2]].
    destruct (world_step_ok B w ev o) as [HW1 HJ1]; auto.
    { eapply small_le; [|exact HB]. lia. }
    rewrite Nat.add_assoc. apply IH; auto. now rewrite <- Nat.add_assoc.
Qed.

Lemma empty_winv : winv 0 empty_world.
Proof.
  constructor; cbn.
  - apply empty_inv.
  - split; [reflexivity|intros ss []].
  - intros c [].
  - intros c [].
Qed.

(* mirror_converges_partial.  For every finite history of loud commands (no quiet flag anywhere, batches nested less than
   the server's limit) by any number of sessions that come and go, and every session o that sends no explicit GETDATA,
   batches no unsubscribe, and whose SUBSCRIBE: field lists are well formed: at the quiescent point after the history the
   client of o holds, at every path that is not in its own subtree, exactly what its subscriptions (paths and filters)
   select of the true tree -- the node's current payload if some subscription accepts it, nothing otherwise. *)
Theorem mirror_converges_partial : forall evs o,
  wf_wrun empty_world evs -> ok_wrun o empty_world evs -> small (run_budget evs) ->
  forall c ss, In c (w_clients (world_run fx evs empty_world)) -> c_id c = o ->
  get_session (w_srv (world_run fx evs empty_world)) o = Some ss ->
  forall q, own_node ss q = false ->
  mirror_get (c_mirror c) q = expected (sv_tree (w_srv (world_run fx evs empty_world))) ss q.
Proof.
  intros evs o Hwf Hok Hsm c ss Hc Hid Hss q Hown.
  destruct (world_run_ok evs 0 empty_world o Hsm empty_winv) as [HW HJ]; auto.
  { intros c0 []. }
  cbn [Nat.add] in HW. destruct HW as [_ Hq _ _].
  pose proof (HJ c Hc Hid ss Hss q Hown) as H.
  assert (Hin : In ss (sv_sessions (w_srv (world_run fx evs empty_world)))) by (apply find_session_some in Hss; tauto).
  destruct (proj2 Hq ss Hin) as [Hnp Hout].
  rewrite (V_settled (c_mirror c) _ o ss q Hss Hnp), Hout in H. cbn [apply_all fold_left] in H. now inversion H.
Qed.

End WorldProofs.
