(* Refl/DispatchProofs.v -- C07: the dispatch is a function of the what-code alone; every case label lies in the command
   range, is distinct from the others and reaches its handler; every what-code of the range lands in a handler whose
   loops are modelled, except three named commands.  All side conditions are computed on the regenerated constants. *)
From Coq Require Import List NArith Bool Arith Lia.
From Muscle Require Import Gen.Consts Refl.Dispatch.
Import ListNotations.
Local Open Scope N_scope.

Lemma case_labels_distinct : NoDup (map fst case_labels).
Proof.
  unfold case_labels. cbn [map fst].
  repeat (constructor; [cbn [In]; intros H; repeat (destruct H as [H|H]; [vm_compute in H; discriminate|]); exact H|]).
  constructor.
Qed.

Lemma case_labels_in_range : forall k h, In (k, h) case_labels -> in_command_range k = true.
Proof.
  assert (H : forallb (fun kh => in_command_range (fst kh)) case_labels = true) by (vm_compute; reflexivity).
  intros k h Hin. rewrite forallb_forall in H. exact (H (k, h) Hin).
Qed.

Lemma case_labels_reached : forall k h, In (k, h) case_labels -> dispatch k = h.
Proof.
  assert (H : forallb (fun kh => handler_beq (dispatch (fst kh)) (snd kh)) case_labels = true) by (vm_compute; reflexivity).
  intros k h Hin. rewrite forallb_forall in H. specialize (H (k, h) Hin). cbn [fst snd] in H.
  apply internal_handler_dec_bl. exact H.
Qed.

Definition unmodelled_commands : list N :=
  [c_PR_COMMAND_GETPARAMETERS; c_PR_COMMAND_INSERTORDEREDDATA; c_PR_COMMAND_REORDERDATA].

Definition range_span : nat := N.to_nat (c_END_PR_COMMANDS - c_BEGIN_PR_COMMANDS).

Definition covered (what : N) : bool := modelled (dispatch what) || existsb (N.eqb what) unmodelled_commands.

Lemma range_covered_computed :
  forallb (fun i => covered (c_BEGIN_PR_COMMANDS + N.of_nat i)) (seq 0 (S range_span)) = true.
Proof. vm_compute. reflexivity. Qed.

(* every what-code of the command range reaches a handler whose loops are modelled (Refl/Bounded.v, Refl/Server.v), or is
   one of PR_COMMAND_GETPARAMETERS, INSERTORDEREDDATA, REORDERDATA *)
Lemma dispatch_range_modelled : forall what,
  in_command_range what = true -> modelled (dispatch what) = true \/ In what unmodelled_commands.
Proof.
  intros what Hr. unfold in_command_range in Hr. apply andb_true_iff in Hr. destruct Hr as [Hlo Hhi].
  apply N.leb_le in Hlo. apply N.leb_le in Hhi.
  pose proof range_covered_computed as H. rewrite forallb_forall in H.
  specialize (H (N.to_nat (what - c_BEGIN_PR_COMMANDS))).
  assert (Hin : In (N.to_nat (what - c_BEGIN_PR_COMMANDS)) (seq 0 (S range_span))).
  { apply in_seq. unfold range_span. lia. }
  specialize (H Hin). rewrite N2Nat.id in H.
  replace (c_BEGIN_PR_COMMANDS + (what - c_BEGIN_PR_COMMANDS)) with what in H by lia.
  unfold covered in H. apply orb_true_iff in H. destruct H as [H|H]; [left; exact H|right].
  apply existsb_exists in H. destruct H as [x [Hx Heq]]. apply N.eqb_eq in Heq. subst x. exact Hx.
Qed.

(* outside the range a Message is never dispatched to a command handler *)
Lemma dispatch_outside : forall what, in_command_range what = false -> dispatch what = HClientToClient.
Proof. intros what H. unfold dispatch. rewrite H. reflexivity. Qed.
