(* Refl/ServerProofs.v -- the state invariant of the server model and its preservation by every handler.
   The invariant carries refcount_inv: every node's subscriber table holds, for every session, the number
   of that session's subscription paths that match the node. *)
From Coq Require Import List NArith ZArith Bool Arith Lia.
From Muscle Require Import Gen.Consts Refl.Base Refl.BaseProofs Refl.Tree Refl.TreeProofs Refl.Matcher Refl.MatcherProofs
     Refl.Traverse Refl.TraverseFold Refl.TraverseSpec Refl.Session Refl.Server.
Import ListNotations.

Section ServerProofs.
Context {M : MatchOps} {L : MatchLaws M}.
Variable fx : fixes.
Hypothesis guard_on : fx_guard fx = true.

(* ------------------------------------------------------------------ what notifications leave alone *)

(* the part of a session the tree invariants depend on *)
Definition core (ss : session) : sid * name * name * matcher :=
  (s_id ss, s_host ss, s_name ss, s_subs ss).

Definition same_core (sv sv' : server) : Prop :=
  sv_tree sv' = sv_tree sv /\ map core (sv_sessions sv') = map core (sv_sessions sv).

Lemma same_core_refl : forall sv, same_core sv sv.
Proof. intros; split; reflexivity. Qed.

Lemma same_core_trans : forall a b c, same_core a b -> same_core b c -> same_core a c.
Proof. intros a b c [H1 H2] [H3 H4]. split; congruence. Qed.

Lemma upd_session_core : forall sv s f, (forall x, core (f x) = core x) -> same_core sv (upd_session sv s f).
Proof.
  intros sv s f Hf. split; [reflexivity|]. cbn. rewrite map_map. apply map_ext.
  intros x. destruct (N.eqb (s_id x) s); auto.
Qed.

Lemma set_dirty_core : forall sv b, same_core sv (set_dirty sv b).
Proof. intros; split; reflexivity. Qed.

Lemma push_all_core : forall sv, same_core sv (push_all sv).
Proof.
  intros sv. unfold push_all. destruct (sv_dirty sv); [|apply same_core_refl].
  split; [reflexivity|]. cbn. rewrite map_map. apply map_ext. intros x.
  unfold push_pending. destruct (s_pending x); reflexivity.
Qed.

Lemma node_changed_aux_core : forall sv s p d r, same_core sv (node_changed_aux sv s p d r).
Proof.
  intros sv s p d r. unfold node_changed_aux. destruct (get_session sv s) as [ss|]; [|apply same_core_refl].
  cbv zeta.
  match goal with |- same_core sv (match get_session ?X s with _ => _ end) => set (sv1 := X) end.
  assert (H1 : same_core sv sv1).
  { unfold sv1. destruct r.
    - destruct (di_has_set (pending_or_new ss) p).
      + eapply same_core_trans; [|apply set_dirty_core].
        eapply same_core_trans; [|apply upd_session_core; reflexivity].
        eapply same_core_trans; [|apply push_all_core].
        eapply same_core_trans; [|apply set_dirty_core].
        apply upd_session_core; reflexivity.
      + eapply same_core_trans; [|apply set_dirty_core]. apply upd_session_core; reflexivity.
    - eapply same_core_trans; [|apply set_dirty_core]. apply upd_session_core; reflexivity. }
  destruct (get_session sv1 s) as [ss1|]; auto.
  destruct (s_pending ss1) as [pd|]; auto.
  destruct (N.leb (s_max ss1) (di_num_names pd)); auto.
  eapply same_core_trans; [exact H1|apply push_all_core].
Qed.

Lemma node_changed_core : forall sv s p d old r, same_core sv (node_changed sv s p d old r).
Proof.
  intros sv s p d old r. unfold node_changed. destruct (get_session sv s) as [ss|]; [|apply same_core_refl].
  destruct (N.ltb 0 (m_nfilters (s_subs ss))).
  - destruct r.
    + destruct (matches_node _ _ _ _); [apply node_changed_aux_core|apply same_core_refl].
    + destruct old.
      * destruct (matches_node (s_subs ss) p (Some d) 0); [apply node_changed_aux_core|].
        destruct (matches_node _ _ _ _); [apply node_changed_aux_core|apply same_core_refl].
      * destruct (matches_node (s_subs ss) p (Some d) 0); [apply node_changed_aux_core|apply same_core_refl].
  - apply node_changed_aux_core.
Qed.

Lemma fold_same_core : forall (B : Type) (f : server -> B -> server) l sv,
  (forall sv' b, same_core sv' (f sv' b)) -> same_core sv (fold_left f l sv).
Proof.
  intros B f. induction l as [|b l IH]; intros sv H; cbn; [apply same_core_refl|].
  eapply same_core_trans; [apply H|]. now apply IH.
Qed.

Lemma notify_changed_core : forall sv by_ p d old r, same_core sv (notify_changed sv by_ p d old r).
Proof.
  intros sv by_ p d old r. unfold notify_changed. destruct (find_node (sv_tree sv) p); [|apply same_core_refl].
  apply fold_same_core. intros sv' kc. destruct (N.eqb (fst kc) by_); [apply same_core_refl|apply node_changed_core].
Qed.

(* sessions are found by id: same cores, same answers *)
Lemma find_session_core : forall l l' s, map core l' = map core l ->
  match find_session l s, find_session l' s with
  | Some a, Some b => core b = core a
  | None, None => True
  | _, _ => False
  end.
Proof.
  induction l as [|x l IH]; intros l' s H; destruct l' as [|y l']; cbn in H; try discriminate; cbn; auto.
  assert (Hc : core y = core x) by congruence.
  assert (Hl : map core l' = map core l) by congruence.
  assert (E : s_id y = s_id x) by (unfold core in Hc; congruence).
  rewrite E. destruct (N.eqb (s_id x) s); auto.
  apply IH. exact Hl.
Qed.

Lemma get_session_core : forall sv sv' s, same_core sv sv' ->
  match get_session sv s, get_session sv' s with
  | Some a, Some b => core b = core a
  | None, None => True
  | _, _ => False
  end.
Proof. intros sv sv' s [_ H]. unfold get_session. now apply find_session_core. Qed.


(* ------------------------------------------------------------------ the invariant *)

(* the number a node's subscriber table must hold for session id s *)
Definition count_for (sv : server) (s : sid) (p : path) : N :=
  match get_session sv s with
  | Some ss => N.of_nat (count_matching (s_subs ss) p)
  | None => 0%N
  end.

(* [exc] is the one session directory allowed to be missing (while its session arrives or leaves); [] = none *)
Record inv_x (B : nat) (exc : path) (sv : server) : Prop := mkInv {
  inv_tree : wf_tree (sv_tree sv);
  inv_ids : NoDup (map s_id (sv_sessions sv));
  inv_dirs_nodup : NoDup (map session_dir (sv_sessions sv));
  inv_subs : forall ss, In ss (sv_sessions sv) -> wf_matcher (s_subs ss) /\ num_entries (s_subs ss) <= B;
  inv_dirs : forall ss, In ss (sv_sessions sv) -> session_dir ss = exc \/ has_node (sv_tree sv) (session_dir ss) = true;
  inv_depth2 : forall n, In n (sv_tree sv) -> length (n_path n) = 2 ->
                         exists ss, In ss (sv_sessions sv) /\ session_dir ss = n_path n;
  inv_marks : forall n, In n (sv_tree sv) ->
                        tbl_ok (n_subs n) /\ forall s, tbl_get (n_subs n) s = count_for sv s (n_path n)
}.

Definition inv (B : nat) (sv : server) : Prop := inv_x B [] sv.

Lemma in_map_core : forall (l l' : list session) ss', map core l' = map core l -> In ss' l' ->
  exists ss, In ss l /\ core ss' = core ss.
Proof.
  induction l as [|x l IH]; intros l' ss' H Hin; destruct l' as [|y l']; cbn in H; try discriminate; [contradiction|].
  assert (Hc : core y = core x) by congruence.
  assert (Hl : map core l' = map core l) by congruence.
  destruct Hin as [Hin|Hin].
  - subst. exists x. split; [now left|auto].
  - destruct (IH l' ss' Hl Hin) as [ss [H1 H2]]. exists ss. split; [now right|auto].
Qed.

Lemma map_core_proj : forall (B : Type) (f : session -> B) (g : sid * name * name * matcher -> B) (l l' : list session),
  (forall x, f x = g (core x)) -> map core l' = map core l -> map f l' = map f l.
Proof.
  intros B f g l l' Hf H.
  rewrite (map_ext f (fun x => g (core x))) by exact Hf.
  rewrite (map_ext f (fun x => g (core x)) Hf l).
  rewrite <- !(map_map core g). now rewrite H.
Qed.

Lemma count_for_core : forall sv sv' s p, same_core sv sv' -> count_for sv' s p = count_for sv s p.
Proof.
  intros sv sv' s p H. unfold count_for. pose proof (get_session_core sv sv' s H) as Hc.
  destruct (get_session sv s) as [a|], (get_session sv' s) as [b|]; try contradiction; auto.
  unfold core in Hc. assert (s_subs b = s_subs a) by congruence. congruence.
Qed.

Lemma inv_same_core : forall B exc sv sv', same_core sv sv' -> inv_x B exc sv -> inv_x B exc sv'.
Proof.
  intros B exc sv sv' Hsc [I1 I2 I3 I4 I5 I6 I7]. pose proof Hsc as [Ht Hs].
  constructor.
  - now rewrite Ht.
  - rewrite (map_core_proj _ s_id (fun c => fst (fst (fst c))) _ _ (fun x => eq_refl) Hs). exact I2.
  - rewrite (map_core_proj _ session_dir (fun c => [snd (fst (fst c)); snd (fst c)]) _ _ (fun x => eq_refl) Hs).
    exact I3.
  - intros ss' Hin. destruct (in_map_core _ _ ss' Hs Hin) as [ss [H1 H2]].
    assert (s_subs ss' = s_subs ss) by (unfold core in H2; congruence). rewrite H. now apply I4.
  - intros ss' Hin. destruct (in_map_core _ _ ss' Hs Hin) as [ss [H1 H2]].
    assert (session_dir ss' = session_dir ss) by (unfold session_dir; unfold core in H2; congruence).
    rewrite H, Ht. now apply I5.
  - intros n Hn Hl. rewrite Ht in Hn. destruct (I6 n Hn Hl) as [ss [H1 H2]].
    symmetry in Hs. destruct (in_map_core _ _ ss Hs H1) as [ss' [H3 H4]].
    exists ss'. split; auto. rewrite <- H2. unfold session_dir. unfold core in H4. congruence.
  - intros n Hn. rewrite Ht in Hn. destruct (I7 n Hn) as [H1 H2]. split; auto.
    intros s. rewrite H2. symmetry. now apply count_for_core.
Qed.

Lemma inv_weaken : forall B B' exc sv, B <= B' -> inv_x B exc sv -> inv_x B' exc sv.
Proof.
  intros B B' exc sv Hle [I1 I2 I3 I4 I5 I6 I7]. constructor; auto.
  intros ss Hin. destruct (I4 ss Hin). split; auto. lia.
Qed.


(* ------------------------------------------------------------------ counts *)

Lemma adj_new : forall cnt, (cnt < 2147483648)%N -> adjusted_count 0 (i32_of_u32 (u32 cnt)) = cnt.
Proof.
  intros cnt H. unfold adjusted_count, i32_of_u32, u32.
  rewrite N.mod_small by lia. apply N.ltb_lt in H. rewrite H.
  destruct (Z.eqb (Z.of_N cnt) 0) eqn:E.
  - apply Z.eqb_eq in E. lia.
  - assert (Z.leb 0 (Z.of_N cnt) = true) as -> by (apply Z.leb_le; lia).
    rewrite N2Z.id, N.add_0_l. apply N.mod_small. apply N.ltb_lt in H. lia.
Qed.

Lemma adj_inc : forall cur, (cur < 2147483647)%N -> adjusted_count cur 1 = (cur + 1)%N.
Proof. intros cur H. unfold adjusted_count, u32. cbn. apply N.mod_small. lia. Qed.

Lemma adj_dec : forall cur, (1 <= cur)%N -> adjusted_count cur (-1) = (cur - 1)%N.
Proof. intros cur H. unfold adjusted_count. cbn. apply N.leb_le in H. now rewrite H. Qed.

Lemma adj_clear : forall cur, (cur < 2147483647)%N -> adjusted_count cur cleanup_delta = 0%N.
Proof.
  intros cur H. unfold adjusted_count. change cleanup_delta with (-2147483647)%Z. cbn.
  assert (N.leb 2147483647 cur = false) as -> by (apply N.leb_gt; lia). reflexivity.
Qed.

Definition small (B : nat) : Prop := (N.of_nat B < 2147483647)%N.

Lemma count_bound : forall B m p, num_entries m <= B -> small B ->
  (N.of_nat (count_matching m p) < 2147483647)%N.
Proof. intros B m p H1 H2. unfold small in H2. pose proof (count_le_entries m p). lia. Qed.

(* NotifySubscribersOfNewNode: the table a new node starts with *)
Lemma new_table_fold : forall B p (l : list session) tb,
  small B -> NoDup (map s_id l) ->
  (forall ss, In ss l -> wf_matcher (s_subs ss) /\ num_entries (s_subs ss) <= B) ->
  tbl_ok tb -> (forall ss, In ss l -> tbl_get tb (s_id ss) = 0%N) ->
  let R := fold_left (fun tb ss => tbl_adjust tb (s_id ss) (i32_of_u32 (u32 (match_count (s_subs ss) p None 0)))) l tb in
  tbl_ok R /\ forall s, tbl_get R s = match find_session l s with
                                      | Some ss => N.of_nat (count_matching (s_subs ss) p)
                                      | None => tbl_get tb s
                                      end.
Proof.
  intros B p. induction l as [|x l IH]; intros tb HB Hnd Hwf Hok H0; cbn [fold_left find_session]; [split; auto|].
  cbn in Hnd. inversion Hnd as [|? ? Hx Hnd']; subst.
  set (tb1 := tbl_adjust tb (s_id x) (i32_of_u32 (u32 (match_count (s_subs x) p None 0)))).
  destruct (Hwf x (or_introl eq_refl)) as [Hwx Hbx].
  assert (Hcx : forall s, tbl_get tb1 s = if N.eqb (s_id x) s then N.of_nat (count_matching (s_subs x) p) else tbl_get tb s).
  { intros s. unfold tb1. rewrite tbl_adjust_get by auto. destruct (N.eqb (s_id x) s); auto.
    rewrite (H0 x (or_introl eq_refl)), match_count_spec by (apply Hwx). apply adj_new.
    pose proof (count_bound B (s_subs x) p Hbx HB). lia. }
  destruct (IH tb1 HB Hnd') as [R1 R2].
  - intros ss Hss. apply Hwf. now right.
  - unfold tb1. now apply tbl_adjust_ok.
  - intros ss Hss. rewrite Hcx. destruct (N.eqb (s_id x) (s_id ss)) eqn:E.
    + apply N.eqb_eq in E. exfalso. apply Hx. rewrite E. now apply in_map.
    + apply H0. now right.
  - split; auto. intros s. rewrite R2. destruct (N.eqb (s_id x) s) eqn:E.
    + apply N.eqb_eq in E. subst s.
      assert (find_session l (s_id x) = None) as ->.
      { clear - Hx. induction l as [|y l IH]; cbn; auto. destruct (N.eqb (s_id y) (s_id x)) eqn:E.
        - apply N.eqb_eq in E. exfalso. apply Hx. left. auto.
        - apply IH. intros H. apply Hx. now right. }
      rewrite Hcx, N.eqb_refl. reflexivity.
    + destruct (find_session l s); auto. rewrite Hcx, E. reflexivity.
Qed.

Lemma new_node_table_spec : forall B exc sv p, small B -> inv_x B exc sv ->
  tbl_ok (new_node_table sv p) /\ forall s, tbl_get (new_node_table sv p) s = count_for sv s p.
Proof.
  intros B exc sv p HB I. unfold new_node_table, count_for, get_session.
  destruct (new_table_fold B p (sv_sessions sv) [] HB (inv_ids _ _ _ I) (inv_subs _ _ _ I)) as [R1 R2].
  - split; [constructor|intros k c []].
  - intros ss _. reflexivity.
  - split; auto.
Qed.

(* ------------------------------------------------------------------ marking the nodes of a subscription *)

Definition adj_node (s : sid) (delta : Z) (n : node) : node :=
  mkNode (n_path n) (n_data n) (tbl_adjust (n_subs n) s delta).

Lemma fold_adjust : forall s delta (V : list node) t0,
  NoDup (map n_path V) ->
  fold_left (fun acc n => adjust_subs acc (n_path n) s delta) V t0
  = map (fun n0 => if pmem (n_path n0) (map n_path V) then adj_node s delta n0 else n0) t0.
Proof.
  intros s delta. induction V as [|v V IH]; intros t0 Hnd; cbn [fold_left map].
  - cbn. now rewrite map_id.
  - cbn in Hnd. inversion Hnd as [|? ? Hv Hnd']; subst.
    rewrite IH by auto. unfold adjust_subs, map_node. rewrite map_map. apply map_ext. intros n0.
    fold (adj_node s delta n0).
    unfold pmem at 2. cbn [existsb]. fold (pmem (n_path n0) (map n_path V)).
    destruct (path_eqb (n_path n0) (n_path v)) eqn:E.
    + cbn [orb n_path adj_node]. apply path_eqb_eq in E.
      assert (pmem (n_path n0) (map n_path V) = false) as ->; [|reflexivity].
      destruct (pmem (n_path n0) (map n_path V)) eqn:E'; auto. apply pmem_spec in E'. rewrite E in E'. contradiction.
    + cbn [orb]. reflexivity.
Qed.

Lemma mark_nodes_spec : forall t m s delta, wf_tree t -> wf_groups (m_groups m) ->
  mark_nodes fx t m s delta
  = map (fun n => if matches_node m (n_path n) None 0 then adj_node s delta n else n) t.
Proof.
  intros t m s delta Ht Hm. unfold mark_nodes. rewrite guard_on, do_traversal_continue.
  pose proof (vlist_nodup t m [] false Ht) as Hnd.
  assert (Hin : forall n, In n (vlist t m [] false) <-> In n t /\ matches_node m (n_path n) None 0 = true).
  { intros n. rewrite vlist_spec by auto. cbn [length app]. unfold dsel. split.
    - intros [H1 [_ H3]]. auto.
    - intros [H1 H3]. split; [auto|split; [|auto]]. exists (n_path n). split; auto.
      destruct Ht as [_ [Hne _]]. now apply Hne. }
  rewrite fold_adjust.
  - apply map_ext_in. intros n Hn.
    destruct (matches_node m (n_path n) None 0) eqn:E.
    + assert (pmem (n_path n) (map n_path (vlist t m [] false)) = true) as ->; auto.
      apply pmem_spec. apply in_map. apply Hin. auto.
    + assert (pmem (n_path n) (map n_path (vlist t m [] false)) = false) as ->; auto.
      destruct (pmem (n_path n) (map n_path (vlist t m [] false))) eqn:E'; auto.
      apply pmem_spec in E'. apply in_map_iff in E' as [n' [H1 H2]]. apply Hin in H2 as [H2 H3].
      destruct Ht as [Hndt _]. assert (n' = n) by (apply (node_eq_by_path t); auto). subst. congruence.
  - destruct Ht as [Hndt _]. apply NoDup_map_in; auto.
    intros x y Hx Hy E. apply Hin in Hx as [Hx _]. apply Hin in Hy as [Hy _]. now apply (node_eq_by_path t).
Qed.


(* ------------------------------------------------------------------ sessions under updates *)

Lemma find_session_some : forall l s ss, find_session l s = Some ss -> In ss l /\ s_id ss = s.
Proof.
  induction l as [|x l IH]; intros s ss H; cbn in H; [discriminate|].
  destruct (N.eqb (s_id x) s) eqn:E.
  - inversion H; subst. apply N.eqb_eq in E. split; [now left|auto].
  - apply IH in H as [H1 H2]. split; [now right|auto].
Qed.

Lemma find_session_none : forall l s, find_session l s = None <-> ~ In s (map s_id l).
Proof.
  induction l as [|x l IH]; intros s; cbn; [split; auto|].
  destruct (N.eqb (s_id x) s) eqn:E.
  - apply N.eqb_eq in E. split; [discriminate|]. intros H. exfalso. apply H. now left.
  - rewrite IH. apply N.eqb_neq in E. split; intros H; [intros [H1|H1]; auto|intros H1; apply H; now right].
Qed.

Lemma find_session_in : forall l ss, NoDup (map s_id l) -> In ss l -> find_session l (s_id ss) = Some ss.
Proof.
  induction l as [|x l IH]; intros ss Hnd Hin; [contradiction|]. cbn.
  cbn in Hnd. inversion Hnd as [|? ? Hx Hnd']; subst.
  destruct Hin as [Hin|Hin].
  - subst. now rewrite N.eqb_refl.
  - destruct (N.eqb (s_id x) (s_id ss)) eqn:E; [|now apply IH].
    apply N.eqb_eq in E. exfalso. apply Hx. rewrite E. now apply in_map.
Qed.

Lemma get_session_upd : forall sv s f s', (forall x, s_id (f x) = s_id x) ->
  get_session (upd_session sv s f) s' = if N.eqb s s' then option_map f (get_session sv s') else get_session sv s'.
Proof.
  intros sv s f s' Hf. unfold get_session, upd_session. cbn [sv_sessions].
  induction (sv_sessions sv) as [|x l IH]; cbn.
  - destruct (N.eqb s s'); reflexivity.
  - destruct (N.eqb (s_id x) s) eqn:E.
    + apply N.eqb_eq in E. rewrite Hf. destruct (N.eqb (s_id x) s') eqn:E'.
      * apply N.eqb_eq in E'. subst. rewrite N.eqb_refl. reflexivity.
      * rewrite IH. reflexivity.
    + destruct (N.eqb (s_id x) s') eqn:E'; [|apply IH].
      apply N.eqb_eq in E'. subst s'. rewrite N.eqb_sym, E. reflexivity.
Qed.

(* ------------------------------------------------------------------ changes of the tree alone *)

Lemma inv_map_tree : forall B exc sv (g : node -> node),
  (forall n, n_path (g n) = n_path n) -> (forall n, n_subs (g n) = n_subs n) ->
  inv_x B exc sv -> inv_x B exc (set_tree sv (map g (sv_tree sv))).
Proof.
  intros B exc sv g Hp Hs [I1 I2 I3 I4 I5 I6 I7]. constructor; cbn [sv_tree sv_sessions set_tree]; auto.
  - now apply wf_tree_map.
  - intros ss Hin. destruct (I5 ss Hin); [now left|right]. now rewrite has_node_map.
  - intros n' Hn' Hl. apply in_map_iff in Hn' as [n [H1 H2]]. subst n'. rewrite Hp in *. now apply I6.
  - intros n' Hn'. apply in_map_iff in Hn' as [n [H1 H2]]. subst n'. rewrite Hp, Hs. now apply I7.
Qed.

Lemma inv_set_data : forall B exc sv p d, inv_x B exc sv -> inv_x B exc (set_tree sv (set_data (sv_tree sv) p d)).
Proof.
  intros B exc sv p d I. unfold set_data, map_node. apply inv_map_tree; auto.
  - intros n. destruct (path_eqb (n_path n) p); reflexivity.
  - intros n. destruct (path_eqb (n_path n) p); reflexivity.
Qed.

Lemma inv_add_node : forall B exc sv pp k d, small B -> inv_x B exc sv ->
  find_node (sv_tree sv) (pp ++ [k]) = None -> (pp = [] \/ has_node (sv_tree sv) pp = true) ->
  (length (pp ++ [k]) = 2 -> exists ss, In ss (sv_sessions sv) /\ session_dir ss = pp ++ [k]) ->
  inv_x B exc (set_tree sv (add_node (sv_tree sv) (mkNode (pp ++ [k]) d (new_node_table sv (pp ++ [k]))))).
Proof.
  intros B exc sv pp k d HB I Hnone Hpp Hd2. pose proof I as [I1 I2 I3 I4 I5 I6 I7].
  constructor; cbn [sv_tree sv_sessions set_tree]; auto.
  - now apply wf_tree_add.
  - intros ss Hin. destruct (I5 ss Hin); [now left|right]. now apply has_node_add.
  - intros n Hn Hl. apply in_app_or in Hn as [Hn|[Hn|[]]]; [now apply I6|]. subst n. cbn in *. now apply Hd2.
  - intros n Hn. apply in_app_or in Hn as [Hn|[Hn|[]]]; [now apply I7|]. subst n. cbn [n_subs n_path].
    destruct (new_node_table_spec B exc sv (pp ++ [k]) HB I) as [H1 H2]. split; [exact H1|exact H2].
Qed.

Lemma set_data_loop_inv : forall B exc cl sv by_ pp d dc dow q, small B ->
  inv_x B exc sv -> has_node (sv_tree sv) pp = true -> 2 <= length pp ->
  inv_x B exc (set_data_loop sv by_ pp cl d dc dow q).
Proof.
  intros B exc. induction cl as [|k rest IH]; intros sv by_ pp d dc dow q HB I Hpp Hlen; cbn [set_data_loop]; auto.
  destruct (find_node (sv_tree sv) (pp ++ [k])) as [n|] eqn:Hf.
  - destruct rest as [|k2 rest2].
    + destruct dow; auto.
      pose proof (inv_set_data B exc sv (pp ++ [k]) d I) as I'.
      destruct q; auto. eapply inv_same_core; [apply notify_changed_core|exact I'].
    + apply IH; auto.
      * apply has_node_spec. apply find_node_some in Hf. eauto.
      * rewrite app_length. cbn. lia.
  - destruct dc; auto.
    destruct (Nat.leb max_node_depth (length pp)); auto.
    assert (I' : inv_x B exc (set_tree sv (add_node (sv_tree sv)
               (mkNode (pp ++ [k]) (match rest with [] => d | _ => empty_payload end) (new_node_table sv (pp ++ [k])))))).
    { apply inv_add_node; auto. intros H. rewrite app_length in H. cbn in H. lia. }
    destruct rest as [|k2 rest2].
    + destruct q; auto. eapply inv_same_core; [apply notify_changed_core|exact I'].
    + apply IH; auto.
      * destruct q; auto. eapply inv_same_core; [apply notify_changed_core|exact I'].
      * assert (Hh : has_node (add_node (sv_tree sv)
                  (mkNode (pp ++ [k]) empty_payload (new_node_table sv (pp ++ [k])))) (pp ++ [k]) = true).
        { apply has_node_spec. eexists. split; [apply in_or_app; right; left; reflexivity|reflexivity]. }
        destruct q; cbn [sv_tree set_tree]; auto.
        destruct (notify_changed_core (set_tree sv (add_node (sv_tree sv)
                    (mkNode (pp ++ [k]) empty_payload (new_node_table sv (pp ++ [k]))))) by_ (pp ++ [k]) empty_payload None false) as [Ht _].
        rewrite Ht. exact Hh.
      * rewrite app_length. cbn. lia.
Qed.


(* ------------------------------------------------------------------ removal *)

Lemma remove_subtree_spec : forall sv by_ p notify, wf_tree (sv_tree sv) -> p <> [] ->
  sv_tree (remove_subtree sv by_ p notify) = prune_tree (sv_tree sv) p
  /\ map core (sv_sessions (remove_subtree sv by_ p notify)) = map core (sv_sessions sv).
Proof.
  intros sv by_ p notify Hwf Hp. unfold remove_subtree.
  rewrite <- (fold_remove_subtree (sv_tree sv) p Hwf Hp).
  generalize (removal_order (S (length (sv_tree sv))) (sv_tree sv) p). intros Lq.
  generalize sv. clear. induction Lq as [|q Lq IH]; intros sv; cbn [fold_left]; [split; reflexivity|].
  destruct (find_node (sv_tree sv) q) as [n|] eqn:Hf.
  - match goal with |- context [fold_left _ Lq ?X] => destruct (IH X) as [H1 H2] end.
    rewrite H1, H2. cbn [sv_tree sv_sessions set_tree].
    destruct notify; [|split; reflexivity].
    destruct (notify_changed_core sv by_ q (n_data n) (Some (n_data n)) true) as [Ht Hs].
    rewrite Ht, Hs. split; reflexivity.
  - rewrite (remove_node_absent _ _ Hf). apply IH.
Qed.

Lemma session_depth_eq : session_depth = 2.
Proof. reflexivity. Qed.

Lemma session_dir_length : forall ss : session, length (session_dir ss) = 2.
Proof. reflexivity. Qed.

Lemma inv_prune : forall B exc exc' sv sv' p, inv_x B exc sv ->
  sv_tree sv' = prune_tree (sv_tree sv) p ->
  map core (sv_sessions sv') = map core (sv_sessions sv) ->
  (forall ss, In ss (sv_sessions sv) -> is_prefix p (session_dir ss) = true -> session_dir ss = exc') ->
  (forall ss, In ss (sv_sessions sv) -> session_dir ss = exc -> session_dir ss = exc') ->
  inv_x B exc' sv'.
Proof.
  intros B exc exc' sv sv' p I Ht Hs Hunder Hexc.
  apply (inv_same_core B exc' (set_tree sv (prune_tree (sv_tree sv) p)) sv'); [split; auto|].
  destruct I as [I1 I2 I3 I4 I5 I6 I7]. constructor; cbn [sv_tree sv_sessions set_tree]; auto.
  - now apply wf_tree_prune.
  - intros ss Hin. destruct (I5 ss Hin) as [H|H]; [left; now apply Hexc|].
    destruct (is_prefix p (session_dir ss)) eqn:E; [left; now apply Hunder|right; now apply has_node_prune].
  - intros n Hn Hl. apply in_prune in Hn as [Hn _]. now apply I6.
  - intros n Hn. apply in_prune in Hn as [Hn _]. now apply I7.
Qed.

Lemma is_prefix_length : forall p q, is_prefix p q = true -> length p <= length q.
Proof. intros p q H. apply is_prefix_spec in H as [r Hr]. rewrite Hr, app_length. lia. Qed.

Lemma do_remove_data_inv : forall B exc sv ss keys quiet, inv_x B exc sv -> inv_x B exc (do_remove_data fx sv ss keys quiet).
Proof.
  intros B exc sv ss keys quiet I. unfold do_remove_data.
  set (rs := do_traversal remove_cb (sv_tree sv) (m_of_list keys) (session_dir ss) true (fx_guard fx) []).
  assert (Hrs : forall p, In p rs -> 2 < length p).
  { unfold rs. apply (do_traversal_Q (list path) remove_cb (fun acc => forall p, In p acc -> 2 < length p)).
    - intros acc n Hacc. unfold remove_cb. rewrite session_depth_eq.
      destruct (Nat.ltb 2 (depth n)) eqn:E; cbn [fst]; auto.
      intros p [Hp|Hp]; [|now apply Hacc]. subst p. now apply Nat.ltb_lt in E.
    - intros p []. }
  clearbody rs. revert sv I. induction rs as [|p rs IH]; intros sv I; cbn [fold_left]; auto.
  apply IH; [intros q Hq; apply Hrs; now right|].
  destruct (has_node (sv_tree sv) p) eqn:Hh; auto.
  assert (Hp : 2 < length p) by (apply Hrs; now left).
  destruct (remove_subtree_spec sv (s_id ss) p (negb quiet)) as [Ht Hs].
  - apply (inv_tree _ _ _ I).
  - destruct p; [cbn in Hp; lia|discriminate].
  - apply (inv_prune B exc exc sv _ p I Ht Hs); auto.
    intros ss' _ Hpre. apply is_prefix_length in Hpre. rewrite session_dir_length in Hpre. lia.
Qed.


(* ------------------------------------------------------------------ changing one session's subscriptions and re-marking *)

Lemma inv_remark : forall B B' exc sv s ss m' mk delta,
  inv_x B exc sv -> get_session sv s = Some ss -> B <= B' ->
  wf_matcher m' -> num_entries m' <= B' -> wf_groups (m_groups mk) ->
  (forall n, In n (sv_tree sv) ->
     N.of_nat (count_matching m' (n_path n))
     = if matches_node mk (n_path n) None 0
       then adjusted_count (N.of_nat (count_matching (s_subs ss) (n_path n))) delta
       else N.of_nat (count_matching (s_subs ss) (n_path n))) ->
  inv_x B' exc (set_tree (upd_session sv s (fun x => set_subs x m'))
                         (mark_nodes fx (sv_tree sv) mk s delta)).
Proof.
  intros B B' exc sv s ss m' mk delta I Hss HB Hwm' Hnm' Hwmk Hcnt.
  pose proof I as [I1 I2 I3 I4 I5 I6 I7].
  rewrite mark_nodes_spec by auto.
  set (g := fun n => if matches_node mk (n_path n) None 0 then adj_node s delta n else n).
  assert (Hg : forall n, n_path (g n) = n_path n).
  { intros n. unfold g. destruct (matches_node mk (n_path n) None 0); reflexivity. }
  set (h := fun x : session => if N.eqb (s_id x) s then set_subs x m' else x).
  assert (Hid : forall x, s_id (h x) = s_id x) by (intros x; unfold h; destruct (N.eqb (s_id x) s); reflexivity).
  assert (Hdir : forall x, session_dir (h x) = session_dir x) by (intros x; unfold h; destruct (N.eqb (s_id x) s); reflexivity).
  constructor; cbn [sv_tree sv_sessions set_tree upd_session].
  - now apply wf_tree_map.
  - rewrite map_map. rewrite (map_ext _ _ Hid). exact I2.
  - rewrite map_map. rewrite (map_ext _ _ Hdir). exact I3.
  - intros x' Hin. apply in_map_iff in Hin as [x [Hx1 Hx2]]. subst x'. fold h. unfold h.
    destruct (N.eqb (s_id x) s); [cbn; auto|]. destruct (I4 x Hx2). split; auto. lia.
  - intros x' Hin. apply in_map_iff in Hin as [x [Hx1 Hx2]]. subst x'. fold (h x). rewrite Hdir.
    destruct (I5 x Hx2); [now left|right]. now rewrite has_node_map.
  - intros n' Hn' Hl. apply in_map_iff in Hn' as [n [H1 H2]]. subst n'. rewrite Hg in Hl. rewrite Hg.
    destruct (I6 n H2 Hl) as [x [Hx1 Hx2]]. exists (h x). split.
    + apply in_map_iff. exists x. split; [reflexivity|exact Hx1].
    + rewrite Hdir. exact Hx2.
  - intros n' Hn'. apply in_map_iff in Hn' as [n [H1 H2]]. subst n'. rewrite Hg.
    destruct (I7 n H2) as [Hok Hget].
    split.
    + unfold g. destruct (matches_node mk (n_path n) None 0); auto. cbn. now apply tbl_adjust_ok.
    + intros s'. unfold count_for.
      change (get_session (set_tree (upd_session sv s (fun x => set_subs x m')) (map g (sv_tree sv))) s')
        with (get_session (upd_session sv s (fun x => set_subs x m')) s').
      rewrite get_session_upd by reflexivity.
      destruct (N.eqb s s') eqn:E.
      * apply N.eqb_eq in E. subst s'. rewrite Hss. cbn [option_map set_subs s_subs].
        rewrite (Hcnt n H2). pose proof (Hget s) as Hs. unfold count_for in Hs. rewrite Hss in Hs.
        unfold g. destruct (matches_node mk (n_path n) None 0); [|exact Hs].
        cbn [adj_node n_subs]. rewrite tbl_adjust_get by auto. rewrite N.eqb_refl, Hs. reflexivity.
      * pose proof (Hget s') as Hs. unfold count_for in Hs. rewrite <- Hs.
        unfold g. destruct (matches_node mk (n_path n) None 0); [|reflexivity].
        cbn [adj_node n_subs]. rewrite tbl_adjust_get by auto. now rewrite E.
Qed.


Lemma session_unique : forall sv s ss x, NoDup (map s_id (sv_sessions sv)) ->
  get_session sv s = Some ss -> In x (sv_sessions sv) -> s_id x = s -> x = ss.
Proof.
  intros sv s ss x Hnd Hss Hx Hid. pose proof (find_session_in _ x Hnd Hx) as H.
  unfold get_session in Hss. rewrite Hid in H. congruence.
Qed.

Lemma upd_session_ext : forall sv s f f',
  (forall x, In x (sv_sessions sv) -> s_id x = s -> f x = f' x) -> upd_session sv s f = upd_session sv s f'.
Proof.
  intros sv s f f' H. unfold upd_session. f_equal. apply map_ext_in. intros x Hx.
  destruct (N.eqb (s_id x) s) eqn:E; auto. apply N.eqb_eq in E. now apply H.
Qed.

Lemma matches_node_empty : forall p d rd, matches_node empty_matcher p d rd = false.
Proof. intros p d rd. unfold matches_node. cbn [empty_matcher m_groups group_get existsb]. destruct (Nat.ltb (length p) rd); reflexivity. Qed.

Lemma set_tree_same : forall sv, set_tree sv (sv_tree sv) = sv.
Proof. intros [t l d]. reflexivity. Qed.

(* a change of one session's subscriptions that does not change any match count *)
Lemma inv_set_subs : forall B exc sv s ss m', inv_x B exc sv -> get_session sv s = Some ss ->
  wf_matcher m' -> num_entries m' <= B ->
  (forall p, count_matching m' p = count_matching (s_subs ss) p) ->
  inv_x B exc (upd_session sv s (fun x => set_subs x m')).
Proof.
  intros B exc sv s ss m' I Hss Hwf Hn Hc.
  pose proof (inv_remark B B exc sv s ss m' empty_matcher 0 I Hss (le_n _) Hwf Hn (proj1 wf_empty)) as H.
  rewrite mark_nodes_spec in H; [|apply (inv_tree _ _ _ I)|apply wf_empty].
  rewrite (map_ext _ (fun n => n)) in H by (intros n; now rewrite matches_node_empty).
  rewrite map_id in H.
  change (sv_tree sv) with (sv_tree (upd_session sv s (fun x => set_subs x m'))) in H.
  rewrite set_tree_same in H. apply H.
  intros n _. rewrite matches_node_empty. now rewrite Hc.
Qed.

Lemma cqf_cb_core : forall s oldf newf sv n, same_core sv (cqf_cb fx s oldf newf sv n).
Proof.
  intros s oldf newf sv n. unfold cqf_cb.
  destruct (Bool.eqb _ _); [apply same_core_refl|].
  destruct (get_session sv s); [|apply same_core_refl].
  destruct (_ && _); [apply same_core_refl|apply node_changed_aux_core].
Qed.

Lemma cqf_traversal_core : forall s oldf newf t m root uf gf sv,
  same_core sv (do_traversal (continue_cb (cqf_cb fx s oldf newf)) t m root uf gf sv).
Proof.
  intros s oldf newf t m root uf gf sv.
  apply (do_traversal_Q server (continue_cb (cqf_cb fx s oldf newf)) (fun acc => same_core sv acc)).
  - intros acc n H. unfold continue_cb. cbn [fst]. eapply same_core_trans; [exact H|apply cqf_cb_core].
  - apply same_core_refl.
Qed.

Lemma subscribe_one_inv : forall B exc sv s sf, small (S B) ->
  inv_x B exc sv -> inv_x (S B) exc (subscribe_one fx sv s sf).
Proof.
  intros B exc sv s [sp f] HB I. unfold subscribe_one. cbn [fst snd].
  destruct (get_session sv s) as [ss|] eqn:Hss; [|apply (inv_weaken B); auto].
  destruct (fix_path sp) as [|c fp'] eqn:Hfp; [apply (inv_weaken B); auto|]. rewrite <- Hfp.
  assert (Hne : fix_path sp <> []) by (rewrite Hfp; discriminate).
  assert (Hin : In ss (sv_sessions sv)) by (apply find_session_some in Hss; tauto).
  destruct (inv_subs _ _ _ I ss Hin) as [Hw Hn].
  destruct (m_get (s_subs ss) (fix_path sp)) as [e|] eqn:Hget.
  - (* the path is already subscribed: only its filter changes *)
    match goal with |- inv_x _ _ (upd_session ?X s _) => set (sv1 := X) end.
    assert (Hsc : same_core sv sv1).
    { unfold sv1. destruct f, (e_flt e); try apply cqf_traversal_core. apply same_core_refl. }
    pose proof (inv_same_core B exc sv sv1 Hsc I) as I1.
    pose proof (get_session_core sv sv1 s Hsc) as Hc. rewrite Hss in Hc.
    destruct (get_session sv1 s) as [ss1|] eqn:Hss1; [|contradiction].
    assert (Hsub : s_subs ss1 = s_subs ss) by (unfold core in Hc; congruence).
    apply (inv_weaken B); auto.
    rewrite (upd_session_ext sv1 s _ (fun x => set_subs x (m_set_filter (s_subs ss1) (fix_path sp) f))).
    + apply (inv_set_subs B exc sv1 s ss1); auto.
      * rewrite Hsub. now apply wf_matcher_set_filter.
      * rewrite num_entries_set_filter, Hsub. exact Hn.
      * intros p. apply count_matching_set_filter.
    + intros x Hx Hid. now rewrite (session_unique sv1 s ss1 x (inv_ids _ _ _ I1) Hss1 Hx Hid).
  - (* a new subscription path: add it and mark the matching nodes *)
    rewrite (upd_session_ext sv s _ (fun x => set_subs x (m_put (s_subs ss) (fix_path sp) f))).
    + change (sv_tree (upd_session sv s (fun x => set_subs x (m_put (s_subs ss) (fix_path sp) f)))) with (sv_tree sv).
      apply (inv_remark B (S B) exc sv s ss); auto.
      * now apply wf_matcher_put.
      * pose proof (num_entries_put (s_subs ss) (fix_path sp) f). lia.
      * unfold single. now apply single_wf.
      * intros n Hn'. unfold single. rewrite single_matches by auto.
        rewrite count_matching_put by auto. rewrite Hget.
        destruct (pat_matches (fix_path sp) (n_path n)); cbn [b2n]; [|f_equal; lia].
        rewrite adj_inc; [lia|].
        pose proof (count_le_entries (s_subs ss) (n_path n)). unfold small in HB. lia.
    + intros x Hx Hid. now rewrite (session_unique sv s ss x (inv_ids _ _ _ I) Hss Hx Hid).
Qed.

Lemma unsubscribe_one_inv : forall B exc sv s sp, small B ->
  inv_x B exc sv -> inv_x B exc (unsubscribe_one fx sv s sp).
Proof.
  intros B exc sv s sp HB I. unfold unsubscribe_one.
  destruct (get_session sv s) as [ss|] eqn:Hss; auto.
  assert (Hin : In ss (sv_sessions sv)) by (apply find_session_some in Hss; tauto).
  destruct (inv_subs _ _ _ I ss Hin) as [Hw Hn].
  destruct (m_remove (s_subs ss) (fix_path sp)) as [m'|] eqn:Hrm; auto.
  assert (Hne : fix_path sp <> []).
  { intros E. rewrite E in Hrm. unfold m_remove, m_get in Hrm. cbn in Hrm.
    assert (Hg : forall e, In e (group_get (m_groups (s_subs ss)) 0) -> False).
    { intros e He. apply group_get_in in He as [g [Hg [Hd _]]]. destruct Hw as [[_ Hw] _]. destruct (Hw g Hg) as [_ [H1 _]]. lia. }
    destruct (group_get (m_groups (s_subs ss)) 0) as [|e0 l]; [discriminate|]. apply (Hg e0). now left. }
  change (sv_tree (upd_session sv s (fun x => set_subs x m'))) with (sv_tree sv).
  apply (inv_remark B B exc sv s ss); auto.
  - now apply (wf_matcher_remove (s_subs ss) (fix_path sp)).
  - pose proof (num_entries_remove _ _ _ Hrm). lia.
  - unfold single. now apply single_wf.
  - intros n Hn'. unfold single. rewrite single_matches by auto.
    pose proof (count_matching_remove _ _ _ (n_path n) Hrm) as Hc.
    destruct (pat_matches (fix_path sp) (n_path n)); cbn [b2n] in Hc; [|f_equal; lia].
    rewrite adj_dec; lia.
Qed.


(* ------------------------------------------------------------------ GETDATA touches no tree, no subscription *)

Lemma getdata_cb_core : forall sv s acc n,
  same_core sv (snd acc) -> same_core sv (snd (fst (getdata_cb s acc n))).
Proof.
  intros sv s [reply sv0] n Hq. unfold getdata_cb. cbn [snd] in Hq.
  destruct (get_session sv0 s) as [ss|]; [|exact Hq].
  destruct (own_node ss (n_path n)); [exact Hq|].
  destruct (N.leb _ _); cbn [fst snd]; auto.
  eapply same_core_trans; [exact Hq|]. apply upd_session_core. reflexivity.
Qed.

Lemma do_get_data_core : forall sv s keys, same_core sv (do_get_data fx sv s keys).
Proof.
  intros sv s keys. unfold do_get_data.
  match goal with |- context [do_traversal ?cb ?t ?m ?r ?u ?g ?a] =>
    pose proof (do_traversal_Q (option ditems * server) cb (fun acc => same_core sv (snd acc)) t m u g
                  (getdata_cb_core sv s) r a (same_core_refl sv)) as H;
    destruct (do_traversal cb t m r u g a) as [reply sv1] end.
  cbn [snd] in H. destruct reply; auto.
  eapply same_core_trans; [exact H|]. apply upd_session_core. reflexivity.
Qed.

(* ------------------------------------------------------------------ a session arrives *)

Lemma find_session_app : forall l x s,
  find_session (l ++ [x]) s = match find_session l s with
                              | Some y => Some y
                              | None => if N.eqb (s_id x) s then Some x else None
                              end.
Proof.
  induction l as [|y l IH]; intros x s; cbn; auto.
  destruct (N.eqb (s_id y) s); auto.
Qed.

Lemma inv_x_discharge : forall B exc sv, inv_x B exc sv -> has_node (sv_tree sv) exc = true -> inv_x B [] sv.
Proof.
  intros B exc sv [I1 I2 I3 I4 I5 I6 I7] H. constructor; auto.
  intros ss Hin. right. destruct (I5 ss Hin) as [E|E]; [now rewrite E|auto].
Qed.

Lemma inv_dirs_exist : forall B sv ss, inv B sv -> In ss (sv_sessions sv) -> has_node (sv_tree sv) (session_dir ss) = true.
Proof. intros B sv ss I Hin. destruct (inv_dirs _ _ _ I ss Hin) as [H|H]; [discriminate|auto]. Qed.

Lemma core_dir_exists : forall (l l' : list session) d, map core l' = map core l ->
  (exists ss, In ss l /\ session_dir ss = d) -> exists ss', In ss' l' /\ session_dir ss' = d.
Proof.
  intros l l' d H [ss [H1 H2]]. symmetry in H. destruct (in_map_core _ _ ss H H1) as [ss' [H3 H4]].
  exists ss'. split; auto. rewrite <- H2. unfold session_dir. unfold core in H4. congruence.
Qed.

(* one new node with its creation notice *)
Lemma add_node_step : forall B exc sv by_ pp k d, small B -> inv_x B exc sv ->
  find_node (sv_tree sv) (pp ++ [k]) = None -> (pp = [] \/ has_node (sv_tree sv) pp = true) ->
  (length (pp ++ [k]) = 2 -> exists ss, In ss (sv_sessions sv) /\ session_dir ss = pp ++ [k]) ->
  let nd := mkNode (pp ++ [k]) d (new_node_table sv (pp ++ [k])) in
  let sv' := notify_changed (set_tree sv (add_node (sv_tree sv) nd)) by_ (pp ++ [k]) d None false in
  inv_x B exc sv' /\ sv_tree sv' = add_node (sv_tree sv) nd /\ map core (sv_sessions sv') = map core (sv_sessions sv).
Proof.
  intros B exc sv by_ pp k d HB I Hnone Hpp Hd2 nd sv'.
  pose proof (inv_add_node B exc sv pp k d HB I Hnone Hpp Hd2) as I'.
  destruct (notify_changed_core (set_tree sv (add_node (sv_tree sv) nd)) by_ (pp ++ [k]) d None false) as [Ht Hs].
  split; [|split; auto]. eapply inv_same_core; [split; eauto|exact I'].
Qed.

(* the state right after the new session has joined the session table *)
Lemma attach_pre : forall B sv s host nm, inv B sv -> get_session sv s = None ->
  (forall ss, In ss (sv_sessions sv) -> session_dir ss <> [host; nm]) ->
  let ssn := mkSession s host nm empty_matcher default_max_items None [] in
  let sv0 := mkServer (sv_tree sv) (sv_sessions sv ++ [ssn]) (sv_dirty sv) in
  inv_x B [host; nm] sv0 /\ find_node (sv_tree sv) [host; nm] = None.
Proof.
  intros B sv s host nm I Hnone Hfresh ssn sv0.
  assert (Habsent : find_node (sv_tree sv) [host; nm] = None).
  { apply find_node_none. intros n Hn Hp. destruct (inv_depth2 _ _ _ I n Hn) as [ss [H1 H2]]; [now rewrite Hp|].
    apply (Hfresh ss H1). congruence. }
  split; auto.
  pose proof I as [I1 I2 I3 I4 I5 I6 I7]. constructor; cbn [sv_tree sv_sessions sv0].
  - exact I1.
  - rewrite map_app. apply NoDup_app_intro; auto; [repeat constructor; intros []|].
    intros k Hk [Hk'|[]]. cbn in Hk'. subst k. unfold get_session in Hnone. apply find_session_none in Hnone. contradiction.
  - rewrite map_app. apply NoDup_app_intro; auto; [repeat constructor; intros []|].
    intros d Hd [Hd'|[]]. cbn in Hd'. subst d. apply in_map_iff in Hd as [ss [H1 H2]]. now apply (Hfresh ss).
  - intros ss Hin. apply in_app_or in Hin as [Hin|[Hin|[]]]; [now apply I4|]. subst ss. cbn. split; [apply wf_empty|lia].
  - intros ss Hin. apply in_app_or in Hin as [Hin|[Hin|[]]]; [|subst ss; now left].
    right. now apply (inv_dirs_exist B sv).
  - intros n Hn Hl. destruct (I6 n Hn Hl) as [ss [H1 H2]]. exists ss. split; [apply in_or_app; now left|auto].
  - intros n Hn. destruct (I7 n Hn) as [H1 H2]. split; auto. intros s'. rewrite H2.
    unfold count_for, get_session. cbn [sv_sessions sv0]. rewrite find_session_app.
    destruct (find_session (sv_sessions sv) s'); auto.
    cbn [s_id ssn]. destruct (N.eqb s s'); reflexivity.
Qed.

Lemma attach_inv : forall B sv s host nm, small B -> inv B sv -> get_session sv s = None ->
  (forall ss, In ss (sv_sessions sv) -> session_dir ss <> [host; nm]) ->
  inv B (attach sv s host nm).
Proof.
  intros B sv s host nm HB I Hnone Hfresh. unfold attach.
  set (ssn := mkSession s host nm empty_matcher default_max_items None []).
  set (sv0 := mkServer (sv_tree sv) (sv_sessions sv ++ [ssn]) (sv_dirty sv)).
  assert (Habsent : find_node (sv_tree sv) [host; nm] = None).
  { apply find_node_none. intros n Hn Hp. destruct (inv_depth2 _ _ _ I n Hn) as [ss [H1 H2]]; [now rewrite Hp|].
    apply (Hfresh ss H1). congruence. }
  assert (I0 : inv_x B [host; nm] sv0).
  { pose proof I as [I1 I2 I3 I4 I5 I6 I7]. constructor; cbn [sv_tree sv_sessions sv0].
    - exact I1.
    - rewrite map_app. apply NoDup_app_intro; auto; [repeat constructor; intros []|].
      intros k Hk [Hk'|[]]. cbn in Hk'. subst k. unfold get_session in Hnone. apply find_session_none in Hnone. contradiction.
    - rewrite map_app. apply NoDup_app_intro; auto; [repeat constructor; intros []|].
      intros d Hd [Hd'|[]]. cbn in Hd'. subst d. apply in_map_iff in Hd as [ss [H1 H2]]. now apply (Hfresh ss).
    - intros ss Hin. apply in_app_or in Hin as [Hin|[Hin|[]]]; [now apply I4|]. subst ss. cbn. split; [apply wf_empty|lia].
    - intros ss Hin. apply in_app_or in Hin as [Hin|[Hin|[]]]; [|subst ss; now left].
      right. now apply (inv_dirs_exist B sv).
    - intros n Hn Hl. destruct (I6 n Hn Hl) as [ss [H1 H2]]. exists ss. split; [apply in_or_app; now left|auto].
    - intros n Hn. destruct (I7 n Hn) as [H1 H2]. split; auto. intros s'. rewrite H2.
      unfold count_for, get_session. cbn [sv_sessions sv0]. rewrite find_session_app.
      destruct (find_session (sv_sessions sv) s'); auto.
      cbn [s_id ssn]. destruct (N.eqb s s'); reflexivity. }
  assert (Hdir0 : exists ss, In ss (sv_sessions sv0) /\ session_dir ss = [host; nm]).
  { exists ssn. split; [cbn; apply in_or_app; right; now left|reflexivity]. }
  (* the host node, when it is not there yet *)
  match goal with |- inv B (push_all (notify_changed (set_tree ?X _) _ _ _ _ _)) => set (sv1 := X) end.
  assert (H1 : inv_x B [host; nm] sv1 /\ has_node (sv_tree sv1) [host] = true
               /\ find_node (sv_tree sv1) [host; nm] = None
               /\ exists ss, In ss (sv_sessions sv1) /\ session_dir ss = [host; nm]).
  { unfold sv1. destruct (has_node (sv_tree sv0) [host]) eqn:Hh.
    - split; [exact I0|split; [exact Hh|split; [exact Habsent|exact Hdir0]]].
    - assert (Hn0 : find_node (sv_tree sv0) ([] ++ [host]) = None).
      { unfold has_node in Hh. cbn [app]. destruct (find_node (sv_tree sv0) [host]); [discriminate|reflexivity]. }
      destruct (add_node_step B [host; nm] sv0 s [] host empty_payload HB I0 Hn0 (or_introl eq_refl)) as [Ia [Ht Hs]].
      { cbn. discriminate. }
      cbn [app] in *. split; [exact Ia|]. rewrite Ht. split; [|split].
      + apply has_node_spec. eexists. split; [apply in_or_app; right; left; reflexivity|reflexivity].
      + apply find_node_none. intros n Hn. apply in_app_or in Hn as [Hn|[Hn|[]]].
        * cbn [sv_tree sv0] in Hn. rewrite find_node_none in Habsent. now apply Habsent.
        * subst n. cbn. discriminate.
      + now apply (core_dir_exists (sv_sessions sv0)). }
  destruct H1 as [I1 [Hhost [Habs1 Hdir1]]].
  destruct (add_node_step B [host; nm] sv1 s [host] nm empty_payload HB I1 Habs1 (or_intror Hhost)) as [I2 [Ht2 _]].
  { intros _. exact Hdir1. }
  cbn [app] in *.
  eapply inv_same_core; [apply push_all_core|].
  apply (inv_x_discharge B [host; nm]); auto.
  rewrite Ht2. apply has_node_spec. eexists. split; [apply in_or_app; right; left; reflexivity|reflexivity].
Qed.


(* ------------------------------------------------------------------ a session leaves *)

Lemma is_prefix_same_length : forall p q, is_prefix p q = true -> length p = length q -> p = q.
Proof.
  intros p q H Hl. apply is_prefix_spec in H as [r Hr]. subst q. rewrite app_length in Hl.
  destruct r; [now rewrite app_nil_r|cbn in Hl; lia].
Qed.

Lemma has_node_prune_self : forall t p, has_node (prune_tree t p) p = false.
Proof.
  intros t p. destruct (has_node (prune_tree t p) p) eqn:E; auto.
  apply has_node_spec in E as [n [H1 H2]]. apply in_prune in H1 as [_ H1]. rewrite H2, is_prefix_refl in H1. discriminate.
Qed.

Lemma has_node_prune_sub : forall t p q, has_node (prune_tree t p) q = true -> has_node t q = true.
Proof.
  intros t p q H. apply has_node_spec in H as [n [H1 H2]]. apply in_prune in H1 as [H1 _].
  apply has_node_spec. eauto.
Qed.

Lemma has_children_false : forall t p n k, has_children t p = false -> In n t -> n_path n = p ++ [k] -> False.
Proof.
  intros t p n k H Hn Hp. unfold has_children in H.
  assert (Hc : In n (children t p)) by (apply children_in; eauto).
  destruct (children t p); [contradiction|discriminate].
Qed.

Lemma count_zero : forall m p, wf_groups (m_groups m) -> matches_node m p None 0 = false -> count_matching m p = 0.
Proof.
  intros m p Hwf H. unfold count_matching.
  destruct (filter (fun e => pat_matches (e_pat e) p) (all_entries m)) as [|e l] eqn:E; auto.
  exfalso. assert (He : In e (filter (fun e => pat_matches (e_pat e) p) (all_entries m))) by (rewrite E; now left).
  apply filter_In in He as [He1 He2].
  assert (matches_node m p None 0 = true); [|congruence].
  apply matches_node_spec; auto; [lia|]. exists e. split; auto.
  unfold path_matches. cbn [skipn]. rewrite He2. unfold filter_ok. now destruct (e_flt e).
Qed.

Lemma filter_upd : forall (l : list session) s f, (forall x, s_id (f x) = s_id x) ->
  filter (fun x => negb (N.eqb (s_id x) s)) (map (fun x => if N.eqb (s_id x) s then f x else x) l)
  = filter (fun x => negb (N.eqb (s_id x) s)) l.
Proof.
  intros l s f Hf. induction l as [|x l IH]; cbn; auto.
  destruct (N.eqb (s_id x) s) eqn:E.
  - rewrite Hf, E. cbn. exact IH.
  - rewrite E. cbn. now rewrite IH.
Qed.

Lemma find_session_filter : forall l s s', s <> s' ->
  find_session (filter (fun x => negb (N.eqb (s_id x) s)) l) s' = find_session l s'.
Proof.
  intros l s s' Hne. induction l as [|x l IH]; cbn; auto.
  destruct (N.eqb (s_id x) s) eqn:E; cbn.
  - apply N.eqb_eq in E. destruct (N.eqb (s_id x) s') eqn:E'; auto.
    apply N.eqb_eq in E'. congruence.
  - destruct (N.eqb (s_id x) s'); auto.
Qed.

Lemma find_session_filter_self : forall l s, find_session (filter (fun x => negb (N.eqb (s_id x) s)) l) s = None.
Proof.
  intros l s. induction l as [|x l IH]; cbn; auto.
  destruct (N.eqb (s_id x) s) eqn:E; cbn; auto. now rewrite E.
Qed.

Lemma NoDup_map_filter : forall (A B : Type) (f : A -> B) (g : A -> bool) l, NoDup (map f l) -> NoDup (map f (filter g l)).
Proof.
  intros A B f g. induction l as [|x l IH]; intros H; cbn; [constructor|].
  cbn in H. inversion H as [|? ? Hx H']; subst. destruct (g x); auto. cbn. constructor; auto.
  intros Hin. apply Hx. apply in_map_iff in Hin as [y [H1 H2]]. apply filter_In in H2 as [H2 _].
  rewrite <- H1. now apply in_map.
Qed.

(* the departing session: no subscription left, its directory gone *)
Lemma inv_drop : forall B exc sv s ss, inv_x B exc sv -> get_session sv s = Some ss ->
  (forall p, count_matching (s_subs ss) p = 0) -> session_dir ss = exc -> has_node (sv_tree sv) exc = false ->
  inv_x B [] (mkServer (sv_tree sv) (filter (fun x => negb (N.eqb (s_id x) s)) (sv_sessions sv)) (sv_dirty sv)).
Proof.
  intros B exc sv s ss [I1 I2 I3 I4 I5 I6 I7] Hss Hzero Hexc Hgone.
  constructor; cbn [sv_tree sv_sessions].
  - exact I1.
  - now apply NoDup_map_filter.
  - now apply NoDup_map_filter.
  - intros x Hin. apply filter_In in Hin as [Hin _]. now apply I4.
  - intros x Hin. apply filter_In in Hin as [Hin Hx]. right. destruct (I5 x Hin) as [E|E]; auto.
    (* a second session with the excepted directory would contradict NoDup of the directories *)
    exfalso. apply negb_true_iff, N.eqb_neq in Hx.
    apply find_session_some in Hss as [Hss1 Hss2].
    assert (x = ss); [|subst; contradiction].
    apply (NoDup_map_inj _ _ session_dir (sv_sessions sv)); auto. congruence.
  - intros n Hn Hl. destruct (I6 n Hn Hl) as [x [H1 H2]]. exists x. split; auto.
    apply filter_In. split; auto. apply negb_true_iff, N.eqb_neq. intros E.
    assert (x = ss) by (apply (session_unique sv s ss x I2 Hss H1 E)). subst x.
    assert (has_node (sv_tree sv) exc = true); [|congruence].
    apply has_node_spec. exists n. split; auto. congruence.
  - intros n Hn. destruct (I7 n Hn) as [H1 H2]. split; auto. intros s'. rewrite H2.
    unfold count_for, get_session. cbn [sv_sessions].
    destruct (N.eq_dec s s') as [E|E].
    + subst s'. rewrite find_session_filter_self. unfold get_session in Hss. rewrite Hss. now rewrite Hzero.
    + now rewrite find_session_filter.
Qed.

Lemma detach_inv : forall B sv s, small B -> inv B sv -> inv B (detach fx sv s).
Proof.
  intros B sv s HB I. unfold detach.
  destruct (get_session sv s) as [ss|] eqn:Hss; auto.
  assert (Hin : In ss (sv_sessions sv)) by (apply find_session_some in Hss; tauto).
  pose proof (inv_dirs_exist B sv ss I Hin) as Hdir.
  assert (Hhost : has_node (sv_tree sv) [s_host ss] = true).
  { apply has_node_spec in Hdir as [n [H1 H2]].
    destruct (inv_tree _ _ _ I) as [_ [_ Hpre]].
    destruct (Hpre n [s_host ss] [s_name ss] H1 H2) as [n' [H3 H4]]; [discriminate|].
    apply has_node_spec. eauto. }
  rewrite Hhost, Hdir.
  (* the session node and everything below it *)
  destruct (remove_subtree_spec sv s (session_dir ss) true (inv_tree _ _ _ I)) as [Ht1 Hs1]; [discriminate|].
  set (sv1 := remove_subtree sv s (session_dir ss) true) in *.
  assert (I1 : inv_x B (session_dir ss) sv1).
  { apply (inv_prune B [] (session_dir ss) sv sv1 (session_dir ss) I Ht1 Hs1).
    - intros x Hx Hp. symmetry. apply is_prefix_same_length; auto.
    - intros x _ E. discriminate. }
  (* the host node, when it has become empty *)
  match goal with |- inv B (mkServer _ (filter _ (sv_sessions (push_all ?X))) _) => set (sv2 := X) end.
  assert (I2 : inv_x B (session_dir ss) sv2 /\ map core (sv_sessions sv2) = map core (sv_sessions sv)
               /\ has_node (sv_tree sv2) (session_dir ss) = false).
  { unfold sv2. destruct (has_children (sv_tree sv1) [s_host ss]) eqn:Hch.
    - split; [exact I1|split; [exact Hs1|]]. rewrite Ht1. apply has_node_prune_self.
    - destruct (remove_subtree_spec sv1 s [s_host ss] true (inv_tree _ _ _ I1)) as [Ht2 Hs2]; [discriminate|].
      split; [|split].
      + apply (inv_prune B (session_dir ss) (session_dir ss) sv1 _ [s_host ss] I1 Ht2 Hs2); auto.
        intros x Hx Hp. destruct (inv_dirs _ _ _ I1 x Hx) as [E|E]; auto.
        exfalso. apply has_node_spec in E as [n [H1 H2]].
        apply is_prefix_spec in Hp as [r Hr]. unfold session_dir in Hr. cbn in Hr. inversion Hr; subst r.
        apply (has_children_false (sv_tree sv1) [s_host ss] n (s_name x) Hch H1). rewrite H2. unfold session_dir. cbn. congruence.
      + congruence.
      + rewrite Ht2. destruct (has_node (prune_tree (sv_tree sv1) [s_host ss]) (session_dir ss)) eqn:E; auto.
        apply has_node_prune_sub in E. rewrite Ht1, has_node_prune_self in E. discriminate. }
  destruct I2 as [I2 [Hs2 Hgone2]].
  destruct (push_all_core sv2) as [Ht3 Hs3]. set (sv3 := push_all sv2) in *.
  assert (I3 : inv_x B (session_dir ss) sv3) by (eapply inv_same_core; [split; eauto|exact I2]).
  assert (Hc3 : map core (sv_sessions sv3) = map core (sv_sessions sv)) by congruence.
  assert (Hsc : same_core sv (mkServer (sv_tree sv) (sv_sessions sv3) (sv_dirty sv3))) by (split; auto).
  pose proof (get_session_core _ _ s Hsc) as Hg. rewrite Hss in Hg.
  change (get_session (mkServer (sv_tree sv) (sv_sessions sv3) (sv_dirty sv3)) s) with (get_session sv3 s) in Hg.
  destruct (get_session sv3 s) as [ss3|] eqn:Hss3; [|contradiction].
  assert (Hsub3 : s_subs ss3 = s_subs ss) by (unfold core in Hg; congruence).
  assert (Hdir3 : session_dir ss3 = session_dir ss) by (unfold session_dir; unfold core in Hg; congruence).
  assert (Hin3 : In ss3 (sv_sessions sv3)) by (apply find_session_some in Hss3; tauto).
  destruct (inv_subs _ _ _ I3 ss3 Hin3) as [Hw3 Hn3].
  (* unmark, then forget the session *)
  pose proof (inv_remark B B (session_dir ss) sv3 s ss3 empty_matcher (s_subs ss) cleanup_delta I3 Hss3 (le_n _)
                wf_empty) as Hrem.
  assert (Irem : inv_x B (session_dir ss)
            (set_tree (upd_session sv3 s (fun x => set_subs x empty_matcher))
                      (mark_nodes fx (sv_tree sv3) (s_subs ss) s cleanup_delta))).
  { apply Hrem.
    - cbn. lia.
    - rewrite <- Hsub3. apply Hw3.
    - intros n Hn. cbn [count_matching all_entries empty_matcher m_groups flat_map filter length]. rewrite Hsub3.
      destruct (matches_node (s_subs ss) (n_path n) None 0) eqn:Em.
      + rewrite adj_clear; auto. rewrite <- Hsub3. apply (count_bound B); auto.
      + rewrite count_zero; auto. rewrite <- Hsub3. apply Hw3. }
  pose proof (inv_drop B (session_dir ss) _ s (set_subs ss3 empty_matcher) Irem) as Hdrop.
  assert (Hfin : inv_x B []
     (mkServer (mark_nodes fx (sv_tree sv3) (s_subs ss) s cleanup_delta)
               (filter (fun x => negb (N.eqb (s_id x) s)) (sv_sessions sv3)) (sv_dirty sv3))).
  { rewrite <- (filter_upd (sv_sessions sv3) s (fun x => set_subs x empty_matcher)) by reflexivity.
    apply Hdrop.
    - change (get_session (set_tree (upd_session sv3 s (fun x => set_subs x empty_matcher))
                                   (mark_nodes fx (sv_tree sv3) (s_subs ss) s cleanup_delta)) s)
        with (get_session (upd_session sv3 s (fun x => set_subs x empty_matcher)) s).
      rewrite get_session_upd by reflexivity. now rewrite N.eqb_refl, Hss3.
    - intros p. reflexivity.
    - exact Hdir3.
    - cbn [sv_tree set_tree]. rewrite mark_nodes_spec; [|apply (inv_tree _ _ _ I3)|rewrite <- Hsub3; apply Hw3].
      rewrite has_node_map; [now rewrite Ht3|].
      intros n. destruct (matches_node (s_subs ss) (n_path n) None 0); reflexivity. }
  destruct (sv_tree sv3) as [|n0 t0] eqn:Et3; [|exact Hfin].
  (* an emptied tree: nothing to unmark *)
  assert (Hm : mark_nodes fx [] (s_subs ss) s cleanup_delta = []).
  { rewrite mark_nodes_spec; [reflexivity| |rewrite <- Hsub3; apply Hw3].
    split; [constructor|split; [intros n []|intros n q r []]]. }
  now rewrite Hm in Hfin.
Qed.


(* ------------------------------------------------------------------ commands *)

Fixpoint cmd_budget (c : cmd) : nat :=
  match c with
  | CSubscribe _ subs => length subs
  | CBatch l => (fix sum (l : list cmd) : nat := match l with [] => 0 | c' :: r => cmd_budget c' + sum r end) l
  | _ => 0
  end.

Lemma cmd_ind' : forall P : cmd -> Prop,
  (forall f i, P (CSetData f i)) -> (forall q k, P (CRemoveData q k)) -> (forall q k, P (CSubscribe q k)) ->
  (forall k, P (CUnsubscribe k)) -> (forall n, P (CSetMax n)) -> P CResetMax -> (forall k, P (CGetData k)) ->
  (forall l, Forall P l -> P (CBatch l)) -> forall c, P c.
Proof.
  intros P H1 H2 H3 H4 H5 H6 H7 H8. fix IH 1. intros c.
  destruct c; [apply H1|apply H2|apply H3|apply H4|apply H5|apply H6|apply H7|].
  apply H8. induction l as [|c l IHl]; constructor; [apply IH|exact IHl].
Qed.

Lemma set_data_items_inv : forall B items sv s flags, small B -> inv B sv ->
  inv B (fold_left (fun sv' it => match get_session sv' s with
                                  | Some ss' => match fst it with
                                                | [] => sv'
                                                | _ => set_data_node sv' ss' (fst it) (snd it) flags
                                                end
                                  | None => sv'
                                  end) items sv).
Proof.
  intros B. induction items as [|it items IH]; intros sv s flags HB I; cbn [fold_left]; auto.
  apply IH; auto.
  destruct (get_session sv s) as [ss|] eqn:Hss; auto.
  destruct (fst it) as [|k rel]; auto.
  unfold set_data_node. apply set_data_loop_inv; auto.
  apply (inv_dirs_exist B sv); auto. apply find_session_some in Hss. tauto.
Qed.

Lemma subscribe_fold_inv : forall subs B sv s, small (B + length subs) -> inv B sv ->
  inv (B + length subs) (fold_left (fun sv' sf => subscribe_one fx sv' s sf) subs sv).
Proof.
  induction subs as [|sf subs IH]; intros B sv s HB I; cbn [fold_left length].
  - now rewrite Nat.add_0_r.
  - replace (B + S (length subs)) with (S B + length subs) by lia.
    apply IH; [unfold small in *; cbn [length] in HB; lia|].
    apply subscribe_one_inv; auto. unfold small in *. cbn [length] in HB. lia.
Qed.

Lemma unsubscribe_fold_inv : forall subs B sv s, small B -> inv B sv ->
  inv B (fold_left (fun sv' sp => unsubscribe_one fx sv' s sp) subs sv).
Proof.
  induction subs as [|sp subs IH]; intros B sv s HB I; cbn [fold_left]; auto.
  apply IH; auto. now apply unsubscribe_one_inv.
Qed.

Lemma small_le : forall a b, a <= b -> small b -> small a.
Proof. intros a b H Hb. unfold small in *. lia. Qed.

Lemma handle_inv : forall c nest sv s B, small (B + cmd_budget c) -> inv B sv ->
  inv (B + cmd_budget c) (handle fx nest sv s c).
Proof.
  induction c using cmd_ind'; intros nest sv s B HB I; cbn [handle cmd_budget] in *;
    destruct (get_session sv s) as [ss|] eqn:Hss;
    try (rewrite Nat.add_0_r in *); auto.
  - now apply set_data_items_inv.
  - now apply do_remove_data_inv.
  - pose proof (subscribe_fold_inv k B sv s HB I) as I1.
    destruct q; auto. destruct k as [|sf k]; auto.
    eapply inv_same_core; [apply do_get_data_core|].
    destruct (fx_push fx); auto. eapply inv_same_core; [apply push_all_core|exact I1].
  - apply (inv_weaken B); auto. lia.
  - now apply unsubscribe_fold_inv.
  - eapply inv_same_core; [apply upd_session_core; reflexivity|exact I].
  - eapply inv_same_core; [apply upd_session_core; reflexivity|exact I].
  - eapply inv_same_core; [apply do_get_data_core|exact I].
  - destruct (Nat.ltb nest max_batch_nest); [|apply (inv_weaken B); auto; lia].
    clear Hss ss. revert sv B HB I. induction H as [|c l Hc Hl IHl]; intros sv B HB I.
    + now rewrite Nat.add_0_r.
    + match goal with |- inv (B + ?X) _ => set (rest := X) in * end.
      cbn [cmd_budget] in rest.
      match goal with |- context [push_all (handle fx (S nest) sv s c)] =>
        assert (I1 : inv (B + cmd_budget c) (push_all (handle fx (S nest) sv s c))) end.
      { eapply inv_same_core; [apply push_all_core|]. apply Hc; auto. eapply small_le; [|exact HB]. unfold rest. lia. }
      unfold rest. rewrite Nat.add_assoc. apply IHl; auto. now rewrite <- Nat.add_assoc.
  - apply (inv_weaken B); auto. lia.
Qed.

(* ------------------------------------------------------------------ histories *)

Definition ev_budget (ev : event) : nat := match ev with ECmd _ c => cmd_budget c | _ => 0 end.

(* the one condition on a history: a session arrives under a (host, session name) pair no attached session has
   (session ids are unique, ReflectServer hands them out from a counter) *)
Definition wf_event (sv : server) (ev : event) : Prop :=
  match ev with
  | EAttach s host nm => forall ss, In ss (sv_sessions sv) -> session_dir ss <> [host; nm]
  | _ => True
  end.

Fixpoint wf_run (sv : server) (evs : list event) : Prop :=
  match evs with
  | [] => True
  | ev :: r => wf_event sv ev /\ wf_run (step fx sv ev) r
  end.

Fixpoint run_budget (evs : list event) : nat :=
  match evs with [] => 0 | ev :: r => ev_budget ev + run_budget r end.

Lemma step_inv : forall ev sv B, small (B + ev_budget ev) -> inv B sv -> wf_event sv ev ->
  inv (B + ev_budget ev) (step fx sv ev).
Proof.
  intros [s host nm|s|s c] sv B HB I Hwf; cbn [step ev_budget] in *; try rewrite Nat.add_0_r in *.
  - destruct (get_session sv s) eqn:Hs; auto. now apply attach_inv.
  - now apply detach_inv.
  - destruct (get_session sv s); [|apply (inv_weaken B); auto; lia].
    eapply inv_same_core; [apply push_all_core|]. now apply handle_inv.
Qed.

Lemma empty_inv : inv 0 empty_server.
Proof.
  constructor; cbn.
  - split; [constructor|split; [intros n []|intros n q r []]].
  - constructor.
  - constructor.
  - intros ss [].
  - intros ss [].
  - intros n [].
  - intros n [].
Qed.

Theorem run_inv : forall evs sv B, small (B + run_budget evs) -> inv B sv -> wf_run sv evs ->
  inv (B + run_budget evs) (run fx evs sv).
Proof.
  induction evs as [|ev evs IH]; intros sv B HB I Hwf; cbn [run fold_left run_budget] in *.
  - now rewrite Nat.add_0_r.
  - destruct Hwf as [Hw1 Hw2]. rewrite Nat.add_assoc. apply IH; auto.
    + now rewrite <- Nat.add_assoc.
    + apply step_inv; auto. eapply small_le; [|exact HB]. lia.
Qed.

End ServerProofs.
